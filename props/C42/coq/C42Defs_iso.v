(* C42, program C41Plasticity: definitions, exactness of the Newton step and the proof script of the rows of the tangent
   operator (checked concurrently in C42Proofs_iso_r0.v .. r2.v).
   Program C41Plasticity (IsotropicPlasticMisesFlow DSL, f = seq - H p - s0, theta = 1): the closed-form consistent tangent
   operator emitted by the DSL is the derivative of the converged stress with respect to the strain increment.
   The scalar equation is linear in dp, so the converged plastic increment is dp*(deto) = (seq_e(deto) - H p - s0) / (3 mu + H)
   and the converged stress is the explicit function  sig(deto) = Hooke (eel + deto - dp*(deto) n(deto))  (iso_final). *)
From Coq Require Import Reals List Lra.
From Coquelicot Require Import Coquelicot.
From VLib Require Import RealExtra.
Require Import GBehLib BehSpec GenIso.
Import ListNotations.
Local Open Scope R_scope.

Ltac spec_unfold := unfold pl_yield, cr_residual, iso_final, iso_seq, iso_seq2, iso_se, sublist, normal, vmises, seq2, dev, hooke, lame_lambda, lame_mu,
  vadd, vsub, vscal, vdot, vmap2, tabulate, diag3, tr3, nthR in *.

(* solution of the radial-return equation of J2 plasticity with linear isotropic hardening *)
Definition pl_dpstar (eel deto : list R) (p young nu H s0 : R) : R :=
  (vmises (iso_se eel deto young nu 1) - H * p - s0) / (3 * lame_mu young nu + H).
(* converged stress as a function of the strain increment *)
Definition pl_sig (eel deto : list R) (p young nu H s0 : R) : list R :=
  sublist 4 3 (iso_final eel deto p young nu 1 (pl_dpstar eel deto p young nu H s0)).

(* one Newton iteration of the generated code from ANY dp0 lands on dp* (the equation is linear) *)
Lemma pl_hag_newton_exact eel0 eel1 eel2 deto0 deto1 deto2 p young nu H s0 dt epsilon dp0 :
  let eel := [eel0;eel1;eel2] in let deto := [deto0;deto1;deto2] in
  0 < young -> 0 < 1 + nu -> 1 - 2 * nu <> 0 -> 0 <= H -> 0 < iso_seq2 eel deto young nu 1 ->
  nthR (pl_int_hag_l eel deto p young nu H s0 dt 1 epsilon dp0) 3 = pl_dpstar eel deto p young nu H s0.
Proof.
  intros eel deto Hy H1 H2 HH Hs. unfold eel, deto, pl_dpstar in *. clear eel deto.
  spec_unfold. cbn in Hs |- *.
  lazy beta iota zeta delta [pl_int_hag_l pl_int_hag nthR nth].
  match type of Hs with 0 < ?a => unify_sqrt a ltac:(field; nz); set (q := sqrt a) in * end.
  assert (Hq : 0 < q) by (apply sqrt_lt_R0; exact Hs).
  assert (Hd : 0 < 3 * (young / (2 * (1 + nu))) + H).
  { assert (0 < young / (2 * (1 + nu))) by (apply Rdiv_lt_0_compat; lra). lra. }
  field. repeat split; try lra; nzz.
Qed.

Definition pl_tangent_dom (eel0 eel1 eel2 deto0 deto1 deto2 young nu H : R) : Prop :=
  0 < young /\ 0 < 1 + nu /\ 1 - 2 * nu <> 0 /\ 0 <= H /\ 0 < iso_seq2 [eel0;eel1;eel2] [deto0;deto1;deto2] young nu 1.
Definition pl_tangent_entry (eel0 eel1 eel2 deto0 deto1 deto2 p young nu H s0 dt epsilon dp0 : R) (i j : nat) : Prop :=
  is_derive (fun x => nthR (pl_sig [eel0;eel1;eel2] (upd [deto0;deto1;deto2] j x) p young nu H s0) i) (nthR [deto0;deto1;deto2] j)
            (nthR (pl_int_hag_l [eel0;eel1;eel2] [deto0;deto1;deto2] p young nu H s0 dt 1 epsilon dp0) (11 + 3 * i + j)).

(* goal: pl_tangent_dom .. -> forall i j, (a <= i < a + n) -> (j < 3) -> pl_tangent_entry .. i j *)
Ltac pl_tangent_rows :=
  intros (Hy & H1 & H2 & HH & Hs); unfold pl_tangent_entry; spec_unfold; cbn in Hs;
  let la := fresh "la" in let mu := fresh "mu" in let T := fresh "T" in let Hmu := fresh "Hmu" in let Hd := fresh "Hd" in
  match goal with |- context[pl_int_hag_l [?eel0;?eel1;?eel2] [?deto0;?deto1;?deto2] ?p ?young ?nu ?H ?s0 ?dt 1 ?epsilon ?dp0] =>
    set (la := nu * young / ((1 + nu) * (1 - 2 * nu))) in *;
    set (mu := young / (2 * (1 + nu))) in *;
    assert (Hmu : 0 < mu) by (apply Rdiv_lt_0_compat; lra);
    assert (Hd : 0 < 3 * mu + H) by lra;
    pose (T := nthR (pl_int_hag_l [eel0;eel1;eel2] [deto0;deto1;deto2] p young nu H s0 dt 1 epsilon dp0) 11);
    lazy beta iota zeta delta [pl_int_hag_l pl_int_hag nthR nth] in T; fold la mu in T; unfold Rminus, Rdiv in T;
    with_sqrt T Hs ltac:(fun sb q => clear T;
      forall_pairs_from_tac ltac:(
        unfold pl_sig, pl_dpstar; spec_unfold;
        lazy beta iota zeta delta [pl_int_hag_l pl_int_hag nthR nth upd Nat.mul Nat.add firstn skipn app length map combine fst snd List.seq
                                   fold_right Nat.ltb Nat.leb];
        fold la mu;
        auto_derive; unfold Rminus, Rdiv;
        unify_sqrt sb ltac:(unfold sb; field; lra); fold q;
        [ pos_side | field; pos_side ]))
  end.

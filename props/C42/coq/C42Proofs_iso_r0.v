(* C42, C41Plasticity: row 0 of the closed-form tangent operator is the derivative of the converged stress (see C42Defs_iso.v) *)
From Coq Require Import Reals List Lra.
From Coquelicot Require Import Coquelicot.
From VLib Require Import RealExtra.
Require Import GBehLib BehSpec GenIso C42Defs_iso.
Import ListNotations.
Local Open Scope R_scope.

Lemma pl_tangent_row0 eel0 eel1 eel2 deto0 deto1 deto2 p young nu H s0 dt epsilon dp0 :
  pl_tangent_dom eel0 eel1 eel2 deto0 deto1 deto2 young nu H ->
  forall i j, (0 <= i < 0 + 1)%nat -> (j < 3)%nat -> pl_tangent_entry eel0 eel1 eel2 deto0 deto1 deto2 p young nu H s0 dt epsilon dp0 i j.
Proof. unfold pl_tangent_dom. pl_tangent_rows. Qed.

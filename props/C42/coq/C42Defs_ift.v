(* C42, program C41ImplicitNorton, implicit-function step: definitions and the proof script of the chain rule
     d/dt fzeros_i(deto_k := t, zeros := Y(t)) = sum_j jacobian(i,j) Y_j'(t) + d fzeros_i / d deto_k
   along ANY differentiable path Y of unknowns (auto_derive with the unknown functions y0..y3), for the traced residual and
   the traced jacobian.  The four rows are checked concurrently (C42Proofs_ift_r0.v .. r3.v). *)
From Coq Require Import Reals List Lra Lia.
From Coquelicot Require Import Coquelicot.
From VLib Require Import RealExtra.
Require Import GBehLib BehSpec GenNorton.
Import ListNotations.
Local Open Scope R_scope.

Ltac spec_unfold := unfold norton_residual, norton_seq2, norton_final, normal, vmises, seq2, dev, hooke, lame_lambda, lame_mu,
  vadd, vsub, vscal, vdot, vmap2, tabulate, diag3, tr3, nthR in *.

(* a path of unknowns (deel0, deel1, deel2, dp) parametrised by the k-th component t of the strain increment *)
Definition Y4 (y0 y1 y2 y3 : R -> R) (t : R) : list R := [y0 t; y1 t; y2 t; y3 t].
Definition deto_at (deto0 deto1 deto2 : R) (k : nat) (t : R) : list R := upd [deto0;deto1;deto2] k t.
Definition FZ (eel0 eel1 eel2 deto0 deto1 deto2 p young nu A E dt theta : R) (y0 y1 y2 y3 : R -> R) (k : nat) (t : R) : list R :=
  no_fz_hag_l [eel0;eel1;eel2] (deto_at deto0 deto1 deto2 k t) p young nu A E dt theta (Y4 y0 y1 y2 y3 t).
Definition JAC (eel0 eel1 eel2 deto0 deto1 deto2 p young nu A E dt theta : R) (y0 y1 y2 y3 : R -> R) (k : nat) (t : R) : list R :=
  no_jac_hag_l [eel0;eel1;eel2] (deto_at deto0 deto1 deto2 k t) p young nu A E dt theta (Y4 y0 y1 y2 y3 t).
(* converged state and stress at the end of the step: (eel[3], p, sig[3]) *)
Definition FIN (eel0 eel1 eel2 deto0 deto1 deto2 p young nu A E dt theta : R) (y0 y1 y2 y3 : R -> R) (k : nat) (t : R) : list R :=
  no_fin_hag_l [eel0;eel1;eel2] (deto_at deto0 deto1 deto2 k t) p young nu A E dt theta (Y4 y0 y1 y2 y3 t).
Definition path_derive (y0 y1 y2 y3 : R -> R) (t0 yp0 yp1 yp2 yp3 : R) : Prop :=
  is_derive y0 t0 yp0 /\ is_derive y1 t0 yp1 /\ is_derive y2 t0 yp2 /\ is_derive y3 t0 yp3.
Definition chain_dom (eel0 eel1 eel2 deto0 deto1 deto2 p young nu A E dt theta : R) (y0 y1 y2 y3 : R -> R) (t0 : R) : Prop :=
  1 + nu <> 0 /\ 1 - 2 * nu <> 0 /\ 0 < norton_seq2 3 [eel0;eel1;eel2] young nu theta (Y4 y0 y1 y2 y3 t0).
Definition chain_entry (eel0 eel1 eel2 deto0 deto1 deto2 p young nu A E dt theta : R) (y0 y1 y2 y3 : R -> R) (t0 yp0 yp1 yp2 yp3 : R) (i k : nat) : Prop :=
  is_derive (fun t => nthR (FZ eel0 eel1 eel2 deto0 deto1 deto2 p young nu A E dt theta y0 y1 y2 y3 k t) i) t0
            (sumn 4 (fun j => mget 4 (JAC eel0 eel1 eel2 deto0 deto1 deto2 p young nu A E dt theta y0 y1 y2 y3 k t0) i j * nthR [yp0;yp1;yp2;yp3] j) - delta i k).

(* goal: path_derive .. -> chain_dom .. -> forall i k, (a <= i < a + n) -> (k < 3) -> chain_entry .. i k *)
Ltac chain_rows :=
  intros (Hy0 & Hy1 & Hy2 & Hy3) (H1 & H2 & Hs); unfold chain_entry; unfold Y4 in Hs; spec_unfold; cbn in Hs;
  let la := fresh "la" in let mu := fresh "mu" in let T := fresh "T" in
  let e0 := fresh "e0" in let e1 := fresh "e1" in let e2 := fresh "e2" in
  let g0 := fresh "g0" in let g1 := fresh "g1" in let g2 := fresh "g2" in
  let E0 := fresh "E0" in let E1 := fresh "E1" in let E2 := fresh "E2" in let E3 := fresh "E3" in
  let X0 := fresh "X0" in let X1 := fresh "X1" in let X2 := fresh "X2" in let X3 := fresh "X3" in
  match goal with |- context[JAC ?eel0 ?eel1 ?eel2 ?deto0 ?deto1 ?deto2 ?p ?young ?nu ?A ?E ?dt ?theta ?y0 ?y1 ?y2 ?y3 _ ?t0] =>
    match type of Hy0 with is_derive _ _ ?yp0 => match type of Hy1 with is_derive _ _ ?yp1 =>
    match type of Hy2 with is_derive _ _ ?yp2 => match type of Hy3 with is_derive _ _ ?yp3 =>
    assert (E0 : Derive (fun x => y0 x) t0 = yp0) by (apply is_derive_unique; exact Hy0);
    assert (E1 : Derive (fun x => y1 x) t0 = yp1) by (apply is_derive_unique; exact Hy1);
    assert (E2 : Derive (fun x => y2 x) t0 = yp2) by (apply is_derive_unique; exact Hy2);
    assert (E3 : Derive (fun x => y3 x) t0 = yp3) by (apply is_derive_unique; exact Hy3);
    assert (X0 : ex_derive (fun x => y0 x) t0) by (exists yp0; exact Hy0);
    assert (X1 : ex_derive (fun x => y1 x) t0) by (exists yp1; exact Hy1);
    assert (X2 : ex_derive (fun x => y2 x) t0) by (exists yp2; exact Hy2);
    assert (X3 : ex_derive (fun x => y3 x) t0) by (exists yp3; exact Hy3)
    end end end end;
    (* abstraction of the Lame coefficients, of the strains eel + theta deel and of the stresses (speed only) *)
    set (la := nu * young / ((1 + nu) * (1 - 2 * nu))) in *;
    set (mu := young / (2 * (1 + nu))) in *;
    set (e0 := eel0 + theta * y0 t0) in *; set (e1 := eel1 + theta * y1 t0) in *; set (e2 := eel2 + theta * y2 t0) in *;
    set (g0 := la * (e0 + e1 + e2) + 2 * mu * e0) in *; set (g1 := la * (e0 + e1 + e2) + 2 * mu * e1) in *;
    set (g2 := la * (e0 + e1 + e2) + 2 * mu * e2) in *;
    pose (T := nthR (JAC eel0 eel1 eel2 deto0 deto1 deto2 p young nu A E dt theta y0 y1 y2 y3 0 t0) 3);
    lazy beta iota zeta delta [JAC Y4 deto_at upd no_jac_hag_l no_jac_hag nthR nth] in T;
    fold la mu in T; fold e0 e1 e2 in T; fold g0 g1 g2 in T; unfold Rminus, Rdiv in T;
    with_sqrt T Hs ltac:(fun sb q => clear T;
      forall_pairs_from_tac ltac:(
        lazy beta iota zeta delta [FZ JAC Y4 deto_at upd no_fz_hag_l no_jac_hag_l no_fz_hag no_jac_hag nthR nth Nat.mul Nat.add
                                   sumn mget delta Nat.eqb List.seq map fold_right Rpower];
        fold la mu;
        auto_derive; fold e0 e1 e2; fold g0 g1 g2; unfold Rminus, Rdiv; fold sb; fold q;
        [ repeat split; first [ assumption | exact I | pos1 ]
        | rewrite ?E0, ?E1, ?E2, ?E3; field; pos_side ]))
  end.

(* C42: finite sums and the uniqueness of the solution of a square linear system with an invertible matrix
   (matrices are row-major lists read with mget, vectors are functions nat -> R). *)
From Coq Require Import Reals List Lra Lia.
From VLib Require Import RealExtra.
Require Import GBehLib BehSpec.
Import ListNotations.
Local Open Scope R_scope.

Lemma sumn_S n f : sumn (S n) f = sumn n f + f n.
Proof.
  unfold sumn. rewrite seq_S, map_app, fold_right_app. cbn [map fold_right Nat.add].
  generalize (map f (seq 0 n)). intros l. induction l as [ | a l IH ]; cbn [fold_right]; [ ring | rewrite IH; ring ].
Qed.
Lemma sumn_ext n f g : (forall i, (i < n)%nat -> f i = g i) -> sumn n f = sumn n g.
Proof. induction n as [ | n IH ]; intros H; [ reflexivity | rewrite !sumn_S, IH, (H n); auto with arith ]. Qed.
Lemma sumn_scal n c f : c * sumn n f = sumn n (fun i => c * f i).
Proof. induction n as [ | n IH ]; [ unfold sumn; cbn; ring | rewrite !sumn_S, <- IH; ring ]. Qed.
Lemma sumn_plus n f g : sumn n f + sumn n g = sumn n (fun i => f i + g i).
Proof. induction n as [ | n IH ]; [ unfold sumn; cbn; ring | rewrite !sumn_S, <- IH; ring ]. Qed.
Lemma sumn_zero n : sumn n (fun _ => 0) = 0.
Proof. induction n as [ | n IH ]; [ reflexivity | rewrite sumn_S, IH; ring ]. Qed.
Lemma sumn_swap n m (f : nat -> nat -> R) :
  sumn n (fun i => sumn m (fun j => f i j)) = sumn m (fun j => sumn n (fun i => f i j)).
Proof.
  induction n as [ | n IH ].
  - unfold sumn at 1. cbn. symmetry. apply (eq_trans (sumn_ext m _ (fun _ => 0) (fun j _ => eq_refl))). apply sumn_zero.
  - rewrite sumn_S, IH, sumn_plus. apply sumn_ext. intros j _. rewrite sumn_S. reflexivity.
Qed.
Lemma sumn_delta n j (a : nat -> R) : (j < n)%nat -> sumn n (fun l => delta j l * a l) = a j.
Proof.
  induction n as [ | n IH ]; intros Hj; [ lia | ]. rewrite sumn_S. unfold delta at 2.
  destruct (Nat.eq_dec j n) as [ -> | Hne ].
  - rewrite Nat.eqb_refl. rewrite (sumn_ext n _ (fun _ => 0)); [ rewrite sumn_zero; ring | ].
    intros i Hi. unfold delta. replace (n =? i)%nat with false by (symmetry; apply Nat.eqb_neq; lia). ring.
  - replace (j =? n)%nat with false by (symmetry; apply Nat.eqb_neq; lia). rewrite IH by lia. ring.
Qed.

(* J a = J b and Jinv J = I imply a = b *)
Lemma lin_unique n (J Jinv : list R) (a b : nat -> R) :
  (forall i l, (i < n)%nat -> (l < n)%nat -> sumn n (fun m => mget n Jinv i m * mget n J m l) = delta i l) ->
  (forall i, (i < n)%nat -> sumn n (fun l => mget n J i l * a l) = sumn n (fun l => mget n J i l * b l)) ->
  forall j, (j < n)%nat -> a j = b j.
Proof.
  intros Hinv Hab j Hj.
  assert (K : forall c : nat -> R, sumn n (fun i => mget n Jinv j i * sumn n (fun l => mget n J i l * c l)) = c j).
  { intros c.
    rewrite (sumn_ext n _ (fun i => sumn n (fun l => mget n Jinv j i * mget n J i l * c l)))
      by (intros i _; rewrite sumn_scal; apply sumn_ext; intros; ring).
    rewrite sumn_swap.
    rewrite (sumn_ext n _ (fun l => delta j l * c l)).
    - apply sumn_delta; exact Hj.
    - intros l Hl. rewrite <- (Hinv j l Hj Hl).
      rewrite (Rmult_comm _ (c l)), sumn_scal. apply sumn_ext. intros; ring. }
  rewrite <- (K a), <- (K b). apply sumn_ext. intros i Hi. rewrite (Hab i Hi). reflexivity.
Qed.

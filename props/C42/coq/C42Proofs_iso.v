(* C42, C41Plasticity: the three rows of the closed-form tangent operator put together. *)
From Coq Require Import Reals List Lra Lia.
From Coquelicot Require Import Coquelicot.
From VLib Require Import RealExtra.
Require Import GBehLib BehSpec GenIso C42Defs_iso C42Proofs_iso_r0 C42Proofs_iso_r1 C42Proofs_iso_r2.
Import ListNotations.
Local Open Scope R_scope.

Lemma pl_hag_tangent eel0 eel1 eel2 deto0 deto1 deto2 p young nu H s0 dt epsilon dp0 :
  pl_tangent_dom eel0 eel1 eel2 deto0 deto1 deto2 young nu H ->
  forall i j, (i < 3)%nat -> (j < 3)%nat -> pl_tangent_entry eel0 eel1 eel2 deto0 deto1 deto2 p young nu H s0 dt epsilon dp0 i j.
Proof.
  intros Hd i j Hi Hj.
  destruct i as [ | [ | [ | i ] ] ]; [ apply pl_tangent_row0 | apply pl_tangent_row1 | apply pl_tangent_row2 | lia ]; try assumption; lia.
Qed.

(* C42 -- property theorems, program C41Plasticity (IsotropicPlasticMisesFlow DSL): closed-form tangent operator
   (proof in C42Defs_iso.v; the tangent operator itself: Properties_C42_isotgt.v, thorough tier); traced definitions regenerated on each run (see props/C41). *)
From Coq Require Import Reals List.
From Coquelicot Require Import Coquelicot.
From VLib Require Import RealExtra.
Require Import GBehLib BehSpec GenIso C42Defs_iso.
Import ListNotations.
Local Open Scope R_scope.

(* the scalar equation is linear: one Newton iteration of the generated code from any dp0 gives the solution dp* *)
Theorem C42_plasticity_newton_step_is_solution : forall eel0 eel1 eel2 deto0 deto1 deto2 p young nu H s0 dt epsilon dp0,
  let eel := [eel0;eel1;eel2] in let deto := [deto0;deto1;deto2] in
  0 < young -> 0 < 1 + nu -> 1 - 2 * nu <> 0 -> 0 <= H -> 0 < iso_seq2 eel deto young nu 1 ->
  nthR (pl_int_hag_l eel deto p young nu H s0 dt 1 epsilon dp0) 3 = pl_dpstar eel deto p young nu H s0.
Proof. exact pl_hag_newton_exact. Qed.
Print Assumptions C42_plasticity_newton_step_is_solution.

(* C42, C41ImplicitNorton, chain rule along a path of unknowns: row 0 of the residual (see C42Defs_ift.v) *)
From Coq Require Import Reals List Lra Lia.
From Coquelicot Require Import Coquelicot.
From VLib Require Import RealExtra.
Require Import GBehLib BehSpec GenNorton C42Defs_ift.
Import ListNotations.
Local Open Scope R_scope.

Lemma chain_row0 eel0 eel1 eel2 deto0 deto1 deto2 p young nu A E dt theta y0 y1 y2 y3 t0 yp0 yp1 yp2 yp3 :
  path_derive y0 y1 y2 y3 t0 yp0 yp1 yp2 yp3 -> chain_dom eel0 eel1 eel2 deto0 deto1 deto2 p young nu A E dt theta y0 y1 y2 y3 t0 ->
  forall i k, (0 <= i < 0 + 1)%nat -> (k < 3)%nat ->
  chain_entry eel0 eel1 eel2 deto0 deto1 deto2 p young nu A E dt theta y0 y1 y2 y3 t0 yp0 yp1 yp2 yp3 i k.
Proof. unfold path_derive, chain_dom. chain_rows. Qed.

(* C42, program C41Elasticity: the traced tangent operator is the derivative of the traced stress w.r.t. the strain increment. *)
From Coq Require Import Reals List Lra.
From Coquelicot Require Import Coquelicot.
From VLib Require Import RealExtra.
Require Import GBehLib BehSpec GenEl.
Import ListNotations.
Local Open Scope R_scope.

Lemma el_Dt_h3d_ok e0 e1 e2 e3 e4 e5 d0 d1 d2 d3 d4 d5 young nu :
  1 + nu <> 0 -> 1 - 2 * nu <> 0 ->
  let e := [e0;e1;e2;e3;e4;e5] in let de := [d0;d1;d2;d3;d4;d5] in
  forall i j, (i < 6)%nat -> (j < 6)%nat ->
  is_derive (fun x => nthR (el_sig_h3d_l e (upd de j x) young nu) i) (nthR de j) (nthR (el_Dt_h3d_l e de young nu) (6 * i + j)).
Proof.
  intros Hn1 Hn2 e de.
  forall_pairs_tac ltac:(unfold e, de, el_sig_h3d_l, el_Dt_h3d_l, el_sig_h3d, el_Dt_h3d, nthR; cbn [upd nth Nat.mul Nat.add];
                         auto_derive; [ repeat split; auto | field; auto ]).
Qed.

Lemma el_Dt_hag_ok e0 e1 e2 d0 d1 d2 young nu :
  1 + nu <> 0 -> 1 - 2 * nu <> 0 ->
  let e := [e0;e1;e2] in let de := [d0;d1;d2] in
  forall i j, (i < 3)%nat -> (j < 3)%nat ->
  is_derive (fun x => nthR (el_sig_hag_l e (upd de j x) young nu) i) (nthR de j) (nthR (el_Dt_hag_l e de young nu) (3 * i + j)).
Proof.
  intros Hn1 Hn2 e de.
  forall_pairs_tac ltac:(unfold e, de, el_sig_hag_l, el_Dt_hag_l, el_sig_hag, el_Dt_hag, nthR; cbn [upd nth Nat.mul Nat.add];
                         auto_derive; [ repeat split; auto | field; auto ]).
Qed.

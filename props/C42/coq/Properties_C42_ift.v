(* C42 -- property theorems, program C41ImplicitNorton: the implicit-function step that turns the exact jacobian into the
   consistent tangent operator, on the traced code (proofs in C42Proofs_ift_r*.v, C42Proofs_lu.v, C42LinAlg.v, C42Proofs_tangent.v).
   FZ / JAC / FIN: traced residual, jacobian and final state (eel, p, sig) evaluated on a path of unknowns Y4 y0 y1 y2 y3 t while
   the k-th component of the strain increment is t (C42Defs_ift.v). *)
From Coq Require Import Reals List.
From Coquelicot Require Import Coquelicot.
From VLib Require Import RealExtra.
Require Import GBehLib BehSpec GenNorton C42LinAlg C42Defs_ift C42Proofs_lu C42Proofs_tangent.
Import ListNotations.
Local Open Scope R_scope.

(* chain rule: along ANY differentiable path of unknowns, d/dt fzeros_i = sum_j jacobian(i,j) Y_j' - delta(i,k) *)
Theorem C42_implicit_norton_chain_rule :
  forall eel0 eel1 eel2 deto0 deto1 deto2 p young nu A E dt theta y0 y1 y2 y3 t0 yp0 yp1 yp2 yp3,
  path_derive y0 y1 y2 y3 t0 yp0 yp1 yp2 yp3 -> chain_dom eel0 eel1 eel2 deto0 deto1 deto2 p young nu A E dt theta y0 y1 y2 y3 t0 ->
  forall i k, (i < 4)%nat -> (k < 3)%nat ->
  chain_entry eel0 eel1 eel2 deto0 deto1 deto2 p young nu A E dt theta y0 y1 y2 y3 t0 yp0 yp1 yp2 yp3 i k.
Proof. exact chain_rule. Qed.
Print Assumptions C42_implicit_norton_chain_rule.

(* the generated LU decomposition (leaf without row exchange) + getPartialJacobianInvert on a jacobian with arbitrary entries:
   X = [Je ; Jp] solves J . X = (I ; 0) *)
Theorem C42_implicit_norton_partial_inverse :
  forall eel0 eel1 eel2 deto0 deto1 deto2 p young nu A E dt theta j0 j1 j2 j3 j4 j5 j6 j7 j8 j9 j10 j11 j12 j13 j14 j15,
  TGTCOND eel0 eel1 eel2 deto0 deto1 deto2 p young nu A E dt theta j0 j1 j2 j3 j4 j5 j6 j7 j8 j9 j10 j11 j12 j13 j14 j15 ->
  forall i c, (i < 4)%nat -> (c < 3)%nat ->
  sumn 4 (fun l => mget 4 (JM j0 j1 j2 j3 j4 j5 j6 j7 j8 j9 j10 j11 j12 j13 j14 j15) i l * XM eel0 eel1 eel2 deto0 deto1 deto2 p young nu A E dt theta j0 j1 j2 j3 j4 j5 j6 j7 j8 j9 j10 j11 j12 j13 j14 j15 l c) = delta i c.
Proof. exact lu_partial_inverse. Qed.
Print Assumptions C42_implicit_norton_partial_inverse.

(* ... and the generated tangent operator is Hooke . Je *)
Theorem C42_implicit_norton_dt_is_hooke_je :
  forall eel0 eel1 eel2 deto0 deto1 deto2 p young nu A E dt theta j0 j1 j2 j3 j4 j5 j6 j7 j8 j9 j10 j11 j12 j13 j14 j15,
  1 + nu <> 0 -> 1 - 2 * nu <> 0 -> TGTCOND eel0 eel1 eel2 deto0 deto1 deto2 p young nu A E dt theta j0 j1 j2 j3 j4 j5 j6 j7 j8 j9 j10 j11 j12 j13 j14 j15 ->
  forall i c, (i < 3)%nat -> (c < 3)%nat ->
  DT eel0 eel1 eel2 deto0 deto1 deto2 p young nu A E dt theta j0 j1 j2 j3 j4 j5 j6 j7 j8 j9 j10 j11 j12 j13 j14 j15 i c = sumn 3 (fun l => hooke_matrix (lame_lambda young nu) (lame_mu young nu) i l * XM eel0 eel1 eel2 deto0 deto1 deto2 p young nu A E dt theta j0 j1 j2 j3 j4 j5 j6 j7 j8 j9 j10 j11 j12 j13 j14 j15 l c).
Proof. exact dt_is_hooke_je. Qed.
Print Assumptions C42_implicit_norton_dt_is_hooke_je.

(* the consistent tangent operator of the generated code is the derivative of the converged stress w.r.t. the strain increment:
   for every differentiable path of converged states (residual = 0 near t0) parametrised by deto_k = t, with an invertible
   jacobian on which the LU decomposition runs without row exchange, d sig_i / d deto_k = Dt(i,k) *)
Theorem C42_implicit_norton_tangent_is_stress_derivative :
  forall eel0 eel1 eel2 deto0 deto1 deto2 p young nu A E dt theta y0 y1 y2 y3 t0 yp0 yp1 yp2 yp3 k,
  (k < 3)%nat ->
  path_derive y0 y1 y2 y3 t0 yp0 yp1 yp2 yp3 ->
  chain_dom eel0 eel1 eel2 deto0 deto1 deto2 p young nu A E dt theta y0 y1 y2 y3 t0 ->
  locally t0 (fun t => forall i, (i < 4)%nat -> nthR (FZ eel0 eel1 eel2 deto0 deto1 deto2 p young nu A E dt theta y0 y1 y2 y3 k t) i = 0) ->
  invertible4 (JAC eel0 eel1 eel2 deto0 deto1 deto2 p young nu A E dt theta y0 y1 y2 y3 k t0) ->
  tgtcond_of eel0 eel1 eel2 deto0 deto1 deto2 p young nu A E dt theta (JAC eel0 eel1 eel2 deto0 deto1 deto2 p young nu A E dt theta y0 y1 y2 y3 k t0) ->
  forall i, (i < 3)%nat ->
  is_derive (fun t => nthR (FIN eel0 eel1 eel2 deto0 deto1 deto2 p young nu A E dt theta y0 y1 y2 y3 k t) (4 + i)) t0 (nthR (tgt_of eel0 eel1 eel2 deto0 deto1 deto2 p young nu A E dt theta (JAC eel0 eel1 eel2 deto0 deto1 deto2 p young nu A E dt theta y0 y1 y2 y3 k t0)) (3 * i + k)).
Proof. exact implicit_tangent. Qed.
Print Assumptions C42_implicit_norton_tangent_is_stress_derivative.

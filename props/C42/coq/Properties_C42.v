(* C42 -- property theorems (proofs in C42Proofs_*.v); traced definitions regenerated on each run (see props/C41). *)
From Coq Require Import Reals List.
From Coquelicot Require Import Coquelicot.
From VLib Require Import RealExtra.
Require Import GBehLib BehSpec GenEl GenNorton C42Proofs_el C42Proofs_norton.
Import ListNotations.
Local Open Scope R_scope.

(* Default-DSL elasticity: Dt(i,j) = d sig_i / d deto_j, for every state *)
Theorem C42_elasticity_tangent_3d : forall e0 e1 e2 e3 e4 e5 d0 d1 d2 d3 d4 d5 young nu,
  1 + nu <> 0 -> 1 - 2 * nu <> 0 ->
  let e := [e0;e1;e2;e3;e4;e5] in let de := [d0;d1;d2;d3;d4;d5] in
  forall i j, (i < 6)%nat -> (j < 6)%nat ->
  is_derive (fun x => nthR (el_sig_h3d_l e (upd de j x) young nu) i) (nthR de j) (nthR (el_Dt_h3d_l e de young nu) (6 * i + j)).
Proof. exact el_Dt_h3d_ok. Qed.
Print Assumptions C42_elasticity_tangent_3d.

Theorem C42_elasticity_tangent_1d : forall e0 e1 e2 d0 d1 d2 young nu,
  1 + nu <> 0 -> 1 - 2 * nu <> 0 ->
  let e := [e0;e1;e2] in let de := [d0;d1;d2] in
  forall i j, (i < 3)%nat -> (j < 3)%nat ->
  is_derive (fun x => nthR (el_sig_hag_l e (upd de j x) young nu) i) (nthR de j) (nthR (el_Dt_hag_l e de young nu) (3 * i + j)).
Proof. exact el_Dt_hag_ok. Qed.
Print Assumptions C42_elasticity_tangent_1d.

(* Implicit Norton: the jacobian used by getPartialJacobianInvert is exact: jacobian(i,j) = d fzeros(i) / d zeros(j) *)
Theorem C42_implicit_norton_jacobian_exact : forall eel0 eel1 eel2 deto0 deto1 deto2 p young nu A E dt theta z0 z1 z2 z3,
  let eel := [eel0;eel1;eel2] in let deto := [deto0;deto1;deto2] in let z := [z0;z1;z2;z3] in
  1 + nu <> 0 -> 1 - 2 * nu <> 0 -> 0 < norton_seq2 3 eel young nu theta z ->
  forall i j, (i < 4)%nat -> (j < 4)%nat ->
  is_derive (fun x => nthR (no_fz_hag_l eel deto p young nu A E dt theta (upd z j x)) i) (nthR z j)
            (nthR (no_jac_hag_l eel deto p young nu A E dt theta z) (4 * i + j)).
Proof. exact no_jac_hag_ok. Qed.
Print Assumptions C42_implicit_norton_jacobian_exact.

(* ... and the right-hand side of the implicit-function identity J dY/ddeto = - dF/ddeto is (I ; 0) *)
Theorem C42_implicit_norton_residual_strain_derivative : forall eel0 eel1 eel2 deto0 deto1 deto2 p young nu A E dt theta z0 z1 z2 z3,
  let eel := [eel0;eel1;eel2] in let deto := [deto0;deto1;deto2] in let z := [z0;z1;z2;z3] in
  1 + nu <> 0 -> 1 - 2 * nu <> 0 -> 0 < norton_seq2 3 eel young nu theta z ->
  forall i j, (i < 4)%nat -> (j < 3)%nat ->
  is_derive (fun x => nthR (no_fz_hag_l eel (upd deto j x) p young nu A E dt theta z) i) (nthR deto j) (- delta i j).
Proof. exact no_dfddeto_hag_ok. Qed.
Print Assumptions C42_implicit_norton_residual_strain_derivative.

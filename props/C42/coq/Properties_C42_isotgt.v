(* C42 -- property theorems, program C41Plasticity (IsotropicPlasticMisesFlow DSL): closed-form tangent operator is the derivative of the converged stress (thorough tier)
   (proofs in C42Defs_iso.v, C42Proofs_iso_r*.v, C42Proofs_iso.v); traced definitions regenerated on each run (see props/C41). *)
From Coq Require Import Reals List.
From Coquelicot Require Import Coquelicot.
From VLib Require Import RealExtra.
Require Import GBehLib BehSpec GenIso C42Defs_iso C42Proofs_iso.
Import ListNotations.
Local Open Scope R_scope.

(* Dt(i,j) = d sig_i / d deto_j with sig(deto) = Hooke (eel + deto - dp*(deto) n(deto)) the converged stress (pl_sig) *)
Theorem C42_plasticity_tangent_is_stress_derivative : forall eel0 eel1 eel2 deto0 deto1 deto2 p young nu H s0 dt epsilon dp0,
  pl_tangent_dom eel0 eel1 eel2 deto0 deto1 deto2 young nu H ->
  forall i j, (i < 3)%nat -> (j < 3)%nat -> pl_tangent_entry eel0 eel1 eel2 deto0 deto1 deto2 p young nu H s0 dt epsilon dp0 i j.
Proof. exact pl_hag_tangent. Qed.
Print Assumptions C42_plasticity_tangent_is_stress_derivative.

(* C42 -- property theorems, program C41ImplicitNorton, partial derivatives of the traced residual (proofs in C42Proofs_norton.v);
   traced definitions regenerated on each run (see props/C41). *)
From Coq Require Import Reals List.
From Coquelicot Require Import Coquelicot.
From VLib Require Import RealExtra.
Require Import GBehLib BehSpec GenNorton C42Proofs_norton.
Import ListNotations.
Local Open Scope R_scope.

(* Implicit Norton: the jacobian used by getPartialJacobianInvert is exact: jacobian(i,j) = d fzeros(i) / d zeros(j) *)
Theorem C42_implicit_norton_jacobian_exact : forall eel0 eel1 eel2 deto0 deto1 deto2 p young nu A E dt theta z0 z1 z2 z3,
  let eel := [eel0;eel1;eel2] in let deto := [deto0;deto1;deto2] in let z := [z0;z1;z2;z3] in
  1 + nu <> 0 -> 1 - 2 * nu <> 0 -> 0 < norton_seq2 3 eel young nu theta z ->
  forall i j, (i < 4)%nat -> (j < 4)%nat ->
  is_derive (fun x => nthR (no_fz_hag_l eel deto p young nu A E dt theta (upd z j x)) i) (nthR z j)
            (nthR (no_jac_hag_l eel deto p young nu A E dt theta z) (4 * i + j)).
Proof. exact no_jac_hag_ok. Qed.
Print Assumptions C42_implicit_norton_jacobian_exact.

(* ... and the right-hand side of the implicit-function identity J dY/ddeto = - dF/ddeto is (I ; 0) *)
Theorem C42_implicit_norton_residual_strain_derivative : forall eel0 eel1 eel2 deto0 deto1 deto2 p young nu A E dt theta z0 z1 z2 z3,
  let eel := [eel0;eel1;eel2] in let deto := [deto0;deto1;deto2] in let z := [z0;z1;z2;z3] in
  1 + nu <> 0 -> 1 - 2 * nu <> 0 -> 0 < norton_seq2 3 eel young nu theta z ->
  forall i j, (i < 4)%nat -> (j < 3)%nat ->
  is_derive (fun x => nthR (no_fz_hag_l eel (upd deto j x) p young nu A E dt theta z) i) (nthR deto j) (- delta i j).
Proof. exact no_dfddeto_hag_ok. Qed.
Print Assumptions C42_implicit_norton_residual_strain_derivative.

(* C42, program C41ImplicitNorton: the hand-written analytical jacobian traced from the generated computeFdF is the exact
   derivative of the traced residual (the consistent tangent operator Dt = Hooke . Je is built from its inverse);
   the residual depends on the strain increment through -deto only; the final stress is Hooke's law of the final eel. *)
From Coq Require Import Reals List Lra.
From Coquelicot Require Import Coquelicot.
From VLib Require Import RealExtra.
Require Import GBehLib BehSpec GenNorton.
Import ListNotations.
Local Open Scope R_scope.

Ltac spec_unfold := unfold norton_residual, norton_seq2, norton_final, normal, vmises, seq2, dev, hooke, lame_lambda, lame_mu,
  vadd, vsub, vscal, vdot, vmap2, tabulate, diag3, tr3, nthR in *.

Lemma no_jac_hag_ok eel0 eel1 eel2 deto0 deto1 deto2 p young nu A E dt theta z0 z1 z2 z3 :
  let eel := [eel0;eel1;eel2] in let deto := [deto0;deto1;deto2] in let z := [z0;z1;z2;z3] in
  1 + nu <> 0 -> 1 - 2 * nu <> 0 -> 0 < norton_seq2 3 eel young nu theta z ->
  forall i j, (i < 4)%nat -> (j < 4)%nat ->
  is_derive (fun x => nthR (no_fz_hag_l eel deto p young nu A E dt theta (upd z j x)) i) (nthR z j)
            (nthR (no_jac_hag_l eel deto p young nu A E dt theta z) (4 * i + j)).
Proof.
  intros eel deto z H1 H2 Hs.
  unfold eel, deto, z in *. spec_unfold. cbn in Hs.
  set (la := nu * young / ((1 + nu) * (1 - 2 * nu))) in *.
  set (mu := young / (2 * (1 + nu))) in *.
  (* the von Mises argument in the form it has in the traced jacobian (entry (0,3): d feel0 / d dp = n0) *)
  pose (T := nthR (no_jac_hag_l [eel0;eel1;eel2] [deto0;deto1;deto2] p young nu A E dt theta [z0;z1;z2;z3]) 3).
  lazy beta iota zeta delta [no_jac_hag_l no_jac_hag nthR nth] in T; fold la mu in T; unfold Rminus, Rdiv in T.
  with_sqrt T Hs ltac:(fun sb q => clear T;
    forall_pairs_tac ltac:(
      lazy beta iota zeta delta [no_fz_hag_l no_jac_hag_l no_fz_hag no_jac_hag nthR nth upd Nat.mul Nat.add Rpower];
      fold la mu;
      auto_derive; unfold Rminus, Rdiv; fold sb; fold q;
      [ pos_side | field; pos_side ])).
Qed.

(* d fzeros / d deto = -(I ; 0) *)
Lemma no_dfddeto_hag_ok eel0 eel1 eel2 deto0 deto1 deto2 p young nu A E dt theta z0 z1 z2 z3 :
  let eel := [eel0;eel1;eel2] in let deto := [deto0;deto1;deto2] in let z := [z0;z1;z2;z3] in
  1 + nu <> 0 -> 1 - 2 * nu <> 0 -> 0 < norton_seq2 3 eel young nu theta z ->
  forall i j, (i < 4)%nat -> (j < 3)%nat ->
  is_derive (fun x => nthR (no_fz_hag_l eel (upd deto j x) p young nu A E dt theta z) i) (nthR deto j) (- delta i j).
Proof.
  intros eel deto z H1 H2 Hs.
  unfold eel, deto, z in *. clear Hs.
  forall_pairs_tac ltac:(
    lazy beta iota zeta delta [no_fz_hag_l no_fz_hag nthR nth upd delta Nat.eqb];
    auto_derive; [ exact I | ring ]).
Qed.

(* C42, program C41ImplicitNorton: the hand-written analytical jacobian traced from the generated computeFdF is the exact
   derivative of the traced residual (the consistent tangent operator Dt = Hooke . Je is built from its inverse);
   the residual depends on the strain increment through -deto only; the final stress is Hooke's law of the final eel. *)
From Coq Require Import Reals List Lra.
From Coquelicot Require Import Coquelicot.
From VLib Require Import RealExtra.
Require Import GBehLib BehSpec GenNorton.
Import ListNotations.
Local Open Scope R_scope.

Ltac spec_unfold := unfold norton_residual, norton_seq2, norton_final, normal, vmises, seq2, dev, hooke, lame_lambda, lame_mu,
  vadd, vsub, vscal, vdot, vmap2, tabulate, diag3, tr3, nthR in *.

Lemma no_jac_hag_ok eel0 eel1 eel2 deto0 deto1 deto2 p young nu A E dt theta z0 z1 z2 z3 :
  let eel := [eel0;eel1;eel2] in let deto := [deto0;deto1;deto2] in let z := [z0;z1;z2;z3] in
  1 + nu <> 0 -> 1 - 2 * nu <> 0 -> 0 < norton_seq2 3 eel young nu theta z ->
  forall i j, (i < 4)%nat -> (j < 4)%nat ->
  is_derive (fun x => nthR (no_fz_hag_l eel deto p young nu A E dt theta (upd z j x)) i) (nthR z j)
            (nthR (no_jac_hag_l eel deto p young nu A E dt theta z) (4 * i + j)).
Proof.
  intros eel deto z H1 H2 Hs.
  unfold eel, deto, z in *. spec_unfold. cbn in Hs.
  match type of Hs with 0 < ?a => set (sa := a) in * end.
  assert (Hq : 0 < sqrt sa) by (apply sqrt_lt_R0; exact Hs).
  forall_pairs_tac ltac:(
    unfold no_fz_hag_l, no_jac_hag_l, no_fz_hag, no_jac_hag, nthR, Rpower; cbn [upd nth Nat.mul Nat.add];
    auto_derive; unify_sqrt sa ltac:(unfold sa; field; nz); set (q := sqrt sa) in *; [ nz | field; nz ]).
Qed.

(* d fzeros / d deto = -(I ; 0) *)
Lemma no_dfddeto_hag_ok eel0 eel1 eel2 deto0 deto1 deto2 p young nu A E dt theta z0 z1 z2 z3 :
  let eel := [eel0;eel1;eel2] in let deto := [deto0;deto1;deto2] in let z := [z0;z1;z2;z3] in
  1 + nu <> 0 -> 1 - 2 * nu <> 0 -> 0 < norton_seq2 3 eel young nu theta z ->
  forall i j, (i < 4)%nat -> (j < 3)%nat ->
  is_derive (fun x => nthR (no_fz_hag_l eel (upd deto j x) p young nu A E dt theta z) i) (nthR deto j) (- delta i j).
Proof.
  intros eel deto z H1 H2 Hs.
  unfold eel, deto, z in *. spec_unfold. cbn in Hs.
  match type of Hs with 0 < ?a => set (sa := a) in * end.
  assert (Hq : 0 < sqrt sa) by (apply sqrt_lt_R0; exact Hs).
  forall_pairs_tac ltac:(
    unfold no_fz_hag_l, no_fz_hag, nthR, Rpower, delta; cbn [upd nth Nat.eqb];
    auto_derive; [ exact I | ring ]).
Qed.

// C23 (conversion table): runs mfront's REAL run-time conversion table and path finder
//   mfront/src/FiniteStrainBehaviourTangentOperatorConversion.cxx      (registered conversions + generated code strings)
//   mfront/src/FiniteStrainBehaviourTangentOperatorConversionPath.cxx  (getConversionsPath, getShortestPath)
//   src/Material/FiniteStrainBehaviourTangentOperator.cxx              (flags, names, types)
// the way BehaviourCodeGeneratorBase::writeBehaviourComputePredictionOperator / ...TangentOperator call them:
//   paths = concat_{k in ktos} getConversionsPath(k, ktos, converters);  path(t) = getShortestPath(paths, t), t not in ktos
// and probes at compile time which FiniteStrainBehaviourTangentOperatorConverter<To,From> specialisations exist.
// Output (all flags printed as the integer value of the enum):
//   FLAG <int> <name> <type>
//   CONV <from> <to> | <intermediate code> | <final code>
//   NPATHS <b> <n>                 number of paths enumerated from b with ktos = {b}
//   PATH <b> <t> : f-t f-t ...     shortest path (steps from-to), empty when none
//   NPATHS2 <a> <b> <n>  /  PATH2 <a> <b> <t> : ...      the same with ktos = {a,b} (a before b in the flag list)
//   SPEC <from> <to> <0|1> <0|1>   Converter<to,from> is a complete type / has exe<3,double> callable with the documented arguments
#include <cstdlib>
#include <iostream>
#include <string>
#include <utility>
#include <vector>
#include <algorithm>
#include "TFEL/Material/FiniteStrainBehaviourTangentOperator.hxx"
#include "MFront/FiniteStrainBehaviourTangentOperatorConversion.hxx"
#include "MFront/FiniteStrainBehaviourTangentOperatorConversionPath.hxx"

using TOB = tfel::material::FiniteStrainBehaviourTangentOperatorBase;
using Flag = TOB::Flag;
using Conversion = mfront::FiniteStrainBehaviourTangentOperatorConversion;
using Path = mfront::FiniteStrainBehaviourTangentOperatorConversionPath;

// ---- compile-time probe -------------------------------------------------------------------------------------------
// the enumerators, written down here independently; main() checks that this list is the list returned by
// getFiniteStrainBehaviourTangentOperatorFlags() (as a set) so that the probe covers every flag.
constexpr Flag ALL[] = {TOB::DSIG_DF, TOB::DSIG_DDF, TOB::C_TRUESDELL, TOB::SPATIAL_MODULI, TOB::C_TAU_JAUMANN,
                        TOB::ABAQUS,  TOB::DSIG_DDE, TOB::DTAU_DF,     TOB::DTAU_DDF,       TOB::DS_DF,
                        TOB::DS_DDF,  TOB::DS_DC,    TOB::DS_DEGL,     TOB::DT_DELOG,       TOB::DPK1_DF};
constexpr std::size_t NALL = sizeof(ALL) / sizeof(ALL[0]);

template <Flag To, Flag From>
constexpr bool is_complete() {
  if constexpr (requires { sizeof(tfel::material::FiniteStrainBehaviourTangentOperatorConverter<To, From>); }) {
    return true;
  } else {
    return false;
  }
}

template <Flag To, Flag From>
constexpr bool has_exe() {
  using namespace tfel::material;
  if constexpr (requires(tangent_operator<To, 3u, double>& r, const tangent_operator<From, 3u, double>& k,
                         const tfel::math::tensor<3u, double>& F, const tfel::math::stensor<3u, double>& s) {
                  FiniteStrainBehaviourTangentOperatorConverter<To, From>::template exe<3u, double>(r, k, F, F, s);
                }) {
    return true;
  } else {
    return false;
  }
}

template <std::size_t I>
void probe_one() {
  constexpr Flag to = ALL[I / NALL];
  constexpr Flag from = ALL[I % NALL];
  std::cout << "SPEC " << int(from) << " " << int(to) << " " << (is_complete<to, from>() ? 1 : 0) << " "
            << (has_exe<to, from>() ? 1 : 0) << "\n";
}
template <std::size_t... I>
void probe_all(std::index_sequence<I...>) {
  (probe_one<I>(), ...);
}

// ---- run-time table ----------------------------------------------------------------------------------------------
static void print_path(const Path& p) {
  for (auto it = p.begin(); it != p.end(); ++it) {
    std::cout << " " << int(it->from()) << "-" << int(it->to());
  }
  std::cout << "\n";
}

int main() {
  using namespace tfel::material;
  const auto tos = getFiniteStrainBehaviourTangentOperatorFlags();
  for (const auto f : tos) {
    std::cout << "FLAG " << int(f) << " " << convertFiniteStrainBehaviourTangentOperatorFlagToString(f) << " "
              << getFiniteStrainBehaviourTangentOperatorFlagType(f) << "\n";
  }
  // the probe list must be the run-time list
  bool same = tos.size() == NALL;
  for (const auto f : tos) {
    same = same && (std::find(std::begin(ALL), std::end(ALL), f) != std::end(ALL));
  }
  std::cout << "PROBELIST " << (same ? 1 : 0) << " " << NALL << " " << tos.size() << "\n";
  const auto converters = Conversion::getAvailableFiniteStrainBehaviourTangentOperatorConversions();
  for (const auto& c : converters) {
    std::cout << "CONV " << int(c.from()) << " " << int(c.to()) << " | " << c.getIntermediateConversion() << " | "
              << c.getFinalConversion() << "\n";
  }
  // singletons: ktos = {b}
  for (const auto b : tos) {
    const std::vector<Flag> ktos = {b};
    std::vector<Path> paths;
    for (const auto& k : ktos) {
      const auto kpaths = Path::getConversionsPath(k, ktos, converters);
      paths.insert(paths.end(), kpaths.begin(), kpaths.end());
    }
    std::cout << "NPATHS " << int(b) << " " << paths.size() << "\n";
    for (const auto t : tos) {
      // mfront does not call getShortestPath for t in ktos; it is called here too (t = b), the model must agree
      std::cout << "PATH " << int(b) << " " << int(t) << " :";
      print_path(Path::getShortestPath(paths, t));
    }
  }
  // pairs: ktos = {a,b} in the order of the flag list (the order in which mfront fills ktos)
  for (std::size_t i = 0; i != tos.size(); ++i) {
    for (std::size_t j = i + 1; j != tos.size(); ++j) {
      const std::vector<Flag> ktos = {tos[i], tos[j]};
      std::vector<Path> paths;
      for (const auto& k : ktos) {
        const auto kpaths = Path::getConversionsPath(k, ktos, converters);
        paths.insert(paths.end(), kpaths.begin(), kpaths.end());
      }
      std::cout << "NPATHS2 " << int(tos[i]) << " " << int(tos[j]) << " " << paths.size() << "\n";
      for (const auto t : tos) {
        std::cout << "PATH2 " << int(tos[i]) << " " << int(tos[j]) << " " << int(t) << " :";
        print_path(Path::getShortestPath(paths, t));
      }
    }
  }
  probe_all(std::make_index_sequence<NALL * NALL>());
  return EXIT_SUCCESS;
}

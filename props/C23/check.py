"""C23 -- finite-strain tangent-operator and stress conversions are exact (engine S).
Every FiniteStrainBehaviourTangentOperatorConverter<To,From> specialisation that does not go through the logarithmic
strain handler, the Jaumann / rate-of-deformation / spin helpers and the Cauchy / Kirchhoff / PK1 / PK2 / corotational
stress conversions are traced from /repo with symv::Sym for N=1,2,3 and proved equal, component by component and for
all real K, F0, F1 (det <> 0 where the code divides) and s, to the chain-rule formula in index notation
(coq/C23Spec.v over props/C02/coq/TensorIndex.v); round trips of inverse pairs are proved to be the identity.  The real
double code is compared on seeded inputs with the evaluated trace and with the independent numerical specification."""
import os, sys
here = os.path.dirname(os.path.abspath(__file__))
sys.path.insert(0, here)
sys.path.insert(0, os.path.join(here, "..", "C02"))
from vlib import guarded_main
import specnum23, ttcheck, convtable

C02COQ = os.path.join(here, "..", "C02", "coq")
# groups: 0 stress conversions and helpers, 1 converters (no inverse of F1), 2 converters through F1^-1, 3 round trips
PARTS = {(1, 3): 4, (2, 3): 4, (3, 3): 3, (1, 2): 2, (2, 2): 3, (3, 2): 2}
MODS = [ttcheck.module_name("C23", g, N, p) for g in range(4) for N in (1, 2, 3) for p in range(PARTS.get((g, N), 1))]


def main(c):
    ttcheck.run(c, "C23", groups=[0, 1, 2, 3], parts=PARTS, spec=specnum23,
                spec_files=[os.path.abspath(os.path.join(C02COQ, f)) for f in ("TensorIndex.v", "NsatzTac.v", "TensorTactics.v")] + ["C23Spec.v", "C23Tactics.v"],
                prop_files_quick=["Properties_C23.v"], prop_files_thorough=["Properties_C23_full.v"],
                conditional={"DS_DF_from_DS_DEGL": ("Properties_C23_dsdf.v", "Properties_C23_dsdf_refuted.v")},
                # LogarithmicStrainHandler (the four converters from DT_DELOG, executed with double only)
                extra_support=["src/Math/LUException.cxx", "src/Material/LogarithmicStrainHandler.cxx"])
    # ---- mfront's run-time conversion table and path finder (real code enumerated on every (known set, target); Coq model of
    # the search proved on the table regenerated from this run): every registered conversion must be an operation of the
    # registry above (traced + proved, or, from DT_DELOG, executed)
    convs = convtable.run(c)
    dtdelog = {"DS_DC_from_DT_DELOG": "DTDELOG_DS_DC_minus_half_DS_DEGL", "SPATIAL_MODULI_from_DT_DELOG": "DTDELOG_SPATIAL_minus_pushforward_DS_DEGL",
               "C_TRUESDELL_from_DT_DELOG": "DTDELOG_TRUESDELL_minus_SPATIAL_over_J", "DS_DEGL_from_DT_DELOG": "DTDELOG_DS_DEGL_at_identity"}
    missing = [n for n in convs if dtdelog.get(n, n) not in specnum23.SPEC]
    for n in missing:
        c.report("paths:unverified:" + n, "conversion %s of mfront's run-time table is not an operation of C23's registry (props/C23/trace.cxx): "
                 "a conversion path may use a converter this check neither traces nor executes" % n, {"conversion": n}, False)
    c.notes.append("%d conversions registered in mfront's run-time table, all of them operations of the registry: %s" % (len(convs), not missing))
    # ---- the chain-rule formulas of C23Spec.v ARE derivatives: Saint-Venant-Kirchhoff oracle by auto_derive (thorough tier)
    if not c.quick():
        res = c.coq(["C23Derive.v", "Properties_C23_derive.v"], timeout=2400)
        if not res.ok:
            c.coq_failures(res)
        c.notes.append("Saint-Venant-Kirchhoff oracle (coq/C23Derive.v, auto_derive): spec_DS_DF_from_DS_DEGL, spec_DPK1_DF_from_DS_DEGL (1D, 2D), "
                       "spec_DTAU_DF_from_DS_DF, spec_DSIG_DF_from_DTAU_DF, spec_DTAU_DF_from_DPK1_DF (1D), spec_DS_DC_from_DS_DEGL (3D, symmetrised direction) "
                       "are the Jacobians of S, P, tau, sigma w.r.t. the stored components of F")
    c.coverage["rule"] = ("every operation of the registry (props/C23/trace.cxx) x N=1,2,3 (quick: N=1,2 and the cheap 3D instances); seeded inputs per operation: "
                          "generic reals in [-2,2], small integers incl. zeros and ties, one magnitude 1e-3..1e3 per input; deformation gradients whose "
                          "inverse is used = identity + perturbation (det > 0)")
    c.assumptions.append("real arithmetic: the theorems are over R; rounding of the double code is only checked on the seeded inputs")
    c.assumptions.append("'is the derivative of the target stress w.r.t. the target kinematic variable' is carried by the chain-rule formulas of coq/C23Spec.v; "
                         "re-derived by auto_derive only for a Saint-Venant-Kirchhoff response and the formulas listed in the notes (thorough tier)")


guarded_main("C23", main)

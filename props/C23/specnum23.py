"""Numerical version of coq/C23Spec.v (chain-rule formulas in index notation), independent of /repo's code."""
import os, sys
sys.path.insert(0, os.path.join(os.path.dirname(os.path.abspath(__file__)), "..", "C02"))
from specnum import *  # noqa
import specnum

def tau(F, s): return scal2(det2(F), s)
def pk1(F, s): return mul2(s, cof2(F))
def pk2(F, s): return scal2(det2(F), pf2(inv2(F), s))
def dC4(F): return M4(lambda i, j, k, l: delta(i, l) * F[k][j] + F[k][i] * delta(j, l))
def dE4(F): return scal4(0.5, dC4(F))
def dL4(F): return tpld4(inv2(F))
def skewL(a): return M4(lambda i, j, k, l: (a[i][j][k][l] - a[j][i][k][l]) / 2)
def dD4(F): return symL(dL4(F))
def dW4(F): return skewL(dL4(F))
def jm(c, t): return M4(lambda i, j, k, l: c[i][j][k][l] + (delta(i, k) * t[j][l] + delta(i, l) * t[j][k] + t[i][k] * delta(j, l) + t[i][l] * delta(j, k)) / 2)
def neg2(a): return scal2(-1.0, a)
def dsig_of_dtau(K, F, s):
    c = cof2(F); d = det2(F)
    return M4(lambda i, j, k, l: (K[i][j][k][l] - s[i][j] * c[k][l]) / d)
def cj_of_dtau(K, F): return M4(lambda i, j, k, l: sum((K[i][j][k][n] * F[l][n] + K[i][j][l][n] * F[k][n]) / 2 for n in R3))
def dtau_of_cj(K, F, s):
    dD, dW, t = dD4(F), dW4(F), tau(F, s)
    return M4(lambda i, j, k, l: sum(K[i][j][m][n] * dD[m][n][k][l] for m in R3 for n in R3)
              + sum(dW[i][m][k][l] * t[m][j] - t[i][m] * dW[m][j][k][l] for m in R3))
def spatial_of_dsdegl(K, F): return pf4(F, K)
def dtau_of_spatial(K, F, s): return dtau_of_cj(jm(K, tau(F, s)), F, s)
def dtau_of_dsdf(K, F, s):
    S = pk2(F, s)
    return M4(lambda i, j, k, l: sum(delta(i, k) * S[l][m] * F[j][m] + F[i][m] * S[m][l] * delta(j, k) for m in R3)
              + sum(F[i][m] * F[j][n] * K[m][n][k][l] for m in R3 for n in R3))
def dpk1_of_dsig(K, F, s):
    c, d, iF = cof2(F), det2(F), inv2(F)
    return M4(lambda i, j, k, l: c[k][l] * sum(s[i][m] * iF[j][m] for m in R3) + d * sum(K[i][m][k][l] * iF[j][m] for m in R3)
              - d * sum(s[i][m] * iF[j][k] * iF[l][m] for m in R3))
def dtau_of_dpk1(K, F, s):
    P = pk1(F, s)
    return M4(lambda i, j, k, l: sum(K[j][m][k][l] * F[i][m] for m in R3) + P[j][l] * delta(i, k))
def dpk1_of_dsdegl(K, F, s):
    S = pk2(F, s); dS = mul44(K, dE4(F))
    return M4(lambda i, j, k, l: delta(i, k) * S[l][j] + sum(F[i][m] * dS[m][j][k][l] for m in R3))

ident = lambda N, K, F0, F1, s: K
SPEC = dict(specnum.SPEC)
SPEC.update({
    'cauchy_to_pk1': lambda N, s, F: pk1(F, s),
    'pk1_to_cauchy': lambda N, P, F: scal2(1 / det2(F), tr2(mul2(P, tr2(F)))),
    'cauchy_to_pk2': lambda N, s, F: pk2(F, s),
    'pk2_to_cauchy': lambda N, S, F: scal2(1 / det2(F), pf2(F, S)),
    'rt_cauchy_pk1': lambda N, s, F: s,
    'rt_cauchy_pk2': lambda N, s, F: s,
    'rt_pk2_cauchy': lambda N, s, F: s,
    'corot_to_pk2': lambda N, s, U: scal2(det2(U), mul2(mul2(inv2(U), s), inv2(U))),
    'pk2_to_corot': lambda N, S, U: scal2(1 / det2(U), mul2(mul2(U, S), U)),
    'jaumann_moduli': lambda N, c, t: jm(c, t),
    'rate_of_deformation_derivative': lambda N, F: dD4(F),
    'spin_rate_derivative': lambda N, F: dW4(F),
    'velocity_gradient_derivative': lambda N, F: dL4(F),
    'DS_DC_from_DS_DEGL': lambda N, K, F0, F1, s: scal4(0.5, K),
    'DS_DEGL_from_DS_DC': lambda N, K, F0, F1, s: scal4(2.0, K),
    'SPATIAL_MODULI_from_DS_DEGL': lambda N, K, F0, F1, s: pf4(F1, K),
    'DS_DEGL_from_SPATIAL_MODULI': lambda N, K, F0, F1, s: pf4(inv2(F1), K),
    'DS_DF_from_DS_DC': lambda N, K, F0, F1, s: mul44(K, dC4(F1)),
    'DS_DF_from_DS_DEGL': lambda N, K, F0, F1, s: mul44(K, dE4(F1)),
    'C_TRUESDELL_from_SPATIAL_MODULI': lambda N, K, F0, F1, s: scal4(1 / det2(F1), K),
    'SPATIAL_MODULI_from_C_TRUESDELL': lambda N, K, F0, F1, s: scal4(det2(F1), K),
    'C_TRUESDELL_from_DS_DEGL': lambda N, K, F0, F1, s: scal4(1 / det2(F1), pf4(F1, K)),
    'DSIG_DDF_from_DSIG_DF': lambda N, K, F0, F1, s: mul44(K, tpld4(F0)),
    'DTAU_DDF_from_DTAU_DF': lambda N, K, F0, F1, s: mul44(K, tpld4(F0)),
    'DSIG_DF_from_DSIG_DDF': lambda N, K, F0, F1, s: mul44(K, tpld4(inv2(F0))),
    'DTAU_DF_from_DTAU_DDF': lambda N, K, F0, F1, s: mul44(K, tpld4(inv2(F0))),
    'DSIG_DF_from_DTAU_DF': lambda N, K, F0, F1, s: dsig_of_dtau(K, F1, s),
    'ABAQUS_from_C_TAU_JAUMANN': lambda N, K, F0, F1, s: scal4(1 / det2(F1), K),
    'C_TAU_JAUMANN_from_ABAQUS': lambda N, K, F0, F1, s: scal4(det2(F1), K),
    'C_TAU_JAUMANN_from_SPATIAL_MODULI': lambda N, K, F0, F1, s: jm(K, tau(F1, s)),
    'SPATIAL_MODULI_from_C_TAU_JAUMANN': lambda N, K, F0, F1, s: jm(K, neg2(tau(F1, s))),
    'ABAQUS_from_SPATIAL_MODULI': lambda N, K, F0, F1, s: scal4(1 / det2(F1), jm(K, tau(F1, s))),
    'SPATIAL_MODULI_from_ABAQUS': lambda N, K, F0, F1, s: jm(scal4(det2(F1), K), neg2(tau(F1, s))),
    'ABAQUS_from_DS_DEGL': lambda N, K, F0, F1, s: scal4(1 / det2(F1), jm(pf4(F1, K), tau(F1, s))),
    'C_TAU_JAUMANN_from_DTAU_DF': lambda N, K, F0, F1, s: cj_of_dtau(K, F1),
    'ABAQUS_from_DTAU_DF': lambda N, K, F0, F1, s: scal4(1 / det2(F1), cj_of_dtau(K, F1)),
    'SPATIAL_MODULI_from_DTAU_DF': lambda N, K, F0, F1, s: jm(cj_of_dtau(K, F1), neg2(tau(F1, s))),
    'C_TRUESDELL_from_DTAU_DF': lambda N, K, F0, F1, s: scal4(1 / det2(F1), jm(cj_of_dtau(K, F1), neg2(tau(F1, s)))),
    'DTAU_DF_from_C_TAU_JAUMANN': lambda N, K, F0, F1, s: dtau_of_cj(K, F1, s),
    'DTAU_DF_from_ABAQUS': lambda N, K, F0, F1, s: dtau_of_cj(scal4(det2(F1), K), F1, s),
    'DTAU_DF_from_SPATIAL_MODULI': lambda N, K, F0, F1, s: dtau_of_spatial(K, F1, s),
    'DTAU_DF_from_DS_DF': lambda N, K, F0, F1, s: dtau_of_dsdf(K, F1, s),
    'DSIG_DF_from_DS_DEGL': lambda N, K, F0, F1, s: dsig_of_dtau(dtau_of_spatial(pf4(F1, K), F1, s), F1, s),
    'DSIG_DF_from_C_TRUESDELL': lambda N, K, F0, F1, s: dsig_of_dtau(dtau_of_spatial(scal4(det2(F1), K), F1, s), F1, s),
    'DSIG_DF_from_ABAQUS': lambda N, K, F0, F1, s: dsig_of_dtau(dtau_of_cj(scal4(det2(F1), K), F1, s), F1, s),
    'DPK1_DF_from_DSIG_DF': lambda N, K, F0, F1, s: dpk1_of_dsig(K, F1, s),
    'DTAU_DF_from_DPK1_DF': lambda N, K, F0, F1, s: dtau_of_dpk1(K, F1, s),
    'DSIG_DF_from_DPK1_DF': lambda N, K, F0, F1, s: dsig_of_dtau(dtau_of_dpk1(K, F1, s), F1, s),
    'DPK1_DF_from_DS_DEGL': lambda N, K, F0, F1, s: dpk1_of_dsdegl(K, F1, s),
})
for k in ('rt_DS_DEGL_DS_DC', 'rt_C_TRUESDELL_SPATIAL_MODULI', 'rt_SPATIAL_MODULI_C_TAU_JAUMANN', 'rt_SPATIAL_MODULI_ABAQUS',
          'rt_C_TAU_JAUMANN_ABAQUS', 'rt_DSIG_DF_DSIG_DDF', 'rt_DTAU_DF_DTAU_DDF', 'rt_DS_DEGL_SPATIAL_MODULI',
          'rt_C_TAU_JAUMANN_DTAU_DF', 'rt_SPATIAL_MODULI_DTAU_DF'):
    SPEC[k] = ident

# the converters from DT_DELOG (double only): chain-rule relations between the results of the real converters
Z4 = specnum.M4(lambda i, j, k, l: 0.0)
for k in ('DTDELOG_DS_DC_minus_half_DS_DEGL', 'DTDELOG_SPATIAL_minus_pushforward_DS_DEGL', 'DTDELOG_TRUESDELL_minus_SPATIAL_over_J'):
    SPEC[k] = lambda N, K, F0, F1, s: Z4
SPEC['DTDELOG_DS_DEGL_at_identity'] = lambda N, K: K

import sys, os
sys.path.insert(0, '/verif/tools')
sys.path.insert(0, os.path.dirname(os.path.abspath(__file__)))
from vlib import guarded_main
import convtable
def main(c):
    r = convtable.run(c)
    print("RETURN", len(r), r[:4])
    for n in c.notes: print("NOTE", n)
guarded_main("C23", main)

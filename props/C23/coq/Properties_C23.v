(* C23 -- traced conversions = chain-rule formulas in index notation, core set (statements only; every proof is `exact` of lemmas generated and proved per component).
   Regenerate with mkprops.py when the operation registry of trace.cxx changes. *)
From Coq Require Import Reals List.
Require Import TensorIndex C23Spec C23_g0_n1_p0 C23_g0_n2_p0 C23_g0_n3_p0 C23_g1_n1_p0 C23_g1_n2_p0 C23_g1_n2_p1 C23_g1_n3_p0 C23_g1_n3_p1 C23_g1_n3_p2 C23_g1_n3_p3 C23_g2_n1_p0 C23_g2_n2_p0 C23_g2_n2_p1 C23_g2_n2_p2 C23_g2_n3_p0 C23_g2_n3_p1 C23_g2_n3_p2 C23_g2_n3_p3 C23_g3_n1_p0 C23_g3_n2_p0 C23_g3_n2_p1 C23_g3_n3_p0 C23_g3_n3_p1 C23_g3_n3_p2.

Import ListNotations.
Local Open Scope R_scope.

Theorem C23_cauchy_to_pk1 : forall a b : nat -> R,
  (cauchy_to_pk1_1 a b = flat_t 1%nat (spec_cauchy_to_pk1 1%nat (full_s 1%nat a) (full_t 1%nat b))) /\
  (cauchy_to_pk1_2 a b = flat_t 2%nat (spec_cauchy_to_pk1 2%nat (full_s 2%nat a) (full_t 2%nat b))) /\
  (cauchy_to_pk1_3 a b = flat_t 3%nat (spec_cauchy_to_pk1 3%nat (full_s 3%nat a) (full_t 3%nat b))).
Proof. intros a b; exact (conj (cauchy_to_pk1_1_ok a b) (conj (cauchy_to_pk1_2_ok a b) (cauchy_to_pk1_3_ok a b))). Qed.
Print Assumptions C23_cauchy_to_pk1.

Theorem C23_pk1_to_cauchy : forall a b : nat -> R,
  (det2 (full_t 1%nat b) <> 0 -> pk1_to_cauchy_1 a b = flat_s 1%nat (spec_pk1_to_cauchy 1%nat (full_t 1%nat a) (full_t 1%nat b))) /\
  (det2 (full_t 2%nat b) <> 0 -> pk1_to_cauchy_2 a b = flat_s 2%nat (spec_pk1_to_cauchy 2%nat (full_t 2%nat a) (full_t 2%nat b))) /\
  (det2 (full_t 3%nat b) <> 0 -> pk1_to_cauchy_3 a b = flat_s 3%nat (spec_pk1_to_cauchy 3%nat (full_t 3%nat a) (full_t 3%nat b))).
Proof. intros a b; exact (conj (pk1_to_cauchy_1_ok a b) (conj (pk1_to_cauchy_2_ok a b) (pk1_to_cauchy_3_ok a b))). Qed.
Print Assumptions C23_pk1_to_cauchy.

Theorem C23_cauchy_to_pk2 : forall a b : nat -> R,
  (det2 (full_t 1%nat b) <> 0 -> cauchy_to_pk2_1 a b = flat_s 1%nat (spec_cauchy_to_pk2 1%nat (full_s 1%nat a) (full_t 1%nat b))) /\
  (det2 (full_t 2%nat b) <> 0 -> cauchy_to_pk2_2 a b = flat_s 2%nat (spec_cauchy_to_pk2 2%nat (full_s 2%nat a) (full_t 2%nat b))) /\
  (det2 (full_t 3%nat b) <> 0 -> cauchy_to_pk2_3 a b = flat_s 3%nat (spec_cauchy_to_pk2 3%nat (full_s 3%nat a) (full_t 3%nat b))).
Proof. intros a b; exact (conj (cauchy_to_pk2_1_ok a b) (conj (cauchy_to_pk2_2_ok a b) (cauchy_to_pk2_3_ok a b))). Qed.
Print Assumptions C23_cauchy_to_pk2.

Theorem C23_pk2_to_cauchy : forall a b : nat -> R,
  (det2 (full_t 1%nat b) <> 0 -> pk2_to_cauchy_1 a b = flat_s 1%nat (spec_pk2_to_cauchy 1%nat (full_s 1%nat a) (full_t 1%nat b))) /\
  (det2 (full_t 2%nat b) <> 0 -> pk2_to_cauchy_2 a b = flat_s 2%nat (spec_pk2_to_cauchy 2%nat (full_s 2%nat a) (full_t 2%nat b))) /\
  (det2 (full_t 3%nat b) <> 0 -> pk2_to_cauchy_3 a b = flat_s 3%nat (spec_pk2_to_cauchy 3%nat (full_s 3%nat a) (full_t 3%nat b))).
Proof. intros a b; exact (conj (pk2_to_cauchy_1_ok a b) (conj (pk2_to_cauchy_2_ok a b) (pk2_to_cauchy_3_ok a b))). Qed.
Print Assumptions C23_pk2_to_cauchy.

Theorem C23_rt_cauchy_pk1 : forall a b : nat -> R,
  (det2 (full_t 1%nat b) <> 0 -> rt_cauchy_pk1_1 a b = flat_s 1%nat (spec_rt_cauchy_pk1 1%nat (full_s 1%nat a) (full_t 1%nat b))) /\
  (det2 (full_t 2%nat b) <> 0 -> rt_cauchy_pk1_2 a b = flat_s 2%nat (spec_rt_cauchy_pk1 2%nat (full_s 2%nat a) (full_t 2%nat b))) /\
  (det2 (full_t 3%nat b) <> 0 -> rt_cauchy_pk1_3 a b = flat_s 3%nat (spec_rt_cauchy_pk1 3%nat (full_s 3%nat a) (full_t 3%nat b))).
Proof. intros a b; exact (conj (rt_cauchy_pk1_1_ok a b) (conj (rt_cauchy_pk1_2_ok a b) (rt_cauchy_pk1_3_ok a b))). Qed.
Print Assumptions C23_rt_cauchy_pk1.

Theorem C23_rt_cauchy_pk2 : forall a b : nat -> R,
  (det2 (full_t 1%nat b) <> 0 -> rt_cauchy_pk2_1 a b = flat_s 1%nat (spec_rt_cauchy_pk2 1%nat (full_s 1%nat a) (full_t 1%nat b))) /\
  (det2 (full_t 2%nat b) <> 0 -> rt_cauchy_pk2_2 a b = flat_s 2%nat (spec_rt_cauchy_pk2 2%nat (full_s 2%nat a) (full_t 2%nat b))).
Proof. intros a b; exact (conj (rt_cauchy_pk2_1_ok a b) (rt_cauchy_pk2_2_ok a b)). Qed.
Print Assumptions C23_rt_cauchy_pk2.

Theorem C23_rt_pk2_cauchy : forall a b : nat -> R,
  (det2 (full_t 1%nat b) <> 0 -> rt_pk2_cauchy_1 a b = flat_s 1%nat (spec_rt_pk2_cauchy 1%nat (full_s 1%nat a) (full_t 1%nat b))) /\
  (det2 (full_t 2%nat b) <> 0 -> rt_pk2_cauchy_2 a b = flat_s 2%nat (spec_rt_pk2_cauchy 2%nat (full_s 2%nat a) (full_t 2%nat b))).
Proof. intros a b; exact (conj (rt_pk2_cauchy_1_ok a b) (rt_pk2_cauchy_2_ok a b)). Qed.
Print Assumptions C23_rt_pk2_cauchy.

Theorem C23_corot_to_pk2 : forall a b : nat -> R,
  (det2 (full_s 1%nat b) <> 0 -> corot_to_pk2_1 a b = flat_s 1%nat (spec_corot_to_pk2 1%nat (full_s 1%nat a) (full_s 1%nat b))).
Proof. intros a b; exact (corot_to_pk2_1_ok a b). Qed.
Print Assumptions C23_corot_to_pk2.

Theorem C23_pk2_to_corot : forall a b : nat -> R,
  (det2 (full_s 1%nat b) <> 0 -> pk2_to_corot_1 a b = flat_s 1%nat (spec_pk2_to_corot 1%nat (full_s 1%nat a) (full_s 1%nat b))).
Proof. intros a b; exact (pk2_to_corot_1_ok a b). Qed.
Print Assumptions C23_pk2_to_corot.

Theorem C23_jaumann_moduli : forall a b : nat -> R,
  (jaumann_moduli_1 a b = flat_A 1%nat (spec_jaumann_moduli 1%nat (full_A 1%nat a) (full_s 1%nat b))) /\
  (jaumann_moduli_2 a b = flat_A 2%nat (spec_jaumann_moduli 2%nat (full_A 2%nat a) (full_s 2%nat b))) /\
  (jaumann_moduli_3 a b = flat_A 3%nat (spec_jaumann_moduli 3%nat (full_A 3%nat a) (full_s 3%nat b))).
Proof. intros a b; exact (conj (jaumann_moduli_1_ok a b) (conj (jaumann_moduli_2_ok a b) (jaumann_moduli_3_ok a b))). Qed.
Print Assumptions C23_jaumann_moduli.

Theorem C23_rate_of_deformation_derivative : forall a : nat -> R,
  (det2 (full_t 1%nat a) <> 0 -> rate_of_deformation_derivative_1 a = flat_C 1%nat (spec_rate_of_deformation_derivative 1%nat (full_t 1%nat a))) /\
  (det2 (full_t 2%nat a) <> 0 -> rate_of_deformation_derivative_2 a = flat_C 2%nat (spec_rate_of_deformation_derivative 2%nat (full_t 2%nat a))) /\
  (det2 (full_t 3%nat a) <> 0 -> rate_of_deformation_derivative_3 a = flat_C 3%nat (spec_rate_of_deformation_derivative 3%nat (full_t 3%nat a))).
Proof. intros a; exact (conj (rate_of_deformation_derivative_1_ok a) (conj (rate_of_deformation_derivative_2_ok a) (rate_of_deformation_derivative_3_ok a))). Qed.
Print Assumptions C23_rate_of_deformation_derivative.

Theorem C23_spin_rate_derivative : forall a : nat -> R,
  (det2 (full_t 1%nat a) <> 0 -> spin_rate_derivative_1 a = flat_B 1%nat (spec_spin_rate_derivative 1%nat (full_t 1%nat a))) /\
  (det2 (full_t 2%nat a) <> 0 -> spin_rate_derivative_2 a = flat_B 2%nat (spec_spin_rate_derivative 2%nat (full_t 2%nat a))) /\
  (det2 (full_t 3%nat a) <> 0 -> spin_rate_derivative_3 a = flat_B 3%nat (spec_spin_rate_derivative 3%nat (full_t 3%nat a))).
Proof. intros a; exact (conj (spin_rate_derivative_1_ok a) (conj (spin_rate_derivative_2_ok a) (spin_rate_derivative_3_ok a))). Qed.
Print Assumptions C23_spin_rate_derivative.

Theorem C23_velocity_gradient_derivative : forall a : nat -> R,
  (det2 (full_t 1%nat a) <> 0 -> velocity_gradient_derivative_1 a = flat_B 1%nat (spec_velocity_gradient_derivative 1%nat (full_t 1%nat a))) /\
  (det2 (full_t 2%nat a) <> 0 -> velocity_gradient_derivative_2 a = flat_B 2%nat (spec_velocity_gradient_derivative 2%nat (full_t 2%nat a))) /\
  (det2 (full_t 3%nat a) <> 0 -> velocity_gradient_derivative_3 a = flat_B 3%nat (spec_velocity_gradient_derivative 3%nat (full_t 3%nat a))).
Proof. intros a; exact (conj (velocity_gradient_derivative_1_ok a) (conj (velocity_gradient_derivative_2_ok a) (velocity_gradient_derivative_3_ok a))). Qed.
Print Assumptions C23_velocity_gradient_derivative.

Theorem C23_DS_DC_from_DS_DEGL : forall a b c d : nat -> R,
  (DS_DC_from_DS_DEGL_1 a b c d = flat_A 1%nat (spec_DS_DC_from_DS_DEGL 1%nat (full_A 1%nat a) (full_t 1%nat b) (full_t 1%nat c) (full_s 1%nat d))) /\
  (DS_DC_from_DS_DEGL_2 a b c d = flat_A 2%nat (spec_DS_DC_from_DS_DEGL 2%nat (full_A 2%nat a) (full_t 2%nat b) (full_t 2%nat c) (full_s 2%nat d))) /\
  (DS_DC_from_DS_DEGL_3 a b c d = flat_A 3%nat (spec_DS_DC_from_DS_DEGL 3%nat (full_A 3%nat a) (full_t 3%nat b) (full_t 3%nat c) (full_s 3%nat d))).
Proof. intros a b c d; exact (conj (DS_DC_from_DS_DEGL_1_ok a b c d) (conj (DS_DC_from_DS_DEGL_2_ok a b c d) (DS_DC_from_DS_DEGL_3_ok a b c d))). Qed.
Print Assumptions C23_DS_DC_from_DS_DEGL.

Theorem C23_DS_DEGL_from_DS_DC : forall a b c d : nat -> R,
  (DS_DEGL_from_DS_DC_1 a b c d = flat_A 1%nat (spec_DS_DEGL_from_DS_DC 1%nat (full_A 1%nat a) (full_t 1%nat b) (full_t 1%nat c) (full_s 1%nat d))) /\
  (DS_DEGL_from_DS_DC_2 a b c d = flat_A 2%nat (spec_DS_DEGL_from_DS_DC 2%nat (full_A 2%nat a) (full_t 2%nat b) (full_t 2%nat c) (full_s 2%nat d))) /\
  (DS_DEGL_from_DS_DC_3 a b c d = flat_A 3%nat (spec_DS_DEGL_from_DS_DC 3%nat (full_A 3%nat a) (full_t 3%nat b) (full_t 3%nat c) (full_s 3%nat d))).
Proof. intros a b c d; exact (conj (DS_DEGL_from_DS_DC_1_ok a b c d) (conj (DS_DEGL_from_DS_DC_2_ok a b c d) (DS_DEGL_from_DS_DC_3_ok a b c d))). Qed.
Print Assumptions C23_DS_DEGL_from_DS_DC.

Theorem C23_SPATIAL_MODULI_from_DS_DEGL : forall a b c d : nat -> R,
  (SPATIAL_MODULI_from_DS_DEGL_1 a b c d = flat_A 1%nat (spec_SPATIAL_MODULI_from_DS_DEGL 1%nat (full_A 1%nat a) (full_t 1%nat b) (full_t 1%nat c) (full_s 1%nat d))) /\
  (SPATIAL_MODULI_from_DS_DEGL_2 a b c d = flat_A 2%nat (spec_SPATIAL_MODULI_from_DS_DEGL 2%nat (full_A 2%nat a) (full_t 2%nat b) (full_t 2%nat c) (full_s 2%nat d))).
Proof. intros a b c d; exact (conj (SPATIAL_MODULI_from_DS_DEGL_1_ok a b c d) (SPATIAL_MODULI_from_DS_DEGL_2_ok a b c d)). Qed.
Print Assumptions C23_SPATIAL_MODULI_from_DS_DEGL.

Theorem C23_DS_DF_from_DS_DC : forall a b c d : nat -> R,
  (DS_DF_from_DS_DC_1 a b c d = flat_C 1%nat (spec_DS_DF_from_DS_DC 1%nat (full_A 1%nat a) (full_t 1%nat b) (full_t 1%nat c) (full_s 1%nat d))) /\
  (DS_DF_from_DS_DC_2 a b c d = flat_C 2%nat (spec_DS_DF_from_DS_DC 2%nat (full_A 2%nat a) (full_t 2%nat b) (full_t 2%nat c) (full_s 2%nat d))) /\
  (DS_DF_from_DS_DC_3 a b c d = flat_C 3%nat (spec_DS_DF_from_DS_DC 3%nat (full_A 3%nat a) (full_t 3%nat b) (full_t 3%nat c) (full_s 3%nat d))).
Proof. intros a b c d; exact (conj (DS_DF_from_DS_DC_1_ok a b c d) (conj (DS_DF_from_DS_DC_2_ok a b c d) (DS_DF_from_DS_DC_3_ok a b c d))). Qed.
Print Assumptions C23_DS_DF_from_DS_DC.

Theorem C23_C_TRUESDELL_from_SPATIAL_MODULI : forall a b c d : nat -> R,
  (det2 (full_t 1%nat c) <> 0 -> C_TRUESDELL_from_SPATIAL_MODULI_1 a b c d = flat_A 1%nat (spec_C_TRUESDELL_from_SPATIAL_MODULI 1%nat (full_A 1%nat a) (full_t 1%nat b) (full_t 1%nat c) (full_s 1%nat d))) /\
  (det2 (full_t 2%nat c) <> 0 -> C_TRUESDELL_from_SPATIAL_MODULI_2 a b c d = flat_A 2%nat (spec_C_TRUESDELL_from_SPATIAL_MODULI 2%nat (full_A 2%nat a) (full_t 2%nat b) (full_t 2%nat c) (full_s 2%nat d))) /\
  (det2 (full_t 3%nat c) <> 0 -> C_TRUESDELL_from_SPATIAL_MODULI_3 a b c d = flat_A 3%nat (spec_C_TRUESDELL_from_SPATIAL_MODULI 3%nat (full_A 3%nat a) (full_t 3%nat b) (full_t 3%nat c) (full_s 3%nat d))).
Proof. intros a b c d; exact (conj (C_TRUESDELL_from_SPATIAL_MODULI_1_ok a b c d) (conj (C_TRUESDELL_from_SPATIAL_MODULI_2_ok a b c d) (C_TRUESDELL_from_SPATIAL_MODULI_3_ok a b c d))). Qed.
Print Assumptions C23_C_TRUESDELL_from_SPATIAL_MODULI.

Theorem C23_SPATIAL_MODULI_from_C_TRUESDELL : forall a b c d : nat -> R,
  (SPATIAL_MODULI_from_C_TRUESDELL_1 a b c d = flat_A 1%nat (spec_SPATIAL_MODULI_from_C_TRUESDELL 1%nat (full_A 1%nat a) (full_t 1%nat b) (full_t 1%nat c) (full_s 1%nat d))) /\
  (SPATIAL_MODULI_from_C_TRUESDELL_2 a b c d = flat_A 2%nat (spec_SPATIAL_MODULI_from_C_TRUESDELL 2%nat (full_A 2%nat a) (full_t 2%nat b) (full_t 2%nat c) (full_s 2%nat d))) /\
  (SPATIAL_MODULI_from_C_TRUESDELL_3 a b c d = flat_A 3%nat (spec_SPATIAL_MODULI_from_C_TRUESDELL 3%nat (full_A 3%nat a) (full_t 3%nat b) (full_t 3%nat c) (full_s 3%nat d))).
Proof. intros a b c d; exact (conj (SPATIAL_MODULI_from_C_TRUESDELL_1_ok a b c d) (conj (SPATIAL_MODULI_from_C_TRUESDELL_2_ok a b c d) (SPATIAL_MODULI_from_C_TRUESDELL_3_ok a b c d))). Qed.
Print Assumptions C23_SPATIAL_MODULI_from_C_TRUESDELL.

Theorem C23_C_TRUESDELL_from_DS_DEGL : forall a b c d : nat -> R,
  (det2 (full_t 1%nat c) <> 0 -> C_TRUESDELL_from_DS_DEGL_1 a b c d = flat_A 1%nat (spec_C_TRUESDELL_from_DS_DEGL 1%nat (full_A 1%nat a) (full_t 1%nat b) (full_t 1%nat c) (full_s 1%nat d))) /\
  (det2 (full_t 2%nat c) <> 0 -> C_TRUESDELL_from_DS_DEGL_2 a b c d = flat_A 2%nat (spec_C_TRUESDELL_from_DS_DEGL 2%nat (full_A 2%nat a) (full_t 2%nat b) (full_t 2%nat c) (full_s 2%nat d))).
Proof. intros a b c d; exact (conj (C_TRUESDELL_from_DS_DEGL_1_ok a b c d) (C_TRUESDELL_from_DS_DEGL_2_ok a b c d)). Qed.
Print Assumptions C23_C_TRUESDELL_from_DS_DEGL.

Theorem C23_DSIG_DDF_from_DSIG_DF : forall a b c d : nat -> R,
  (DSIG_DDF_from_DSIG_DF_1 a b c d = flat_C 1%nat (spec_DSIG_DDF_from_DSIG_DF 1%nat (full_C 1%nat a) (full_t 1%nat b) (full_t 1%nat c) (full_s 1%nat d))) /\
  (DSIG_DDF_from_DSIG_DF_2 a b c d = flat_C 2%nat (spec_DSIG_DDF_from_DSIG_DF 2%nat (full_C 2%nat a) (full_t 2%nat b) (full_t 2%nat c) (full_s 2%nat d))) /\
  (DSIG_DDF_from_DSIG_DF_3 a b c d = flat_C 3%nat (spec_DSIG_DDF_from_DSIG_DF 3%nat (full_C 3%nat a) (full_t 3%nat b) (full_t 3%nat c) (full_s 3%nat d))).
Proof. intros a b c d; exact (conj (DSIG_DDF_from_DSIG_DF_1_ok a b c d) (conj (DSIG_DDF_from_DSIG_DF_2_ok a b c d) (DSIG_DDF_from_DSIG_DF_3_ok a b c d))). Qed.
Print Assumptions C23_DSIG_DDF_from_DSIG_DF.

Theorem C23_DTAU_DDF_from_DTAU_DF : forall a b c d : nat -> R,
  (DTAU_DDF_from_DTAU_DF_1 a b c d = flat_C 1%nat (spec_DTAU_DDF_from_DTAU_DF 1%nat (full_C 1%nat a) (full_t 1%nat b) (full_t 1%nat c) (full_s 1%nat d))) /\
  (DTAU_DDF_from_DTAU_DF_2 a b c d = flat_C 2%nat (spec_DTAU_DDF_from_DTAU_DF 2%nat (full_C 2%nat a) (full_t 2%nat b) (full_t 2%nat c) (full_s 2%nat d))) /\
  (DTAU_DDF_from_DTAU_DF_3 a b c d = flat_C 3%nat (spec_DTAU_DDF_from_DTAU_DF 3%nat (full_C 3%nat a) (full_t 3%nat b) (full_t 3%nat c) (full_s 3%nat d))).
Proof. intros a b c d; exact (conj (DTAU_DDF_from_DTAU_DF_1_ok a b c d) (conj (DTAU_DDF_from_DTAU_DF_2_ok a b c d) (DTAU_DDF_from_DTAU_DF_3_ok a b c d))). Qed.
Print Assumptions C23_DTAU_DDF_from_DTAU_DF.

Theorem C23_DSIG_DF_from_DSIG_DDF : forall a b c d : nat -> R,
  (det2 (full_t 1%nat b) <> 0 -> DSIG_DF_from_DSIG_DDF_1 a b c d = flat_C 1%nat (spec_DSIG_DF_from_DSIG_DDF 1%nat (full_C 1%nat a) (full_t 1%nat b) (full_t 1%nat c) (full_s 1%nat d))) /\
  (det2 (full_t 2%nat b) <> 0 -> DSIG_DF_from_DSIG_DDF_2 a b c d = flat_C 2%nat (spec_DSIG_DF_from_DSIG_DDF 2%nat (full_C 2%nat a) (full_t 2%nat b) (full_t 2%nat c) (full_s 2%nat d))).
Proof. intros a b c d; exact (conj (DSIG_DF_from_DSIG_DDF_1_ok a b c d) (DSIG_DF_from_DSIG_DDF_2_ok a b c d)). Qed.
Print Assumptions C23_DSIG_DF_from_DSIG_DDF.

Theorem C23_DTAU_DF_from_DTAU_DDF : forall a b c d : nat -> R,
  (det2 (full_t 1%nat b) <> 0 -> DTAU_DF_from_DTAU_DDF_1 a b c d = flat_C 1%nat (spec_DTAU_DF_from_DTAU_DDF 1%nat (full_C 1%nat a) (full_t 1%nat b) (full_t 1%nat c) (full_s 1%nat d))) /\
  (det2 (full_t 2%nat b) <> 0 -> DTAU_DF_from_DTAU_DDF_2 a b c d = flat_C 2%nat (spec_DTAU_DF_from_DTAU_DDF 2%nat (full_C 2%nat a) (full_t 2%nat b) (full_t 2%nat c) (full_s 2%nat d))).
Proof. intros a b c d; exact (conj (DTAU_DF_from_DTAU_DDF_1_ok a b c d) (DTAU_DF_from_DTAU_DDF_2_ok a b c d)). Qed.
Print Assumptions C23_DTAU_DF_from_DTAU_DDF.

Theorem C23_DSIG_DF_from_DTAU_DF : forall a b c d : nat -> R,
  (det2 (full_t 1%nat c) <> 0 -> DSIG_DF_from_DTAU_DF_1 a b c d = flat_C 1%nat (spec_DSIG_DF_from_DTAU_DF 1%nat (full_C 1%nat a) (full_t 1%nat b) (full_t 1%nat c) (full_s 1%nat d))) /\
  (det2 (full_t 2%nat c) <> 0 -> DSIG_DF_from_DTAU_DF_2 a b c d = flat_C 2%nat (spec_DSIG_DF_from_DTAU_DF 2%nat (full_C 2%nat a) (full_t 2%nat b) (full_t 2%nat c) (full_s 2%nat d))).
Proof. intros a b c d; exact (conj (DSIG_DF_from_DTAU_DF_1_ok a b c d) (DSIG_DF_from_DTAU_DF_2_ok a b c d)). Qed.
Print Assumptions C23_DSIG_DF_from_DTAU_DF.

Theorem C23_ABAQUS_from_C_TAU_JAUMANN : forall a b c d : nat -> R,
  (det2 (full_t 1%nat c) <> 0 -> ABAQUS_from_C_TAU_JAUMANN_1 a b c d = flat_A 1%nat (spec_ABAQUS_from_C_TAU_JAUMANN 1%nat (full_A 1%nat a) (full_t 1%nat b) (full_t 1%nat c) (full_s 1%nat d))) /\
  (det2 (full_t 2%nat c) <> 0 -> ABAQUS_from_C_TAU_JAUMANN_2 a b c d = flat_A 2%nat (spec_ABAQUS_from_C_TAU_JAUMANN 2%nat (full_A 2%nat a) (full_t 2%nat b) (full_t 2%nat c) (full_s 2%nat d))) /\
  (det2 (full_t 3%nat c) <> 0 -> ABAQUS_from_C_TAU_JAUMANN_3 a b c d = flat_A 3%nat (spec_ABAQUS_from_C_TAU_JAUMANN 3%nat (full_A 3%nat a) (full_t 3%nat b) (full_t 3%nat c) (full_s 3%nat d))).
Proof. intros a b c d; exact (conj (ABAQUS_from_C_TAU_JAUMANN_1_ok a b c d) (conj (ABAQUS_from_C_TAU_JAUMANN_2_ok a b c d) (ABAQUS_from_C_TAU_JAUMANN_3_ok a b c d))). Qed.
Print Assumptions C23_ABAQUS_from_C_TAU_JAUMANN.

Theorem C23_C_TAU_JAUMANN_from_ABAQUS : forall a b c d : nat -> R,
  (C_TAU_JAUMANN_from_ABAQUS_1 a b c d = flat_A 1%nat (spec_C_TAU_JAUMANN_from_ABAQUS 1%nat (full_A 1%nat a) (full_t 1%nat b) (full_t 1%nat c) (full_s 1%nat d))) /\
  (C_TAU_JAUMANN_from_ABAQUS_2 a b c d = flat_A 2%nat (spec_C_TAU_JAUMANN_from_ABAQUS 2%nat (full_A 2%nat a) (full_t 2%nat b) (full_t 2%nat c) (full_s 2%nat d))) /\
  (C_TAU_JAUMANN_from_ABAQUS_3 a b c d = flat_A 3%nat (spec_C_TAU_JAUMANN_from_ABAQUS 3%nat (full_A 3%nat a) (full_t 3%nat b) (full_t 3%nat c) (full_s 3%nat d))).
Proof. intros a b c d; exact (conj (C_TAU_JAUMANN_from_ABAQUS_1_ok a b c d) (conj (C_TAU_JAUMANN_from_ABAQUS_2_ok a b c d) (C_TAU_JAUMANN_from_ABAQUS_3_ok a b c d))). Qed.
Print Assumptions C23_C_TAU_JAUMANN_from_ABAQUS.

Theorem C23_C_TAU_JAUMANN_from_SPATIAL_MODULI : forall a b c d : nat -> R,
  (C_TAU_JAUMANN_from_SPATIAL_MODULI_1 a b c d = flat_A 1%nat (spec_C_TAU_JAUMANN_from_SPATIAL_MODULI 1%nat (full_A 1%nat a) (full_t 1%nat b) (full_t 1%nat c) (full_s 1%nat d))) /\
  (C_TAU_JAUMANN_from_SPATIAL_MODULI_2 a b c d = flat_A 2%nat (spec_C_TAU_JAUMANN_from_SPATIAL_MODULI 2%nat (full_A 2%nat a) (full_t 2%nat b) (full_t 2%nat c) (full_s 2%nat d))) /\
  (C_TAU_JAUMANN_from_SPATIAL_MODULI_3 a b c d = flat_A 3%nat (spec_C_TAU_JAUMANN_from_SPATIAL_MODULI 3%nat (full_A 3%nat a) (full_t 3%nat b) (full_t 3%nat c) (full_s 3%nat d))).
Proof. intros a b c d; exact (conj (C_TAU_JAUMANN_from_SPATIAL_MODULI_1_ok a b c d) (conj (C_TAU_JAUMANN_from_SPATIAL_MODULI_2_ok a b c d) (C_TAU_JAUMANN_from_SPATIAL_MODULI_3_ok a b c d))). Qed.
Print Assumptions C23_C_TAU_JAUMANN_from_SPATIAL_MODULI.

Theorem C23_SPATIAL_MODULI_from_C_TAU_JAUMANN : forall a b c d : nat -> R,
  (SPATIAL_MODULI_from_C_TAU_JAUMANN_1 a b c d = flat_A 1%nat (spec_SPATIAL_MODULI_from_C_TAU_JAUMANN 1%nat (full_A 1%nat a) (full_t 1%nat b) (full_t 1%nat c) (full_s 1%nat d))) /\
  (SPATIAL_MODULI_from_C_TAU_JAUMANN_2 a b c d = flat_A 2%nat (spec_SPATIAL_MODULI_from_C_TAU_JAUMANN 2%nat (full_A 2%nat a) (full_t 2%nat b) (full_t 2%nat c) (full_s 2%nat d))) /\
  (SPATIAL_MODULI_from_C_TAU_JAUMANN_3 a b c d = flat_A 3%nat (spec_SPATIAL_MODULI_from_C_TAU_JAUMANN 3%nat (full_A 3%nat a) (full_t 3%nat b) (full_t 3%nat c) (full_s 3%nat d))).
Proof. intros a b c d; exact (conj (SPATIAL_MODULI_from_C_TAU_JAUMANN_1_ok a b c d) (conj (SPATIAL_MODULI_from_C_TAU_JAUMANN_2_ok a b c d) (SPATIAL_MODULI_from_C_TAU_JAUMANN_3_ok a b c d))). Qed.
Print Assumptions C23_SPATIAL_MODULI_from_C_TAU_JAUMANN.

Theorem C23_ABAQUS_from_SPATIAL_MODULI : forall a b c d : nat -> R,
  (det2 (full_t 1%nat c) <> 0 -> ABAQUS_from_SPATIAL_MODULI_1 a b c d = flat_A 1%nat (spec_ABAQUS_from_SPATIAL_MODULI 1%nat (full_A 1%nat a) (full_t 1%nat b) (full_t 1%nat c) (full_s 1%nat d))) /\
  (det2 (full_t 2%nat c) <> 0 -> ABAQUS_from_SPATIAL_MODULI_2 a b c d = flat_A 2%nat (spec_ABAQUS_from_SPATIAL_MODULI 2%nat (full_A 2%nat a) (full_t 2%nat b) (full_t 2%nat c) (full_s 2%nat d))) /\
  (det2 (full_t 3%nat c) <> 0 -> ABAQUS_from_SPATIAL_MODULI_3 a b c d = flat_A 3%nat (spec_ABAQUS_from_SPATIAL_MODULI 3%nat (full_A 3%nat a) (full_t 3%nat b) (full_t 3%nat c) (full_s 3%nat d))).
Proof. intros a b c d; exact (conj (ABAQUS_from_SPATIAL_MODULI_1_ok a b c d) (conj (ABAQUS_from_SPATIAL_MODULI_2_ok a b c d) (ABAQUS_from_SPATIAL_MODULI_3_ok a b c d))). Qed.
Print Assumptions C23_ABAQUS_from_SPATIAL_MODULI.

Theorem C23_SPATIAL_MODULI_from_ABAQUS : forall a b c d : nat -> R,
  (SPATIAL_MODULI_from_ABAQUS_1 a b c d = flat_A 1%nat (spec_SPATIAL_MODULI_from_ABAQUS 1%nat (full_A 1%nat a) (full_t 1%nat b) (full_t 1%nat c) (full_s 1%nat d))) /\
  (SPATIAL_MODULI_from_ABAQUS_2 a b c d = flat_A 2%nat (spec_SPATIAL_MODULI_from_ABAQUS 2%nat (full_A 2%nat a) (full_t 2%nat b) (full_t 2%nat c) (full_s 2%nat d))) /\
  (SPATIAL_MODULI_from_ABAQUS_3 a b c d = flat_A 3%nat (spec_SPATIAL_MODULI_from_ABAQUS 3%nat (full_A 3%nat a) (full_t 3%nat b) (full_t 3%nat c) (full_s 3%nat d))).
Proof. intros a b c d; exact (conj (SPATIAL_MODULI_from_ABAQUS_1_ok a b c d) (conj (SPATIAL_MODULI_from_ABAQUS_2_ok a b c d) (SPATIAL_MODULI_from_ABAQUS_3_ok a b c d))). Qed.
Print Assumptions C23_SPATIAL_MODULI_from_ABAQUS.

Theorem C23_ABAQUS_from_DS_DEGL : forall a b c d : nat -> R,
  (det2 (full_t 1%nat c) <> 0 -> ABAQUS_from_DS_DEGL_1 a b c d = flat_A 1%nat (spec_ABAQUS_from_DS_DEGL 1%nat (full_A 1%nat a) (full_t 1%nat b) (full_t 1%nat c) (full_s 1%nat d))) /\
  (det2 (full_t 2%nat c) <> 0 -> ABAQUS_from_DS_DEGL_2 a b c d = flat_A 2%nat (spec_ABAQUS_from_DS_DEGL 2%nat (full_A 2%nat a) (full_t 2%nat b) (full_t 2%nat c) (full_s 2%nat d))).
Proof. intros a b c d; exact (conj (ABAQUS_from_DS_DEGL_1_ok a b c d) (ABAQUS_from_DS_DEGL_2_ok a b c d)). Qed.
Print Assumptions C23_ABAQUS_from_DS_DEGL.

Theorem C23_C_TAU_JAUMANN_from_DTAU_DF : forall a b c d : nat -> R,
  (C_TAU_JAUMANN_from_DTAU_DF_1 a b c d = flat_A 1%nat (spec_C_TAU_JAUMANN_from_DTAU_DF 1%nat (full_C 1%nat a) (full_t 1%nat b) (full_t 1%nat c) (full_s 1%nat d))) /\
  (C_TAU_JAUMANN_from_DTAU_DF_2 a b c d = flat_A 2%nat (spec_C_TAU_JAUMANN_from_DTAU_DF 2%nat (full_C 2%nat a) (full_t 2%nat b) (full_t 2%nat c) (full_s 2%nat d))) /\
  (C_TAU_JAUMANN_from_DTAU_DF_3 a b c d = flat_A 3%nat (spec_C_TAU_JAUMANN_from_DTAU_DF 3%nat (full_C 3%nat a) (full_t 3%nat b) (full_t 3%nat c) (full_s 3%nat d))).
Proof. intros a b c d; exact (conj (C_TAU_JAUMANN_from_DTAU_DF_1_ok a b c d) (conj (C_TAU_JAUMANN_from_DTAU_DF_2_ok a b c d) (C_TAU_JAUMANN_from_DTAU_DF_3_ok a b c d))). Qed.
Print Assumptions C23_C_TAU_JAUMANN_from_DTAU_DF.

Theorem C23_ABAQUS_from_DTAU_DF : forall a b c d : nat -> R,
  (det2 (full_t 1%nat c) <> 0 -> ABAQUS_from_DTAU_DF_1 a b c d = flat_A 1%nat (spec_ABAQUS_from_DTAU_DF 1%nat (full_C 1%nat a) (full_t 1%nat b) (full_t 1%nat c) (full_s 1%nat d))) /\
  (det2 (full_t 2%nat c) <> 0 -> ABAQUS_from_DTAU_DF_2 a b c d = flat_A 2%nat (spec_ABAQUS_from_DTAU_DF 2%nat (full_C 2%nat a) (full_t 2%nat b) (full_t 2%nat c) (full_s 2%nat d))) /\
  (det2 (full_t 3%nat c) <> 0 -> ABAQUS_from_DTAU_DF_3 a b c d = flat_A 3%nat (spec_ABAQUS_from_DTAU_DF 3%nat (full_C 3%nat a) (full_t 3%nat b) (full_t 3%nat c) (full_s 3%nat d))).
Proof. intros a b c d; exact (conj (ABAQUS_from_DTAU_DF_1_ok a b c d) (conj (ABAQUS_from_DTAU_DF_2_ok a b c d) (ABAQUS_from_DTAU_DF_3_ok a b c d))). Qed.
Print Assumptions C23_ABAQUS_from_DTAU_DF.

Theorem C23_SPATIAL_MODULI_from_DTAU_DF : forall a b c d : nat -> R,
  (SPATIAL_MODULI_from_DTAU_DF_1 a b c d = flat_A 1%nat (spec_SPATIAL_MODULI_from_DTAU_DF 1%nat (full_C 1%nat a) (full_t 1%nat b) (full_t 1%nat c) (full_s 1%nat d))) /\
  (SPATIAL_MODULI_from_DTAU_DF_2 a b c d = flat_A 2%nat (spec_SPATIAL_MODULI_from_DTAU_DF 2%nat (full_C 2%nat a) (full_t 2%nat b) (full_t 2%nat c) (full_s 2%nat d))) /\
  (SPATIAL_MODULI_from_DTAU_DF_3 a b c d = flat_A 3%nat (spec_SPATIAL_MODULI_from_DTAU_DF 3%nat (full_C 3%nat a) (full_t 3%nat b) (full_t 3%nat c) (full_s 3%nat d))).
Proof. intros a b c d; exact (conj (SPATIAL_MODULI_from_DTAU_DF_1_ok a b c d) (conj (SPATIAL_MODULI_from_DTAU_DF_2_ok a b c d) (SPATIAL_MODULI_from_DTAU_DF_3_ok a b c d))). Qed.
Print Assumptions C23_SPATIAL_MODULI_from_DTAU_DF.

Theorem C23_C_TRUESDELL_from_DTAU_DF : forall a b c d : nat -> R,
  (det2 (full_t 1%nat c) <> 0 -> C_TRUESDELL_from_DTAU_DF_1 a b c d = flat_A 1%nat (spec_C_TRUESDELL_from_DTAU_DF 1%nat (full_C 1%nat a) (full_t 1%nat b) (full_t 1%nat c) (full_s 1%nat d))) /\
  (det2 (full_t 2%nat c) <> 0 -> C_TRUESDELL_from_DTAU_DF_2 a b c d = flat_A 2%nat (spec_C_TRUESDELL_from_DTAU_DF 2%nat (full_C 2%nat a) (full_t 2%nat b) (full_t 2%nat c) (full_s 2%nat d))) /\
  (det2 (full_t 3%nat c) <> 0 -> C_TRUESDELL_from_DTAU_DF_3 a b c d = flat_A 3%nat (spec_C_TRUESDELL_from_DTAU_DF 3%nat (full_C 3%nat a) (full_t 3%nat b) (full_t 3%nat c) (full_s 3%nat d))).
Proof. intros a b c d; exact (conj (C_TRUESDELL_from_DTAU_DF_1_ok a b c d) (conj (C_TRUESDELL_from_DTAU_DF_2_ok a b c d) (C_TRUESDELL_from_DTAU_DF_3_ok a b c d))). Qed.
Print Assumptions C23_C_TRUESDELL_from_DTAU_DF.

Theorem C23_rt_DS_DEGL_DS_DC : forall a b c d : nat -> R,
  (rt_DS_DEGL_DS_DC_1 a b c d = flat_A 1%nat (spec_rt_DS_DEGL_DS_DC 1%nat (full_A 1%nat a) (full_t 1%nat b) (full_t 1%nat c) (full_s 1%nat d))) /\
  (rt_DS_DEGL_DS_DC_2 a b c d = flat_A 2%nat (spec_rt_DS_DEGL_DS_DC 2%nat (full_A 2%nat a) (full_t 2%nat b) (full_t 2%nat c) (full_s 2%nat d))) /\
  (rt_DS_DEGL_DS_DC_3 a b c d = flat_A 3%nat (spec_rt_DS_DEGL_DS_DC 3%nat (full_A 3%nat a) (full_t 3%nat b) (full_t 3%nat c) (full_s 3%nat d))).
Proof. intros a b c d; exact (conj (rt_DS_DEGL_DS_DC_1_ok a b c d) (conj (rt_DS_DEGL_DS_DC_2_ok a b c d) (rt_DS_DEGL_DS_DC_3_ok a b c d))). Qed.
Print Assumptions C23_rt_DS_DEGL_DS_DC.

Theorem C23_rt_C_TRUESDELL_SPATIAL_MODULI : forall a b c d : nat -> R,
  (det2 (full_t 1%nat c) <> 0 -> rt_C_TRUESDELL_SPATIAL_MODULI_1 a b c d = flat_A 1%nat (spec_rt_C_TRUESDELL_SPATIAL_MODULI 1%nat (full_A 1%nat a) (full_t 1%nat b) (full_t 1%nat c) (full_s 1%nat d))) /\
  (det2 (full_t 2%nat c) <> 0 -> rt_C_TRUESDELL_SPATIAL_MODULI_2 a b c d = flat_A 2%nat (spec_rt_C_TRUESDELL_SPATIAL_MODULI 2%nat (full_A 2%nat a) (full_t 2%nat b) (full_t 2%nat c) (full_s 2%nat d))) /\
  (det2 (full_t 3%nat c) <> 0 -> rt_C_TRUESDELL_SPATIAL_MODULI_3 a b c d = flat_A 3%nat (spec_rt_C_TRUESDELL_SPATIAL_MODULI 3%nat (full_A 3%nat a) (full_t 3%nat b) (full_t 3%nat c) (full_s 3%nat d))).
Proof. intros a b c d; exact (conj (rt_C_TRUESDELL_SPATIAL_MODULI_1_ok a b c d) (conj (rt_C_TRUESDELL_SPATIAL_MODULI_2_ok a b c d) (rt_C_TRUESDELL_SPATIAL_MODULI_3_ok a b c d))). Qed.
Print Assumptions C23_rt_C_TRUESDELL_SPATIAL_MODULI.

Theorem C23_rt_SPATIAL_MODULI_C_TAU_JAUMANN : forall a b c d : nat -> R,
  (rt_SPATIAL_MODULI_C_TAU_JAUMANN_1 a b c d = flat_A 1%nat (spec_rt_SPATIAL_MODULI_C_TAU_JAUMANN 1%nat (full_A 1%nat a) (full_t 1%nat b) (full_t 1%nat c) (full_s 1%nat d))) /\
  (rt_SPATIAL_MODULI_C_TAU_JAUMANN_2 a b c d = flat_A 2%nat (spec_rt_SPATIAL_MODULI_C_TAU_JAUMANN 2%nat (full_A 2%nat a) (full_t 2%nat b) (full_t 2%nat c) (full_s 2%nat d))) /\
  (rt_SPATIAL_MODULI_C_TAU_JAUMANN_3 a b c d = flat_A 3%nat (spec_rt_SPATIAL_MODULI_C_TAU_JAUMANN 3%nat (full_A 3%nat a) (full_t 3%nat b) (full_t 3%nat c) (full_s 3%nat d))).
Proof. intros a b c d; exact (conj (rt_SPATIAL_MODULI_C_TAU_JAUMANN_1_ok a b c d) (conj (rt_SPATIAL_MODULI_C_TAU_JAUMANN_2_ok a b c d) (rt_SPATIAL_MODULI_C_TAU_JAUMANN_3_ok a b c d))). Qed.
Print Assumptions C23_rt_SPATIAL_MODULI_C_TAU_JAUMANN.

Theorem C23_rt_SPATIAL_MODULI_ABAQUS : forall a b c d : nat -> R,
  (det2 (full_t 1%nat c) <> 0 -> rt_SPATIAL_MODULI_ABAQUS_1 a b c d = flat_A 1%nat (spec_rt_SPATIAL_MODULI_ABAQUS 1%nat (full_A 1%nat a) (full_t 1%nat b) (full_t 1%nat c) (full_s 1%nat d))) /\
  (det2 (full_t 2%nat c) <> 0 -> rt_SPATIAL_MODULI_ABAQUS_2 a b c d = flat_A 2%nat (spec_rt_SPATIAL_MODULI_ABAQUS 2%nat (full_A 2%nat a) (full_t 2%nat b) (full_t 2%nat c) (full_s 2%nat d))) /\
  (det2 (full_t 3%nat c) <> 0 -> rt_SPATIAL_MODULI_ABAQUS_3 a b c d = flat_A 3%nat (spec_rt_SPATIAL_MODULI_ABAQUS 3%nat (full_A 3%nat a) (full_t 3%nat b) (full_t 3%nat c) (full_s 3%nat d))).
Proof. intros a b c d; exact (conj (rt_SPATIAL_MODULI_ABAQUS_1_ok a b c d) (conj (rt_SPATIAL_MODULI_ABAQUS_2_ok a b c d) (rt_SPATIAL_MODULI_ABAQUS_3_ok a b c d))). Qed.
Print Assumptions C23_rt_SPATIAL_MODULI_ABAQUS.

Theorem C23_rt_C_TAU_JAUMANN_ABAQUS : forall a b c d : nat -> R,
  (det2 (full_t 1%nat c) <> 0 -> rt_C_TAU_JAUMANN_ABAQUS_1 a b c d = flat_A 1%nat (spec_rt_C_TAU_JAUMANN_ABAQUS 1%nat (full_A 1%nat a) (full_t 1%nat b) (full_t 1%nat c) (full_s 1%nat d))) /\
  (det2 (full_t 2%nat c) <> 0 -> rt_C_TAU_JAUMANN_ABAQUS_2 a b c d = flat_A 2%nat (spec_rt_C_TAU_JAUMANN_ABAQUS 2%nat (full_A 2%nat a) (full_t 2%nat b) (full_t 2%nat c) (full_s 2%nat d))) /\
  (det2 (full_t 3%nat c) <> 0 -> rt_C_TAU_JAUMANN_ABAQUS_3 a b c d = flat_A 3%nat (spec_rt_C_TAU_JAUMANN_ABAQUS 3%nat (full_A 3%nat a) (full_t 3%nat b) (full_t 3%nat c) (full_s 3%nat d))).
Proof. intros a b c d; exact (conj (rt_C_TAU_JAUMANN_ABAQUS_1_ok a b c d) (conj (rt_C_TAU_JAUMANN_ABAQUS_2_ok a b c d) (rt_C_TAU_JAUMANN_ABAQUS_3_ok a b c d))). Qed.
Print Assumptions C23_rt_C_TAU_JAUMANN_ABAQUS.

Theorem C23_rt_DSIG_DF_DSIG_DDF : forall a b c d : nat -> R,
  (det2 (full_t 1%nat b) <> 0 -> rt_DSIG_DF_DSIG_DDF_1 a b c d = flat_C 1%nat (spec_rt_DSIG_DF_DSIG_DDF 1%nat (full_C 1%nat a) (full_t 1%nat b) (full_t 1%nat c) (full_s 1%nat d))) /\
  (det2 (full_t 2%nat b) <> 0 -> rt_DSIG_DF_DSIG_DDF_2 a b c d = flat_C 2%nat (spec_rt_DSIG_DF_DSIG_DDF 2%nat (full_C 2%nat a) (full_t 2%nat b) (full_t 2%nat c) (full_s 2%nat d))).
Proof. intros a b c d; exact (conj (rt_DSIG_DF_DSIG_DDF_1_ok a b c d) (rt_DSIG_DF_DSIG_DDF_2_ok a b c d)). Qed.
Print Assumptions C23_rt_DSIG_DF_DSIG_DDF.

Theorem C23_rt_DTAU_DF_DTAU_DDF : forall a b c d : nat -> R,
  (det2 (full_t 1%nat b) <> 0 -> rt_DTAU_DF_DTAU_DDF_1 a b c d = flat_C 1%nat (spec_rt_DTAU_DF_DTAU_DDF 1%nat (full_C 1%nat a) (full_t 1%nat b) (full_t 1%nat c) (full_s 1%nat d))) /\
  (det2 (full_t 2%nat b) <> 0 -> rt_DTAU_DF_DTAU_DDF_2 a b c d = flat_C 2%nat (spec_rt_DTAU_DF_DTAU_DDF 2%nat (full_C 2%nat a) (full_t 2%nat b) (full_t 2%nat c) (full_s 2%nat d))).
Proof. intros a b c d; exact (conj (rt_DTAU_DF_DTAU_DDF_1_ok a b c d) (rt_DTAU_DF_DTAU_DDF_2_ok a b c d)). Qed.
Print Assumptions C23_rt_DTAU_DF_DTAU_DDF.

Theorem C23_rt_DS_DEGL_SPATIAL_MODULI : forall a b c d : nat -> R,
  (det2 (full_t 1%nat c) <> 0 -> rt_DS_DEGL_SPATIAL_MODULI_1 a b c d = flat_A 1%nat (spec_rt_DS_DEGL_SPATIAL_MODULI 1%nat (full_A 1%nat a) (full_t 1%nat b) (full_t 1%nat c) (full_s 1%nat d))) /\
  (det2 (full_t 2%nat c) <> 0 -> rt_DS_DEGL_SPATIAL_MODULI_2 a b c d = flat_A 2%nat (spec_rt_DS_DEGL_SPATIAL_MODULI 2%nat (full_A 2%nat a) (full_t 2%nat b) (full_t 2%nat c) (full_s 2%nat d))).
Proof. intros a b c d; exact (conj (rt_DS_DEGL_SPATIAL_MODULI_1_ok a b c d) (rt_DS_DEGL_SPATIAL_MODULI_2_ok a b c d)). Qed.
Print Assumptions C23_rt_DS_DEGL_SPATIAL_MODULI.

Theorem C23_rt_C_TAU_JAUMANN_DTAU_DF : forall a b c d : nat -> R,
  (det2 (full_t 1%nat c) <> 0 -> rt_C_TAU_JAUMANN_DTAU_DF_1 a b c d = flat_A 1%nat (spec_rt_C_TAU_JAUMANN_DTAU_DF 1%nat (full_A 1%nat a) (full_t 1%nat b) (full_t 1%nat c) (full_s 1%nat d))) /\
  (det2 (full_t 2%nat c) <> 0 -> rt_C_TAU_JAUMANN_DTAU_DF_2 a b c d = flat_A 2%nat (spec_rt_C_TAU_JAUMANN_DTAU_DF 2%nat (full_A 2%nat a) (full_t 2%nat b) (full_t 2%nat c) (full_s 2%nat d))).
Proof. intros a b c d; exact (conj (rt_C_TAU_JAUMANN_DTAU_DF_1_ok a b c d) (rt_C_TAU_JAUMANN_DTAU_DF_2_ok a b c d)). Qed.
Print Assumptions C23_rt_C_TAU_JAUMANN_DTAU_DF.

Theorem C23_rt_SPATIAL_MODULI_DTAU_DF : forall a b c d : nat -> R,
  (det2 (full_t 1%nat c) <> 0 -> rt_SPATIAL_MODULI_DTAU_DF_1 a b c d = flat_A 1%nat (spec_rt_SPATIAL_MODULI_DTAU_DF 1%nat (full_A 1%nat a) (full_t 1%nat b) (full_t 1%nat c) (full_s 1%nat d))) /\
  (det2 (full_t 2%nat c) <> 0 -> rt_SPATIAL_MODULI_DTAU_DF_2 a b c d = flat_A 2%nat (spec_rt_SPATIAL_MODULI_DTAU_DF 2%nat (full_A 2%nat a) (full_t 2%nat b) (full_t 2%nat c) (full_s 2%nat d))).
Proof. intros a b c d; exact (conj (rt_SPATIAL_MODULI_DTAU_DF_1_ok a b c d) (rt_SPATIAL_MODULI_DTAU_DF_2_ok a b c d)). Qed.
Print Assumptions C23_rt_SPATIAL_MODULI_DTAU_DF.

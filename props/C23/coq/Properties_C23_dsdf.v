(* C23 -- DS_DF <- DS_DEGL (used when finding F23 is absent) (statements only; every proof is `exact` of lemmas generated and proved per component).
   Regenerate with mkprops.py when the operation registry of trace.cxx changes. *)
From Coq Require Import Reals List.
Require Import TensorIndex C23Spec C23_g0_n1_p0 C23_g0_n2_p0 C23_g0_n3_p0 C23_g1_n1_p0 C23_g1_n2_p0 C23_g1_n2_p1 C23_g1_n3_p0 C23_g1_n3_p1 C23_g1_n3_p2 C23_g1_n3_p3 C23_g2_n1_p0 C23_g2_n2_p0 C23_g2_n2_p1 C23_g2_n2_p2 C23_g2_n3_p0 C23_g2_n3_p1 C23_g2_n3_p2 C23_g2_n3_p3 C23_g3_n1_p0 C23_g3_n2_p0 C23_g3_n2_p1 C23_g3_n3_p0 C23_g3_n3_p1 C23_g3_n3_p2.

Import ListNotations.
Local Open Scope R_scope.

Theorem C23_DS_DF_from_DS_DEGL : forall a b c d : nat -> R,
  (DS_DF_from_DS_DEGL_1 a b c d = flat_C 1%nat (spec_DS_DF_from_DS_DEGL 1%nat (full_A 1%nat a) (full_t 1%nat b) (full_t 1%nat c) (full_s 1%nat d))) /\
  (DS_DF_from_DS_DEGL_2 a b c d = flat_C 2%nat (spec_DS_DF_from_DS_DEGL 2%nat (full_A 2%nat a) (full_t 2%nat b) (full_t 2%nat c) (full_s 2%nat d))) /\
  (DS_DF_from_DS_DEGL_3 a b c d = flat_C 3%nat (spec_DS_DF_from_DS_DEGL 3%nat (full_A 3%nat a) (full_t 3%nat b) (full_t 3%nat c) (full_s 3%nat d))).
Proof. intros a b c d; exact (conj (DS_DF_from_DS_DEGL_1_ok a b c d) (conj (DS_DF_from_DS_DEGL_2_ok a b c d) (DS_DF_from_DS_DEGL_3_ok a b c d))). Qed.
Print Assumptions C23_DS_DF_from_DS_DEGL.

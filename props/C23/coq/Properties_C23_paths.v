(* C23 -- mfront's run-time conversion-path table: property statements (proofs in C23PathProofs.v, model of
   getConversionsPath / getShortestPath in C23PathModel.v, `flags` and `converters` read from /repo on this run).
   `mfront_path fuel converters ktos t` is the model of
      getShortestPath(concat_{k in ktos} getConversionsPath(k, ktos, converters), t)
   as called by BehaviourCodeGeneratorBase (ktos: the tangent operators given by the behaviour). *)
From Coq Require Import List Arith Bool.
Import ListNotations.
From C23 Require Import C23PathModel C23_convtable_gen C23PathProofs.

(* every flag once; every registered conversion joins two distinct flags of the list *)
Theorem C23_paths_table_wf : table_wf = true.
Proof. exact table_wf_ok. Qed.
Print Assumptions C23_paths_table_wf.

(* (i) the path chosen by mfront, when there is one, is a chain of REGISTERED conversions that starts from the known
   operator, ends at the requested one, every step consuming the result of the previous one, no operator computed twice *)
Theorem C23_paths_valid : forall from to, In from flags -> In to flags ->
  exists p, mfront_path fuel converters [from] to = Some p /\
            (p = [] \/ (valid_chain converters from to p = true /\ simple_path [from] p = true)).
Proof. exact paths_valid. Qed.
Print Assumptions C23_paths_valid.

Theorem C23_paths_valid_pairs : forall ktos to, In ktos (pairs_of flags) -> In to flags ->
  exists p, mfront_path fuel converters ktos to = Some p /\
            (p = [] \/ (valid_chain_from_set converters ktos to p = true /\ simple_path ktos p = true)).
Proof. exact paths_valid_pairs. Qed.
Print Assumptions C23_paths_valid_pairs.

(* (ii) mfront finds a path exactly when the requested operator can be reached through registered conversions *)
Theorem C23_paths_complete : forall from to, In from flags -> In to flags -> to <> from ->
  exists p, mfront_path fuel converters [from] to = Some p /\
            (p <> [] <-> reachable fuel converters [from] to = true).
Proof. exact paths_complete. Qed.
Print Assumptions C23_paths_complete.

Theorem C23_paths_complete_pairs : forall ktos to, In ktos (pairs_of flags) -> In to flags -> mem to ktos = false ->
  exists p, mfront_path fuel converters ktos to = Some p /\
            (p <> [] <-> reachable fuel converters ktos to = true).
Proof. exact paths_complete_pairs. Qed.
Print Assumptions C23_paths_complete_pairs.

(* (iii) and the path has the breadth-first distance as its number of conversions *)
Theorem C23_paths_shortest : forall from to, In from flags -> In to flags -> to <> from ->
  exists p, mfront_path fuel converters [from] to = Some p /\
            match bfs_dist fuel converters [from] to with
            | None => p = []
            | Some d => length p = d
            end.
Proof. exact paths_shortest. Qed.
Print Assumptions C23_paths_shortest.

Theorem C23_paths_shortest_pairs : forall ktos to, In ktos (pairs_of flags) -> In to flags -> mem to ktos = false ->
  exists p, mfront_path fuel converters ktos to = Some p /\
            match bfs_dist fuel converters ktos to with
            | None => p = []
            | Some d => length p = d
            end.
Proof. exact paths_shortest_pairs. Qed.
Print Assumptions C23_paths_shortest_pairs.

(* the reachability sets used above are closed under the registered conversions (first conjunct of reach_ok_set) and the
   breadth-first distance is defined exactly on the reachable operators (second conjunct), for every known set and target *)
Theorem C23_paths_reach_consistent : forallb reach_ok_set known_sets = true.
Proof. exact reach_ok_all. Qed.
Print Assumptions C23_paths_reach_consistent.

(* C23 -- hand-written executable model (engine H) of mfront's run-time conversion-path finder
     mfront/src/FiniteStrainBehaviourTangentOperatorConversionPath.cxx  (getConversionsPath, getShortestPath)
   and of its use in mfront/src/BehaviourCodeGeneratorBase.cxx (writeBehaviourComputePredictionOperator /
   writeBehaviourComputeTangentOperator), together with the independent notions the properties are stated with
   (valid chain, reachability, breadth-first distance).  Flags are natural numbers (the value of the C++ enumerator);
   a conversion is the pair (from, to); the table of conversions is an ARGUMENT of every function.
   Everything is boolean / computable: the theorems over the table of /repo close by computation. *)
From Coq Require Import List Arith Bool.
Import ListNotations.

Definition flag := nat.
Definition conv := (nat * nat)%type.          (* (from, to) *)
Definition cfrom (c : conv) : nat := fst c.
Definition cto (c : conv) : nat := snd c.
Definition path := list conv.

Definition mem (x : nat) (l : list nat) : bool := existsb (Nat.eqb x) l.
Definition conv_eqb (a b : conv) : bool := Nat.eqb (fst a) (fst b) && Nat.eqb (snd a) (snd b).
Definition conv_mem (c : conv) (l : list conv) : bool := existsb (conv_eqb c) l.

(* ------------------------------------------------------------------------------------------------------------- *)
(* getConversionsPath (private overload): arguments b (start), cp (current path), k (known operators).
   C++:  current_path = cp ++ [b];
         for c in converters (in order): if c.from == b and not (c.to in k or c.to in cp):     [cp, NOT current_path]
            paths = recursive call (c.to, current_path, k)
            if paths non empty: every path of paths, with c inserted in front, is appended to r (same order)
            else: the one-step path [c] is appended to r.
   The recursion of the C++ is unbounded in the text; `fuel` bounds it here and None means "fuel exhausted"
   (never the case in the theorems: they are stated on `Some`). *)
Fixpoint gcp (fuel : nat) (convs : list conv) (b : nat) (cp k : list nat) {struct fuel} : option (list path) :=
  match fuel with
  | O => None
  | S f =>
    let current_path := cp ++ [b] in
    (fix loop (cs : list conv) : option (list path) :=
       match cs with
       | [] => Some []
       | c :: cs' =>
         let here : option (list path) :=
           if Nat.eqb (cfrom c) b then
             if negb (mem (cto c) k || mem (cto c) cp) then
               match gcp f convs (cto c) current_path k with
               | None => None
               | Some [] => Some [[c]]
               | Some paths => Some (map (cons c) paths)
               end
             else Some []
           else Some [] in
         match here with
         | None => None
         | Some l => match loop cs' with None => None | Some r => Some (l ++ r) end
         end
       end) convs
  end.

(* public overload.  C++: `getConversionsPath(r, b, k, std::vector<TangentOperatorFlag>(), converters)` while the
   private signature is (r, b, cp, k, converters): the known operators are passed as the initial current path and the
   known set is empty.  Modelled as written. *)
Definition get_conversions_path (fuel : nat) (convs : list conv) (b : nat) (k : list nat) : option (list path) :=
  gcp fuel convs b k [].

(* ------------------------------------------------------------------------------------------------------------- *)
(* getShortestPath(paths, t): for p in paths (in order): pc = first step of p with to == t; if found, candidate =
   p[begin, pc] (truncated after the FIRST occurrence of t); kept when there is no previous path or when it is STRICTLY
   shorter than the previous one. *)
Fixpoint prefix_to (t : nat) (p : path) : option path :=
  match p with
  | [] => None
  | c :: r => if Nat.eqb (cto c) t then Some [c]
              else match prefix_to t r with None => None | Some q => Some (c :: q) end
  end.

Definition shortest_step (t : nat) (best : path) (p : path) : path :=
  match prefix_to t p with
  | None => best
  | Some q => match best with
              | [] => q
              | _ => if Nat.ltb (length q) (length best) then q else best
              end
  end.

Definition get_shortest_path (paths : list path) (t : nat) : path := fold_left (shortest_step t) paths [].

(* ------------------------------------------------------------------------------------------------------------- *)
(* the use made by mfront: ktos = operators given by the user (in the order of the flag list);
   paths = concatenation over k in ktos of getConversionsPath(k, ktos, converters); path to t = getShortestPath(paths, t) *)
Fixpoint all_paths (fuel : nat) (convs : list conv) (ktos todo : list nat) : option (list path) :=
  match todo with
  | [] => Some []
  | k :: r => match get_conversions_path fuel convs k ktos, all_paths fuel convs ktos r with
              | Some a, Some b => Some (a ++ b)
              | _, _ => None
              end
  end.

Definition mfront_paths (fuel : nat) (convs : list conv) (ktos : list nat) : option (list path) :=
  all_paths fuel convs ktos ktos.

Definition mfront_path (fuel : nat) (convs : list conv) (ktos : list nat) (t : nat) : option path :=
  match mfront_paths fuel convs ktos with
  | None => None
  | Some ps => Some (get_shortest_path ps t)
  end.

(* ------------------------------------------------------------------------------------------------------------- *)
(* independent notions *)

(* p is a non-empty chain of registered conversions leading from `from` to `to` *)
Fixpoint chain_from (convs : list conv) (cur to : nat) (p : path) : bool :=
  match p with
  | [] => false
  | [c] => conv_mem c convs && Nat.eqb (cfrom c) cur && Nat.eqb (cto c) to
  | c :: r => conv_mem c convs && Nat.eqb (cfrom c) cur && chain_from convs (cto c) to r
  end.
Definition valid_chain (convs : list conv) (from to : nat) (p : path) : bool := chain_from convs from to p.

(* valid chain starting from one of the known operators *)
Definition valid_chain_from_set (convs : list conv) (srcs : list nat) (to : nat) (p : path) : bool :=
  match p with
  | [] => false
  | c :: _ => mem (cfrom c) srcs && chain_from convs (cfrom c) to p
  end.

(* no intermediate result of the chain is one of the known operators or is computed twice *)
Fixpoint nodup_nat (l : list nat) : bool :=
  match l with [] => true | x :: r => negb (mem x r) && nodup_nat r end.
Definition simple_path (srcs : list nat) (p : path) : bool :=
  nodup_nat (map cto p) && forallb (fun c => negb (mem (cto c) srcs)) p.

(* one-step successors of a set, as a list without the members of `seen` and without repetition *)
Fixpoint add_new (seen acc : list nat) (xs : list nat) : list nat :=
  match xs with
  | [] => acc
  | x :: r => if mem x seen || mem x acc then add_new seen acc r else add_new seen (acc ++ [x]) r
  end.
Definition succs (convs : list conv) (s : list nat) : list nat :=
  map cto (filter (fun c => mem (cfrom c) s) convs).

(* reachability: closure of the sources under the conversions, `fuel` rounds *)
Fixpoint closure (fuel : nat) (convs : list conv) (s : list nat) : list nat :=
  match fuel with
  | O => s
  | S f => closure f convs (s ++ add_new s [] (succs convs s))
  end.
(* to is reachable from the set srcs in one step or more *)
Definition reachable (fuel : nat) (convs : list conv) (srcs : list nat) (to : nat) : bool :=
  mem to (closure fuel convs (add_new [] [] (succs convs srcs))).
(* the set computed by `closure` is closed (so the fuel was sufficient) *)
Definition closed (convs : list conv) (s : list nat) : bool := forallb (fun x => mem x s) (succs convs s).

(* breadth-first distance (number of conversions, >= 1) from the set srcs to `to`, sources never re-entered *)
Fixpoint bfs (fuel : nat) (convs : list conv) (seen frontier : list nat) (to : nat) (d : nat) : option nat :=
  match fuel with
  | O => None
  | S f =>
    let next := add_new seen [] (succs convs frontier) in
    match next with
    | [] => None
    | _ => if mem to next then Some (S d) else bfs f convs (seen ++ next) next to (S d)
    end
  end.
Definition bfs_dist (fuel : nat) (convs : list conv) (srcs : list nat) (to : nat) : option nat :=
  bfs fuel convs srcs srcs to 0.

(* ------------------------------------------------------------------------------------------------------------- *)
(* the boolean statements checked on the table (ktos = known operators, t = target, p = the path of the model) *)
Definition is_nil {A} (l : list A) : bool := match l with [] => true | _ => false end.

(* p = the path of the model for the known set ktos and the target t *)
Definition valid_p (convs : list conv) (ktos : list nat) (t : nat) (p : path) : bool :=
  is_nil p || (valid_chain_from_set convs ktos t p && simple_path ktos p).

Definition complete_p (fuel : nat) (convs : list conv) (ktos : list nat) (t : nat) (p : path) : bool :=
  mem t ktos || Bool.eqb (negb (is_nil p)) (reachable fuel convs ktos t).

Definition shortest_p (fuel : nat) (convs : list conv) (ktos : list nat) (t : nat) (p : path) : bool :=
  mem t ktos ||
  match bfs_dist fuel convs ktos t with
  | None => is_nil p
  | Some d => Nat.eqb (length p) d
  end.

(* P ktos t (path of the model) for every target of the flag list, the paths being enumerated once per known set;
   false when the fuel is exhausted *)
Definition check_set (fuel : nat) (convs : list conv) (flags : list nat) (P : list nat -> nat -> path -> bool)
  (ktos : list nat) : bool :=
  match mfront_paths fuel convs ktos with
  | None => false
  | Some ps => forallb (fun t => P ktos t (get_shortest_path ps t)) flags
  end.
Definition check_all (fuel : nat) (convs : list conv) (flags : list nat) (sets : list (list nat))
  (P : list nat -> nat -> path -> bool) : bool := forallb (check_set fuel convs flags P) sets.

(* all singletons and all ordered pairs (in the order of the list) of known operators *)
Fixpoint pairs_of (l : list nat) : list (list nat) :=
  match l with
  | [] => []
  | a :: r => map (fun b => [a; b]) r ++ pairs_of r
  end.
Definition singletons (l : list nat) : list (list nat) := map (fun a => [a]) l.

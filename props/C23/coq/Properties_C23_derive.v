(* C23 -- derivative oracle (statements only).  Saint-Venant--Kirchhoff law (C23Derive.v): svkS = lam tr(E) I + 2 mu E,
   svkP = F S, svkTau = F S F^T, svkSig = tau / det F, svkK = dS/dE_GL = lam I(x)I + 2 mu IdS4.
   `jacobian_F N T D` (C23Derive.v): for every F = full_t N f with det F <> 0, all i j < 3 and every stored component (k,l)
   of F,  is_derive (fun x => T (F with F_kl := x) i j) F_kl (D F i j k l).
   The operators o_* are the specifications of C23Spec.v applied to K = svkK lam mu, F0 arbitrary, F1 = F,
   s = svkSig lam mu F:
     o_DS_DF               = spec_DS_DF_from_DS_DEGL N K F0 F s
     o_DPK1_DF             = spec_DPK1_DF_from_DS_DEGL N K F0 F s
     o_DTAU_DF_via_DS_DF   = spec_DTAU_DF_from_DS_DF N (o_DS_DF F) F0 F s
     o_DSIG_DF_via_DTAU_DF = spec_DSIG_DF_from_DTAU_DF N (o_DTAU_DF_via_DS_DF F) F0 F s
     o_DTAU_DF_via_DPK1_DF = spec_DTAU_DF_from_DPK1_DF N (o_DPK1_DF F) F0 F s *)
From Coq Require Import Reals List.
From Coquelicot Require Import Coquelicot.
Require Import TensorIndex C23Spec C23Derive.
Local Open Scope R_scope.

Theorem C23_derive_DS_DF_1D : forall (lam mu : R) (F0 : M2),
  jacobian_F 1 (svkS lam mu) (o_DS_DF 1 lam mu F0).
Proof. exact svk_DS_DF_1D. Qed.
Print Assumptions C23_derive_DS_DF_1D.

Theorem C23_derive_DPK1_DF_1D : forall (lam mu : R) (F0 : M2),
  jacobian_F 1 (svkP lam mu) (o_DPK1_DF 1 lam mu F0).
Proof. exact svk_DPK1_DF_1D. Qed.
Print Assumptions C23_derive_DPK1_DF_1D.

Theorem C23_derive_DTAU_DF_from_DS_DF_1D : forall (lam mu : R) (F0 : M2),
  jacobian_F 1 (svkTau lam mu) (o_DTAU_DF_via_DS_DF 1 lam mu F0).
Proof. exact svk_DTAU_DF_via_DS_DF_1D. Qed.
Print Assumptions C23_derive_DTAU_DF_from_DS_DF_1D.

Theorem C23_derive_DSIG_DF_from_DTAU_DF_1D : forall (lam mu : R) (F0 : M2),
  jacobian_F 1 (svkSig lam mu) (o_DSIG_DF_via_DTAU_DF 1 lam mu F0).
Proof. exact svk_DSIG_DF_via_DTAU_DF_1D. Qed.
Print Assumptions C23_derive_DSIG_DF_from_DTAU_DF_1D.

Theorem C23_derive_DTAU_DF_from_DPK1_DF_1D : forall (lam mu : R) (F0 : M2),
  jacobian_F 1 (svkTau lam mu) (o_DTAU_DF_via_DPK1_DF 1 lam mu F0).
Proof. exact svk_DTAU_DF_via_DPK1_DF_1D. Qed.
Print Assumptions C23_derive_DTAU_DF_from_DPK1_DF_1D.

Theorem C23_derive_DS_DF_2D : forall (lam mu : R) (F0 : M2),
  jacobian_F 2 (svkS lam mu) (o_DS_DF 2 lam mu F0).
Proof. exact svk_DS_DF_2D. Qed.
Print Assumptions C23_derive_DS_DF_2D.

Theorem C23_derive_DPK1_DF_2D : forall (lam mu : R) (F0 : M2),
  jacobian_F 2 (svkP lam mu) (o_DPK1_DF 2 lam mu F0).
Proof. exact svk_DPK1_DF_2D. Qed.
Print Assumptions C23_derive_DPK1_DF_2D.

(* S as a function of C (svkS_of_C; svkS lam mu F = svkS_of_C lam mu (F^T F) by definition): K/2 is its derivative along
   the symmetric direction sym(e_k (x) e_l), for an arbitrary 3x3 matrix C *)
Theorem C23_derive_DS_DC_3D : forall (lam mu : R) (N : nat) (F0 F1 s C : M2) (i j k l : nat),
  (i < 3)%nat -> (j < 3)%nat -> (k < 3)%nat -> (l < 3)%nat ->
  is_derive (fun x : R => svkS_of_C lam mu (add2 C (scal2 x (sym2 (E2 k l)))) i j) 0
            (spec_DS_DC_from_DS_DEGL N (svkK lam mu) F0 F1 s i j k l).
Proof. exact svk_DS_DC. Qed.
Print Assumptions C23_derive_DS_DC_3D.

(* C23 -- proof machinery for the converters that go through an inverse of the deformation gradient.
   The generic closing tactic of TensorTactics.v (`field_simplify_eq` on the fully unfolded specification) clears the
   denominators by cross-multiplication; with inv2 F = cof^T / det unfolded four times in a push-forward this costs
   minutes per component in 1D and does not end in 3D.  Here the specification side is first brought to closed form:
   `inv2 (full_t N c)`, `cof2 (full_t N c)` and `det2 (full_t N c)` are replaced (lemmas inv2_cf, cof2_cf, det2_cf,
   proved once for N = 1, 2, 3) by tables of polynomials in the stored components times the inverse of ONE canonical
   denominator (1D: c0, c1, c2; 2D: the in-plane determinant c0 c1 - c3 c4 and c2; 3D: the determinant).  The
   denominators of the traced code are identified with the canonical ones by `ring` (whatever their shape), every
   inverse is abstracted by a variable, and the goal is an identity of polynomials closed by `ring`; when it is not (the
   identity needs D * / D = 1) `field_simplify_eq` is used on the closed forms, and the generic tactic remains the
   last resort.  Nothing depends on the shape of the traced terms. *)
From Coq Require Import Reals List Lra Lia FunctionalExtensionality.
From VLib Require Import RealExtra.
Require Import TensorIndex NsatzTac TensorTactics C23Spec.
Local Open Scope R_scope.

Definition det2cf (N : nat) (c : vec) : R :=
  match N with
  | 1%nat => c 0%nat * c 1%nat * c 2%nat
  | 2%nat => c 2%nat * (c 0%nat * c 1%nat - c 3%nat * c 4%nat)
  | _ => (c 0%nat * (c 1%nat * c 2%nat - c 7%nat * c 8%nat) - c 3%nat * (c 4%nat * c 2%nat - c 7%nat * c 6%nat) + c 5%nat * (c 4%nat * c 8%nat - c 1%nat * c 6%nat))
  end.

Definition cof2cf (N : nat) (c : vec) : M2 := fun i j =>
  match N with
  | 1%nat => match i, j with
    | 0%nat, 0%nat => c 1%nat * c 2%nat
    | 1%nat, 1%nat => c 0%nat * c 2%nat
    | 2%nat, 2%nat => c 0%nat * c 1%nat
    | _, _ => 0
    end
  | 2%nat => match i, j with
    | 0%nat, 0%nat => c 1%nat * c 2%nat
    | 0%nat, 1%nat => - c 4%nat * c 2%nat
    | 1%nat, 0%nat => - c 3%nat * c 2%nat
    | 1%nat, 1%nat => c 0%nat * c 2%nat
    | 2%nat, 2%nat => c 0%nat * c 1%nat - c 3%nat * c 4%nat
    | _, _ => 0
    end
  | _ => match i, j with
    | 0%nat, 0%nat => c 1%nat * c 2%nat - c 7%nat * c 8%nat
    | 0%nat, 1%nat => - c 4%nat * c 2%nat + c 7%nat * c 6%nat
    | 0%nat, 2%nat => c 4%nat * c 8%nat - c 1%nat * c 6%nat
    | 1%nat, 0%nat => - c 3%nat * c 2%nat + c 5%nat * c 8%nat
    | 1%nat, 1%nat => c 0%nat * c 2%nat - c 5%nat * c 6%nat
    | 1%nat, 2%nat => - c 0%nat * c 8%nat + c 3%nat * c 6%nat
    | 2%nat, 0%nat => c 3%nat * c 7%nat - c 5%nat * c 1%nat
    | 2%nat, 1%nat => - c 0%nat * c 7%nat + c 5%nat * c 4%nat
    | 2%nat, 2%nat => c 0%nat * c 1%nat - c 3%nat * c 4%nat
    | _, _ => 0
    end
  end.

Definition inv2cf (N : nat) (c : vec) : M2 := fun i j =>
  match N with
  | 1%nat => match i, j with
    | 0%nat, 0%nat => / c 0%nat
    | 1%nat, 1%nat => / c 1%nat
    | 2%nat, 2%nat => / c 2%nat
    | _, _ => 0
    end
  | 2%nat => match i, j with
    | 0%nat, 0%nat => c 1%nat * / (c 0%nat * c 1%nat - c 3%nat * c 4%nat)
    | 0%nat, 1%nat => - c 3%nat * / (c 0%nat * c 1%nat - c 3%nat * c 4%nat)
    | 1%nat, 0%nat => - c 4%nat * / (c 0%nat * c 1%nat - c 3%nat * c 4%nat)
    | 1%nat, 1%nat => c 0%nat * / (c 0%nat * c 1%nat - c 3%nat * c 4%nat)
    | 2%nat, 2%nat => / c 2%nat
    | _, _ => 0
    end
  | _ => cof2cf 3%nat c j i * / det2cf 3%nat c
  end.

Ltac red_all := lazy -[Rplus Rmult Rminus Ropp Rdiv Rinv IZR sqrt].
Ltac red_all_in H := lazy -[Rplus Rmult Rminus Ropp Rdiv Rinv IZR sqrt not] in H.
Ltac case3 i := destruct i as [|[|[|i]]].

(* determinant and cofactors of a generic 3x3 matrix, once (the index-notation definitions are sums of 27 / 81 terms) *)
Definition det2g (a : M2) : R :=
  a 0%nat 0%nat * (a 1%nat 1%nat * a 2%nat 2%nat - a 1%nat 2%nat * a 2%nat 1%nat)
  - a 0%nat 1%nat * (a 1%nat 0%nat * a 2%nat 2%nat - a 1%nat 2%nat * a 2%nat 0%nat)
  + a 0%nat 2%nat * (a 1%nat 0%nat * a 2%nat 1%nat - a 1%nat 1%nat * a 2%nat 0%nat).
Definition cof2g (a : M2) : M2 := fun i j =>
  match i, j with
  | 0%nat, 0%nat => a 1%nat 1%nat * a 2%nat 2%nat - a 1%nat 2%nat * a 2%nat 1%nat
  | 0%nat, 1%nat => - (a 1%nat 0%nat * a 2%nat 2%nat - a 1%nat 2%nat * a 2%nat 0%nat)
  | 0%nat, 2%nat => a 1%nat 0%nat * a 2%nat 1%nat - a 1%nat 1%nat * a 2%nat 0%nat
  | 1%nat, 0%nat => - (a 0%nat 1%nat * a 2%nat 2%nat - a 0%nat 2%nat * a 2%nat 1%nat)
  | 1%nat, 1%nat => a 0%nat 0%nat * a 2%nat 2%nat - a 0%nat 2%nat * a 2%nat 0%nat
  | 1%nat, 2%nat => - (a 0%nat 0%nat * a 2%nat 1%nat - a 0%nat 1%nat * a 2%nat 0%nat)
  | 2%nat, 0%nat => a 0%nat 1%nat * a 1%nat 2%nat - a 0%nat 2%nat * a 1%nat 1%nat
  | 2%nat, 1%nat => - (a 0%nat 0%nat * a 1%nat 2%nat - a 0%nat 2%nat * a 1%nat 0%nat)
  | 2%nat, 2%nat => a 0%nat 0%nat * a 1%nat 1%nat - a 0%nat 1%nat * a 1%nat 0%nat
  | _, _ => 0
  end.
Lemma det2_g a : det2 a = det2g a.
Proof. unfold det2g; red_all; ring. Qed.
Lemma cof2_g a : cof2 a = cof2g a.
Proof.
  apply functional_extensionality; intro i; apply functional_extensionality; intro j.
  case3 i; case3 j; red_all; field.
Qed.

Lemma det2_cf N c : (N = 1 \/ N = 2 \/ N = 3)%nat -> det2 (full_t N c) = det2cf N c.
Proof. intros [-> | [-> | ->]]; rewrite det2_g; red_all; ring. Qed.

Lemma cof2_cf N c : (N = 1 \/ N = 2 \/ N = 3)%nat -> cof2 (full_t N c) = cof2cf N c.
Proof.
  intros HN; rewrite cof2_g; apply functional_extensionality; intro i; apply functional_extensionality; intro j.
  destruct HN as [-> | [-> | ->]]; case3 i; case3 j; red_all; ring.
Qed.

Lemma inv2_cf N c : (N = 1 \/ N = 2 \/ N = 3)%nat -> det2 (full_t N c) <> 0 -> inv2 (full_t N c) = inv2cf N c.
Proof.
  intros HN H; apply functional_extensionality; intro i; apply functional_extensionality; intro j.
  unfold inv2; rewrite (cof2_cf N c HN); rewrite (det2_cf N c HN) in *.
  destruct HN as [-> | [-> | ->]]; case3 i; case3 j; red_all; red_all_in H;
    try (unfold Rdiv; rewrite Rmult_0_l; reflexivity);
    field; repeat split; intro E_; apply H; timeout 600 nsatz_tac.
Qed.

(* canonical non-zero facts (for the side conditions of `field_simplify_eq` on the closed forms) *)
Lemma nz_t1 c : det2 (full_t 1%nat c) <> 0 -> c 0%nat <> 0 /\ c 1%nat <> 0 /\ c 2%nat <> 0.
Proof. intros H; rewrite det2_cf in H by tauto; red_all_in H; repeat split; intro E; apply H; rewrite E; ring. Qed.
Lemma nz_t2 c : det2 (full_t 2%nat c) <> 0 -> c 2%nat <> 0 /\ (c 0%nat * c 1%nat - c 3%nat * c 4%nat) <> 0.
Proof. intros H; rewrite det2_cf in H by tauto; red_all_in H; repeat split; intro E; apply H; rewrite E; ring. Qed.
Lemma nz_t3 c : det2 (full_t 3%nat c) <> 0 -> det2cf 3%nat c <> 0.
Proof. intros H; rewrite det2_cf in H by tauto; exact H. Qed.

Ltac dims := first [ left; reflexivity | right; left; reflexivity | right; right; reflexivity ].
(* unfold the definitions of C23Spec.v (not the index-notation operators of TensorIndex.v): the inverses, cofactors and
   determinants of the stored tensors become visible as closed sub-terms, which are rewritten to their closed forms *)
Ltac expose_spec :=
  cbv beta delta [tau pk1 pk2 dC4 dE4 dL4 skewL dD4 dW4 jm neg2 dsig_of_dtau cj_of_dtau dtau_of_cj spatial_of_dsdegl
                  dtau_of_spatial dtau_of_dpk1 spec_cauchy_to_pk1 spec_pk1_to_cauchy spec_cauchy_to_pk2 spec_pk2_to_cauchy spec_rt_cauchy_pk1 spec_rt_cauchy_pk2 spec_rt_pk2_cauchy spec_corot_to_pk2 spec_pk2_to_corot spec_rate_of_deformation_derivative spec_spin_rate_derivative spec_velocity_gradient_derivative spec_jaumann_moduli spec_DS_DC_from_DS_DEGL spec_DS_DEGL_from_DS_DC spec_SPATIAL_MODULI_from_DS_DEGL spec_DS_DEGL_from_SPATIAL_MODULI spec_DS_DF_from_DS_DC spec_DS_DF_from_DS_DEGL spec_C_TRUESDELL_from_SPATIAL_MODULI spec_SPATIAL_MODULI_from_C_TRUESDELL spec_C_TRUESDELL_from_DS_DEGL spec_DSIG_DDF_from_DSIG_DF spec_DTAU_DDF_from_DTAU_DF spec_DSIG_DF_from_DSIG_DDF spec_DTAU_DF_from_DTAU_DDF spec_DSIG_DF_from_DTAU_DF spec_ABAQUS_from_C_TAU_JAUMANN spec_C_TAU_JAUMANN_from_ABAQUS spec_C_TAU_JAUMANN_from_SPATIAL_MODULI spec_SPATIAL_MODULI_from_C_TAU_JAUMANN spec_ABAQUS_from_SPATIAL_MODULI spec_SPATIAL_MODULI_from_ABAQUS spec_ABAQUS_from_DS_DEGL spec_C_TAU_JAUMANN_from_DTAU_DF spec_ABAQUS_from_DTAU_DF spec_SPATIAL_MODULI_from_DTAU_DF spec_C_TRUESDELL_from_DTAU_DF spec_DTAU_DF_from_C_TAU_JAUMANN spec_DTAU_DF_from_ABAQUS spec_DTAU_DF_from_SPATIAL_MODULI spec_DTAU_DF_from_DS_DF spec_DSIG_DF_from_DS_DEGL spec_DSIG_DF_from_C_TRUESDELL spec_DSIG_DF_from_ABAQUS spec_DPK1_DF_from_DSIG_DF spec_DTAU_DF_from_DPK1_DF spec_DSIG_DF_from_DPK1_DF spec_DPK1_DF_from_DS_DEGL spec_rt_DS_DEGL_DS_DC spec_rt_C_TRUESDELL_SPATIAL_MODULI spec_rt_SPATIAL_MODULI_C_TAU_JAUMANN spec_rt_SPATIAL_MODULI_ABAQUS spec_rt_C_TAU_JAUMANN_ABAQUS spec_rt_DSIG_DF_DSIG_DDF spec_rt_DTAU_DF_DTAU_DDF spec_rt_DS_DEGL_SPATIAL_MODULI spec_rt_C_TAU_JAUMANN_DTAU_DF spec_rt_SPATIAL_MODULI_DTAU_DF].
Ltac closed_forms :=
  repeat match goal with
  | H : det2 (full_t ?N ?c) <> 0 |- context [inv2 (full_t ?N ?c)] => rewrite (inv2_cf N c ltac:(dims) H)
  end;
  repeat match goal with |- context [cof2 (full_t ?N ?c)] => rewrite (cof2_cf N c ltac:(dims)) end;
  repeat match goal with |- context [det2 (full_t ?N ?c)] => rewrite (det2_cf N c ltac:(dims)) end.
Ltac canon_nz :=
  repeat match goal with
  | H : det2 (full_t 1%nat ?c) <> 0 |- _ => destruct (nz_t1 c H) as (?Hnz & ?Hnz & ?Hnz); clear H
  | H : det2 (full_t 2%nat ?c) <> 0 |- _ => destruct (nz_t2 c H) as (?Hnz & ?Hnz); clear H
  | H : det2 (full_t 3%nat ?c) <> 0 |- _ => pose proof (nz_t3 c H) as ?Hnz; clear H
  end;
  repeat match goal with H : _ <> 0 |- _ => progress (red_all_in H) end.
Ltac is_cst x := lazymatch x with IZR _ => idtac | sqrt (IZR _) => idtac end.
(* every inverse of a non-constant term becomes a variable; inverses of terms equal as polynomials share the variable *)
Ltac abstract_inv :=
  repeat match goal with
  | |- context [ / ?x ] => tryif is_cst x then fail else
       first [ match goal with i := / ?D |- _ => replace (/ x) with i by (unfold i; apply f_equal; ring) end
             | let i := fresh "i_" in set (i := / x) in * ]
  end.
Ltac unabstract_inv := repeat match goal with i := / _ |- _ => subst i end.
(* every product  p * i  of a polynomial by an abstracted inverse (an entry of an inverse tensor, cof_ji * / det) becomes
   a variable as well; products equal as polynomials share the variable.  An identity that is polynomial in the entries
   of the inverse (push-forward by F^-1, d(F^-1)/dF ...) is then closed on terms of the size of the index-notation sum,
   not of its expansion in the components of F *)
(* does p mention a storage vector other than c ? *)
Ltac other_vec_in c p :=
  match goal with
  | v : ?T |- _ => lazymatch T with (nat -> R) => idtac | vec => idtac end;
                   tryif constr_eq v c then fail else lazymatch p with context [v] => idtac end
  end.
Ltac vec_of D := match D with context [?c _] => lazymatch type of c with (nat -> R) => c | vec => c end end.
Ltac abstract_entries :=
  rewrite ?Rmult_1_l;
  repeat match goal with
  | i := / ?D |- context [ ?p * ?j ] =>
      constr_eq i j;
      lazymatch p with context [i] => fail | _ => idtac end;
      let c := vec_of D in
      tryif other_vec_in c p then fail else
      first [ match goal with g := ?q * i |- _ => replace (p * i) with g by (unfold g; apply (f_equal (fun x_ => x_ * i)); ring) end
            | let g := fresh "g_" in set (g := p * i) in * ]
  end.
Ltac unabstract_entries := repeat match goal with g := _ * _ |- _ => subst g end.
(* after the abstractions the only inverses left are those of constants (/ 2 of the Mandel weights): `ring` alone cannot
   use 2 * / 2 = 1 *)
Ltac close_poly :=
  lazymatch goal with
  | |- context [ / _ ] => field_simplify_eq; ring [sqrt2_sq sqrt3_sq sqrt6_sq]
  | _ => first [ ring [sqrt2_sq sqrt3_sq sqrt6_sq] | field_simplify_eq; ring [sqrt2_sq sqrt3_sq sqrt6_sq] ]
  end.
(* `once`: the context matches above have many successes; a later failure must not re-enter them *)
Ltac prove_comp_cf f :=
  intros; once (expose_spec; closed_forms; canon_nz); unfold f;
  red_all; unfold Rdiv; rewrite ?Rinv_mult;
  once abstract_inv;
  first [ once abstract_entries; timeout 1800 close_poly
        | timeout 1800 close_poly
        | unabstract_inv; timeout 3000 (field_simplify_eq; [ ring [sqrt2_sq sqrt3_sq sqrt6_sq] | nonzero .. ]) ].
Ltac prove_comp f := first [ once (prove_comp_cf f) | TensorTactics.prove_comp f ].

(* C23 -- finding F23 (used only while this run observes the defect on a concrete input):
   the converter DS_DF <- DS_DEGL of the pinned tree is not K : dE/dF.  Witness in 1D: K = F0 = F1 = s = (1,1,..):
   component (0,0) is 2*K00*2*F0 = 4 instead of K00*F0 = 1. *)
From Coq Require Import Reals List Lra.
From VLib Require Import RealExtra.
Require Import TensorIndex TensorTactics C23Spec C23_g1_n1_p0.
Import ListNotations.
Local Open Scope R_scope.

Theorem C23_DS_DF_from_DS_DEGL_1_refuted :
  exists a b c d : nat -> R, DS_DF_from_DS_DEGL_1 a b c d <>
     flat_C 1%nat (spec_DS_DF_from_DS_DEGL 1%nat (full_A 1%nat a) (full_t 1%nat b) (full_t 1%nat c) (full_s 1%nat d)).
Proof.
  exists (fun _ => 1), (fun _ => 1), (fun _ => 1), (fun _ => 1). intro H.
  apply (f_equal (fun l => nth 0 l 0)) in H.
  lazy -[Rplus Rmult Rminus Ropp Rdiv Rinv IZR sqrt] in H. lra.
Qed.
Print Assumptions C23_DS_DF_from_DS_DEGL_1_refuted.

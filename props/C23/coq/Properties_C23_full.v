(* C23 -- remaining (expensive) instances, thorough tier (statements only; every proof is `exact` of lemmas generated and proved per component).
   Regenerate with mkprops.py when the operation registry of trace.cxx changes. *)
From Coq Require Import Reals List.
Require Import TensorIndex C23Spec C23_g0_n1_p0 C23_g0_n2_p0 C23_g0_n3_p0 C23_g1_n1_p0 C23_g1_n2_p0 C23_g1_n2_p1 C23_g1_n3_p0 C23_g1_n3_p1 C23_g1_n3_p2 C23_g1_n3_p3 C23_g2_n1_p0 C23_g2_n2_p0 C23_g2_n2_p1 C23_g2_n2_p2 C23_g2_n3_p0 C23_g2_n3_p1 C23_g2_n3_p2 C23_g2_n3_p3 C23_g3_n1_p0 C23_g3_n2_p0 C23_g3_n2_p1 C23_g3_n3_p0 C23_g3_n3_p1 C23_g3_n3_p2.

Import ListNotations.
Local Open Scope R_scope.

Theorem C23_rt_cauchy_pk2_full : forall a b : nat -> R,
  (det2 (full_t 3%nat b) <> 0 -> rt_cauchy_pk2_3 a b = flat_s 3%nat (spec_rt_cauchy_pk2 3%nat (full_s 3%nat a) (full_t 3%nat b))).
Proof. intros a b; exact (rt_cauchy_pk2_3_ok a b). Qed.
Print Assumptions C23_rt_cauchy_pk2_full.

Theorem C23_rt_pk2_cauchy_full : forall a b : nat -> R,
  (det2 (full_t 3%nat b) <> 0 -> rt_pk2_cauchy_3 a b = flat_s 3%nat (spec_rt_pk2_cauchy 3%nat (full_s 3%nat a) (full_t 3%nat b))).
Proof. intros a b; exact (rt_pk2_cauchy_3_ok a b). Qed.
Print Assumptions C23_rt_pk2_cauchy_full.

Theorem C23_corot_to_pk2_full : forall a b : nat -> R,
  (det2 (full_s 2%nat b) <> 0 -> corot_to_pk2_2 a b = flat_s 2%nat (spec_corot_to_pk2 2%nat (full_s 2%nat a) (full_s 2%nat b))) /\
  (det2 (full_s 3%nat b) <> 0 -> corot_to_pk2_3 a b = flat_s 3%nat (spec_corot_to_pk2 3%nat (full_s 3%nat a) (full_s 3%nat b))).
Proof. intros a b; exact (conj (corot_to_pk2_2_ok a b) (corot_to_pk2_3_ok a b)). Qed.
Print Assumptions C23_corot_to_pk2_full.

Theorem C23_pk2_to_corot_full : forall a b : nat -> R,
  (det2 (full_s 2%nat b) <> 0 -> pk2_to_corot_2 a b = flat_s 2%nat (spec_pk2_to_corot 2%nat (full_s 2%nat a) (full_s 2%nat b))) /\
  (det2 (full_s 3%nat b) <> 0 -> pk2_to_corot_3 a b = flat_s 3%nat (spec_pk2_to_corot 3%nat (full_s 3%nat a) (full_s 3%nat b))).
Proof. intros a b; exact (conj (pk2_to_corot_2_ok a b) (pk2_to_corot_3_ok a b)). Qed.
Print Assumptions C23_pk2_to_corot_full.

Theorem C23_SPATIAL_MODULI_from_DS_DEGL_full : forall a b c d : nat -> R,
  (SPATIAL_MODULI_from_DS_DEGL_3 a b c d = flat_A 3%nat (spec_SPATIAL_MODULI_from_DS_DEGL 3%nat (full_A 3%nat a) (full_t 3%nat b) (full_t 3%nat c) (full_s 3%nat d))).
Proof. intros a b c d; exact (SPATIAL_MODULI_from_DS_DEGL_3_ok a b c d). Qed.
Print Assumptions C23_SPATIAL_MODULI_from_DS_DEGL_full.

Theorem C23_C_TRUESDELL_from_DS_DEGL_full : forall a b c d : nat -> R,
  (det2 (full_t 3%nat c) <> 0 -> C_TRUESDELL_from_DS_DEGL_3 a b c d = flat_A 3%nat (spec_C_TRUESDELL_from_DS_DEGL 3%nat (full_A 3%nat a) (full_t 3%nat b) (full_t 3%nat c) (full_s 3%nat d))).
Proof. intros a b c d; exact (C_TRUESDELL_from_DS_DEGL_3_ok a b c d). Qed.
Print Assumptions C23_C_TRUESDELL_from_DS_DEGL_full.

Theorem C23_DSIG_DF_from_DSIG_DDF_full : forall a b c d : nat -> R,
  (det2 (full_t 3%nat b) <> 0 -> DSIG_DF_from_DSIG_DDF_3 a b c d = flat_C 3%nat (spec_DSIG_DF_from_DSIG_DDF 3%nat (full_C 3%nat a) (full_t 3%nat b) (full_t 3%nat c) (full_s 3%nat d))).
Proof. intros a b c d; exact (DSIG_DF_from_DSIG_DDF_3_ok a b c d). Qed.
Print Assumptions C23_DSIG_DF_from_DSIG_DDF_full.

Theorem C23_DTAU_DF_from_DTAU_DDF_full : forall a b c d : nat -> R,
  (det2 (full_t 3%nat b) <> 0 -> DTAU_DF_from_DTAU_DDF_3 a b c d = flat_C 3%nat (spec_DTAU_DF_from_DTAU_DDF 3%nat (full_C 3%nat a) (full_t 3%nat b) (full_t 3%nat c) (full_s 3%nat d))).
Proof. intros a b c d; exact (DTAU_DF_from_DTAU_DDF_3_ok a b c d). Qed.
Print Assumptions C23_DTAU_DF_from_DTAU_DDF_full.

Theorem C23_DSIG_DF_from_DTAU_DF_full : forall a b c d : nat -> R,
  (det2 (full_t 3%nat c) <> 0 -> DSIG_DF_from_DTAU_DF_3 a b c d = flat_C 3%nat (spec_DSIG_DF_from_DTAU_DF 3%nat (full_C 3%nat a) (full_t 3%nat b) (full_t 3%nat c) (full_s 3%nat d))).
Proof. intros a b c d; exact (DSIG_DF_from_DTAU_DF_3_ok a b c d). Qed.
Print Assumptions C23_DSIG_DF_from_DTAU_DF_full.

Theorem C23_ABAQUS_from_DS_DEGL_full : forall a b c d : nat -> R,
  (det2 (full_t 3%nat c) <> 0 -> ABAQUS_from_DS_DEGL_3 a b c d = flat_A 3%nat (spec_ABAQUS_from_DS_DEGL 3%nat (full_A 3%nat a) (full_t 3%nat b) (full_t 3%nat c) (full_s 3%nat d))).
Proof. intros a b c d; exact (ABAQUS_from_DS_DEGL_3_ok a b c d). Qed.
Print Assumptions C23_ABAQUS_from_DS_DEGL_full.

Theorem C23_DS_DEGL_from_SPATIAL_MODULI_full : forall a b c d : nat -> R,
  (det2 (full_t 1%nat c) <> 0 -> DS_DEGL_from_SPATIAL_MODULI_1 a b c d = flat_A 1%nat (spec_DS_DEGL_from_SPATIAL_MODULI 1%nat (full_A 1%nat a) (full_t 1%nat b) (full_t 1%nat c) (full_s 1%nat d))) /\
  (det2 (full_t 2%nat c) <> 0 -> DS_DEGL_from_SPATIAL_MODULI_2 a b c d = flat_A 2%nat (spec_DS_DEGL_from_SPATIAL_MODULI 2%nat (full_A 2%nat a) (full_t 2%nat b) (full_t 2%nat c) (full_s 2%nat d))) /\
  (det2 (full_t 3%nat c) <> 0 -> DS_DEGL_from_SPATIAL_MODULI_3 a b c d = flat_A 3%nat (spec_DS_DEGL_from_SPATIAL_MODULI 3%nat (full_A 3%nat a) (full_t 3%nat b) (full_t 3%nat c) (full_s 3%nat d))).
Proof. intros a b c d; exact (conj (DS_DEGL_from_SPATIAL_MODULI_1_ok a b c d) (conj (DS_DEGL_from_SPATIAL_MODULI_2_ok a b c d) (DS_DEGL_from_SPATIAL_MODULI_3_ok a b c d))). Qed.
Print Assumptions C23_DS_DEGL_from_SPATIAL_MODULI_full.

Theorem C23_DTAU_DF_from_DS_DF_full : forall a b c d : nat -> R,
  (det2 (full_t 1%nat c) <> 0 -> DTAU_DF_from_DS_DF_1 a b c d = flat_C 1%nat (spec_DTAU_DF_from_DS_DF 1%nat (full_C 1%nat a) (full_t 1%nat b) (full_t 1%nat c) (full_s 1%nat d))) /\
  (det2 (full_t 2%nat c) <> 0 -> DTAU_DF_from_DS_DF_2 a b c d = flat_C 2%nat (spec_DTAU_DF_from_DS_DF 2%nat (full_C 2%nat a) (full_t 2%nat b) (full_t 2%nat c) (full_s 2%nat d))) /\
  (det2 (full_t 3%nat c) <> 0 -> DTAU_DF_from_DS_DF_3 a b c d = flat_C 3%nat (spec_DTAU_DF_from_DS_DF 3%nat (full_C 3%nat a) (full_t 3%nat b) (full_t 3%nat c) (full_s 3%nat d))).
Proof. intros a b c d; exact (conj (DTAU_DF_from_DS_DF_1_ok a b c d) (conj (DTAU_DF_from_DS_DF_2_ok a b c d) (DTAU_DF_from_DS_DF_3_ok a b c d))). Qed.
Print Assumptions C23_DTAU_DF_from_DS_DF_full.

Theorem C23_DTAU_DF_from_C_TAU_JAUMANN_full : forall a b c d : nat -> R,
  (det2 (full_t 1%nat c) <> 0 -> DTAU_DF_from_C_TAU_JAUMANN_1 a b c d = flat_C 1%nat (spec_DTAU_DF_from_C_TAU_JAUMANN 1%nat (full_A 1%nat a) (full_t 1%nat b) (full_t 1%nat c) (full_s 1%nat d))) /\
  (det2 (full_t 2%nat c) <> 0 -> DTAU_DF_from_C_TAU_JAUMANN_2 a b c d = flat_C 2%nat (spec_DTAU_DF_from_C_TAU_JAUMANN 2%nat (full_A 2%nat a) (full_t 2%nat b) (full_t 2%nat c) (full_s 2%nat d))) /\
  (det2 (full_t 3%nat c) <> 0 -> DTAU_DF_from_C_TAU_JAUMANN_3 a b c d = flat_C 3%nat (spec_DTAU_DF_from_C_TAU_JAUMANN 3%nat (full_A 3%nat a) (full_t 3%nat b) (full_t 3%nat c) (full_s 3%nat d))).
Proof. intros a b c d; exact (conj (DTAU_DF_from_C_TAU_JAUMANN_1_ok a b c d) (conj (DTAU_DF_from_C_TAU_JAUMANN_2_ok a b c d) (DTAU_DF_from_C_TAU_JAUMANN_3_ok a b c d))). Qed.
Print Assumptions C23_DTAU_DF_from_C_TAU_JAUMANN_full.

Theorem C23_DTAU_DF_from_ABAQUS_full : forall a b c d : nat -> R,
  (det2 (full_t 1%nat c) <> 0 -> DTAU_DF_from_ABAQUS_1 a b c d = flat_C 1%nat (spec_DTAU_DF_from_ABAQUS 1%nat (full_A 1%nat a) (full_t 1%nat b) (full_t 1%nat c) (full_s 1%nat d))) /\
  (det2 (full_t 2%nat c) <> 0 -> DTAU_DF_from_ABAQUS_2 a b c d = flat_C 2%nat (spec_DTAU_DF_from_ABAQUS 2%nat (full_A 2%nat a) (full_t 2%nat b) (full_t 2%nat c) (full_s 2%nat d))) /\
  (det2 (full_t 3%nat c) <> 0 -> DTAU_DF_from_ABAQUS_3 a b c d = flat_C 3%nat (spec_DTAU_DF_from_ABAQUS 3%nat (full_A 3%nat a) (full_t 3%nat b) (full_t 3%nat c) (full_s 3%nat d))).
Proof. intros a b c d; exact (conj (DTAU_DF_from_ABAQUS_1_ok a b c d) (conj (DTAU_DF_from_ABAQUS_2_ok a b c d) (DTAU_DF_from_ABAQUS_3_ok a b c d))). Qed.
Print Assumptions C23_DTAU_DF_from_ABAQUS_full.

Theorem C23_DTAU_DF_from_SPATIAL_MODULI_full : forall a b c d : nat -> R,
  (det2 (full_t 1%nat c) <> 0 -> DTAU_DF_from_SPATIAL_MODULI_1 a b c d = flat_C 1%nat (spec_DTAU_DF_from_SPATIAL_MODULI 1%nat (full_A 1%nat a) (full_t 1%nat b) (full_t 1%nat c) (full_s 1%nat d))) /\
  (det2 (full_t 2%nat c) <> 0 -> DTAU_DF_from_SPATIAL_MODULI_2 a b c d = flat_C 2%nat (spec_DTAU_DF_from_SPATIAL_MODULI 2%nat (full_A 2%nat a) (full_t 2%nat b) (full_t 2%nat c) (full_s 2%nat d))) /\
  (det2 (full_t 3%nat c) <> 0 -> DTAU_DF_from_SPATIAL_MODULI_3 a b c d = flat_C 3%nat (spec_DTAU_DF_from_SPATIAL_MODULI 3%nat (full_A 3%nat a) (full_t 3%nat b) (full_t 3%nat c) (full_s 3%nat d))).
Proof. intros a b c d; exact (conj (DTAU_DF_from_SPATIAL_MODULI_1_ok a b c d) (conj (DTAU_DF_from_SPATIAL_MODULI_2_ok a b c d) (DTAU_DF_from_SPATIAL_MODULI_3_ok a b c d))). Qed.
Print Assumptions C23_DTAU_DF_from_SPATIAL_MODULI_full.

Theorem C23_DSIG_DF_from_DS_DEGL_full : forall a b c d : nat -> R,
  (det2 (full_t 1%nat c) <> 0 -> DSIG_DF_from_DS_DEGL_1 a b c d = flat_C 1%nat (spec_DSIG_DF_from_DS_DEGL 1%nat (full_A 1%nat a) (full_t 1%nat b) (full_t 1%nat c) (full_s 1%nat d))) /\
  (det2 (full_t 2%nat c) <> 0 -> DSIG_DF_from_DS_DEGL_2 a b c d = flat_C 2%nat (spec_DSIG_DF_from_DS_DEGL 2%nat (full_A 2%nat a) (full_t 2%nat b) (full_t 2%nat c) (full_s 2%nat d))).
Proof. intros a b c d; exact (conj (DSIG_DF_from_DS_DEGL_1_ok a b c d) (DSIG_DF_from_DS_DEGL_2_ok a b c d)). Qed.
Print Assumptions C23_DSIG_DF_from_DS_DEGL_full.

Theorem C23_DSIG_DF_from_C_TRUESDELL_full : forall a b c d : nat -> R,
  (det2 (full_t 1%nat c) <> 0 -> DSIG_DF_from_C_TRUESDELL_1 a b c d = flat_C 1%nat (spec_DSIG_DF_from_C_TRUESDELL 1%nat (full_A 1%nat a) (full_t 1%nat b) (full_t 1%nat c) (full_s 1%nat d))) /\
  (det2 (full_t 2%nat c) <> 0 -> DSIG_DF_from_C_TRUESDELL_2 a b c d = flat_C 2%nat (spec_DSIG_DF_from_C_TRUESDELL 2%nat (full_A 2%nat a) (full_t 2%nat b) (full_t 2%nat c) (full_s 2%nat d))) /\
  (det2 (full_t 3%nat c) <> 0 -> DSIG_DF_from_C_TRUESDELL_3 a b c d = flat_C 3%nat (spec_DSIG_DF_from_C_TRUESDELL 3%nat (full_A 3%nat a) (full_t 3%nat b) (full_t 3%nat c) (full_s 3%nat d))).
Proof. intros a b c d; exact (conj (DSIG_DF_from_C_TRUESDELL_1_ok a b c d) (conj (DSIG_DF_from_C_TRUESDELL_2_ok a b c d) (DSIG_DF_from_C_TRUESDELL_3_ok a b c d))). Qed.
Print Assumptions C23_DSIG_DF_from_C_TRUESDELL_full.

Theorem C23_DSIG_DF_from_ABAQUS_full : forall a b c d : nat -> R,
  (det2 (full_t 1%nat c) <> 0 -> DSIG_DF_from_ABAQUS_1 a b c d = flat_C 1%nat (spec_DSIG_DF_from_ABAQUS 1%nat (full_A 1%nat a) (full_t 1%nat b) (full_t 1%nat c) (full_s 1%nat d))) /\
  (det2 (full_t 2%nat c) <> 0 -> DSIG_DF_from_ABAQUS_2 a b c d = flat_C 2%nat (spec_DSIG_DF_from_ABAQUS 2%nat (full_A 2%nat a) (full_t 2%nat b) (full_t 2%nat c) (full_s 2%nat d))) /\
  (det2 (full_t 3%nat c) <> 0 -> DSIG_DF_from_ABAQUS_3 a b c d = flat_C 3%nat (spec_DSIG_DF_from_ABAQUS 3%nat (full_A 3%nat a) (full_t 3%nat b) (full_t 3%nat c) (full_s 3%nat d))).
Proof. intros a b c d; exact (conj (DSIG_DF_from_ABAQUS_1_ok a b c d) (conj (DSIG_DF_from_ABAQUS_2_ok a b c d) (DSIG_DF_from_ABAQUS_3_ok a b c d))). Qed.
Print Assumptions C23_DSIG_DF_from_ABAQUS_full.

Theorem C23_DPK1_DF_from_DSIG_DF_full : forall a b c d : nat -> R,
  (det2 (full_t 1%nat c) <> 0 -> DPK1_DF_from_DSIG_DF_1 a b c d = flat_B 1%nat (spec_DPK1_DF_from_DSIG_DF 1%nat (full_C 1%nat a) (full_t 1%nat b) (full_t 1%nat c) (full_s 1%nat d))) /\
  (det2 (full_t 2%nat c) <> 0 -> DPK1_DF_from_DSIG_DF_2 a b c d = flat_B 2%nat (spec_DPK1_DF_from_DSIG_DF 2%nat (full_C 2%nat a) (full_t 2%nat b) (full_t 2%nat c) (full_s 2%nat d))) /\
  (det2 (full_t 3%nat c) <> 0 -> DPK1_DF_from_DSIG_DF_3 a b c d = flat_B 3%nat (spec_DPK1_DF_from_DSIG_DF 3%nat (full_C 3%nat a) (full_t 3%nat b) (full_t 3%nat c) (full_s 3%nat d))).
Proof. intros a b c d; exact (conj (DPK1_DF_from_DSIG_DF_1_ok a b c d) (conj (DPK1_DF_from_DSIG_DF_2_ok a b c d) (DPK1_DF_from_DSIG_DF_3_ok a b c d))). Qed.
Print Assumptions C23_DPK1_DF_from_DSIG_DF_full.

Theorem C23_DTAU_DF_from_DPK1_DF_full : forall a b c d : nat -> R,
  (det2 (full_t 1%nat c) <> 0 -> DTAU_DF_from_DPK1_DF_1 a b c d = flat_C 1%nat (spec_DTAU_DF_from_DPK1_DF 1%nat (full_B 1%nat a) (full_t 1%nat b) (full_t 1%nat c) (full_s 1%nat d))) /\
  (det2 (full_t 2%nat c) <> 0 -> DTAU_DF_from_DPK1_DF_2 a b c d = flat_C 2%nat (spec_DTAU_DF_from_DPK1_DF 2%nat (full_B 2%nat a) (full_t 2%nat b) (full_t 2%nat c) (full_s 2%nat d))) /\
  (det2 (full_t 3%nat c) <> 0 -> DTAU_DF_from_DPK1_DF_3 a b c d = flat_C 3%nat (spec_DTAU_DF_from_DPK1_DF 3%nat (full_B 3%nat a) (full_t 3%nat b) (full_t 3%nat c) (full_s 3%nat d))).
Proof. intros a b c d; exact (conj (DTAU_DF_from_DPK1_DF_1_ok a b c d) (conj (DTAU_DF_from_DPK1_DF_2_ok a b c d) (DTAU_DF_from_DPK1_DF_3_ok a b c d))). Qed.
Print Assumptions C23_DTAU_DF_from_DPK1_DF_full.

Theorem C23_DSIG_DF_from_DPK1_DF_full : forall a b c d : nat -> R,
  (det2 (full_t 1%nat c) <> 0 -> DSIG_DF_from_DPK1_DF_1 a b c d = flat_C 1%nat (spec_DSIG_DF_from_DPK1_DF 1%nat (full_B 1%nat a) (full_t 1%nat b) (full_t 1%nat c) (full_s 1%nat d))) /\
  (det2 (full_t 2%nat c) <> 0 -> DSIG_DF_from_DPK1_DF_2 a b c d = flat_C 2%nat (spec_DSIG_DF_from_DPK1_DF 2%nat (full_B 2%nat a) (full_t 2%nat b) (full_t 2%nat c) (full_s 2%nat d))) /\
  (det2 (full_t 3%nat c) <> 0 -> DSIG_DF_from_DPK1_DF_3 a b c d = flat_C 3%nat (spec_DSIG_DF_from_DPK1_DF 3%nat (full_B 3%nat a) (full_t 3%nat b) (full_t 3%nat c) (full_s 3%nat d))).
Proof. intros a b c d; exact (conj (DSIG_DF_from_DPK1_DF_1_ok a b c d) (conj (DSIG_DF_from_DPK1_DF_2_ok a b c d) (DSIG_DF_from_DPK1_DF_3_ok a b c d))). Qed.
Print Assumptions C23_DSIG_DF_from_DPK1_DF_full.

Theorem C23_DPK1_DF_from_DS_DEGL_full : forall a b c d : nat -> R,
  (det2 (full_t 1%nat c) <> 0 -> DPK1_DF_from_DS_DEGL_1 a b c d = flat_B 1%nat (spec_DPK1_DF_from_DS_DEGL 1%nat (full_A 1%nat a) (full_t 1%nat b) (full_t 1%nat c) (full_s 1%nat d))) /\
  (det2 (full_t 2%nat c) <> 0 -> DPK1_DF_from_DS_DEGL_2 a b c d = flat_B 2%nat (spec_DPK1_DF_from_DS_DEGL 2%nat (full_A 2%nat a) (full_t 2%nat b) (full_t 2%nat c) (full_s 2%nat d))) /\
  (det2 (full_t 3%nat c) <> 0 -> DPK1_DF_from_DS_DEGL_3 a b c d = flat_B 3%nat (spec_DPK1_DF_from_DS_DEGL 3%nat (full_A 3%nat a) (full_t 3%nat b) (full_t 3%nat c) (full_s 3%nat d))).
Proof. intros a b c d; exact (conj (DPK1_DF_from_DS_DEGL_1_ok a b c d) (conj (DPK1_DF_from_DS_DEGL_2_ok a b c d) (DPK1_DF_from_DS_DEGL_3_ok a b c d))). Qed.
Print Assumptions C23_DPK1_DF_from_DS_DEGL_full.

Theorem C23_rt_DSIG_DF_DSIG_DDF_full : forall a b c d : nat -> R,
  (det2 (full_t 3%nat b) <> 0 -> rt_DSIG_DF_DSIG_DDF_3 a b c d = flat_C 3%nat (spec_rt_DSIG_DF_DSIG_DDF 3%nat (full_C 3%nat a) (full_t 3%nat b) (full_t 3%nat c) (full_s 3%nat d))).
Proof. intros a b c d; exact (rt_DSIG_DF_DSIG_DDF_3_ok a b c d). Qed.
Print Assumptions C23_rt_DSIG_DF_DSIG_DDF_full.

Theorem C23_rt_DTAU_DF_DTAU_DDF_full : forall a b c d : nat -> R,
  (det2 (full_t 3%nat b) <> 0 -> rt_DTAU_DF_DTAU_DDF_3 a b c d = flat_C 3%nat (spec_rt_DTAU_DF_DTAU_DDF 3%nat (full_C 3%nat a) (full_t 3%nat b) (full_t 3%nat c) (full_s 3%nat d))).
Proof. intros a b c d; exact (rt_DTAU_DF_DTAU_DDF_3_ok a b c d). Qed.
Print Assumptions C23_rt_DTAU_DF_DTAU_DDF_full.

Theorem C23_rt_C_TAU_JAUMANN_DTAU_DF_full : forall a b c d : nat -> R,
  (det2 (full_t 3%nat c) <> 0 -> rt_C_TAU_JAUMANN_DTAU_DF_3 a b c d = flat_A 3%nat (spec_rt_C_TAU_JAUMANN_DTAU_DF 3%nat (full_A 3%nat a) (full_t 3%nat b) (full_t 3%nat c) (full_s 3%nat d))).
Proof. intros a b c d; exact (rt_C_TAU_JAUMANN_DTAU_DF_3_ok a b c d). Qed.
Print Assumptions C23_rt_C_TAU_JAUMANN_DTAU_DF_full.

Theorem C23_rt_SPATIAL_MODULI_DTAU_DF_full : forall a b c d : nat -> R,
  (det2 (full_t 3%nat c) <> 0 -> rt_SPATIAL_MODULI_DTAU_DF_3 a b c d = flat_A 3%nat (spec_rt_SPATIAL_MODULI_DTAU_DF 3%nat (full_A 3%nat a) (full_t 3%nat b) (full_t 3%nat c) (full_s 3%nat d))).
Proof. intros a b c d; exact (rt_SPATIAL_MODULI_DTAU_DF_3_ok a b c d). Qed.
Print Assumptions C23_rt_SPATIAL_MODULI_DTAU_DF_full.

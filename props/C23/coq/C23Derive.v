(* C23 -- derivative oracle.  The converter specifications of C23Spec.v are chain-rule formulas written by hand.  Here they
   are confronted with derivatives computed by Coquelicot (`auto_derive`) on a concrete hyperelastic law, the
   Saint-Venant--Kirchhoff law:
     C = F^T F,  E = (C - I)/2,  S = lam tr(E) I + 2 mu E,  dS/dE = K = lam I(x)I + 2 mu IdS4  (constant),
     P = F S,  tau = F S F^T,  sigma = tau / det F.
   `jacobian_F N T D`: for every deformation gradient of the N-D storage pattern with det F <> 0, every stored component
   (k,l) of F and every (i,j), the function  x |-> T(F with F_kl := x)_ij  has derivative  D(F)_ijkl  at x = F_kl. *)
From Coq Require Import Reals List Lra Lia FunctionalExtensionality.
From Coquelicot Require Import Coquelicot.
From VLib Require Import RealExtra.
Require Import TensorIndex NsatzTac TensorTactics C23Spec C23Tactics.
Local Open Scope R_scope.

(* ---- the law *)
Definition svkK (lam mu : R) : M4 := add4 (scal4 lam IxI4) (scal4 (2 * mu) IdS4).
Definition gl_of_C (C : M2) : M2 := scal2 (/ 2) (sub2 C Id2).
Definition svkS_of_C (lam mu : R) (C : M2) : M2 :=
  add2 (scal2 (lam * trace2 (gl_of_C C)) Id2) (scal2 (2 * mu) (gl_of_C C)).
Definition rcg (F : M2) : M2 := mul2 (tr2 F) F.
Definition svkS (lam mu : R) (F : M2) : M2 := svkS_of_C lam mu (rcg F).
Definition svkP (lam mu : R) (F : M2) : M2 := mul2 F (svkS lam mu F).
Definition svkTau (lam mu : R) (F : M2) : M2 := pf2 F (svkS lam mu F).
Definition svkSig (lam mu : R) (F : M2) : M2 := scal2 (/ det2 F) (svkTau lam mu F).

(* ---- the statement *)
Definition upd (f : vec) (p : nat) (x : R) : vec := fun q => if Nat.eqb q p then x else f q.

Definition jacobian_F (N : nat) (T : M2 -> M2) (D : M2 -> M4) : Prop :=
  forall f : vec, det2 (full_t N f) <> 0 ->
  forall i j k l : nat, (i < 3)%nat -> (j < 3)%nat -> (idx9 k l < tsize N)%nat ->
    is_derive (fun x : R => T (full_t N (upd f (idx9 k l) x)) i j) (f (idx9 k l)) (D (full_t N f) i j k l).

(* ---- the specifications instantiated on the law (F0 is arbitrary, F1 = F, s = sigma(F)) *)
Section Specs.
  Variables (N : nat) (lam mu : R) (F0 : M2).
  Let K := svkK lam mu.
  Let s := svkSig lam mu.
  Definition o_DS_DF (F : M2) : M4 := spec_DS_DF_from_DS_DEGL N K F0 F (s F).
  Definition o_DPK1_DF (F : M2) : M4 := spec_DPK1_DF_from_DS_DEGL N K F0 F (s F).
  Definition o_DTAU_DF_via_DS_DF (F : M2) : M4 := spec_DTAU_DF_from_DS_DF N (o_DS_DF F) F0 F (s F).
  Definition o_DSIG_DF_via_DTAU_DF (F : M2) : M4 := spec_DSIG_DF_from_DTAU_DF N (o_DTAU_DF_via_DS_DF F) F0 F (s F).
  Definition o_DSIG_DF (F : M2) : M4 := spec_DSIG_DF_from_DS_DEGL N K F0 F (s F).
  Definition o_DTAU_DF_via_SPATIAL (F : M2) : M4 :=
    spec_DTAU_DF_from_SPATIAL_MODULI N (spec_SPATIAL_MODULI_from_DS_DEGL N K F0 F (s F)) F0 F (s F).
  Definition o_DPK1_DF_via_DSIG_DF (F : M2) : M4 := spec_DPK1_DF_from_DSIG_DF N (o_DSIG_DF_via_DTAU_DF F) F0 F (s F).
  Definition o_DTAU_DF_via_DPK1_DF (F : M2) : M4 := spec_DTAU_DF_from_DPK1_DF N (o_DPK1_DF F) F0 F (s F).
End Specs.

(* ---- tactics *)
Ltac red_R := lazy -[Rplus Rmult Rminus Ropp Rdiv Rinv IZR sqrt].
(* reduce the function and the point of an is_derive goal to scalar expressions, leave the derivative alone *)
Ltac red_fun :=
  lazymatch goal with
  | |- is_derive ?g ?x ?d =>
      let g' := eval lazy -[Rplus Rmult Rminus Ropp Rdiv Rinv IZR sqrt] in g in
      let x' := eval lazy -[Rplus Rmult Rminus Ropp Rdiv Rinv IZR sqrt] in x in
      change (is_derive g' x' d)
  end.
Ltac out_of_range :=
  match goal with H : (_ < _)%nat |- _ => exfalso; cbn in H; lia end.
(* a side condition of auto_derive / field: some polynomial <> 0, consequence of a hypothesis  p <> 0 *)
Ltac nz_side :=
  repeat split;
  first [ exact I | assumption | lra
        | match goal with H : _ <> 0 |- _ <> 0 =>
            let E := fresh in intro E; apply H; red_R; etransitivity; [ | exact E ]; ring end
        | nonzero ].
Ltac funext2 := apply functional_extensionality; intro i_; apply functional_extensionality; intro j_.

(* ---- the stress measures of C23Spec.v (functions of F and of the Cauchy stress) applied to the Cauchy stress of the law
   are the stress measures of the law *)
Lemma tau_svk lam mu F : det2 F <> 0 -> tau F (svkSig lam mu F) = svkTau lam mu F.
Proof. intro H. funext2. unfold tau, svkSig, scal2. field. exact H. Qed.

Definition clip3 (a : M2) : M2 := fun i j => if (Nat.ltb i 3 && Nat.ltb j 3)%bool then a i j else 0.
Ltac stress_eq :=
  intros H; let i := fresh "i" in let j := fresh "j" in
  apply functional_extensionality; intro i; apply functional_extensionality; intro j;
  case3 i; [ case3 j | case3 j | case3 j | ];
  unfold pk1, pk2; closed_forms; canon_nz; red_R; try reflexivity;
  timeout 600 (field; nz_side).
Lemma pk2_sig_1D f S : det2 (full_t 1 f) <> 0 ->
  pk2 (full_t 1 f) (scal2 (/ det2 (full_t 1 f)) (pf2 (full_t 1 f) S)) = clip3 S.
Proof. stress_eq. Qed.
Lemma pk1_sig_1D f S : det2 (full_t 1 f) <> 0 ->
  pk1 (full_t 1 f) (scal2 (/ det2 (full_t 1 f)) (pf2 (full_t 1 f) S)) = clip3 (mul2 (full_t 1 f) S).
Proof. stress_eq. Qed.
Lemma pk2_sig_2D f S : det2 (full_t 2 f) <> 0 ->
  pk2 (full_t 2 f) (scal2 (/ det2 (full_t 2 f)) (pf2 (full_t 2 f) S)) = clip3 S.
Proof. stress_eq. Qed.
Lemma pk1_sig_2D f S : det2 (full_t 2 f) <> 0 ->
  pk1 (full_t 2 f) (scal2 (/ det2 (full_t 2 f)) (pf2 (full_t 2 f) S)) = clip3 (mul2 (full_t 2 f) S).
Proof. stress_eq. Qed.
Lemma tau_sig F X : det2 F <> 0 -> tau F (scal2 (/ det2 F) X) = X.
Proof.
  intro H. apply functional_extensionality; intro i; apply functional_extensionality; intro j.
  unfold tau, scal2. field. exact H.
Qed.

Ltac unfold_oracles :=
  unfold o_DPK1_DF_via_DSIG_DF, o_DTAU_DF_via_DPK1_DF, o_DTAU_DF_via_SPATIAL, o_DSIG_DF, o_DSIG_DF_via_DTAU_DF,
         o_DTAU_DF_via_DS_DF, o_DPK1_DF, o_DS_DF.
(* unfold the chain of specifications down to the stress measures tau, pk1, pk2 of (F, sigma(F)), which are replaced by the
   stress measures of the law; then closed forms for inverse, cofactor, determinant *)
Ltac expose_chain H :=
  unfold_oracles;
  cbv beta delta [spec_DS_DF_from_DS_DEGL spec_DPK1_DF_from_DS_DEGL spec_DTAU_DF_from_DS_DF spec_DSIG_DF_from_DTAU_DF
                  spec_DSIG_DF_from_DS_DEGL spec_DTAU_DF_from_SPATIAL_MODULI spec_SPATIAL_MODULI_from_DS_DEGL
                  spec_DPK1_DF_from_DSIG_DF spec_DTAU_DF_from_DPK1_DF spec_C_TAU_JAUMANN_from_DTAU_DF
                  dsig_of_dtau dtau_of_spatial spatial_of_dsdegl dtau_of_cj jm dtau_of_dpk1 cj_of_dtau];
  unfold svkSig, svkTau;
  rewrite ?(tau_sig _ _ H);
  rewrite ?(pk2_sig_1D _ _ H), ?(pk1_sig_1D _ _ H) || rewrite ?(pk2_sig_2D _ _ H), ?(pk1_sig_2D _ _ H) || idtac;
  expose_spec; closed_forms; canon_nz.
(* one component *)
Ltac comp_derive H :=
  red_fun;
  timeout 600 auto_derive;
  [ timeout 600 nz_side
  | once (expose_chain H); red_R; timeout 1200 (field; nz_side) ].
Ltac jac_cases :=
  intros f H i j k l Hi Hj Hkl;
  case3 i; try out_of_range; case3 j; try out_of_range; case3 k; try out_of_range; case3 l; try out_of_range;
  clear Hi Hj Hkl.
Ltac jac := jac_cases; match goal with H : det2 _ <> 0 |- _ => comp_derive H end.

(* ---- 1D: F = diag(f0, f1, f2) *)
Lemma svk_DS_DF_1D lam mu F0 : jacobian_F 1 (svkS lam mu) (o_DS_DF 1 lam mu F0).
Proof. jac. Qed.
Lemma svk_DPK1_DF_1D lam mu F0 : jacobian_F 1 (svkP lam mu) (o_DPK1_DF 1 lam mu F0).
Proof. jac. Qed.
Lemma svk_DTAU_DF_via_DS_DF_1D lam mu F0 : jacobian_F 1 (svkTau lam mu) (o_DTAU_DF_via_DS_DF 1 lam mu F0).
Proof. jac. Qed.
Lemma svk_DSIG_DF_via_DTAU_DF_1D lam mu F0 : jacobian_F 1 (svkSig lam mu) (o_DSIG_DF_via_DTAU_DF 1 lam mu F0).
Proof. jac. Qed.
Lemma svk_DTAU_DF_via_DPK1_DF_1D lam mu F0 : jacobian_F 1 (svkTau lam mu) (o_DTAU_DF_via_DPK1_DF 1 lam mu F0).
Proof. jac. Qed.

(* ---- 2D: f0 f1 f2 on the diagonal, f3 = F01, f4 = F10 *)
Lemma svk_DS_DF_2D lam mu F0 : jacobian_F 2 (svkS lam mu) (o_DS_DF 2 lam mu F0).
Proof. jac. Qed.
Lemma svk_DPK1_DF_2D lam mu F0 : jacobian_F 2 (svkP lam mu) (o_DPK1_DF 2 lam mu F0).
Proof. jac. Qed.

(* ---- dS/dC (any dimension, C an arbitrary 3x3 matrix): spec_DS_DC_from_DS_DEGL = K/2 is the derivative of S(C) along the
   SYMMETRIC direction sym(e_k (x) e_l) (for k <> l it is not the partial derivative w.r.t. the single component C_kl) *)
Definition E2 (k l : nat) : M2 := fun a b => delta a k * delta b l.
Lemma svk_DS_DC lam mu (N : nat) (F0 F1 s C : M2) i j k l : (i < 3)%nat -> (j < 3)%nat -> (k < 3)%nat -> (l < 3)%nat ->
  is_derive (fun x : R => svkS_of_C lam mu (add2 C (scal2 x (sym2 (E2 k l)))) i j) 0
            (spec_DS_DC_from_DS_DEGL N (svkK lam mu) F0 F1 s i j k l).
Proof.
  intros Hi Hj Hk Hl.
  case3 i; try (exfalso; lia); case3 j; try (exfalso; lia); case3 k; try (exfalso; lia); case3 l; try (exfalso; lia);
  clear Hi Hj Hk Hl; red_fun; (timeout 600 auto_derive; [ exact I | red_R; timeout 600 field ]).
Qed.

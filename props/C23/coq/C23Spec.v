(* C23 -- finite-strain stress measures and tangent operators in index notation (definitions of TensorIndex.v),
   written from continuum mechanics and the chain rule, independently of the code.
   F (or F1): deformation gradient at the end of the step, F0: at the beginning, s: Cauchy stress (symmetric),
   J = det F, tau = J s (Kirchhoff), P = J s F^-T (first Piola-Kirchhoff), S = J F^-1 s F^-T (second Piola-Kirchhoff),
   C = F^T F, E = (C - I)/2, dF = F1 F0^-1, L = dF' F^-1, D = sym L, W = skew L.
   Every converter specification has the signature  N K F0 F1 s  (K: source operator). *)
From Coq Require Import Reals List Lra.
From VLib Require Import RealExtra.
Require Import TensorIndex.
Local Open Scope R_scope.

(* ---- stress measures *)
Definition tau (F s : M2) : M2 := scal2 (det2 F) s.
(* J F^-T is the cofactor matrix (inv2 is defined as cof^T / det) *)
Definition pk1 (F s : M2) : M2 := mul2 s (cof2 F).
Definition pk2 (F s : M2) : M2 := scal2 (det2 F) (pf2 (inv2 F) s).

Definition spec_cauchy_to_pk1 (N : nat) (s F : M2) : M2 := pk1 F s.
(* s = P F^T / J; the code returns the components (j,i), i<=j, of P F^T / J: the same thing whenever the result is
   a Cauchy stress, i.e. P F^T symmetric *)
Definition spec_pk1_to_cauchy (N : nat) (P F : M2) : M2 := fun i j => mul2 P (tr2 F) j i / det2 F.
Definition spec_cauchy_to_pk2 (N : nat) (s F : M2) : M2 := pk2 F s.
Definition spec_pk2_to_cauchy (N : nat) (S F : M2) : M2 := scal2 (/ det2 F) (pf2 F S).
Definition spec_rt_cauchy_pk1 (N : nat) (s F : M2) : M2 := s.
Definition spec_rt_cauchy_pk2 (N : nat) (s F : M2) : M2 := s.
Definition spec_rt_pk2_cauchy (N : nat) (s F : M2) : M2 := s.
Definition spec_corot_to_pk2 (N : nat) (s U : M2) : M2 := scal2 (det2 U) (mul2 (mul2 (inv2 U) s) (inv2 U)).
Definition spec_pk2_to_corot (N : nat) (S U : M2) : M2 := scal2 (/ det2 U) (mul2 (mul2 U S) U).

(* ---- kinematic derivatives *)
Definition dC4 (F : M2) : M4 := fun i j k l => delta i l * F k j + F k i * delta j l.    (* d(F^T F)_ij / dF_kl *)
Definition dE4 (F : M2) : M4 := scal4 (/ 2) (dC4 F).
Definition dL4 (F : M2) : M4 := tpld4 (inv2 F).                                          (* d(dF F^-1)_ij / d dF_kl *)
Definition skewL (a : M4) : M4 := fun i j k l => (a i j k l - a j i k l) / 2.
Definition dD4 (F : M2) : M4 := symL (dL4 F).
Definition dW4 (F : M2) : M4 := skewL (dL4 F).
Definition spec_rate_of_deformation_derivative (N : nat) (F : M2) : M4 := dD4 F.
Definition spec_spin_rate_derivative (N : nat) (F : M2) : M4 := dW4 F.
Definition spec_velocity_gradient_derivative (N : nat) (F : M2) : M4 := dL4 F.

(* moduli of the Jaumann rate of tau from the moduli c of its Lie derivative:  cJ = c + (d_ik t_jl + d_il t_jk + t_ik d_jl + t_il d_jk)/2 *)
Definition jm (c : M4) (t : M2) : M4 :=
  fun i j k l => c i j k l + (delta i k * t j l + delta i l * t j k + t i k * delta j l + t i l * delta j k) / 2.
Definition spec_jaumann_moduli (N : nat) (c : M4) (t : M2) : M4 := jm c t.
Definition neg2 (a : M2) : M2 := scal2 (-1) a.

(* ---- elementary conversions (chain rule) *)
(* tau = J s:  dtau/dF = J ds/dF + s (x) dJ/dF,  dJ/dF = cof F *)
Definition dsig_of_dtau (K : M4) (F s : M2) : M4 := fun i j k l => (K i j k l - s i j * cof2 F k l) / det2 F.
(* Jaumann moduli from dtau/dF: response to dF = sym(e_k (x) e_l) F (pure stretching, no spin) *)
Definition cj_of_dtau (K : M4) (F : M2) : M4 :=
  fun i j k l => sum3 (fun n => (K i j k n * F l n + K i j l n * F k n) / 2).
(* dtau = cJ : dD + dW tau - tau dW *)
Definition dtau_of_cj (K : M4) (F s : M2) : M4 :=
  fun i j k l => sum3 (fun m => sum3 (fun n => K i j m n * dD4 F m n k l))
                 + sum3 (fun m => dW4 F i m k l * tau F s m j - tau F s i m * dW4 F m j k l).
Definition spatial_of_dsdegl (K : M4) (F : M2) : M4 := pf4 F K.
Definition dtau_of_spatial (K : M4) (F s : M2) : M4 := dtau_of_cj (jm K (tau F s)) F s.

Definition spec_DS_DC_from_DS_DEGL (N : nat) (K : M4) (F0 F1 s : M2) : M4 := scal4 (/ 2) K.
Definition spec_DS_DEGL_from_DS_DC (N : nat) (K : M4) (F0 F1 s : M2) : M4 := scal4 2 K.
Definition spec_SPATIAL_MODULI_from_DS_DEGL (N : nat) (K : M4) (F0 F1 s : M2) : M4 := spatial_of_dsdegl K F1.
Definition spec_DS_DEGL_from_SPATIAL_MODULI (N : nat) (K : M4) (F0 F1 s : M2) : M4 := pf4 (inv2 F1) K.
Definition spec_DS_DF_from_DS_DC (N : nat) (K : M4) (F0 F1 s : M2) : M4 := mul44 K (dC4 F1).
Definition spec_DS_DF_from_DS_DEGL (N : nat) (K : M4) (F0 F1 s : M2) : M4 := mul44 K (dE4 F1).
Definition spec_C_TRUESDELL_from_SPATIAL_MODULI (N : nat) (K : M4) (F0 F1 s : M2) : M4 := scal4 (/ det2 F1) K.
Definition spec_SPATIAL_MODULI_from_C_TRUESDELL (N : nat) (K : M4) (F0 F1 s : M2) : M4 := scal4 (det2 F1) K.
Definition spec_C_TRUESDELL_from_DS_DEGL (N : nat) (K : M4) (F0 F1 s : M2) : M4 := scal4 (/ det2 F1) (pf4 F1 K).
(* F1 = dF F0 *)
Definition spec_DSIG_DDF_from_DSIG_DF (N : nat) (K : M4) (F0 F1 s : M2) : M4 := mul44 K (tpld4 F0).
Definition spec_DTAU_DDF_from_DTAU_DF (N : nat) (K : M4) (F0 F1 s : M2) : M4 := mul44 K (tpld4 F0).
Definition spec_DSIG_DF_from_DSIG_DDF (N : nat) (K : M4) (F0 F1 s : M2) : M4 := mul44 K (tpld4 (inv2 F0)).
Definition spec_DTAU_DF_from_DTAU_DDF (N : nat) (K : M4) (F0 F1 s : M2) : M4 := mul44 K (tpld4 (inv2 F0)).
Definition spec_DSIG_DF_from_DTAU_DF (N : nat) (K : M4) (F0 F1 s : M2) : M4 := dsig_of_dtau K F1 s.
Definition spec_ABAQUS_from_C_TAU_JAUMANN (N : nat) (K : M4) (F0 F1 s : M2) : M4 := scal4 (/ det2 F1) K.
Definition spec_C_TAU_JAUMANN_from_ABAQUS (N : nat) (K : M4) (F0 F1 s : M2) : M4 := scal4 (det2 F1) K.
Definition spec_C_TAU_JAUMANN_from_SPATIAL_MODULI (N : nat) (K : M4) (F0 F1 s : M2) : M4 := jm K (tau F1 s).
Definition spec_SPATIAL_MODULI_from_C_TAU_JAUMANN (N : nat) (K : M4) (F0 F1 s : M2) : M4 := jm K (neg2 (tau F1 s)).
Definition spec_ABAQUS_from_SPATIAL_MODULI (N : nat) (K : M4) (F0 F1 s : M2) : M4 := scal4 (/ det2 F1) (jm K (tau F1 s)).
Definition spec_SPATIAL_MODULI_from_ABAQUS (N : nat) (K : M4) (F0 F1 s : M2) : M4 :=
  jm (scal4 (det2 F1) K) (neg2 (tau F1 s)).
Definition spec_ABAQUS_from_DS_DEGL (N : nat) (K : M4) (F0 F1 s : M2) : M4 :=
  scal4 (/ det2 F1) (jm (spatial_of_dsdegl K F1) (tau F1 s)).
Definition spec_C_TAU_JAUMANN_from_DTAU_DF (N : nat) (K : M4) (F0 F1 s : M2) : M4 := cj_of_dtau K F1.
Definition spec_ABAQUS_from_DTAU_DF (N : nat) (K : M4) (F0 F1 s : M2) : M4 := scal4 (/ det2 F1) (cj_of_dtau K F1).
Definition spec_SPATIAL_MODULI_from_DTAU_DF (N : nat) (K : M4) (F0 F1 s : M2) : M4 :=
  jm (cj_of_dtau K F1) (neg2 (tau F1 s)).
Definition spec_C_TRUESDELL_from_DTAU_DF (N : nat) (K : M4) (F0 F1 s : M2) : M4 :=
  scal4 (/ det2 F1) (jm (cj_of_dtau K F1) (neg2 (tau F1 s))).
Definition spec_DTAU_DF_from_C_TAU_JAUMANN (N : nat) (K : M4) (F0 F1 s : M2) : M4 := dtau_of_cj K F1 s.
Definition spec_DTAU_DF_from_ABAQUS (N : nat) (K : M4) (F0 F1 s : M2) : M4 := dtau_of_cj (scal4 (det2 F1) K) F1 s.
Definition spec_DTAU_DF_from_SPATIAL_MODULI (N : nat) (K : M4) (F0 F1 s : M2) : M4 := dtau_of_spatial K F1 s.
(* tau = F S F^T *)
Definition spec_DTAU_DF_from_DS_DF (N : nat) (K : M4) (F0 F1 s : M2) : M4 :=
  fun i j k l => sum3 (fun m => delta i k * pk2 F1 s l m * F1 j m + F1 i m * pk2 F1 s m l * delta j k)
                 + sum3 (fun m => sum3 (fun n => F1 i m * F1 j n * K m n k l)).
Definition spec_DSIG_DF_from_DS_DEGL (N : nat) (K : M4) (F0 F1 s : M2) : M4 :=
  dsig_of_dtau (dtau_of_spatial (spatial_of_dsdegl K F1) F1 s) F1 s.
Definition spec_DSIG_DF_from_C_TRUESDELL (N : nat) (K : M4) (F0 F1 s : M2) : M4 :=
  dsig_of_dtau (dtau_of_spatial (scal4 (det2 F1) K) F1 s) F1 s.
Definition spec_DSIG_DF_from_ABAQUS (N : nat) (K : M4) (F0 F1 s : M2) : M4 :=
  dsig_of_dtau (dtau_of_cj (scal4 (det2 F1) K) F1 s) F1 s.
(* P_ij = J s_im F^-1_jm,  dF^-1_jm/dF_kl = - F^-1_jk F^-1_lm *)
Definition spec_DPK1_DF_from_DSIG_DF (N : nat) (K : M4) (F0 F1 s : M2) : M4 :=
  fun i j k l => cof2 F1 k l * sum3 (fun m => s i m * inv2 F1 j m)
                 + det2 F1 * sum3 (fun m => K i m k l * inv2 F1 j m)
                 - det2 F1 * sum3 (fun m => s i m * inv2 F1 j k * inv2 F1 l m).
(* tau = P F^T.  d(P F^T)_ij/dF_kl is symmetric in (i,j) whenever K is the derivative of a genuine first
   Piola-Kirchhoff stress; the code stores the components (j,i), i<=j (as pk1_to_cauchy does) *)
Definition dtau_of_dpk1 (K : M4) (F s : M2) : M4 :=
  fun i j k l => sum3 (fun m => K j m k l * F i m) + pk1 F s j l * delta i k.
Definition spec_DTAU_DF_from_DPK1_DF (N : nat) (K : M4) (F0 F1 s : M2) : M4 := dtau_of_dpk1 K F1 s.
Definition spec_DSIG_DF_from_DPK1_DF (N : nat) (K : M4) (F0 F1 s : M2) : M4 := dsig_of_dtau (dtau_of_dpk1 K F1 s) F1 s.
(* P = F S *)
Definition spec_DPK1_DF_from_DS_DEGL (N : nat) (K : M4) (F0 F1 s : M2) : M4 :=
  fun i j k l => delta i k * pk2 F1 s l j + sum3 (fun m => F1 i m * mul44 K (dE4 F1) m j k l).

(* ---- inverse pairs: the round trip is the identity *)
Definition spec_rt_DS_DEGL_DS_DC (N : nat) (K : M4) (F0 F1 s : M2) : M4 := K.
Definition spec_rt_C_TRUESDELL_SPATIAL_MODULI (N : nat) (K : M4) (F0 F1 s : M2) : M4 := K.
Definition spec_rt_SPATIAL_MODULI_C_TAU_JAUMANN (N : nat) (K : M4) (F0 F1 s : M2) : M4 := K.
Definition spec_rt_SPATIAL_MODULI_ABAQUS (N : nat) (K : M4) (F0 F1 s : M2) : M4 := K.
Definition spec_rt_C_TAU_JAUMANN_ABAQUS (N : nat) (K : M4) (F0 F1 s : M2) : M4 := K.
Definition spec_rt_DSIG_DF_DSIG_DDF (N : nat) (K : M4) (F0 F1 s : M2) : M4 := K.
Definition spec_rt_DTAU_DF_DTAU_DDF (N : nat) (K : M4) (F0 F1 s : M2) : M4 := K.
Definition spec_rt_DS_DEGL_SPATIAL_MODULI (N : nat) (K : M4) (F0 F1 s : M2) : M4 := K.
Definition spec_rt_C_TAU_JAUMANN_DTAU_DF (N : nat) (K : M4) (F0 F1 s : M2) : M4 := K.
Definition spec_rt_SPATIAL_MODULI_DTAU_DF (N : nat) (K : M4) (F0 F1 s : M2) : M4 := K.

(* C23 -- lemmas on mfront's conversion-path finder (model: C23PathModel.v) over the table of conversions read from
   /repo on THIS run (C23_convtable_gen.v: `flags`, `converters`, written by props/C23/convtable.py from the output of
   the real code).  The boolean facts are closed by computation; the readable statements are derived from them. *)
From Coq Require Import List Arith Bool Lia.
Import ListNotations.
From C23 Require Import C23PathModel C23_convtable_gen.

(* recursion depth of getConversionsPath <= number of distinct operators + 1; None (fuel exhausted) would make every
   boolean fact below false *)
Definition fuel : nat := S (S (length flags)).

(* the known sets mfront is modelled with: one user-defined operator, two user-defined operators *)
Definition known_sets : list (list nat) := singletons flags ++ pairs_of flags.

(* --- generic glue -------------------------------------------------------------------------------------------- *)
Lemma fkt_spec : forall fl sets P, forall_known_target fl sets P = true ->
  forall k t, In k sets -> In t fl -> P k t = true.
Proof.
  unfold forall_known_target. intros fl sets P H k t Hk Ht.
  rewrite forallb_forall in H. specialize (H k Hk). rewrite forallb_forall in H. exact (H t Ht).
Qed.

Lemma in_singletons : forall a l, In a l -> In [a] (singletons l).
Proof. intros a l H. unfold singletons. apply in_map_iff. exists a. split; [reflexivity | exact H]. Qed.

Lemma in_known_single : forall a, In a flags -> In [a] known_sets.
Proof. intros a H. unfold known_sets. apply in_or_app. left. apply in_singletons. exact H. Qed.

Lemma in_known_pair : forall k, In k (pairs_of flags) -> In k known_sets.
Proof. intros k H. unfold known_sets. apply in_or_app. right. exact H. Qed.

Lemma mem_single : forall x a, mem x [a] = true -> x = a.
Proof. unfold mem. simpl. intros x a H. rewrite orb_false_r in H. apply Nat.eqb_eq in H. exact H. Qed.

Lemma mem_single_false : forall x a, x <> a -> mem x [a] = false.
Proof. unfold mem. simpl. intros x a H. rewrite orb_false_r. apply Nat.eqb_neq. exact H. Qed.

Lemma is_nil_true : forall A (l : list A), is_nil l = true -> l = [].
Proof. intros A [|x l] H; [reflexivity | discriminate H]. Qed.

Lemma is_nil_false : forall A (l : list A), is_nil l = false -> l <> [].
Proof. intros A [|x l] H; [discriminate H | discriminate]. Qed.

(* --- the table is well formed ------------------------------------------------------------------------------- *)
Definition table_wf : bool :=
  nodup_nat flags && forallb (fun c => mem (cfrom c) flags && mem (cto c) flags && negb (Nat.eqb (cfrom c) (cto c))) converters.

Lemma table_wf_ok : table_wf = true.
Proof. vm_cast_no_check (eq_refl true). Qed.

(* --- boolean facts, by computation --------------------------------------------------------------------------- *)
Lemma valid_all : forall_known_target flags known_sets (valid_at fuel converters) = true.
Proof. vm_cast_no_check (eq_refl true). Qed.

Lemma complete_all : forall_known_target flags known_sets (complete_at fuel converters) = true.
Proof. vm_cast_no_check (eq_refl true). Qed.

Lemma shortest_all : forall_known_target flags known_sets (shortest_at fuel converters) = true.
Proof. vm_cast_no_check (eq_refl true). Qed.

(* the reachability sets are closed under the conversions (the fuel of `closure` was sufficient) and the breadth-first
   distance is defined exactly on the reachable targets *)
Definition reach_ok_at (ktos : list nat) (t : nat) : bool :=
  closed converters (closure fuel converters (add_new [] [] (succs converters ktos))) &&
  (mem t ktos || Bool.eqb (reachable fuel converters ktos t)
                          (match bfs_dist fuel converters ktos t with Some _ => true | None => false end)).

Lemma reach_ok_all : forall_known_target flags known_sets reach_ok_at = true.
Proof. vm_cast_no_check (eq_refl true). Qed.

(* --- readable statements -------------------------------------------------------------------------------------- *)
(* (i) one known operator *)
Lemma paths_valid : forall from to, In from flags -> In to flags ->
  exists p, mfront_path fuel converters [from] to = Some p /\
            (p = [] \/ (valid_chain converters from to p = true /\ simple_path [from] p = true)).
Proof.
  intros from to Hf Ht.
  pose proof (fkt_spec _ _ _ valid_all [from] to (in_known_single _ Hf) Ht) as H.
  unfold valid_at in H. destruct (mfront_path fuel converters [from] to) as [p|]; [|discriminate H].
  exists p. split; [reflexivity|].
  apply orb_true_iff in H. destruct H as [H|H].
  - left. apply is_nil_true. exact H.
  - right. apply andb_true_iff in H. destruct H as [H1 H2]. split; [|exact H2].
    unfold valid_chain_from_set in H1. destruct p as [|c r]; [discriminate H1|].
    apply andb_true_iff in H1. destruct H1 as [Hm Hc]. apply mem_single in Hm.
    unfold valid_chain. rewrite <- Hm. exact Hc.
Qed.

(* (i') two known operators *)
Lemma paths_valid_pairs : forall ktos to, In ktos (pairs_of flags) -> In to flags ->
  exists p, mfront_path fuel converters ktos to = Some p /\
            (p = [] \/ (valid_chain_from_set converters ktos to p = true /\ simple_path ktos p = true)).
Proof.
  intros ktos to Hk Ht.
  pose proof (fkt_spec _ _ _ valid_all ktos to (in_known_pair _ Hk) Ht) as H.
  unfold valid_at in H. destruct (mfront_path fuel converters ktos to) as [p|]; [|discriminate H].
  exists p. split; [reflexivity|].
  apply orb_true_iff in H. destruct H as [H|H].
  - left. apply is_nil_true. exact H.
  - right. apply andb_true_iff in H. exact H.
Qed.

(* (ii) *)
Lemma paths_complete : forall from to, In from flags -> In to flags -> to <> from ->
  exists p, mfront_path fuel converters [from] to = Some p /\
            (p <> [] <-> reachable fuel converters [from] to = true).
Proof.
  intros from to Hf Ht Hne.
  pose proof (fkt_spec _ _ _ complete_all [from] to (in_known_single _ Hf) Ht) as H.
  unfold complete_at in H. destruct (mfront_path fuel converters [from] to) as [p|]; [|discriminate H].
  exists p. split; [reflexivity|].
  rewrite (mem_single_false _ _ Hne) in H. rewrite orb_false_l in H. apply eqb_prop in H.
  rewrite <- H. clear H. destruct p as [|c r]; simpl; split; intro K.
  - exfalso. apply K. reflexivity.
  - discriminate K.
  - reflexivity.
  - discriminate.
Qed.

Lemma paths_complete_pairs : forall ktos to, In ktos (pairs_of flags) -> In to flags -> mem to ktos = false ->
  exists p, mfront_path fuel converters ktos to = Some p /\
            (p <> [] <-> reachable fuel converters ktos to = true).
Proof.
  intros ktos to Hk Ht Hne.
  pose proof (fkt_spec _ _ _ complete_all ktos to (in_known_pair _ Hk) Ht) as H.
  unfold complete_at in H. destruct (mfront_path fuel converters ktos to) as [p|]; [|discriminate H].
  exists p. split; [reflexivity|].
  rewrite Hne in H. rewrite orb_false_l in H. apply eqb_prop in H.
  rewrite <- H. clear H. destruct p as [|c r]; simpl; split; intro K.
  - exfalso. apply K. reflexivity.
  - discriminate K.
  - reflexivity.
  - discriminate.
Qed.

(* (iii) *)
Lemma paths_shortest : forall from to, In from flags -> In to flags -> to <> from ->
  exists p, mfront_path fuel converters [from] to = Some p /\
            match bfs_dist fuel converters [from] to with
            | None => p = []
            | Some d => length p = d
            end.
Proof.
  intros from to Hf Ht Hne.
  pose proof (fkt_spec _ _ _ shortest_all [from] to (in_known_single _ Hf) Ht) as H.
  unfold shortest_at in H. destruct (mfront_path fuel converters [from] to) as [p|]; [|discriminate H].
  exists p. split; [reflexivity|].
  rewrite (mem_single_false _ _ Hne) in H. rewrite orb_false_l in H.
  destruct (bfs_dist fuel converters [from] to) as [d|].
  - apply Nat.eqb_eq. exact H.
  - apply is_nil_true. exact H.
Qed.

Lemma paths_shortest_pairs : forall ktos to, In ktos (pairs_of flags) -> In to flags -> mem to ktos = false ->
  exists p, mfront_path fuel converters ktos to = Some p /\
            match bfs_dist fuel converters ktos to with
            | None => p = []
            | Some d => length p = d
            end.
Proof.
  intros ktos to Hk Ht Hne.
  pose proof (fkt_spec _ _ _ shortest_all ktos to (in_known_pair _ Hk) Ht) as H.
  unfold shortest_at in H. destruct (mfront_path fuel converters ktos to) as [p|]; [|discriminate H].
  exists p. split; [reflexivity|].
  rewrite Hne in H. rewrite orb_false_l in H.
  destruct (bfs_dist fuel converters ktos to) as [d|].
  - apply Nat.eqb_eq. exact H.
  - apply is_nil_true. exact H.
Qed.

(* the independent notions are consistent on this table *)
Lemma reach_consistent : forall ktos to, In ktos known_sets -> In to flags ->
  closed converters (closure fuel converters (add_new [] [] (succs converters ktos))) = true /\
  (mem to ktos = false ->
   (reachable fuel converters ktos to = true <-> exists d, bfs_dist fuel converters ktos to = Some d)).
Proof.
  intros ktos to Hk Ht.
  pose proof (fkt_spec _ _ _ reach_ok_all ktos to Hk Ht) as H. unfold reach_ok_at in H.
  apply andb_true_iff in H. destruct H as [H1 H2]. split; [exact H1|].
  intro Hne. rewrite Hne in H2. rewrite orb_false_l in H2. apply eqb_prop in H2. rewrite H2.
  destruct (bfs_dist fuel converters ktos to) as [d|]; split; intro K.
  - exists d. reflexivity.
  - reflexivity.
  - discriminate K.
  - destruct K as [d K]. discriminate K.
Qed.

(* C23 -- lemmas on mfront's conversion-path finder (model: C23PathModel.v) over the table of conversions read from
   /repo on THIS run (C23_convtable_gen.v: `flags`, `converters`, written by props/C23/convtable.py from the output of
   the real code).  The boolean facts are closed by computation; the readable statements are derived from them. *)
From Coq Require Import List Arith Bool Lia.
Import ListNotations.
From C23 Require Import C23PathModel C23_convtable_gen.

(* recursion depth of getConversionsPath <= number of distinct operators + 1; None (fuel exhausted) would make every
   boolean fact below false *)
Definition fuel : nat := S (S (length flags)).

(* the known sets mfront is modelled with: one user-defined operator, two user-defined operators *)
Definition known_sets : list (list nat) := singletons flags ++ pairs_of flags.

(* --- generic glue -------------------------------------------------------------------------------------------- *)
Lemma check_all_spec : forall fu convs fl sets P, check_all fu convs fl sets P = true ->
  forall ktos t, In ktos sets -> In t fl -> exists p, mfront_path fu convs ktos t = Some p /\ P ktos t p = true.
Proof.
  unfold check_all. intros fu convs fl sets P H ktos t Hk Ht.
  rewrite forallb_forall in H. specialize (H ktos Hk). unfold check_set in H. unfold mfront_path.
  destruct (mfront_paths fu convs ktos) as [ps|]; [|discriminate H].
  rewrite forallb_forall in H. exists (get_shortest_path ps t). split; [reflexivity | exact (H t Ht)].
Qed.

Lemma in_singletons : forall a l, In a l -> In [a] (singletons l).
Proof. intros a l H. unfold singletons. apply in_map_iff. exists a. split; [reflexivity | exact H]. Qed.

Lemma in_known_single : forall a, In a flags -> In [a] known_sets.
Proof. intros a H. unfold known_sets. apply in_or_app. left. apply in_singletons. exact H. Qed.

Lemma in_known_pair : forall k, In k (pairs_of flags) -> In k known_sets.
Proof. intros k H. unfold known_sets. apply in_or_app. right. exact H. Qed.

Lemma mem_single : forall x a, mem x [a] = true -> x = a.
Proof. unfold mem. simpl. intros x a H. rewrite orb_false_r in H. apply Nat.eqb_eq in H. exact H. Qed.

Lemma mem_single_false : forall x a, x <> a -> mem x [a] = false.
Proof. unfold mem. simpl. intros x a H. rewrite orb_false_r. apply Nat.eqb_neq. exact H. Qed.

Lemma is_nil_true : forall A (l : list A), is_nil l = true -> l = [].
Proof. intros A [|x l] H; [reflexivity | discriminate H]. Qed.

Lemma is_nil_false : forall A (l : list A), is_nil l = false -> l <> [].
Proof. intros A [|x l] H; [discriminate H | discriminate]. Qed.

(* --- the table is well formed ------------------------------------------------------------------------------- *)
Definition table_wf : bool :=
  nodup_nat flags && forallb (fun c => mem (cfrom c) flags && mem (cto c) flags && negb (Nat.eqb (cfrom c) (cto c))) converters.

Lemma table_wf_ok : table_wf = true.
Proof. vm_cast_no_check (eq_refl true). Qed.

(* --- boolean facts, by computation --------------------------------------------------------------------------- *)
Definition all_p (ktos : list nat) (t : nat) (p : path) : bool :=
  valid_p converters ktos t p && (complete_p fuel converters ktos t p && shortest_p fuel converters ktos t p).

Lemma all_ok : check_all fuel converters flags known_sets all_p = true.
Proof. vm_cast_no_check (eq_refl true). Qed.

Lemma all_at : forall ktos t, In ktos known_sets -> In t flags ->
  exists p, mfront_path fuel converters ktos t = Some p /\
            valid_p converters ktos t p = true /\ complete_p fuel converters ktos t p = true /\
            shortest_p fuel converters ktos t p = true.
Proof.
  intros ktos t Hk Ht. destruct (check_all_spec _ _ _ _ _ all_ok ktos t Hk Ht) as [p [E H]].
  exists p. split; [exact E|]. unfold all_p in H.
  apply andb_true_iff in H. destruct H as [H1 H]. apply andb_true_iff in H. destruct H as [H2 H3].
  split; [exact H1 | split; [exact H2 | exact H3]].
Qed.

(* the reachability sets are closed under the conversions (the fuel of `closure` was sufficient) and the breadth-first
   distance is defined exactly on the reachable targets *)
Definition reach_ok_set (ktos : list nat) : bool :=
  closed converters (closure fuel converters (add_new [] [] (succs converters ktos))) &&
  forallb (fun t => mem t ktos || Bool.eqb (reachable fuel converters ktos t)
                          (match bfs_dist fuel converters ktos t with Some _ => true | None => false end)) flags.

Lemma reach_ok_all : forallb reach_ok_set known_sets = true.
Proof. vm_cast_no_check (eq_refl true). Qed.

(* --- readable statements -------------------------------------------------------------------------------------- *)
(* (i) one known operator *)
Lemma paths_valid : forall from to, In from flags -> In to flags ->
  exists p, mfront_path fuel converters [from] to = Some p /\
            (p = [] \/ (valid_chain converters from to p = true /\ simple_path [from] p = true)).
Proof.
  intros from to Hf Ht.
  destruct (all_at [from] to (in_known_single _ Hf) Ht) as [p [E [H [_ _]]]].
  exists p. split; [exact E|]. unfold valid_p in H.
  apply orb_true_iff in H. destruct H as [H|H].
  - left. apply is_nil_true. exact H.
  - right. apply andb_true_iff in H. destruct H as [H1 H2]. split; [|exact H2].
    unfold valid_chain_from_set in H1. destruct p as [|c r]; [discriminate H1|].
    apply andb_true_iff in H1. destruct H1 as [Hm Hc]. apply mem_single in Hm.
    unfold valid_chain. rewrite <- Hm. exact Hc.
Qed.

(* (i') two known operators *)
Lemma paths_valid_pairs : forall ktos to, In ktos (pairs_of flags) -> In to flags ->
  exists p, mfront_path fuel converters ktos to = Some p /\
            (p = [] \/ (valid_chain_from_set converters ktos to p = true /\ simple_path ktos p = true)).
Proof.
  intros ktos to Hk Ht.
  destruct (all_at ktos to (in_known_pair _ Hk) Ht) as [p [E [H [_ _]]]].
  exists p. split; [exact E|]. unfold valid_p in H.
  apply orb_true_iff in H. destruct H as [H|H].
  - left. apply is_nil_true. exact H.
  - right. apply andb_true_iff in H. exact H.
Qed.

(* (ii) *)
Lemma paths_complete : forall from to, In from flags -> In to flags -> to <> from ->
  exists p, mfront_path fuel converters [from] to = Some p /\
            (p <> [] <-> reachable fuel converters [from] to = true).
Proof.
  intros from to Hf Ht Hne.
  destruct (all_at [from] to (in_known_single _ Hf) Ht) as [p [E [_ [H _]]]].
  exists p. split; [exact E|]. unfold complete_p in H.
  rewrite (mem_single_false _ _ Hne) in H. rewrite orb_false_l in H. apply eqb_prop in H.
  rewrite <- H. clear H. destruct p as [|c r]; simpl; split; intro K.
  - exfalso. apply K. reflexivity.
  - discriminate K.
  - reflexivity.
  - discriminate.
Qed.

Lemma paths_complete_pairs : forall ktos to, In ktos (pairs_of flags) -> In to flags -> mem to ktos = false ->
  exists p, mfront_path fuel converters ktos to = Some p /\
            (p <> [] <-> reachable fuel converters ktos to = true).
Proof.
  intros ktos to Hk Ht Hne.
  destruct (all_at ktos to (in_known_pair _ Hk) Ht) as [p [E [_ [H _]]]].
  exists p. split; [exact E|]. unfold complete_p in H.
  rewrite Hne in H. rewrite orb_false_l in H. apply eqb_prop in H.
  rewrite <- H. clear H. destruct p as [|c r]; simpl; split; intro K.
  - exfalso. apply K. reflexivity.
  - discriminate K.
  - reflexivity.
  - discriminate.
Qed.

(* (iii) *)
Lemma paths_shortest : forall from to, In from flags -> In to flags -> to <> from ->
  exists p, mfront_path fuel converters [from] to = Some p /\
            match bfs_dist fuel converters [from] to with
            | None => p = []
            | Some d => length p = d
            end.
Proof.
  intros from to Hf Ht Hne.
  destruct (all_at [from] to (in_known_single _ Hf) Ht) as [p [E [_ [_ H]]]].
  exists p. split; [exact E|]. unfold shortest_p in H.
  rewrite (mem_single_false _ _ Hne) in H. rewrite orb_false_l in H.
  destruct (bfs_dist fuel converters [from] to) as [d|].
  - apply Nat.eqb_eq. exact H.
  - apply is_nil_true. exact H.
Qed.

Lemma paths_shortest_pairs : forall ktos to, In ktos (pairs_of flags) -> In to flags -> mem to ktos = false ->
  exists p, mfront_path fuel converters ktos to = Some p /\
            match bfs_dist fuel converters ktos to with
            | None => p = []
            | Some d => length p = d
            end.
Proof.
  intros ktos to Hk Ht Hne.
  destruct (all_at ktos to (in_known_pair _ Hk) Ht) as [p [E [_ [_ H]]]].
  exists p. split; [exact E|]. unfold shortest_p in H.
  rewrite Hne in H. rewrite orb_false_l in H.
  destruct (bfs_dist fuel converters ktos to) as [d|].
  - apply Nat.eqb_eq. exact H.
  - apply is_nil_true. exact H.
Qed.

"""C23 component: mfront's run-time finite-strain tangent-operator conversion table and path finder.

`run(c)` builds and runs `convtable.cxx` on /repo's working tree (the REAL getAvailableFiniteStrainBehaviourTangentOperatorConversions,
getConversionsPath, getShortestPath, flag functions, and a compile-time probe of the FiniteStrainBehaviourTangentOperatorConverter
specialisations), checks the output with independent Python statements (registered conversion <-> specialisation and generated code
string, every chosen path is a chain of registered conversions with the right end points, found iff reachable, of minimal length),
writes the table to `C23_convtable_gen.v`, proves the same facts in Coq on the hand-written model of the path finder
(coq/C23PathModel.v, C23PathProofs.v, Properties_C23_paths.v), and compares the model with the real code on every
(known set, target) and on the number of enumerated paths.

Returns the list of registered conversions as names "<To>_from_<From>" (the names of the converter operations of trace.cxx)."""
import ast, os, re

REPO_SOURCES = ["mfront/src/FiniteStrainBehaviourTangentOperatorConversion.cxx",
                "mfront/src/FiniteStrainBehaviourTangentOperatorConversionPath.cxx",
                "src/Material/FiniteStrainBehaviourTangentOperator.cxx",
                "src/Exception/TFELException.cxx"]
COQ_MODEL = "C23PathModel.v"
COQ_FILES = ["C23PathProofs.v", "Properties_C23_paths.v"]
GEN_NAME = "C23_convtable_gen.v"


def _parse(out):
    d = {"flags": [], "name": {}, "type": {}, "conv": [], "code": {}, "npaths": {}, "path": {}, "spec": {}, "probelist": None}
    for l in out.splitlines():
        w = l.split()
        if not w:
            continue
        if w[0] == "FLAG":
            d["flags"].append(int(w[1])); d["name"][int(w[1])] = w[2]; d["type"][int(w[1])] = w[3]
        elif w[0] == "PROBELIST":
            d["probelist"] = w[1] == "1"
        elif w[0] == "CONV":
            head, inter, final = [x.strip() for x in l.split("|")]
            f, t = int(head.split()[1]), int(head.split()[2])
            d["conv"].append((f, t)); d["code"].setdefault((f, t), []).append((inter, final))
        elif w[0] in ("NPATHS", "NPATHS2"):
            d["npaths"][tuple(int(x) for x in w[1:-1])] = int(w[-1])
        elif w[0] in ("PATH", "PATH2"):
            i = w.index(":")
            ks = tuple(int(x) for x in w[1:i - 1]); t = int(w[i - 1])
            d["path"][(ks, t)] = [tuple(int(x) for x in s.split("-")) for s in w[i + 1:]]
        elif w[0] == "SPEC":
            d["spec"][(int(w[1]), int(w[2]))] = (w[3] == "1", w[4] == "1")
    return d


def _bfs(conv, srcs):
    """independent statement: number of conversions needed to reach every operator from the set srcs"""
    dist, frontier, seen, n = {}, set(srcs), set(srcs), 0
    while frontier:
        n += 1
        nxt = {t for (f, t) in conv if f in frontier and t not in seen}
        for t in nxt:
            dist[t] = n
        seen |= nxt
        frontier = nxt
    return dist


def _fmt(d, p):
    return " -> ".join([d["name"].get(p[0][0], str(p[0][0]))] + [d["name"].get(s[1], str(s[1])) for s in p]) if p else "(none)"


MAX_REPORTS = 6   # per class of failure: one broken line of the path finder breaks hundreds of (known set, target) pairs


def run(c):
    nrep = {}
    real_report = c.report

    def report(key, what, replay=None, found_input=True):
        cls = ":".join(key.split(":")[:2]) if key.startswith("paths:model:") or key.startswith("paths:conv:") else "paths"
        nrep[cls] = nrep.get(cls, 0) + 1
        if nrep[cls] <= MAX_REPORTS:
            return real_report(key, what, replay, found_input)
        return False
    try:
        return _run(c, report)
    finally:
        over = {k: v for k, v in nrep.items() if v > MAX_REPORTS}
        if over:
            c.notes.append("conversion table: failures reported in full only %d times per class; totals: %s" % (MAX_REPORTS, over))


def _run(c, report):
    exe = c.cxx("convtable", ["convtable.cxx"], repo_sources=REPO_SOURCES)
    rc, out, err = c.run([exe], timeout=300)
    if rc != 0:
        report("paths:driver", "convtable driver failed on /repo's conversion table: " + err[-500:], {"stderr": err[-3000:]}, False)
        return []
    d = _parse(out)
    flags, conv, nm = d["flags"], d["conv"], d["name"]
    N = lambda f: nm.get(f, "flag%d" % f)
    kname = lambda ks: "+".join(N(k) for k in ks)
    if not flags or not conv or not d["path"]:
        report("paths:driver", "convtable driver printed no table", {"stdout": out[:3000]}, False)
        return []
    c.trusted("g++ compilation of mfront/src/FiniteStrainBehaviourTangentOperatorConversion{,Path}.cxx and the driver props/C23/convtable.cxx "
              "(prints the real table, the real paths and the requires-probe of the converter specialisations)",
              "hand-written Gallina model coq/C23PathModel.v of getConversionsPath/getShortestPath: tied to the code only by the comparison "
              "of all paths and path counts for one and two known operators on the table of this run",
              "the call pattern of BehaviourCodeGeneratorBase (paths from every user-defined operator concatenated in flag order) is "
              "re-implemented in the driver, not extracted from mfront")
    # ---- independent checks on the real output -------------------------------------------------------------
    if not d["probelist"]:
        report("paths:probelist", "getFiniteStrainBehaviourTangentOperatorFlags() is not the list of enumerators probed by convtable.cxx "
                 "(an enumerator was added or removed: update ALL[] in props/C23/convtable.cxx)", {"flags": [N(f) for f in flags]}, True)
    if len(set(flags)) != len(flags):
        report("paths:flags:dup", "getFiniteStrainBehaviourTangentOperatorFlags() lists a flag twice", {"flags": [N(f) for f in flags]}, True)
    if len(set(nm.values())) != len(nm):
        report("paths:flags:names", "two flags have the same name", {"names": nm}, True)
    if len(set(conv)) != len(conv):
        c.notes.append("conversion table registers a pair twice: %s" % sorted({"%s->%s" % (N(f), N(t)) for (f, t) in conv if conv.count((f, t)) > 1}))
    for (f, t) in conv:
        key = "paths:conv:%s:%s" % (N(f), N(t))
        c.count(1, ("conv", f, t), True)
        if f not in flags or t not in flags or f == t:
            report(key, "registered conversion %s -> %s does not join two distinct flags of the flag list" % (N(f), N(t)), {"from": f, "to": t}, True)
            continue
        comp, hexe = d["spec"].get((f, t), (False, False))
        if not (comp and hexe):
            report(key, "conversion %s -> %s is registered in mfront's table but FiniteStrainBehaviourTangentOperatorConverter<%s,%s> %s: "
                     "the generated behaviour would not compile" % (N(f), N(t), N(t), N(f), "is not defined" if not comp else "has no usable exe<3,double>"),
                     {"from": N(f), "to": N(t), "complete": comp, "exe": hexe}, True)
        for (inter, final) in d["code"][(f, t)]:
            mi = re.fullmatch(r"const auto tangentOperator_(\w+) = convert<(\w+),(\w+)>\(tangentOperator_(\w+),this->F0,this->F1,this->sig\);", inter)
            mf = re.fullmatch(r"this->Dt = convert<(\w+),(\w+)>\(tangentOperator_(\w+),this->F0,this->F1,this->sig\);", final)
            if not (mi and mi.groups() == (N(t), N(t), N(f), N(f)) and mf and mf.groups() == (N(t), N(f), N(f))):
                report(key, "generated code of the conversion %s -> %s does not call convert<%s,%s> on tangentOperator_%s: %r / %r" % (
                    N(f), N(t), N(t), N(f), N(f), inter, final), {"from": N(f), "to": N(t), "intermediate": inter, "final": final}, True)
    # the type of the operator named by the flag must be the one declared for the converter argument: checked by the exe probe
    # paths
    dist_cache = {}
    nchecked = 0
    for (ks, t), p in sorted(d["path"].items()):
        key = "paths:%s:%s" % (kname(ks), N(t))
        nchecked += 1
        c.count(1, ("path", ks, t), bool(p))
        if ks not in dist_cache:
            dist_cache[ks] = _bfs(set(conv), ks)
        dist = dist_cache[ks]
        bad = None
        if t in ks:
            if p:
                bad = "a conversion path is returned for an operator the behaviour already provides"
        elif p:
            if any(s not in conv for s in p):
                bad = "step %s is not a registered conversion" % ["%s->%s" % (N(a), N(b)) for (a, b) in p if (a, b) not in conv]
            elif p[0][0] not in ks:
                bad = "the path starts from %s, which the behaviour does not provide" % N(p[0][0])
            elif p[-1][1] != t:
                bad = "the path ends at %s" % N(p[-1][1])
            elif any(p[i][1] != p[i + 1][0] for i in range(len(p) - 1)):
                bad = "consecutive conversions do not chain"
            elif t not in dist:
                bad = "internal: path to an unreachable operator"
            elif len(p) != dist[t]:
                bad = "the path has %d conversions, a path of %d conversions exists" % (len(p), dist[t])
        elif t in dist:
            bad = "no path returned although %s can be reached in %d registered conversions" % (N(t), dist[t])
        if bad:
            report(key, "getShortestPath(getConversionsPath(.., {%s}, ..), %s) = %s: %s" % (kname(ks), N(t), _fmt(d, p), bad),
                     {"known": [N(k) for k in ks], "target": N(t), "path": [[N(a), N(b)] for (a, b) in p]}, True)
        elif p and len(ks) == 1 and len(p) >= 3:
            c.sample({"known": kname(ks), "target": N(t), "real_code_path": _fmt(d, p)})
    # ---- informational facts about the table -----------------------------------------------------------------------
    unused = sorted("%s_from_%s" % (N(t), N(f)) for (f, t), (comp, _) in d["spec"].items() if comp and (f, t) not in conv)
    isolated = [N(f) for f in flags if not any(f in ct for ct in conv)]
    never_target = [N(f) for f in flags if not any(t == f for (_, t) in conv) and N(f) not in isolated]
    unreach = sorted("%s->%s" % (N(b), N(t)) for b in flags for t in flags
                     if b != t and N(b) not in isolated and N(t) not in isolated and t not in _bfs(set(conv), (b,)))
    c.notes.append("conversion table of this run: %d flags, %d registered conversions, %d converter specialisations in the headers; "
                   "specialisations NOT registered in mfront's table: %s; flags with no registered conversion at all (a behaviour giving only "
                   "such an operator, or a solver asking for it, gets 'not supported'): %s; flags that are never the result of a conversion: %s; "
                   "unreachable pairs among the others: %s" % (len(flags), len(conv), sum(1 for v in d["spec"].values() if v[0]),
                                                              unused, isolated, never_target, unreach))
    # ---- Coq: table of this run, model, theorems -------------------------------------------------------------------
    os.makedirs(os.path.join(c.work, "coq"), exist_ok=True)
    gen = os.path.join(c.work, "coq", GEN_NAME)
    with open(gen, "w") as f:
        f.write("(* generated by props/C23/convtable.py from the output of the real code (props/C23/convtable.cxx) *)\n"
                "From Coq Require Import List.\nImport ListNotations.\n"
                "(* %s *)\n" % " ".join("%d=%s" % (k, N(k)) for k in flags) +
                "Definition flags : list nat := [%s].\n" % "; ".join(str(k) for k in flags) +
                "Definition converters : list (nat * nat) := [%s].\n" % "; ".join("(%d, %d)" % ft for ft in conv))
    res = c.coq([COQ_MODEL, gen] + COQ_FILES, timeout=600)

    def search(failure):
        # the Python statements above are the search for a concrete failing input; they have already reported it
        return None
    if not res.ok:
        c.coq_failures(res, search)
    # ---- model <-> code -------------------------------------------------------------------------------------------
    cases = ("From Coq Require Import List.\nImport ListNotations.\nFrom C23 Require Import C23PathModel C23_convtable_gen.\n"
             "Definition fuel := S (S (length flags)).\n"
             "Eval vm_compute in (map (fun k => match mfront_paths fuel converters k with\n"
             "   | Some ps => (k, length ps, map (fun t => get_shortest_path ps t) flags)\n"
             "   | None => (k, 999999, []) end) (singletons flags ++ pairs_of flags)).\n")
    rc, mout, merr = c.coq_eval([COQ_MODEL, gen], cases)
    model = None
    if rc == 0:
        m = re.search(r"=\s*(\[.*\])\s*:\s*list", mout, re.S)
        if m:
            try:
                model = ast.literal_eval(m.group(1).replace(";", ","))
            except (ValueError, SyntaxError):
                model = None
    if model is None:
        report("paths:model", "the Coq model of the path finder could not be evaluated: " + (merr or mout)[-500:], {"stderr": merr[-3000:]}, False)
        return ["%s_from_%s" % (N(t), N(f)) for (f, t) in conv]
    ncmp = 0
    seen_sets = set()
    for (ks, npm, plist) in model:
        ks = tuple(ks)
        seen_sets.add(ks)
        npr = d["npaths"].get(ks)
        if npr != npm:
            report("paths:model:%s:npaths" % kname(ks), "getConversionsPath enumerates %s paths from {%s}, the Coq model %s" % (npr, kname(ks), npm),
                     {"known": [N(k) for k in ks], "real": npr, "model": npm}, True)
        for t, pm in zip(flags, plist):
            pr = d["path"].get((ks, t))
            ncmp += 1
            c.count(1, ("model", ks, t), bool(pm))
            if pr is None or [tuple(s) for s in pm] != pr:
                report("paths:model:%s:%s" % (kname(ks), N(t)), "real getShortestPath gives %s, the Coq model (C23PathModel.v) %s: the theorems do not speak "
                         "about the code" % (_fmt(d, pr or []), _fmt(d, [tuple(s) for s in pm])),
                         {"known": [N(k) for k in ks], "target": N(t), "real": pr, "model": pm}, True)
    missing = set(k for (k, _) in d["path"]) ^ seen_sets
    if missing:
        report("paths:model:sets", "the known sets of the driver and of the Coq model differ: %s" % sorted(missing), {"sets": sorted(missing)}, False)
    c.notes.append("conversion paths: %d (known set, target) pairs of the real code checked by the Python statements, %d compared with the Coq model "
                   "(%d known sets: every single operator, every pair), path counts compared for every known set" % (nchecked, ncmp, len(model)))
    return ["%s_from_%s" % (N(t), N(f)) for (f, t) in conv]

// C23: tracer/driver of /repo's finite-strain tangent-operator converters and stress-measure conversions
// (infrastructure: props/C02/tt.hxx).  One translation unit per group (-DTT_GROUP) and dimension (-DTT_N).
// Inputs of a converter: a = source operator K, b = F0, c = F1, d = Cauchy stress s.
#include "../C02/tt.hxx"
#include "TFEL/Material/FiniteStrainBehaviourTangentOperator.hxx"

using namespace tt;
using TO = tfel::material::FiniteStrainBehaviourTangentOperatorBase;

#ifndef TT_N
#define TT_N 3
#endif
#ifndef TT_GROUP
#define TT_GROUP 0
#endif
#define TSC scalar_of<decltype(in)>

template <char K, unsigned short N, typename T>
auto mk(const V<T>& v) {
  if constexpr (K == 'A') return mk_A<N>(v);
  else if constexpr (K == 'B') return mk_B<N>(v);
  else return mk_C<N>(v);
}
constexpr char kind_of_flag(TO::Flag f) {
  switch (f) {
    case TO::DSIG_DF: case TO::DSIG_DDF: case TO::DTAU_DF: case TO::DTAU_DDF: case TO::DS_DF: case TO::DS_DDF: return 'C';
    case TO::DPK1_DF: return 'B';
    default: return 'A';
  }
}
static const char* HF1 = "det2 (full_t $N c) <> 0";
static const char* HF0 = "det2 (full_t $N b) <> 0";

// one converter  R <- S
// proof = false: execution only (see tt.hxx), for the instances whose proof is too expensive (listed in NOTES.md)
template <TO::Flag R, TO::Flag S, unsigned short N>
void conv(const std::string& name, int tier, const std::string& hyp = "", bool proof = true) {
  constexpr char ks = kind_of_flag(S), kr = kind_of_flag(R);
  reg(name, N, std::string(1, ks) + "tts", kr, [](const auto& in) {
    using T = TSC;
    const auto K = mk<ks, N>(in[0]);
    const auto F0 = mk_t<N>(in[1]);
    const auto F1 = mk_t<N>(in[2]);
    const auto s = mk_s<N>(in[3]);
    const tfel::material::tangent_operator<R, N, T> r = tfel::material::convert<R, S>(K, F0, F1, s);
    return fl(r);
  }, tier, hyp, proof);
}
// round trip  S <- R <- S  (must be the identity)
template <TO::Flag R, TO::Flag S, unsigned short N>
void roundtrip(const std::string& name, int tier, const std::string& hyp, bool proof = true) {
  constexpr char ks = kind_of_flag(S);
  reg(name, N, std::string(1, ks) + "tts", ks, [](const auto& in) {
    using T = TSC;
    const auto K = mk<ks, N>(in[0]);
    const auto F0 = mk_t<N>(in[1]);
    const auto F1 = mk_t<N>(in[2]);
    const auto s = mk_s<N>(in[3]);
    const auto m = tfel::material::convert<R, S>(K, F0, F1, s);
    const tfel::material::tangent_operator<S, N, T> r = tfel::material::convert<S, R>(m, F0, F1, s);
    return fl(r);
  }, tier, hyp, proof);
}

template <unsigned short N>
void reg_stress() {
  const int h = 0;
  reg("cauchy_to_pk1", N, "st", 't', [](const auto& in) {
    using T = TSC;
    tensor<N, T> r = convertCauchyStressToFirstPiolaKirchhoffStress(mk_s<N>(in[0]), mk_t<N>(in[1]));
    return fl(r);
  }, h);
  reg("pk1_to_cauchy", N, "tt", 's', [](const auto& in) {
    using T = TSC;
    stensor<N, T> r = convertFirstPiolaKirchhoffStressToCauchyStress(mk_t<N>(in[0]), mk_t<N>(in[1]));
    return fl(r);
  }, h, "det2 (full_t $N b) <> 0");
  reg("cauchy_to_pk2", N, "st", 's', [](const auto& in) {
    using T = TSC;
    stensor<N, T> r = convertCauchyStressToSecondPiolaKirchhoffStress(mk_s<N>(in[0]), mk_t<N>(in[1]));
    return fl(r);
  }, h, "det2 (full_t $N b) <> 0");
  reg("pk2_to_cauchy", N, "st", 's', [](const auto& in) {
    using T = TSC;
    stensor<N, T> r = convertSecondPiolaKirchhoffStressToCauchyStress(mk_s<N>(in[0]), mk_t<N>(in[1]));
    return fl(r);
  }, h, "det2 (full_t $N b) <> 0");
  reg("rt_cauchy_pk1", N, "st", 's', [](const auto& in) {  // Cauchy -> PK1 -> Cauchy
    using T = TSC;
    const auto F = mk_t<N>(in[1]);
    stensor<N, T> r = convertFirstPiolaKirchhoffStressToCauchyStress(convertCauchyStressToFirstPiolaKirchhoffStress(mk_s<N>(in[0]), F), F);
    return fl(r);
  }, h, "det2 (full_t $N b) <> 0");
  reg("rt_cauchy_pk2", N, "st", 's', [](const auto& in) {  // Cauchy -> PK2 -> Cauchy
    using T = TSC;
    const auto F = mk_t<N>(in[1]);
    stensor<N, T> r = convertSecondPiolaKirchhoffStressToCauchyStress(convertCauchyStressToSecondPiolaKirchhoffStress(mk_s<N>(in[0]), F), F);
    return fl(r);
  }, N == 3 ? 1 : 0, "det2 (full_t $N b) <> 0");
  reg("rt_pk2_cauchy", N, "st", 's', [](const auto& in) {  // PK2 -> Cauchy -> PK2
    using T = TSC;
    const auto F = mk_t<N>(in[1]);
    stensor<N, T> r = convertCauchyStressToSecondPiolaKirchhoffStress(convertSecondPiolaKirchhoffStressToCauchyStress(mk_s<N>(in[0]), F), F);
    return fl(r);
  }, N == 3 ? 1 : 0, "det2 (full_t $N b) <> 0");
  reg("corot_to_pk2", N, "ss", 's', [](const auto& in) {  // S = J U^-1 s U^-1
    using T = TSC;
    stensor<N, T> r = convertCorotationnalCauchyStressToSecondPiolaKirchhoffStress(mk_s<N>(in[0]), mk_s<N>(in[1]));
    return fl(r);
  }, N == 1 ? 0 : 1, "det2 (full_s $N b) <> 0");  // (round 4: `nonzero` of TensorTactics.v relates the Mandel determinant to det2; 2D 50, 3D 145 CPU-s: thorough tier)
  reg("pk2_to_corot", N, "ss", 's', [](const auto& in) {  // s = U S U / J
    using T = TSC;
    stensor<N, T> r = convertSecondPiolaKirchhoffStressToCorotationnalCauchyStress(mk_s<N>(in[0]), mk_s<N>(in[1]));
    return fl(r);
  }, N == 1 ? 0 : 1, "det2 (full_s $N b) <> 0");
  // helpers of the converters
  reg("jaumann_moduli", N, "As", 'A', [](const auto& in) {  // convertSpatialModuliToKirchhoffJaumanRateModuli(C, tau)
    using T = TSC;
    st2tost2<N, T> r = convertSpatialModuliToKirchhoffJaumanRateModuli(mk_A<N>(in[0]), mk_s<N>(in[1]));
    return fl(r);
  }, h);
  reg("rate_of_deformation_derivative", N, "t", 'C', [](const auto& in) {  // dD/dF, D = sym(dF F^-1)
    using T = TSC;
    t2tost2<N, T> r = computeRateOfDeformationDerivative(mk_t<N>(in[0]));
    return fl(r);
  }, h, "det2 (full_t $N a) <> 0");
  reg("spin_rate_derivative", N, "t", 'B', [](const auto& in) {  // dW/dF, W = skew(dF F^-1)
    using T = TSC;
    t2tot2<N, T> r = computeSpinRateDerivative(mk_t<N>(in[0]));
    return fl(r);
  }, h, "det2 (full_t $N a) <> 0");
  reg("velocity_gradient_derivative", N, "t", 'B', [](const auto& in) {  // dL/dF, L = dF F^-1
    using T = TSC;
    t2tot2<N, T> r = computeVelocityGradientDerivative(mk_t<N>(in[0]));
    return fl(r);
  }, h, "det2 (full_t $N a) <> 0");
}

template <unsigned short N>
void reg_conv_a() {  // converters without inverse of F1 in the result (polynomial or divided by J only)
  constexpr int t3 = (N == 3 ? 1 : 0);
  conv<TO::DS_DC, TO::DS_DEGL, N>("DS_DC_from_DS_DEGL", 0);
  conv<TO::DS_DEGL, TO::DS_DC, N>("DS_DEGL_from_DS_DC", 0);
  conv<TO::SPATIAL_MODULI, TO::DS_DEGL, N>("SPATIAL_MODULI_from_DS_DEGL", t3);
  conv<TO::DS_DF, TO::DS_DC, N>("DS_DF_from_DS_DC", 0);
  conv<TO::DS_DF, TO::DS_DEGL, N>("DS_DF_from_DS_DEGL", 0);
  conv<TO::C_TRUESDELL, TO::SPATIAL_MODULI, N>("C_TRUESDELL_from_SPATIAL_MODULI", 0, HF1);
  conv<TO::SPATIAL_MODULI, TO::C_TRUESDELL, N>("SPATIAL_MODULI_from_C_TRUESDELL", 0);
  conv<TO::C_TRUESDELL, TO::DS_DEGL, N>("C_TRUESDELL_from_DS_DEGL", t3, HF1);
  conv<TO::DSIG_DDF, TO::DSIG_DF, N>("DSIG_DDF_from_DSIG_DF", 0);
  conv<TO::DTAU_DDF, TO::DTAU_DF, N>("DTAU_DDF_from_DTAU_DF", 0);
  conv<TO::DSIG_DF, TO::DSIG_DDF, N>("DSIG_DF_from_DSIG_DDF", t3, HF0);
  conv<TO::DTAU_DF, TO::DTAU_DDF, N>("DTAU_DF_from_DTAU_DDF", t3, HF0);
  conv<TO::DSIG_DF, TO::DTAU_DF, N>("DSIG_DF_from_DTAU_DF", t3, HF1);
  conv<TO::ABAQUS, TO::C_TAU_JAUMANN, N>("ABAQUS_from_C_TAU_JAUMANN", 0, HF1);
  conv<TO::C_TAU_JAUMANN, TO::ABAQUS, N>("C_TAU_JAUMANN_from_ABAQUS", 0);
  conv<TO::C_TAU_JAUMANN, TO::SPATIAL_MODULI, N>("C_TAU_JAUMANN_from_SPATIAL_MODULI", 0);
  conv<TO::SPATIAL_MODULI, TO::C_TAU_JAUMANN, N>("SPATIAL_MODULI_from_C_TAU_JAUMANN", 0);
  conv<TO::ABAQUS, TO::SPATIAL_MODULI, N>("ABAQUS_from_SPATIAL_MODULI", 0, HF1);
  conv<TO::SPATIAL_MODULI, TO::ABAQUS, N>("SPATIAL_MODULI_from_ABAQUS", 0);
  conv<TO::ABAQUS, TO::DS_DEGL, N>("ABAQUS_from_DS_DEGL", t3, HF1);
  conv<TO::C_TAU_JAUMANN, TO::DTAU_DF, N>("C_TAU_JAUMANN_from_DTAU_DF", 0);
  conv<TO::ABAQUS, TO::DTAU_DF, N>("ABAQUS_from_DTAU_DF", 0, HF1);
  conv<TO::SPATIAL_MODULI, TO::DTAU_DF, N>("SPATIAL_MODULI_from_DTAU_DF", 0);
  conv<TO::C_TRUESDELL, TO::DTAU_DF, N>("C_TRUESDELL_from_DTAU_DF", 0, HF1);
}

// ---- the four converters from DT_DELOG (dT/dE_log, logarithmic-strain framework).  They are thin wrappers around
// LogarithmicStrainHandler (eigen decomposition by Jacobi iterations: not traceable; the handler itself is property C24).
// Double only (tier 8 of tt.hxx): the REAL converters are executed and the chain-rule relations between their results are
// checked, the reference being DS_DEGL <- DT_DELOG (Lagrangian handler):
//   DS_DC = DS_DEGL / 2,  SPATIAL_MODULI (Eulerian handler) = push-forward of DS_DEGL by F1 (converter proved = pf4),
//   C_TRUESDELL = SPATIAL_MODULI / J (converter proved).  Every operation returns a difference that must vanish.
template <unsigned short N>
void reg_dtdelog() {
  auto dreg = [](const std::string& name, auto f) {
    reg(name, N, "Atts", 'A', [f](const auto& in) {
      using T = TSC;
      if constexpr (std::is_same_v<T, double>) {
        const auto K = mk_A<N>(in[0]);
        const auto F0 = mk_t<N>(in[1]);
        const auto F1 = mk_t<N>(in[2]);
        const auto s = mk_s<N>(in[3]);
        st2tost2<N, T> r = f(K, F0, F1, s);
        return fl(r);
      } else {
        return V<T>{};
      }
    }, 8, HF1, false);
  };
  using tfel::material::convert;
  dreg("DTDELOG_DS_DC_minus_half_DS_DEGL", [](const auto& K, const auto& F0, const auto& F1, const auto& s) {
    const st2tost2<N, double> a = convert<TO::DS_DC, TO::DT_DELOG>(K, F0, F1, s);
    const st2tost2<N, double> b = convert<TO::DS_DEGL, TO::DT_DELOG>(K, F0, F1, s);
    return st2tost2<N, double>(2 * a - b);
  });
  dreg("DTDELOG_SPATIAL_minus_pushforward_DS_DEGL", [](const auto& K, const auto& F0, const auto& F1, const auto& s) {
    const st2tost2<N, double> a = convert<TO::SPATIAL_MODULI, TO::DT_DELOG>(K, F0, F1, s);
    const st2tost2<N, double> b = convert<TO::DS_DEGL, TO::DT_DELOG>(K, F0, F1, s);
    const st2tost2<N, double> c = convert<TO::SPATIAL_MODULI, TO::DS_DEGL>(b, F0, F1, s);
    return st2tost2<N, double>(a - c);
  });
  dreg("DTDELOG_TRUESDELL_minus_SPATIAL_over_J", [](const auto& K, const auto& F0, const auto& F1, const auto& s) {
    const st2tost2<N, double> a = convert<TO::C_TRUESDELL, TO::DT_DELOG>(K, F0, F1, s);
    const st2tost2<N, double> b = convert<TO::SPATIAL_MODULI, TO::DT_DELOG>(K, F0, F1, s);
    const st2tost2<N, double> c = convert<TO::C_TRUESDELL, TO::SPATIAL_MODULI>(b, F0, F1, s);
    return st2tost2<N, double>(a - c);
  });
  // F1 = identity: E_log = E_GL to second order only in the strain, but at F = I with zero stress both frameworks have the
  // same tangent: DS_DEGL <- DT_DELOG (K, I, I, 0) = K
  reg("DTDELOG_DS_DEGL_at_identity", N, "A", 'A', [](const auto& in) {
    using T = TSC;
    if constexpr (std::is_same_v<T, double>) {
      const auto K = mk_A<N>(in[0]);
      const auto Id = tensor<N, T>::Id();
      const stensor<N, T> z(T(0));
      st2tost2<N, T> r = convert<TO::DS_DEGL, TO::DT_DELOG>(K, Id, Id, z);
      return fl(r);
    } else {
      return V<T>{};
    }
  }, 8, "", false);
}

template <unsigned short N>
void reg_conv_b() {  // converters through F1^-1 (expensive rational identities)
  constexpr int t3 = 1;  // thorough tier only (all N)
  conv<TO::DS_DEGL, TO::SPATIAL_MODULI, N>("DS_DEGL_from_SPATIAL_MODULI", t3, HF1);
  conv<TO::DTAU_DF, TO::DS_DF, N>("DTAU_DF_from_DS_DF", t3, HF1);
  conv<TO::DTAU_DF, TO::C_TAU_JAUMANN, N>("DTAU_DF_from_C_TAU_JAUMANN", t3, HF1);
  conv<TO::DTAU_DF, TO::ABAQUS, N>("DTAU_DF_from_ABAQUS", t3, HF1);
  conv<TO::DTAU_DF, TO::SPATIAL_MODULI, N>("DTAU_DF_from_SPATIAL_MODULI", t3, HF1);
  // 3D: the composite DS_DEGL -> SPATIAL_MODULI -> DTAU_DF -> DSIG_DF (each step proved on its own, in 3D too) costs
  // ~35 CPU-s per component x 54 components: execution only
  conv<TO::DSIG_DF, TO::DS_DEGL, N>("DSIG_DF_from_DS_DEGL", t3, HF1, N != 3);
  conv<TO::DSIG_DF, TO::C_TRUESDELL, N>("DSIG_DF_from_C_TRUESDELL", t3, HF1);
  conv<TO::DSIG_DF, TO::ABAQUS, N>("DSIG_DF_from_ABAQUS", t3, HF1);
  conv<TO::DPK1_DF, TO::DSIG_DF, N>("DPK1_DF_from_DSIG_DF", t3, HF1);
  conv<TO::DTAU_DF, TO::DPK1_DF, N>("DTAU_DF_from_DPK1_DF", t3, HF1);
  conv<TO::DSIG_DF, TO::DPK1_DF, N>("DSIG_DF_from_DPK1_DF", t3, HF1);
  conv<TO::DPK1_DF, TO::DS_DEGL, N>("DPK1_DF_from_DS_DEGL", t3, HF1);
}

template <unsigned short N>
void reg_roundtrips() {  // inverse pairs
  constexpr int t3 = (N == 3 ? 1 : 0);
  roundtrip<TO::DS_DC, TO::DS_DEGL, N>("rt_DS_DEGL_DS_DC", 0, "");
  roundtrip<TO::SPATIAL_MODULI, TO::C_TRUESDELL, N>("rt_C_TRUESDELL_SPATIAL_MODULI", 0, HF1);
  roundtrip<TO::C_TAU_JAUMANN, TO::SPATIAL_MODULI, N>("rt_SPATIAL_MODULI_C_TAU_JAUMANN", 0, "");
  roundtrip<TO::ABAQUS, TO::SPATIAL_MODULI, N>("rt_SPATIAL_MODULI_ABAQUS", 0, HF1);
  roundtrip<TO::ABAQUS, TO::C_TAU_JAUMANN, N>("rt_C_TAU_JAUMANN_ABAQUS", 0, HF1);
  roundtrip<TO::DSIG_DDF, TO::DSIG_DF, N>("rt_DSIG_DF_DSIG_DDF", t3, HF0);
  roundtrip<TO::DTAU_DDF, TO::DTAU_DF, N>("rt_DTAU_DF_DTAU_DDF", t3, HF0);
  // 3D: push-forward by F then by F^-1 (both converters proved on their own, in 3D too); the identity needs
  // F^-1 F = I under a degree-8 polynomial, ~550 CPU-s per component x 36 components: execution only
  roundtrip<TO::SPATIAL_MODULI, TO::DS_DEGL, N>("rt_DS_DEGL_SPATIAL_MODULI", t3, HF1, N != 3);
  roundtrip<TO::DTAU_DF, TO::C_TAU_JAUMANN, N>("rt_C_TAU_JAUMANN_DTAU_DF", t3, HF1);
  roundtrip<TO::DTAU_DF, TO::SPATIAL_MODULI, N>("rt_SPATIAL_MODULI_DTAU_DF", t3, HF1);
}

int main(int argc, char** argv) {
#if TT_GROUP == 0
  reg_stress<TT_N>();
#elif TT_GROUP == 1
  reg_conv_a<TT_N>();
  reg_dtdelog<TT_N>();
#elif TT_GROUP == 2
  reg_conv_b<TT_N>();
#else
  reg_roundtrips<TT_N>();
#endif
  return tracer_main(argc, argv, "Require Import TensorIndex TensorTactics C23Spec C23Tactics.\n");
}

// C15: tracer (engine S, path enumeration) and driver for tfel::math::geometricDiscretization of /repo.
//   trace gen <out.v> <seed> : complete decision trees for n = 1..8 (loop unrolled by execution) + Sym-vs-double agreement
//   trace run                : reads "xb xe db de n" per line, prints the nodes produced by the real code (double)
#include "symtfel.hxx"
#include <vector>
#include <cstring>
#include <iostream>
#include "TFEL/Math/Discretization1D.hxx"

using namespace symv;

template <typename T>
std::vector<T> run(const T xb, const T xe, const T db, const T de, const size_t n) {
  std::vector<T> v;
  tfel::math::geometricDiscretization(v, xb, xe, db, de, n);
  return v;
}

int main(int argc, char** argv) {
  if (argc >= 4 && !std::strcmp(argv[1], "gen")) {
    Trace tr("C15_gen");
    Rng rng(std::strtoull(argv[3], nullptr, 10));
    Sym xb = var("xb"), xe = var("xe"), db = var("db"), de = var("de");
    std::vector<Sym> ps{xb, xe, db, de};
    for (size_t n = 1; n <= 8; ++n) {
      auto leaves = tr.def_paths("geo_gen_" + std::to_string(n), ps, [&] { return run<Sym>(xb, xe, db, de, n); });
      std::printf("LEAVES n=%zu %zu\n", n, leaves.size());
      for (int i = 0; i < 150; ++i) {
        double b = rng.range(-3, 3), l = rng.range(0.2, 4) * (rng.below(2) ? 1 : -1);
        double d1 = rng.range(0.01, 1), d2 = (i % 3 == 0) ? d1 * (1 + rng.range(-1, 1) * 1e-6) : rng.range(0.01, 1);
        if (i % 10 == 0) d2 = d1;
        Env env{{"xb", b}, {"xe", b + l}, {"db", d1}, {"de", d2}};
        std::vector<long double> r;
        std::string err;
        if (!eval_leaves(leaves, env, r, &err) || !err.empty()) {
          std::printf("AGREE-FAIL n=%zu no leaf / throws\n", n);
          continue;
        }
        auto d = run<double>(b, b + l, d1, d2, n);
        bool ok = d.size() == r.size();
        for (size_t k = 0; ok && k < d.size(); ++k) ok = close(r[k], d[k], std::fabs(b) + std::fabs(l), 1e-10L);
        std::printf("%s n=%zu xb=%.17g xe=%.17g db=%.17g de=%.17g\n", ok ? "AGREE" : "AGREE-FAIL", n, b, b + l, d1, d2);
      }
    }
    tr.write(argv[2]);
    return 0;
  }
  if (argc >= 2 && !std::strcmp(argv[1], "run")) {
    double xb, xe, db, de;
    unsigned long n;
    while (std::cin >> xb >> xe >> db >> de >> n) {
      try {
        auto v = run<double>(xb, xe, db, de, n);
        std::printf("V %zu", v.size());
        for (double x : v) std::printf(" %.17g", x);
        std::printf("\n");
      } catch (std::exception& e) {
        std::printf("E %s\n", e.what());
      }
    }
    return 0;
  }
  std::fprintf(stderr, "usage: trace gen <out.v> <seed> | trace run < cases\n");
  return 2;
}

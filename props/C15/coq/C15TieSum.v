(* C15 -- tie: the decision trees regenerated from /repo for n = 1..4 are the model with rf = 1/(1 + r + ... + r^(n-1)) in the branch |r-1| <= 1e-5 (code after the fix of finding F4) *)
From Coq Require Import Reals List Lra Lia Psatz PeanoNat.
From C15 Require Import C15Spec C15Model C15Proofs C15_gen.
Import ListNotations.
Local Open Scope R_scope.

Ltac nzl := first [assumption | lra | nra |
  match goal with H : ~ Rabs ?x < ?p |- ?x <> 0 => let E := fresh in intro E; apply H; rewrite E, Rabs_R0; lra end].
Lemma gsum_1 r : gsum r 1 = 1. Proof. simpl; ring. Qed.
Lemma gsum_2 r : gsum r 2 = 1 + r. Proof. simpl; ring. Qed.
Lemma gsum_3 r : gsum r 3 = 1 + r + r * r. Proof. simpl; ring. Qed.
Lemma gsum_4 r : gsum r 4 = 1 + r + r * r + r * r * r. Proof. simpl; ring. Qed.
Lemma gsum_5 r : gsum r 5 = 1 + r + r * r + r * r * r + r * r * r * r. Proof. simpl; ring. Qed.
Lemma gsum_6 r : gsum r 6 = 1 + r + r * r + r * r * r + r * r * r * r + r * r * r * r * r. Proof. simpl; ring. Qed.
Lemma gsum_7 r : gsum r 7 = 1 + r + r * r + r * r * r + r * r * r * r + r * r * r * r * r + r * r * r * r * r * r. Proof. simpl; ring. Qed.
Lemma gsum_8 r : gsum r 8 = 1 + r + r * r + r * r * r + r * r * r * r + r * r * r * r * r + r * r * r * r * r * r + r * r * r * r * r * r * r. Proof. simpl; ring. Qed.
Ltac req_n n := lazymatch n with
  | O => fail
  | S ?k => first [reflexivity | (field; repeat split; nzl) | (progress f_equal; req_n k)]
  end.
Ltac req := req_n 6%nat.
Lemma lt_eq a b c d : a < b -> c = a -> d = b -> c < d.
Proof. intros; subst; assumption. Qed.
Ltac contra := exfalso; match goal with H1 : ?a < ?b, H2 : ~ ?c < ?d |- _ => apply H2; apply (lt_eq a b c d H1); req end.
(* canonical spelling: sub-terms under sqrt and the ratio r are unified up to field equalities, so that the tie does not
   depend on how the C++ spells them *)
Ltac unify_sqrt := repeat match goal with |- context [sqrt ?M1] => match goal with |- context [sqrt ?M2] =>
   tryif constr_eq M1 M2 then fail else (replace M2 with M1 by (field; repeat split; nzl)) end end.
Ltac unify_r := repeat match goal with |- context [Rabs (?A1 - 1)] => match goal with |- context [Rabs (?A2 - 1)] =>
   tryif constr_eq A1 A2 then fail else (replace A2 with A1 by (field; repeat split; nzl)) end end.
Ltac split_nosqrt_test :=
  match goal with |- context [if ?c then _ else _] =>
    lazymatch c with context [sqrt _] => fail | context [if _ then _ else _] => fail | _ => destruct c end end.
(* the ratio r (a large expression with a square root) is made an opaque atom before the nodes are compared: the node
   equations are then polynomial identities in xb, r and the first element length (ring) *)
Ltac abstract_r := try match goal with H : context [Rabs (?A - 1)] |- _ => let rr := fresh "rr" in set (rr := A) in * end.
Ltac tie := intros;
  match goal with |- _ = geo_model _ _ ?xb ?xe ?db ?de _ =>
    generalize (ratio_pos xb xe db de); destruct (Req_dec (xe - xb) 0) end;
  unfold geo_model, ratio, rfu_sum; cbv zeta; rewrite ?gsum_1, ?gsum_2, ?gsum_3, ?gsum_4, ?gsum_5, ?gsum_6, ?gsum_7, ?gsum_8;
  cbn [loop set_last removelast app INR];
  [ match goal with H : _ = 0 |- _ => rewrite !H, !Rabs_R0 end; intros _; destruct (Rlt_dec 0 _); [reflexivity | exfalso; lra]
  | repeat split_nosqrt_test; unify_sqrt; unify_r; repeat split_simple_test; intros Hrpos; try discriminate; try lia; abstract_r;
    first [reflexivity | (apply f_equal; list_eq ltac:(idtac; req)) | contra] ].

Definition the_prec := 22250738585072014 / 10 ^ 322.
Lemma tie_1 xb xe db de : geo_gen_1 xb xe db de = geo_model the_prec rfu_sum xb xe db de 1.
Proof. unfold geo_gen_1, the_prec. tie. Qed.
Lemma tie_2 xb xe db de : geo_gen_2 xb xe db de = geo_model the_prec rfu_sum xb xe db de 2.
Proof. unfold geo_gen_2, the_prec. tie. Qed.
Lemma tie_3 xb xe db de : geo_gen_3 xb xe db de = geo_model the_prec rfu_sum xb xe db de 3.
Proof. unfold geo_gen_3, the_prec. tie. Qed.
Lemma tie_4 xb xe db de : geo_gen_4 xb xe db de = geo_model the_prec rfu_sum xb xe db de 4.
Proof. unfold geo_gen_4, the_prec. tie. Qed.

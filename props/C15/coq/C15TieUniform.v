(* C15 -- tie: the decision trees regenerated from /repo for n = 1..4 are the model with rf = 1/n in the branch |r-1| <= 1e-5 *)
From Coq Require Import Reals List Lra Lia PeanoNat.
From C15 Require Import C15Spec C15Model C15Proofs C15_gen.
Import ListNotations.
Local Open Scope R_scope.

Ltac tie := intros; unfold geo_model, ratio, rfu_uniform; cbv zeta;
  cbn [loop set_last removelast app INR];
  repeat split_simple_test; try discriminate; try lia;
  first [reflexivity | apply f_equal; list_eq ltac:(field; repeat split; try assumption; try lra)].

Definition the_prec := 22250738585072014 / 10 ^ 322.
Lemma tie_1 xb xe db de : geo_gen_1 xb xe db de = geo_model the_prec rfu_uniform xb xe db de 1.
Proof. unfold geo_gen_1, the_prec. tie. Qed.
Lemma tie_2 xb xe db de : geo_gen_2 xb xe db de = geo_model the_prec rfu_uniform xb xe db de 2.
Proof. unfold geo_gen_2, the_prec. tie. Qed.
Lemma tie_3 xb xe db de : geo_gen_3 xb xe db de = geo_model the_prec rfu_uniform xb xe db de 3.
Proof. unfold geo_gen_3, the_prec. tie. Show. Qed.
Lemma tie_4 xb xe db de : geo_gen_4 xb xe db de = geo_model the_prec rfu_uniform xb xe db de 4.
Proof. unfold geo_gen_4, the_prec. tie. Qed.

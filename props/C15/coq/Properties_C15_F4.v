(* C15 -- property theorems for a tree in which finding F4 (rf = 1/n for |r-1| <= 1e-5) is present *)
From Coq Require Import Reals List.
From C15 Require Import C15Spec C15Model C15Proofs C15_gen C15TieUniform.
Import ListNotations.
Local Open Scope R_scope.

(* tie: the decision trees regenerated from /repo (loop unrolled by execution for n = 1..4) are the model *)
Theorem C15_tie_n1 : forall xb xe db de, geo_gen_1 xb xe db de = geo_model the_prec rfu_uniform xb xe db de 1.
Proof. exact tie_1. Qed.
Print Assumptions C15_tie_n1.
Theorem C15_tie_n2 : forall xb xe db de, geo_gen_2 xb xe db de = geo_model the_prec rfu_uniform xb xe db de 2.
Proof. exact tie_2. Qed.
Print Assumptions C15_tie_n2.
Theorem C15_tie_n3 : forall xb xe db de, geo_gen_3 xb xe db de = geo_model the_prec rfu_uniform xb xe db de 3.
Proof. exact tie_3. Qed.
Print Assumptions C15_tie_n3.
Theorem C15_tie_n4 : forall xb xe db de, geo_gen_4 xb xe db de = geo_model the_prec rfu_uniform xb xe db de 4.
Proof. exact tie_4. Qed.
Print Assumptions C15_tie_n4.

(* pinned tree (finding F4 present): the property is proved in the geometric branch (|r-1| > 1e-5) and for equal densities *)
Theorem C15_graded_mesh_geometric_branch : forall prec xb xe db de n v, 0 < prec ->
  geo_model prec rfu_uniform xb xe db de n = Some v -> 1 / 100000 < Rabs (ratio xb xe db de - 1) -> graded_mesh xb xe n v.
Proof. intros prec; exact (model_mesh_geometric prec rfu_uniform). Qed.
Print Assumptions C15_graded_mesh_geometric_branch.
Theorem C15_graded_mesh_equal_densities : forall prec xb xe d n v, 0 < prec ->
  geo_model prec rfu_uniform xb xe d d n = Some v -> graded_mesh xb xe n v.
Proof. exact model_mesh_uniform. Qed.
Print Assumptions C15_graded_mesh_equal_densities.

(* C15 -- lemmas about the model, for every n (induction) *)
From Coq Require Import Reals List Lra Lia Psatz.
From C15 Require Import C15Spec C15Model.
Import ListNotations.
Local Open Scope R_scope.

Lemma loop_length k xb f r re s : length (loop k xb f r re s) = k.
Proof. revert re s. induction k; intros; simpl; auto. Qed.

Lemma gsum_shift r k : gsum r (S k) = 1 + r * gsum r k.
Proof.
  induction k. simpl; ring. change (gsum r (S (S k))) with (gsum r (S k) + r ^ (S k)). rewrite IHk at 1.
  change (gsum r (S k)) with (gsum r k + r ^ k). simpl. ring.
Qed.

Lemma loop_nth m : forall k xb f r re s, (k < m)%nat -> nth k (loop m xb f r re s) 0 = xb + (s + f * re * gsum r (S k)).
Proof.
  induction m; intros k xb f r re s Hk; [lia|].
  destruct k.
  - simpl. ring.
  - cbn [loop nth]. rewrite IHm by lia. rewrite (gsum_shift r (S k)). ring.
Qed.

Lemma gsum_pos r k : 0 < r -> 0 < gsum r (S k).
Proof. intros Hr. induction k. simpl; lra. change (gsum r (S (S k))) with (gsum r (S k) + r ^ (S k)). pose proof (pow_lt r (S k) Hr). lra. Qed.

Lemma gsum_closed r k : (1 - r) * gsum r k = 1 - r ^ k.
Proof. induction k. simpl; ring. simpl. ring_simplify. ring_simplify in IHk. lra. Qed.

Lemma gsum_one k : gsum 1 k = INR k.
Proof. induction k. reflexivity. rewrite S_INR. simpl gsum. rewrite IHk, pow1. ring. Qed.

(* nodes of the model: index k <= n-1 comes from the loop, index n is overwritten by xe *)
Lemma set_last_nth (v : list R) x k : v <> [] -> (k < length v)%nat ->
  nth k (set_last v x) 0 = if Nat.eq_dec k (pred (length v)) then x else nth k v 0.
Proof.
  intros Hv Hk. unfold set_last.
  assert (Hl : length (removelast v) = pred (length v)).
  { pose proof (app_removelast_last 0 Hv) as E. apply (f_equal (@length R)) in E. rewrite app_length in E. simpl in E. lia. }
  destruct (Nat.eq_dec k (pred (length v))) as [E|E].
  - rewrite app_nth2 by lia. rewrite Hl, E, Nat.sub_diag. reflexivity.
  - rewrite app_nth1 by lia. pose proof (app_removelast_last 0 Hv) as E2. rewrite E2 at 2. rewrite app_nth1 by lia. reflexivity.
Qed.
Lemma set_last_length (v : list R) x : v <> [] -> length (set_last v x) = length v.
Proof.
  intros Hv. unfold set_last. rewrite app_length. pose proof (app_removelast_last 0 Hv) as E.
  apply (f_equal (@length R)) in E. rewrite app_length in E. simpl in *. lia.
Qed.

Lemma nodes_of_model n xb f r xe k : (k <= n)%nat -> xe = xb + f * gsum r n ->
  node (set_last (xb :: loop n xb f r 1 0) xe) k = xb + f * gsum r k.
Proof.
  intros Hk Hxe. unfold node. rewrite set_last_nth; [|discriminate|simpl; rewrite loop_length; lia].
  simpl length. rewrite loop_length. simpl pred.
  destruct (Nat.eq_dec k n) as [E|E]; [subst k; exact Hxe|].
  destruct k; [simpl; ring|]. cbn [nth]. rewrite loop_nth by lia. ring.
Qed.

(* the mesh is right as soon as f * sum_{i<n} r^i = xe - xb *)
Lemma mesh_of_exact_sum n xb xe f r : (0 < n)%nat -> 0 < r -> xe - xb <> 0 -> f * gsum r n = xe - xb ->
  graded_mesh xb xe n (set_last (xb :: loop n xb f r 1 0) xe).
Proof.
  intros Hn Hr Hl Hf. assert (Hxe : xe = xb + f * gsum r n) by lra.
  assert (Hlen : length (set_last (xb :: loop n xb f r 1 0) xe) = S n).
  { rewrite set_last_length by discriminate. simpl. rewrite loop_length. reflexivity. }
  assert (Hg : 0 < gsum r n) by (destruct n; [lia|apply gsum_pos; assumption]).
  assert (Hfl : 0 < (xe - xb) * f).
  { assert (f = (xe - xb) / gsum r n) by (field_simplify_eq; lra). subst f.
    replace ((xe - xb) * ((xe - xb) / gsum r n)) with ((xe - xb) * (xe - xb) * / gsum r n) by (field; lra).
    apply Rmult_lt_0_compat; [|apply Rinv_0_lt_compat; assumption].
    destruct (Rtotal_order (xe - xb) 0) as [H|[H|H]]; nra. }
  split; [|split].
  - split; [assumption|]. split.
    + rewrite nodes_of_model by (auto; lia). simpl. ring.
    + rewrite nodes_of_model by (auto; lia). lra.
  - intros k Hk. rewrite Hlen in Hk. rewrite !nodes_of_model by (auto; lia).
    change (gsum r (S k)) with (gsum r k + r ^ k). pose proof (pow_lt r k Hr).
    replace ((xe - xb) * (xb + f * (gsum r k + r ^ k) - (xb + f * gsum r k))) with ((xe - xb) * f * r ^ k) by ring.
    apply Rmult_lt_0_compat; assumption.
  - exists r. split; [assumption|]. intros k Hk. rewrite Hlen in Hk. rewrite !nodes_of_model by (auto; lia).
    change (gsum r (S (S k))) with (gsum r k + r ^ k + r ^ (S k)). change (gsum r (S k)) with (gsum r k + r ^ k). simpl. ring.
Qed.

Lemma ratio_pos xb xe db de : 0 < ratio xb xe db de.
Proof.
  unfold ratio. cbv zeta. set (x := 1 / 2 * (db / (xe - xb) - de / (xe - xb)) * (db / (xe - xb) - de / (xe - xb))).
  assert (Hx : 0 <= x) by (unfold x; pose proof (Rle_0_sqr (db / (xe - xb) - de / (xe - xb))) as H; unfold Rsqr in H; lra).
  assert (H0 : 0 <= x * (2 + x)) by nra.
  pose proof (sqrt_pos (x * (2 + x))) as Hs.
  destruct (Rlt_dec _ _); [|lra].
  assert (sqrt (x * (2 + x)) < 1 + x); [|lra].
  rewrite <- (sqrt_square (1 + x)) by lra. apply sqrt_lt_1_alt. nra.
Qed.

Lemma pow_ne_1 r n : 0 < r -> r <> 1 -> (0 < n)%nat -> r ^ n <> 1.
Proof.
  intros Hr Hne Hn. destruct (Rlt_dec r 1).
  - assert (r ^ n < 1); [|lra]. destruct n; [lia|]. clear Hn. induction n; simpl in *; nra.
  - assert (1 < r ^ n); [|lra]. apply Rlt_pow_R1; [lra|assumption].
Qed.

Section Model.
  Variable prec : R.
  Hypothesis prec_pos : 0 < prec.
  Variable rfu : R -> nat -> R.

  (* every mesh produced through the geometric branch, and through the other branch whenever rfu r n = 1/sum r^i *)
  Lemma model_mesh xb xe db de n v : geo_model prec rfu xb xe db de n = Some v ->
    (1 / 100000 < Rabs (ratio xb xe db de - 1) \/ rfu (ratio xb xe db de) n * gsum (ratio xb xe db de) n = 1) ->
    graded_mesh xb xe n v.
  Proof.
    unfold geo_model. cbv zeta. intros H Hb.
    destruct (Rlt_dec (Rabs (xe - xb)) prec) as [|Hl]; [discriminate|].
    destruct (Rlt_dec (Rabs db) prec); [discriminate|]. destruct (Rlt_dec (Rabs de) prec); [discriminate|].
    destruct (Nat.eq_dec n 0) as [|Hn]; [discriminate|]. injection H as H. subst v.
    pose proof (ratio_pos xb xe db de) as Hr. set (r := ratio xb xe db de) in *.
    assert (Hlz : xe - xb <> 0) by (intros E; rewrite E, Rabs_R0 in Hl; lra).
    apply mesh_of_exact_sum; [lia|assumption|assumption|].
    destruct (Rlt_dec (1 / 100000) (Rabs (r - 1))) as [Hg|Hu].
    - assert (Hne : r <> 1) by (intros E; rewrite E in Hg; replace (1 - 1) with 0 in Hg by ring; rewrite Rabs_R0 in Hg; lra).
      pose proof (pow_ne_1 r n Hr Hne ltac:(lia)) as Hp.
      pose proof (gsum_closed r n) as Hc.
      replace ((1 - r) / (1 - r ^ n) * (xe - xb) * gsum r n) with (((1 - r) * gsum r n) / (1 - r ^ n) * (xe - xb)) by (field; lra).
      rewrite Hc. field. lra.
    - destruct Hb as [Hb|Hb]; [contradiction|].
      replace (rfu r n * (xe - xb) * gsum r n) with ((rfu r n * gsum r n) * (xe - xb)) by ring. rewrite Hb. ring.
  Qed.
End Model.

(* tie tactics: the regenerated tree for a given n equals the model *)
Lemma cons_eq (x y : R) l m : x = y -> l = m -> x :: l = y :: m.
Proof. intros; subst; reflexivity. Qed.
Ltac list_eq tac := repeat (first [reflexivity | apply cons_eq; [first [reflexivity | ring | (unfold Rdiv; ring) | tac] |]]).
Ltac split_simple_test :=
  match goal with |- context [if ?c then _ else _] =>
    lazymatch c with context [if _ then _ else _] => fail | _ => destruct c end end.

(* the three uses of model_mesh *)
Lemma model_none_n0 prec rfu xb xe db de : geo_model prec rfu xb xe db de 0 = None.
Proof. unfold geo_model. cbv zeta. repeat (destruct (Rlt_dec _ _); [reflexivity|]). reflexivity. Qed.

Lemma model_mesh_sum prec xb xe db de n v : 0 < prec -> geo_model prec rfu_sum xb xe db de n = Some v -> graded_mesh xb xe n v.
Proof.
  intros Hp H. destruct n as [|n]; [rewrite model_none_n0 in H; discriminate|].
  apply (model_mesh prec Hp rfu_sum xb xe db de (S n) v H). right.
  pose proof (gsum_pos (ratio xb xe db de) n (ratio_pos xb xe db de)). unfold rfu_sum. field. lra.
Qed.

Lemma model_mesh_geometric prec rfu xb xe db de n v : 0 < prec -> geo_model prec rfu xb xe db de n = Some v ->
  1 / 100000 < Rabs (ratio xb xe db de - 1) -> graded_mesh xb xe n v.
Proof. intros Hp H Hg. apply (model_mesh prec Hp rfu xb xe db de n v H). left. assumption. Qed.

Lemma ratio_equal_densities xb xe d : ratio xb xe d d = 1.
Proof.
  unfold ratio. cbv zeta. replace (1 / 2 * (d / (xe - xb) - d / (xe - xb)) * (d / (xe - xb) - d / (xe - xb))) with 0 by ring.
  replace (0 * (2 + 0)) with 0 by ring. rewrite sqrt_0. destruct (Rlt_dec _ _); ring.
Qed.

Lemma model_mesh_uniform prec xb xe d n v : 0 < prec -> geo_model prec rfu_uniform xb xe d d n = Some v -> graded_mesh xb xe n v.
Proof.
  intros Hp H. destruct n as [|n]; [rewrite model_none_n0 in H; discriminate|].
  apply (model_mesh prec Hp rfu_uniform xb xe d d (S n) v H). right.
  rewrite ratio_equal_densities, gsum_one. unfold rfu_uniform. field. apply not_0_INR. lia.
Qed.

(* ---- one iteration of each loop: the fold `loop` applies `node_step` at every position, and running it one more time
   appends one node obtained by `node_step` from the state reached after k iterations; the geometric sum of the code's
   second loop (`sum_loop`, state (sum, rn)) is `gsum` *)
Lemma loop_applies_node_step k xb f r re s :
  loop (S k) xb f r re s = fst (node_step xb f r (re, s)) :: loop k xb f r (fst (snd (node_step xb f r (re, s)))) (snd (snd (node_step xb f r (re, s)))).
Proof. reflexivity. Qed.

Lemma loop_extends_by_one_step k : forall xb f r re s,
  loop (S k) xb f r re s = loop k xb f r re s ++ [fst (node_step xb f r (node_state f r k re s))].
Proof.
  induction k; intros xb f r re s.
  - unfold node_state, node_step. simpl. apply cons_eq; [ring|reflexivity].
  - change (loop (S (S k)) xb f r re s) with ((xb + (s + f * re)) :: loop (S k) xb f r (re * r) (s + f * re)).
    rewrite IHk. change (loop (S k) xb f r re s) with ((xb + (s + f * re)) :: loop k xb f r (re * r) (s + f * re)).
    rewrite <- app_comm_cons. f_equal. f_equal. f_equal. unfold node_state, node_step. cbn [fst snd].
    rewrite (gsum_shift r k). simpl pow. ring.
Qed.

Lemma sum_loop_state k : forall r sum rn, sum_loop k r (sum, rn) = (sum + rn * gsum r k, rn * r ^ k).
Proof.
  induction k; intros r sum rn.
  - simpl. f_equal; ring.
  - change (sum_loop (S k) r (sum, rn)) with (sum_loop k r (sum + rn, rn * r)). rewrite IHk, (gsum_shift r k). simpl pow. f_equal; ring.
Qed.
Lemma sum_loop_is_gsum n r : fst (sum_loop n r (0, 1)) = gsum r n.
Proof. rewrite sum_loop_state. simpl. ring. Qed.
Lemma sum_loop_extends_by_one_step k r st : sum_loop (S k) r st = sum_step r (sum_loop k r st).
Proof.
  revert st. induction k; intros st; [reflexivity|].
  change (sum_loop (S (S k)) r st) with (sum_loop (S k) r (sum_step r st)). rewrite IHk. reflexivity.
Qed.

(* ---- orientation: the mesh goes from xb towards xe whatever the sign of xe - xb, and stays between the two ends *)
Lemma mesh_oriented xb xe n v : graded_mesh xb xe n v -> oriented xb xe v.
Proof.
  intros [_ [Hm _]]. split; intros Hl k Hk; specialize (Hm k Hk); nra.
Qed.

Lemma mono_chain_up (v : list R) : (forall k, (S k < length v)%nat -> node v k < node v (S k)) ->
  forall j k, (j <= k)%nat -> (k < length v)%nat -> node v j <= node v k.
Proof.
  intros H j k Hjk. induction Hjk; intros Hk; [lra|]. specialize (IHHjk ltac:(lia)). specialize (H m Hk). lra.
Qed.
Lemma mono_chain_down (v : list R) : (forall k, (S k < length v)%nat -> node v (S k) < node v k) ->
  forall j k, (j <= k)%nat -> (k < length v)%nat -> node v k <= node v j.
Proof.
  intros H j k Hjk. induction Hjk; intros Hk; [lra|]. specialize (IHHjk ltac:(lia)). specialize (H m Hk). lra.
Qed.

Lemma mesh_between xb xe n v : graded_mesh xb xe n v -> between_ends xb xe v.
Proof.
  intros G. pose proof (mesh_oriented _ _ _ _ G) as [Hup Hdn]. destruct G as [[Hlen [H0 Hn]] [Hm _]].
  intros k Hk. rewrite Hlen in Hk.
  destruct (Rtotal_order xb xe) as [Hl|[Hl|Hl]].
  - rewrite Rmin_left, Rmax_right by lra. specialize (Hup Hl).
    pose proof (mono_chain_up v Hup 0 k ltac:(lia) ltac:(lia)). pose proof (mono_chain_up v Hup k n ltac:(lia) ltac:(lia)). lra.
  - destruct n.
    + assert (k = 0)%nat by lia. subst k. rewrite H0. rewrite Rmin_left, Rmax_right by lra. lra.
    + exfalso. specialize (Hm 0%nat ltac:(lia)). rewrite Hl in Hm. nra.
  - rewrite Rmin_right, Rmax_left by lra. specialize (Hdn Hl).
    pose proof (mono_chain_down v Hdn 0 k ltac:(lia) ltac:(lia)). pose proof (mono_chain_down v Hdn k n ltac:(lia) ltac:(lia)). lra.
Qed.

Lemma model_mesh_oriented prec xb xe db de n v : 0 < prec ->
  geo_model prec rfu_sum xb xe db de n = Some v -> oriented xb xe v /\ between_ends xb xe v.
Proof. intros Hp H. pose proof (model_mesh_sum prec xb xe db de n v Hp H) as G. exact (conj (mesh_oriented _ _ _ _ G) (mesh_between _ _ _ _ G)). Qed.
Lemma sum_loop_rfu n r : fst (sum_loop n r (0, 1)) = gsum r n /\ rfu_sum r n = 1 / fst (sum_loop n r (0, 1)).
Proof. split; [apply sum_loop_is_gsum|unfold rfu_sum; rewrite sum_loop_is_gsum; reflexivity]. Qed.

(* C15 -- property theorems (statements only): tie for larger n *)
From Coq Require Import Reals List.
From C15 Require Import C15Spec C15Model C15Proofs C15_gen C15TieSum C15Tie5.
Import ListNotations.
Local Open Scope R_scope.

Theorem C15_tie_n5 : forall xb xe db de, geo_gen_5 xb xe db de = geo_model the_prec rfu_sum xb xe db de 5.
Proof. exact tie_5. Qed.
Print Assumptions C15_tie_n5.

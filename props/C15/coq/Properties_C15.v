(* C15 -- property theorems (statements only) *)
From Coq Require Import Reals List.
From C15 Require Import C15Spec C15Model C15Proofs C15_gen C15TieSum.
Import ListNotations.
Local Open Scope R_scope.

(* tie: the decision trees regenerated from /repo (loop unrolled by execution for n = 1..4) are the model *)
Theorem C15_tie_n1 : forall xb xe db de, geo_gen_1 xb xe db de = geo_model the_prec rfu_sum xb xe db de 1.
Proof. exact tie_1. Qed.
Print Assumptions C15_tie_n1.
Theorem C15_tie_n2 : forall xb xe db de, geo_gen_2 xb xe db de = geo_model the_prec rfu_sum xb xe db de 2.
Proof. exact tie_2. Qed.
Print Assumptions C15_tie_n2.
Theorem C15_tie_n3 : forall xb xe db de, geo_gen_3 xb xe db de = geo_model the_prec rfu_sum xb xe db de 3.
Proof. exact tie_3. Qed.
Print Assumptions C15_tie_n3.
Theorem C15_tie_n4 : forall xb xe db de, geo_gen_4 xb xe db de = geo_model the_prec rfu_sum xb xe db de 4.
Proof. exact tie_4. Qed.
Print Assumptions C15_tie_n4.

(* every n, every interval, every pair of densities: whenever a mesh is returned it has n+1 nodes from xb to xe, strictly
   monotone, with a constant ratio r > 0 between consecutive element lengths *)
Theorem C15_graded_mesh : forall prec xb xe db de n v, 0 < prec ->
  geo_model prec rfu_sum xb xe db de n = Some v -> graded_mesh xb xe n v.
Proof. exact model_mesh_sum. Qed.
Print Assumptions C15_graded_mesh.

(* both orientations: the mesh is strictly increasing when xb < xe and strictly decreasing when xe < xb (the first element has
   the sign of xe - xb), and every node lies between the two ends (no node moves away from xe) *)
Theorem C15_mesh_oriented : forall prec xb xe db de n v, 0 < prec ->
  geo_model prec rfu_sum xb xe db de n = Some v -> oriented xb xe v /\ between_ends xb xe v.
Proof. exact model_mesh_oriented. Qed.
Print Assumptions C15_mesh_oriented.

(* one iteration of each loop of the code, with the loop state explicit: the fold of the model applies `node_step` at every
   position; running the node loop one more time appends the node obtained by `node_step` from the state (re, s) reached
   after k iterations and leaves the first k nodes unchanged; same for the geometric-sum loop of the near-uniform branch,
   whose result is the sum the model uses *)
Theorem C15_node_loop_applies_step : forall k xb f r re s,
  loop (S k) xb f r re s = fst (node_step xb f r (re, s)) :: loop k xb f r (fst (snd (node_step xb f r (re, s)))) (snd (snd (node_step xb f r (re, s)))).
Proof. exact loop_applies_node_step. Qed.
Print Assumptions C15_node_loop_applies_step.
Theorem C15_node_loop_extends_by_one_step : forall k xb f r re s,
  loop (S k) xb f r re s = loop k xb f r re s ++ [fst (node_step xb f r (node_state f r k re s))].
Proof. exact loop_extends_by_one_step. Qed.
Print Assumptions C15_node_loop_extends_by_one_step.
Theorem C15_sum_loop_extends_by_one_step : forall k r st, sum_loop (S k) r st = sum_step r (sum_loop k r st).
Proof. exact sum_loop_extends_by_one_step. Qed.
Print Assumptions C15_sum_loop_extends_by_one_step.
Theorem C15_sum_loop_is_geometric_sum : forall n r, fst (sum_loop n r (0, 1)) = gsum r n /\ rfu_sum r n = 1 / fst (sum_loop n r (0, 1)).
Proof. exact sum_loop_rfu. Qed.
Print Assumptions C15_sum_loop_is_geometric_sum.

(* C15 -- property theorems (statements only) *)
From Coq Require Import Reals List.
From C15 Require Import C15Spec C15Model C15Proofs C15_gen C15TieSum.
Import ListNotations.
Local Open Scope R_scope.

(* tie: the decision trees regenerated from /repo (loop unrolled by execution for n = 1..4) are the model *)
Theorem C15_tie_n1 : forall xb xe db de, geo_gen_1 xb xe db de = geo_model the_prec rfu_sum xb xe db de 1.
Proof. exact tie_1. Qed.
Print Assumptions C15_tie_n1.
Theorem C15_tie_n2 : forall xb xe db de, geo_gen_2 xb xe db de = geo_model the_prec rfu_sum xb xe db de 2.
Proof. exact tie_2. Qed.
Print Assumptions C15_tie_n2.
Theorem C15_tie_n3 : forall xb xe db de, geo_gen_3 xb xe db de = geo_model the_prec rfu_sum xb xe db de 3.
Proof. exact tie_3. Qed.
Print Assumptions C15_tie_n3.
Theorem C15_tie_n4 : forall xb xe db de, geo_gen_4 xb xe db de = geo_model the_prec rfu_sum xb xe db de 4.
Proof. exact tie_4. Qed.
Print Assumptions C15_tie_n4.

(* every n, every interval, every pair of densities: whenever a mesh is returned it has n+1 nodes from xb to xe, strictly
   monotone, with a constant ratio r > 0 between consecutive element lengths *)
Theorem C15_graded_mesh : forall prec xb xe db de n v, 0 < prec ->
  geo_model prec rfu_sum xb xe db de n = Some v -> graded_mesh xb xe n v.
Proof. exact model_mesh_sum. Qed.
Print Assumptions C15_graded_mesh.

(* C15 -- tie for n = 8: the decision tree regenerated from /repo equals the model (code after the fix of finding F4) *)
From Coq Require Import Reals List Lra Lia Psatz PeanoNat.
From C15 Require Import C15Spec C15Model C15Proofs C15_gen C15TieSum.
Import ListNotations.
Local Open Scope R_scope.
Lemma tie_8 xb xe db de : geo_gen_8 xb xe db de = geo_model the_prec rfu_sum xb xe db de 8.
Proof. unfold geo_gen_8, the_prec. tie. Qed.

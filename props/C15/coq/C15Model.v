(* C15 -- hand-written model of tfel::math::geometricDiscretization (Discretization1D.ixx): the straight-line part is the
   one of the regenerated trees (tie lemmas for n = 1..4 in C15Proofs*.v), the loop over the nodes is the fold `loop`.
   `prec` is the threshold 100*DBL_MIN of the code, `rfu r n` the value of rf in the branch |r-1| <= 1e-5. Definitions only. *)
From Coq Require Import Reals List PeanoNat.
Import ListNotations.
Local Open Scope R_scope.

Definition ratio (xb xe db de : R) : R :=
  let l := xe - xb in let rdb := db / l in let rde := de / l in
  let x := 1 / 2 * (rdb - rde) * (rdb - rde) in
  if Rlt_dec rde rdb then 1 + x - sqrt (x * (2 + x)) else 1 + x + sqrt (x * (2 + x)).

(* for (; p != v.end(); ++p, re *= r) { s += f * re; *p = xb + s; } *)
Fixpoint loop (k : nat) (xb f r re s : R) : list R :=
  match k with
  | O => []
  | S k' => (xb + (s + f * re)) :: loop k' xb f r (re * r) (s + f * re)
  end.

(* v.back() = xe *)
Definition set_last (v : list R) (x : R) : list R := removelast v ++ [x].

(* sum_{i<k} r^i *)
Fixpoint gsum (r : R) (k : nat) : R := match k with O => 0 | S k' => gsum r k' + r ^ k' end.

Definition geo_model (prec : R) (rfu : R -> nat -> R) (xb xe db de : R) (n : nat) : option (list R) :=
  let l := xe - xb in
  if Rlt_dec (Rabs l) prec then None else
  if Rlt_dec (Rabs db) prec then None else
  if Rlt_dec (Rabs de) prec then None else
  if Nat.eq_dec n 0 then None else
  let r := ratio xb xe db de in
  let rf := if Rlt_dec (1 / 100000) (Rabs (r - 1)) then (1 - r) / (1 - r ^ n) else rfu r n in
  Some (set_last (xb :: loop n xb (rf * l) r 1 0) xe).

(* pinned tree: rf = 1/n *)
Definition rfu_uniform (r : R) (n : nat) : R := 1 / INR n.
(* after the fix of finding F4: rf = 1 / sum_{i<n} r^i *)
Definition rfu_sum (r : R) (n : nat) : R := 1 / gsum r n.

(* ---- the two loops of the code, one iteration at a time (loop state made explicit)
   node loop      for (; p != v.end(); ++p, re *= r) { s += f * re; *p = xb + s; }   state (re, s)
   geometric sum  for (i = 0; i != n; ++i, rn *= r) { sum += rn; }                   state (sum, rn) *)
Definition node_step (xb f r : R) (st : R * R) : R * (R * R) :=
  let s' := snd st + f * fst st in (xb + s', (fst st * r, s')).
Definition sum_step (r : R) (st : R * R) : R * R := (fst st + snd st, snd st * r).
Fixpoint sum_loop (k : nat) (r : R) (st : R * R) : R * R :=
  match k with O => st | S k' => sum_loop k' r (sum_step r st) end.
(* the state of the node loop after k iterations started from (re, s) *)
Definition node_state (f r : R) (k : nat) (re s : R) : R * R := (re * r ^ k, s + f * re * gsum r k).

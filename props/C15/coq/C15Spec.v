(* C15 -- specification of "an ordered graded mesh", written independently of the code. *)
From Coq Require Import Reals List Lra.
Import ListNotations.
Local Open Scope R_scope.

Definition node (v : list R) (k : nat) : R := nth k v 0.

(* n+1 nodes, the first one is xb, the last one is xe *)
Definition endpoints (xb xe : R) (n : nat) (v : list R) : Prop :=
  length v = S n /\ node v 0 = xb /\ node v n = xe.
(* strictly monotone from xb towards xe (increasing if xb < xe, decreasing if xe < xb) *)
Definition strictly_monotone (xb xe : R) (v : list R) : Prop :=
  forall k, (S k < length v)%nat -> 0 < (xe - xb) * (node v (S k) - node v k).
(* the ratio between consecutive element lengths is the constant r *)
Definition constant_ratio (r : R) (v : list R) : Prop :=
  forall k, (S (S k) < length v)%nat -> node v (S (S k)) - node v (S k) = r * (node v (S k) - node v k).

Definition graded_mesh (xb xe : R) (n : nat) (v : list R) : Prop :=
  endpoints xb xe n v /\ strictly_monotone xb xe v /\ exists r, 0 < r /\ constant_ratio r v.

(* orientation made explicit: increasing when xb < xe, decreasing when xe < xb, every node between the two ends *)
Definition oriented (xb xe : R) (v : list R) : Prop :=
  (xb < xe -> forall k, (S k < length v)%nat -> node v k < node v (S k)) /\
  (xe < xb -> forall k, (S k < length v)%nat -> node v (S k) < node v k).
Definition between_ends (xb xe : R) (v : list R) : Prop :=
  forall k, (k < length v)%nat -> Rmin xb xe <= node v k <= Rmax xb xe.

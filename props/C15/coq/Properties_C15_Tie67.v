(* C15 -- property theorems (statements only): tie for larger n *)
From Coq Require Import Reals List.
From C15 Require Import C15Spec C15Model C15Proofs C15_gen C15TieSum C15Tie6 C15Tie7.
Import ListNotations.
Local Open Scope R_scope.

Theorem C15_tie_n6 : forall xb xe db de, geo_gen_6 xb xe db de = geo_model the_prec rfu_sum xb xe db de 6.
Proof. exact tie_6. Qed.
Print Assumptions C15_tie_n6.
Theorem C15_tie_n7 : forall xb xe db de, geo_gen_7 xb xe db de = geo_model the_prec rfu_sum xb xe db de 7.
Proof. exact tie_7. Qed.
Print Assumptions C15_tie_n7.

"""C15 -- geometric 1D discretisation yields an ordered graded mesh.
Engine S + induction: the decision trees of geometricDiscretization for n = 1..8 are regenerated from /repo (loop unrolled by
execution) and proved equal to a hand-written fold model for n = 1..5 (quick) / 1..8 (thorough); the theorems about the model hold for every n (induction).  The
real code is run for n up to 1e5 and judged by an independent statement of the property; its nodes are also compared with a
float evaluation of the model's fold."""
import math, os, threading
from vlib import guarded_main

SUPPORT = ["src/Math/Discretization1D.cxx", "src/Math/MathException.cxx", "src/Exception/TFELException.cxx"]

# fixed corpus; the first three are the inputs by which finding F4 is identified
CORPUS = [
    (0.0, 1.0, 1e-3, 1.009e-3, 100000), (0.0, 1.0, 1e-3, 1.009e-3, 1000), (0.0, 1.0, 1.0, 1.000001, 10),
    (0.0, 1.0, 0.1, 0.5, 10), (0.0, 1.0, 0.5, 0.1, 10), (2.0, -1.0, 0.3, 0.2, 7), (0.0, 1.0, 0.2, 0.2, 1), (0.0, 1.0, 0.2, 0.2, 100000),
    (-1.0, 1.0, 0.01, 0.01, 1000), (0.0, 1e-3, 1e-5, 2e-5, 50), (0.0, 1.0, 0.1, 0.3, 1), (5.0, 4.0, 0.1, 0.3, 2),
    # both orientations with negative coordinates, n >= 2 (the first element must have the sign of xe - xb)
    (-1.0, -3.0, 0.1, 0.3, 2), (-3.0, -1.0, 0.1, 0.3, 2), (-1.0, -3.0, 0.3, 0.1, 9), (-3.0, -1.0, 0.2, 0.2, 64), (1.0, -1.0, 0.2, 0.2, 3),
    (-2.5, -7.5, 0.05, 0.05000001, 1000), (4.0, -4.0, 0.5, 0.5000001, 100000), (-1e-3, -2e-3, 1e-5, 3e-5, 17),
]


def key(t):
    return "geo:" + ",".join(repr(x) if isinstance(x, float) and x != int(x) else "%g" % x for x in t)


def judge(t, v):
    """independent statement of the property; returns a reason or None"""
    xb, xe, db, de, n = t
    if len(v) != n + 1:
        return "%d nodes instead of %d" % (len(v), n + 1)
    if v[0] != xb or v[-1] != xe:
        return "end points %r, %r instead of %r, %r" % (v[0], v[-1], xb, xe)
    sg = 1.0 if xe > xb else -1.0
    lo_, hi_ = min(xb, xe), max(xb, xe)
    for k, x in enumerate(v):
        if not (lo_ <= x <= hi_):
            return "node %d = %r is outside [xb, xe] (xb=%r, xe=%r)" % (k, x, xb, xe)
    d = [sg * (v[k + 1] - v[k]) for k in range(n)]
    for k, e in enumerate(d):
        if not e > 0:
            return "not strictly monotone: node %d = %r, node %d = %r (xb=%r, xe=%r)" % (k, v[k], k + 1, v[k + 1], xb, xe)
    if n >= 2:
        rho = [d[k + 1] / d[k] for k in range(n - 1)]
        lo, hi = min(rho), max(rho)
        tolr = 1e-6 * (1 + n / 100.0) + 16 * 2.2e-16 * (abs(xb) + abs(xe)) / min(d)
        if hi - lo > tolr * hi:
            k = rho.index(lo) if (hi - rho[0]) > (rho[0] - lo) * 0 + (hi - lo) / 2 else rho.index(hi)
            return "ratio between consecutive element lengths is not constant: between %.12g and %.12g (tolerance %.3g relative)" % (lo, hi, tolr)
    return None


def model_nodes(t, uniform_rule):
    """float evaluation of the hand-written model (same operations, same order as the C++)"""
    xb, xe, db, de, n = t
    l = xe - xb
    rdb, rde = db / l, de / l
    x = 0.5 * (rdb - rde) * (rdb - rde)
    r = 1. + x - math.sqrt(x * (2 + x)) if rde < rdb else 1 + x + math.sqrt(x * (2 + x))
    if abs(r - 1) > 1.e-5:
        try:
            rf = (1. - r) / (1. - math.pow(r, float(n)))
        except OverflowError:
            rf = 0.0
    elif uniform_rule == "1/n":
        rf = 1. / float(n)
    else:
        s, rn = 0.0, 1.0
        for _ in range(n):
            s += rn
            rn *= r
        rf = 1.0 / s
    f = rf * l
    v = [xb]
    s, re = 0.0, 1.0
    for _ in range(n):
        s += f * re
        v.append(xb + s)
        re *= r
    v[-1] = xe
    return v


def main(c):
    exe = c.cxx("trace", ["trace.cxx"], SUPPORT)
    gen = os.path.join(c.work, "coq", "C15_gen.v")
    os.makedirs(os.path.dirname(gen), exist_ok=True)
    rc, out, err = c.run([exe, "gen", gen, str(c.seed)])
    if rc != 0:
        c.report("trace", "tracer failed on /repo's geometricDiscretization: " + (out + err)[-600:], {"stderr": err[-3000:]}, False)
        return
    nag = 0
    for l in out.splitlines():
        if l.startswith("AGREE-FAIL"):
            c.report("agree:" + l[:200], "traced decision tree and double instantiation disagree: " + l, {"line": l}, True)
        elif l.startswith("AGREE"):
            nag += 1
            c.count(1)
    c.coverage["traces_validated_against_impl"] = nag
    c.trusted("engine S tracer (cxx/sym/sym.hxx path oracle + printer), g++ instantiation of geometricDiscretization with std::vector<Sym>",
              "agreement decision trees (n=1..8, long double evaluation) vs double instantiation on %d seeded inputs" % nag,
              "hand-written fold model coq/C15Model.v: tied to the code by the Coq lemmas tie_1..tie_5 (quick) / tie_1..tie_8 (thorough) (regenerated trees = model) and by "
              "float evaluation of the same fold in check.py compared with the real nodes for n up to 1e5")

    # ---- run the real code
    rng = c.rng
    cases = list(CORPUS)
    ns = [1, 2, 3, 5, 10, 37, 100, 1000, 10000]
    for i in range(c.pick(400, 4000)):
        n = rng.choice(ns)
        if i % 100 == 7:
            n = 100000
        xb = rng.uniform(-1, 1)
        l = rng.uniform(0.3, 3) * rng.choice((-1, 1))
        if i % 4 == 0:
            db = de = rng.uniform(0.01, 1)     # r = 1 exactly
        else:
            # target ratio r with |r-1| > 2e-5 (geometric branch) and r^n within [1e-3, 1e3]
            lnr_max = min(1.0, 6.9 / n)
            lnr = rng.uniform(2.5e-5, lnr_max) if lnr_max > 2.5e-5 else 2.5e-5
            r = math.exp(lnr)
            gap = abs(l) * (r - 1) / math.sqrt(r)
            db = rng.uniform(0.01, 1)
            de = db + gap
            if rng.random() < 0.5:
                db, de = de, db
        cases.append((xb, xb + l, db, de, n))
    inp = "\n".join("%r %r %r %r %d" % t for t in cases) + "\n"
    rc, out, err = c.run([exe, "run"], input=inp, timeout=900)
    lines = out.splitlines()
    if rc != 0 or len(lines) != len(cases):
        c.report("run", "driver failed: " + err[-500:], {"stderr": err[-3000:]}, False)
        return
    f4_seen = False
    rule_votes = {"1/n": 0, "sum": 0}
    nbad = 0
    for idx, (t, l) in enumerate(zip(cases, lines)):
        if not l.startswith("V "):
            key_ = key(t)
            c.report(key_, "geometricDiscretization%r throws: %s" % (t, l), {"input": t}, True)
            continue
        v = [float(x) for x in l.split()[2:]]
        c.count(1, key(t), True)
        if idx % 57 == 0:
            c.sample({"xb,xe,db,de,n": t, "first nodes": v[:3], "last nodes": v[-2:]})
        why = judge(t, v)
        # correspondence with the model's fold (either rule of the near-uniform branch)
        if why is None or idx < 3:
            ok = {}
            for rule in ("1/n", "sum"):
                m = model_nodes(t, rule)
                sc = abs(t[0]) + abs(t[1])
                ok[rule] = len(m) == len(v) and all(abs(a - b) <= 1e-12 * sc for a, b in zip(m, v))
                rule_votes[rule] += ok[rule]
            if why is None and not (ok["1/n"] or ok["sum"]):
                why = "nodes differ from the fold model of coq/C15Model.v (model/code correspondence)"
        if why:
            nbad += 1
            if idx < 3:
                f4_seen = True
            if len(c.violations) >= 12 and not any(k.get("key") == key(t) for k in c.known):
                continue
            c.report(key(t), "geometricDiscretization(xb=%r, xe=%r, db=%r, de=%r, n=%d): %s; last nodes %r" % (t + (why, v[-3:])),
                     {"input": t, "reason": why, "last_nodes": v[-3:], "how": "props/C15/trace.cxx run"}, True)
    if nbad:
        c.notes.append("%d inputs of %d fail the independent statement of the property" % (nbad, len(cases)))
    c.notes.append("model/code agreement of the fold: rule 1/n matched %d cases, rule 1/sum matched %d cases" % (rule_votes["1/n"], rule_votes["sum"]))
    c.coverage["rule"] = ("fixed corpus (incl. nearly equal densities with n = 10, 1000, 1e5) + seeded sweep over intervals of both orientations, "
                          "n in {1,2,3,5,10,37,100,1000,1e4,1e5}, equal densities or a target ratio in the geometric branch with r^n in [1e-3,1e3]; "
                          "judged: n+1 nodes, end points exact, every node inside [xb,xe], strictly monotone towards xe, ratio of consecutive element lengths constant (relative tolerance "
                          "1e-6*(1+n/100) + cancellation term); nodes equal to the float evaluation of the model's fold to 1e-12")

    # ---- proofs
    props, tie = ("Properties_C15_F4.v", "C15TieUniform.v") if f4_seen else ("Properties_C15.v", "C15TieSum.v")
    if f4_seen:
        c.notes.append("finding F4 observed: theorems are checked for the model with rf = 1/n (Properties_C15_F4.v)")
    res = c.coq([gen, "C15Spec.v", "C15Model.v", "C15Proofs.v", tie, props], timeout=900)
    failed = [] if res.ok else [res]
    if res.ok and not f4_seen:
        # ties for larger n (one file per n, at most 3 in parallel): n = 5 in both tiers, n = 6, 7, 8 in the thorough tier (n = 8 alone takes 7-8 minutes)
        big = [5] if c.quick() else [5, 6, 7, 8]
        par = {}

        def comp(n):
            par[n] = c.coq(["C15Tie%d.v" % n], timeout=2400)
        ths = [threading.Thread(target=comp, args=(n,)) for n in big]
        for t in ths:
            t.start()
        for t in ths:
            t.join()
        failed += [r for r in par.values() if not r.ok]
        for pf, ns in (("Properties_C15_Tie5.v", [5]), ("Properties_C15_Tie67.v", [6, 7]), ("Properties_C15_Tie8.v", [8])):
            if all(n in par and par[n].ok for n in ns):
                r = c.coq([pf], timeout=600)
                if not r.ok:
                    failed.append(r)
        c.coverage["checker_cmd"] = ("coqc -Q coq/lib VLib -R <scratch> C15 C15_gen.v C15Spec.v C15Model.v C15Proofs.v %s %s %s (Coq 8.16.1)" % (
            tie, " ".join("C15Tie%d.v" % n for n in big), props + " Properties_C15_Tie5.v" + ("" if c.quick() else " Properties_C15_Tie67.v Properties_C15_Tie8.v")))
        c.notes.append("trees regenerated for n = 1..8 (agreement with double on all of them); tie lemmas proved for n = 1..%d in this tier" % max(big))
    if failed:
        if any(v[3] for v in c.violations):
            c.notes.append("proof obligations failed: %s; concrete failing inputs are reported" % [f[:3] for r in failed for f in r.failed])
        else:
            for r in failed:
                c.coq_failures(r)


guarded_main("C15", main)

#!/usr/bin/env python3
"""C22 -- typing aid: writes coq/C22Eig_asm2.v, C22Eig_asm3h.v, C22Eig_asm3b.v (committed outputs; not run by the check)."""
imp='''From Coq Require Import Reals List Lra.
From Coquelicot Require Import Coquelicot.
From VLib Require Import RealExtra.
From C22 Require Import C22InvSpec C22InvTac C22EigSpec C22eig_gen C22EigAsmCuts C22EigAsmTac.
Import ListNotations.
Local Open Scope R_scope.

'''
def facs(name,n,N):
    return "; ".join("fac%d %s_leaf%d %s_leaf%d_fac"%(N,name,k,name,k) for k in range(n))
def unf_abs(name,n): return "unfold "+", ".join("%s_leaf%d_abs"%(name,k) for k in range(n))
A2="g0 g1 g2 d00 d11 d22 d01 d02 d12 l0 l1 l2 m00 m01 m10 m11 e"
A3="g0 g1 g2 d00 d11 d22 d01 d02 d12 l0 l1 l2 m00 m01 m02 m10 m11 m12 m20 m21 m22 e"
def lemma(name,n,N,decide,extra=""):
    A = A2 if N==2 else A3
    body = ("asm_proof ltac:(%s) He ltac:(unfold %s_sk) ltac:(%s) ltac:(%s) ltac:(rw_comps%d) ltac:(unfold_asm%dcuts)." % (decide,name,facs(name,n,N),unf_abs(name,n),N,N)) if not extra else (
'''unfold %s_sk; lazy zeta; decide_ties e l0 l1 l2;
  try (exfalso; first [ (rewrite E01, E02, E12 in T1; discriminate (T1 eq_refl eq_refl))
                      | (rewrite E01, E02, E12 in T2; discriminate (T2 eq_refl eq_refl))
                      | (rewrite E01, E02, E12 in T3; discriminate (T3 eq_refl eq_refl)) ]);
  destruct_rest;
  first [ (exfalso; tie_lra)
        | all_entries ltac:(%s) ltac:(%s) ltac:(rw_comps3) ltac:(unfold_asm3cuts) He ].''' % (name,facs(name,n,N),unf_abs(name,n)))
    return '''Lemma %s_ok : %s_stmt.
Proof.
  unfold %s_stmt%s. intros until e. intros He%s.
  change (%s %s) with (%s_sk %s).
  %s
Qed.
''' % (name,name,name, ", ties_transitive" if extra else "", " (T1 & T2 & T3)" if extra else "", name,A,name,A, body)
d='/verif/props/C22/coq/'
open(d+'C22Eig_asm2.v','w').write("(* C22 -- plane (2D) assembly of Hosford's second derivative and Barlat's eigenvector terms: every tie branch is the specification *)\n"+imp+
   "(* ---- Hosford, 2D: the third eigenvector is e_z *)\n"+lemma("hos_asm_2",2,2,"decide_tie_01 e l0 l1")+"\n"+lemma("bar_cpl_2",2,2,"decide_tie_01 e l0 l1"))
open(d+'C22Eig_asm3h.v','w').write("(* C22 -- 3D assembly of Hosford's second derivative from the eigen-data: every tie branch is the specification *)\n"+imp+lemma("hos_asm_3",5,3,"","T"))
open(d+'C22Eig_asm3b.v','w').write("(* C22 -- 3D eigenvector terms of Barlat's second derivative: every tie branch is the specification *)\n"+imp+lemma("bar_cpl_3",8,3,"decide_ties e l0 l1 l2"))

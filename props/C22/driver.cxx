// C22: execution of the REAL double code of the eigen-based criteria and of Mohr-Coulomb (no symbolic scalar here).
//   driver run <seed> <n>
// Criteria: Hosford 1972 (a = 2, 6, 8) and Barlat 2004 with the default eigen solver AND with FSESJACOBIEIGENSOLVER (which
// returns exactly equal eigenvalues on tie patterns, so that the tie branches of the second derivatives are really taken),
// Mohr-Coulomb (Abbo-Sloan rounding, lodeT = 20 degrees, so that a third of the stresses fall in the rounded-corner zones).
// Corpus: generic stresses + TIE PATTERNS (uniaxial along each axis, equibiaxial in each plane, hydrostatic + uniaxial, and
// in-plane / out-of-plane rotations of them) + CORNER ZONES (prescribed Lode angles on both sides of +-lodeT) + seeded stresses.
// Output, one line per case, same format as `trace run` (CASE crit N id | params | in .. | seq v n h | hom x | n1 | n2 | fdn | dn | fdd)
// plus `| aux lode` for Mohr-Coulomb, and BARLATID lines (Barlat with both transformations = deviatoric projector vs Hosford).
#include "TFEL/Math/stensor.hxx"
#include "TFEL/Math/st2tost2.hxx"
#include "TFEL/Material/Hosford1972YieldCriterion.hxx"
#include "TFEL/Material/Barlat2004YieldCriterion.hxx"
#include "TFEL/Material/MohrCoulombYieldCriterion.hxx"
#include <cmath>
#include <cstdint>
#include <cstdio>
#include <cstring>
#include <functional>
#include <string>
#include <vector>

namespace tm_ = tfel::material;
using tfel::math::st2tost2;
using tfel::math::stensor;
using ES = tfel::math::stensor_common::EigenSolver;

struct Rng {
  uint64_t s;
  explicit Rng(uint64_t seed) : s(seed * 0x9E3779B97F4A7C15ULL + 0x1234567ULL) {}
  uint64_t next() {
    uint64_t z = (s += 0x9E3779B97F4A7C15ULL);
    z = (z ^ (z >> 30)) * 0xBF58476D1CE4E5B9ULL;
    z = (z ^ (z >> 27)) * 0x94D049BB133111EBULL;
    return z ^ (z >> 31);
  }
  double uni() { return (next() >> 11) * (1.0 / 9007199254740992.0); }
  double range(double a, double b) { return a + (b - a) * uni(); }
};

template <unsigned short N>
constexpr unsigned short ssz = tfel::math::StensorDimeToSize<N>::value;
template <unsigned short N>
stensor<N, double> mk(const std::vector<double>& v) {
  stensor<N, double> s;
  for (unsigned short i = 0; i < ssz<N>; ++i) s[i] = v[i];
  return s;
}
template <unsigned short N>
void push(std::vector<double>& r, const stensor<N, double>& s) {
  for (unsigned short i = 0; i < ssz<N>; ++i) r.push_back(s[i]);
}
template <unsigned short N>
void push(std::vector<double>& r, const st2tost2<N, double>& m) {
  for (unsigned short i = 0; i < ssz<N>; ++i)
    for (unsigned short j = 0; j < ssz<N>; ++j) r.push_back(m(i, j));
}

template <unsigned short N, ES es>
std::vector<double> hosford(int which, const std::vector<double>& s, double a, double e) {
  const auto sig = mk<N>(s);
  using S = stensor<N, double>;
  std::vector<double> r;
  if (which == 0) {
    r.push_back(tm_::computeHosfordStress<S, double, es>(sig, a, e));
  } else if (which == 1) {
    auto [seq, n] = tm_::computeHosfordStressNormal<S, double, es>(sig, a, e);
    r.push_back(seq);
    push<N>(r, n);
  } else {
    auto [seq, n, dn] = tm_::computeHosfordStressSecondDerivative<S, double, es>(sig, a, e);
    r.push_back(seq);
    push<N>(r, n);
    push<N>(r, dn);
  }
  return r;
}
template <unsigned short N, ES es>
std::vector<double> barlat(int which, const std::vector<double>& s, const std::vector<double>& c, double a, double e) {
  const auto sig = mk<N>(s);
  using S = stensor<N, double>;
  const auto l1 = tm_::makeBarlatLinearTransformation<N, double>(c[0], c[1], c[2], c[3], c[4], c[5], c[6], c[7], c[8]);
  const auto l2 = tm_::makeBarlatLinearTransformation<N, double>(c[9], c[10], c[11], c[12], c[13], c[14], c[15], c[16], c[17]);
  std::vector<double> r;
  if (which == 0) {
    r.push_back(tm_::computeBarlatStress<S, double, es>(sig, l1, l2, a, e));
  } else if (which == 1) {
    auto [seq, n] = tm_::computeBarlatStressNormal<S, double, es>(sig, l1, l2, a, e);
    r.push_back(seq);
    push<N>(r, n);
  } else {
    auto [seq, n, dn] = tm_::computeBarlatStressSecondDerivative<S, double, es>(sig, l1, l2, a, e);
    r.push_back(seq);
    push<N>(r, n);
    push<N>(r, dn);
  }
  return r;
}
// p = {c, angle (rad), lodeT (rad), a}
template <unsigned short N>
std::vector<double> mohr(int which, const std::vector<double>& s, const std::vector<double>& p) {
  using S = stensor<N, double>;
  const auto sig = mk<N>(s);
  const auto par = tm_::makeMohrCoulombParameters<S, tm_::MohrCoulombParameters<S>::RADIAN>(p[0], p[1], p[2], p[3]);
  std::vector<double> r;
  if (which == 0) {
    r.push_back(tm_::computeMohrCoulombStressCriterion(par, sig));
  } else if (which == 1) {
    auto [seq, n] = tm_::computeMohrCoulombStressCriterionNormal(par, sig);
    r.push_back(seq);
    push<N>(r, n);
  } else {
    auto [seq, n, dn] = tm_::computeMohrCoulombStressCriterionSecondDerivative(par, sig);
    r.push_back(seq);
    push<N>(r, n);
    push<N>(r, dn);
  }
  return r;
}
// Lode angle as the Mohr-Coulomb code defines it: asin(-3 sqrt3 J3 / (2 J2^(3/2))) / 3
template <unsigned short N>
double lode_of(const std::vector<double>& s) {
  const auto d = tfel::math::deviator(mk<N>(s));
  const double J2 = (d | d) / 2, J3 = tfel::math::det(d);
  double arg = -3 * std::sqrt(3.) * J3 / (2 * J2 * std::sqrt(J2));
  arg = std::min(1., std::max(-1., arg));
  return std::asin(arg) / 3;
}

using Fn = std::function<std::vector<double>(int, const std::vector<double>&)>;
template <unsigned short N>
void run_case(const char* crit, const std::string& id, const Fn& f, const std::vector<double>& s, const std::string& params, double aux, bool hom1) {
  constexpr int n = ssz<N>;
  auto v = f(0, s), g = f(1, s), h = f(2, s);
  double nrm = 0;
  for (double x : s) nrm = std::max(nrm, std::fabs(x));
  const double e = 1e-5 * nrm;
  std::vector<double> fdn(n), fdd(n * n);
  for (int j = 0; j < n; ++j) {
    auto sp = s, sm = s;
    sp[j] += e;
    sm[j] -= e;
    fdn[j] = (f(0, sp)[0] - f(0, sm)[0]) / (2 * e);
    auto hp = f(2, sp), hm = f(2, sm);
    for (int i = 0; i < n; ++i) fdd[i * n + j] = (hp[1 + i] - hm[1 + i]) / (2 * e);
  }
  auto s2 = s;
  for (auto& x : s2) x *= 2.5;
  const double hom = hom1 ? f(0, s2)[0] : std::nan("");
  std::printf("CASE %s %d %s | %s | in", crit, int(N), id.c_str(), params.c_str());
  for (double x : s) std::printf(" %.17g", x);
  std::printf(" | seq %.17g %.17g %.17g | hom %.17g | n1", v[0], g[0], h[0], hom);
  for (int i = 0; i < n; ++i) std::printf(" %.17g", g[1 + i]);
  std::printf(" | n2");
  for (int i = 0; i < n; ++i) std::printf(" %.17g", h[1 + i]);
  std::printf(" | fdn");
  for (int i = 0; i < n; ++i) std::printf(" %.17g", fdn[i]);
  std::printf(" | dn");
  for (int i = 0; i < n * n; ++i) std::printf(" %.17g", h[1 + n + i]);
  std::printf(" | fdd");
  for (int i = 0; i < n * n; ++i) std::printf(" %.17g", fdd[i]);
  std::printf(" | aux %.17g\n", aux);
}
static std::string pstr(const std::vector<double>& p) {
  std::string r;
  char b[40];
  for (double x : p) {
    std::snprintf(b, sizeof b, "%s%.17g", r.empty() ? "" : ",", x);
    r += b;
  }
  return r;
}

// rotate a tensor given by its 6 TFEL components by the angle t about axis k (0: z, 1: y, 2: x)
static std::vector<double> rotate(const std::vector<double>& v6, int k, double t) {
  const double r2 = std::sqrt(2.);
  double a[3][3] = {{v6[0], v6[3] / r2, v6[4] / r2}, {v6[3] / r2, v6[1], v6[5] / r2}, {v6[4] / r2, v6[5] / r2, v6[2]}};
  double q[3][3] = {{1, 0, 0}, {0, 1, 0}, {0, 0, 1}};
  const int i0 = k == 0 ? 0 : (k == 1 ? 0 : 1), i1 = k == 0 ? 1 : 2;
  q[i0][i0] = std::cos(t);
  q[i1][i1] = std::cos(t);
  q[i0][i1] = -std::sin(t);
  q[i1][i0] = std::sin(t);
  double b[3][3] = {};
  for (int i = 0; i < 3; ++i)
    for (int j = 0; j < 3; ++j)
      for (int l = 0; l < 3; ++l)
        for (int m = 0; m < 3; ++m) b[i][j] += q[i][l] * a[l][m] * q[j][m];
  return {b[0][0], b[1][1], b[2][2], r2 * b[0][1], r2 * b[0][2], r2 * b[1][2]};
}

struct Pt {
  std::string id;
  std::vector<double> s;  // 6 components; truncated to the dimension
};
// principal deviatoric stresses with a prescribed Lode angle th (code's convention), sqrt(J2) = q, mean stress p
static std::vector<double> with_lode(double th, double q, double p) {
  const double k = 2 / std::sqrt(3.) * q, pi = 3.14159265358979323846;
  return {p + k * std::sin(th + 2 * pi / 3), p + k * std::sin(th), p + k * std::sin(th - 2 * pi / 3), 0, 0, 0};
}

template <unsigned short N>
std::vector<Pt> corpus(Rng& rng, int nrand) {
  std::vector<Pt> c;
  const double g[3][6] = {{100, -50, 30, 20, -10, 40}, {200, 10, -120, 35, 60, -15}, {-80, -75, 150, 5, 90, 45}};
  for (int k = 0; k < 3; ++k) c.push_back({"corpus" + std::to_string(k), std::vector<double>(g[k], g[k] + 6)});
  // tie patterns (diagonal)
  const char* ax = "xyz";
  for (int k = 0; k < 3; ++k) {
    std::vector<double> u(6, 0.), b(6, 0.), hq(6, 0.), hn(6, 0.);
    u[k] = 120;
    for (int i = 0; i < 3; ++i) b[i] = i == k ? 0 : 90;
    for (int i = 0; i < 3; ++i) hq[i] = i == k ? 35 + 140 : 35;
    for (int i = 0; i < 3; ++i) hn[i] = i == k ? -60 - 75 : -60;
    c.push_back({std::string("tie-uniaxial-") + ax[k], u});
    c.push_back({std::string("tie-equibiaxial-normal-") + ax[k], b});
    c.push_back({std::string("tie-hydro+uniaxial-") + ax[k], hq});
    c.push_back({std::string("tie-hydro-uniaxial-") + ax[k], hn});
    if (N >= 2) {  // the same tensors seen in a rotated frame (in-plane rotation; N = 3 also out of plane)
      c.push_back({std::string("tie-uniaxial-") + ax[k] + "-rotz", rotate(u, 0, 0.6)});
      c.push_back({std::string("tie-hydro+uniaxial-") + ax[k] + "-rotz", rotate(hq, 0, -0.35)});
    }
    if (N == 3) {
      c.push_back({std::string("tie-uniaxial-") + ax[k] + "-rotyx", rotate(rotate(u, 1, 0.4), 2, 1.1)});
      c.push_back({std::string("tie-equibiaxial-normal-") + ax[k] + "-rotyx", rotate(rotate(b, 1, -0.7), 2, 0.3)});
    }
  }
  // corner zones of the Lode angle (degrees): lodeT = 20 in the driver; both signs, both sides of the transition, near the apex
  const double ths[10] = {-29.5, -27, -23, -21, -17, 17, 21, 23, 27, 29.5};
  for (int k = 0; k < 10; ++k) {
    const double th = ths[k] * 3.14159265358979323846 / 180;
    char b[64];
    std::snprintf(b, sizeof b, "lode%+.1f", ths[k]);
    c.push_back({b, with_lode(th, 80, -40)});
    if (N >= 2) c.push_back({std::string(b) + "-rotz", rotate(with_lode(th, 60, 25), 0, 0.5)});
    if (N == 3) c.push_back({std::string(b) + "-rotyx", rotate(rotate(with_lode(th, 70, -10), 1, 0.8), 2, -0.4)});
  }
  for (int k = 0; k < nrand; ++k) {
    std::vector<double> s(6);
    for (auto& x : s) x = rng.range(-150., 150.);
    c.push_back({"rand" + std::to_string(k), s});
  }
  return c;
}

template <unsigned short N>
void run_dim(Rng& rng, int nrand) {
  constexpr int n = ssz<N>;
  const double e = 1e-8;
  const auto pts = corpus<N>(rng, nrand);
  int k = 0;
  for (const auto& pt : pts) {
    std::vector<double> s(pt.s.begin(), pt.s.begin() + n);
    const double as[3] = {6., 8., 2.};
    const double a = as[k % 3];
    // Hosford, both solvers (the default solver on the corpus is already run by `trace run`; kept here for the tie patterns)
    run_case<N>("hosford", pt.id, [&](int w, const std::vector<double>& x) { return hosford<N, ES::TFELEIGENSOLVER>(w, x, a, e); }, s, pstr({a}), 0, true);
    run_case<N>("hosford_jacobi", pt.id, [&](int w, const std::vector<double>& x) { return hosford<N, ES::FSESJACOBIEIGENSOLVER>(w, x, a, e); }, s, pstr({a}), 0,
                true);
    // Barlat: two different transformations close to the isotropic one
    std::vector<double> c(18);
    for (auto& x : c) x = rng.range(0.85, 1.15);
    if (k % 4 == 1)
      for (auto& x : c) x = 1;  // both transformations = deviatoric projector: ties of s' and s'' follow those of s
    run_case<N>("barlat", pt.id, [&](int w, const std::vector<double>& x) { return barlat<N, ES::TFELEIGENSOLVER>(w, x, c, a, e); }, s, pstr(c) + "," + pstr({a}), 0,
                true);
    run_case<N>("barlat_jacobi", pt.id, [&](int w, const std::vector<double>& x) { return barlat<N, ES::FSESJACOBIEIGENSOLVER>(w, x, c, a, e); }, s,
                pstr(c) + "," + pstr({a}), 0, true);
    // Barlat with both transformations = deviatoric projector against Hosford (value, normal, second derivative)
    {
      std::vector<double> c1(18, 1.);
      auto hb = barlat<N, ES::FSESJACOBIEIGENSOLVER>(2, s, c1, a, e);
      auto hh = hosford<N, ES::FSESJACOBIEIGENSOLVER>(2, s, a, e);
      std::printf("BARLATID %d %s %.17g |", int(N), pt.id.c_str(), a);
      for (double x : hb) std::printf(" %.17g", x);
      std::printf(" |");
      for (double x : hh) std::printf(" %.17g", x);
      std::printf("\n");
    }
    // Mohr-Coulomb: c = 30, friction angle 25 or 35 degrees, lodeT = 20 degrees, a = 5 (tension cut-off)
    const double pi = 3.14159265358979323846;
    std::vector<double> mp = {30., (k % 2 ? 35. : 25.) * pi / 180, 20. * pi / 180, 5.};
    run_case<N>("mohrcoulomb", pt.id, [&](int w, const std::vector<double>& x) { return mohr<N>(w, x, mp); }, s, pstr(mp), lode_of<N>(s), false);
    ++k;
  }
}

int main(int argc, char** argv) {
  if (argc >= 2 && !std::strcmp(argv[1], "run")) {
    Rng rng(argc >= 3 ? std::strtoull(argv[2], nullptr, 10) : 1);
    const int n = argc >= 4 ? std::atoi(argv[3]) : 10;
    run_dim<1>(rng, n);
    run_dim<2>(rng, n);
    run_dim<3>(rng, n);
    return 0;
  }
  std::fprintf(stderr, "usage: driver run <seed> <n>\n");
  return 2;
}

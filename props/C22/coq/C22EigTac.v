(* C22 -- tactics for the eigen-based criteria (Hosford, Barlat; even integer exponent).  Shape independent: the traced
   expressions are only touched through semantic replacements (replace .. by field) of the arguments of sqrt and Rpower. *)
From Coq Require Import Reals List Lra.
From Coquelicot Require Import Coquelicot.
From VLib Require Import RealExtra.
From C22 Require Import C22InvSpec C22InvTac C22EigSpec.
Import ListNotations.
Local Open Scope R_scope.

(* (Rabs x)^(even numeral) -> x^(even numeral) *)
Ltac abs_even :=
  repeat match goal with
         | |- context [Rabs ?x ^ ?n] =>
           let k := eval compute in (Nat.div2 n) in
           replace (Rabs x ^ n) with (x ^ n) by (symmetry; exact (Rabs_pow_even x k))
         end.
Ltac canon_sqrt_u Q unfQ :=
  repeat match goal with
         | |- context [sqrt ?a] =>
           tryif first [ constr_eq a Q | constr_eq a 2 | constr_eq a 3 ] then fail else (replace a with Q by (unfQ; field))
         end.
Ltac fold_rpower T :=
  repeat match goal with |- context [exp (?e * ln T)] => change (exp (e * ln T)) with (Rpower T e) end.
Ltac canon_ln_u T unfT :=
  repeat match goal with
         | |- context [ln ?a] => tryif constr_eq a T then fail else (replace a with T by (unfT; field))
         end.

(* Goal: an identity between expressions built from  sqrt(.. = Q),  Rpower (.. = T / sqrt(Q)^a) ia  (the code normalises the
   eigenvalues by the von Mises stress before taking powers)  and  Rpower T ia;  HQ : 0 < Q, HT : 0 < T, a ia = 1, T = S / k with S
   a polynomial with integer coefficients.  Everything is rewritten over the atoms R = sqrt Q, Y = T^(1/a) with Y^a k = S, then
   field_simplify_eq and ring modulo that relation. *)
(* core: R0 is the normalising quantity (HR0 : 0 < R0) *)
Ltac pow_core a ia k R0 HR0 T S unfT unfAll HT :=
  let R := fresh "R" in let HR := fresh "HR" in
  assert (HR := HR0); set (R := R0) in *;
  repeat match goal with
         | |- context [Rpower ?p ?e] =>
           tryif constr_eq p T then fail
           else (replace p with ((/ R) ^ a * T) by (unfT; unfAll; field; lra);
                 rewrite (Rpower_scale_pow a ia (/ R) T)
                   by first [ exact HT | (apply Rinv_0_lt_compat; exact HR) | (simpl; field) | auto with arith ])
         end;
  (* T^(1/a) = S^(1/a) / k^(1/a): atoms Z = S^(1/a), c = k^(1/a) with the monic relations Z^a = S, c^a = k *)
  let Z := fresh "Z" in let EZ := fresh "EZ" in let HZ := fresh "HZ" in
  let c := fresh "c" in let Ec := fresh "Ec" in let Hc := fresh "Hc" in let HS := fresh "HS" in let Hk := fresh "Hk" in
  assert (Hk : 0 < k) by lra;
  assert (HS : 0 < S) by (apply (Rmult_lt_reg_r (/ k)); [ apply Rinv_0_lt_compat; exact Hk | rewrite Rmult_0_l; exact HT ]);
  change T with (S / k) in *;
  rewrite ?(Rpower_div ia S k HS Hk);
  assert (EZ : Rpower S ia ^ a = S) by (apply Rpower_inv_pow; [ simpl; field | exact HS ]);
  assert (Ec : Rpower k ia ^ a = k) by (apply Rpower_inv_pow; [ simpl; field | exact Hk ]);
  assert (HZ : 0 < Rpower S ia) by (unfold Rpower; apply exp_pos);
  assert (Hc : 0 < Rpower k ia) by (unfold Rpower; apply exp_pos);
  set (Z := Rpower S ia) in *; set (c := Rpower k ia) in *; clearbody Z c R;
  (* the polynomial S itself only occurs through T = S / k: it is replaced by Z^a, which keeps the identity small *)
  let Sv := fresh "Sv" in set (Sv := S) in *; clearbody Sv; rewrite <- ?EZ; clear EZ HS HT Sv;
  unfAll; simpl Nat.sub in *;
  field_simplify_eq; [ ring [Ec] | side_split; first [ lra | exact sqrt2_neq0 ] ].

Ltac pow_atoms a ia k Q T S unfQ unfT unfAll HQ HT :=
  abs_even; canon_sqrt_u Q unfQ;
  let HR := fresh "HRq" in
  pose proof (sqrt_lt_R0 _ HQ) as HR;
  pow_core a ia k (sqrt Q) HR T S unfT unfAll HT.

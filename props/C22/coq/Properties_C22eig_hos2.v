(* C22 -- Hosford 1972, a = 2, diagonal stress: property theorems (statements in C22EigStatements.v, proofs in C22Eig_hos2.v
   over the definitions regenerated from /repo).  same: the three variants return the same value and the two derivative
   variants the same normal; value: it is the documented formula; grad / hess: normal = gradient of the value, second
   derivative = Jacobian of the normal (ties included); sym; hom: degree-one homogeneity; mises: Hosford(2) = von Mises. *)
From Coq Require Import Reals List Lra.
From Coquelicot Require Import Coquelicot.
From VLib Require Import RealExtra.
From C22 Require Import C22InvSpec C22EigSpec C22eig_gen C22EigStatements C22Eig_hos2.
Import ListNotations.
Local Open Scope R_scope.

Theorem C22_hosford2_same : hos2_same_stmt.
Proof. exact hos2_same_ok. Qed.
Print Assumptions C22_hosford2_same.
Theorem C22_hosford2_value : hos2_value_stmt.
Proof. exact hos2_value_ok. Qed.
Print Assumptions C22_hosford2_value.
Theorem C22_hosford2_grad : hos2_grad_stmt.
Proof. exact hos2_grad_ok. Qed.
Print Assumptions C22_hosford2_grad.
Theorem C22_hosford2_hess : hos2_hess_stmt.
Proof. exact hos2_hess_ok. Qed.
Print Assumptions C22_hosford2_hess.
Theorem C22_hosford2_sym : hos2_sym_stmt.
Proof. exact hos2_sym_ok. Qed.
Print Assumptions C22_hosford2_sym.
Theorem C22_hosford2_hom : hos2_hom_stmt.
Proof. exact hos2_hom_ok. Qed.
Print Assumptions C22_hosford2_hom.
Theorem C22_hosford2_mises : hos2_mises_stmt.
Proof. exact hos2_mises_ok. Qed.
Print Assumptions C22_hosford2_mises.

(* C22 -- Hosford 1972, a = 8, diagonal stress: property theorems (statements in C22EigStatements.v, proofs in C22Eig_hos8.v
   over the definitions regenerated from /repo).  same: the three variants return the same value and the two derivative
   variants the same normal; value: it is the documented formula; grad / hess: normal = gradient of the value, second
   derivative = Jacobian of the normal (ties included); sym; hom: degree-one homogeneity. *)
From Coq Require Import Reals List Lra.
From Coquelicot Require Import Coquelicot.
From VLib Require Import RealExtra.
From C22 Require Import C22InvSpec C22EigSpec C22eig_gen C22EigStatements C22Eig_hos8.
Import ListNotations.
Local Open Scope R_scope.

Theorem C22_hosford8_same : hos8_same_stmt.
Proof. exact hos8_same_ok. Qed.
Print Assumptions C22_hosford8_same.
Theorem C22_hosford8_value : hos8_value_stmt.
Proof. exact hos8_value_ok. Qed.
Print Assumptions C22_hosford8_value.
Theorem C22_hosford8_grad : hos8_grad_stmt.
Proof. exact hos8_grad_ok. Qed.
Print Assumptions C22_hosford8_grad.
Theorem C22_hosford8_hess : hos8_hess_stmt.
Proof. exact hos8_hess_ok. Qed.
Print Assumptions C22_hosford8_hess.
Theorem C22_hosford8_sym : hos8_sym_stmt.
Proof. exact hos8_sym_ok. Qed.
Print Assumptions C22_hosford8_sym.
Theorem C22_hosford8_hom : hos8_hom_stmt.
Proof. exact hos8_hom_ok. Qed.
Print Assumptions C22_hosford8_hom.

(* C22 -- Cazacu 2004 (orthotropic) (computeCazacu2004OrthotropicStressCriterion, ...Normal, ...SecondDerivative), N = 3: property theorems (statements in C22InvStatements.v, proofs in C22Inv_c4o_3.v over the
   definitions regenerated from /repo).  same: the three variants return the same value and the two derivative variants the
   same normal; grad: the normal is the gradient of the value; hess: the second derivative is the Jacobian of the normal;
   sym: it is symmetric; hom: the value is positively homogeneous of degree one. *)
From Coq Require Import Reals List Lra.
From Coquelicot Require Import Coquelicot.
From VLib Require Import RealExtra.
From C22 Require Import C22InvSpec C22inv_gen C22InvStatements C22Inv_c4o_3.
Import ListNotations.
Local Open Scope R_scope.

Theorem C22_c4o_3_same : c4o_3_same_stmt.
Proof. exact c4o_3_same_ok. Qed.
Print Assumptions C22_c4o_3_same.
Theorem C22_c4o_3_grad : c4o_3_grad_stmt.
Proof. exact c4o_3_grad_ok. Qed.
Print Assumptions C22_c4o_3_grad.
Theorem C22_c4o_3_hess : c4o_3_hess_stmt.
Proof. exact c4o_3_hess_ok. Qed.
Print Assumptions C22_c4o_3_hess.
Theorem C22_c4o_3_sym : c4o_3_sym_stmt.
Proof. exact c4o_3_sym_ok. Qed.
Print Assumptions C22_c4o_3_sym.
Theorem C22_c4o_3_hom : c4o_3_hom_stmt.
Proof. exact c4o_3_hom_ok. Qed.
Print Assumptions C22_c4o_3_hom.

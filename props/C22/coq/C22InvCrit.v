(* C22 -- tactics for one criterion: differentiate the traced leaf and compare with the traced derivative.
   Nothing depends on the shape of the traced terms (only on which special functions the criterion uses:
   S6 = Drucker 1949 / Cazacu 2001 (one real power), A4 = Cazacu 2004 (a square root and a cube root)). *)
From Coq Require Import Reals List Lra.
From Coquelicot Require Import Coquelicot.
From VLib Require Import RealExtra.
From C22 Require Import C22InvSpec C22InvTac.
Import ListNotations.
Local Open Scope R_scope.

Ltac gen_exp := repeat match goal with |- context [exp ?u] => let X := fresh "X" in generalize (exp u); intro X end.
Ltac nz_side := side_split; first [ lra | exact sqrt2_neq0 | exact sqrt3_neq0 ].

(* ---- S6: seq = sqrt3 (J2^3 - c J3^2)^(1/6);  hypothesis HS : 0 < S6_of J2 J3 c in the context *)
(* speed only: a denominator that is a numeric multiple of S or S^2 (S = J2^3 - c J3^2, here a local definition over the atoms
   j2 j3) is rewritten as such, so that field finds the common denominator S^2 instead of a product of expanded polynomials;
   when no multiple fits the denominator is left alone (field is then slower, not wrong) *)
Ltac s_multiple S d :=
  let tac := (unfold S; lazy beta delta [S6_of]; ring) in
  first [ replace d with (4 * (S * S)) by tac | replace d with (6 * (S * S)) by tac | replace d with (9 * (S * S)) by tac
        | replace d with (1 * (S * S)) by tac | replace d with (2 * (S * S)) by tac | replace d with (3 * (S * S)) by tac
        | replace d with (12 * (S * S)) by tac | replace d with (18 * (S * S)) by tac | replace d with (36 * (S * S)) by tac
        | replace d with (8 * (S * S)) by tac | replace d with (16 * (S * S)) by tac | replace d with (24 * (S * S)) by tac
        | replace d with (1 * S) by tac ].
Ltac norm_den S j3 :=
  repeat match goal with
         | |- context [/ ?d] => match d with context [S] => fail 1 | context [j3] => s_multiple S d end
         end.
(* after the special functions are gone: J2, J3, S become atoms related by ES, then a rational identity *)
Ltac close_S6 s6 unf_c :=
  match s6 with
  | S6_of ?J2 ?J3 ?c =>
    let S := fresh "S" in let j2 := fresh "j2" in let j3 := fresh "j3" in let ES := fresh "ES" in
    set (S := s6) in *; canon_ln S; gen_exp;
    unfold Rdiv in *;
    let J2' := eval unfold Rdiv in J2 in set (j2 := J2') in *;
    set (j3 := J3) in *;
    norm_den S j3;
    assert (ES : S = j2 * j2 * j2 - c * (j3 * j3)) by reflexivity;
    clearbody S j2 j3; unf_c;
    field_simplify_eq; [ ring [ES sqrt2_sq] | nz_side ]
  end.
Ltac crit_S6 unf_leaf unf_c J2 J3 :=
  unf_leaf; unfold Rpower;
  match goal with
  | HS : 0 < ?s6 |- _ =>
    let HS' := fresh "HS'" in
    assert (HS' := HS); unfold S6_of in HS';
    auto_derive;
    [ side_split; first [ ex_der_hyp | (eapply Rlt_le_trans; [exact HS | right; unfold S6_of; field]) | lra ]
    | clear HS'; derive_rw; close_S6 s6 unf_c ]
  end.

(* ---- A4: seq = cbrt (sqrt(J2)^3 - c J3);  hypotheses HJ : 0 < J2, HA : 0 < A4_of J2 J3 c in the context *)
Ltac crit_A4 unf_leaf unf_c J2 J3 :=
  unf_leaf;
  match goal with
  | HA : 0 < A4_of ?j2 ?j3 ?c |- _ =>
    match goal with
    | HJ : 0 < j2 |- _ =>
      let R := fresh "R" in let Q := fresh "Q" in let HR := fresh "HR" in let HQ := fresh "HQ" in
      pose proof (sqrt_lt_R0 j2 HJ) as HR; pose proof (Rcbrt_pos _ HA) as HQ;
      auto_derive;
      [ canon_sqrt j2; canon_cbrt (A4_of j2 j3 c);
        set (R := sqrt j2) in *; set (Q := Rcbrt (A4_of j2 j3 c)) in *;
        side_split;
        first [ ex_der_hyp | (exists (/ (3 * (Q * Q))); exact (is_derive_Rcbrt _ HA)) | lra ]
      | canon_sqrt j2; canon_cbrt (A4_of j2 j3 c);
        let HD := fresh "HD" in pose proof (is_derive_Rcbrt _ HA) as HD;
        derive_rw;
        set (R := sqrt j2) in *; set (Q := Rcbrt (A4_of j2 j3 c)) in *;
        clearbody R Q; unf_c;
        field_simplify_eq; [ ring [sqrt2_sq] | nz_side ] ]
    end
  end.

(* ---- from the decision tree to its leaf *)
Ltac tree_leaf chg chgH H1 :=
  chg; lazy zeta;
  let Hc := fresh "Hc" in
  match goal with |- context [Rlt_dec ?a ?b] => destruct (Rlt_dec a b) as [Hc|Hc] end;
  first [ (exfalso; first [ (apply Hc; lra) | lra | (chgH; lazy zeta in H1; lra) ]) | reflexivity ].

(* make the arguments of the special functions syntactically equal on both sides of an identity *)
Ltac canon_args :=
  repeat match goal with
         | |- context [sqrt ?a] =>
           match goal with |- context [sqrt ?b] => tryif constr_eq a b then fail else (replace a with b by field) end
         | |- context [Rpower ?a ?e] =>
           match goal with |- context [Rpower ?b e] => tryif constr_eq a b then fail else (replace a with b by field) end
         | |- context [Rcbrt ?a] =>
           match goal with |- context [Rcbrt ?b] => tryif constr_eq a b then fail else (replace a with b by field) end
         end.
Ltac expr_eq := first [ reflexivity | (canon_args; first [ reflexivity | ring | (field_simplify_eq; [ ring [sqrt2_sq] | nz_side ]) ]) ].
Ltac list_eq := repeat (apply f_equal2; [ expr_eq | ]); reflexivity.
Ltac same_leaves unf :=
  unf; lazy zeta; split; [ | split ];
  [ eexists; apply f_equal; apply f_equal2; [ expr_eq | reflexivity ]
  | eexists; apply f_equal; apply f_equal2; [ expr_eq | reflexivity ]
  | lazy beta delta [out firstn] iota; first [ reflexivity | list_eq ] ].

(* ---- symmetry of the returned second derivative: an identity between entries of the same leaf *)
Ltac sym_entry unf_leaf unf_c J2 J3 :=
  unf_leaf; unf_c;
  first [ reflexivity
        | match goal with
          | HS : 0 < ?s6 |- _ =>
            match s6 with S6_of _ _ _ => unfold Rpower; close_S6 s6 ltac:(idtac) end
          | HA : 0 < A4_of ?j2 ?j3 ?c |- _ =>
            match goal with
            | HJ : 0 < j2 |- _ =>
              let R := fresh "R" in let Q := fresh "Q" in let HR := fresh "HR" in let HQ := fresh "HQ" in
              pose proof (sqrt_lt_R0 j2 HJ) as HR; pose proof (Rcbrt_pos _ HA) as HQ;
              canon_sqrt j2; canon_cbrt (A4_of j2 j3 c);
              set (R := sqrt j2) in *; set (Q := Rcbrt (A4_of j2 j3 c)) in *; clearbody R Q;
              field_simplify_eq; [ ring [sqrt2_sq] | nz_side ]
            end
          end ].

(* ---- degree-one homogeneity *)
Ltac hom_S6 unf E2 E3 :=
  unf; lazy zeta; rewrite ?E2, ?E3;
  match goal with
  | HS : 0 < S6_of _ _ _, Ht : 0 < ?t |- ?lhs = ?rhs =>
    match lhs with context [Rpower ?a ?e] =>
      match rhs with context [Rpower ?b e] =>
        replace a with (t * t * t * t * t * t * b) by (unfold S6_of; field);
        rewrite (Rpower_scale6 t b Ht) by (eapply Rlt_le_trans; [exact HS | right; unfold S6_of; field]);
        ring
      end
    end
  end.

Ltac hom_A4 unf E2 E3 :=
  unf; lazy zeta; rewrite ?E2, ?E3;
  match goal with
  | HA : 0 < A4_of ?j2 ?j3 ?c, Ht : 0 < ?t |- _ =>
    match goal with
    | HJ : 0 < j2 |- _ =>
      (* sqrt (t t J2) = t sqrt J2 *)
      repeat match goal with
             | |- context [sqrt ?a] =>
               tryif first [ constr_eq a j2 | constr_eq a 2 | constr_eq a 3 ] then fail
               else (replace a with (t * t * j2) by field; rewrite (sqrt_scale2 t j2 Ht (Rlt_le _ _ HJ)))
             end;
      repeat match goal with
             | |- context [Rcbrt ?a] =>
               tryif constr_eq a (A4_of j2 j3 c) then fail
               else first [ (replace a with (A4_of j2 j3 c) by (lazy beta delta [A4_of]; field))
                          | (replace a with (t * t * t * A4_of j2 j3 c) by (lazy beta delta [A4_of]; field);
                             rewrite (Rcbrt_scale3 t _ Ht HA)) ]
             end;
      ring
    end
  end.

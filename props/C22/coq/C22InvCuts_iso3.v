(* C22 -- the cut quantities are polynomials whose derivatives are the next cut quantities (written by mkcoq.py).
   iso: d(s|s)/ds_j = 2 dev_j, dJ3/ds_j = b_j (computeJ3Derivative), db_i/ds_j = h_ij (computeJ3SecondDerivative);
   ort: dJ2O/ds_j = p_j, dp_i/ds_j = q_ij, dJ3O/ds_j = r_j, dr_i/ds_j = t_ij (computeJ2O/J3O[Second]Derivative). *)
From Coq Require Import Reals List Lra.
From Coquelicot Require Import Coquelicot.
From VLib Require Import RealExtra.
From C22 Require Import C22InvSpec C22InvTac C22inv_gen.
Import ListNotations.
Local Open Scope R_scope.

Lemma iso3_dss_0 s0 s1 s2 s3 s4 s5 : is_derive (fun x => (iso_ss_3 x s1 s2 s3 s4 s5)) s0 (2 * (s0 - (s0 + s1 + s2) / 3)).
Proof. unfold iso_ss_3. cutder. Qed.
Lemma iso3_dj3_0 s0 s1 s2 s3 s4 s5 : is_derive (fun x => (iso_j3_3 x s1 s2 s3 s4 s5)) s0 (iso_b0_3 s0 s1 s2 s3 s4 s5).
Proof. unfold iso_b0_3, iso_j3_3. cutder. Qed.
Lemma iso3_db0_0 s0 s1 s2 s3 s4 s5 : is_derive (fun x => (iso_b0_3 x s1 s2 s3 s4 s5)) s0 (iso_h00_3 s0 s1 s2 s3 s4 s5).
Proof. unfold iso_b0_3, iso_h00_3. cutder. Qed.
Lemma iso3_db1_0 s0 s1 s2 s3 s4 s5 : is_derive (fun x => (iso_b1_3 x s1 s2 s3 s4 s5)) s0 (iso_h10_3 s0 s1 s2 s3 s4 s5).
Proof. unfold iso_b1_3, iso_h10_3. cutder. Qed.
Lemma iso3_db2_0 s0 s1 s2 s3 s4 s5 : is_derive (fun x => (iso_b2_3 x s1 s2 s3 s4 s5)) s0 (iso_h20_3 s0 s1 s2 s3 s4 s5).
Proof. unfold iso_b2_3, iso_h20_3. cutder. Qed.
Lemma iso3_db3_0 s0 s1 s2 s3 s4 s5 : is_derive (fun x => (iso_b3_3 x s1 s2 s3 s4 s5)) s0 (iso_h30_3 s0 s1 s2 s3 s4 s5).
Proof. unfold iso_b3_3, iso_h30_3. cutder. Qed.
Lemma iso3_db4_0 s0 s1 s2 s3 s4 s5 : is_derive (fun x => (iso_b4_3 x s1 s2 s3 s4 s5)) s0 (iso_h40_3 s0 s1 s2 s3 s4 s5).
Proof. unfold iso_b4_3, iso_h40_3. cutder. Qed.
Lemma iso3_db5_0 s0 s1 s2 s3 s4 s5 : is_derive (fun x => (iso_b5_3 x s1 s2 s3 s4 s5)) s0 (iso_h50_3 s0 s1 s2 s3 s4 s5).
Proof. unfold iso_b5_3, iso_h50_3. cutder. Qed.
Lemma iso3_dss_1 s0 s1 s2 s3 s4 s5 : is_derive (fun x => (iso_ss_3 s0 x s2 s3 s4 s5)) s1 (2 * (s1 - (s0 + s1 + s2) / 3)).
Proof. unfold iso_ss_3. cutder. Qed.
Lemma iso3_dj3_1 s0 s1 s2 s3 s4 s5 : is_derive (fun x => (iso_j3_3 s0 x s2 s3 s4 s5)) s1 (iso_b1_3 s0 s1 s2 s3 s4 s5).
Proof. unfold iso_b1_3, iso_j3_3. cutder. Qed.
Lemma iso3_db0_1 s0 s1 s2 s3 s4 s5 : is_derive (fun x => (iso_b0_3 s0 x s2 s3 s4 s5)) s1 (iso_h01_3 s0 s1 s2 s3 s4 s5).
Proof. unfold iso_b0_3, iso_h01_3. cutder. Qed.
Lemma iso3_db1_1 s0 s1 s2 s3 s4 s5 : is_derive (fun x => (iso_b1_3 s0 x s2 s3 s4 s5)) s1 (iso_h11_3 s0 s1 s2 s3 s4 s5).
Proof. unfold iso_b1_3, iso_h11_3. cutder. Qed.
Lemma iso3_db2_1 s0 s1 s2 s3 s4 s5 : is_derive (fun x => (iso_b2_3 s0 x s2 s3 s4 s5)) s1 (iso_h21_3 s0 s1 s2 s3 s4 s5).
Proof. unfold iso_b2_3, iso_h21_3. cutder. Qed.
Lemma iso3_db3_1 s0 s1 s2 s3 s4 s5 : is_derive (fun x => (iso_b3_3 s0 x s2 s3 s4 s5)) s1 (iso_h31_3 s0 s1 s2 s3 s4 s5).
Proof. unfold iso_b3_3, iso_h31_3. cutder. Qed.
Lemma iso3_db4_1 s0 s1 s2 s3 s4 s5 : is_derive (fun x => (iso_b4_3 s0 x s2 s3 s4 s5)) s1 (iso_h41_3 s0 s1 s2 s3 s4 s5).
Proof. unfold iso_b4_3, iso_h41_3. cutder. Qed.
Lemma iso3_db5_1 s0 s1 s2 s3 s4 s5 : is_derive (fun x => (iso_b5_3 s0 x s2 s3 s4 s5)) s1 (iso_h51_3 s0 s1 s2 s3 s4 s5).
Proof. unfold iso_b5_3, iso_h51_3. cutder. Qed.
Lemma iso3_dss_2 s0 s1 s2 s3 s4 s5 : is_derive (fun x => (iso_ss_3 s0 s1 x s3 s4 s5)) s2 (2 * (s2 - (s0 + s1 + s2) / 3)).
Proof. unfold iso_ss_3. cutder. Qed.
Lemma iso3_dj3_2 s0 s1 s2 s3 s4 s5 : is_derive (fun x => (iso_j3_3 s0 s1 x s3 s4 s5)) s2 (iso_b2_3 s0 s1 s2 s3 s4 s5).
Proof. unfold iso_b2_3, iso_j3_3. cutder. Qed.
Lemma iso3_db0_2 s0 s1 s2 s3 s4 s5 : is_derive (fun x => (iso_b0_3 s0 s1 x s3 s4 s5)) s2 (iso_h02_3 s0 s1 s2 s3 s4 s5).
Proof. unfold iso_b0_3, iso_h02_3. cutder. Qed.
Lemma iso3_db1_2 s0 s1 s2 s3 s4 s5 : is_derive (fun x => (iso_b1_3 s0 s1 x s3 s4 s5)) s2 (iso_h12_3 s0 s1 s2 s3 s4 s5).
Proof. unfold iso_b1_3, iso_h12_3. cutder. Qed.
Lemma iso3_db2_2 s0 s1 s2 s3 s4 s5 : is_derive (fun x => (iso_b2_3 s0 s1 x s3 s4 s5)) s2 (iso_h22_3 s0 s1 s2 s3 s4 s5).
Proof. unfold iso_b2_3, iso_h22_3. cutder. Qed.
Lemma iso3_db3_2 s0 s1 s2 s3 s4 s5 : is_derive (fun x => (iso_b3_3 s0 s1 x s3 s4 s5)) s2 (iso_h32_3 s0 s1 s2 s3 s4 s5).
Proof. unfold iso_b3_3, iso_h32_3. cutder. Qed.
Lemma iso3_db4_2 s0 s1 s2 s3 s4 s5 : is_derive (fun x => (iso_b4_3 s0 s1 x s3 s4 s5)) s2 (iso_h42_3 s0 s1 s2 s3 s4 s5).
Proof. unfold iso_b4_3, iso_h42_3. cutder. Qed.
Lemma iso3_db5_2 s0 s1 s2 s3 s4 s5 : is_derive (fun x => (iso_b5_3 s0 s1 x s3 s4 s5)) s2 (iso_h52_3 s0 s1 s2 s3 s4 s5).
Proof. unfold iso_b5_3, iso_h52_3. cutder. Qed.
Lemma iso3_dss_3 s0 s1 s2 s3 s4 s5 : is_derive (fun x => (iso_ss_3 s0 s1 s2 x s4 s5)) s3 (2 * s3).
Proof. unfold iso_ss_3. cutder. Qed.
Lemma iso3_dj3_3 s0 s1 s2 s3 s4 s5 : is_derive (fun x => (iso_j3_3 s0 s1 s2 x s4 s5)) s3 (iso_b3_3 s0 s1 s2 s3 s4 s5).
Proof. unfold iso_b3_3, iso_j3_3. cutder. Qed.
Lemma iso3_db0_3 s0 s1 s2 s3 s4 s5 : is_derive (fun x => (iso_b0_3 s0 s1 s2 x s4 s5)) s3 (iso_h03_3 s0 s1 s2 s3 s4 s5).
Proof. unfold iso_b0_3, iso_h03_3. cutder. Qed.
Lemma iso3_db1_3 s0 s1 s2 s3 s4 s5 : is_derive (fun x => (iso_b1_3 s0 s1 s2 x s4 s5)) s3 (iso_h13_3 s0 s1 s2 s3 s4 s5).
Proof. unfold iso_b1_3, iso_h13_3. cutder. Qed.
Lemma iso3_db2_3 s0 s1 s2 s3 s4 s5 : is_derive (fun x => (iso_b2_3 s0 s1 s2 x s4 s5)) s3 (iso_h23_3 s0 s1 s2 s3 s4 s5).
Proof. unfold iso_b2_3, iso_h23_3. cutder. Qed.
Lemma iso3_db3_3 s0 s1 s2 s3 s4 s5 : is_derive (fun x => (iso_b3_3 s0 s1 s2 x s4 s5)) s3 (iso_h33_3 s0 s1 s2 s3 s4 s5).
Proof. unfold iso_b3_3, iso_h33_3. cutder. Qed.
Lemma iso3_db4_3 s0 s1 s2 s3 s4 s5 : is_derive (fun x => (iso_b4_3 s0 s1 s2 x s4 s5)) s3 (iso_h43_3 s0 s1 s2 s3 s4 s5).
Proof. unfold iso_b4_3, iso_h43_3. cutder. Qed.
Lemma iso3_db5_3 s0 s1 s2 s3 s4 s5 : is_derive (fun x => (iso_b5_3 s0 s1 s2 x s4 s5)) s3 (iso_h53_3 s0 s1 s2 s3 s4 s5).
Proof. unfold iso_b5_3, iso_h53_3. cutder. Qed.
Lemma iso3_dss_4 s0 s1 s2 s3 s4 s5 : is_derive (fun x => (iso_ss_3 s0 s1 s2 s3 x s5)) s4 (2 * s4).
Proof. unfold iso_ss_3. cutder. Qed.
Lemma iso3_dj3_4 s0 s1 s2 s3 s4 s5 : is_derive (fun x => (iso_j3_3 s0 s1 s2 s3 x s5)) s4 (iso_b4_3 s0 s1 s2 s3 s4 s5).
Proof. unfold iso_b4_3, iso_j3_3. cutder. Qed.
Lemma iso3_db0_4 s0 s1 s2 s3 s4 s5 : is_derive (fun x => (iso_b0_3 s0 s1 s2 s3 x s5)) s4 (iso_h04_3 s0 s1 s2 s3 s4 s5).
Proof. unfold iso_b0_3, iso_h04_3. cutder. Qed.
Lemma iso3_db1_4 s0 s1 s2 s3 s4 s5 : is_derive (fun x => (iso_b1_3 s0 s1 s2 s3 x s5)) s4 (iso_h14_3 s0 s1 s2 s3 s4 s5).
Proof. unfold iso_b1_3, iso_h14_3. cutder. Qed.
Lemma iso3_db2_4 s0 s1 s2 s3 s4 s5 : is_derive (fun x => (iso_b2_3 s0 s1 s2 s3 x s5)) s4 (iso_h24_3 s0 s1 s2 s3 s4 s5).
Proof. unfold iso_b2_3, iso_h24_3. cutder. Qed.
Lemma iso3_db3_4 s0 s1 s2 s3 s4 s5 : is_derive (fun x => (iso_b3_3 s0 s1 s2 s3 x s5)) s4 (iso_h34_3 s0 s1 s2 s3 s4 s5).
Proof. unfold iso_b3_3, iso_h34_3. cutder. Qed.
Lemma iso3_db4_4 s0 s1 s2 s3 s4 s5 : is_derive (fun x => (iso_b4_3 s0 s1 s2 s3 x s5)) s4 (iso_h44_3 s0 s1 s2 s3 s4 s5).
Proof. unfold iso_b4_3, iso_h44_3. cutder. Qed.
Lemma iso3_db5_4 s0 s1 s2 s3 s4 s5 : is_derive (fun x => (iso_b5_3 s0 s1 s2 s3 x s5)) s4 (iso_h54_3 s0 s1 s2 s3 s4 s5).
Proof. unfold iso_b5_3, iso_h54_3. cutder. Qed.
Lemma iso3_dss_5 s0 s1 s2 s3 s4 s5 : is_derive (fun x => (iso_ss_3 s0 s1 s2 s3 s4 x)) s5 (2 * s5).
Proof. unfold iso_ss_3. cutder. Qed.
Lemma iso3_dj3_5 s0 s1 s2 s3 s4 s5 : is_derive (fun x => (iso_j3_3 s0 s1 s2 s3 s4 x)) s5 (iso_b5_3 s0 s1 s2 s3 s4 s5).
Proof. unfold iso_b5_3, iso_j3_3. cutder. Qed.
Lemma iso3_db0_5 s0 s1 s2 s3 s4 s5 : is_derive (fun x => (iso_b0_3 s0 s1 s2 s3 s4 x)) s5 (iso_h05_3 s0 s1 s2 s3 s4 s5).
Proof. unfold iso_b0_3, iso_h05_3. cutder. Qed.
Lemma iso3_db1_5 s0 s1 s2 s3 s4 s5 : is_derive (fun x => (iso_b1_3 s0 s1 s2 s3 s4 x)) s5 (iso_h15_3 s0 s1 s2 s3 s4 s5).
Proof. unfold iso_b1_3, iso_h15_3. cutder. Qed.
Lemma iso3_db2_5 s0 s1 s2 s3 s4 s5 : is_derive (fun x => (iso_b2_3 s0 s1 s2 s3 s4 x)) s5 (iso_h25_3 s0 s1 s2 s3 s4 s5).
Proof. unfold iso_b2_3, iso_h25_3. cutder. Qed.
Lemma iso3_db3_5 s0 s1 s2 s3 s4 s5 : is_derive (fun x => (iso_b3_3 s0 s1 s2 s3 s4 x)) s5 (iso_h35_3 s0 s1 s2 s3 s4 s5).
Proof. unfold iso_b3_3, iso_h35_3. cutder. Qed.
Lemma iso3_db4_5 s0 s1 s2 s3 s4 s5 : is_derive (fun x => (iso_b4_3 s0 s1 s2 s3 s4 x)) s5 (iso_h45_3 s0 s1 s2 s3 s4 s5).
Proof. unfold iso_b4_3, iso_h45_3. cutder. Qed.
Lemma iso3_db5_5 s0 s1 s2 s3 s4 s5 : is_derive (fun x => (iso_b5_3 s0 s1 s2 s3 s4 x)) s5 (iso_h55_3 s0 s1 s2 s3 s4 s5).
Proof. unfold iso_b5_3, iso_h55_3. cutder. Qed.

(* C22 -- the cut quantities are polynomials whose derivatives are the next cut quantities (written by mkcoq.py).
   iso: d(s|s)/ds_j = 2 dev_j, dJ3/ds_j = b_j (computeJ3Derivative), db_i/ds_j = h_ij (computeJ3SecondDerivative);
   ort: dJ2O/ds_j = p_j, dp_i/ds_j = q_ij, dJ3O/ds_j = r_j, dr_i/ds_j = t_ij (computeJ2O/J3O[Second]Derivative). *)
From Coq Require Import Reals List Lra.
From Coquelicot Require Import Coquelicot.
From VLib Require Import RealExtra.
From C22 Require Import C22InvSpec C22InvTac C22inv_gen.
Import ListNotations.
Local Open Scope R_scope.

Lemma ort1_dk2_0 s0 s1 s2 a0 a1 a2 a3 a4 a5 b0 b1 b2 b3 b4 b5 b6 b7 b8 b9 b10 : is_derive (fun x => (ort_k2_1 x s1 s2 a0 a1 a2 a3 a4 a5 b0 b1 b2 b3 b4 b5 b6 b7 b8 b9 b10)) s0 (ort_p0_1 s0 s1 s2 a0 a1 a2 a3 a4 a5 b0 b1 b2 b3 b4 b5 b6 b7 b8 b9 b10).
Proof. unfold ort_k2_1, ort_p0_1. cutder. Qed.
Lemma ort1_dk3_0 s0 s1 s2 a0 a1 a2 a3 a4 a5 b0 b1 b2 b3 b4 b5 b6 b7 b8 b9 b10 : is_derive (fun x => (ort_k3_1 x s1 s2 a0 a1 a2 a3 a4 a5 b0 b1 b2 b3 b4 b5 b6 b7 b8 b9 b10)) s0 (ort_r0_1 s0 s1 s2 a0 a1 a2 a3 a4 a5 b0 b1 b2 b3 b4 b5 b6 b7 b8 b9 b10).
Proof. unfold ort_k3_1, ort_r0_1. cutder. Qed.
Lemma ort1_dp0_0 s0 s1 s2 a0 a1 a2 a3 a4 a5 b0 b1 b2 b3 b4 b5 b6 b7 b8 b9 b10 : is_derive (fun x => (ort_p0_1 x s1 s2 a0 a1 a2 a3 a4 a5 b0 b1 b2 b3 b4 b5 b6 b7 b8 b9 b10)) s0 (ort_q00_1 s0 s1 s2 a0 a1 a2 a3 a4 a5 b0 b1 b2 b3 b4 b5 b6 b7 b8 b9 b10).
Proof. unfold ort_p0_1, ort_q00_1. cutder. Qed.
Lemma ort1_dr0_0 s0 s1 s2 a0 a1 a2 a3 a4 a5 b0 b1 b2 b3 b4 b5 b6 b7 b8 b9 b10 : is_derive (fun x => (ort_r0_1 x s1 s2 a0 a1 a2 a3 a4 a5 b0 b1 b2 b3 b4 b5 b6 b7 b8 b9 b10)) s0 (ort_t00_1 s0 s1 s2 a0 a1 a2 a3 a4 a5 b0 b1 b2 b3 b4 b5 b6 b7 b8 b9 b10).
Proof. unfold ort_r0_1, ort_t00_1. cutder. Qed.
Lemma ort1_dp1_0 s0 s1 s2 a0 a1 a2 a3 a4 a5 b0 b1 b2 b3 b4 b5 b6 b7 b8 b9 b10 : is_derive (fun x => (ort_p1_1 x s1 s2 a0 a1 a2 a3 a4 a5 b0 b1 b2 b3 b4 b5 b6 b7 b8 b9 b10)) s0 (ort_q10_1 s0 s1 s2 a0 a1 a2 a3 a4 a5 b0 b1 b2 b3 b4 b5 b6 b7 b8 b9 b10).
Proof. unfold ort_p1_1, ort_q10_1. cutder. Qed.
Lemma ort1_dr1_0 s0 s1 s2 a0 a1 a2 a3 a4 a5 b0 b1 b2 b3 b4 b5 b6 b7 b8 b9 b10 : is_derive (fun x => (ort_r1_1 x s1 s2 a0 a1 a2 a3 a4 a5 b0 b1 b2 b3 b4 b5 b6 b7 b8 b9 b10)) s0 (ort_t10_1 s0 s1 s2 a0 a1 a2 a3 a4 a5 b0 b1 b2 b3 b4 b5 b6 b7 b8 b9 b10).
Proof. unfold ort_r1_1, ort_t10_1. cutder. Qed.
Lemma ort1_dp2_0 s0 s1 s2 a0 a1 a2 a3 a4 a5 b0 b1 b2 b3 b4 b5 b6 b7 b8 b9 b10 : is_derive (fun x => (ort_p2_1 x s1 s2 a0 a1 a2 a3 a4 a5 b0 b1 b2 b3 b4 b5 b6 b7 b8 b9 b10)) s0 (ort_q20_1 s0 s1 s2 a0 a1 a2 a3 a4 a5 b0 b1 b2 b3 b4 b5 b6 b7 b8 b9 b10).
Proof. unfold ort_p2_1, ort_q20_1. cutder. Qed.
Lemma ort1_dr2_0 s0 s1 s2 a0 a1 a2 a3 a4 a5 b0 b1 b2 b3 b4 b5 b6 b7 b8 b9 b10 : is_derive (fun x => (ort_r2_1 x s1 s2 a0 a1 a2 a3 a4 a5 b0 b1 b2 b3 b4 b5 b6 b7 b8 b9 b10)) s0 (ort_t20_1 s0 s1 s2 a0 a1 a2 a3 a4 a5 b0 b1 b2 b3 b4 b5 b6 b7 b8 b9 b10).
Proof. unfold ort_r2_1, ort_t20_1. cutder. Qed.
Lemma ort1_dk2_1 s0 s1 s2 a0 a1 a2 a3 a4 a5 b0 b1 b2 b3 b4 b5 b6 b7 b8 b9 b10 : is_derive (fun x => (ort_k2_1 s0 x s2 a0 a1 a2 a3 a4 a5 b0 b1 b2 b3 b4 b5 b6 b7 b8 b9 b10)) s1 (ort_p1_1 s0 s1 s2 a0 a1 a2 a3 a4 a5 b0 b1 b2 b3 b4 b5 b6 b7 b8 b9 b10).
Proof. unfold ort_k2_1, ort_p1_1. cutder. Qed.
Lemma ort1_dk3_1 s0 s1 s2 a0 a1 a2 a3 a4 a5 b0 b1 b2 b3 b4 b5 b6 b7 b8 b9 b10 : is_derive (fun x => (ort_k3_1 s0 x s2 a0 a1 a2 a3 a4 a5 b0 b1 b2 b3 b4 b5 b6 b7 b8 b9 b10)) s1 (ort_r1_1 s0 s1 s2 a0 a1 a2 a3 a4 a5 b0 b1 b2 b3 b4 b5 b6 b7 b8 b9 b10).
Proof. unfold ort_k3_1, ort_r1_1. cutder. Qed.
Lemma ort1_dp0_1 s0 s1 s2 a0 a1 a2 a3 a4 a5 b0 b1 b2 b3 b4 b5 b6 b7 b8 b9 b10 : is_derive (fun x => (ort_p0_1 s0 x s2 a0 a1 a2 a3 a4 a5 b0 b1 b2 b3 b4 b5 b6 b7 b8 b9 b10)) s1 (ort_q01_1 s0 s1 s2 a0 a1 a2 a3 a4 a5 b0 b1 b2 b3 b4 b5 b6 b7 b8 b9 b10).
Proof. unfold ort_p0_1, ort_q01_1. cutder. Qed.
Lemma ort1_dr0_1 s0 s1 s2 a0 a1 a2 a3 a4 a5 b0 b1 b2 b3 b4 b5 b6 b7 b8 b9 b10 : is_derive (fun x => (ort_r0_1 s0 x s2 a0 a1 a2 a3 a4 a5 b0 b1 b2 b3 b4 b5 b6 b7 b8 b9 b10)) s1 (ort_t01_1 s0 s1 s2 a0 a1 a2 a3 a4 a5 b0 b1 b2 b3 b4 b5 b6 b7 b8 b9 b10).
Proof. unfold ort_r0_1, ort_t01_1. cutder. Qed.
Lemma ort1_dp1_1 s0 s1 s2 a0 a1 a2 a3 a4 a5 b0 b1 b2 b3 b4 b5 b6 b7 b8 b9 b10 : is_derive (fun x => (ort_p1_1 s0 x s2 a0 a1 a2 a3 a4 a5 b0 b1 b2 b3 b4 b5 b6 b7 b8 b9 b10)) s1 (ort_q11_1 s0 s1 s2 a0 a1 a2 a3 a4 a5 b0 b1 b2 b3 b4 b5 b6 b7 b8 b9 b10).
Proof. unfold ort_p1_1, ort_q11_1. cutder. Qed.
Lemma ort1_dr1_1 s0 s1 s2 a0 a1 a2 a3 a4 a5 b0 b1 b2 b3 b4 b5 b6 b7 b8 b9 b10 : is_derive (fun x => (ort_r1_1 s0 x s2 a0 a1 a2 a3 a4 a5 b0 b1 b2 b3 b4 b5 b6 b7 b8 b9 b10)) s1 (ort_t11_1 s0 s1 s2 a0 a1 a2 a3 a4 a5 b0 b1 b2 b3 b4 b5 b6 b7 b8 b9 b10).
Proof. unfold ort_r1_1, ort_t11_1. cutder. Qed.
Lemma ort1_dp2_1 s0 s1 s2 a0 a1 a2 a3 a4 a5 b0 b1 b2 b3 b4 b5 b6 b7 b8 b9 b10 : is_derive (fun x => (ort_p2_1 s0 x s2 a0 a1 a2 a3 a4 a5 b0 b1 b2 b3 b4 b5 b6 b7 b8 b9 b10)) s1 (ort_q21_1 s0 s1 s2 a0 a1 a2 a3 a4 a5 b0 b1 b2 b3 b4 b5 b6 b7 b8 b9 b10).
Proof. unfold ort_p2_1, ort_q21_1. cutder. Qed.
Lemma ort1_dr2_1 s0 s1 s2 a0 a1 a2 a3 a4 a5 b0 b1 b2 b3 b4 b5 b6 b7 b8 b9 b10 : is_derive (fun x => (ort_r2_1 s0 x s2 a0 a1 a2 a3 a4 a5 b0 b1 b2 b3 b4 b5 b6 b7 b8 b9 b10)) s1 (ort_t21_1 s0 s1 s2 a0 a1 a2 a3 a4 a5 b0 b1 b2 b3 b4 b5 b6 b7 b8 b9 b10).
Proof. unfold ort_r2_1, ort_t21_1. cutder. Qed.
Lemma ort1_dk2_2 s0 s1 s2 a0 a1 a2 a3 a4 a5 b0 b1 b2 b3 b4 b5 b6 b7 b8 b9 b10 : is_derive (fun x => (ort_k2_1 s0 s1 x a0 a1 a2 a3 a4 a5 b0 b1 b2 b3 b4 b5 b6 b7 b8 b9 b10)) s2 (ort_p2_1 s0 s1 s2 a0 a1 a2 a3 a4 a5 b0 b1 b2 b3 b4 b5 b6 b7 b8 b9 b10).
Proof. unfold ort_k2_1, ort_p2_1. cutder. Qed.
Lemma ort1_dk3_2 s0 s1 s2 a0 a1 a2 a3 a4 a5 b0 b1 b2 b3 b4 b5 b6 b7 b8 b9 b10 : is_derive (fun x => (ort_k3_1 s0 s1 x a0 a1 a2 a3 a4 a5 b0 b1 b2 b3 b4 b5 b6 b7 b8 b9 b10)) s2 (ort_r2_1 s0 s1 s2 a0 a1 a2 a3 a4 a5 b0 b1 b2 b3 b4 b5 b6 b7 b8 b9 b10).
Proof. unfold ort_k3_1, ort_r2_1. cutder. Qed.
Lemma ort1_dp0_2 s0 s1 s2 a0 a1 a2 a3 a4 a5 b0 b1 b2 b3 b4 b5 b6 b7 b8 b9 b10 : is_derive (fun x => (ort_p0_1 s0 s1 x a0 a1 a2 a3 a4 a5 b0 b1 b2 b3 b4 b5 b6 b7 b8 b9 b10)) s2 (ort_q02_1 s0 s1 s2 a0 a1 a2 a3 a4 a5 b0 b1 b2 b3 b4 b5 b6 b7 b8 b9 b10).
Proof. unfold ort_p0_1, ort_q02_1. cutder. Qed.
Lemma ort1_dr0_2 s0 s1 s2 a0 a1 a2 a3 a4 a5 b0 b1 b2 b3 b4 b5 b6 b7 b8 b9 b10 : is_derive (fun x => (ort_r0_1 s0 s1 x a0 a1 a2 a3 a4 a5 b0 b1 b2 b3 b4 b5 b6 b7 b8 b9 b10)) s2 (ort_t02_1 s0 s1 s2 a0 a1 a2 a3 a4 a5 b0 b1 b2 b3 b4 b5 b6 b7 b8 b9 b10).
Proof. unfold ort_r0_1, ort_t02_1. cutder. Qed.
Lemma ort1_dp1_2 s0 s1 s2 a0 a1 a2 a3 a4 a5 b0 b1 b2 b3 b4 b5 b6 b7 b8 b9 b10 : is_derive (fun x => (ort_p1_1 s0 s1 x a0 a1 a2 a3 a4 a5 b0 b1 b2 b3 b4 b5 b6 b7 b8 b9 b10)) s2 (ort_q12_1 s0 s1 s2 a0 a1 a2 a3 a4 a5 b0 b1 b2 b3 b4 b5 b6 b7 b8 b9 b10).
Proof. unfold ort_p1_1, ort_q12_1. cutder. Qed.
Lemma ort1_dr1_2 s0 s1 s2 a0 a1 a2 a3 a4 a5 b0 b1 b2 b3 b4 b5 b6 b7 b8 b9 b10 : is_derive (fun x => (ort_r1_1 s0 s1 x a0 a1 a2 a3 a4 a5 b0 b1 b2 b3 b4 b5 b6 b7 b8 b9 b10)) s2 (ort_t12_1 s0 s1 s2 a0 a1 a2 a3 a4 a5 b0 b1 b2 b3 b4 b5 b6 b7 b8 b9 b10).
Proof. unfold ort_r1_1, ort_t12_1. cutder. Qed.
Lemma ort1_dp2_2 s0 s1 s2 a0 a1 a2 a3 a4 a5 b0 b1 b2 b3 b4 b5 b6 b7 b8 b9 b10 : is_derive (fun x => (ort_p2_1 s0 s1 x a0 a1 a2 a3 a4 a5 b0 b1 b2 b3 b4 b5 b6 b7 b8 b9 b10)) s2 (ort_q22_1 s0 s1 s2 a0 a1 a2 a3 a4 a5 b0 b1 b2 b3 b4 b5 b6 b7 b8 b9 b10).
Proof. unfold ort_p2_1, ort_q22_1. cutder. Qed.
Lemma ort1_dr2_2 s0 s1 s2 a0 a1 a2 a3 a4 a5 b0 b1 b2 b3 b4 b5 b6 b7 b8 b9 b10 : is_derive (fun x => (ort_r2_1 s0 s1 x a0 a1 a2 a3 a4 a5 b0 b1 b2 b3 b4 b5 b6 b7 b8 b9 b10)) s2 (ort_t22_1 s0 s1 s2 a0 a1 a2 a3 a4 a5 b0 b1 b2 b3 b4 b5 b6 b7 b8 b9 b10).
Proof. unfold ort_r2_1, ort_t22_1. cutder. Qed.

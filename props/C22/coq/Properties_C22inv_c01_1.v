(* C22 -- Cazacu 2001 (computeCazacu2001StressCriterion, ...Normal, ...SecondDerivative), N = 1: property theorems (statements in C22InvStatements.v, proofs in C22Inv_c01_1.v over the
   definitions regenerated from /repo).  same: the three variants return the same value and the two derivative variants the
   same normal; grad: the normal is the gradient of the value; hess: the second derivative is the Jacobian of the normal;
   sym: it is symmetric; hom: the value is positively homogeneous of degree one. *)
From Coq Require Import Reals List Lra.
From Coquelicot Require Import Coquelicot.
From VLib Require Import RealExtra.
From C22 Require Import C22InvSpec C22inv_gen C22InvStatements C22Inv_c01_1.
Import ListNotations.
Local Open Scope R_scope.

Theorem C22_c01_1_same : c01_1_same_stmt.
Proof. exact c01_1_same_ok. Qed.
Print Assumptions C22_c01_1_same.
Theorem C22_c01_1_grad : c01_1_grad_stmt.
Proof. exact c01_1_grad_ok. Qed.
Print Assumptions C22_c01_1_grad.
Theorem C22_c01_1_hess : c01_1_hess_stmt.
Proof. exact c01_1_hess_ok. Qed.
Print Assumptions C22_c01_1_hess.
Theorem C22_c01_1_sym : c01_1_sym_stmt.
Proof. exact c01_1_sym_ok. Qed.
Print Assumptions C22_c01_1_sym.
Theorem C22_c01_1_hom : c01_1_hom_stmt.
Proof. exact c01_1_hom_ok. Qed.
Print Assumptions C22_c01_1_hom.

(* C22 -- the cut quantities are polynomials whose derivatives are the next cut quantities (written by mkcoq.py).
   iso: d(s|s)/ds_j = 2 dev_j, dJ3/ds_j = b_j (computeJ3Derivative), db_i/ds_j = h_ij (computeJ3SecondDerivative);
   ort: dJ2O/ds_j = p_j, dp_i/ds_j = q_ij, dJ3O/ds_j = r_j, dr_i/ds_j = t_ij (computeJ2O/J3O[Second]Derivative). *)
From Coq Require Import Reals List Lra.
From Coquelicot Require Import Coquelicot.
From VLib Require Import RealExtra.
From C22 Require Import C22InvSpec C22InvTac C22inv_gen.
Import ListNotations.
Local Open Scope R_scope.

Lemma ort3_dk2_0 s0 s1 s2 s3 s4 s5 a0 a1 a2 a3 a4 a5 b0 b1 b2 b3 b4 b5 b6 b7 b8 b9 b10 : is_derive (fun x => (ort_k2_3 x s1 s2 s3 s4 s5 a0 a1 a2 a3 a4 a5 b0 b1 b2 b3 b4 b5 b6 b7 b8 b9 b10)) s0 (ort_p0_3 s0 s1 s2 s3 s4 s5 a0 a1 a2 a3 a4 a5 b0 b1 b2 b3 b4 b5 b6 b7 b8 b9 b10).
Proof. unfold ort_k2_3, ort_p0_3. cutder. Qed.
Lemma ort3_dk3_0 s0 s1 s2 s3 s4 s5 a0 a1 a2 a3 a4 a5 b0 b1 b2 b3 b4 b5 b6 b7 b8 b9 b10 : is_derive (fun x => (ort_k3_3 x s1 s2 s3 s4 s5 a0 a1 a2 a3 a4 a5 b0 b1 b2 b3 b4 b5 b6 b7 b8 b9 b10)) s0 (ort_r0_3 s0 s1 s2 s3 s4 s5 a0 a1 a2 a3 a4 a5 b0 b1 b2 b3 b4 b5 b6 b7 b8 b9 b10).
Proof. unfold ort_k3_3, ort_r0_3. cutder. Qed.
Lemma ort3_dp0_0 s0 s1 s2 s3 s4 s5 a0 a1 a2 a3 a4 a5 b0 b1 b2 b3 b4 b5 b6 b7 b8 b9 b10 : is_derive (fun x => (ort_p0_3 x s1 s2 s3 s4 s5 a0 a1 a2 a3 a4 a5 b0 b1 b2 b3 b4 b5 b6 b7 b8 b9 b10)) s0 (ort_q00_3 s0 s1 s2 s3 s4 s5 a0 a1 a2 a3 a4 a5 b0 b1 b2 b3 b4 b5 b6 b7 b8 b9 b10).
Proof. unfold ort_p0_3, ort_q00_3. cutder. Qed.
Lemma ort3_dr0_0 s0 s1 s2 s3 s4 s5 a0 a1 a2 a3 a4 a5 b0 b1 b2 b3 b4 b5 b6 b7 b8 b9 b10 : is_derive (fun x => (ort_r0_3 x s1 s2 s3 s4 s5 a0 a1 a2 a3 a4 a5 b0 b1 b2 b3 b4 b5 b6 b7 b8 b9 b10)) s0 (ort_t00_3 s0 s1 s2 s3 s4 s5 a0 a1 a2 a3 a4 a5 b0 b1 b2 b3 b4 b5 b6 b7 b8 b9 b10).
Proof. unfold ort_r0_3, ort_t00_3. cutder. Qed.
Lemma ort3_dp1_0 s0 s1 s2 s3 s4 s5 a0 a1 a2 a3 a4 a5 b0 b1 b2 b3 b4 b5 b6 b7 b8 b9 b10 : is_derive (fun x => (ort_p1_3 x s1 s2 s3 s4 s5 a0 a1 a2 a3 a4 a5 b0 b1 b2 b3 b4 b5 b6 b7 b8 b9 b10)) s0 (ort_q10_3 s0 s1 s2 s3 s4 s5 a0 a1 a2 a3 a4 a5 b0 b1 b2 b3 b4 b5 b6 b7 b8 b9 b10).
Proof. unfold ort_p1_3, ort_q10_3. cutder. Qed.
Lemma ort3_dr1_0 s0 s1 s2 s3 s4 s5 a0 a1 a2 a3 a4 a5 b0 b1 b2 b3 b4 b5 b6 b7 b8 b9 b10 : is_derive (fun x => (ort_r1_3 x s1 s2 s3 s4 s5 a0 a1 a2 a3 a4 a5 b0 b1 b2 b3 b4 b5 b6 b7 b8 b9 b10)) s0 (ort_t10_3 s0 s1 s2 s3 s4 s5 a0 a1 a2 a3 a4 a5 b0 b1 b2 b3 b4 b5 b6 b7 b8 b9 b10).
Proof. unfold ort_r1_3, ort_t10_3. cutder. Qed.
Lemma ort3_dp2_0 s0 s1 s2 s3 s4 s5 a0 a1 a2 a3 a4 a5 b0 b1 b2 b3 b4 b5 b6 b7 b8 b9 b10 : is_derive (fun x => (ort_p2_3 x s1 s2 s3 s4 s5 a0 a1 a2 a3 a4 a5 b0 b1 b2 b3 b4 b5 b6 b7 b8 b9 b10)) s0 (ort_q20_3 s0 s1 s2 s3 s4 s5 a0 a1 a2 a3 a4 a5 b0 b1 b2 b3 b4 b5 b6 b7 b8 b9 b10).
Proof. unfold ort_p2_3, ort_q20_3. cutder. Qed.
Lemma ort3_dr2_0 s0 s1 s2 s3 s4 s5 a0 a1 a2 a3 a4 a5 b0 b1 b2 b3 b4 b5 b6 b7 b8 b9 b10 : is_derive (fun x => (ort_r2_3 x s1 s2 s3 s4 s5 a0 a1 a2 a3 a4 a5 b0 b1 b2 b3 b4 b5 b6 b7 b8 b9 b10)) s0 (ort_t20_3 s0 s1 s2 s3 s4 s5 a0 a1 a2 a3 a4 a5 b0 b1 b2 b3 b4 b5 b6 b7 b8 b9 b10).
Proof. unfold ort_r2_3, ort_t20_3. cutder. Qed.
Lemma ort3_dp3_0 s0 s1 s2 s3 s4 s5 a0 a1 a2 a3 a4 a5 b0 b1 b2 b3 b4 b5 b6 b7 b8 b9 b10 : is_derive (fun x => (ort_p3_3 x s1 s2 s3 s4 s5 a0 a1 a2 a3 a4 a5 b0 b1 b2 b3 b4 b5 b6 b7 b8 b9 b10)) s0 (ort_q30_3 s0 s1 s2 s3 s4 s5 a0 a1 a2 a3 a4 a5 b0 b1 b2 b3 b4 b5 b6 b7 b8 b9 b10).
Proof. unfold ort_p3_3, ort_q30_3. cutder. Qed.
Lemma ort3_dr3_0 s0 s1 s2 s3 s4 s5 a0 a1 a2 a3 a4 a5 b0 b1 b2 b3 b4 b5 b6 b7 b8 b9 b10 : is_derive (fun x => (ort_r3_3 x s1 s2 s3 s4 s5 a0 a1 a2 a3 a4 a5 b0 b1 b2 b3 b4 b5 b6 b7 b8 b9 b10)) s0 (ort_t30_3 s0 s1 s2 s3 s4 s5 a0 a1 a2 a3 a4 a5 b0 b1 b2 b3 b4 b5 b6 b7 b8 b9 b10).
Proof. unfold ort_r3_3, ort_t30_3. cutder. Qed.
Lemma ort3_dp4_0 s0 s1 s2 s3 s4 s5 a0 a1 a2 a3 a4 a5 b0 b1 b2 b3 b4 b5 b6 b7 b8 b9 b10 : is_derive (fun x => (ort_p4_3 x s1 s2 s3 s4 s5 a0 a1 a2 a3 a4 a5 b0 b1 b2 b3 b4 b5 b6 b7 b8 b9 b10)) s0 (ort_q40_3 s0 s1 s2 s3 s4 s5 a0 a1 a2 a3 a4 a5 b0 b1 b2 b3 b4 b5 b6 b7 b8 b9 b10).
Proof. unfold ort_p4_3, ort_q40_3. cutder. Qed.
Lemma ort3_dr4_0 s0 s1 s2 s3 s4 s5 a0 a1 a2 a3 a4 a5 b0 b1 b2 b3 b4 b5 b6 b7 b8 b9 b10 : is_derive (fun x => (ort_r4_3 x s1 s2 s3 s4 s5 a0 a1 a2 a3 a4 a5 b0 b1 b2 b3 b4 b5 b6 b7 b8 b9 b10)) s0 (ort_t40_3 s0 s1 s2 s3 s4 s5 a0 a1 a2 a3 a4 a5 b0 b1 b2 b3 b4 b5 b6 b7 b8 b9 b10).
Proof. unfold ort_r4_3, ort_t40_3. cutder. Qed.
Lemma ort3_dp5_0 s0 s1 s2 s3 s4 s5 a0 a1 a2 a3 a4 a5 b0 b1 b2 b3 b4 b5 b6 b7 b8 b9 b10 : is_derive (fun x => (ort_p5_3 x s1 s2 s3 s4 s5 a0 a1 a2 a3 a4 a5 b0 b1 b2 b3 b4 b5 b6 b7 b8 b9 b10)) s0 (ort_q50_3 s0 s1 s2 s3 s4 s5 a0 a1 a2 a3 a4 a5 b0 b1 b2 b3 b4 b5 b6 b7 b8 b9 b10).
Proof. unfold ort_p5_3, ort_q50_3. cutder. Qed.
Lemma ort3_dr5_0 s0 s1 s2 s3 s4 s5 a0 a1 a2 a3 a4 a5 b0 b1 b2 b3 b4 b5 b6 b7 b8 b9 b10 : is_derive (fun x => (ort_r5_3 x s1 s2 s3 s4 s5 a0 a1 a2 a3 a4 a5 b0 b1 b2 b3 b4 b5 b6 b7 b8 b9 b10)) s0 (ort_t50_3 s0 s1 s2 s3 s4 s5 a0 a1 a2 a3 a4 a5 b0 b1 b2 b3 b4 b5 b6 b7 b8 b9 b10).
Proof. unfold ort_r5_3, ort_t50_3. cutder. Qed.
Lemma ort3_dk2_1 s0 s1 s2 s3 s4 s5 a0 a1 a2 a3 a4 a5 b0 b1 b2 b3 b4 b5 b6 b7 b8 b9 b10 : is_derive (fun x => (ort_k2_3 s0 x s2 s3 s4 s5 a0 a1 a2 a3 a4 a5 b0 b1 b2 b3 b4 b5 b6 b7 b8 b9 b10)) s1 (ort_p1_3 s0 s1 s2 s3 s4 s5 a0 a1 a2 a3 a4 a5 b0 b1 b2 b3 b4 b5 b6 b7 b8 b9 b10).
Proof. unfold ort_k2_3, ort_p1_3. cutder. Qed.
Lemma ort3_dk3_1 s0 s1 s2 s3 s4 s5 a0 a1 a2 a3 a4 a5 b0 b1 b2 b3 b4 b5 b6 b7 b8 b9 b10 : is_derive (fun x => (ort_k3_3 s0 x s2 s3 s4 s5 a0 a1 a2 a3 a4 a5 b0 b1 b2 b3 b4 b5 b6 b7 b8 b9 b10)) s1 (ort_r1_3 s0 s1 s2 s3 s4 s5 a0 a1 a2 a3 a4 a5 b0 b1 b2 b3 b4 b5 b6 b7 b8 b9 b10).
Proof. unfold ort_k3_3, ort_r1_3. cutder. Qed.
Lemma ort3_dp0_1 s0 s1 s2 s3 s4 s5 a0 a1 a2 a3 a4 a5 b0 b1 b2 b3 b4 b5 b6 b7 b8 b9 b10 : is_derive (fun x => (ort_p0_3 s0 x s2 s3 s4 s5 a0 a1 a2 a3 a4 a5 b0 b1 b2 b3 b4 b5 b6 b7 b8 b9 b10)) s1 (ort_q01_3 s0 s1 s2 s3 s4 s5 a0 a1 a2 a3 a4 a5 b0 b1 b2 b3 b4 b5 b6 b7 b8 b9 b10).
Proof. unfold ort_p0_3, ort_q01_3. cutder. Qed.
Lemma ort3_dr0_1 s0 s1 s2 s3 s4 s5 a0 a1 a2 a3 a4 a5 b0 b1 b2 b3 b4 b5 b6 b7 b8 b9 b10 : is_derive (fun x => (ort_r0_3 s0 x s2 s3 s4 s5 a0 a1 a2 a3 a4 a5 b0 b1 b2 b3 b4 b5 b6 b7 b8 b9 b10)) s1 (ort_t01_3 s0 s1 s2 s3 s4 s5 a0 a1 a2 a3 a4 a5 b0 b1 b2 b3 b4 b5 b6 b7 b8 b9 b10).
Proof. unfold ort_r0_3, ort_t01_3. cutder. Qed.
Lemma ort3_dp1_1 s0 s1 s2 s3 s4 s5 a0 a1 a2 a3 a4 a5 b0 b1 b2 b3 b4 b5 b6 b7 b8 b9 b10 : is_derive (fun x => (ort_p1_3 s0 x s2 s3 s4 s5 a0 a1 a2 a3 a4 a5 b0 b1 b2 b3 b4 b5 b6 b7 b8 b9 b10)) s1 (ort_q11_3 s0 s1 s2 s3 s4 s5 a0 a1 a2 a3 a4 a5 b0 b1 b2 b3 b4 b5 b6 b7 b8 b9 b10).
Proof. unfold ort_p1_3, ort_q11_3. cutder. Qed.
Lemma ort3_dr1_1 s0 s1 s2 s3 s4 s5 a0 a1 a2 a3 a4 a5 b0 b1 b2 b3 b4 b5 b6 b7 b8 b9 b10 : is_derive (fun x => (ort_r1_3 s0 x s2 s3 s4 s5 a0 a1 a2 a3 a4 a5 b0 b1 b2 b3 b4 b5 b6 b7 b8 b9 b10)) s1 (ort_t11_3 s0 s1 s2 s3 s4 s5 a0 a1 a2 a3 a4 a5 b0 b1 b2 b3 b4 b5 b6 b7 b8 b9 b10).
Proof. unfold ort_r1_3, ort_t11_3. cutder. Qed.
Lemma ort3_dp2_1 s0 s1 s2 s3 s4 s5 a0 a1 a2 a3 a4 a5 b0 b1 b2 b3 b4 b5 b6 b7 b8 b9 b10 : is_derive (fun x => (ort_p2_3 s0 x s2 s3 s4 s5 a0 a1 a2 a3 a4 a5 b0 b1 b2 b3 b4 b5 b6 b7 b8 b9 b10)) s1 (ort_q21_3 s0 s1 s2 s3 s4 s5 a0 a1 a2 a3 a4 a5 b0 b1 b2 b3 b4 b5 b6 b7 b8 b9 b10).
Proof. unfold ort_p2_3, ort_q21_3. cutder. Qed.
Lemma ort3_dr2_1 s0 s1 s2 s3 s4 s5 a0 a1 a2 a3 a4 a5 b0 b1 b2 b3 b4 b5 b6 b7 b8 b9 b10 : is_derive (fun x => (ort_r2_3 s0 x s2 s3 s4 s5 a0 a1 a2 a3 a4 a5 b0 b1 b2 b3 b4 b5 b6 b7 b8 b9 b10)) s1 (ort_t21_3 s0 s1 s2 s3 s4 s5 a0 a1 a2 a3 a4 a5 b0 b1 b2 b3 b4 b5 b6 b7 b8 b9 b10).
Proof. unfold ort_r2_3, ort_t21_3. cutder. Qed.
Lemma ort3_dp3_1 s0 s1 s2 s3 s4 s5 a0 a1 a2 a3 a4 a5 b0 b1 b2 b3 b4 b5 b6 b7 b8 b9 b10 : is_derive (fun x => (ort_p3_3 s0 x s2 s3 s4 s5 a0 a1 a2 a3 a4 a5 b0 b1 b2 b3 b4 b5 b6 b7 b8 b9 b10)) s1 (ort_q31_3 s0 s1 s2 s3 s4 s5 a0 a1 a2 a3 a4 a5 b0 b1 b2 b3 b4 b5 b6 b7 b8 b9 b10).
Proof. unfold ort_p3_3, ort_q31_3. cutder. Qed.
Lemma ort3_dr3_1 s0 s1 s2 s3 s4 s5 a0 a1 a2 a3 a4 a5 b0 b1 b2 b3 b4 b5 b6 b7 b8 b9 b10 : is_derive (fun x => (ort_r3_3 s0 x s2 s3 s4 s5 a0 a1 a2 a3 a4 a5 b0 b1 b2 b3 b4 b5 b6 b7 b8 b9 b10)) s1 (ort_t31_3 s0 s1 s2 s3 s4 s5 a0 a1 a2 a3 a4 a5 b0 b1 b2 b3 b4 b5 b6 b7 b8 b9 b10).
Proof. unfold ort_r3_3, ort_t31_3. cutder. Qed.
Lemma ort3_dp4_1 s0 s1 s2 s3 s4 s5 a0 a1 a2 a3 a4 a5 b0 b1 b2 b3 b4 b5 b6 b7 b8 b9 b10 : is_derive (fun x => (ort_p4_3 s0 x s2 s3 s4 s5 a0 a1 a2 a3 a4 a5 b0 b1 b2 b3 b4 b5 b6 b7 b8 b9 b10)) s1 (ort_q41_3 s0 s1 s2 s3 s4 s5 a0 a1 a2 a3 a4 a5 b0 b1 b2 b3 b4 b5 b6 b7 b8 b9 b10).
Proof. unfold ort_p4_3, ort_q41_3. cutder. Qed.
Lemma ort3_dr4_1 s0 s1 s2 s3 s4 s5 a0 a1 a2 a3 a4 a5 b0 b1 b2 b3 b4 b5 b6 b7 b8 b9 b10 : is_derive (fun x => (ort_r4_3 s0 x s2 s3 s4 s5 a0 a1 a2 a3 a4 a5 b0 b1 b2 b3 b4 b5 b6 b7 b8 b9 b10)) s1 (ort_t41_3 s0 s1 s2 s3 s4 s5 a0 a1 a2 a3 a4 a5 b0 b1 b2 b3 b4 b5 b6 b7 b8 b9 b10).
Proof. unfold ort_r4_3, ort_t41_3. cutder. Qed.
Lemma ort3_dp5_1 s0 s1 s2 s3 s4 s5 a0 a1 a2 a3 a4 a5 b0 b1 b2 b3 b4 b5 b6 b7 b8 b9 b10 : is_derive (fun x => (ort_p5_3 s0 x s2 s3 s4 s5 a0 a1 a2 a3 a4 a5 b0 b1 b2 b3 b4 b5 b6 b7 b8 b9 b10)) s1 (ort_q51_3 s0 s1 s2 s3 s4 s5 a0 a1 a2 a3 a4 a5 b0 b1 b2 b3 b4 b5 b6 b7 b8 b9 b10).
Proof. unfold ort_p5_3, ort_q51_3. cutder. Qed.
Lemma ort3_dr5_1 s0 s1 s2 s3 s4 s5 a0 a1 a2 a3 a4 a5 b0 b1 b2 b3 b4 b5 b6 b7 b8 b9 b10 : is_derive (fun x => (ort_r5_3 s0 x s2 s3 s4 s5 a0 a1 a2 a3 a4 a5 b0 b1 b2 b3 b4 b5 b6 b7 b8 b9 b10)) s1 (ort_t51_3 s0 s1 s2 s3 s4 s5 a0 a1 a2 a3 a4 a5 b0 b1 b2 b3 b4 b5 b6 b7 b8 b9 b10).
Proof. unfold ort_r5_3, ort_t51_3. cutder. Qed.
Lemma ort3_dk2_2 s0 s1 s2 s3 s4 s5 a0 a1 a2 a3 a4 a5 b0 b1 b2 b3 b4 b5 b6 b7 b8 b9 b10 : is_derive (fun x => (ort_k2_3 s0 s1 x s3 s4 s5 a0 a1 a2 a3 a4 a5 b0 b1 b2 b3 b4 b5 b6 b7 b8 b9 b10)) s2 (ort_p2_3 s0 s1 s2 s3 s4 s5 a0 a1 a2 a3 a4 a5 b0 b1 b2 b3 b4 b5 b6 b7 b8 b9 b10).
Proof. unfold ort_k2_3, ort_p2_3. cutder. Qed.
Lemma ort3_dk3_2 s0 s1 s2 s3 s4 s5 a0 a1 a2 a3 a4 a5 b0 b1 b2 b3 b4 b5 b6 b7 b8 b9 b10 : is_derive (fun x => (ort_k3_3 s0 s1 x s3 s4 s5 a0 a1 a2 a3 a4 a5 b0 b1 b2 b3 b4 b5 b6 b7 b8 b9 b10)) s2 (ort_r2_3 s0 s1 s2 s3 s4 s5 a0 a1 a2 a3 a4 a5 b0 b1 b2 b3 b4 b5 b6 b7 b8 b9 b10).
Proof. unfold ort_k3_3, ort_r2_3. cutder. Qed.
Lemma ort3_dp0_2 s0 s1 s2 s3 s4 s5 a0 a1 a2 a3 a4 a5 b0 b1 b2 b3 b4 b5 b6 b7 b8 b9 b10 : is_derive (fun x => (ort_p0_3 s0 s1 x s3 s4 s5 a0 a1 a2 a3 a4 a5 b0 b1 b2 b3 b4 b5 b6 b7 b8 b9 b10)) s2 (ort_q02_3 s0 s1 s2 s3 s4 s5 a0 a1 a2 a3 a4 a5 b0 b1 b2 b3 b4 b5 b6 b7 b8 b9 b10).
Proof. unfold ort_p0_3, ort_q02_3. cutder. Qed.
Lemma ort3_dr0_2 s0 s1 s2 s3 s4 s5 a0 a1 a2 a3 a4 a5 b0 b1 b2 b3 b4 b5 b6 b7 b8 b9 b10 : is_derive (fun x => (ort_r0_3 s0 s1 x s3 s4 s5 a0 a1 a2 a3 a4 a5 b0 b1 b2 b3 b4 b5 b6 b7 b8 b9 b10)) s2 (ort_t02_3 s0 s1 s2 s3 s4 s5 a0 a1 a2 a3 a4 a5 b0 b1 b2 b3 b4 b5 b6 b7 b8 b9 b10).
Proof. unfold ort_r0_3, ort_t02_3. cutder. Qed.
Lemma ort3_dp1_2 s0 s1 s2 s3 s4 s5 a0 a1 a2 a3 a4 a5 b0 b1 b2 b3 b4 b5 b6 b7 b8 b9 b10 : is_derive (fun x => (ort_p1_3 s0 s1 x s3 s4 s5 a0 a1 a2 a3 a4 a5 b0 b1 b2 b3 b4 b5 b6 b7 b8 b9 b10)) s2 (ort_q12_3 s0 s1 s2 s3 s4 s5 a0 a1 a2 a3 a4 a5 b0 b1 b2 b3 b4 b5 b6 b7 b8 b9 b10).
Proof. unfold ort_p1_3, ort_q12_3. cutder. Qed.
Lemma ort3_dr1_2 s0 s1 s2 s3 s4 s5 a0 a1 a2 a3 a4 a5 b0 b1 b2 b3 b4 b5 b6 b7 b8 b9 b10 : is_derive (fun x => (ort_r1_3 s0 s1 x s3 s4 s5 a0 a1 a2 a3 a4 a5 b0 b1 b2 b3 b4 b5 b6 b7 b8 b9 b10)) s2 (ort_t12_3 s0 s1 s2 s3 s4 s5 a0 a1 a2 a3 a4 a5 b0 b1 b2 b3 b4 b5 b6 b7 b8 b9 b10).
Proof. unfold ort_r1_3, ort_t12_3. cutder. Qed.
Lemma ort3_dp2_2 s0 s1 s2 s3 s4 s5 a0 a1 a2 a3 a4 a5 b0 b1 b2 b3 b4 b5 b6 b7 b8 b9 b10 : is_derive (fun x => (ort_p2_3 s0 s1 x s3 s4 s5 a0 a1 a2 a3 a4 a5 b0 b1 b2 b3 b4 b5 b6 b7 b8 b9 b10)) s2 (ort_q22_3 s0 s1 s2 s3 s4 s5 a0 a1 a2 a3 a4 a5 b0 b1 b2 b3 b4 b5 b6 b7 b8 b9 b10).
Proof. unfold ort_p2_3, ort_q22_3. cutder. Qed.
Lemma ort3_dr2_2 s0 s1 s2 s3 s4 s5 a0 a1 a2 a3 a4 a5 b0 b1 b2 b3 b4 b5 b6 b7 b8 b9 b10 : is_derive (fun x => (ort_r2_3 s0 s1 x s3 s4 s5 a0 a1 a2 a3 a4 a5 b0 b1 b2 b3 b4 b5 b6 b7 b8 b9 b10)) s2 (ort_t22_3 s0 s1 s2 s3 s4 s5 a0 a1 a2 a3 a4 a5 b0 b1 b2 b3 b4 b5 b6 b7 b8 b9 b10).
Proof. unfold ort_r2_3, ort_t22_3. cutder. Qed.
Lemma ort3_dp3_2 s0 s1 s2 s3 s4 s5 a0 a1 a2 a3 a4 a5 b0 b1 b2 b3 b4 b5 b6 b7 b8 b9 b10 : is_derive (fun x => (ort_p3_3 s0 s1 x s3 s4 s5 a0 a1 a2 a3 a4 a5 b0 b1 b2 b3 b4 b5 b6 b7 b8 b9 b10)) s2 (ort_q32_3 s0 s1 s2 s3 s4 s5 a0 a1 a2 a3 a4 a5 b0 b1 b2 b3 b4 b5 b6 b7 b8 b9 b10).
Proof. unfold ort_p3_3, ort_q32_3. cutder. Qed.
Lemma ort3_dr3_2 s0 s1 s2 s3 s4 s5 a0 a1 a2 a3 a4 a5 b0 b1 b2 b3 b4 b5 b6 b7 b8 b9 b10 : is_derive (fun x => (ort_r3_3 s0 s1 x s3 s4 s5 a0 a1 a2 a3 a4 a5 b0 b1 b2 b3 b4 b5 b6 b7 b8 b9 b10)) s2 (ort_t32_3 s0 s1 s2 s3 s4 s5 a0 a1 a2 a3 a4 a5 b0 b1 b2 b3 b4 b5 b6 b7 b8 b9 b10).
Proof. unfold ort_r3_3, ort_t32_3. cutder. Qed.
Lemma ort3_dp4_2 s0 s1 s2 s3 s4 s5 a0 a1 a2 a3 a4 a5 b0 b1 b2 b3 b4 b5 b6 b7 b8 b9 b10 : is_derive (fun x => (ort_p4_3 s0 s1 x s3 s4 s5 a0 a1 a2 a3 a4 a5 b0 b1 b2 b3 b4 b5 b6 b7 b8 b9 b10)) s2 (ort_q42_3 s0 s1 s2 s3 s4 s5 a0 a1 a2 a3 a4 a5 b0 b1 b2 b3 b4 b5 b6 b7 b8 b9 b10).
Proof. unfold ort_p4_3, ort_q42_3. cutder. Qed.
Lemma ort3_dr4_2 s0 s1 s2 s3 s4 s5 a0 a1 a2 a3 a4 a5 b0 b1 b2 b3 b4 b5 b6 b7 b8 b9 b10 : is_derive (fun x => (ort_r4_3 s0 s1 x s3 s4 s5 a0 a1 a2 a3 a4 a5 b0 b1 b2 b3 b4 b5 b6 b7 b8 b9 b10)) s2 (ort_t42_3 s0 s1 s2 s3 s4 s5 a0 a1 a2 a3 a4 a5 b0 b1 b2 b3 b4 b5 b6 b7 b8 b9 b10).
Proof. unfold ort_r4_3, ort_t42_3. cutder. Qed.
Lemma ort3_dp5_2 s0 s1 s2 s3 s4 s5 a0 a1 a2 a3 a4 a5 b0 b1 b2 b3 b4 b5 b6 b7 b8 b9 b10 : is_derive (fun x => (ort_p5_3 s0 s1 x s3 s4 s5 a0 a1 a2 a3 a4 a5 b0 b1 b2 b3 b4 b5 b6 b7 b8 b9 b10)) s2 (ort_q52_3 s0 s1 s2 s3 s4 s5 a0 a1 a2 a3 a4 a5 b0 b1 b2 b3 b4 b5 b6 b7 b8 b9 b10).
Proof. unfold ort_p5_3, ort_q52_3. cutder. Qed.
Lemma ort3_dr5_2 s0 s1 s2 s3 s4 s5 a0 a1 a2 a3 a4 a5 b0 b1 b2 b3 b4 b5 b6 b7 b8 b9 b10 : is_derive (fun x => (ort_r5_3 s0 s1 x s3 s4 s5 a0 a1 a2 a3 a4 a5 b0 b1 b2 b3 b4 b5 b6 b7 b8 b9 b10)) s2 (ort_t52_3 s0 s1 s2 s3 s4 s5 a0 a1 a2 a3 a4 a5 b0 b1 b2 b3 b4 b5 b6 b7 b8 b9 b10).
Proof. unfold ort_r5_3, ort_t52_3. cutder. Qed.
Lemma ort3_dk2_3 s0 s1 s2 s3 s4 s5 a0 a1 a2 a3 a4 a5 b0 b1 b2 b3 b4 b5 b6 b7 b8 b9 b10 : is_derive (fun x => (ort_k2_3 s0 s1 s2 x s4 s5 a0 a1 a2 a3 a4 a5 b0 b1 b2 b3 b4 b5 b6 b7 b8 b9 b10)) s3 (ort_p3_3 s0 s1 s2 s3 s4 s5 a0 a1 a2 a3 a4 a5 b0 b1 b2 b3 b4 b5 b6 b7 b8 b9 b10).
Proof. unfold ort_k2_3, ort_p3_3. cutder. Qed.
Lemma ort3_dk3_3 s0 s1 s2 s3 s4 s5 a0 a1 a2 a3 a4 a5 b0 b1 b2 b3 b4 b5 b6 b7 b8 b9 b10 : is_derive (fun x => (ort_k3_3 s0 s1 s2 x s4 s5 a0 a1 a2 a3 a4 a5 b0 b1 b2 b3 b4 b5 b6 b7 b8 b9 b10)) s3 (ort_r3_3 s0 s1 s2 s3 s4 s5 a0 a1 a2 a3 a4 a5 b0 b1 b2 b3 b4 b5 b6 b7 b8 b9 b10).
Proof. unfold ort_k3_3, ort_r3_3. cutder. Qed.
Lemma ort3_dp0_3 s0 s1 s2 s3 s4 s5 a0 a1 a2 a3 a4 a5 b0 b1 b2 b3 b4 b5 b6 b7 b8 b9 b10 : is_derive (fun x => (ort_p0_3 s0 s1 s2 x s4 s5 a0 a1 a2 a3 a4 a5 b0 b1 b2 b3 b4 b5 b6 b7 b8 b9 b10)) s3 (ort_q03_3 s0 s1 s2 s3 s4 s5 a0 a1 a2 a3 a4 a5 b0 b1 b2 b3 b4 b5 b6 b7 b8 b9 b10).
Proof. unfold ort_p0_3, ort_q03_3. cutder. Qed.
Lemma ort3_dr0_3 s0 s1 s2 s3 s4 s5 a0 a1 a2 a3 a4 a5 b0 b1 b2 b3 b4 b5 b6 b7 b8 b9 b10 : is_derive (fun x => (ort_r0_3 s0 s1 s2 x s4 s5 a0 a1 a2 a3 a4 a5 b0 b1 b2 b3 b4 b5 b6 b7 b8 b9 b10)) s3 (ort_t03_3 s0 s1 s2 s3 s4 s5 a0 a1 a2 a3 a4 a5 b0 b1 b2 b3 b4 b5 b6 b7 b8 b9 b10).
Proof. unfold ort_r0_3, ort_t03_3. cutder. Qed.
Lemma ort3_dp1_3 s0 s1 s2 s3 s4 s5 a0 a1 a2 a3 a4 a5 b0 b1 b2 b3 b4 b5 b6 b7 b8 b9 b10 : is_derive (fun x => (ort_p1_3 s0 s1 s2 x s4 s5 a0 a1 a2 a3 a4 a5 b0 b1 b2 b3 b4 b5 b6 b7 b8 b9 b10)) s3 (ort_q13_3 s0 s1 s2 s3 s4 s5 a0 a1 a2 a3 a4 a5 b0 b1 b2 b3 b4 b5 b6 b7 b8 b9 b10).
Proof. unfold ort_p1_3, ort_q13_3. cutder. Qed.
Lemma ort3_dr1_3 s0 s1 s2 s3 s4 s5 a0 a1 a2 a3 a4 a5 b0 b1 b2 b3 b4 b5 b6 b7 b8 b9 b10 : is_derive (fun x => (ort_r1_3 s0 s1 s2 x s4 s5 a0 a1 a2 a3 a4 a5 b0 b1 b2 b3 b4 b5 b6 b7 b8 b9 b10)) s3 (ort_t13_3 s0 s1 s2 s3 s4 s5 a0 a1 a2 a3 a4 a5 b0 b1 b2 b3 b4 b5 b6 b7 b8 b9 b10).
Proof. unfold ort_r1_3, ort_t13_3. cutder. Qed.
Lemma ort3_dp2_3 s0 s1 s2 s3 s4 s5 a0 a1 a2 a3 a4 a5 b0 b1 b2 b3 b4 b5 b6 b7 b8 b9 b10 : is_derive (fun x => (ort_p2_3 s0 s1 s2 x s4 s5 a0 a1 a2 a3 a4 a5 b0 b1 b2 b3 b4 b5 b6 b7 b8 b9 b10)) s3 (ort_q23_3 s0 s1 s2 s3 s4 s5 a0 a1 a2 a3 a4 a5 b0 b1 b2 b3 b4 b5 b6 b7 b8 b9 b10).
Proof. unfold ort_p2_3, ort_q23_3. cutder. Qed.
Lemma ort3_dr2_3 s0 s1 s2 s3 s4 s5 a0 a1 a2 a3 a4 a5 b0 b1 b2 b3 b4 b5 b6 b7 b8 b9 b10 : is_derive (fun x => (ort_r2_3 s0 s1 s2 x s4 s5 a0 a1 a2 a3 a4 a5 b0 b1 b2 b3 b4 b5 b6 b7 b8 b9 b10)) s3 (ort_t23_3 s0 s1 s2 s3 s4 s5 a0 a1 a2 a3 a4 a5 b0 b1 b2 b3 b4 b5 b6 b7 b8 b9 b10).
Proof. unfold ort_r2_3, ort_t23_3. cutder. Qed.
Lemma ort3_dp3_3 s0 s1 s2 s3 s4 s5 a0 a1 a2 a3 a4 a5 b0 b1 b2 b3 b4 b5 b6 b7 b8 b9 b10 : is_derive (fun x => (ort_p3_3 s0 s1 s2 x s4 s5 a0 a1 a2 a3 a4 a5 b0 b1 b2 b3 b4 b5 b6 b7 b8 b9 b10)) s3 (ort_q33_3 s0 s1 s2 s3 s4 s5 a0 a1 a2 a3 a4 a5 b0 b1 b2 b3 b4 b5 b6 b7 b8 b9 b10).
Proof. unfold ort_p3_3, ort_q33_3. cutder. Qed.
Lemma ort3_dr3_3 s0 s1 s2 s3 s4 s5 a0 a1 a2 a3 a4 a5 b0 b1 b2 b3 b4 b5 b6 b7 b8 b9 b10 : is_derive (fun x => (ort_r3_3 s0 s1 s2 x s4 s5 a0 a1 a2 a3 a4 a5 b0 b1 b2 b3 b4 b5 b6 b7 b8 b9 b10)) s3 (ort_t33_3 s0 s1 s2 s3 s4 s5 a0 a1 a2 a3 a4 a5 b0 b1 b2 b3 b4 b5 b6 b7 b8 b9 b10).
Proof. unfold ort_r3_3, ort_t33_3. cutder. Qed.
Lemma ort3_dp4_3 s0 s1 s2 s3 s4 s5 a0 a1 a2 a3 a4 a5 b0 b1 b2 b3 b4 b5 b6 b7 b8 b9 b10 : is_derive (fun x => (ort_p4_3 s0 s1 s2 x s4 s5 a0 a1 a2 a3 a4 a5 b0 b1 b2 b3 b4 b5 b6 b7 b8 b9 b10)) s3 (ort_q43_3 s0 s1 s2 s3 s4 s5 a0 a1 a2 a3 a4 a5 b0 b1 b2 b3 b4 b5 b6 b7 b8 b9 b10).
Proof. unfold ort_p4_3, ort_q43_3. cutder. Qed.
Lemma ort3_dr4_3 s0 s1 s2 s3 s4 s5 a0 a1 a2 a3 a4 a5 b0 b1 b2 b3 b4 b5 b6 b7 b8 b9 b10 : is_derive (fun x => (ort_r4_3 s0 s1 s2 x s4 s5 a0 a1 a2 a3 a4 a5 b0 b1 b2 b3 b4 b5 b6 b7 b8 b9 b10)) s3 (ort_t43_3 s0 s1 s2 s3 s4 s5 a0 a1 a2 a3 a4 a5 b0 b1 b2 b3 b4 b5 b6 b7 b8 b9 b10).
Proof. unfold ort_r4_3, ort_t43_3. cutder. Qed.
Lemma ort3_dp5_3 s0 s1 s2 s3 s4 s5 a0 a1 a2 a3 a4 a5 b0 b1 b2 b3 b4 b5 b6 b7 b8 b9 b10 : is_derive (fun x => (ort_p5_3 s0 s1 s2 x s4 s5 a0 a1 a2 a3 a4 a5 b0 b1 b2 b3 b4 b5 b6 b7 b8 b9 b10)) s3 (ort_q53_3 s0 s1 s2 s3 s4 s5 a0 a1 a2 a3 a4 a5 b0 b1 b2 b3 b4 b5 b6 b7 b8 b9 b10).
Proof. unfold ort_p5_3, ort_q53_3. cutder. Qed.
Lemma ort3_dr5_3 s0 s1 s2 s3 s4 s5 a0 a1 a2 a3 a4 a5 b0 b1 b2 b3 b4 b5 b6 b7 b8 b9 b10 : is_derive (fun x => (ort_r5_3 s0 s1 s2 x s4 s5 a0 a1 a2 a3 a4 a5 b0 b1 b2 b3 b4 b5 b6 b7 b8 b9 b10)) s3 (ort_t53_3 s0 s1 s2 s3 s4 s5 a0 a1 a2 a3 a4 a5 b0 b1 b2 b3 b4 b5 b6 b7 b8 b9 b10).
Proof. unfold ort_r5_3, ort_t53_3. cutder. Qed.
Lemma ort3_dk2_4 s0 s1 s2 s3 s4 s5 a0 a1 a2 a3 a4 a5 b0 b1 b2 b3 b4 b5 b6 b7 b8 b9 b10 : is_derive (fun x => (ort_k2_3 s0 s1 s2 s3 x s5 a0 a1 a2 a3 a4 a5 b0 b1 b2 b3 b4 b5 b6 b7 b8 b9 b10)) s4 (ort_p4_3 s0 s1 s2 s3 s4 s5 a0 a1 a2 a3 a4 a5 b0 b1 b2 b3 b4 b5 b6 b7 b8 b9 b10).
Proof. unfold ort_k2_3, ort_p4_3. cutder. Qed.
Lemma ort3_dk3_4 s0 s1 s2 s3 s4 s5 a0 a1 a2 a3 a4 a5 b0 b1 b2 b3 b4 b5 b6 b7 b8 b9 b10 : is_derive (fun x => (ort_k3_3 s0 s1 s2 s3 x s5 a0 a1 a2 a3 a4 a5 b0 b1 b2 b3 b4 b5 b6 b7 b8 b9 b10)) s4 (ort_r4_3 s0 s1 s2 s3 s4 s5 a0 a1 a2 a3 a4 a5 b0 b1 b2 b3 b4 b5 b6 b7 b8 b9 b10).
Proof. unfold ort_k3_3, ort_r4_3. cutder. Qed.
Lemma ort3_dp0_4 s0 s1 s2 s3 s4 s5 a0 a1 a2 a3 a4 a5 b0 b1 b2 b3 b4 b5 b6 b7 b8 b9 b10 : is_derive (fun x => (ort_p0_3 s0 s1 s2 s3 x s5 a0 a1 a2 a3 a4 a5 b0 b1 b2 b3 b4 b5 b6 b7 b8 b9 b10)) s4 (ort_q04_3 s0 s1 s2 s3 s4 s5 a0 a1 a2 a3 a4 a5 b0 b1 b2 b3 b4 b5 b6 b7 b8 b9 b10).
Proof. unfold ort_p0_3, ort_q04_3. cutder. Qed.
Lemma ort3_dr0_4 s0 s1 s2 s3 s4 s5 a0 a1 a2 a3 a4 a5 b0 b1 b2 b3 b4 b5 b6 b7 b8 b9 b10 : is_derive (fun x => (ort_r0_3 s0 s1 s2 s3 x s5 a0 a1 a2 a3 a4 a5 b0 b1 b2 b3 b4 b5 b6 b7 b8 b9 b10)) s4 (ort_t04_3 s0 s1 s2 s3 s4 s5 a0 a1 a2 a3 a4 a5 b0 b1 b2 b3 b4 b5 b6 b7 b8 b9 b10).
Proof. unfold ort_r0_3, ort_t04_3. cutder. Qed.
Lemma ort3_dp1_4 s0 s1 s2 s3 s4 s5 a0 a1 a2 a3 a4 a5 b0 b1 b2 b3 b4 b5 b6 b7 b8 b9 b10 : is_derive (fun x => (ort_p1_3 s0 s1 s2 s3 x s5 a0 a1 a2 a3 a4 a5 b0 b1 b2 b3 b4 b5 b6 b7 b8 b9 b10)) s4 (ort_q14_3 s0 s1 s2 s3 s4 s5 a0 a1 a2 a3 a4 a5 b0 b1 b2 b3 b4 b5 b6 b7 b8 b9 b10).
Proof. unfold ort_p1_3, ort_q14_3. cutder. Qed.
Lemma ort3_dr1_4 s0 s1 s2 s3 s4 s5 a0 a1 a2 a3 a4 a5 b0 b1 b2 b3 b4 b5 b6 b7 b8 b9 b10 : is_derive (fun x => (ort_r1_3 s0 s1 s2 s3 x s5 a0 a1 a2 a3 a4 a5 b0 b1 b2 b3 b4 b5 b6 b7 b8 b9 b10)) s4 (ort_t14_3 s0 s1 s2 s3 s4 s5 a0 a1 a2 a3 a4 a5 b0 b1 b2 b3 b4 b5 b6 b7 b8 b9 b10).
Proof. unfold ort_r1_3, ort_t14_3. cutder. Qed.
Lemma ort3_dp2_4 s0 s1 s2 s3 s4 s5 a0 a1 a2 a3 a4 a5 b0 b1 b2 b3 b4 b5 b6 b7 b8 b9 b10 : is_derive (fun x => (ort_p2_3 s0 s1 s2 s3 x s5 a0 a1 a2 a3 a4 a5 b0 b1 b2 b3 b4 b5 b6 b7 b8 b9 b10)) s4 (ort_q24_3 s0 s1 s2 s3 s4 s5 a0 a1 a2 a3 a4 a5 b0 b1 b2 b3 b4 b5 b6 b7 b8 b9 b10).
Proof. unfold ort_p2_3, ort_q24_3. cutder. Qed.
Lemma ort3_dr2_4 s0 s1 s2 s3 s4 s5 a0 a1 a2 a3 a4 a5 b0 b1 b2 b3 b4 b5 b6 b7 b8 b9 b10 : is_derive (fun x => (ort_r2_3 s0 s1 s2 s3 x s5 a0 a1 a2 a3 a4 a5 b0 b1 b2 b3 b4 b5 b6 b7 b8 b9 b10)) s4 (ort_t24_3 s0 s1 s2 s3 s4 s5 a0 a1 a2 a3 a4 a5 b0 b1 b2 b3 b4 b5 b6 b7 b8 b9 b10).
Proof. unfold ort_r2_3, ort_t24_3. cutder. Qed.
Lemma ort3_dp3_4 s0 s1 s2 s3 s4 s5 a0 a1 a2 a3 a4 a5 b0 b1 b2 b3 b4 b5 b6 b7 b8 b9 b10 : is_derive (fun x => (ort_p3_3 s0 s1 s2 s3 x s5 a0 a1 a2 a3 a4 a5 b0 b1 b2 b3 b4 b5 b6 b7 b8 b9 b10)) s4 (ort_q34_3 s0 s1 s2 s3 s4 s5 a0 a1 a2 a3 a4 a5 b0 b1 b2 b3 b4 b5 b6 b7 b8 b9 b10).
Proof. unfold ort_p3_3, ort_q34_3. cutder. Qed.
Lemma ort3_dr3_4 s0 s1 s2 s3 s4 s5 a0 a1 a2 a3 a4 a5 b0 b1 b2 b3 b4 b5 b6 b7 b8 b9 b10 : is_derive (fun x => (ort_r3_3 s0 s1 s2 s3 x s5 a0 a1 a2 a3 a4 a5 b0 b1 b2 b3 b4 b5 b6 b7 b8 b9 b10)) s4 (ort_t34_3 s0 s1 s2 s3 s4 s5 a0 a1 a2 a3 a4 a5 b0 b1 b2 b3 b4 b5 b6 b7 b8 b9 b10).
Proof. unfold ort_r3_3, ort_t34_3. cutder. Qed.
Lemma ort3_dp4_4 s0 s1 s2 s3 s4 s5 a0 a1 a2 a3 a4 a5 b0 b1 b2 b3 b4 b5 b6 b7 b8 b9 b10 : is_derive (fun x => (ort_p4_3 s0 s1 s2 s3 x s5 a0 a1 a2 a3 a4 a5 b0 b1 b2 b3 b4 b5 b6 b7 b8 b9 b10)) s4 (ort_q44_3 s0 s1 s2 s3 s4 s5 a0 a1 a2 a3 a4 a5 b0 b1 b2 b3 b4 b5 b6 b7 b8 b9 b10).
Proof. unfold ort_p4_3, ort_q44_3. cutder. Qed.
Lemma ort3_dr4_4 s0 s1 s2 s3 s4 s5 a0 a1 a2 a3 a4 a5 b0 b1 b2 b3 b4 b5 b6 b7 b8 b9 b10 : is_derive (fun x => (ort_r4_3 s0 s1 s2 s3 x s5 a0 a1 a2 a3 a4 a5 b0 b1 b2 b3 b4 b5 b6 b7 b8 b9 b10)) s4 (ort_t44_3 s0 s1 s2 s3 s4 s5 a0 a1 a2 a3 a4 a5 b0 b1 b2 b3 b4 b5 b6 b7 b8 b9 b10).
Proof. unfold ort_r4_3, ort_t44_3. cutder. Qed.
Lemma ort3_dp5_4 s0 s1 s2 s3 s4 s5 a0 a1 a2 a3 a4 a5 b0 b1 b2 b3 b4 b5 b6 b7 b8 b9 b10 : is_derive (fun x => (ort_p5_3 s0 s1 s2 s3 x s5 a0 a1 a2 a3 a4 a5 b0 b1 b2 b3 b4 b5 b6 b7 b8 b9 b10)) s4 (ort_q54_3 s0 s1 s2 s3 s4 s5 a0 a1 a2 a3 a4 a5 b0 b1 b2 b3 b4 b5 b6 b7 b8 b9 b10).
Proof. unfold ort_p5_3, ort_q54_3. cutder. Qed.
Lemma ort3_dr5_4 s0 s1 s2 s3 s4 s5 a0 a1 a2 a3 a4 a5 b0 b1 b2 b3 b4 b5 b6 b7 b8 b9 b10 : is_derive (fun x => (ort_r5_3 s0 s1 s2 s3 x s5 a0 a1 a2 a3 a4 a5 b0 b1 b2 b3 b4 b5 b6 b7 b8 b9 b10)) s4 (ort_t54_3 s0 s1 s2 s3 s4 s5 a0 a1 a2 a3 a4 a5 b0 b1 b2 b3 b4 b5 b6 b7 b8 b9 b10).
Proof. unfold ort_r5_3, ort_t54_3. cutder. Qed.
Lemma ort3_dk2_5 s0 s1 s2 s3 s4 s5 a0 a1 a2 a3 a4 a5 b0 b1 b2 b3 b4 b5 b6 b7 b8 b9 b10 : is_derive (fun x => (ort_k2_3 s0 s1 s2 s3 s4 x a0 a1 a2 a3 a4 a5 b0 b1 b2 b3 b4 b5 b6 b7 b8 b9 b10)) s5 (ort_p5_3 s0 s1 s2 s3 s4 s5 a0 a1 a2 a3 a4 a5 b0 b1 b2 b3 b4 b5 b6 b7 b8 b9 b10).
Proof. unfold ort_k2_3, ort_p5_3. cutder. Qed.
Lemma ort3_dk3_5 s0 s1 s2 s3 s4 s5 a0 a1 a2 a3 a4 a5 b0 b1 b2 b3 b4 b5 b6 b7 b8 b9 b10 : is_derive (fun x => (ort_k3_3 s0 s1 s2 s3 s4 x a0 a1 a2 a3 a4 a5 b0 b1 b2 b3 b4 b5 b6 b7 b8 b9 b10)) s5 (ort_r5_3 s0 s1 s2 s3 s4 s5 a0 a1 a2 a3 a4 a5 b0 b1 b2 b3 b4 b5 b6 b7 b8 b9 b10).
Proof. unfold ort_k3_3, ort_r5_3. cutder. Qed.
Lemma ort3_dp0_5 s0 s1 s2 s3 s4 s5 a0 a1 a2 a3 a4 a5 b0 b1 b2 b3 b4 b5 b6 b7 b8 b9 b10 : is_derive (fun x => (ort_p0_3 s0 s1 s2 s3 s4 x a0 a1 a2 a3 a4 a5 b0 b1 b2 b3 b4 b5 b6 b7 b8 b9 b10)) s5 (ort_q05_3 s0 s1 s2 s3 s4 s5 a0 a1 a2 a3 a4 a5 b0 b1 b2 b3 b4 b5 b6 b7 b8 b9 b10).
Proof. unfold ort_p0_3, ort_q05_3. cutder. Qed.
Lemma ort3_dr0_5 s0 s1 s2 s3 s4 s5 a0 a1 a2 a3 a4 a5 b0 b1 b2 b3 b4 b5 b6 b7 b8 b9 b10 : is_derive (fun x => (ort_r0_3 s0 s1 s2 s3 s4 x a0 a1 a2 a3 a4 a5 b0 b1 b2 b3 b4 b5 b6 b7 b8 b9 b10)) s5 (ort_t05_3 s0 s1 s2 s3 s4 s5 a0 a1 a2 a3 a4 a5 b0 b1 b2 b3 b4 b5 b6 b7 b8 b9 b10).
Proof. unfold ort_r0_3, ort_t05_3. cutder. Qed.
Lemma ort3_dp1_5 s0 s1 s2 s3 s4 s5 a0 a1 a2 a3 a4 a5 b0 b1 b2 b3 b4 b5 b6 b7 b8 b9 b10 : is_derive (fun x => (ort_p1_3 s0 s1 s2 s3 s4 x a0 a1 a2 a3 a4 a5 b0 b1 b2 b3 b4 b5 b6 b7 b8 b9 b10)) s5 (ort_q15_3 s0 s1 s2 s3 s4 s5 a0 a1 a2 a3 a4 a5 b0 b1 b2 b3 b4 b5 b6 b7 b8 b9 b10).
Proof. unfold ort_p1_3, ort_q15_3. cutder. Qed.
Lemma ort3_dr1_5 s0 s1 s2 s3 s4 s5 a0 a1 a2 a3 a4 a5 b0 b1 b2 b3 b4 b5 b6 b7 b8 b9 b10 : is_derive (fun x => (ort_r1_3 s0 s1 s2 s3 s4 x a0 a1 a2 a3 a4 a5 b0 b1 b2 b3 b4 b5 b6 b7 b8 b9 b10)) s5 (ort_t15_3 s0 s1 s2 s3 s4 s5 a0 a1 a2 a3 a4 a5 b0 b1 b2 b3 b4 b5 b6 b7 b8 b9 b10).
Proof. unfold ort_r1_3, ort_t15_3. cutder. Qed.
Lemma ort3_dp2_5 s0 s1 s2 s3 s4 s5 a0 a1 a2 a3 a4 a5 b0 b1 b2 b3 b4 b5 b6 b7 b8 b9 b10 : is_derive (fun x => (ort_p2_3 s0 s1 s2 s3 s4 x a0 a1 a2 a3 a4 a5 b0 b1 b2 b3 b4 b5 b6 b7 b8 b9 b10)) s5 (ort_q25_3 s0 s1 s2 s3 s4 s5 a0 a1 a2 a3 a4 a5 b0 b1 b2 b3 b4 b5 b6 b7 b8 b9 b10).
Proof. unfold ort_p2_3, ort_q25_3. cutder. Qed.
Lemma ort3_dr2_5 s0 s1 s2 s3 s4 s5 a0 a1 a2 a3 a4 a5 b0 b1 b2 b3 b4 b5 b6 b7 b8 b9 b10 : is_derive (fun x => (ort_r2_3 s0 s1 s2 s3 s4 x a0 a1 a2 a3 a4 a5 b0 b1 b2 b3 b4 b5 b6 b7 b8 b9 b10)) s5 (ort_t25_3 s0 s1 s2 s3 s4 s5 a0 a1 a2 a3 a4 a5 b0 b1 b2 b3 b4 b5 b6 b7 b8 b9 b10).
Proof. unfold ort_r2_3, ort_t25_3. cutder. Qed.
Lemma ort3_dp3_5 s0 s1 s2 s3 s4 s5 a0 a1 a2 a3 a4 a5 b0 b1 b2 b3 b4 b5 b6 b7 b8 b9 b10 : is_derive (fun x => (ort_p3_3 s0 s1 s2 s3 s4 x a0 a1 a2 a3 a4 a5 b0 b1 b2 b3 b4 b5 b6 b7 b8 b9 b10)) s5 (ort_q35_3 s0 s1 s2 s3 s4 s5 a0 a1 a2 a3 a4 a5 b0 b1 b2 b3 b4 b5 b6 b7 b8 b9 b10).
Proof. unfold ort_p3_3, ort_q35_3. cutder. Qed.
Lemma ort3_dr3_5 s0 s1 s2 s3 s4 s5 a0 a1 a2 a3 a4 a5 b0 b1 b2 b3 b4 b5 b6 b7 b8 b9 b10 : is_derive (fun x => (ort_r3_3 s0 s1 s2 s3 s4 x a0 a1 a2 a3 a4 a5 b0 b1 b2 b3 b4 b5 b6 b7 b8 b9 b10)) s5 (ort_t35_3 s0 s1 s2 s3 s4 s5 a0 a1 a2 a3 a4 a5 b0 b1 b2 b3 b4 b5 b6 b7 b8 b9 b10).
Proof. unfold ort_r3_3, ort_t35_3. cutder. Qed.
Lemma ort3_dp4_5 s0 s1 s2 s3 s4 s5 a0 a1 a2 a3 a4 a5 b0 b1 b2 b3 b4 b5 b6 b7 b8 b9 b10 : is_derive (fun x => (ort_p4_3 s0 s1 s2 s3 s4 x a0 a1 a2 a3 a4 a5 b0 b1 b2 b3 b4 b5 b6 b7 b8 b9 b10)) s5 (ort_q45_3 s0 s1 s2 s3 s4 s5 a0 a1 a2 a3 a4 a5 b0 b1 b2 b3 b4 b5 b6 b7 b8 b9 b10).
Proof. unfold ort_p4_3, ort_q45_3. cutder. Qed.
Lemma ort3_dr4_5 s0 s1 s2 s3 s4 s5 a0 a1 a2 a3 a4 a5 b0 b1 b2 b3 b4 b5 b6 b7 b8 b9 b10 : is_derive (fun x => (ort_r4_3 s0 s1 s2 s3 s4 x a0 a1 a2 a3 a4 a5 b0 b1 b2 b3 b4 b5 b6 b7 b8 b9 b10)) s5 (ort_t45_3 s0 s1 s2 s3 s4 s5 a0 a1 a2 a3 a4 a5 b0 b1 b2 b3 b4 b5 b6 b7 b8 b9 b10).
Proof. unfold ort_r4_3, ort_t45_3. cutder. Qed.
Lemma ort3_dp5_5 s0 s1 s2 s3 s4 s5 a0 a1 a2 a3 a4 a5 b0 b1 b2 b3 b4 b5 b6 b7 b8 b9 b10 : is_derive (fun x => (ort_p5_3 s0 s1 s2 s3 s4 x a0 a1 a2 a3 a4 a5 b0 b1 b2 b3 b4 b5 b6 b7 b8 b9 b10)) s5 (ort_q55_3 s0 s1 s2 s3 s4 s5 a0 a1 a2 a3 a4 a5 b0 b1 b2 b3 b4 b5 b6 b7 b8 b9 b10).
Proof. unfold ort_p5_3, ort_q55_3. cutder. Qed.
Lemma ort3_dr5_5 s0 s1 s2 s3 s4 s5 a0 a1 a2 a3 a4 a5 b0 b1 b2 b3 b4 b5 b6 b7 b8 b9 b10 : is_derive (fun x => (ort_r5_3 s0 s1 s2 s3 s4 x a0 a1 a2 a3 a4 a5 b0 b1 b2 b3 b4 b5 b6 b7 b8 b9 b10)) s5 (ort_t55_3 s0 s1 s2 s3 s4 s5 a0 a1 a2 a3 a4 a5 b0 b1 b2 b3 b4 b5 b6 b7 b8 b9 b10).
Proof. unfold ort_r5_3, ort_t55_3. cutder. Qed.

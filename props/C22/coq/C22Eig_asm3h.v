(* C22 -- 3D assembly of Hosford's second derivative from the eigen-data: every tie branch is the specification *)
From Coq Require Import Reals List Lra.
From Coquelicot Require Import Coquelicot.
From VLib Require Import RealExtra.
From C22 Require Import C22InvSpec C22InvTac C22EigSpec C22eig_gen C22EigAsmCuts C22EigAsmTac.
Import ListNotations.
Local Open Scope R_scope.

Lemma hos_asm_3_ok : hos_asm_3_stmt.
Proof.
  unfold hos_asm_3_stmt, ties_transitive. intros until e. intros He (T1 & T2 & T3).
  change (hos_asm_3 g0 g1 g2 d00 d11 d22 d01 d02 d12 l0 l1 l2 m00 m01 m02 m10 m11 m12 m20 m21 m22 e) with (hos_asm_3_sk g0 g1 g2 d00 d11 d22 d01 d02 d12 l0 l1 l2 m00 m01 m02 m10 m11 m12 m20 m21 m22 e).
  unfold hos_asm_3_sk; lazy zeta; decide_ties e l0 l1 l2;
  try (exfalso; first [ (rewrite E01, E02, E12 in T1; discriminate (T1 eq_refl eq_refl))
                      | (rewrite E01, E02, E12 in T2; discriminate (T2 eq_refl eq_refl))
                      | (rewrite E01, E02, E12 in T3; discriminate (T3 eq_refl eq_refl)) ]);
  destruct_rest;
  first [ (exfalso; tie_lra)
        | all_entries ltac:(fac3 hos_asm_3_leaf0 hos_asm_3_leaf0_fac; fac3 hos_asm_3_leaf1 hos_asm_3_leaf1_fac; fac3 hos_asm_3_leaf2 hos_asm_3_leaf2_fac; fac3 hos_asm_3_leaf3 hos_asm_3_leaf3_fac; fac3 hos_asm_3_leaf4 hos_asm_3_leaf4_fac) ltac:(unfold hos_asm_3_leaf0_abs, hos_asm_3_leaf1_abs, hos_asm_3_leaf2_abs, hos_asm_3_leaf3_abs, hos_asm_3_leaf4_abs) ltac:(rw_comps3) ltac:(unfold_asm3cuts) He ].
Qed.

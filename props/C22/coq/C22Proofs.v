(* C22 -- proofs over the definitions traced from /repo (C22_gen.v). *)
From Coq Require Import Reals List Lra Lia.
From Coquelicot Require Import Coquelicot.
From VLib Require Import RealExtra.
From C22 Require Import C22Spec C22_gen.
Import ListNotations.
Local Open Scope R_scope.

Ltac unfold_spec := unfold drucker_1, drucker_2, drucker_3, drucker_of, S6_1, J2_2, J3_2, J2_3, J3_3, J2_1, J3_1, d0, d1, d2, mean1 in *.
Lemma sqrt2_inv : / sqrt 2 = sqrt 2 / 2.
Proof. pose proof sqrt2_sq. pose proof sqrt2_neq0. field_simplify_eq; lra. Qed.
(* polynomial identities modulo sqrt2^2 = 2 *)
Ltac poly := first [ reflexivity | ring | sqrt_ring
                   | (pose proof sqrt2_neq0; field_simplify_eq; [sqrt_ring | auto..]) ].
(* make the argument of every Rpower syntactically equal to S *)
Ltac canon_pow S :=
  repeat match goal with
         | |- context [Rpower ?a _] => tryif constr_eq a S then fail else (replace a with S by (unfold_spec; poly))
         end.

(* ---- the traced value is the documented formula *)
Lemma dr_val_1_spec s0 s1 s2 c : dr_val_1 s0 s1 s2 c = drucker_1 c s0 s1 s2.
Proof. unfold dr_val_1, drucker_1; cbv zeta. canon_pow (S6_1 c s0 s1 s2). ring. Qed.
Lemma dr_val_2_spec s0 s1 s2 s3 c : dr_val_2 s0 s1 s2 s3 c = drucker_2 c s0 s1 s2 s3.
Proof.
  unfold dr_val_2, drucker_2, drucker_of; cbv zeta.
  canon_pow (J2_2 s0 s1 s2 s3 * J2_2 s0 s1 s2 s3 * J2_2 s0 s1 s2 s3 - c * (J3_2 s0 s1 s2 s3 * J3_2 s0 s1 s2 s3)). ring.
Qed.
Lemma dr_val_3_spec s0 s1 s2 s3 s4 s5 c : dr_val_3 s0 s1 s2 s3 s4 s5 c = drucker_3 c s0 s1 s2 s3 s4 s5.
Proof.
  unfold dr_val_3, drucker_3, drucker_of; cbv zeta.
  canon_pow (J2_3 s0 s1 s2 s3 s4 s5 * J2_3 s0 s1 s2 s3 s4 s5 * J2_3 s0 s1 s2 s3 s4 s5 - c * (J3_3 s0 s1 s2 s3 s4 s5 * J3_3 s0 s1 s2 s3 s4 s5)). ring.
Qed.

(* ---- the three variants return the same value above the threshold, zeros below *)
Ltac cond_by H J2 seps :=
  match goal with
  | |- ?a < ?b => replace b with J2 by (unfold_spec; poly); replace a with (seps * seps) by poly; exact H
  end.
Ltac same_value H J2 seps S :=
  cbv zeta; destruct (Rlt_dec _ _) as [Hl|Hn];
  [ eexists; apply f_equal; apply f_equal2; [canon_pow S; ring | reflexivity]
  | exfalso; apply Hn; cond_by H J2 seps ].
Ltac below H J2 seps :=
  cbv zeta; destruct (Rlt_dec _ _) as [Hl|Hn]; [exfalso; apply H; revert Hl;
    match goal with |- ?a < ?b -> _ => replace b with J2 by (unfold_spec; poly); replace a with (seps * seps) by poly; tauto end
  | reflexivity].

Section Same1.
  Variables s0 s1 s2 c seps : R.
  Let S := S6_1 c s0 s1 s2.
  Lemma dr_same_1 : seps * seps < J2_1 s0 s1 s2 ->
    (exists l, dr_nrm_1 s0 s1 s2 c seps = Some (drucker_1 c s0 s1 s2 :: l)) /\
    (exists l, dr_snd_1 s0 s1 s2 c seps = Some (drucker_1 c s0 s1 s2 :: l)).
  Proof.
    intro H. unfold drucker_1. split; [unfold dr_nrm_1 | unfold dr_snd_1]; same_value H (J2_1 s0 s1 s2) seps (S6_1 c s0 s1 s2).
  Qed.
  Lemma dr_below_1 : ~ seps * seps < J2_1 s0 s1 s2 ->
    dr_nrm_1 s0 s1 s2 c seps = Some [0; 0; 0; 0] /\ dr_snd_1 s0 s1 s2 c seps = Some [0; 0; 0; 0; 0; 0; 0; 0; 0; 0; 0; 0; 0].
  Proof. intro H. split; [unfold dr_nrm_1 | unfold dr_snd_1]; below H (J2_1 s0 s1 s2) seps. Qed.
End Same1.

(* ---- 1D: the closed-form normal is the gradient of the value *)
Ltac pos_S H := match goal with |- 0 < ?e => eapply Rlt_le_trans; [exact H | right; unfold_spec; poly] end.
(* side conditions of field: polynomials q <> 0 with q = k * S^m, S > 0 *)
Ltac nz_S H :=
  match goal with
  | |- ?q <> 0 =>
    first [ lra
          | (apply Rgt_not_eq; unfold_spec; nra)
          | (apply Rlt_not_eq; unfold_spec; nra) ]
  end.
Ltac canon_ln S :=
  repeat match goal with
         | |- context [ln ?a] => tryif constr_eq a S then fail else (replace a with S by (unfold_spec; poly))
         end.
(* closes "derivative computed by auto_derive = closed form": canonical exp atom, then a rational identity *)
Ltac close_eq H S :=
  unfold Rpower; canon_ln S;
  generalize (exp (1 / 6 * ln S)); intro X; unfold_spec; field; repeat split; nz_S H.
Ltac grad_component H S :=
  unfold drucker_1, Rpower; unfold_spec; auto_derive; [pos_S H | ].

Section Grad1.
  Variables c s0 s1 s2 : R.
  Hypothesis HS : 0 < S6_1 c s0 s1 s2.
  Lemma dr_grad_1 : is_grad3 (drucker_1 c) s0 s1 s2 [dr_N0 c s0 s1 s2; dr_N1 c s0 s1 s2; dr_N2 c s0 s1 s2].
  Proof.
    unfold is_grad3; cbn [nth]. split; [|split].
    - grad_component HS (S6_1 c s0 s1 s2). unfold dr_N0, drucker_1. (close_eq HS (S6_1 c s0 s1 s2)).
    - grad_component HS (S6_1 c s0 s1 s2). unfold dr_N1, drucker_1. (close_eq HS (S6_1 c s0 s1 s2)).
    - grad_component HS (S6_1 c s0 s1 s2). unfold dr_N2, drucker_1. (close_eq HS (S6_1 c s0 s1 s2)).
  Qed.
End Grad1.

(* ---- 1D: the returned normal is the closed form (hence the gradient of the returned value) *)
Ltac close_rat H S :=
  canon_pow S; generalize (Rpower S (1 / 6)); intro X; unfold_spec; field; repeat split; nz_S H.
Section Normal1.
  Variables c s0 s1 s2 seps : R.
  Hypothesis HS : 0 < S6_1 c s0 s1 s2.
  Hypothesis HJ : seps * seps < J2_1 s0 s1 s2.
  Lemma dr_nrm_1_closed_form :
    dr_nrm_1 s0 s1 s2 c seps = Some [drucker_1 c s0 s1 s2; dr_N0 c s0 s1 s2; dr_N1 c s0 s1 s2; dr_N2 c s0 s1 s2].
  Proof.
    unfold dr_nrm_1; cbv zeta; destruct (Rlt_dec _ _) as [Hl|Hn]; [| exfalso; apply Hn; cond_by HJ (J2_1 s0 s1 s2) seps].
    apply f_equal. unfold dr_N0, dr_N1, dr_N2, drucker_1.
    repeat (apply f_equal2; [ close_rat HS (S6_1 c s0 s1 s2) | ]). reflexivity.
  Qed.
End Normal1.

(* ---- 2D: the three variants return the same value above the threshold, zeros below *)
Section Same2.
  Variables s0 s1 s2 s3 c seps : R.
  Lemma dr_same_2 : seps * seps < J2_2 s0 s1 s2 s3 ->
    (exists l, dr_nrm_2 s0 s1 s2 s3 c seps = Some (drucker_2 c s0 s1 s2 s3 :: l)) /\
    (exists l, dr_snd_2 s0 s1 s2 s3 c seps = Some (drucker_2 c s0 s1 s2 s3 :: l)).
  Proof.
    intro H. unfold drucker_2, drucker_of. split; [unfold dr_nrm_2 | unfold dr_snd_2];
      same_value H (J2_2 s0 s1 s2 s3) seps
        (J2_2 s0 s1 s2 s3 * J2_2 s0 s1 s2 s3 * J2_2 s0 s1 s2 s3 - c * (J3_2 s0 s1 s2 s3 * J3_2 s0 s1 s2 s3)).
  Qed.
End Same2.

(* ---- von Mises: sigmaeq = sqrt (3 J2) *)
Lemma mises_3_spec s0 s1 s2 s3 s4 s5 : mises_3 s0 s1 s2 s3 s4 s5 = mises_of (J2_3 s0 s1 s2 s3 s4 s5).
Proof.
  unfold mises_3, mises_of; cbv zeta.
  match goal with |- context [sqrt ?a] =>
    tryif constr_eq a (3 * J2_3 s0 s1 s2 s3 s4 s5) then idtac
    else replace a with (3 * J2_3 s0 s1 s2 s3 s4 s5) by (unfold_spec; poly) end.
  ring.
Qed.

(* C22 -- [tactics and statements] assembly of the second derivative of Hosford's stress from the eigen-data, and the eigenvector terms of Barlat's:
   every tie branch of the traced functions (C22eig_gen.v, regenerated from /repo) is the specification formula of
   C22EigSpec.v (iso_hess / eig_pairs) with the pairwise tie tests.  Hand-written, shape independent: the branch conditions are
   destructed whatever they are, each entry is closed by field. *)
From Coq Require Import Reals List Lra.
From Coquelicot Require Import Coquelicot.
From VLib Require Import RealExtra.
From C22 Require Import C22InvSpec C22InvTac C22EigSpec C22eig_gen C22EigAsmCuts.
Import ListNotations.
Local Open Scope R_scope.

(* entries (r, c), r, c < n, of a row-major n x n list *)
Definition entries (n : nat) (L : list R) (F : nat -> nat -> R) : Prop :=
  all_upto n (fun r => all_upto n (fun c => nthR L (r * n + c) = F r c)).

(* decide the three pairwise tie tests of the specification; E01 E02 E12 : tie e l_i l_j = true / false *)
Ltac decide_ties e l0 l1 l2 :=
  let go a b E :=
    (destruct (Rlt_dec (Rabs (a - b)) e) as [?Ht|?Hn];
     [ assert (E : tie e a b = true) by (unfold tie; destruct (Rlt_dec (Rabs (a - b)) e); [ reflexivity | contradiction ])
     | assert (E : tie e a b = false) by (unfold tie; destruct (Rlt_dec (Rabs (a - b)) e); [ contradiction | reflexivity ]) ]) in
  let E01 := fresh "E01" in let E02 := fresh "E02" in let E12 := fresh "E12" in
  go l0 l1 E01; go l0 l2 E02; go l1 l2 E12.
Ltac decide_tie_01 e l0 l1 :=
  let E01 := fresh "E01" in
  destruct (Rlt_dec (Rabs (l0 - l1)) e) as [?Ht|?Hn];
  [ assert (E01 : tie e l0 l1 = true) by (unfold tie; destruct (Rlt_dec (Rabs (l0 - l1)) e); [ reflexivity | contradiction ])
  | assert (E01 : tie e l0 l1 = false) by (unfold tie; destruct (Rlt_dec (Rabs (l0 - l1)) e); [ contradiction | reflexivity ]) ].
(* the branch tests of the code that are not syntactically those of the specification *)
Ltac destruct_rest :=
  repeat match goal with
         | |- context [Rlt_dec ?a ?b] => let Hc := fresh "Hc" in destruct (Rlt_dec a b) as [Hc|Hc]
         end.
Ltac tie_lra := unfold Rabs in *; repeat match goal with H : context [Rcase_abs ?x] |- _ => destruct (Rcase_abs x) end; lra.
(* a difference of eigenvalues used as a denominator is not zero: from a tie test that failed (e > 0) *)
Ltac neq_facts He :=
  repeat match goal with
         | H : ~ Rabs (?x - ?y) < _ |- _ =>
           lazymatch goal with
           | _ : x - y <> 0 |- _ => fail
           | _ => pose proof (not_tie_neq x y _ He H)
           end
         end.
Ltac nz_diff :=
  side_split;
  first [ assumption | exact sqrt2_neq0 | lra
        | (let E := fresh "E" in intro E; match goal with H : _ <> 0 |- _ => apply H; lra end) ].
(* an identity that is linear in the inverses 1/(l_i - l_j): opposite denominators are identified, the inverses become atoms, ring;
   field as a fallback *)
Ltac norm_inv :=
  unfold Rdiv;
  repeat match goal with
         | |- context [/ ?d1] =>
           match goal with
           | |- context [/ ?d2] =>
             tryif constr_eq d1 d2 then fail
             else (let H := fresh in
                   assert (H : d2 = - d1) by ring;
                   replace (/ d2) with (- / d1) by (rewrite H; apply Ropp_inv_permute; nz_diff); clear H)
           end
         end.
Ltac gen_inv := repeat match goal with |- context [/ ?d] => let i := fresh "i" in generalize (/ d); intro i end.
Ltac close_entry :=
  first [ (norm_inv; gen_inv; first [ ring | ring [sqrt2_sq] ])
        | (field_simplify_eq; [ ring [sqrt2_sq] | nz_diff .. ]) ].
(* one entry: the leaf is in its factored form (eigen-tensors as atoms: the cut points), the components of the specification's
   tensors are rewritten as the same atoms (C22EigAsmCuts.v); the decided ties are used, field *)
Ltac entry unf_abs rw_comps unf_cuts :=
  unfold iso_hess, iso_hess_plane, eig_pairs, eig_pair_plane; rw_comps;
  unf_abs; unfold values_part, pairs_part, pair_part;
  lazy beta delta [nthR nth Nat.add Nat.mul nvec npair dyad sdyad] iota zeta;
  repeat match goal with E : tie _ _ _ = _ |- _ => rewrite E end;
  unfold theta;
  (* second attempt with the cut quantities unfolded: those that are constants were folded away in the traced leaf *)
  first [ close_entry | (unf_cuts; close_entry) ].
(* to_fac: replaces the leaf by its factored form (checked by conversion) *)
Ltac all_entries to_fac unf_abs rw_comps unf_cuts He :=
  (eexists; split; [ reflexivity | ]); to_fac; neq_facts He; cbv [entries all_upto]; side_split; entry unf_abs rw_comps unf_cuts.
Ltac asm_proof dec He unf_sk to_fac unf_abs rw_comps unf_cuts :=
  unf_sk; lazy zeta; dec; destruct_rest;
  first [ (exfalso; tie_lra) | all_entries to_fac unf_abs rw_comps unf_cuts He ].
(* the factored form of whichever leaf is in the goal *)
Ltac fac2 leaf fac := try (match goal with |- context [leaf ?a ?b ?c ?d ?e ?f ?g ?h ?i ?j ?k ?l ?m ?n ?o ?p ?q] =>
  change (leaf a b c d e f g h i j k l m n o p q) with (fac a b c d e f g h i j k l m n o p q); unfold fac end).
Ltac fac3 leaf fac := try (match goal with |- context [leaf ?a ?b ?c ?d ?e ?f ?g ?h ?i ?j ?k ?l ?m ?n ?o ?p ?q ?r ?s ?t ?u ?v] =>
  change (leaf a b c d e f g h i j k l m n o p q r s t u v) with (fac a b c d e f g h i j k l m n o p q r s t u v); unfold fac end).

Definition hos_asm_3_stmt : Prop :=
  forall g0 g1 g2 d00 d11 d22 d01 d02 d12 l0 l1 l2 m00 m01 m02 m10 m11 m12 m20 m21 m22 e : R,
    0 < e -> ties_transitive e l0 l1 l2 ->
    exists L, hos_asm_3 g0 g1 g2 d00 d11 d22 d01 d02 d12 l0 l1 l2 m00 m01 m02 m10 m11 m12 m20 m21 m22 e = Some L /\
      entries 6 L (iso_hess e [g0; g1; g2] [d00; d11; d22; d01; d02; d12] [l0; l1; l2] [m00; m01; m02; m10; m11; m12; m20; m21; m22]).
Definition hos_asm_2_stmt : Prop :=
  forall g0 g1 g2 d00 d11 d22 d01 d02 d12 l0 l1 l2 m00 m01 m10 m11 e : R,
    0 < e ->
    exists L, hos_asm_2 g0 g1 g2 d00 d11 d22 d01 d02 d12 l0 l1 l2 m00 m01 m10 m11 e = Some L /\
      entries 4 L (iso_hess_plane e [g0; g1; g2] [d00; d11; d22; d01; d02; d12] [l0; l1; l2] [m00; m01; 0; m10; m11; 0; 0; 0; 1]).
Definition bar_cpl_3_stmt : Prop :=
  forall g0 g1 g2 d00 d11 d22 d01 d02 d12 l0 l1 l2 m00 m01 m02 m10 m11 m12 m20 m21 m22 e : R,
    0 < e ->
    exists L, bar_cpl_3 g0 g1 g2 d00 d11 d22 d01 d02 d12 l0 l1 l2 m00 m01 m02 m10 m11 m12 m20 m21 m22 e = Some L /\
      entries 6 L (eig_pairs e [g0; g1; g2] [d00; d11; d22; d01; d02; d12] [l0; l1; l2] [m00; m01; m02; m10; m11; m12; m20; m21; m22]).
Definition bar_cpl_2_stmt : Prop :=
  forall g0 g1 g2 d00 d11 d22 d01 d02 d12 l0 l1 l2 m00 m01 m10 m11 e : R,
    0 < e ->
    exists L, bar_cpl_2 g0 g1 g2 d00 d11 d22 d01 d02 d12 l0 l1 l2 m00 m01 m10 m11 e = Some L /\
      entries 4 L (eig_pair_plane e [g0; g1; g2] [d00; d11; d22; d01; d02; d12] [l0; l1; l2] [m00; m01; 0; m10; m11; 0; 0; 0; 1]).

(* C22 -- 3D eigenvector terms of Barlat's second derivative: every tie branch is the specification *)
From Coq Require Import Reals List Lra.
From Coquelicot Require Import Coquelicot.
From VLib Require Import RealExtra.
From C22 Require Import C22InvSpec C22InvTac C22EigSpec C22eig_gen C22EigAsmCuts C22EigAsmTac.
Import ListNotations.
Local Open Scope R_scope.

Lemma bar_cpl_3_ok : bar_cpl_3_stmt.
Proof.
  unfold bar_cpl_3_stmt. intros until e. intros He.
  change (bar_cpl_3 g0 g1 g2 d00 d11 d22 d01 d02 d12 l0 l1 l2 m00 m01 m02 m10 m11 m12 m20 m21 m22 e) with (bar_cpl_3_sk g0 g1 g2 d00 d11 d22 d01 d02 d12 l0 l1 l2 m00 m01 m02 m10 m11 m12 m20 m21 m22 e).
  asm_proof ltac:(decide_ties e l0 l1 l2) He ltac:(unfold bar_cpl_3_sk) ltac:(fac3 bar_cpl_3_leaf0 bar_cpl_3_leaf0_fac; fac3 bar_cpl_3_leaf1 bar_cpl_3_leaf1_fac; fac3 bar_cpl_3_leaf2 bar_cpl_3_leaf2_fac; fac3 bar_cpl_3_leaf3 bar_cpl_3_leaf3_fac; fac3 bar_cpl_3_leaf4 bar_cpl_3_leaf4_fac; fac3 bar_cpl_3_leaf5 bar_cpl_3_leaf5_fac; fac3 bar_cpl_3_leaf6 bar_cpl_3_leaf6_fac; fac3 bar_cpl_3_leaf7 bar_cpl_3_leaf7_fac) ltac:(unfold bar_cpl_3_leaf0_abs, bar_cpl_3_leaf1_abs, bar_cpl_3_leaf2_abs, bar_cpl_3_leaf3_abs, bar_cpl_3_leaf4_abs, bar_cpl_3_leaf5_abs, bar_cpl_3_leaf6_abs, bar_cpl_3_leaf7_abs) ltac:(rw_comps3) ltac:(unfold_asm3cuts).
Qed.

(* C22 -- Barlat 2004 with both transformations = deviatoric projector equals Hosford 1972 (a = 8, diagonal stress): property theorem *)
From Coq Require Import Reals List Lra.
From Coquelicot Require Import Coquelicot.
From VLib Require Import RealExtra.
From C22 Require Import C22InvSpec C22EigSpec C22eig_gen C22EigStatements C22Eig_barid8.
Import ListNotations.
Local Open Scope R_scope.

Theorem C22_barlat8_projector_is_hosford : bar8_hosford_stmt.
Proof. exact bar8_hosford_ok. Qed.
Print Assumptions C22_barlat8_projector_is_hosford.

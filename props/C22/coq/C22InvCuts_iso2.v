(* C22 -- the cut quantities are polynomials whose derivatives are the next cut quantities (written by mkcoq.py).
   iso: d(s|s)/ds_j = 2 dev_j, dJ3/ds_j = b_j (computeJ3Derivative), db_i/ds_j = h_ij (computeJ3SecondDerivative);
   ort: dJ2O/ds_j = p_j, dp_i/ds_j = q_ij, dJ3O/ds_j = r_j, dr_i/ds_j = t_ij (computeJ2O/J3O[Second]Derivative). *)
From Coq Require Import Reals List Lra.
From Coquelicot Require Import Coquelicot.
From VLib Require Import RealExtra.
From C22 Require Import C22InvSpec C22InvTac C22inv_gen.
Import ListNotations.
Local Open Scope R_scope.

Lemma iso2_dss_0 s0 s1 s2 s3 : is_derive (fun x => (iso_ss_2 x s1 s2 s3)) s0 (2 * (s0 - (s0 + s1 + s2) / 3)).
Proof. unfold iso_ss_2. cutder. Qed.
Lemma iso2_dj3_0 s0 s1 s2 s3 : is_derive (fun x => (iso_j3_2 x s1 s2 s3)) s0 (iso_b0_2 s0 s1 s2 s3).
Proof. unfold iso_b0_2, iso_j3_2. cutder. Qed.
Lemma iso2_db0_0 s0 s1 s2 s3 : is_derive (fun x => (iso_b0_2 x s1 s2 s3)) s0 (iso_h00_2 s0 s1 s2 s3).
Proof. unfold iso_b0_2, iso_h00_2. cutder. Qed.
Lemma iso2_db1_0 s0 s1 s2 s3 : is_derive (fun x => (iso_b1_2 x s1 s2 s3)) s0 (iso_h10_2 s0 s1 s2 s3).
Proof. unfold iso_b1_2, iso_h10_2. cutder. Qed.
Lemma iso2_db2_0 s0 s1 s2 s3 : is_derive (fun x => (iso_b2_2 x s1 s2 s3)) s0 (iso_h20_2 s0 s1 s2 s3).
Proof. unfold iso_b2_2, iso_h20_2. cutder. Qed.
Lemma iso2_db3_0 s0 s1 s2 s3 : is_derive (fun x => (iso_b3_2 x s1 s2 s3)) s0 (iso_h30_2 s0 s1 s2 s3).
Proof. unfold iso_b3_2, iso_h30_2. cutder. Qed.
Lemma iso2_dss_1 s0 s1 s2 s3 : is_derive (fun x => (iso_ss_2 s0 x s2 s3)) s1 (2 * (s1 - (s0 + s1 + s2) / 3)).
Proof. unfold iso_ss_2. cutder. Qed.
Lemma iso2_dj3_1 s0 s1 s2 s3 : is_derive (fun x => (iso_j3_2 s0 x s2 s3)) s1 (iso_b1_2 s0 s1 s2 s3).
Proof. unfold iso_b1_2, iso_j3_2. cutder. Qed.
Lemma iso2_db0_1 s0 s1 s2 s3 : is_derive (fun x => (iso_b0_2 s0 x s2 s3)) s1 (iso_h01_2 s0 s1 s2 s3).
Proof. unfold iso_b0_2, iso_h01_2. cutder. Qed.
Lemma iso2_db1_1 s0 s1 s2 s3 : is_derive (fun x => (iso_b1_2 s0 x s2 s3)) s1 (iso_h11_2 s0 s1 s2 s3).
Proof. unfold iso_b1_2, iso_h11_2. cutder. Qed.
Lemma iso2_db2_1 s0 s1 s2 s3 : is_derive (fun x => (iso_b2_2 s0 x s2 s3)) s1 (iso_h21_2 s0 s1 s2 s3).
Proof. unfold iso_b2_2, iso_h21_2. cutder. Qed.
Lemma iso2_db3_1 s0 s1 s2 s3 : is_derive (fun x => (iso_b3_2 s0 x s2 s3)) s1 (iso_h31_2 s0 s1 s2 s3).
Proof. unfold iso_b3_2, iso_h31_2. cutder. Qed.
Lemma iso2_dss_2 s0 s1 s2 s3 : is_derive (fun x => (iso_ss_2 s0 s1 x s3)) s2 (2 * (s2 - (s0 + s1 + s2) / 3)).
Proof. unfold iso_ss_2. cutder. Qed.
Lemma iso2_dj3_2 s0 s1 s2 s3 : is_derive (fun x => (iso_j3_2 s0 s1 x s3)) s2 (iso_b2_2 s0 s1 s2 s3).
Proof. unfold iso_b2_2, iso_j3_2. cutder. Qed.
Lemma iso2_db0_2 s0 s1 s2 s3 : is_derive (fun x => (iso_b0_2 s0 s1 x s3)) s2 (iso_h02_2 s0 s1 s2 s3).
Proof. unfold iso_b0_2, iso_h02_2. cutder. Qed.
Lemma iso2_db1_2 s0 s1 s2 s3 : is_derive (fun x => (iso_b1_2 s0 s1 x s3)) s2 (iso_h12_2 s0 s1 s2 s3).
Proof. unfold iso_b1_2, iso_h12_2. cutder. Qed.
Lemma iso2_db2_2 s0 s1 s2 s3 : is_derive (fun x => (iso_b2_2 s0 s1 x s3)) s2 (iso_h22_2 s0 s1 s2 s3).
Proof. unfold iso_b2_2, iso_h22_2. cutder. Qed.
Lemma iso2_db3_2 s0 s1 s2 s3 : is_derive (fun x => (iso_b3_2 s0 s1 x s3)) s2 (iso_h32_2 s0 s1 s2 s3).
Proof. unfold iso_b3_2, iso_h32_2. cutder. Qed.
Lemma iso2_dss_3 s0 s1 s2 s3 : is_derive (fun x => (iso_ss_2 s0 s1 s2 x)) s3 (2 * s3).
Proof. unfold iso_ss_2. cutder. Qed.
Lemma iso2_dj3_3 s0 s1 s2 s3 : is_derive (fun x => (iso_j3_2 s0 s1 s2 x)) s3 (iso_b3_2 s0 s1 s2 s3).
Proof. unfold iso_b3_2, iso_j3_2. cutder. Qed.
Lemma iso2_db0_3 s0 s1 s2 s3 : is_derive (fun x => (iso_b0_2 s0 s1 s2 x)) s3 (iso_h03_2 s0 s1 s2 s3).
Proof. unfold iso_b0_2, iso_h03_2. cutder. Qed.
Lemma iso2_db1_3 s0 s1 s2 s3 : is_derive (fun x => (iso_b1_2 s0 s1 s2 x)) s3 (iso_h13_2 s0 s1 s2 s3).
Proof. unfold iso_b1_2, iso_h13_2. cutder. Qed.
Lemma iso2_db2_3 s0 s1 s2 s3 : is_derive (fun x => (iso_b2_2 s0 s1 s2 x)) s3 (iso_h23_2 s0 s1 s2 s3).
Proof. unfold iso_b2_2, iso_h23_2. cutder. Qed.
Lemma iso2_db3_3 s0 s1 s2 s3 : is_derive (fun x => (iso_b3_2 s0 s1 s2 x)) s3 (iso_h33_2 s0 s1 s2 s3).
Proof. unfold iso_b3_2, iso_h33_2. cutder. Qed.

(* C22 -- plane (2D) assembly of Hosford's second derivative and Barlat's eigenvector terms: every tie branch is the specification *)
From Coq Require Import Reals List Lra.
From Coquelicot Require Import Coquelicot.
From VLib Require Import RealExtra.
From C22 Require Import C22InvSpec C22InvTac C22EigSpec C22eig_gen C22EigAsmCuts C22EigAsmTac.
Import ListNotations.
Local Open Scope R_scope.

(* ---- Hosford, 2D: the third eigenvector is e_z *)
Lemma hos_asm_2_ok : hos_asm_2_stmt.
Proof.
  unfold hos_asm_2_stmt. intros until e. intros He.
  change (hos_asm_2 g0 g1 g2 d00 d11 d22 d01 d02 d12 l0 l1 l2 m00 m01 m10 m11 e) with (hos_asm_2_sk g0 g1 g2 d00 d11 d22 d01 d02 d12 l0 l1 l2 m00 m01 m10 m11 e).
  asm_proof ltac:(decide_tie_01 e l0 l1) He ltac:(unfold hos_asm_2_sk) ltac:(fac2 hos_asm_2_leaf0 hos_asm_2_leaf0_fac; fac2 hos_asm_2_leaf1 hos_asm_2_leaf1_fac) ltac:(unfold hos_asm_2_leaf0_abs, hos_asm_2_leaf1_abs) ltac:(rw_comps2) ltac:(unfold_asm2cuts).
Qed.

Lemma bar_cpl_2_ok : bar_cpl_2_stmt.
Proof.
  unfold bar_cpl_2_stmt. intros until e. intros He.
  change (bar_cpl_2 g0 g1 g2 d00 d11 d22 d01 d02 d12 l0 l1 l2 m00 m01 m10 m11 e) with (bar_cpl_2_sk g0 g1 g2 d00 d11 d22 d01 d02 d12 l0 l1 l2 m00 m01 m10 m11 e).
  asm_proof ltac:(decide_tie_01 e l0 l1) He ltac:(unfold bar_cpl_2_sk) ltac:(fac2 bar_cpl_2_leaf0 bar_cpl_2_leaf0_fac; fac2 bar_cpl_2_leaf1 bar_cpl_2_leaf1_fac) ltac:(unfold bar_cpl_2_leaf0_abs, bar_cpl_2_leaf1_abs) ltac:(rw_comps2) ltac:(unfold_asm2cuts).
Qed.

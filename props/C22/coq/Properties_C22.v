(* C22 -- property theorems (statements only; proofs in C22Proofs.v over the regenerated C22_gen.v). *)
From Coq Require Import Reals List.
From Coquelicot Require Import Coquelicot.
From C22 Require Import C22Spec C22_gen C22Proofs.
Import ListNotations.
Local Open Scope R_scope.

(* computeDrucker1949StressCriterion is sqrt3 (J2^3 - c J3^2)^(1/6), J2 and J3 the invariants of the deviator, in 1D, 2D, 3D *)
Theorem C22_drucker_value_documented :
  (forall s0 s1 s2 c, dr_val_1 s0 s1 s2 c = drucker_1 c s0 s1 s2) /\
  (forall s0 s1 s2 s3 c, dr_val_2 s0 s1 s2 s3 c = drucker_2 c s0 s1 s2 s3) /\
  (forall s0 s1 s2 s3 s4 s5 c, dr_val_3 s0 s1 s2 s3 s4 s5 c = drucker_3 c s0 s1 s2 s3 s4 s5).
Proof. exact (conj dr_val_1_spec (conj dr_val_2_spec dr_val_3_spec)). Qed.
Print Assumptions C22_drucker_value_documented.

(* value / normal / second-derivative variants return the same equivalent stress above the seps threshold (1D, 2D) *)
Theorem C22_drucker_variants_same_value_1D : forall s0 s1 s2 c seps, seps * seps < J2_1 s0 s1 s2 ->
  (exists l, dr_nrm_1 s0 s1 s2 c seps = Some (drucker_1 c s0 s1 s2 :: l)) /\
  (exists l, dr_snd_1 s0 s1 s2 c seps = Some (drucker_1 c s0 s1 s2 :: l)).
Proof. exact dr_same_1. Qed.
Print Assumptions C22_drucker_variants_same_value_1D.
Theorem C22_drucker_variants_same_value_2D : forall s0 s1 s2 s3 c seps, seps * seps < J2_2 s0 s1 s2 s3 ->
  (exists l, dr_nrm_2 s0 s1 s2 s3 c seps = Some (drucker_2 c s0 s1 s2 s3 :: l)) /\
  (exists l, dr_snd_2 s0 s1 s2 s3 c seps = Some (drucker_2 c s0 s1 s2 s3 :: l)).
Proof. exact dr_same_2. Qed.
Print Assumptions C22_drucker_variants_same_value_2D.
(* below the threshold both derivative variants return zeros *)
Theorem C22_drucker_below_threshold_1D : forall s0 s1 s2 c seps, ~ seps * seps < J2_1 s0 s1 s2 ->
  dr_nrm_1 s0 s1 s2 c seps = Some [0; 0; 0; 0] /\ dr_snd_1 s0 s1 s2 c seps = Some [0; 0; 0; 0; 0; 0; 0; 0; 0; 0; 0; 0; 0].
Proof. exact dr_below_1. Qed.
Print Assumptions C22_drucker_below_threshold_1D.

(* 1D: the returned normal is the gradient of the returned equivalent stress, wherever J2^3 - c J3^2 > 0 and J2 > seps^2 *)
Theorem C22_drucker_normal_is_gradient_1D : forall c s0 s1 s2 seps, 0 < S6_1 c s0 s1 s2 -> seps * seps < J2_1 s0 s1 s2 ->
  exists n0 n1 n2, dr_nrm_1 s0 s1 s2 c seps = Some [drucker_1 c s0 s1 s2; n0; n1; n2] /\
    is_grad3 (drucker_1 c) s0 s1 s2 [n0; n1; n2].
Proof.
  intros c s0 s1 s2 seps HS HJ.
  exact (ex_intro _ _ (ex_intro _ _ (ex_intro _ _ (conj (dr_nrm_1_closed_form c s0 s1 s2 seps HS HJ) (dr_grad_1 c s0 s1 s2 HS))))).
Qed.
Print Assumptions C22_drucker_normal_is_gradient_1D.

(* sigmaeq is sqrt (3 J2) *)
Theorem C22_mises_documented : forall s0 s1 s2 s3 s4 s5, mises_3 s0 s1 s2 s3 s4 s5 = mises_of (J2_3 s0 s1 s2 s3 s4 s5).
Proof. exact mises_3_spec. Qed.
Print Assumptions C22_mises_documented.

(* C22 -- Barlat 2004 with both transformations = deviatoric projector equals Hosford 1972 (a = 6, diagonal stress): property theorem *)
From Coq Require Import Reals List Lra.
From Coquelicot Require Import Coquelicot.
From VLib Require Import RealExtra.
From C22 Require Import C22InvSpec C22EigSpec C22eig_gen C22EigStatements C22Eig_barid6.
Import ListNotations.
Local Open Scope R_scope.

Theorem C22_barlat6_projector_is_hosford : bar6_hosford_stmt.
Proof. exact bar6_hosford_ok. Qed.
Print Assumptions C22_barlat6_projector_is_hosford.

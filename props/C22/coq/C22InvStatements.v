(* C22 -- statements for the invariant-based criteria (written by mkcoq.py, committed).  Every function named
   <X>_val_<N>, <X>_nrm_<N>, <X>_snd_<N> (monolithic traces of the three public functions of /repo) and every cut quantity
   iso_*_<N> / ort_*_<N> (results of the library calls s|s, det(dev), computeJ3Derivative, ..., computeJ2O, ...) is
   regenerated from /repo at each run (C22inv_gen.v).  Hypotheses are stated on the traced invariants. *)
From Coq Require Import Reals List Lra.
From Coquelicot Require Import Coquelicot.
From VLib Require Import RealExtra.
From C22 Require Import C22InvSpec C22inv_gen.
Import ListNotations.
Local Open Scope R_scope.

(* ---- Drucker 1949, N = 1 *)
Definition drk_1_same_stmt : Prop :=
  forall s0 s1 s2 c seps : R,
    seps * seps < ((iso_ss_1 s0 s1 s2) / 2) ->
    (exists l, drk_nrm_1 s0 s1 s2 c seps = Some (drk_val_1 s0 s1 s2 c :: l)) /\
    (exists l, drk_snd_1 s0 s1 s2 c seps = Some (drk_val_1 s0 s1 s2 c :: l)) /\
    firstn 4 (out (drk_snd_1 s0 s1 s2 c seps)) = out (drk_nrm_1 s0 s1 s2 c seps).
Definition drk_1_grad_stmt : Prop :=
  forall s0 s1 s2 c seps : R,
    seps * seps < ((iso_ss_1 s0 s1 s2) / 2) ->
    0 < S6_of ((iso_ss_1 s0 s1 s2) / 2) (iso_j3_1 s0 s1 s2) c ->
    is_grad 3 (fun p => drk_val_1 (nthR p 0) (nthR p 1) (nthR p 2) c) (fun p => out (drk_nrm_1 (nthR p 0) (nthR p 1) (nthR p 2) c seps)) [s0; s1; s2].
Definition drk_1_hess_stmt : Prop :=
  forall s0 s1 s2 c seps : R,
    seps * seps < ((iso_ss_1 s0 s1 s2) / 2) ->
    0 < S6_of ((iso_ss_1 s0 s1 s2) / 2) (iso_j3_1 s0 s1 s2) c ->
    is_hess 3 (fun p => out (drk_snd_1 (nthR p 0) (nthR p 1) (nthR p 2) c seps)) [s0; s1; s2].
Definition drk_1_sym_stmt : Prop :=
  forall s0 s1 s2 c seps : R,
    seps * seps < ((iso_ss_1 s0 s1 s2) / 2) ->
    0 < S6_of ((iso_ss_1 s0 s1 s2) / 2) (iso_j3_1 s0 s1 s2) c ->
    is_sym 3 (out (drk_snd_1 s0 s1 s2 c seps)).
Definition drk_1_hom_stmt : Prop :=
  forall s0 s1 s2 c t : R, 0 < t ->
    0 < S6_of ((iso_ss_1 s0 s1 s2) / 2) (iso_j3_1 s0 s1 s2) c ->
    drk_val_1 (t * s0) (t * s1) (t * s2) c = t * drk_val_1 s0 s1 s2 c.

(* ---- Drucker 1949, N = 2 *)
Definition drk_2_same_stmt : Prop :=
  forall s0 s1 s2 s3 c seps : R,
    seps * seps < ((iso_ss_2 s0 s1 s2 s3) / 2) ->
    (exists l, drk_nrm_2 s0 s1 s2 s3 c seps = Some (drk_val_2 s0 s1 s2 s3 c :: l)) /\
    (exists l, drk_snd_2 s0 s1 s2 s3 c seps = Some (drk_val_2 s0 s1 s2 s3 c :: l)) /\
    firstn 5 (out (drk_snd_2 s0 s1 s2 s3 c seps)) = out (drk_nrm_2 s0 s1 s2 s3 c seps).
Definition drk_2_grad_stmt : Prop :=
  forall s0 s1 s2 s3 c seps : R,
    seps * seps < ((iso_ss_2 s0 s1 s2 s3) / 2) ->
    0 < S6_of ((iso_ss_2 s0 s1 s2 s3) / 2) (iso_j3_2 s0 s1 s2 s3) c ->
    is_grad 4 (fun p => drk_val_2 (nthR p 0) (nthR p 1) (nthR p 2) (nthR p 3) c) (fun p => out (drk_nrm_2 (nthR p 0) (nthR p 1) (nthR p 2) (nthR p 3) c seps)) [s0; s1; s2; s3].
Definition drk_2_hess_stmt : Prop :=
  forall s0 s1 s2 s3 c seps : R,
    seps * seps < ((iso_ss_2 s0 s1 s2 s3) / 2) ->
    0 < S6_of ((iso_ss_2 s0 s1 s2 s3) / 2) (iso_j3_2 s0 s1 s2 s3) c ->
    is_hess 4 (fun p => out (drk_snd_2 (nthR p 0) (nthR p 1) (nthR p 2) (nthR p 3) c seps)) [s0; s1; s2; s3].
Definition drk_2_sym_stmt : Prop :=
  forall s0 s1 s2 s3 c seps : R,
    seps * seps < ((iso_ss_2 s0 s1 s2 s3) / 2) ->
    0 < S6_of ((iso_ss_2 s0 s1 s2 s3) / 2) (iso_j3_2 s0 s1 s2 s3) c ->
    is_sym 4 (out (drk_snd_2 s0 s1 s2 s3 c seps)).
Definition drk_2_hom_stmt : Prop :=
  forall s0 s1 s2 s3 c t : R, 0 < t ->
    0 < S6_of ((iso_ss_2 s0 s1 s2 s3) / 2) (iso_j3_2 s0 s1 s2 s3) c ->
    drk_val_2 (t * s0) (t * s1) (t * s2) (t * s3) c = t * drk_val_2 s0 s1 s2 s3 c.

(* ---- Drucker 1949, N = 3 *)
Definition drk_3_same_stmt : Prop :=
  forall s0 s1 s2 s3 s4 s5 c seps : R,
    seps * seps < ((iso_ss_3 s0 s1 s2 s3 s4 s5) / 2) ->
    (exists l, drk_nrm_3 s0 s1 s2 s3 s4 s5 c seps = Some (drk_val_3 s0 s1 s2 s3 s4 s5 c :: l)) /\
    (exists l, drk_snd_3 s0 s1 s2 s3 s4 s5 c seps = Some (drk_val_3 s0 s1 s2 s3 s4 s5 c :: l)) /\
    firstn 7 (out (drk_snd_3 s0 s1 s2 s3 s4 s5 c seps)) = out (drk_nrm_3 s0 s1 s2 s3 s4 s5 c seps).
Definition drk_3_grad_stmt : Prop :=
  forall s0 s1 s2 s3 s4 s5 c seps : R,
    seps * seps < ((iso_ss_3 s0 s1 s2 s3 s4 s5) / 2) ->
    0 < S6_of ((iso_ss_3 s0 s1 s2 s3 s4 s5) / 2) (iso_j3_3 s0 s1 s2 s3 s4 s5) c ->
    is_grad 6 (fun p => drk_val_3 (nthR p 0) (nthR p 1) (nthR p 2) (nthR p 3) (nthR p 4) (nthR p 5) c) (fun p => out (drk_nrm_3 (nthR p 0) (nthR p 1) (nthR p 2) (nthR p 3) (nthR p 4) (nthR p 5) c seps)) [s0; s1; s2; s3; s4; s5].
Definition drk_3_hess_stmt : Prop :=
  forall s0 s1 s2 s3 s4 s5 c seps : R,
    seps * seps < ((iso_ss_3 s0 s1 s2 s3 s4 s5) / 2) ->
    0 < S6_of ((iso_ss_3 s0 s1 s2 s3 s4 s5) / 2) (iso_j3_3 s0 s1 s2 s3 s4 s5) c ->
    is_hess 6 (fun p => out (drk_snd_3 (nthR p 0) (nthR p 1) (nthR p 2) (nthR p 3) (nthR p 4) (nthR p 5) c seps)) [s0; s1; s2; s3; s4; s5].
Definition drk_3_sym_stmt : Prop :=
  forall s0 s1 s2 s3 s4 s5 c seps : R,
    seps * seps < ((iso_ss_3 s0 s1 s2 s3 s4 s5) / 2) ->
    0 < S6_of ((iso_ss_3 s0 s1 s2 s3 s4 s5) / 2) (iso_j3_3 s0 s1 s2 s3 s4 s5) c ->
    is_sym 6 (out (drk_snd_3 s0 s1 s2 s3 s4 s5 c seps)).
Definition drk_3_hom_stmt : Prop :=
  forall s0 s1 s2 s3 s4 s5 c t : R, 0 < t ->
    0 < S6_of ((iso_ss_3 s0 s1 s2 s3 s4 s5) / 2) (iso_j3_3 s0 s1 s2 s3 s4 s5) c ->
    drk_val_3 (t * s0) (t * s1) (t * s2) (t * s3) (t * s4) (t * s5) c = t * drk_val_3 s0 s1 s2 s3 s4 s5 c.

(* ---- Cazacu 2001, N = 1 *)
Definition c01_1_same_stmt : Prop :=
  forall s0 s1 s2 a0 a1 a2 a3 a4 a5 b0 b1 b2 b3 b4 b5 b6 b7 b8 b9 b10 c seps : R,
    seps * seps < (ort_k2_1 s0 s1 s2 a0 a1 a2 a3 a4 a5 b0 b1 b2 b3 b4 b5 b6 b7 b8 b9 b10) ->
    (exists l, c01_nrm_1 s0 s1 s2 a0 a1 a2 a3 a4 a5 b0 b1 b2 b3 b4 b5 b6 b7 b8 b9 b10 c seps = Some (c01_val_1 s0 s1 s2 a0 a1 a2 a3 a4 a5 b0 b1 b2 b3 b4 b5 b6 b7 b8 b9 b10 c :: l)) /\
    (exists l, c01_snd_1 s0 s1 s2 a0 a1 a2 a3 a4 a5 b0 b1 b2 b3 b4 b5 b6 b7 b8 b9 b10 c seps = Some (c01_val_1 s0 s1 s2 a0 a1 a2 a3 a4 a5 b0 b1 b2 b3 b4 b5 b6 b7 b8 b9 b10 c :: l)) /\
    firstn 4 (out (c01_snd_1 s0 s1 s2 a0 a1 a2 a3 a4 a5 b0 b1 b2 b3 b4 b5 b6 b7 b8 b9 b10 c seps)) = out (c01_nrm_1 s0 s1 s2 a0 a1 a2 a3 a4 a5 b0 b1 b2 b3 b4 b5 b6 b7 b8 b9 b10 c seps).
Definition c01_1_grad_stmt : Prop :=
  forall s0 s1 s2 a0 a1 a2 a3 a4 a5 b0 b1 b2 b3 b4 b5 b6 b7 b8 b9 b10 c seps : R,
    seps * seps < (ort_k2_1 s0 s1 s2 a0 a1 a2 a3 a4 a5 b0 b1 b2 b3 b4 b5 b6 b7 b8 b9 b10) ->
    0 < S6_of (ort_k2_1 s0 s1 s2 a0 a1 a2 a3 a4 a5 b0 b1 b2 b3 b4 b5 b6 b7 b8 b9 b10) (ort_k3_1 s0 s1 s2 a0 a1 a2 a3 a4 a5 b0 b1 b2 b3 b4 b5 b6 b7 b8 b9 b10) c ->
    is_grad 3 (fun p => c01_val_1 (nthR p 0) (nthR p 1) (nthR p 2) a0 a1 a2 a3 a4 a5 b0 b1 b2 b3 b4 b5 b6 b7 b8 b9 b10 c) (fun p => out (c01_nrm_1 (nthR p 0) (nthR p 1) (nthR p 2) a0 a1 a2 a3 a4 a5 b0 b1 b2 b3 b4 b5 b6 b7 b8 b9 b10 c seps)) [s0; s1; s2].
Definition c01_1_hess_stmt : Prop :=
  forall s0 s1 s2 a0 a1 a2 a3 a4 a5 b0 b1 b2 b3 b4 b5 b6 b7 b8 b9 b10 c seps : R,
    seps * seps < (ort_k2_1 s0 s1 s2 a0 a1 a2 a3 a4 a5 b0 b1 b2 b3 b4 b5 b6 b7 b8 b9 b10) ->
    0 < S6_of (ort_k2_1 s0 s1 s2 a0 a1 a2 a3 a4 a5 b0 b1 b2 b3 b4 b5 b6 b7 b8 b9 b10) (ort_k3_1 s0 s1 s2 a0 a1 a2 a3 a4 a5 b0 b1 b2 b3 b4 b5 b6 b7 b8 b9 b10) c ->
    is_hess 3 (fun p => out (c01_snd_1 (nthR p 0) (nthR p 1) (nthR p 2) a0 a1 a2 a3 a4 a5 b0 b1 b2 b3 b4 b5 b6 b7 b8 b9 b10 c seps)) [s0; s1; s2].
Definition c01_1_sym_stmt : Prop :=
  forall s0 s1 s2 a0 a1 a2 a3 a4 a5 b0 b1 b2 b3 b4 b5 b6 b7 b8 b9 b10 c seps : R,
    seps * seps < (ort_k2_1 s0 s1 s2 a0 a1 a2 a3 a4 a5 b0 b1 b2 b3 b4 b5 b6 b7 b8 b9 b10) ->
    0 < S6_of (ort_k2_1 s0 s1 s2 a0 a1 a2 a3 a4 a5 b0 b1 b2 b3 b4 b5 b6 b7 b8 b9 b10) (ort_k3_1 s0 s1 s2 a0 a1 a2 a3 a4 a5 b0 b1 b2 b3 b4 b5 b6 b7 b8 b9 b10) c ->
    is_sym 3 (out (c01_snd_1 s0 s1 s2 a0 a1 a2 a3 a4 a5 b0 b1 b2 b3 b4 b5 b6 b7 b8 b9 b10 c seps)).
Definition c01_1_hom_stmt : Prop :=
  forall s0 s1 s2 a0 a1 a2 a3 a4 a5 b0 b1 b2 b3 b4 b5 b6 b7 b8 b9 b10 c t : R, 0 < t ->
    0 < S6_of (ort_k2_1 s0 s1 s2 a0 a1 a2 a3 a4 a5 b0 b1 b2 b3 b4 b5 b6 b7 b8 b9 b10) (ort_k3_1 s0 s1 s2 a0 a1 a2 a3 a4 a5 b0 b1 b2 b3 b4 b5 b6 b7 b8 b9 b10) c ->
    c01_val_1 (t * s0) (t * s1) (t * s2) a0 a1 a2 a3 a4 a5 b0 b1 b2 b3 b4 b5 b6 b7 b8 b9 b10 c = t * c01_val_1 s0 s1 s2 a0 a1 a2 a3 a4 a5 b0 b1 b2 b3 b4 b5 b6 b7 b8 b9 b10 c.

(* ---- Cazacu 2001, N = 2 *)
Definition c01_2_same_stmt : Prop :=
  forall s0 s1 s2 s3 a0 a1 a2 a3 a4 a5 b0 b1 b2 b3 b4 b5 b6 b7 b8 b9 b10 c seps : R,
    seps * seps < (ort_k2_2 s0 s1 s2 s3 a0 a1 a2 a3 a4 a5 b0 b1 b2 b3 b4 b5 b6 b7 b8 b9 b10) ->
    (exists l, c01_nrm_2 s0 s1 s2 s3 a0 a1 a2 a3 a4 a5 b0 b1 b2 b3 b4 b5 b6 b7 b8 b9 b10 c seps = Some (c01_val_2 s0 s1 s2 s3 a0 a1 a2 a3 a4 a5 b0 b1 b2 b3 b4 b5 b6 b7 b8 b9 b10 c :: l)) /\
    (exists l, c01_snd_2 s0 s1 s2 s3 a0 a1 a2 a3 a4 a5 b0 b1 b2 b3 b4 b5 b6 b7 b8 b9 b10 c seps = Some (c01_val_2 s0 s1 s2 s3 a0 a1 a2 a3 a4 a5 b0 b1 b2 b3 b4 b5 b6 b7 b8 b9 b10 c :: l)) /\
    firstn 5 (out (c01_snd_2 s0 s1 s2 s3 a0 a1 a2 a3 a4 a5 b0 b1 b2 b3 b4 b5 b6 b7 b8 b9 b10 c seps)) = out (c01_nrm_2 s0 s1 s2 s3 a0 a1 a2 a3 a4 a5 b0 b1 b2 b3 b4 b5 b6 b7 b8 b9 b10 c seps).
Definition c01_2_grad_stmt : Prop :=
  forall s0 s1 s2 s3 a0 a1 a2 a3 a4 a5 b0 b1 b2 b3 b4 b5 b6 b7 b8 b9 b10 c seps : R,
    seps * seps < (ort_k2_2 s0 s1 s2 s3 a0 a1 a2 a3 a4 a5 b0 b1 b2 b3 b4 b5 b6 b7 b8 b9 b10) ->
    0 < S6_of (ort_k2_2 s0 s1 s2 s3 a0 a1 a2 a3 a4 a5 b0 b1 b2 b3 b4 b5 b6 b7 b8 b9 b10) (ort_k3_2 s0 s1 s2 s3 a0 a1 a2 a3 a4 a5 b0 b1 b2 b3 b4 b5 b6 b7 b8 b9 b10) c ->
    is_grad 4 (fun p => c01_val_2 (nthR p 0) (nthR p 1) (nthR p 2) (nthR p 3) a0 a1 a2 a3 a4 a5 b0 b1 b2 b3 b4 b5 b6 b7 b8 b9 b10 c) (fun p => out (c01_nrm_2 (nthR p 0) (nthR p 1) (nthR p 2) (nthR p 3) a0 a1 a2 a3 a4 a5 b0 b1 b2 b3 b4 b5 b6 b7 b8 b9 b10 c seps)) [s0; s1; s2; s3].
Definition c01_2_hess_stmt : Prop :=
  forall s0 s1 s2 s3 a0 a1 a2 a3 a4 a5 b0 b1 b2 b3 b4 b5 b6 b7 b8 b9 b10 c seps : R,
    seps * seps < (ort_k2_2 s0 s1 s2 s3 a0 a1 a2 a3 a4 a5 b0 b1 b2 b3 b4 b5 b6 b7 b8 b9 b10) ->
    0 < S6_of (ort_k2_2 s0 s1 s2 s3 a0 a1 a2 a3 a4 a5 b0 b1 b2 b3 b4 b5 b6 b7 b8 b9 b10) (ort_k3_2 s0 s1 s2 s3 a0 a1 a2 a3 a4 a5 b0 b1 b2 b3 b4 b5 b6 b7 b8 b9 b10) c ->
    is_hess 4 (fun p => out (c01_snd_2 (nthR p 0) (nthR p 1) (nthR p 2) (nthR p 3) a0 a1 a2 a3 a4 a5 b0 b1 b2 b3 b4 b5 b6 b7 b8 b9 b10 c seps)) [s0; s1; s2; s3].
Definition c01_2_sym_stmt : Prop :=
  forall s0 s1 s2 s3 a0 a1 a2 a3 a4 a5 b0 b1 b2 b3 b4 b5 b6 b7 b8 b9 b10 c seps : R,
    seps * seps < (ort_k2_2 s0 s1 s2 s3 a0 a1 a2 a3 a4 a5 b0 b1 b2 b3 b4 b5 b6 b7 b8 b9 b10) ->
    0 < S6_of (ort_k2_2 s0 s1 s2 s3 a0 a1 a2 a3 a4 a5 b0 b1 b2 b3 b4 b5 b6 b7 b8 b9 b10) (ort_k3_2 s0 s1 s2 s3 a0 a1 a2 a3 a4 a5 b0 b1 b2 b3 b4 b5 b6 b7 b8 b9 b10) c ->
    is_sym 4 (out (c01_snd_2 s0 s1 s2 s3 a0 a1 a2 a3 a4 a5 b0 b1 b2 b3 b4 b5 b6 b7 b8 b9 b10 c seps)).
Definition c01_2_hom_stmt : Prop :=
  forall s0 s1 s2 s3 a0 a1 a2 a3 a4 a5 b0 b1 b2 b3 b4 b5 b6 b7 b8 b9 b10 c t : R, 0 < t ->
    0 < S6_of (ort_k2_2 s0 s1 s2 s3 a0 a1 a2 a3 a4 a5 b0 b1 b2 b3 b4 b5 b6 b7 b8 b9 b10) (ort_k3_2 s0 s1 s2 s3 a0 a1 a2 a3 a4 a5 b0 b1 b2 b3 b4 b5 b6 b7 b8 b9 b10) c ->
    c01_val_2 (t * s0) (t * s1) (t * s2) (t * s3) a0 a1 a2 a3 a4 a5 b0 b1 b2 b3 b4 b5 b6 b7 b8 b9 b10 c = t * c01_val_2 s0 s1 s2 s3 a0 a1 a2 a3 a4 a5 b0 b1 b2 b3 b4 b5 b6 b7 b8 b9 b10 c.

(* ---- Cazacu 2001, N = 3 *)
Definition c01_3_same_stmt : Prop :=
  forall s0 s1 s2 s3 s4 s5 a0 a1 a2 a3 a4 a5 b0 b1 b2 b3 b4 b5 b6 b7 b8 b9 b10 c seps : R,
    seps * seps < (ort_k2_3 s0 s1 s2 s3 s4 s5 a0 a1 a2 a3 a4 a5 b0 b1 b2 b3 b4 b5 b6 b7 b8 b9 b10) ->
    (exists l, c01_nrm_3 s0 s1 s2 s3 s4 s5 a0 a1 a2 a3 a4 a5 b0 b1 b2 b3 b4 b5 b6 b7 b8 b9 b10 c seps = Some (c01_val_3 s0 s1 s2 s3 s4 s5 a0 a1 a2 a3 a4 a5 b0 b1 b2 b3 b4 b5 b6 b7 b8 b9 b10 c :: l)) /\
    (exists l, c01_snd_3 s0 s1 s2 s3 s4 s5 a0 a1 a2 a3 a4 a5 b0 b1 b2 b3 b4 b5 b6 b7 b8 b9 b10 c seps = Some (c01_val_3 s0 s1 s2 s3 s4 s5 a0 a1 a2 a3 a4 a5 b0 b1 b2 b3 b4 b5 b6 b7 b8 b9 b10 c :: l)) /\
    firstn 7 (out (c01_snd_3 s0 s1 s2 s3 s4 s5 a0 a1 a2 a3 a4 a5 b0 b1 b2 b3 b4 b5 b6 b7 b8 b9 b10 c seps)) = out (c01_nrm_3 s0 s1 s2 s3 s4 s5 a0 a1 a2 a3 a4 a5 b0 b1 b2 b3 b4 b5 b6 b7 b8 b9 b10 c seps).
Definition c01_3_grad_stmt : Prop :=
  forall s0 s1 s2 s3 s4 s5 a0 a1 a2 a3 a4 a5 b0 b1 b2 b3 b4 b5 b6 b7 b8 b9 b10 c seps : R,
    seps * seps < (ort_k2_3 s0 s1 s2 s3 s4 s5 a0 a1 a2 a3 a4 a5 b0 b1 b2 b3 b4 b5 b6 b7 b8 b9 b10) ->
    0 < S6_of (ort_k2_3 s0 s1 s2 s3 s4 s5 a0 a1 a2 a3 a4 a5 b0 b1 b2 b3 b4 b5 b6 b7 b8 b9 b10) (ort_k3_3 s0 s1 s2 s3 s4 s5 a0 a1 a2 a3 a4 a5 b0 b1 b2 b3 b4 b5 b6 b7 b8 b9 b10) c ->
    is_grad 6 (fun p => c01_val_3 (nthR p 0) (nthR p 1) (nthR p 2) (nthR p 3) (nthR p 4) (nthR p 5) a0 a1 a2 a3 a4 a5 b0 b1 b2 b3 b4 b5 b6 b7 b8 b9 b10 c) (fun p => out (c01_nrm_3 (nthR p 0) (nthR p 1) (nthR p 2) (nthR p 3) (nthR p 4) (nthR p 5) a0 a1 a2 a3 a4 a5 b0 b1 b2 b3 b4 b5 b6 b7 b8 b9 b10 c seps)) [s0; s1; s2; s3; s4; s5].
Definition c01_3_hess_stmt : Prop :=
  forall s0 s1 s2 s3 s4 s5 a0 a1 a2 a3 a4 a5 b0 b1 b2 b3 b4 b5 b6 b7 b8 b9 b10 c seps : R,
    seps * seps < (ort_k2_3 s0 s1 s2 s3 s4 s5 a0 a1 a2 a3 a4 a5 b0 b1 b2 b3 b4 b5 b6 b7 b8 b9 b10) ->
    0 < S6_of (ort_k2_3 s0 s1 s2 s3 s4 s5 a0 a1 a2 a3 a4 a5 b0 b1 b2 b3 b4 b5 b6 b7 b8 b9 b10) (ort_k3_3 s0 s1 s2 s3 s4 s5 a0 a1 a2 a3 a4 a5 b0 b1 b2 b3 b4 b5 b6 b7 b8 b9 b10) c ->
    is_hess 6 (fun p => out (c01_snd_3 (nthR p 0) (nthR p 1) (nthR p 2) (nthR p 3) (nthR p 4) (nthR p 5) a0 a1 a2 a3 a4 a5 b0 b1 b2 b3 b4 b5 b6 b7 b8 b9 b10 c seps)) [s0; s1; s2; s3; s4; s5].
Definition c01_3_sym_stmt : Prop :=
  forall s0 s1 s2 s3 s4 s5 a0 a1 a2 a3 a4 a5 b0 b1 b2 b3 b4 b5 b6 b7 b8 b9 b10 c seps : R,
    seps * seps < (ort_k2_3 s0 s1 s2 s3 s4 s5 a0 a1 a2 a3 a4 a5 b0 b1 b2 b3 b4 b5 b6 b7 b8 b9 b10) ->
    0 < S6_of (ort_k2_3 s0 s1 s2 s3 s4 s5 a0 a1 a2 a3 a4 a5 b0 b1 b2 b3 b4 b5 b6 b7 b8 b9 b10) (ort_k3_3 s0 s1 s2 s3 s4 s5 a0 a1 a2 a3 a4 a5 b0 b1 b2 b3 b4 b5 b6 b7 b8 b9 b10) c ->
    is_sym 6 (out (c01_snd_3 s0 s1 s2 s3 s4 s5 a0 a1 a2 a3 a4 a5 b0 b1 b2 b3 b4 b5 b6 b7 b8 b9 b10 c seps)).
Definition c01_3_hom_stmt : Prop :=
  forall s0 s1 s2 s3 s4 s5 a0 a1 a2 a3 a4 a5 b0 b1 b2 b3 b4 b5 b6 b7 b8 b9 b10 c t : R, 0 < t ->
    0 < S6_of (ort_k2_3 s0 s1 s2 s3 s4 s5 a0 a1 a2 a3 a4 a5 b0 b1 b2 b3 b4 b5 b6 b7 b8 b9 b10) (ort_k3_3 s0 s1 s2 s3 s4 s5 a0 a1 a2 a3 a4 a5 b0 b1 b2 b3 b4 b5 b6 b7 b8 b9 b10) c ->
    c01_val_3 (t * s0) (t * s1) (t * s2) (t * s3) (t * s4) (t * s5) a0 a1 a2 a3 a4 a5 b0 b1 b2 b3 b4 b5 b6 b7 b8 b9 b10 c = t * c01_val_3 s0 s1 s2 s3 s4 s5 a0 a1 a2 a3 a4 a5 b0 b1 b2 b3 b4 b5 b6 b7 b8 b9 b10 c.

(* ---- Cazacu 2004 (isotropic), N = 1 *)
Definition c4i_1_same_stmt : Prop :=
  forall s0 s1 s2 c seps : R,
    seps < c4i_val_1 s0 s1 s2 c ->
    (exists l, c4i_nrm_1 s0 s1 s2 c seps = Some (c4i_val_1 s0 s1 s2 c :: l)) /\
    (exists l, c4i_snd_1 s0 s1 s2 c seps = Some (c4i_val_1 s0 s1 s2 c :: l)) /\
    firstn 4 (out (c4i_snd_1 s0 s1 s2 c seps)) = out (c4i_nrm_1 s0 s1 s2 c seps).
Definition c4i_1_grad_stmt : Prop :=
  forall s0 s1 s2 c seps : R,
    seps < c4i_val_1 s0 s1 s2 c ->
    0 < ((iso_ss_1 s0 s1 s2) / 2) ->
    0 < A4_of ((iso_ss_1 s0 s1 s2) / 2) (iso_j3_1 s0 s1 s2) c ->
    is_grad 3 (fun p => c4i_val_1 (nthR p 0) (nthR p 1) (nthR p 2) c) (fun p => out (c4i_nrm_1 (nthR p 0) (nthR p 1) (nthR p 2) c seps)) [s0; s1; s2].
Definition c4i_1_hess_stmt : Prop :=
  forall s0 s1 s2 c seps : R,
    seps < c4i_val_1 s0 s1 s2 c ->
    0 < ((iso_ss_1 s0 s1 s2) / 2) ->
    0 < A4_of ((iso_ss_1 s0 s1 s2) / 2) (iso_j3_1 s0 s1 s2) c ->
    is_hess 3 (fun p => out (c4i_snd_1 (nthR p 0) (nthR p 1) (nthR p 2) c seps)) [s0; s1; s2].
Definition c4i_1_sym_stmt : Prop :=
  forall s0 s1 s2 c seps : R,
    seps < c4i_val_1 s0 s1 s2 c ->
    0 < ((iso_ss_1 s0 s1 s2) / 2) ->
    0 < A4_of ((iso_ss_1 s0 s1 s2) / 2) (iso_j3_1 s0 s1 s2) c ->
    is_sym 3 (out (c4i_snd_1 s0 s1 s2 c seps)).
Definition c4i_1_hom_stmt : Prop :=
  forall s0 s1 s2 c t : R, 0 < t ->
    0 < ((iso_ss_1 s0 s1 s2) / 2) ->
    0 < A4_of ((iso_ss_1 s0 s1 s2) / 2) (iso_j3_1 s0 s1 s2) c ->
    c4i_val_1 (t * s0) (t * s1) (t * s2) c = t * c4i_val_1 s0 s1 s2 c.

(* ---- Cazacu 2004 (isotropic), N = 2 *)
Definition c4i_2_same_stmt : Prop :=
  forall s0 s1 s2 s3 c seps : R,
    seps < c4i_val_2 s0 s1 s2 s3 c ->
    (exists l, c4i_nrm_2 s0 s1 s2 s3 c seps = Some (c4i_val_2 s0 s1 s2 s3 c :: l)) /\
    (exists l, c4i_snd_2 s0 s1 s2 s3 c seps = Some (c4i_val_2 s0 s1 s2 s3 c :: l)) /\
    firstn 5 (out (c4i_snd_2 s0 s1 s2 s3 c seps)) = out (c4i_nrm_2 s0 s1 s2 s3 c seps).
Definition c4i_2_grad_stmt : Prop :=
  forall s0 s1 s2 s3 c seps : R,
    seps < c4i_val_2 s0 s1 s2 s3 c ->
    0 < ((iso_ss_2 s0 s1 s2 s3) / 2) ->
    0 < A4_of ((iso_ss_2 s0 s1 s2 s3) / 2) (iso_j3_2 s0 s1 s2 s3) c ->
    is_grad 4 (fun p => c4i_val_2 (nthR p 0) (nthR p 1) (nthR p 2) (nthR p 3) c) (fun p => out (c4i_nrm_2 (nthR p 0) (nthR p 1) (nthR p 2) (nthR p 3) c seps)) [s0; s1; s2; s3].
Definition c4i_2_hess_stmt : Prop :=
  forall s0 s1 s2 s3 c seps : R,
    seps < c4i_val_2 s0 s1 s2 s3 c ->
    0 < ((iso_ss_2 s0 s1 s2 s3) / 2) ->
    0 < A4_of ((iso_ss_2 s0 s1 s2 s3) / 2) (iso_j3_2 s0 s1 s2 s3) c ->
    is_hess 4 (fun p => out (c4i_snd_2 (nthR p 0) (nthR p 1) (nthR p 2) (nthR p 3) c seps)) [s0; s1; s2; s3].
Definition c4i_2_sym_stmt : Prop :=
  forall s0 s1 s2 s3 c seps : R,
    seps < c4i_val_2 s0 s1 s2 s3 c ->
    0 < ((iso_ss_2 s0 s1 s2 s3) / 2) ->
    0 < A4_of ((iso_ss_2 s0 s1 s2 s3) / 2) (iso_j3_2 s0 s1 s2 s3) c ->
    is_sym 4 (out (c4i_snd_2 s0 s1 s2 s3 c seps)).
Definition c4i_2_hom_stmt : Prop :=
  forall s0 s1 s2 s3 c t : R, 0 < t ->
    0 < ((iso_ss_2 s0 s1 s2 s3) / 2) ->
    0 < A4_of ((iso_ss_2 s0 s1 s2 s3) / 2) (iso_j3_2 s0 s1 s2 s3) c ->
    c4i_val_2 (t * s0) (t * s1) (t * s2) (t * s3) c = t * c4i_val_2 s0 s1 s2 s3 c.

(* ---- Cazacu 2004 (isotropic), N = 3 *)
Definition c4i_3_same_stmt : Prop :=
  forall s0 s1 s2 s3 s4 s5 c seps : R,
    seps < c4i_val_3 s0 s1 s2 s3 s4 s5 c ->
    (exists l, c4i_nrm_3 s0 s1 s2 s3 s4 s5 c seps = Some (c4i_val_3 s0 s1 s2 s3 s4 s5 c :: l)) /\
    (exists l, c4i_snd_3 s0 s1 s2 s3 s4 s5 c seps = Some (c4i_val_3 s0 s1 s2 s3 s4 s5 c :: l)) /\
    firstn 7 (out (c4i_snd_3 s0 s1 s2 s3 s4 s5 c seps)) = out (c4i_nrm_3 s0 s1 s2 s3 s4 s5 c seps).
Definition c4i_3_grad_stmt : Prop :=
  forall s0 s1 s2 s3 s4 s5 c seps : R,
    seps < c4i_val_3 s0 s1 s2 s3 s4 s5 c ->
    0 < ((iso_ss_3 s0 s1 s2 s3 s4 s5) / 2) ->
    0 < A4_of ((iso_ss_3 s0 s1 s2 s3 s4 s5) / 2) (iso_j3_3 s0 s1 s2 s3 s4 s5) c ->
    is_grad 6 (fun p => c4i_val_3 (nthR p 0) (nthR p 1) (nthR p 2) (nthR p 3) (nthR p 4) (nthR p 5) c) (fun p => out (c4i_nrm_3 (nthR p 0) (nthR p 1) (nthR p 2) (nthR p 3) (nthR p 4) (nthR p 5) c seps)) [s0; s1; s2; s3; s4; s5].
Definition c4i_3_hess_stmt : Prop :=
  forall s0 s1 s2 s3 s4 s5 c seps : R,
    seps < c4i_val_3 s0 s1 s2 s3 s4 s5 c ->
    0 < ((iso_ss_3 s0 s1 s2 s3 s4 s5) / 2) ->
    0 < A4_of ((iso_ss_3 s0 s1 s2 s3 s4 s5) / 2) (iso_j3_3 s0 s1 s2 s3 s4 s5) c ->
    is_hess 6 (fun p => out (c4i_snd_3 (nthR p 0) (nthR p 1) (nthR p 2) (nthR p 3) (nthR p 4) (nthR p 5) c seps)) [s0; s1; s2; s3; s4; s5].
Definition c4i_3_sym_stmt : Prop :=
  forall s0 s1 s2 s3 s4 s5 c seps : R,
    seps < c4i_val_3 s0 s1 s2 s3 s4 s5 c ->
    0 < ((iso_ss_3 s0 s1 s2 s3 s4 s5) / 2) ->
    0 < A4_of ((iso_ss_3 s0 s1 s2 s3 s4 s5) / 2) (iso_j3_3 s0 s1 s2 s3 s4 s5) c ->
    is_sym 6 (out (c4i_snd_3 s0 s1 s2 s3 s4 s5 c seps)).
Definition c4i_3_hom_stmt : Prop :=
  forall s0 s1 s2 s3 s4 s5 c t : R, 0 < t ->
    0 < ((iso_ss_3 s0 s1 s2 s3 s4 s5) / 2) ->
    0 < A4_of ((iso_ss_3 s0 s1 s2 s3 s4 s5) / 2) (iso_j3_3 s0 s1 s2 s3 s4 s5) c ->
    c4i_val_3 (t * s0) (t * s1) (t * s2) (t * s3) (t * s4) (t * s5) c = t * c4i_val_3 s0 s1 s2 s3 s4 s5 c.

(* ---- Cazacu 2004 (orthotropic), N = 1 *)
Definition c4o_1_same_stmt : Prop :=
  forall s0 s1 s2 a0 a1 a2 a3 a4 a5 b0 b1 b2 b3 b4 b5 b6 b7 b8 b9 b10 c seps : R,
    seps < c4o_val_1 s0 s1 s2 a0 a1 a2 a3 a4 a5 b0 b1 b2 b3 b4 b5 b6 b7 b8 b9 b10 c ->
    (exists l, c4o_nrm_1 s0 s1 s2 a0 a1 a2 a3 a4 a5 b0 b1 b2 b3 b4 b5 b6 b7 b8 b9 b10 c seps = Some (c4o_val_1 s0 s1 s2 a0 a1 a2 a3 a4 a5 b0 b1 b2 b3 b4 b5 b6 b7 b8 b9 b10 c :: l)) /\
    (exists l, c4o_snd_1 s0 s1 s2 a0 a1 a2 a3 a4 a5 b0 b1 b2 b3 b4 b5 b6 b7 b8 b9 b10 c seps = Some (c4o_val_1 s0 s1 s2 a0 a1 a2 a3 a4 a5 b0 b1 b2 b3 b4 b5 b6 b7 b8 b9 b10 c :: l)) /\
    firstn 4 (out (c4o_snd_1 s0 s1 s2 a0 a1 a2 a3 a4 a5 b0 b1 b2 b3 b4 b5 b6 b7 b8 b9 b10 c seps)) = out (c4o_nrm_1 s0 s1 s2 a0 a1 a2 a3 a4 a5 b0 b1 b2 b3 b4 b5 b6 b7 b8 b9 b10 c seps).
Definition c4o_1_grad_stmt : Prop :=
  forall s0 s1 s2 a0 a1 a2 a3 a4 a5 b0 b1 b2 b3 b4 b5 b6 b7 b8 b9 b10 c seps : R,
    seps < c4o_val_1 s0 s1 s2 a0 a1 a2 a3 a4 a5 b0 b1 b2 b3 b4 b5 b6 b7 b8 b9 b10 c ->
    0 < (ort_k2_1 s0 s1 s2 a0 a1 a2 a3 a4 a5 b0 b1 b2 b3 b4 b5 b6 b7 b8 b9 b10) ->
    0 < A4_of (ort_k2_1 s0 s1 s2 a0 a1 a2 a3 a4 a5 b0 b1 b2 b3 b4 b5 b6 b7 b8 b9 b10) (ort_k3_1 s0 s1 s2 a0 a1 a2 a3 a4 a5 b0 b1 b2 b3 b4 b5 b6 b7 b8 b9 b10) c ->
    is_grad 3 (fun p => c4o_val_1 (nthR p 0) (nthR p 1) (nthR p 2) a0 a1 a2 a3 a4 a5 b0 b1 b2 b3 b4 b5 b6 b7 b8 b9 b10 c) (fun p => out (c4o_nrm_1 (nthR p 0) (nthR p 1) (nthR p 2) a0 a1 a2 a3 a4 a5 b0 b1 b2 b3 b4 b5 b6 b7 b8 b9 b10 c seps)) [s0; s1; s2].
Definition c4o_1_hess_stmt : Prop :=
  forall s0 s1 s2 a0 a1 a2 a3 a4 a5 b0 b1 b2 b3 b4 b5 b6 b7 b8 b9 b10 c seps : R,
    seps < c4o_val_1 s0 s1 s2 a0 a1 a2 a3 a4 a5 b0 b1 b2 b3 b4 b5 b6 b7 b8 b9 b10 c ->
    0 < (ort_k2_1 s0 s1 s2 a0 a1 a2 a3 a4 a5 b0 b1 b2 b3 b4 b5 b6 b7 b8 b9 b10) ->
    0 < A4_of (ort_k2_1 s0 s1 s2 a0 a1 a2 a3 a4 a5 b0 b1 b2 b3 b4 b5 b6 b7 b8 b9 b10) (ort_k3_1 s0 s1 s2 a0 a1 a2 a3 a4 a5 b0 b1 b2 b3 b4 b5 b6 b7 b8 b9 b10) c ->
    is_hess 3 (fun p => out (c4o_snd_1 (nthR p 0) (nthR p 1) (nthR p 2) a0 a1 a2 a3 a4 a5 b0 b1 b2 b3 b4 b5 b6 b7 b8 b9 b10 c seps)) [s0; s1; s2].
Definition c4o_1_sym_stmt : Prop :=
  forall s0 s1 s2 a0 a1 a2 a3 a4 a5 b0 b1 b2 b3 b4 b5 b6 b7 b8 b9 b10 c seps : R,
    seps < c4o_val_1 s0 s1 s2 a0 a1 a2 a3 a4 a5 b0 b1 b2 b3 b4 b5 b6 b7 b8 b9 b10 c ->
    0 < (ort_k2_1 s0 s1 s2 a0 a1 a2 a3 a4 a5 b0 b1 b2 b3 b4 b5 b6 b7 b8 b9 b10) ->
    0 < A4_of (ort_k2_1 s0 s1 s2 a0 a1 a2 a3 a4 a5 b0 b1 b2 b3 b4 b5 b6 b7 b8 b9 b10) (ort_k3_1 s0 s1 s2 a0 a1 a2 a3 a4 a5 b0 b1 b2 b3 b4 b5 b6 b7 b8 b9 b10) c ->
    is_sym 3 (out (c4o_snd_1 s0 s1 s2 a0 a1 a2 a3 a4 a5 b0 b1 b2 b3 b4 b5 b6 b7 b8 b9 b10 c seps)).
Definition c4o_1_hom_stmt : Prop :=
  forall s0 s1 s2 a0 a1 a2 a3 a4 a5 b0 b1 b2 b3 b4 b5 b6 b7 b8 b9 b10 c t : R, 0 < t ->
    0 < (ort_k2_1 s0 s1 s2 a0 a1 a2 a3 a4 a5 b0 b1 b2 b3 b4 b5 b6 b7 b8 b9 b10) ->
    0 < A4_of (ort_k2_1 s0 s1 s2 a0 a1 a2 a3 a4 a5 b0 b1 b2 b3 b4 b5 b6 b7 b8 b9 b10) (ort_k3_1 s0 s1 s2 a0 a1 a2 a3 a4 a5 b0 b1 b2 b3 b4 b5 b6 b7 b8 b9 b10) c ->
    c4o_val_1 (t * s0) (t * s1) (t * s2) a0 a1 a2 a3 a4 a5 b0 b1 b2 b3 b4 b5 b6 b7 b8 b9 b10 c = t * c4o_val_1 s0 s1 s2 a0 a1 a2 a3 a4 a5 b0 b1 b2 b3 b4 b5 b6 b7 b8 b9 b10 c.

(* ---- Cazacu 2004 (orthotropic), N = 2 *)
Definition c4o_2_same_stmt : Prop :=
  forall s0 s1 s2 s3 a0 a1 a2 a3 a4 a5 b0 b1 b2 b3 b4 b5 b6 b7 b8 b9 b10 c seps : R,
    seps < c4o_val_2 s0 s1 s2 s3 a0 a1 a2 a3 a4 a5 b0 b1 b2 b3 b4 b5 b6 b7 b8 b9 b10 c ->
    (exists l, c4o_nrm_2 s0 s1 s2 s3 a0 a1 a2 a3 a4 a5 b0 b1 b2 b3 b4 b5 b6 b7 b8 b9 b10 c seps = Some (c4o_val_2 s0 s1 s2 s3 a0 a1 a2 a3 a4 a5 b0 b1 b2 b3 b4 b5 b6 b7 b8 b9 b10 c :: l)) /\
    (exists l, c4o_snd_2 s0 s1 s2 s3 a0 a1 a2 a3 a4 a5 b0 b1 b2 b3 b4 b5 b6 b7 b8 b9 b10 c seps = Some (c4o_val_2 s0 s1 s2 s3 a0 a1 a2 a3 a4 a5 b0 b1 b2 b3 b4 b5 b6 b7 b8 b9 b10 c :: l)) /\
    firstn 5 (out (c4o_snd_2 s0 s1 s2 s3 a0 a1 a2 a3 a4 a5 b0 b1 b2 b3 b4 b5 b6 b7 b8 b9 b10 c seps)) = out (c4o_nrm_2 s0 s1 s2 s3 a0 a1 a2 a3 a4 a5 b0 b1 b2 b3 b4 b5 b6 b7 b8 b9 b10 c seps).
Definition c4o_2_grad_stmt : Prop :=
  forall s0 s1 s2 s3 a0 a1 a2 a3 a4 a5 b0 b1 b2 b3 b4 b5 b6 b7 b8 b9 b10 c seps : R,
    seps < c4o_val_2 s0 s1 s2 s3 a0 a1 a2 a3 a4 a5 b0 b1 b2 b3 b4 b5 b6 b7 b8 b9 b10 c ->
    0 < (ort_k2_2 s0 s1 s2 s3 a0 a1 a2 a3 a4 a5 b0 b1 b2 b3 b4 b5 b6 b7 b8 b9 b10) ->
    0 < A4_of (ort_k2_2 s0 s1 s2 s3 a0 a1 a2 a3 a4 a5 b0 b1 b2 b3 b4 b5 b6 b7 b8 b9 b10) (ort_k3_2 s0 s1 s2 s3 a0 a1 a2 a3 a4 a5 b0 b1 b2 b3 b4 b5 b6 b7 b8 b9 b10) c ->
    is_grad 4 (fun p => c4o_val_2 (nthR p 0) (nthR p 1) (nthR p 2) (nthR p 3) a0 a1 a2 a3 a4 a5 b0 b1 b2 b3 b4 b5 b6 b7 b8 b9 b10 c) (fun p => out (c4o_nrm_2 (nthR p 0) (nthR p 1) (nthR p 2) (nthR p 3) a0 a1 a2 a3 a4 a5 b0 b1 b2 b3 b4 b5 b6 b7 b8 b9 b10 c seps)) [s0; s1; s2; s3].
Definition c4o_2_hess_stmt : Prop :=
  forall s0 s1 s2 s3 a0 a1 a2 a3 a4 a5 b0 b1 b2 b3 b4 b5 b6 b7 b8 b9 b10 c seps : R,
    seps < c4o_val_2 s0 s1 s2 s3 a0 a1 a2 a3 a4 a5 b0 b1 b2 b3 b4 b5 b6 b7 b8 b9 b10 c ->
    0 < (ort_k2_2 s0 s1 s2 s3 a0 a1 a2 a3 a4 a5 b0 b1 b2 b3 b4 b5 b6 b7 b8 b9 b10) ->
    0 < A4_of (ort_k2_2 s0 s1 s2 s3 a0 a1 a2 a3 a4 a5 b0 b1 b2 b3 b4 b5 b6 b7 b8 b9 b10) (ort_k3_2 s0 s1 s2 s3 a0 a1 a2 a3 a4 a5 b0 b1 b2 b3 b4 b5 b6 b7 b8 b9 b10) c ->
    is_hess 4 (fun p => out (c4o_snd_2 (nthR p 0) (nthR p 1) (nthR p 2) (nthR p 3) a0 a1 a2 a3 a4 a5 b0 b1 b2 b3 b4 b5 b6 b7 b8 b9 b10 c seps)) [s0; s1; s2; s3].
Definition c4o_2_sym_stmt : Prop :=
  forall s0 s1 s2 s3 a0 a1 a2 a3 a4 a5 b0 b1 b2 b3 b4 b5 b6 b7 b8 b9 b10 c seps : R,
    seps < c4o_val_2 s0 s1 s2 s3 a0 a1 a2 a3 a4 a5 b0 b1 b2 b3 b4 b5 b6 b7 b8 b9 b10 c ->
    0 < (ort_k2_2 s0 s1 s2 s3 a0 a1 a2 a3 a4 a5 b0 b1 b2 b3 b4 b5 b6 b7 b8 b9 b10) ->
    0 < A4_of (ort_k2_2 s0 s1 s2 s3 a0 a1 a2 a3 a4 a5 b0 b1 b2 b3 b4 b5 b6 b7 b8 b9 b10) (ort_k3_2 s0 s1 s2 s3 a0 a1 a2 a3 a4 a5 b0 b1 b2 b3 b4 b5 b6 b7 b8 b9 b10) c ->
    is_sym 4 (out (c4o_snd_2 s0 s1 s2 s3 a0 a1 a2 a3 a4 a5 b0 b1 b2 b3 b4 b5 b6 b7 b8 b9 b10 c seps)).
Definition c4o_2_hom_stmt : Prop :=
  forall s0 s1 s2 s3 a0 a1 a2 a3 a4 a5 b0 b1 b2 b3 b4 b5 b6 b7 b8 b9 b10 c t : R, 0 < t ->
    0 < (ort_k2_2 s0 s1 s2 s3 a0 a1 a2 a3 a4 a5 b0 b1 b2 b3 b4 b5 b6 b7 b8 b9 b10) ->
    0 < A4_of (ort_k2_2 s0 s1 s2 s3 a0 a1 a2 a3 a4 a5 b0 b1 b2 b3 b4 b5 b6 b7 b8 b9 b10) (ort_k3_2 s0 s1 s2 s3 a0 a1 a2 a3 a4 a5 b0 b1 b2 b3 b4 b5 b6 b7 b8 b9 b10) c ->
    c4o_val_2 (t * s0) (t * s1) (t * s2) (t * s3) a0 a1 a2 a3 a4 a5 b0 b1 b2 b3 b4 b5 b6 b7 b8 b9 b10 c = t * c4o_val_2 s0 s1 s2 s3 a0 a1 a2 a3 a4 a5 b0 b1 b2 b3 b4 b5 b6 b7 b8 b9 b10 c.

(* ---- Cazacu 2004 (orthotropic), N = 3 *)
Definition c4o_3_same_stmt : Prop :=
  forall s0 s1 s2 s3 s4 s5 a0 a1 a2 a3 a4 a5 b0 b1 b2 b3 b4 b5 b6 b7 b8 b9 b10 c seps : R,
    seps < c4o_val_3 s0 s1 s2 s3 s4 s5 a0 a1 a2 a3 a4 a5 b0 b1 b2 b3 b4 b5 b6 b7 b8 b9 b10 c ->
    (exists l, c4o_nrm_3 s0 s1 s2 s3 s4 s5 a0 a1 a2 a3 a4 a5 b0 b1 b2 b3 b4 b5 b6 b7 b8 b9 b10 c seps = Some (c4o_val_3 s0 s1 s2 s3 s4 s5 a0 a1 a2 a3 a4 a5 b0 b1 b2 b3 b4 b5 b6 b7 b8 b9 b10 c :: l)) /\
    (exists l, c4o_snd_3 s0 s1 s2 s3 s4 s5 a0 a1 a2 a3 a4 a5 b0 b1 b2 b3 b4 b5 b6 b7 b8 b9 b10 c seps = Some (c4o_val_3 s0 s1 s2 s3 s4 s5 a0 a1 a2 a3 a4 a5 b0 b1 b2 b3 b4 b5 b6 b7 b8 b9 b10 c :: l)) /\
    firstn 7 (out (c4o_snd_3 s0 s1 s2 s3 s4 s5 a0 a1 a2 a3 a4 a5 b0 b1 b2 b3 b4 b5 b6 b7 b8 b9 b10 c seps)) = out (c4o_nrm_3 s0 s1 s2 s3 s4 s5 a0 a1 a2 a3 a4 a5 b0 b1 b2 b3 b4 b5 b6 b7 b8 b9 b10 c seps).
Definition c4o_3_grad_stmt : Prop :=
  forall s0 s1 s2 s3 s4 s5 a0 a1 a2 a3 a4 a5 b0 b1 b2 b3 b4 b5 b6 b7 b8 b9 b10 c seps : R,
    seps < c4o_val_3 s0 s1 s2 s3 s4 s5 a0 a1 a2 a3 a4 a5 b0 b1 b2 b3 b4 b5 b6 b7 b8 b9 b10 c ->
    0 < (ort_k2_3 s0 s1 s2 s3 s4 s5 a0 a1 a2 a3 a4 a5 b0 b1 b2 b3 b4 b5 b6 b7 b8 b9 b10) ->
    0 < A4_of (ort_k2_3 s0 s1 s2 s3 s4 s5 a0 a1 a2 a3 a4 a5 b0 b1 b2 b3 b4 b5 b6 b7 b8 b9 b10) (ort_k3_3 s0 s1 s2 s3 s4 s5 a0 a1 a2 a3 a4 a5 b0 b1 b2 b3 b4 b5 b6 b7 b8 b9 b10) c ->
    is_grad 6 (fun p => c4o_val_3 (nthR p 0) (nthR p 1) (nthR p 2) (nthR p 3) (nthR p 4) (nthR p 5) a0 a1 a2 a3 a4 a5 b0 b1 b2 b3 b4 b5 b6 b7 b8 b9 b10 c) (fun p => out (c4o_nrm_3 (nthR p 0) (nthR p 1) (nthR p 2) (nthR p 3) (nthR p 4) (nthR p 5) a0 a1 a2 a3 a4 a5 b0 b1 b2 b3 b4 b5 b6 b7 b8 b9 b10 c seps)) [s0; s1; s2; s3; s4; s5].
Definition c4o_3_hess_stmt : Prop :=
  forall s0 s1 s2 s3 s4 s5 a0 a1 a2 a3 a4 a5 b0 b1 b2 b3 b4 b5 b6 b7 b8 b9 b10 c seps : R,
    seps < c4o_val_3 s0 s1 s2 s3 s4 s5 a0 a1 a2 a3 a4 a5 b0 b1 b2 b3 b4 b5 b6 b7 b8 b9 b10 c ->
    0 < (ort_k2_3 s0 s1 s2 s3 s4 s5 a0 a1 a2 a3 a4 a5 b0 b1 b2 b3 b4 b5 b6 b7 b8 b9 b10) ->
    0 < A4_of (ort_k2_3 s0 s1 s2 s3 s4 s5 a0 a1 a2 a3 a4 a5 b0 b1 b2 b3 b4 b5 b6 b7 b8 b9 b10) (ort_k3_3 s0 s1 s2 s3 s4 s5 a0 a1 a2 a3 a4 a5 b0 b1 b2 b3 b4 b5 b6 b7 b8 b9 b10) c ->
    is_hess 6 (fun p => out (c4o_snd_3 (nthR p 0) (nthR p 1) (nthR p 2) (nthR p 3) (nthR p 4) (nthR p 5) a0 a1 a2 a3 a4 a5 b0 b1 b2 b3 b4 b5 b6 b7 b8 b9 b10 c seps)) [s0; s1; s2; s3; s4; s5].
Definition c4o_3_sym_stmt : Prop :=
  forall s0 s1 s2 s3 s4 s5 a0 a1 a2 a3 a4 a5 b0 b1 b2 b3 b4 b5 b6 b7 b8 b9 b10 c seps : R,
    seps < c4o_val_3 s0 s1 s2 s3 s4 s5 a0 a1 a2 a3 a4 a5 b0 b1 b2 b3 b4 b5 b6 b7 b8 b9 b10 c ->
    0 < (ort_k2_3 s0 s1 s2 s3 s4 s5 a0 a1 a2 a3 a4 a5 b0 b1 b2 b3 b4 b5 b6 b7 b8 b9 b10) ->
    0 < A4_of (ort_k2_3 s0 s1 s2 s3 s4 s5 a0 a1 a2 a3 a4 a5 b0 b1 b2 b3 b4 b5 b6 b7 b8 b9 b10) (ort_k3_3 s0 s1 s2 s3 s4 s5 a0 a1 a2 a3 a4 a5 b0 b1 b2 b3 b4 b5 b6 b7 b8 b9 b10) c ->
    is_sym 6 (out (c4o_snd_3 s0 s1 s2 s3 s4 s5 a0 a1 a2 a3 a4 a5 b0 b1 b2 b3 b4 b5 b6 b7 b8 b9 b10 c seps)).
Definition c4o_3_hom_stmt : Prop :=
  forall s0 s1 s2 s3 s4 s5 a0 a1 a2 a3 a4 a5 b0 b1 b2 b3 b4 b5 b6 b7 b8 b9 b10 c t : R, 0 < t ->
    0 < (ort_k2_3 s0 s1 s2 s3 s4 s5 a0 a1 a2 a3 a4 a5 b0 b1 b2 b3 b4 b5 b6 b7 b8 b9 b10) ->
    0 < A4_of (ort_k2_3 s0 s1 s2 s3 s4 s5 a0 a1 a2 a3 a4 a5 b0 b1 b2 b3 b4 b5 b6 b7 b8 b9 b10) (ort_k3_3 s0 s1 s2 s3 s4 s5 a0 a1 a2 a3 a4 a5 b0 b1 b2 b3 b4 b5 b6 b7 b8 b9 b10) c ->
    c4o_val_3 (t * s0) (t * s1) (t * s2) (t * s3) (t * s4) (t * s5) a0 a1 a2 a3 a4 a5 b0 b1 b2 b3 b4 b5 b6 b7 b8 b9 b10 c = t * c4o_val_3 s0 s1 s2 s3 s4 s5 a0 a1 a2 a3 a4 a5 b0 b1 b2 b3 b4 b5 b6 b7 b8 b9 b10 c.


(* C22 -- the cut quantities are polynomials whose derivatives are the next cut quantities (written by mkcoq.py).
   iso: d(s|s)/ds_j = 2 dev_j, dJ3/ds_j = b_j (computeJ3Derivative), db_i/ds_j = h_ij (computeJ3SecondDerivative);
   ort: dJ2O/ds_j = p_j, dp_i/ds_j = q_ij, dJ3O/ds_j = r_j, dr_i/ds_j = t_ij (computeJ2O/J3O[Second]Derivative). *)
From Coq Require Import Reals List Lra.
From Coquelicot Require Import Coquelicot.
From VLib Require Import RealExtra.
From C22 Require Import C22InvSpec C22InvTac C22inv_gen.
Import ListNotations.
Local Open Scope R_scope.

Lemma iso3_dss_0 s0 s1 s2 s3 s4 s5 : is_derive (fun x => (iso_ss_3 x s1 s2 s3 s4 s5)) s0 (2 * (s0 - (s0 + s1 + s2) / 3)).
Proof. unfold iso_ss_3. cutder. Qed.
Lemma iso3_dj3_0 s0 s1 s2 s3 s4 s5 : is_derive (fun x => (iso_j3_3 x s1 s2 s3 s4 s5)) s0 (iso_b0_3 s0 s1 s2 s3 s4 s5).
Proof. unfold iso_b0_3, iso_j3_3. cutder. Qed.
Lemma iso3_db0_0 s0 s1 s2 s3 s4 s5 : is_derive (fun x => (iso_b0_3 x s1 s2 s3 s4 s5)) s0 (iso_h00_3 s0 s1 s2 s3 s4 s5).
Proof. unfold iso_b0_3, iso_h00_3. cutder. Qed.
Lemma iso3_db1_0 s0 s1 s2 s3 s4 s5 : is_derive (fun x => (iso_b1_3 x s1 s2 s3 s4 s5)) s0 (iso_h10_3 s0 s1 s2 s3 s4 s5).
Proof. unfold iso_b1_3, iso_h10_3. cutder. Qed.
Lemma iso3_db2_0 s0 s1 s2 s3 s4 s5 : is_derive (fun x => (iso_b2_3 x s1 s2 s3 s4 s5)) s0 (iso_h20_3 s0 s1 s2 s3 s4 s5).
Proof. unfold iso_b2_3, iso_h20_3. cutder. Qed.
Lemma iso3_db3_0 s0 s1 s2 s3 s4 s5 : is_derive (fun x => (iso_b3_3 x s1 s2 s3 s4 s5)) s0 (iso_h30_3 s0 s1 s2 s3 s4 s5).
Proof. unfold iso_b3_3, iso_h30_3. cutder. Qed.
Lemma iso3_db4_0 s0 s1 s2 s3 s4 s5 : is_derive (fun x => (iso_b4_3 x s1 s2 s3 s4 s5)) s0 (iso_h40_3 s0 s1 s2 s3 s4 s5).
Proof. unfold iso_b4_3, iso_h40_3. cutder. Qed.
Lemma iso3_db5_0 s0 s1 s2 s3 s4 s5 : is_derive (fun x => (iso_b5_3 x s1 s2 s3 s4 s5)) s0 (iso_h50_3 s0 s1 s2 s3 s4 s5).
Proof. unfold iso_b5_3, iso_h50_3. cutder. Qed.
Lemma iso3_dss_1 s0 s1 s2 s3 s4 s5 : is_derive (fun x => (iso_ss_3 s0 x s2 s3 s4 s5)) s1 (2 * (s1 - (s0 + s1 + s2) / 3)).
Proof. unfold iso_ss_3. cutder. Qed.
Lemma iso3_dj3_1 s0 s1 s2 s3 s4 s5 : is_derive (fun x => (iso_j3_3 s0 x s2 s3 s4 s5)) s1 (iso_b1_3 s0 s1 s2 s3 s4 s5).
Proof. unfold iso_b1_3, iso_j3_3. cutder. Qed.
Lemma iso3_db0_1 s0 s1 s2 s3 s4 s5 : is_derive (fun x => (iso_b0_3 s0 x s2 s3 s4 s5)) s1 (iso_h01_3 s0 s1 s2 s3 s4 s5).
Proof. unfold iso_b0_3, iso_h01_3. cutder. Qed.
Lemma iso3_db1_1 s0 s1 s2 s3 s4 s5 : is_derive (fun x => (iso_b1_3 s0 x s2 s3 s4 s5)) s1 (iso_h11_3 s0 s1 s2 s3 s4 s5).
Proof. unfold iso_b1_3, iso_h11_3. cutder. Qed.
Lemma iso3_db2_1 s0 s1 s2 s3 s4 s5 : is_derive (fun x => (iso_b2_3 s0 x s2 s3 s4 s5)) s1 (iso_h21_3 s0 s1 s2 s3 s4 s5).
Proof. unfold iso_b2_3, iso_h21_3. cutder. Qed.
Lemma iso3_db3_1 s0 s1 s2 s3 s4 s5 : is_derive (fun x => (iso_b3_3 s0 x s2 s3 s4 s5)) s1 (iso_h31_3 s0 s1 s2 s3 s4 s5).
Proof. unfold iso_b3_3, iso_h31_3. cutder. Qed.
Lemma iso3_db4_1 s0 s1 s2 s3 s4 s5 : is_derive (fun x => (iso_b4_3 s0 x s2 s3 s4 s5)) s1 (iso_h41_3 s0 s1 s2 s3 s4 s5).
Proof. unfold iso_b4_3, iso_h41_3. cutder. Qed.
Lemma iso3_db5_1 s0 s1 s2 s3 s4 s5 : is_derive (fun x => (iso_b5_3 s0 x s2 s3 s4 s5)) s1 (iso_h51_3 s0 s1 s2 s3 s4 s5).
Proof. unfold iso_b5_3, iso_h51_3. cutder. Qed.
Lemma iso3_dss_2 s0 s1 s2 s3 s4 s5 : is_derive (fun x => (iso_ss_3 s0 s1 x s3 s4 s5)) s2 (2 * (s2 - (s0 + s1 + s2) / 3)).
Proof. unfold iso_ss_3. cutder. Qed.
Lemma iso3_dj3_2 s0 s1 s2 s3 s4 s5 : is_derive (fun x => (iso_j3_3 s0 s1 x s3 s4 s5)) s2 (iso_b2_3 s0 s1 s2 s3 s4 s5).
Proof. unfold iso_b2_3, iso_j3_3. cutder. Qed.
Lemma iso3_db0_2 s0 s1 s2 s3 s4 s5 : is_derive (fun x => (iso_b0_3 s0 s1 x s3 s4 s5)) s2 (iso_h02_3 s0 s1 s2 s3 s4 s5).
Proof. unfold iso_b0_3, iso_h02_3. cutder. Qed.
Lemma iso3_db1_2 s0 s1 s2 s3 s4 s5 : is_derive (fun x => (iso_b1_3 s0 s1 x s3 s4 s5)) s2 (iso_h12_3 s0 s1 s2 s3 s4 s5).
Proof. unfold iso_b1_3, iso_h12_3. cutder. Qed.
Lemma iso3_db2_2 s0 s1 s2 s3 s4 s5 : is_derive (fun x => (iso_b2_3 s0 s1 x s3 s4 s5)) s2 (iso_h22_3 s0 s1 s2 s3 s4 s5).
Proof. unfold iso_b2_3, iso_h22_3. cutder. Qed.
Lemma iso3_db3_2 s0 s1 s2 s3 s4 s5 : is_derive (fun x => (iso_b3_3 s0 s1 x s3 s4 s5)) s2 (iso_h32_3 s0 s1 s2 s3 s4 s5).
Proof. unfold iso_b3_3, iso_h32_3. cutder. Qed.
Lemma iso3_db4_2 s0 s1 s2 s3 s4 s5 : is_derive (fun x => (iso_b4_3 s0 s1 x s3 s4 s5)) s2 (iso_h42_3 s0 s1 s2 s3 s4 s5).
Proof. unfold iso_b4_3, iso_h42_3. cutder. Qed.
Lemma iso3_db5_2 s0 s1 s2 s3 s4 s5 : is_derive (fun x => (iso_b5_3 s0 s1 x s3 s4 s5)) s2 (iso_h52_3 s0 s1 s2 s3 s4 s5).
Proof. unfold iso_b5_3, iso_h52_3. cutder. Qed.
Lemma iso3_dss_3 s0 s1 s2 s3 s4 s5 : is_derive (fun x => (iso_ss_3 s0 s1 s2 x s4 s5)) s3 (2 * s3).
Proof. unfold iso_ss_3. cutder. Qed.
Lemma iso3_dj3_3 s0 s1 s2 s3 s4 s5 : is_derive (fun x => (iso_j3_3 s0 s1 s2 x s4 s5)) s3 (iso_b3_3 s0 s1 s2 s3 s4 s5).
Proof. unfold iso_b3_3, iso_j3_3. cutder. Qed.
Lemma iso3_db0_3 s0 s1 s2 s3 s4 s5 : is_derive (fun x => (iso_b0_3 s0 s1 s2 x s4 s5)) s3 (iso_h03_3 s0 s1 s2 s3 s4 s5).
Proof. unfold iso_b0_3, iso_h03_3. cutder. Qed.
Lemma iso3_db1_3 s0 s1 s2 s3 s4 s5 : is_derive (fun x => (iso_b1_3 s0 s1 s2 x s4 s5)) s3 (iso_h13_3 s0 s1 s2 s3 s4 s5).
Proof. unfold iso_b1_3, iso_h13_3. cutder. Qed.
Lemma iso3_db2_3 s0 s1 s2 s3 s4 s5 : is_derive (fun x => (iso_b2_3 s0 s1 s2 x s4 s5)) s3 (iso_h23_3 s0 s1 s2 s3 s4 s5).
Proof. unfold iso_b2_3, iso_h23_3. cutder. Qed.
Lemma iso3_db3_3 s0 s1 s2 s3 s4 s5 : is_derive (fun x => (iso_b3_3 s0 s1 s2 x s4 s5)) s3 (iso_h33_3 s0 s1 s2 s3 s4 s5).
Proof. unfold iso_b3_3, iso_h33_3. cutder. Qed.
Lemma iso3_db4_3 s0 s1 s2 s3 s4 s5 : is_derive (fun x => (iso_b4_3 s0 s1 s2 x s4 s5)) s3 (iso_h43_3 s0 s1 s2 s3 s4 s5).
Proof. unfold iso_b4_3, iso_h43_3. cutder. Qed.
Lemma iso3_db5_3 s0 s1 s2 s3 s4 s5 : is_derive (fun x => (iso_b5_3 s0 s1 s2 x s4 s5)) s3 (iso_h53_3 s0 s1 s2 s3 s4 s5).
Proof. unfold iso_b5_3, iso_h53_3. cutder. Qed.
Lemma iso3_dss_4 s0 s1 s2 s3 s4 s5 : is_derive (fun x => (iso_ss_3 s0 s1 s2 s3 x s5)) s4 (2 * s4).
Proof. unfold iso_ss_3. cutder. Qed.
Lemma iso3_dj3_4 s0 s1 s2 s3 s4 s5 : is_derive (fun x => (iso_j3_3 s0 s1 s2 s3 x s5)) s4 (iso_b4_3 s0 s1 s2 s3 s4 s5).
Proof. unfold iso_b4_3, iso_j3_3. cutder. Qed.
Lemma iso3_db0_4 s0 s1 s2 s3 s4 s5 : is_derive (fun x => (iso_b0_3 s0 s1 s2 s3 x s5)) s4 (iso_h04_3 s0 s1 s2 s3 s4 s5).
Proof. unfold iso_b0_3, iso_h04_3. cutder. Qed.
Lemma iso3_db1_4 s0 s1 s2 s3 s4 s5 : is_derive (fun x => (iso_b1_3 s0 s1 s2 s3 x s5)) s4 (iso_h14_3 s0 s1 s2 s3 s4 s5).
Proof. unfold iso_b1_3, iso_h14_3. cutder. Qed.
Lemma iso3_db2_4 s0 s1 s2 s3 s4 s5 : is_derive (fun x => (iso_b2_3 s0 s1 s2 s3 x s5)) s4 (iso_h24_3 s0 s1 s2 s3 s4 s5).
Proof. unfold iso_b2_3, iso_h24_3. cutder. Qed.
Lemma iso3_db3_4 s0 s1 s2 s3 s4 s5 : is_derive (fun x => (iso_b3_3 s0 s1 s2 s3 x s5)) s4 (iso_h34_3 s0 s1 s2 s3 s4 s5).
Proof. unfold iso_b3_3, iso_h34_3. cutder. Qed.
Lemma iso3_db4_4 s0 s1 s2 s3 s4 s5 : is_derive (fun x => (iso_b4_3 s0 s1 s2 s3 x s5)) s4 (iso_h44_3 s0 s1 s2 s3 s4 s5).
Proof. unfold iso_b4_3, iso_h44_3. cutder. Qed.
Lemma iso3_db5_4 s0 s1 s2 s3 s4 s5 : is_derive (fun x => (iso_b5_3 s0 s1 s2 s3 x s5)) s4 (iso_h54_3 s0 s1 s2 s3 s4 s5).
Proof. unfold iso_b5_3, iso_h54_3. cutder. Qed.
Lemma iso3_dss_5 s0 s1 s2 s3 s4 s5 : is_derive (fun x => (iso_ss_3 s0 s1 s2 s3 s4 x)) s5 (2 * s5).
Proof. unfold iso_ss_3. cutder. Qed.
Lemma iso3_dj3_5 s0 s1 s2 s3 s4 s5 : is_derive (fun x => (iso_j3_3 s0 s1 s2 s3 s4 x)) s5 (iso_b5_3 s0 s1 s2 s3 s4 s5).
Proof. unfold iso_b5_3, iso_j3_3. cutder. Qed.
Lemma iso3_db0_5 s0 s1 s2 s3 s4 s5 : is_derive (fun x => (iso_b0_3 s0 s1 s2 s3 s4 x)) s5 (iso_h05_3 s0 s1 s2 s3 s4 s5).
Proof. unfold iso_b0_3, iso_h05_3. cutder. Qed.
Lemma iso3_db1_5 s0 s1 s2 s3 s4 s5 : is_derive (fun x => (iso_b1_3 s0 s1 s2 s3 s4 x)) s5 (iso_h15_3 s0 s1 s2 s3 s4 s5).
Proof. unfold iso_b1_3, iso_h15_3. cutder. Qed.
Lemma iso3_db2_5 s0 s1 s2 s3 s4 s5 : is_derive (fun x => (iso_b2_3 s0 s1 s2 s3 s4 x)) s5 (iso_h25_3 s0 s1 s2 s3 s4 s5).
Proof. unfold iso_b2_3, iso_h25_3. cutder. Qed.
Lemma iso3_db3_5 s0 s1 s2 s3 s4 s5 : is_derive (fun x => (iso_b3_3 s0 s1 s2 s3 s4 x)) s5 (iso_h35_3 s0 s1 s2 s3 s4 s5).
Proof. unfold iso_b3_3, iso_h35_3. cutder. Qed.
Lemma iso3_db4_5 s0 s1 s2 s3 s4 s5 : is_derive (fun x => (iso_b4_3 s0 s1 s2 s3 s4 x)) s5 (iso_h45_3 s0 s1 s2 s3 s4 s5).
Proof. unfold iso_b4_3, iso_h45_3. cutder. Qed.
Lemma iso3_db5_5 s0 s1 s2 s3 s4 s5 : is_derive (fun x => (iso_b5_3 s0 s1 s2 s3 s4 x)) s5 (iso_h55_3 s0 s1 s2 s3 s4 s5).
Proof. unfold iso_b5_3, iso_h55_3. cutder. Qed.
Lemma ort3_dk2_0 s0 s1 s2 s3 s4 s5 a0 a1 a2 a3 a4 a5 b0 b1 b2 b3 b4 b5 b6 b7 b8 b9 b10 : is_derive (fun x => (ort_k2_3 x s1 s2 s3 s4 s5 a0 a1 a2 a3 a4 a5 b0 b1 b2 b3 b4 b5 b6 b7 b8 b9 b10)) s0 (ort_p0_3 s0 s1 s2 s3 s4 s5 a0 a1 a2 a3 a4 a5 b0 b1 b2 b3 b4 b5 b6 b7 b8 b9 b10).
Proof. unfold ort_k2_3, ort_p0_3. cutder. Qed.
Lemma ort3_dk3_0 s0 s1 s2 s3 s4 s5 a0 a1 a2 a3 a4 a5 b0 b1 b2 b3 b4 b5 b6 b7 b8 b9 b10 : is_derive (fun x => (ort_k3_3 x s1 s2 s3 s4 s5 a0 a1 a2 a3 a4 a5 b0 b1 b2 b3 b4 b5 b6 b7 b8 b9 b10)) s0 (ort_r0_3 s0 s1 s2 s3 s4 s5 a0 a1 a2 a3 a4 a5 b0 b1 b2 b3 b4 b5 b6 b7 b8 b9 b10).
Proof. unfold ort_k3_3, ort_r0_3. cutder. Qed.
Lemma ort3_dp0_0 s0 s1 s2 s3 s4 s5 a0 a1 a2 a3 a4 a5 b0 b1 b2 b3 b4 b5 b6 b7 b8 b9 b10 : is_derive (fun x => (ort_p0_3 x s1 s2 s3 s4 s5 a0 a1 a2 a3 a4 a5 b0 b1 b2 b3 b4 b5 b6 b7 b8 b9 b10)) s0 (ort_q00_3 s0 s1 s2 s3 s4 s5 a0 a1 a2 a3 a4 a5 b0 b1 b2 b3 b4 b5 b6 b7 b8 b9 b10).
Proof. unfold ort_p0_3, ort_q00_3. cutder. Qed.
Lemma ort3_dr0_0 s0 s1 s2 s3 s4 s5 a0 a1 a2 a3 a4 a5 b0 b1 b2 b3 b4 b5 b6 b7 b8 b9 b10 : is_derive (fun x => (ort_r0_3 x s1 s2 s3 s4 s5 a0 a1 a2 a3 a4 a5 b0 b1 b2 b3 b4 b5 b6 b7 b8 b9 b10)) s0 (ort_t00_3 s0 s1 s2 s3 s4 s5 a0 a1 a2 a3 a4 a5 b0 b1 b2 b3 b4 b5 b6 b7 b8 b9 b10).
Proof. unfold ort_r0_3, ort_t00_3. cutder. Qed.
Lemma ort3_dp1_0 s0 s1 s2 s3 s4 s5 a0 a1 a2 a3 a4 a5 b0 b1 b2 b3 b4 b5 b6 b7 b8 b9 b10 : is_derive (fun x => (ort_p1_3 x s1 s2 s3 s4 s5 a0 a1 a2 a3 a4 a5 b0 b1 b2 b3 b4 b5 b6 b7 b8 b9 b10)) s0 (ort_q10_3 s0 s1 s2 s3 s4 s5 a0 a1 a2 a3 a4 a5 b0 b1 b2 b3 b4 b5 b6 b7 b8 b9 b10).
Proof. unfold ort_p1_3, ort_q10_3. cutder. Qed.
Lemma ort3_dr1_0 s0 s1 s2 s3 s4 s5 a0 a1 a2 a3 a4 a5 b0 b1 b2 b3 b4 b5 b6 b7 b8 b9 b10 : is_derive (fun x => (ort_r1_3 x s1 s2 s3 s4 s5 a0 a1 a2 a3 a4 a5 b0 b1 b2 b3 b4 b5 b6 b7 b8 b9 b10)) s0 (ort_t10_3 s0 s1 s2 s3 s4 s5 a0 a1 a2 a3 a4 a5 b0 b1 b2 b3 b4 b5 b6 b7 b8 b9 b10).
Proof. unfold ort_r1_3, ort_t10_3. cutder. Qed.
Lemma ort3_dp2_0 s0 s1 s2 s3 s4 s5 a0 a1 a2 a3 a4 a5 b0 b1 b2 b3 b4 b5 b6 b7 b8 b9 b10 : is_derive (fun x => (ort_p2_3 x s1 s2 s3 s4 s5 a0 a1 a2 a3 a4 a5 b0 b1 b2 b3 b4 b5 b6 b7 b8 b9 b10)) s0 (ort_q20_3 s0 s1 s2 s3 s4 s5 a0 a1 a2 a3 a4 a5 b0 b1 b2 b3 b4 b5 b6 b7 b8 b9 b10).
Proof. unfold ort_p2_3, ort_q20_3. cutder. Qed.
Lemma ort3_dr2_0 s0 s1 s2 s3 s4 s5 a0 a1 a2 a3 a4 a5 b0 b1 b2 b3 b4 b5 b6 b7 b8 b9 b10 : is_derive (fun x => (ort_r2_3 x s1 s2 s3 s4 s5 a0 a1 a2 a3 a4 a5 b0 b1 b2 b3 b4 b5 b6 b7 b8 b9 b10)) s0 (ort_t20_3 s0 s1 s2 s3 s4 s5 a0 a1 a2 a3 a4 a5 b0 b1 b2 b3 b4 b5 b6 b7 b8 b9 b10).
Proof. unfold ort_r2_3, ort_t20_3. cutder. Qed.
Lemma ort3_dp3_0 s0 s1 s2 s3 s4 s5 a0 a1 a2 a3 a4 a5 b0 b1 b2 b3 b4 b5 b6 b7 b8 b9 b10 : is_derive (fun x => (ort_p3_3 x s1 s2 s3 s4 s5 a0 a1 a2 a3 a4 a5 b0 b1 b2 b3 b4 b5 b6 b7 b8 b9 b10)) s0 (ort_q30_3 s0 s1 s2 s3 s4 s5 a0 a1 a2 a3 a4 a5 b0 b1 b2 b3 b4 b5 b6 b7 b8 b9 b10).
Proof. unfold ort_p3_3, ort_q30_3. cutder. Qed.
Lemma ort3_dr3_0 s0 s1 s2 s3 s4 s5 a0 a1 a2 a3 a4 a5 b0 b1 b2 b3 b4 b5 b6 b7 b8 b9 b10 : is_derive (fun x => (ort_r3_3 x s1 s2 s3 s4 s5 a0 a1 a2 a3 a4 a5 b0 b1 b2 b3 b4 b5 b6 b7 b8 b9 b10)) s0 (ort_t30_3 s0 s1 s2 s3 s4 s5 a0 a1 a2 a3 a4 a5 b0 b1 b2 b3 b4 b5 b6 b7 b8 b9 b10).
Proof. unfold ort_r3_3, ort_t30_3. cutder. Qed.
Lemma ort3_dp4_0 s0 s1 s2 s3 s4 s5 a0 a1 a2 a3 a4 a5 b0 b1 b2 b3 b4 b5 b6 b7 b8 b9 b10 : is_derive (fun x => (ort_p4_3 x s1 s2 s3 s4 s5 a0 a1 a2 a3 a4 a5 b0 b1 b2 b3 b4 b5 b6 b7 b8 b9 b10)) s0 (ort_q40_3 s0 s1 s2 s3 s4 s5 a0 a1 a2 a3 a4 a5 b0 b1 b2 b3 b4 b5 b6 b7 b8 b9 b10).
Proof. unfold ort_p4_3, ort_q40_3. cutder. Qed.
Lemma ort3_dr4_0 s0 s1 s2 s3 s4 s5 a0 a1 a2 a3 a4 a5 b0 b1 b2 b3 b4 b5 b6 b7 b8 b9 b10 : is_derive (fun x => (ort_r4_3 x s1 s2 s3 s4 s5 a0 a1 a2 a3 a4 a5 b0 b1 b2 b3 b4 b5 b6 b7 b8 b9 b10)) s0 (ort_t40_3 s0 s1 s2 s3 s4 s5 a0 a1 a2 a3 a4 a5 b0 b1 b2 b3 b4 b5 b6 b7 b8 b9 b10).
Proof. unfold ort_r4_3, ort_t40_3. cutder. Qed.
Lemma ort3_dp5_0 s0 s1 s2 s3 s4 s5 a0 a1 a2 a3 a4 a5 b0 b1 b2 b3 b4 b5 b6 b7 b8 b9 b10 : is_derive (fun x => (ort_p5_3 x s1 s2 s3 s4 s5 a0 a1 a2 a3 a4 a5 b0 b1 b2 b3 b4 b5 b6 b7 b8 b9 b10)) s0 (ort_q50_3 s0 s1 s2 s3 s4 s5 a0 a1 a2 a3 a4 a5 b0 b1 b2 b3 b4 b5 b6 b7 b8 b9 b10).
Proof. unfold ort_p5_3, ort_q50_3. cutder. Qed.
Lemma ort3_dr5_0 s0 s1 s2 s3 s4 s5 a0 a1 a2 a3 a4 a5 b0 b1 b2 b3 b4 b5 b6 b7 b8 b9 b10 : is_derive (fun x => (ort_r5_3 x s1 s2 s3 s4 s5 a0 a1 a2 a3 a4 a5 b0 b1 b2 b3 b4 b5 b6 b7 b8 b9 b10)) s0 (ort_t50_3 s0 s1 s2 s3 s4 s5 a0 a1 a2 a3 a4 a5 b0 b1 b2 b3 b4 b5 b6 b7 b8 b9 b10).
Proof. unfold ort_r5_3, ort_t50_3. cutder. Qed.
Lemma ort3_dk2_1 s0 s1 s2 s3 s4 s5 a0 a1 a2 a3 a4 a5 b0 b1 b2 b3 b4 b5 b6 b7 b8 b9 b10 : is_derive (fun x => (ort_k2_3 s0 x s2 s3 s4 s5 a0 a1 a2 a3 a4 a5 b0 b1 b2 b3 b4 b5 b6 b7 b8 b9 b10)) s1 (ort_p1_3 s0 s1 s2 s3 s4 s5 a0 a1 a2 a3 a4 a5 b0 b1 b2 b3 b4 b5 b6 b7 b8 b9 b10).
Proof. unfold ort_k2_3, ort_p1_3. cutder. Qed.
Lemma ort3_dk3_1 s0 s1 s2 s3 s4 s5 a0 a1 a2 a3 a4 a5 b0 b1 b2 b3 b4 b5 b6 b7 b8 b9 b10 : is_derive (fun x => (ort_k3_3 s0 x s2 s3 s4 s5 a0 a1 a2 a3 a4 a5 b0 b1 b2 b3 b4 b5 b6 b7 b8 b9 b10)) s1 (ort_r1_3 s0 s1 s2 s3 s4 s5 a0 a1 a2 a3 a4 a5 b0 b1 b2 b3 b4 b5 b6 b7 b8 b9 b10).
Proof. unfold ort_k3_3, ort_r1_3. cutder. Qed.
Lemma ort3_dp0_1 s0 s1 s2 s3 s4 s5 a0 a1 a2 a3 a4 a5 b0 b1 b2 b3 b4 b5 b6 b7 b8 b9 b10 : is_derive (fun x => (ort_p0_3 s0 x s2 s3 s4 s5 a0 a1 a2 a3 a4 a5 b0 b1 b2 b3 b4 b5 b6 b7 b8 b9 b10)) s1 (ort_q01_3 s0 s1 s2 s3 s4 s5 a0 a1 a2 a3 a4 a5 b0 b1 b2 b3 b4 b5 b6 b7 b8 b9 b10).
Proof. unfold ort_p0_3, ort_q01_3. cutder. Qed.
Lemma ort3_dr0_1 s0 s1 s2 s3 s4 s5 a0 a1 a2 a3 a4 a5 b0 b1 b2 b3 b4 b5 b6 b7 b8 b9 b10 : is_derive (fun x => (ort_r0_3 s0 x s2 s3 s4 s5 a0 a1 a2 a3 a4 a5 b0 b1 b2 b3 b4 b5 b6 b7 b8 b9 b10)) s1 (ort_t01_3 s0 s1 s2 s3 s4 s5 a0 a1 a2 a3 a4 a5 b0 b1 b2 b3 b4 b5 b6 b7 b8 b9 b10).
Proof. unfold ort_r0_3, ort_t01_3. cutder. Qed.
Lemma ort3_dp1_1 s0 s1 s2 s3 s4 s5 a0 a1 a2 a3 a4 a5 b0 b1 b2 b3 b4 b5 b6 b7 b8 b9 b10 : is_derive (fun x => (ort_p1_3 s0 x s2 s3 s4 s5 a0 a1 a2 a3 a4 a5 b0 b1 b2 b3 b4 b5 b6 b7 b8 b9 b10)) s1 (ort_q11_3 s0 s1 s2 s3 s4 s5 a0 a1 a2 a3 a4 a5 b0 b1 b2 b3 b4 b5 b6 b7 b8 b9 b10).
Proof. unfold ort_p1_3, ort_q11_3. cutder. Qed.
Lemma ort3_dr1_1 s0 s1 s2 s3 s4 s5 a0 a1 a2 a3 a4 a5 b0 b1 b2 b3 b4 b5 b6 b7 b8 b9 b10 : is_derive (fun x => (ort_r1_3 s0 x s2 s3 s4 s5 a0 a1 a2 a3 a4 a5 b0 b1 b2 b3 b4 b5 b6 b7 b8 b9 b10)) s1 (ort_t11_3 s0 s1 s2 s3 s4 s5 a0 a1 a2 a3 a4 a5 b0 b1 b2 b3 b4 b5 b6 b7 b8 b9 b10).
Proof. unfold ort_r1_3, ort_t11_3. cutder. Qed.
Lemma ort3_dp2_1 s0 s1 s2 s3 s4 s5 a0 a1 a2 a3 a4 a5 b0 b1 b2 b3 b4 b5 b6 b7 b8 b9 b10 : is_derive (fun x => (ort_p2_3 s0 x s2 s3 s4 s5 a0 a1 a2 a3 a4 a5 b0 b1 b2 b3 b4 b5 b6 b7 b8 b9 b10)) s1 (ort_q21_3 s0 s1 s2 s3 s4 s5 a0 a1 a2 a3 a4 a5 b0 b1 b2 b3 b4 b5 b6 b7 b8 b9 b10).
Proof. unfold ort_p2_3, ort_q21_3. cutder. Qed.
Lemma ort3_dr2_1 s0 s1 s2 s3 s4 s5 a0 a1 a2 a3 a4 a5 b0 b1 b2 b3 b4 b5 b6 b7 b8 b9 b10 : is_derive (fun x => (ort_r2_3 s0 x s2 s3 s4 s5 a0 a1 a2 a3 a4 a5 b0 b1 b2 b3 b4 b5 b6 b7 b8 b9 b10)) s1 (ort_t21_3 s0 s1 s2 s3 s4 s5 a0 a1 a2 a3 a4 a5 b0 b1 b2 b3 b4 b5 b6 b7 b8 b9 b10).
Proof. unfold ort_r2_3, ort_t21_3. cutder. Qed.
Lemma ort3_dp3_1 s0 s1 s2 s3 s4 s5 a0 a1 a2 a3 a4 a5 b0 b1 b2 b3 b4 b5 b6 b7 b8 b9 b10 : is_derive (fun x => (ort_p3_3 s0 x s2 s3 s4 s5 a0 a1 a2 a3 a4 a5 b0 b1 b2 b3 b4 b5 b6 b7 b8 b9 b10)) s1 (ort_q31_3 s0 s1 s2 s3 s4 s5 a0 a1 a2 a3 a4 a5 b0 b1 b2 b3 b4 b5 b6 b7 b8 b9 b10).
Proof. unfold ort_p3_3, ort_q31_3. cutder. Qed.
Lemma ort3_dr3_1 s0 s1 s2 s3 s4 s5 a0 a1 a2 a3 a4 a5 b0 b1 b2 b3 b4 b5 b6 b7 b8 b9 b10 : is_derive (fun x => (ort_r3_3 s0 x s2 s3 s4 s5 a0 a1 a2 a3 a4 a5 b0 b1 b2 b3 b4 b5 b6 b7 b8 b9 b10)) s1 (ort_t31_3 s0 s1 s2 s3 s4 s5 a0 a1 a2 a3 a4 a5 b0 b1 b2 b3 b4 b5 b6 b7 b8 b9 b10).
Proof. unfold ort_r3_3, ort_t31_3. cutder. Qed.
Lemma ort3_dp4_1 s0 s1 s2 s3 s4 s5 a0 a1 a2 a3 a4 a5 b0 b1 b2 b3 b4 b5 b6 b7 b8 b9 b10 : is_derive (fun x => (ort_p4_3 s0 x s2 s3 s4 s5 a0 a1 a2 a3 a4 a5 b0 b1 b2 b3 b4 b5 b6 b7 b8 b9 b10)) s1 (ort_q41_3 s0 s1 s2 s3 s4 s5 a0 a1 a2 a3 a4 a5 b0 b1 b2 b3 b4 b5 b6 b7 b8 b9 b10).
Proof. unfold ort_p4_3, ort_q41_3. cutder. Qed.
Lemma ort3_dr4_1 s0 s1 s2 s3 s4 s5 a0 a1 a2 a3 a4 a5 b0 b1 b2 b3 b4 b5 b6 b7 b8 b9 b10 : is_derive (fun x => (ort_r4_3 s0 x s2 s3 s4 s5 a0 a1 a2 a3 a4 a5 b0 b1 b2 b3 b4 b5 b6 b7 b8 b9 b10)) s1 (ort_t41_3 s0 s1 s2 s3 s4 s5 a0 a1 a2 a3 a4 a5 b0 b1 b2 b3 b4 b5 b6 b7 b8 b9 b10).
Proof. unfold ort_r4_3, ort_t41_3. cutder. Qed.
Lemma ort3_dp5_1 s0 s1 s2 s3 s4 s5 a0 a1 a2 a3 a4 a5 b0 b1 b2 b3 b4 b5 b6 b7 b8 b9 b10 : is_derive (fun x => (ort_p5_3 s0 x s2 s3 s4 s5 a0 a1 a2 a3 a4 a5 b0 b1 b2 b3 b4 b5 b6 b7 b8 b9 b10)) s1 (ort_q51_3 s0 s1 s2 s3 s4 s5 a0 a1 a2 a3 a4 a5 b0 b1 b2 b3 b4 b5 b6 b7 b8 b9 b10).
Proof. unfold ort_p5_3, ort_q51_3. cutder. Qed.
Lemma ort3_dr5_1 s0 s1 s2 s3 s4 s5 a0 a1 a2 a3 a4 a5 b0 b1 b2 b3 b4 b5 b6 b7 b8 b9 b10 : is_derive (fun x => (ort_r5_3 s0 x s2 s3 s4 s5 a0 a1 a2 a3 a4 a5 b0 b1 b2 b3 b4 b5 b6 b7 b8 b9 b10)) s1 (ort_t51_3 s0 s1 s2 s3 s4 s5 a0 a1 a2 a3 a4 a5 b0 b1 b2 b3 b4 b5 b6 b7 b8 b9 b10).
Proof. unfold ort_r5_3, ort_t51_3. cutder. Qed.
Lemma ort3_dk2_2 s0 s1 s2 s3 s4 s5 a0 a1 a2 a3 a4 a5 b0 b1 b2 b3 b4 b5 b6 b7 b8 b9 b10 : is_derive (fun x => (ort_k2_3 s0 s1 x s3 s4 s5 a0 a1 a2 a3 a4 a5 b0 b1 b2 b3 b4 b5 b6 b7 b8 b9 b10)) s2 (ort_p2_3 s0 s1 s2 s3 s4 s5 a0 a1 a2 a3 a4 a5 b0 b1 b2 b3 b4 b5 b6 b7 b8 b9 b10).
Proof. unfold ort_k2_3, ort_p2_3. cutder. Qed.
Lemma ort3_dk3_2 s0 s1 s2 s3 s4 s5 a0 a1 a2 a3 a4 a5 b0 b1 b2 b3 b4 b5 b6 b7 b8 b9 b10 : is_derive (fun x => (ort_k3_3 s0 s1 x s3 s4 s5 a0 a1 a2 a3 a4 a5 b0 b1 b2 b3 b4 b5 b6 b7 b8 b9 b10)) s2 (ort_r2_3 s0 s1 s2 s3 s4 s5 a0 a1 a2 a3 a4 a5 b0 b1 b2 b3 b4 b5 b6 b7 b8 b9 b10).
Proof. unfold ort_k3_3, ort_r2_3. cutder. Qed.
Lemma ort3_dp0_2 s0 s1 s2 s3 s4 s5 a0 a1 a2 a3 a4 a5 b0 b1 b2 b3 b4 b5 b6 b7 b8 b9 b10 : is_derive (fun x => (ort_p0_3 s0 s1 x s3 s4 s5 a0 a1 a2 a3 a4 a5 b0 b1 b2 b3 b4 b5 b6 b7 b8 b9 b10)) s2 (ort_q02_3 s0 s1 s2 s3 s4 s5 a0 a1 a2 a3 a4 a5 b0 b1 b2 b3 b4 b5 b6 b7 b8 b9 b10).
Proof. unfold ort_p0_3, ort_q02_3. cutder. Qed.
Lemma ort3_dr0_2 s0 s1 s2 s3 s4 s5 a0 a1 a2 a3 a4 a5 b0 b1 b2 b3 b4 b5 b6 b7 b8 b9 b10 : is_derive (fun x => (ort_r0_3 s0 s1 x s3 s4 s5 a0 a1 a2 a3 a4 a5 b0 b1 b2 b3 b4 b5 b6 b7 b8 b9 b10)) s2 (ort_t02_3 s0 s1 s2 s3 s4 s5 a0 a1 a2 a3 a4 a5 b0 b1 b2 b3 b4 b5 b6 b7 b8 b9 b10).
Proof. unfold ort_r0_3, ort_t02_3. cutder. Qed.
Lemma ort3_dp1_2 s0 s1 s2 s3 s4 s5 a0 a1 a2 a3 a4 a5 b0 b1 b2 b3 b4 b5 b6 b7 b8 b9 b10 : is_derive (fun x => (ort_p1_3 s0 s1 x s3 s4 s5 a0 a1 a2 a3 a4 a5 b0 b1 b2 b3 b4 b5 b6 b7 b8 b9 b10)) s2 (ort_q12_3 s0 s1 s2 s3 s4 s5 a0 a1 a2 a3 a4 a5 b0 b1 b2 b3 b4 b5 b6 b7 b8 b9 b10).
Proof. unfold ort_p1_3, ort_q12_3. cutder. Qed.
Lemma ort3_dr1_2 s0 s1 s2 s3 s4 s5 a0 a1 a2 a3 a4 a5 b0 b1 b2 b3 b4 b5 b6 b7 b8 b9 b10 : is_derive (fun x => (ort_r1_3 s0 s1 x s3 s4 s5 a0 a1 a2 a3 a4 a5 b0 b1 b2 b3 b4 b5 b6 b7 b8 b9 b10)) s2 (ort_t12_3 s0 s1 s2 s3 s4 s5 a0 a1 a2 a3 a4 a5 b0 b1 b2 b3 b4 b5 b6 b7 b8 b9 b10).
Proof. unfold ort_r1_3, ort_t12_3. cutder. Qed.
Lemma ort3_dp2_2 s0 s1 s2 s3 s4 s5 a0 a1 a2 a3 a4 a5 b0 b1 b2 b3 b4 b5 b6 b7 b8 b9 b10 : is_derive (fun x => (ort_p2_3 s0 s1 x s3 s4 s5 a0 a1 a2 a3 a4 a5 b0 b1 b2 b3 b4 b5 b6 b7 b8 b9 b10)) s2 (ort_q22_3 s0 s1 s2 s3 s4 s5 a0 a1 a2 a3 a4 a5 b0 b1 b2 b3 b4 b5 b6 b7 b8 b9 b10).
Proof. unfold ort_p2_3, ort_q22_3. cutder. Qed.
Lemma ort3_dr2_2 s0 s1 s2 s3 s4 s5 a0 a1 a2 a3 a4 a5 b0 b1 b2 b3 b4 b5 b6 b7 b8 b9 b10 : is_derive (fun x => (ort_r2_3 s0 s1 x s3 s4 s5 a0 a1 a2 a3 a4 a5 b0 b1 b2 b3 b4 b5 b6 b7 b8 b9 b10)) s2 (ort_t22_3 s0 s1 s2 s3 s4 s5 a0 a1 a2 a3 a4 a5 b0 b1 b2 b3 b4 b5 b6 b7 b8 b9 b10).
Proof. unfold ort_r2_3, ort_t22_3. cutder. Qed.
Lemma ort3_dp3_2 s0 s1 s2 s3 s4 s5 a0 a1 a2 a3 a4 a5 b0 b1 b2 b3 b4 b5 b6 b7 b8 b9 b10 : is_derive (fun x => (ort_p3_3 s0 s1 x s3 s4 s5 a0 a1 a2 a3 a4 a5 b0 b1 b2 b3 b4 b5 b6 b7 b8 b9 b10)) s2 (ort_q32_3 s0 s1 s2 s3 s4 s5 a0 a1 a2 a3 a4 a5 b0 b1 b2 b3 b4 b5 b6 b7 b8 b9 b10).
Proof. unfold ort_p3_3, ort_q32_3. cutder. Qed.
Lemma ort3_dr3_2 s0 s1 s2 s3 s4 s5 a0 a1 a2 a3 a4 a5 b0 b1 b2 b3 b4 b5 b6 b7 b8 b9 b10 : is_derive (fun x => (ort_r3_3 s0 s1 x s3 s4 s5 a0 a1 a2 a3 a4 a5 b0 b1 b2 b3 b4 b5 b6 b7 b8 b9 b10)) s2 (ort_t32_3 s0 s1 s2 s3 s4 s5 a0 a1 a2 a3 a4 a5 b0 b1 b2 b3 b4 b5 b6 b7 b8 b9 b10).
Proof. unfold ort_r3_3, ort_t32_3. cutder. Qed.
Lemma ort3_dp4_2 s0 s1 s2 s3 s4 s5 a0 a1 a2 a3 a4 a5 b0 b1 b2 b3 b4 b5 b6 b7 b8 b9 b10 : is_derive (fun x => (ort_p4_3 s0 s1 x s3 s4 s5 a0 a1 a2 a3 a4 a5 b0 b1 b2 b3 b4 b5 b6 b7 b8 b9 b10)) s2 (ort_q42_3 s0 s1 s2 s3 s4 s5 a0 a1 a2 a3 a4 a5 b0 b1 b2 b3 b4 b5 b6 b7 b8 b9 b10).
Proof. unfold ort_p4_3, ort_q42_3. cutder. Qed.
Lemma ort3_dr4_2 s0 s1 s2 s3 s4 s5 a0 a1 a2 a3 a4 a5 b0 b1 b2 b3 b4 b5 b6 b7 b8 b9 b10 : is_derive (fun x => (ort_r4_3 s0 s1 x s3 s4 s5 a0 a1 a2 a3 a4 a5 b0 b1 b2 b3 b4 b5 b6 b7 b8 b9 b10)) s2 (ort_t42_3 s0 s1 s2 s3 s4 s5 a0 a1 a2 a3 a4 a5 b0 b1 b2 b3 b4 b5 b6 b7 b8 b9 b10).
Proof. unfold ort_r4_3, ort_t42_3. cutder. Qed.
Lemma ort3_dp5_2 s0 s1 s2 s3 s4 s5 a0 a1 a2 a3 a4 a5 b0 b1 b2 b3 b4 b5 b6 b7 b8 b9 b10 : is_derive (fun x => (ort_p5_3 s0 s1 x s3 s4 s5 a0 a1 a2 a3 a4 a5 b0 b1 b2 b3 b4 b5 b6 b7 b8 b9 b10)) s2 (ort_q52_3 s0 s1 s2 s3 s4 s5 a0 a1 a2 a3 a4 a5 b0 b1 b2 b3 b4 b5 b6 b7 b8 b9 b10).
Proof. unfold ort_p5_3, ort_q52_3. cutder. Qed.
Lemma ort3_dr5_2 s0 s1 s2 s3 s4 s5 a0 a1 a2 a3 a4 a5 b0 b1 b2 b3 b4 b5 b6 b7 b8 b9 b10 : is_derive (fun x => (ort_r5_3 s0 s1 x s3 s4 s5 a0 a1 a2 a3 a4 a5 b0 b1 b2 b3 b4 b5 b6 b7 b8 b9 b10)) s2 (ort_t52_3 s0 s1 s2 s3 s4 s5 a0 a1 a2 a3 a4 a5 b0 b1 b2 b3 b4 b5 b6 b7 b8 b9 b10).
Proof. unfold ort_r5_3, ort_t52_3. cutder. Qed.
Lemma ort3_dk2_3 s0 s1 s2 s3 s4 s5 a0 a1 a2 a3 a4 a5 b0 b1 b2 b3 b4 b5 b6 b7 b8 b9 b10 : is_derive (fun x => (ort_k2_3 s0 s1 s2 x s4 s5 a0 a1 a2 a3 a4 a5 b0 b1 b2 b3 b4 b5 b6 b7 b8 b9 b10)) s3 (ort_p3_3 s0 s1 s2 s3 s4 s5 a0 a1 a2 a3 a4 a5 b0 b1 b2 b3 b4 b5 b6 b7 b8 b9 b10).
Proof. unfold ort_k2_3, ort_p3_3. cutder. Qed.
Lemma ort3_dk3_3 s0 s1 s2 s3 s4 s5 a0 a1 a2 a3 a4 a5 b0 b1 b2 b3 b4 b5 b6 b7 b8 b9 b10 : is_derive (fun x => (ort_k3_3 s0 s1 s2 x s4 s5 a0 a1 a2 a3 a4 a5 b0 b1 b2 b3 b4 b5 b6 b7 b8 b9 b10)) s3 (ort_r3_3 s0 s1 s2 s3 s4 s5 a0 a1 a2 a3 a4 a5 b0 b1 b2 b3 b4 b5 b6 b7 b8 b9 b10).
Proof. unfold ort_k3_3, ort_r3_3. cutder. Qed.
Lemma ort3_dp0_3 s0 s1 s2 s3 s4 s5 a0 a1 a2 a3 a4 a5 b0 b1 b2 b3 b4 b5 b6 b7 b8 b9 b10 : is_derive (fun x => (ort_p0_3 s0 s1 s2 x s4 s5 a0 a1 a2 a3 a4 a5 b0 b1 b2 b3 b4 b5 b6 b7 b8 b9 b10)) s3 (ort_q03_3 s0 s1 s2 s3 s4 s5 a0 a1 a2 a3 a4 a5 b0 b1 b2 b3 b4 b5 b6 b7 b8 b9 b10).
Proof. unfold ort_p0_3, ort_q03_3. cutder. Qed.
Lemma ort3_dr0_3 s0 s1 s2 s3 s4 s5 a0 a1 a2 a3 a4 a5 b0 b1 b2 b3 b4 b5 b6 b7 b8 b9 b10 : is_derive (fun x => (ort_r0_3 s0 s1 s2 x s4 s5 a0 a1 a2 a3 a4 a5 b0 b1 b2 b3 b4 b5 b6 b7 b8 b9 b10)) s3 (ort_t03_3 s0 s1 s2 s3 s4 s5 a0 a1 a2 a3 a4 a5 b0 b1 b2 b3 b4 b5 b6 b7 b8 b9 b10).
Proof. unfold ort_r0_3, ort_t03_3. cutder. Qed.
Lemma ort3_dp1_3 s0 s1 s2 s3 s4 s5 a0 a1 a2 a3 a4 a5 b0 b1 b2 b3 b4 b5 b6 b7 b8 b9 b10 : is_derive (fun x => (ort_p1_3 s0 s1 s2 x s4 s5 a0 a1 a2 a3 a4 a5 b0 b1 b2 b3 b4 b5 b6 b7 b8 b9 b10)) s3 (ort_q13_3 s0 s1 s2 s3 s4 s5 a0 a1 a2 a3 a4 a5 b0 b1 b2 b3 b4 b5 b6 b7 b8 b9 b10).
Proof. unfold ort_p1_3, ort_q13_3. cutder. Qed.
Lemma ort3_dr1_3 s0 s1 s2 s3 s4 s5 a0 a1 a2 a3 a4 a5 b0 b1 b2 b3 b4 b5 b6 b7 b8 b9 b10 : is_derive (fun x => (ort_r1_3 s0 s1 s2 x s4 s5 a0 a1 a2 a3 a4 a5 b0 b1 b2 b3 b4 b5 b6 b7 b8 b9 b10)) s3 (ort_t13_3 s0 s1 s2 s3 s4 s5 a0 a1 a2 a3 a4 a5 b0 b1 b2 b3 b4 b5 b6 b7 b8 b9 b10).
Proof. unfold ort_r1_3, ort_t13_3. cutder. Qed.
Lemma ort3_dp2_3 s0 s1 s2 s3 s4 s5 a0 a1 a2 a3 a4 a5 b0 b1 b2 b3 b4 b5 b6 b7 b8 b9 b10 : is_derive (fun x => (ort_p2_3 s0 s1 s2 x s4 s5 a0 a1 a2 a3 a4 a5 b0 b1 b2 b3 b4 b5 b6 b7 b8 b9 b10)) s3 (ort_q23_3 s0 s1 s2 s3 s4 s5 a0 a1 a2 a3 a4 a5 b0 b1 b2 b3 b4 b5 b6 b7 b8 b9 b10).
Proof. unfold ort_p2_3, ort_q23_3. cutder. Qed.
Lemma ort3_dr2_3 s0 s1 s2 s3 s4 s5 a0 a1 a2 a3 a4 a5 b0 b1 b2 b3 b4 b5 b6 b7 b8 b9 b10 : is_derive (fun x => (ort_r2_3 s0 s1 s2 x s4 s5 a0 a1 a2 a3 a4 a5 b0 b1 b2 b3 b4 b5 b6 b7 b8 b9 b10)) s3 (ort_t23_3 s0 s1 s2 s3 s4 s5 a0 a1 a2 a3 a4 a5 b0 b1 b2 b3 b4 b5 b6 b7 b8 b9 b10).
Proof. unfold ort_r2_3, ort_t23_3. cutder. Qed.
Lemma ort3_dp3_3 s0 s1 s2 s3 s4 s5 a0 a1 a2 a3 a4 a5 b0 b1 b2 b3 b4 b5 b6 b7 b8 b9 b10 : is_derive (fun x => (ort_p3_3 s0 s1 s2 x s4 s5 a0 a1 a2 a3 a4 a5 b0 b1 b2 b3 b4 b5 b6 b7 b8 b9 b10)) s3 (ort_q33_3 s0 s1 s2 s3 s4 s5 a0 a1 a2 a3 a4 a5 b0 b1 b2 b3 b4 b5 b6 b7 b8 b9 b10).
Proof. unfold ort_p3_3, ort_q33_3. cutder. Qed.
Lemma ort3_dr3_3 s0 s1 s2 s3 s4 s5 a0 a1 a2 a3 a4 a5 b0 b1 b2 b3 b4 b5 b6 b7 b8 b9 b10 : is_derive (fun x => (ort_r3_3 s0 s1 s2 x s4 s5 a0 a1 a2 a3 a4 a5 b0 b1 b2 b3 b4 b5 b6 b7 b8 b9 b10)) s3 (ort_t33_3 s0 s1 s2 s3 s4 s5 a0 a1 a2 a3 a4 a5 b0 b1 b2 b3 b4 b5 b6 b7 b8 b9 b10).
Proof. unfold ort_r3_3, ort_t33_3. cutder. Qed.
Lemma ort3_dp4_3 s0 s1 s2 s3 s4 s5 a0 a1 a2 a3 a4 a5 b0 b1 b2 b3 b4 b5 b6 b7 b8 b9 b10 : is_derive (fun x => (ort_p4_3 s0 s1 s2 x s4 s5 a0 a1 a2 a3 a4 a5 b0 b1 b2 b3 b4 b5 b6 b7 b8 b9 b10)) s3 (ort_q43_3 s0 s1 s2 s3 s4 s5 a0 a1 a2 a3 a4 a5 b0 b1 b2 b3 b4 b5 b6 b7 b8 b9 b10).
Proof. unfold ort_p4_3, ort_q43_3. cutder. Qed.
Lemma ort3_dr4_3 s0 s1 s2 s3 s4 s5 a0 a1 a2 a3 a4 a5 b0 b1 b2 b3 b4 b5 b6 b7 b8 b9 b10 : is_derive (fun x => (ort_r4_3 s0 s1 s2 x s4 s5 a0 a1 a2 a3 a4 a5 b0 b1 b2 b3 b4 b5 b6 b7 b8 b9 b10)) s3 (ort_t43_3 s0 s1 s2 s3 s4 s5 a0 a1 a2 a3 a4 a5 b0 b1 b2 b3 b4 b5 b6 b7 b8 b9 b10).
Proof. unfold ort_r4_3, ort_t43_3. cutder. Qed.
Lemma ort3_dp5_3 s0 s1 s2 s3 s4 s5 a0 a1 a2 a3 a4 a5 b0 b1 b2 b3 b4 b5 b6 b7 b8 b9 b10 : is_derive (fun x => (ort_p5_3 s0 s1 s2 x s4 s5 a0 a1 a2 a3 a4 a5 b0 b1 b2 b3 b4 b5 b6 b7 b8 b9 b10)) s3 (ort_q53_3 s0 s1 s2 s3 s4 s5 a0 a1 a2 a3 a4 a5 b0 b1 b2 b3 b4 b5 b6 b7 b8 b9 b10).
Proof. unfold ort_p5_3, ort_q53_3. cutder. Qed.
Lemma ort3_dr5_3 s0 s1 s2 s3 s4 s5 a0 a1 a2 a3 a4 a5 b0 b1 b2 b3 b4 b5 b6 b7 b8 b9 b10 : is_derive (fun x => (ort_r5_3 s0 s1 s2 x s4 s5 a0 a1 a2 a3 a4 a5 b0 b1 b2 b3 b4 b5 b6 b7 b8 b9 b10)) s3 (ort_t53_3 s0 s1 s2 s3 s4 s5 a0 a1 a2 a3 a4 a5 b0 b1 b2 b3 b4 b5 b6 b7 b8 b9 b10).
Proof. unfold ort_r5_3, ort_t53_3. cutder. Qed.
Lemma ort3_dk2_4 s0 s1 s2 s3 s4 s5 a0 a1 a2 a3 a4 a5 b0 b1 b2 b3 b4 b5 b6 b7 b8 b9 b10 : is_derive (fun x => (ort_k2_3 s0 s1 s2 s3 x s5 a0 a1 a2 a3 a4 a5 b0 b1 b2 b3 b4 b5 b6 b7 b8 b9 b10)) s4 (ort_p4_3 s0 s1 s2 s3 s4 s5 a0 a1 a2 a3 a4 a5 b0 b1 b2 b3 b4 b5 b6 b7 b8 b9 b10).
Proof. unfold ort_k2_3, ort_p4_3. cutder. Qed.
Lemma ort3_dk3_4 s0 s1 s2 s3 s4 s5 a0 a1 a2 a3 a4 a5 b0 b1 b2 b3 b4 b5 b6 b7 b8 b9 b10 : is_derive (fun x => (ort_k3_3 s0 s1 s2 s3 x s5 a0 a1 a2 a3 a4 a5 b0 b1 b2 b3 b4 b5 b6 b7 b8 b9 b10)) s4 (ort_r4_3 s0 s1 s2 s3 s4 s5 a0 a1 a2 a3 a4 a5 b0 b1 b2 b3 b4 b5 b6 b7 b8 b9 b10).
Proof. unfold ort_k3_3, ort_r4_3. cutder. Qed.
Lemma ort3_dp0_4 s0 s1 s2 s3 s4 s5 a0 a1 a2 a3 a4 a5 b0 b1 b2 b3 b4 b5 b6 b7 b8 b9 b10 : is_derive (fun x => (ort_p0_3 s0 s1 s2 s3 x s5 a0 a1 a2 a3 a4 a5 b0 b1 b2 b3 b4 b5 b6 b7 b8 b9 b10)) s4 (ort_q04_3 s0 s1 s2 s3 s4 s5 a0 a1 a2 a3 a4 a5 b0 b1 b2 b3 b4 b5 b6 b7 b8 b9 b10).
Proof. unfold ort_p0_3, ort_q04_3. cutder. Qed.
Lemma ort3_dr0_4 s0 s1 s2 s3 s4 s5 a0 a1 a2 a3 a4 a5 b0 b1 b2 b3 b4 b5 b6 b7 b8 b9 b10 : is_derive (fun x => (ort_r0_3 s0 s1 s2 s3 x s5 a0 a1 a2 a3 a4 a5 b0 b1 b2 b3 b4 b5 b6 b7 b8 b9 b10)) s4 (ort_t04_3 s0 s1 s2 s3 s4 s5 a0 a1 a2 a3 a4 a5 b0 b1 b2 b3 b4 b5 b6 b7 b8 b9 b10).
Proof. unfold ort_r0_3, ort_t04_3. cutder. Qed.
Lemma ort3_dp1_4 s0 s1 s2 s3 s4 s5 a0 a1 a2 a3 a4 a5 b0 b1 b2 b3 b4 b5 b6 b7 b8 b9 b10 : is_derive (fun x => (ort_p1_3 s0 s1 s2 s3 x s5 a0 a1 a2 a3 a4 a5 b0 b1 b2 b3 b4 b5 b6 b7 b8 b9 b10)) s4 (ort_q14_3 s0 s1 s2 s3 s4 s5 a0 a1 a2 a3 a4 a5 b0 b1 b2 b3 b4 b5 b6 b7 b8 b9 b10).
Proof. unfold ort_p1_3, ort_q14_3. cutder. Qed.
Lemma ort3_dr1_4 s0 s1 s2 s3 s4 s5 a0 a1 a2 a3 a4 a5 b0 b1 b2 b3 b4 b5 b6 b7 b8 b9 b10 : is_derive (fun x => (ort_r1_3 s0 s1 s2 s3 x s5 a0 a1 a2 a3 a4 a5 b0 b1 b2 b3 b4 b5 b6 b7 b8 b9 b10)) s4 (ort_t14_3 s0 s1 s2 s3 s4 s5 a0 a1 a2 a3 a4 a5 b0 b1 b2 b3 b4 b5 b6 b7 b8 b9 b10).
Proof. unfold ort_r1_3, ort_t14_3. cutder. Qed.
Lemma ort3_dp2_4 s0 s1 s2 s3 s4 s5 a0 a1 a2 a3 a4 a5 b0 b1 b2 b3 b4 b5 b6 b7 b8 b9 b10 : is_derive (fun x => (ort_p2_3 s0 s1 s2 s3 x s5 a0 a1 a2 a3 a4 a5 b0 b1 b2 b3 b4 b5 b6 b7 b8 b9 b10)) s4 (ort_q24_3 s0 s1 s2 s3 s4 s5 a0 a1 a2 a3 a4 a5 b0 b1 b2 b3 b4 b5 b6 b7 b8 b9 b10).
Proof. unfold ort_p2_3, ort_q24_3. cutder. Qed.
Lemma ort3_dr2_4 s0 s1 s2 s3 s4 s5 a0 a1 a2 a3 a4 a5 b0 b1 b2 b3 b4 b5 b6 b7 b8 b9 b10 : is_derive (fun x => (ort_r2_3 s0 s1 s2 s3 x s5 a0 a1 a2 a3 a4 a5 b0 b1 b2 b3 b4 b5 b6 b7 b8 b9 b10)) s4 (ort_t24_3 s0 s1 s2 s3 s4 s5 a0 a1 a2 a3 a4 a5 b0 b1 b2 b3 b4 b5 b6 b7 b8 b9 b10).
Proof. unfold ort_r2_3, ort_t24_3. cutder. Qed.
Lemma ort3_dp3_4 s0 s1 s2 s3 s4 s5 a0 a1 a2 a3 a4 a5 b0 b1 b2 b3 b4 b5 b6 b7 b8 b9 b10 : is_derive (fun x => (ort_p3_3 s0 s1 s2 s3 x s5 a0 a1 a2 a3 a4 a5 b0 b1 b2 b3 b4 b5 b6 b7 b8 b9 b10)) s4 (ort_q34_3 s0 s1 s2 s3 s4 s5 a0 a1 a2 a3 a4 a5 b0 b1 b2 b3 b4 b5 b6 b7 b8 b9 b10).
Proof. unfold ort_p3_3, ort_q34_3. cutder. Qed.
Lemma ort3_dr3_4 s0 s1 s2 s3 s4 s5 a0 a1 a2 a3 a4 a5 b0 b1 b2 b3 b4 b5 b6 b7 b8 b9 b10 : is_derive (fun x => (ort_r3_3 s0 s1 s2 s3 x s5 a0 a1 a2 a3 a4 a5 b0 b1 b2 b3 b4 b5 b6 b7 b8 b9 b10)) s4 (ort_t34_3 s0 s1 s2 s3 s4 s5 a0 a1 a2 a3 a4 a5 b0 b1 b2 b3 b4 b5 b6 b7 b8 b9 b10).
Proof. unfold ort_r3_3, ort_t34_3. cutder. Qed.
Lemma ort3_dp4_4 s0 s1 s2 s3 s4 s5 a0 a1 a2 a3 a4 a5 b0 b1 b2 b3 b4 b5 b6 b7 b8 b9 b10 : is_derive (fun x => (ort_p4_3 s0 s1 s2 s3 x s5 a0 a1 a2 a3 a4 a5 b0 b1 b2 b3 b4 b5 b6 b7 b8 b9 b10)) s4 (ort_q44_3 s0 s1 s2 s3 s4 s5 a0 a1 a2 a3 a4 a5 b0 b1 b2 b3 b4 b5 b6 b7 b8 b9 b10).
Proof. unfold ort_p4_3, ort_q44_3. cutder. Qed.
Lemma ort3_dr4_4 s0 s1 s2 s3 s4 s5 a0 a1 a2 a3 a4 a5 b0 b1 b2 b3 b4 b5 b6 b7 b8 b9 b10 : is_derive (fun x => (ort_r4_3 s0 s1 s2 s3 x s5 a0 a1 a2 a3 a4 a5 b0 b1 b2 b3 b4 b5 b6 b7 b8 b9 b10)) s4 (ort_t44_3 s0 s1 s2 s3 s4 s5 a0 a1 a2 a3 a4 a5 b0 b1 b2 b3 b4 b5 b6 b7 b8 b9 b10).
Proof. unfold ort_r4_3, ort_t44_3. cutder. Qed.
Lemma ort3_dp5_4 s0 s1 s2 s3 s4 s5 a0 a1 a2 a3 a4 a5 b0 b1 b2 b3 b4 b5 b6 b7 b8 b9 b10 : is_derive (fun x => (ort_p5_3 s0 s1 s2 s3 x s5 a0 a1 a2 a3 a4 a5 b0 b1 b2 b3 b4 b5 b6 b7 b8 b9 b10)) s4 (ort_q54_3 s0 s1 s2 s3 s4 s5 a0 a1 a2 a3 a4 a5 b0 b1 b2 b3 b4 b5 b6 b7 b8 b9 b10).
Proof. unfold ort_p5_3, ort_q54_3. cutder. Qed.
Lemma ort3_dr5_4 s0 s1 s2 s3 s4 s5 a0 a1 a2 a3 a4 a5 b0 b1 b2 b3 b4 b5 b6 b7 b8 b9 b10 : is_derive (fun x => (ort_r5_3 s0 s1 s2 s3 x s5 a0 a1 a2 a3 a4 a5 b0 b1 b2 b3 b4 b5 b6 b7 b8 b9 b10)) s4 (ort_t54_3 s0 s1 s2 s3 s4 s5 a0 a1 a2 a3 a4 a5 b0 b1 b2 b3 b4 b5 b6 b7 b8 b9 b10).
Proof. unfold ort_r5_3, ort_t54_3. cutder. Qed.
Lemma ort3_dk2_5 s0 s1 s2 s3 s4 s5 a0 a1 a2 a3 a4 a5 b0 b1 b2 b3 b4 b5 b6 b7 b8 b9 b10 : is_derive (fun x => (ort_k2_3 s0 s1 s2 s3 s4 x a0 a1 a2 a3 a4 a5 b0 b1 b2 b3 b4 b5 b6 b7 b8 b9 b10)) s5 (ort_p5_3 s0 s1 s2 s3 s4 s5 a0 a1 a2 a3 a4 a5 b0 b1 b2 b3 b4 b5 b6 b7 b8 b9 b10).
Proof. unfold ort_k2_3, ort_p5_3. cutder. Qed.
Lemma ort3_dk3_5 s0 s1 s2 s3 s4 s5 a0 a1 a2 a3 a4 a5 b0 b1 b2 b3 b4 b5 b6 b7 b8 b9 b10 : is_derive (fun x => (ort_k3_3 s0 s1 s2 s3 s4 x a0 a1 a2 a3 a4 a5 b0 b1 b2 b3 b4 b5 b6 b7 b8 b9 b10)) s5 (ort_r5_3 s0 s1 s2 s3 s4 s5 a0 a1 a2 a3 a4 a5 b0 b1 b2 b3 b4 b5 b6 b7 b8 b9 b10).
Proof. unfold ort_k3_3, ort_r5_3. cutder. Qed.
Lemma ort3_dp0_5 s0 s1 s2 s3 s4 s5 a0 a1 a2 a3 a4 a5 b0 b1 b2 b3 b4 b5 b6 b7 b8 b9 b10 : is_derive (fun x => (ort_p0_3 s0 s1 s2 s3 s4 x a0 a1 a2 a3 a4 a5 b0 b1 b2 b3 b4 b5 b6 b7 b8 b9 b10)) s5 (ort_q05_3 s0 s1 s2 s3 s4 s5 a0 a1 a2 a3 a4 a5 b0 b1 b2 b3 b4 b5 b6 b7 b8 b9 b10).
Proof. unfold ort_p0_3, ort_q05_3. cutder. Qed.
Lemma ort3_dr0_5 s0 s1 s2 s3 s4 s5 a0 a1 a2 a3 a4 a5 b0 b1 b2 b3 b4 b5 b6 b7 b8 b9 b10 : is_derive (fun x => (ort_r0_3 s0 s1 s2 s3 s4 x a0 a1 a2 a3 a4 a5 b0 b1 b2 b3 b4 b5 b6 b7 b8 b9 b10)) s5 (ort_t05_3 s0 s1 s2 s3 s4 s5 a0 a1 a2 a3 a4 a5 b0 b1 b2 b3 b4 b5 b6 b7 b8 b9 b10).
Proof. unfold ort_r0_3, ort_t05_3. cutder. Qed.
Lemma ort3_dp1_5 s0 s1 s2 s3 s4 s5 a0 a1 a2 a3 a4 a5 b0 b1 b2 b3 b4 b5 b6 b7 b8 b9 b10 : is_derive (fun x => (ort_p1_3 s0 s1 s2 s3 s4 x a0 a1 a2 a3 a4 a5 b0 b1 b2 b3 b4 b5 b6 b7 b8 b9 b10)) s5 (ort_q15_3 s0 s1 s2 s3 s4 s5 a0 a1 a2 a3 a4 a5 b0 b1 b2 b3 b4 b5 b6 b7 b8 b9 b10).
Proof. unfold ort_p1_3, ort_q15_3. cutder. Qed.
Lemma ort3_dr1_5 s0 s1 s2 s3 s4 s5 a0 a1 a2 a3 a4 a5 b0 b1 b2 b3 b4 b5 b6 b7 b8 b9 b10 : is_derive (fun x => (ort_r1_3 s0 s1 s2 s3 s4 x a0 a1 a2 a3 a4 a5 b0 b1 b2 b3 b4 b5 b6 b7 b8 b9 b10)) s5 (ort_t15_3 s0 s1 s2 s3 s4 s5 a0 a1 a2 a3 a4 a5 b0 b1 b2 b3 b4 b5 b6 b7 b8 b9 b10).
Proof. unfold ort_r1_3, ort_t15_3. cutder. Qed.
Lemma ort3_dp2_5 s0 s1 s2 s3 s4 s5 a0 a1 a2 a3 a4 a5 b0 b1 b2 b3 b4 b5 b6 b7 b8 b9 b10 : is_derive (fun x => (ort_p2_3 s0 s1 s2 s3 s4 x a0 a1 a2 a3 a4 a5 b0 b1 b2 b3 b4 b5 b6 b7 b8 b9 b10)) s5 (ort_q25_3 s0 s1 s2 s3 s4 s5 a0 a1 a2 a3 a4 a5 b0 b1 b2 b3 b4 b5 b6 b7 b8 b9 b10).
Proof. unfold ort_p2_3, ort_q25_3. cutder. Qed.
Lemma ort3_dr2_5 s0 s1 s2 s3 s4 s5 a0 a1 a2 a3 a4 a5 b0 b1 b2 b3 b4 b5 b6 b7 b8 b9 b10 : is_derive (fun x => (ort_r2_3 s0 s1 s2 s3 s4 x a0 a1 a2 a3 a4 a5 b0 b1 b2 b3 b4 b5 b6 b7 b8 b9 b10)) s5 (ort_t25_3 s0 s1 s2 s3 s4 s5 a0 a1 a2 a3 a4 a5 b0 b1 b2 b3 b4 b5 b6 b7 b8 b9 b10).
Proof. unfold ort_r2_3, ort_t25_3. cutder. Qed.
Lemma ort3_dp3_5 s0 s1 s2 s3 s4 s5 a0 a1 a2 a3 a4 a5 b0 b1 b2 b3 b4 b5 b6 b7 b8 b9 b10 : is_derive (fun x => (ort_p3_3 s0 s1 s2 s3 s4 x a0 a1 a2 a3 a4 a5 b0 b1 b2 b3 b4 b5 b6 b7 b8 b9 b10)) s5 (ort_q35_3 s0 s1 s2 s3 s4 s5 a0 a1 a2 a3 a4 a5 b0 b1 b2 b3 b4 b5 b6 b7 b8 b9 b10).
Proof. unfold ort_p3_3, ort_q35_3. cutder. Qed.
Lemma ort3_dr3_5 s0 s1 s2 s3 s4 s5 a0 a1 a2 a3 a4 a5 b0 b1 b2 b3 b4 b5 b6 b7 b8 b9 b10 : is_derive (fun x => (ort_r3_3 s0 s1 s2 s3 s4 x a0 a1 a2 a3 a4 a5 b0 b1 b2 b3 b4 b5 b6 b7 b8 b9 b10)) s5 (ort_t35_3 s0 s1 s2 s3 s4 s5 a0 a1 a2 a3 a4 a5 b0 b1 b2 b3 b4 b5 b6 b7 b8 b9 b10).
Proof. unfold ort_r3_3, ort_t35_3. cutder. Qed.
Lemma ort3_dp4_5 s0 s1 s2 s3 s4 s5 a0 a1 a2 a3 a4 a5 b0 b1 b2 b3 b4 b5 b6 b7 b8 b9 b10 : is_derive (fun x => (ort_p4_3 s0 s1 s2 s3 s4 x a0 a1 a2 a3 a4 a5 b0 b1 b2 b3 b4 b5 b6 b7 b8 b9 b10)) s5 (ort_q45_3 s0 s1 s2 s3 s4 s5 a0 a1 a2 a3 a4 a5 b0 b1 b2 b3 b4 b5 b6 b7 b8 b9 b10).
Proof. unfold ort_p4_3, ort_q45_3. cutder. Qed.
Lemma ort3_dr4_5 s0 s1 s2 s3 s4 s5 a0 a1 a2 a3 a4 a5 b0 b1 b2 b3 b4 b5 b6 b7 b8 b9 b10 : is_derive (fun x => (ort_r4_3 s0 s1 s2 s3 s4 x a0 a1 a2 a3 a4 a5 b0 b1 b2 b3 b4 b5 b6 b7 b8 b9 b10)) s5 (ort_t45_3 s0 s1 s2 s3 s4 s5 a0 a1 a2 a3 a4 a5 b0 b1 b2 b3 b4 b5 b6 b7 b8 b9 b10).
Proof. unfold ort_r4_3, ort_t45_3. cutder. Qed.
Lemma ort3_dp5_5 s0 s1 s2 s3 s4 s5 a0 a1 a2 a3 a4 a5 b0 b1 b2 b3 b4 b5 b6 b7 b8 b9 b10 : is_derive (fun x => (ort_p5_3 s0 s1 s2 s3 s4 x a0 a1 a2 a3 a4 a5 b0 b1 b2 b3 b4 b5 b6 b7 b8 b9 b10)) s5 (ort_q55_3 s0 s1 s2 s3 s4 s5 a0 a1 a2 a3 a4 a5 b0 b1 b2 b3 b4 b5 b6 b7 b8 b9 b10).
Proof. unfold ort_p5_3, ort_q55_3. cutder. Qed.
Lemma ort3_dr5_5 s0 s1 s2 s3 s4 s5 a0 a1 a2 a3 a4 a5 b0 b1 b2 b3 b4 b5 b6 b7 b8 b9 b10 : is_derive (fun x => (ort_r5_3 s0 s1 s2 s3 s4 x a0 a1 a2 a3 a4 a5 b0 b1 b2 b3 b4 b5 b6 b7 b8 b9 b10)) s5 (ort_t55_3 s0 s1 s2 s3 s4 s5 a0 a1 a2 a3 a4 a5 b0 b1 b2 b3 b4 b5 b6 b7 b8 b9 b10).
Proof. unfold ort_r5_3, ort_t55_3. cutder. Qed.

(* C22 -- specification for the invariant-based criteria, written independently of the code.
   Stress tensors are given by their TFEL components (s0,s1,s2 diagonal; s3,s4,s5 = sqrt2 * shear components), for which the
   gradient of a scalar function of the tensor has for components the partial derivatives w.r.t. these components
   (orthonormal basis of symmetric tensors). *)
From Coq Require Import Reals List.
From Coquelicot Require Import Coquelicot.
Import ListNotations.
Local Open Scope R_scope.

(* ---- invariants of the deviator *)
Section Inv1.
  Variables s0 s1 s2 : R.
  Definition mean1 := (s0 + s1 + s2) / 3.
  Definition d0 := s0 - mean1.
  Definition d1 := s1 - mean1.
  Definition d2 := s2 - mean1.
  Definition J2_1 := (d0 * d0 + d1 * d1 + d2 * d2) / 2.
  Definition J3_1 := d0 * d1 * d2.
End Inv1.
(* 2D: in-plane shear s3 = sqrt2 s12 *)
Definition J2_2 s0 s1 s2 s3 := J2_1 s0 s1 s2 + s3 * s3 / 2.
Definition J3_2 s0 s1 s2 s3 := J3_1 s0 s1 s2 - d2 s0 s1 s2 * (s3 * s3 / 2).
(* 3D: s3 = sqrt2 s12, s4 = sqrt2 s13, s5 = sqrt2 s23; det of the deviator *)
Definition J2_3 s0 s1 s2 s3 s4 s5 := J2_1 s0 s1 s2 + (s3 * s3 + s4 * s4 + s5 * s5) / 2.
Definition J3_3 s0 s1 s2 s3 s4 s5 :=
  J3_1 s0 s1 s2 + s3 * s4 * s5 / sqrt 2 - d0 s0 s1 s2 * (s5 * s5 / 2) - d1 s0 s1 s2 * (s4 * s4 / 2) - d2 s0 s1 s2 * (s3 * s3 / 2).

(* ---- Drucker 1949: seq = sqrt3 (J2^3 - c J3^2)^(1/6) *)
Definition drucker_of (J2 J3 c : R) : R := sqrt 3 * Rpower (J2 * J2 * J2 - c * (J3 * J3)) (1 / 6).
Definition S6_1 c s0 s1 s2 := J2_1 s0 s1 s2 * J2_1 s0 s1 s2 * J2_1 s0 s1 s2 - c * (J3_1 s0 s1 s2 * J3_1 s0 s1 s2).
Definition drucker_1 c s0 s1 s2 := sqrt 3 * Rpower (S6_1 c s0 s1 s2) (1 / 6).
Definition drucker_2 c s0 s1 s2 s3 := drucker_of (J2_2 s0 s1 s2 s3) (J3_2 s0 s1 s2 s3) c.
Definition drucker_3 c s0 s1 s2 s3 s4 s5 := drucker_of (J2_3 s0 s1 s2 s3 s4 s5) (J3_3 s0 s1 s2 s3 s4 s5) c.

(* gradient of a function of three components *)
Definition is_grad3 (f : R -> R -> R -> R) (s0 s1 s2 : R) (g : list R) : Prop :=
  is_derive (fun x => f x s1 s2) s0 (nth 0 g 0) /\ is_derive (fun x => f s0 x s2) s1 (nth 1 g 0) /\
  is_derive (fun x => f s0 s1 x) s2 (nth 2 g 0).

(* Cazacu 2004 isotropic: seq = (J2^(3/2) - c J3)^(1/3); von Mises: sqrt (3 J2) *)
Definition mises_of (J2 : R) : R := sqrt (3 * J2).

(* closed form of the gradient of Drucker's stress in 1D (chain rule on the invariants): dJ2/ds_k = d_k,
   dJ3/ds_k = prod_{i<>k} d_i - (d0 d1 + d0 d2 + d1 d2)/3 *)
Section Normal1.
  Variables c s0 s1 s2 : R.
  Let a0 := d0 s0 s1 s2. Let a1 := d1 s0 s1 s2. Let a2 := d2 s0 s1 s2.
  Let P := a0 * a1 + a0 * a2 + a1 * a2.
  Let J2 := J2_1 s0 s1 s2. Let J3 := J3_1 s0 s1 s2. Let S := S6_1 c s0 s1 s2.
  Definition dr_N0 := drucker_1 c s0 s1 s2 * (J2 * J2 / (2 * S) * a0 - c * J3 / (3 * S) * (a1 * a2 - P / 3)).
  Definition dr_N1 := drucker_1 c s0 s1 s2 * (J2 * J2 / (2 * S) * a1 - c * J3 / (3 * S) * (a0 * a2 - P / 3)).
  Definition dr_N2 := drucker_1 c s0 s1 s2 * (J2 * J2 / (2 * S) * a2 - c * J3 / (3 * S) * (a0 * a1 - P / 3)).
End Normal1.

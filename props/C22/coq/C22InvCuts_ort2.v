(* C22 -- the cut quantities are polynomials whose derivatives are the next cut quantities (written by mkcoq.py).
   iso: d(s|s)/ds_j = 2 dev_j, dJ3/ds_j = b_j (computeJ3Derivative), db_i/ds_j = h_ij (computeJ3SecondDerivative);
   ort: dJ2O/ds_j = p_j, dp_i/ds_j = q_ij, dJ3O/ds_j = r_j, dr_i/ds_j = t_ij (computeJ2O/J3O[Second]Derivative). *)
From Coq Require Import Reals List Lra.
From Coquelicot Require Import Coquelicot.
From VLib Require Import RealExtra.
From C22 Require Import C22InvSpec C22InvTac C22inv_gen.
Import ListNotations.
Local Open Scope R_scope.

Lemma ort2_dk2_0 s0 s1 s2 s3 a0 a1 a2 a3 a4 a5 b0 b1 b2 b3 b4 b5 b6 b7 b8 b9 b10 : is_derive (fun x => (ort_k2_2 x s1 s2 s3 a0 a1 a2 a3 a4 a5 b0 b1 b2 b3 b4 b5 b6 b7 b8 b9 b10)) s0 (ort_p0_2 s0 s1 s2 s3 a0 a1 a2 a3 a4 a5 b0 b1 b2 b3 b4 b5 b6 b7 b8 b9 b10).
Proof. unfold ort_k2_2, ort_p0_2. cutder. Qed.
Lemma ort2_dk3_0 s0 s1 s2 s3 a0 a1 a2 a3 a4 a5 b0 b1 b2 b3 b4 b5 b6 b7 b8 b9 b10 : is_derive (fun x => (ort_k3_2 x s1 s2 s3 a0 a1 a2 a3 a4 a5 b0 b1 b2 b3 b4 b5 b6 b7 b8 b9 b10)) s0 (ort_r0_2 s0 s1 s2 s3 a0 a1 a2 a3 a4 a5 b0 b1 b2 b3 b4 b5 b6 b7 b8 b9 b10).
Proof. unfold ort_k3_2, ort_r0_2. cutder. Qed.
Lemma ort2_dp0_0 s0 s1 s2 s3 a0 a1 a2 a3 a4 a5 b0 b1 b2 b3 b4 b5 b6 b7 b8 b9 b10 : is_derive (fun x => (ort_p0_2 x s1 s2 s3 a0 a1 a2 a3 a4 a5 b0 b1 b2 b3 b4 b5 b6 b7 b8 b9 b10)) s0 (ort_q00_2 s0 s1 s2 s3 a0 a1 a2 a3 a4 a5 b0 b1 b2 b3 b4 b5 b6 b7 b8 b9 b10).
Proof. unfold ort_p0_2, ort_q00_2. cutder. Qed.
Lemma ort2_dr0_0 s0 s1 s2 s3 a0 a1 a2 a3 a4 a5 b0 b1 b2 b3 b4 b5 b6 b7 b8 b9 b10 : is_derive (fun x => (ort_r0_2 x s1 s2 s3 a0 a1 a2 a3 a4 a5 b0 b1 b2 b3 b4 b5 b6 b7 b8 b9 b10)) s0 (ort_t00_2 s0 s1 s2 s3 a0 a1 a2 a3 a4 a5 b0 b1 b2 b3 b4 b5 b6 b7 b8 b9 b10).
Proof. unfold ort_r0_2, ort_t00_2. cutder. Qed.
Lemma ort2_dp1_0 s0 s1 s2 s3 a0 a1 a2 a3 a4 a5 b0 b1 b2 b3 b4 b5 b6 b7 b8 b9 b10 : is_derive (fun x => (ort_p1_2 x s1 s2 s3 a0 a1 a2 a3 a4 a5 b0 b1 b2 b3 b4 b5 b6 b7 b8 b9 b10)) s0 (ort_q10_2 s0 s1 s2 s3 a0 a1 a2 a3 a4 a5 b0 b1 b2 b3 b4 b5 b6 b7 b8 b9 b10).
Proof. unfold ort_p1_2, ort_q10_2. cutder. Qed.
Lemma ort2_dr1_0 s0 s1 s2 s3 a0 a1 a2 a3 a4 a5 b0 b1 b2 b3 b4 b5 b6 b7 b8 b9 b10 : is_derive (fun x => (ort_r1_2 x s1 s2 s3 a0 a1 a2 a3 a4 a5 b0 b1 b2 b3 b4 b5 b6 b7 b8 b9 b10)) s0 (ort_t10_2 s0 s1 s2 s3 a0 a1 a2 a3 a4 a5 b0 b1 b2 b3 b4 b5 b6 b7 b8 b9 b10).
Proof. unfold ort_r1_2, ort_t10_2. cutder. Qed.
Lemma ort2_dp2_0 s0 s1 s2 s3 a0 a1 a2 a3 a4 a5 b0 b1 b2 b3 b4 b5 b6 b7 b8 b9 b10 : is_derive (fun x => (ort_p2_2 x s1 s2 s3 a0 a1 a2 a3 a4 a5 b0 b1 b2 b3 b4 b5 b6 b7 b8 b9 b10)) s0 (ort_q20_2 s0 s1 s2 s3 a0 a1 a2 a3 a4 a5 b0 b1 b2 b3 b4 b5 b6 b7 b8 b9 b10).
Proof. unfold ort_p2_2, ort_q20_2. cutder. Qed.
Lemma ort2_dr2_0 s0 s1 s2 s3 a0 a1 a2 a3 a4 a5 b0 b1 b2 b3 b4 b5 b6 b7 b8 b9 b10 : is_derive (fun x => (ort_r2_2 x s1 s2 s3 a0 a1 a2 a3 a4 a5 b0 b1 b2 b3 b4 b5 b6 b7 b8 b9 b10)) s0 (ort_t20_2 s0 s1 s2 s3 a0 a1 a2 a3 a4 a5 b0 b1 b2 b3 b4 b5 b6 b7 b8 b9 b10).
Proof. unfold ort_r2_2, ort_t20_2. cutder. Qed.
Lemma ort2_dp3_0 s0 s1 s2 s3 a0 a1 a2 a3 a4 a5 b0 b1 b2 b3 b4 b5 b6 b7 b8 b9 b10 : is_derive (fun x => (ort_p3_2 x s1 s2 s3 a0 a1 a2 a3 a4 a5 b0 b1 b2 b3 b4 b5 b6 b7 b8 b9 b10)) s0 (ort_q30_2 s0 s1 s2 s3 a0 a1 a2 a3 a4 a5 b0 b1 b2 b3 b4 b5 b6 b7 b8 b9 b10).
Proof. unfold ort_p3_2, ort_q30_2. cutder. Qed.
Lemma ort2_dr3_0 s0 s1 s2 s3 a0 a1 a2 a3 a4 a5 b0 b1 b2 b3 b4 b5 b6 b7 b8 b9 b10 : is_derive (fun x => (ort_r3_2 x s1 s2 s3 a0 a1 a2 a3 a4 a5 b0 b1 b2 b3 b4 b5 b6 b7 b8 b9 b10)) s0 (ort_t30_2 s0 s1 s2 s3 a0 a1 a2 a3 a4 a5 b0 b1 b2 b3 b4 b5 b6 b7 b8 b9 b10).
Proof. unfold ort_r3_2, ort_t30_2. cutder. Qed.
Lemma ort2_dk2_1 s0 s1 s2 s3 a0 a1 a2 a3 a4 a5 b0 b1 b2 b3 b4 b5 b6 b7 b8 b9 b10 : is_derive (fun x => (ort_k2_2 s0 x s2 s3 a0 a1 a2 a3 a4 a5 b0 b1 b2 b3 b4 b5 b6 b7 b8 b9 b10)) s1 (ort_p1_2 s0 s1 s2 s3 a0 a1 a2 a3 a4 a5 b0 b1 b2 b3 b4 b5 b6 b7 b8 b9 b10).
Proof. unfold ort_k2_2, ort_p1_2. cutder. Qed.
Lemma ort2_dk3_1 s0 s1 s2 s3 a0 a1 a2 a3 a4 a5 b0 b1 b2 b3 b4 b5 b6 b7 b8 b9 b10 : is_derive (fun x => (ort_k3_2 s0 x s2 s3 a0 a1 a2 a3 a4 a5 b0 b1 b2 b3 b4 b5 b6 b7 b8 b9 b10)) s1 (ort_r1_2 s0 s1 s2 s3 a0 a1 a2 a3 a4 a5 b0 b1 b2 b3 b4 b5 b6 b7 b8 b9 b10).
Proof. unfold ort_k3_2, ort_r1_2. cutder. Qed.
Lemma ort2_dp0_1 s0 s1 s2 s3 a0 a1 a2 a3 a4 a5 b0 b1 b2 b3 b4 b5 b6 b7 b8 b9 b10 : is_derive (fun x => (ort_p0_2 s0 x s2 s3 a0 a1 a2 a3 a4 a5 b0 b1 b2 b3 b4 b5 b6 b7 b8 b9 b10)) s1 (ort_q01_2 s0 s1 s2 s3 a0 a1 a2 a3 a4 a5 b0 b1 b2 b3 b4 b5 b6 b7 b8 b9 b10).
Proof. unfold ort_p0_2, ort_q01_2. cutder. Qed.
Lemma ort2_dr0_1 s0 s1 s2 s3 a0 a1 a2 a3 a4 a5 b0 b1 b2 b3 b4 b5 b6 b7 b8 b9 b10 : is_derive (fun x => (ort_r0_2 s0 x s2 s3 a0 a1 a2 a3 a4 a5 b0 b1 b2 b3 b4 b5 b6 b7 b8 b9 b10)) s1 (ort_t01_2 s0 s1 s2 s3 a0 a1 a2 a3 a4 a5 b0 b1 b2 b3 b4 b5 b6 b7 b8 b9 b10).
Proof. unfold ort_r0_2, ort_t01_2. cutder. Qed.
Lemma ort2_dp1_1 s0 s1 s2 s3 a0 a1 a2 a3 a4 a5 b0 b1 b2 b3 b4 b5 b6 b7 b8 b9 b10 : is_derive (fun x => (ort_p1_2 s0 x s2 s3 a0 a1 a2 a3 a4 a5 b0 b1 b2 b3 b4 b5 b6 b7 b8 b9 b10)) s1 (ort_q11_2 s0 s1 s2 s3 a0 a1 a2 a3 a4 a5 b0 b1 b2 b3 b4 b5 b6 b7 b8 b9 b10).
Proof. unfold ort_p1_2, ort_q11_2. cutder. Qed.
Lemma ort2_dr1_1 s0 s1 s2 s3 a0 a1 a2 a3 a4 a5 b0 b1 b2 b3 b4 b5 b6 b7 b8 b9 b10 : is_derive (fun x => (ort_r1_2 s0 x s2 s3 a0 a1 a2 a3 a4 a5 b0 b1 b2 b3 b4 b5 b6 b7 b8 b9 b10)) s1 (ort_t11_2 s0 s1 s2 s3 a0 a1 a2 a3 a4 a5 b0 b1 b2 b3 b4 b5 b6 b7 b8 b9 b10).
Proof. unfold ort_r1_2, ort_t11_2. cutder. Qed.
Lemma ort2_dp2_1 s0 s1 s2 s3 a0 a1 a2 a3 a4 a5 b0 b1 b2 b3 b4 b5 b6 b7 b8 b9 b10 : is_derive (fun x => (ort_p2_2 s0 x s2 s3 a0 a1 a2 a3 a4 a5 b0 b1 b2 b3 b4 b5 b6 b7 b8 b9 b10)) s1 (ort_q21_2 s0 s1 s2 s3 a0 a1 a2 a3 a4 a5 b0 b1 b2 b3 b4 b5 b6 b7 b8 b9 b10).
Proof. unfold ort_p2_2, ort_q21_2. cutder. Qed.
Lemma ort2_dr2_1 s0 s1 s2 s3 a0 a1 a2 a3 a4 a5 b0 b1 b2 b3 b4 b5 b6 b7 b8 b9 b10 : is_derive (fun x => (ort_r2_2 s0 x s2 s3 a0 a1 a2 a3 a4 a5 b0 b1 b2 b3 b4 b5 b6 b7 b8 b9 b10)) s1 (ort_t21_2 s0 s1 s2 s3 a0 a1 a2 a3 a4 a5 b0 b1 b2 b3 b4 b5 b6 b7 b8 b9 b10).
Proof. unfold ort_r2_2, ort_t21_2. cutder. Qed.
Lemma ort2_dp3_1 s0 s1 s2 s3 a0 a1 a2 a3 a4 a5 b0 b1 b2 b3 b4 b5 b6 b7 b8 b9 b10 : is_derive (fun x => (ort_p3_2 s0 x s2 s3 a0 a1 a2 a3 a4 a5 b0 b1 b2 b3 b4 b5 b6 b7 b8 b9 b10)) s1 (ort_q31_2 s0 s1 s2 s3 a0 a1 a2 a3 a4 a5 b0 b1 b2 b3 b4 b5 b6 b7 b8 b9 b10).
Proof. unfold ort_p3_2, ort_q31_2. cutder. Qed.
Lemma ort2_dr3_1 s0 s1 s2 s3 a0 a1 a2 a3 a4 a5 b0 b1 b2 b3 b4 b5 b6 b7 b8 b9 b10 : is_derive (fun x => (ort_r3_2 s0 x s2 s3 a0 a1 a2 a3 a4 a5 b0 b1 b2 b3 b4 b5 b6 b7 b8 b9 b10)) s1 (ort_t31_2 s0 s1 s2 s3 a0 a1 a2 a3 a4 a5 b0 b1 b2 b3 b4 b5 b6 b7 b8 b9 b10).
Proof. unfold ort_r3_2, ort_t31_2. cutder. Qed.
Lemma ort2_dk2_2 s0 s1 s2 s3 a0 a1 a2 a3 a4 a5 b0 b1 b2 b3 b4 b5 b6 b7 b8 b9 b10 : is_derive (fun x => (ort_k2_2 s0 s1 x s3 a0 a1 a2 a3 a4 a5 b0 b1 b2 b3 b4 b5 b6 b7 b8 b9 b10)) s2 (ort_p2_2 s0 s1 s2 s3 a0 a1 a2 a3 a4 a5 b0 b1 b2 b3 b4 b5 b6 b7 b8 b9 b10).
Proof. unfold ort_k2_2, ort_p2_2. cutder. Qed.
Lemma ort2_dk3_2 s0 s1 s2 s3 a0 a1 a2 a3 a4 a5 b0 b1 b2 b3 b4 b5 b6 b7 b8 b9 b10 : is_derive (fun x => (ort_k3_2 s0 s1 x s3 a0 a1 a2 a3 a4 a5 b0 b1 b2 b3 b4 b5 b6 b7 b8 b9 b10)) s2 (ort_r2_2 s0 s1 s2 s3 a0 a1 a2 a3 a4 a5 b0 b1 b2 b3 b4 b5 b6 b7 b8 b9 b10).
Proof. unfold ort_k3_2, ort_r2_2. cutder. Qed.
Lemma ort2_dp0_2 s0 s1 s2 s3 a0 a1 a2 a3 a4 a5 b0 b1 b2 b3 b4 b5 b6 b7 b8 b9 b10 : is_derive (fun x => (ort_p0_2 s0 s1 x s3 a0 a1 a2 a3 a4 a5 b0 b1 b2 b3 b4 b5 b6 b7 b8 b9 b10)) s2 (ort_q02_2 s0 s1 s2 s3 a0 a1 a2 a3 a4 a5 b0 b1 b2 b3 b4 b5 b6 b7 b8 b9 b10).
Proof. unfold ort_p0_2, ort_q02_2. cutder. Qed.
Lemma ort2_dr0_2 s0 s1 s2 s3 a0 a1 a2 a3 a4 a5 b0 b1 b2 b3 b4 b5 b6 b7 b8 b9 b10 : is_derive (fun x => (ort_r0_2 s0 s1 x s3 a0 a1 a2 a3 a4 a5 b0 b1 b2 b3 b4 b5 b6 b7 b8 b9 b10)) s2 (ort_t02_2 s0 s1 s2 s3 a0 a1 a2 a3 a4 a5 b0 b1 b2 b3 b4 b5 b6 b7 b8 b9 b10).
Proof. unfold ort_r0_2, ort_t02_2. cutder. Qed.
Lemma ort2_dp1_2 s0 s1 s2 s3 a0 a1 a2 a3 a4 a5 b0 b1 b2 b3 b4 b5 b6 b7 b8 b9 b10 : is_derive (fun x => (ort_p1_2 s0 s1 x s3 a0 a1 a2 a3 a4 a5 b0 b1 b2 b3 b4 b5 b6 b7 b8 b9 b10)) s2 (ort_q12_2 s0 s1 s2 s3 a0 a1 a2 a3 a4 a5 b0 b1 b2 b3 b4 b5 b6 b7 b8 b9 b10).
Proof. unfold ort_p1_2, ort_q12_2. cutder. Qed.
Lemma ort2_dr1_2 s0 s1 s2 s3 a0 a1 a2 a3 a4 a5 b0 b1 b2 b3 b4 b5 b6 b7 b8 b9 b10 : is_derive (fun x => (ort_r1_2 s0 s1 x s3 a0 a1 a2 a3 a4 a5 b0 b1 b2 b3 b4 b5 b6 b7 b8 b9 b10)) s2 (ort_t12_2 s0 s1 s2 s3 a0 a1 a2 a3 a4 a5 b0 b1 b2 b3 b4 b5 b6 b7 b8 b9 b10).
Proof. unfold ort_r1_2, ort_t12_2. cutder. Qed.
Lemma ort2_dp2_2 s0 s1 s2 s3 a0 a1 a2 a3 a4 a5 b0 b1 b2 b3 b4 b5 b6 b7 b8 b9 b10 : is_derive (fun x => (ort_p2_2 s0 s1 x s3 a0 a1 a2 a3 a4 a5 b0 b1 b2 b3 b4 b5 b6 b7 b8 b9 b10)) s2 (ort_q22_2 s0 s1 s2 s3 a0 a1 a2 a3 a4 a5 b0 b1 b2 b3 b4 b5 b6 b7 b8 b9 b10).
Proof. unfold ort_p2_2, ort_q22_2. cutder. Qed.
Lemma ort2_dr2_2 s0 s1 s2 s3 a0 a1 a2 a3 a4 a5 b0 b1 b2 b3 b4 b5 b6 b7 b8 b9 b10 : is_derive (fun x => (ort_r2_2 s0 s1 x s3 a0 a1 a2 a3 a4 a5 b0 b1 b2 b3 b4 b5 b6 b7 b8 b9 b10)) s2 (ort_t22_2 s0 s1 s2 s3 a0 a1 a2 a3 a4 a5 b0 b1 b2 b3 b4 b5 b6 b7 b8 b9 b10).
Proof. unfold ort_r2_2, ort_t22_2. cutder. Qed.
Lemma ort2_dp3_2 s0 s1 s2 s3 a0 a1 a2 a3 a4 a5 b0 b1 b2 b3 b4 b5 b6 b7 b8 b9 b10 : is_derive (fun x => (ort_p3_2 s0 s1 x s3 a0 a1 a2 a3 a4 a5 b0 b1 b2 b3 b4 b5 b6 b7 b8 b9 b10)) s2 (ort_q32_2 s0 s1 s2 s3 a0 a1 a2 a3 a4 a5 b0 b1 b2 b3 b4 b5 b6 b7 b8 b9 b10).
Proof. unfold ort_p3_2, ort_q32_2. cutder. Qed.
Lemma ort2_dr3_2 s0 s1 s2 s3 a0 a1 a2 a3 a4 a5 b0 b1 b2 b3 b4 b5 b6 b7 b8 b9 b10 : is_derive (fun x => (ort_r3_2 s0 s1 x s3 a0 a1 a2 a3 a4 a5 b0 b1 b2 b3 b4 b5 b6 b7 b8 b9 b10)) s2 (ort_t32_2 s0 s1 s2 s3 a0 a1 a2 a3 a4 a5 b0 b1 b2 b3 b4 b5 b6 b7 b8 b9 b10).
Proof. unfold ort_r3_2, ort_t32_2. cutder. Qed.
Lemma ort2_dk2_3 s0 s1 s2 s3 a0 a1 a2 a3 a4 a5 b0 b1 b2 b3 b4 b5 b6 b7 b8 b9 b10 : is_derive (fun x => (ort_k2_2 s0 s1 s2 x a0 a1 a2 a3 a4 a5 b0 b1 b2 b3 b4 b5 b6 b7 b8 b9 b10)) s3 (ort_p3_2 s0 s1 s2 s3 a0 a1 a2 a3 a4 a5 b0 b1 b2 b3 b4 b5 b6 b7 b8 b9 b10).
Proof. unfold ort_k2_2, ort_p3_2. cutder. Qed.
Lemma ort2_dk3_3 s0 s1 s2 s3 a0 a1 a2 a3 a4 a5 b0 b1 b2 b3 b4 b5 b6 b7 b8 b9 b10 : is_derive (fun x => (ort_k3_2 s0 s1 s2 x a0 a1 a2 a3 a4 a5 b0 b1 b2 b3 b4 b5 b6 b7 b8 b9 b10)) s3 (ort_r3_2 s0 s1 s2 s3 a0 a1 a2 a3 a4 a5 b0 b1 b2 b3 b4 b5 b6 b7 b8 b9 b10).
Proof. unfold ort_k3_2, ort_r3_2. cutder. Qed.
Lemma ort2_dp0_3 s0 s1 s2 s3 a0 a1 a2 a3 a4 a5 b0 b1 b2 b3 b4 b5 b6 b7 b8 b9 b10 : is_derive (fun x => (ort_p0_2 s0 s1 s2 x a0 a1 a2 a3 a4 a5 b0 b1 b2 b3 b4 b5 b6 b7 b8 b9 b10)) s3 (ort_q03_2 s0 s1 s2 s3 a0 a1 a2 a3 a4 a5 b0 b1 b2 b3 b4 b5 b6 b7 b8 b9 b10).
Proof. unfold ort_p0_2, ort_q03_2. cutder. Qed.
Lemma ort2_dr0_3 s0 s1 s2 s3 a0 a1 a2 a3 a4 a5 b0 b1 b2 b3 b4 b5 b6 b7 b8 b9 b10 : is_derive (fun x => (ort_r0_2 s0 s1 s2 x a0 a1 a2 a3 a4 a5 b0 b1 b2 b3 b4 b5 b6 b7 b8 b9 b10)) s3 (ort_t03_2 s0 s1 s2 s3 a0 a1 a2 a3 a4 a5 b0 b1 b2 b3 b4 b5 b6 b7 b8 b9 b10).
Proof. unfold ort_r0_2, ort_t03_2. cutder. Qed.
Lemma ort2_dp1_3 s0 s1 s2 s3 a0 a1 a2 a3 a4 a5 b0 b1 b2 b3 b4 b5 b6 b7 b8 b9 b10 : is_derive (fun x => (ort_p1_2 s0 s1 s2 x a0 a1 a2 a3 a4 a5 b0 b1 b2 b3 b4 b5 b6 b7 b8 b9 b10)) s3 (ort_q13_2 s0 s1 s2 s3 a0 a1 a2 a3 a4 a5 b0 b1 b2 b3 b4 b5 b6 b7 b8 b9 b10).
Proof. unfold ort_p1_2, ort_q13_2. cutder. Qed.
Lemma ort2_dr1_3 s0 s1 s2 s3 a0 a1 a2 a3 a4 a5 b0 b1 b2 b3 b4 b5 b6 b7 b8 b9 b10 : is_derive (fun x => (ort_r1_2 s0 s1 s2 x a0 a1 a2 a3 a4 a5 b0 b1 b2 b3 b4 b5 b6 b7 b8 b9 b10)) s3 (ort_t13_2 s0 s1 s2 s3 a0 a1 a2 a3 a4 a5 b0 b1 b2 b3 b4 b5 b6 b7 b8 b9 b10).
Proof. unfold ort_r1_2, ort_t13_2. cutder. Qed.
Lemma ort2_dp2_3 s0 s1 s2 s3 a0 a1 a2 a3 a4 a5 b0 b1 b2 b3 b4 b5 b6 b7 b8 b9 b10 : is_derive (fun x => (ort_p2_2 s0 s1 s2 x a0 a1 a2 a3 a4 a5 b0 b1 b2 b3 b4 b5 b6 b7 b8 b9 b10)) s3 (ort_q23_2 s0 s1 s2 s3 a0 a1 a2 a3 a4 a5 b0 b1 b2 b3 b4 b5 b6 b7 b8 b9 b10).
Proof. unfold ort_p2_2, ort_q23_2. cutder. Qed.
Lemma ort2_dr2_3 s0 s1 s2 s3 a0 a1 a2 a3 a4 a5 b0 b1 b2 b3 b4 b5 b6 b7 b8 b9 b10 : is_derive (fun x => (ort_r2_2 s0 s1 s2 x a0 a1 a2 a3 a4 a5 b0 b1 b2 b3 b4 b5 b6 b7 b8 b9 b10)) s3 (ort_t23_2 s0 s1 s2 s3 a0 a1 a2 a3 a4 a5 b0 b1 b2 b3 b4 b5 b6 b7 b8 b9 b10).
Proof. unfold ort_r2_2, ort_t23_2. cutder. Qed.
Lemma ort2_dp3_3 s0 s1 s2 s3 a0 a1 a2 a3 a4 a5 b0 b1 b2 b3 b4 b5 b6 b7 b8 b9 b10 : is_derive (fun x => (ort_p3_2 s0 s1 s2 x a0 a1 a2 a3 a4 a5 b0 b1 b2 b3 b4 b5 b6 b7 b8 b9 b10)) s3 (ort_q33_2 s0 s1 s2 s3 a0 a1 a2 a3 a4 a5 b0 b1 b2 b3 b4 b5 b6 b7 b8 b9 b10).
Proof. unfold ort_p3_2, ort_q33_2. cutder. Qed.
Lemma ort2_dr3_3 s0 s1 s2 s3 a0 a1 a2 a3 a4 a5 b0 b1 b2 b3 b4 b5 b6 b7 b8 b9 b10 : is_derive (fun x => (ort_r3_2 s0 s1 s2 x a0 a1 a2 a3 a4 a5 b0 b1 b2 b3 b4 b5 b6 b7 b8 b9 b10)) s3 (ort_t33_2 s0 s1 s2 s3 a0 a1 a2 a3 a4 a5 b0 b1 b2 b3 b4 b5 b6 b7 b8 b9 b10).
Proof. unfold ort_r3_2, ort_t33_2. cutder. Qed.

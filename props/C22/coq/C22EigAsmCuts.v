(* C22 -- the eigen-tensors computed by the library calls of the assembly functions (cut points asm<N>_n?<r> of C22eig_gen.v) are the
   tensors n_i = v_i (x) v_i and n_ij = (v_i (x) v_j + v_j (x) v_i)/sqrt2 of the specification, component by component
   (written by mkeig.py, committed). *)
From Coq Require Import Reals List Lra.
From Coquelicot Require Import Coquelicot.
From VLib Require Import RealExtra.
From C22 Require Import C22InvSpec C22InvTac C22EigSpec C22eig_gen.
Import ListNotations.
Local Open Scope R_scope.

Lemma asm2_comps_0 m00 m01 m10 m11 : comps [m00; m01; 0; m10; m11; 0; 0; 0; 1] 0 = [asm2_na0 m00 m01 m10 m11; asm2_nb0 m00 m01 m10 m11; asm2_nc0 m00 m01 m10 m11; asm2_np0 m00 m01 m10 m11; nthR (npair [m00; m01; 0; m10; m11; 0; 0; 0; 1] 0 2) 0; nthR (npair [m00; m01; 0; m10; m11; 0; 0; 0; 1] 1 2) 0].
Proof.
  unfold comps, asm2_na0, asm2_nb0, asm2_nc0, asm2_np0, nvec, npair, dyad, sdyad; lazy beta delta [nthR nth Nat.add] iota.
  repeat (apply f_equal2; [ poly_eq | ]); reflexivity.
Qed.
Lemma asm2_comps_1 m00 m01 m10 m11 : comps [m00; m01; 0; m10; m11; 0; 0; 0; 1] 1 = [asm2_na1 m00 m01 m10 m11; asm2_nb1 m00 m01 m10 m11; asm2_nc1 m00 m01 m10 m11; asm2_np1 m00 m01 m10 m11; nthR (npair [m00; m01; 0; m10; m11; 0; 0; 0; 1] 0 2) 1; nthR (npair [m00; m01; 0; m10; m11; 0; 0; 0; 1] 1 2) 1].
Proof.
  unfold comps, asm2_na1, asm2_nb1, asm2_nc1, asm2_np1, nvec, npair, dyad, sdyad; lazy beta delta [nthR nth Nat.add] iota.
  repeat (apply f_equal2; [ poly_eq | ]); reflexivity.
Qed.
Lemma asm2_comps_2 m00 m01 m10 m11 : comps [m00; m01; 0; m10; m11; 0; 0; 0; 1] 2 = [asm2_na2 m00 m01 m10 m11; asm2_nb2 m00 m01 m10 m11; asm2_nc2 m00 m01 m10 m11; asm2_np2 m00 m01 m10 m11; nthR (npair [m00; m01; 0; m10; m11; 0; 0; 0; 1] 0 2) 2; nthR (npair [m00; m01; 0; m10; m11; 0; 0; 0; 1] 1 2) 2].
Proof.
  unfold comps, asm2_na2, asm2_nb2, asm2_nc2, asm2_np2, nvec, npair, dyad, sdyad; lazy beta delta [nthR nth Nat.add] iota.
  repeat (apply f_equal2; [ poly_eq | ]); reflexivity.
Qed.
Lemma asm2_comps_3 m00 m01 m10 m11 : comps [m00; m01; 0; m10; m11; 0; 0; 0; 1] 3 = [asm2_na3 m00 m01 m10 m11; asm2_nb3 m00 m01 m10 m11; asm2_nc3 m00 m01 m10 m11; asm2_np3 m00 m01 m10 m11; nthR (npair [m00; m01; 0; m10; m11; 0; 0; 0; 1] 0 2) 3; nthR (npair [m00; m01; 0; m10; m11; 0; 0; 0; 1] 1 2) 3].
Proof.
  unfold comps, asm2_na3, asm2_nb3, asm2_nc3, asm2_np3, nvec, npair, dyad, sdyad; lazy beta delta [nthR nth Nat.add] iota.
  repeat (apply f_equal2; [ poly_eq | ]); reflexivity.
Qed.
Ltac rw_comps2 :=
  repeat match goal with
  | |- context [comps _ ?r] =>
    match r with
    | 0%nat => rewrite asm2_comps_0
    | 1%nat => rewrite asm2_comps_1
    | 2%nat => rewrite asm2_comps_2
    | 3%nat => rewrite asm2_comps_3
    end
  end.

Ltac unfold_asm2cuts := unfold asm2_na0, asm2_na1, asm2_na2, asm2_na3, asm2_nb0, asm2_nb1, asm2_nb2, asm2_nb3, asm2_nc0, asm2_nc1, asm2_nc2, asm2_nc3, asm2_np0, asm2_np1, asm2_np2, asm2_np3.

Lemma asm3_comps_0 m00 m01 m02 m10 m11 m12 m20 m21 m22 : comps [m00; m01; m02; m10; m11; m12; m20; m21; m22] 0 = [asm3_na0 m00 m01 m02 m10 m11 m12 m20 m21 m22; asm3_nb0 m00 m01 m02 m10 m11 m12 m20 m21 m22; asm3_nc0 m00 m01 m02 m10 m11 m12 m20 m21 m22; asm3_np0 m00 m01 m02 m10 m11 m12 m20 m21 m22; asm3_nq0 m00 m01 m02 m10 m11 m12 m20 m21 m22; asm3_nr0 m00 m01 m02 m10 m11 m12 m20 m21 m22].
Proof.
  unfold comps, asm3_na0, asm3_nb0, asm3_nc0, asm3_np0, asm3_nq0, asm3_nr0, nvec, npair, dyad, sdyad; lazy beta delta [nthR nth Nat.add] iota.
  repeat (apply f_equal2; [ poly_eq | ]); reflexivity.
Qed.
Lemma asm3_comps_1 m00 m01 m02 m10 m11 m12 m20 m21 m22 : comps [m00; m01; m02; m10; m11; m12; m20; m21; m22] 1 = [asm3_na1 m00 m01 m02 m10 m11 m12 m20 m21 m22; asm3_nb1 m00 m01 m02 m10 m11 m12 m20 m21 m22; asm3_nc1 m00 m01 m02 m10 m11 m12 m20 m21 m22; asm3_np1 m00 m01 m02 m10 m11 m12 m20 m21 m22; asm3_nq1 m00 m01 m02 m10 m11 m12 m20 m21 m22; asm3_nr1 m00 m01 m02 m10 m11 m12 m20 m21 m22].
Proof.
  unfold comps, asm3_na1, asm3_nb1, asm3_nc1, asm3_np1, asm3_nq1, asm3_nr1, nvec, npair, dyad, sdyad; lazy beta delta [nthR nth Nat.add] iota.
  repeat (apply f_equal2; [ poly_eq | ]); reflexivity.
Qed.
Lemma asm3_comps_2 m00 m01 m02 m10 m11 m12 m20 m21 m22 : comps [m00; m01; m02; m10; m11; m12; m20; m21; m22] 2 = [asm3_na2 m00 m01 m02 m10 m11 m12 m20 m21 m22; asm3_nb2 m00 m01 m02 m10 m11 m12 m20 m21 m22; asm3_nc2 m00 m01 m02 m10 m11 m12 m20 m21 m22; asm3_np2 m00 m01 m02 m10 m11 m12 m20 m21 m22; asm3_nq2 m00 m01 m02 m10 m11 m12 m20 m21 m22; asm3_nr2 m00 m01 m02 m10 m11 m12 m20 m21 m22].
Proof.
  unfold comps, asm3_na2, asm3_nb2, asm3_nc2, asm3_np2, asm3_nq2, asm3_nr2, nvec, npair, dyad, sdyad; lazy beta delta [nthR nth Nat.add] iota.
  repeat (apply f_equal2; [ poly_eq | ]); reflexivity.
Qed.
Lemma asm3_comps_3 m00 m01 m02 m10 m11 m12 m20 m21 m22 : comps [m00; m01; m02; m10; m11; m12; m20; m21; m22] 3 = [asm3_na3 m00 m01 m02 m10 m11 m12 m20 m21 m22; asm3_nb3 m00 m01 m02 m10 m11 m12 m20 m21 m22; asm3_nc3 m00 m01 m02 m10 m11 m12 m20 m21 m22; asm3_np3 m00 m01 m02 m10 m11 m12 m20 m21 m22; asm3_nq3 m00 m01 m02 m10 m11 m12 m20 m21 m22; asm3_nr3 m00 m01 m02 m10 m11 m12 m20 m21 m22].
Proof.
  unfold comps, asm3_na3, asm3_nb3, asm3_nc3, asm3_np3, asm3_nq3, asm3_nr3, nvec, npair, dyad, sdyad; lazy beta delta [nthR nth Nat.add] iota.
  repeat (apply f_equal2; [ poly_eq | ]); reflexivity.
Qed.
Lemma asm3_comps_4 m00 m01 m02 m10 m11 m12 m20 m21 m22 : comps [m00; m01; m02; m10; m11; m12; m20; m21; m22] 4 = [asm3_na4 m00 m01 m02 m10 m11 m12 m20 m21 m22; asm3_nb4 m00 m01 m02 m10 m11 m12 m20 m21 m22; asm3_nc4 m00 m01 m02 m10 m11 m12 m20 m21 m22; asm3_np4 m00 m01 m02 m10 m11 m12 m20 m21 m22; asm3_nq4 m00 m01 m02 m10 m11 m12 m20 m21 m22; asm3_nr4 m00 m01 m02 m10 m11 m12 m20 m21 m22].
Proof.
  unfold comps, asm3_na4, asm3_nb4, asm3_nc4, asm3_np4, asm3_nq4, asm3_nr4, nvec, npair, dyad, sdyad; lazy beta delta [nthR nth Nat.add] iota.
  repeat (apply f_equal2; [ poly_eq | ]); reflexivity.
Qed.
Lemma asm3_comps_5 m00 m01 m02 m10 m11 m12 m20 m21 m22 : comps [m00; m01; m02; m10; m11; m12; m20; m21; m22] 5 = [asm3_na5 m00 m01 m02 m10 m11 m12 m20 m21 m22; asm3_nb5 m00 m01 m02 m10 m11 m12 m20 m21 m22; asm3_nc5 m00 m01 m02 m10 m11 m12 m20 m21 m22; asm3_np5 m00 m01 m02 m10 m11 m12 m20 m21 m22; asm3_nq5 m00 m01 m02 m10 m11 m12 m20 m21 m22; asm3_nr5 m00 m01 m02 m10 m11 m12 m20 m21 m22].
Proof.
  unfold comps, asm3_na5, asm3_nb5, asm3_nc5, asm3_np5, asm3_nq5, asm3_nr5, nvec, npair, dyad, sdyad; lazy beta delta [nthR nth Nat.add] iota.
  repeat (apply f_equal2; [ poly_eq | ]); reflexivity.
Qed.
Ltac rw_comps3 :=
  repeat match goal with
  | |- context [comps _ ?r] =>
    match r with
    | 0%nat => rewrite asm3_comps_0
    | 1%nat => rewrite asm3_comps_1
    | 2%nat => rewrite asm3_comps_2
    | 3%nat => rewrite asm3_comps_3
    | 4%nat => rewrite asm3_comps_4
    | 5%nat => rewrite asm3_comps_5
    end
  end.

Ltac unfold_asm3cuts := unfold asm3_na0, asm3_na1, asm3_na2, asm3_na3, asm3_na4, asm3_na5, asm3_nb0, asm3_nb1, asm3_nb2, asm3_nb3, asm3_nb4, asm3_nb5, asm3_nc0, asm3_nc1, asm3_nc2, asm3_nc3, asm3_nc4, asm3_nc5, asm3_np0, asm3_np1, asm3_np2, asm3_np3, asm3_np4, asm3_np5, asm3_nq0, asm3_nq1, asm3_nq2, asm3_nq3, asm3_nq4, asm3_nq5, asm3_nr0, asm3_nr1, asm3_nr2, asm3_nr3, asm3_nr4, asm3_nr5.


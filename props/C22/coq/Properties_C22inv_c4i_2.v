(* C22 -- Cazacu 2004 (isotropic) (computeCazacu2004IsotropicStressCriterion, ...Normal, ...SecondDerivative), N = 2: property theorems (statements in C22InvStatements.v, proofs in C22Inv_c4i_2.v over the
   definitions regenerated from /repo).  same: the three variants return the same value and the two derivative variants the
   same normal; grad: the normal is the gradient of the value; hess: the second derivative is the Jacobian of the normal;
   sym: it is symmetric; hom: the value is positively homogeneous of degree one. *)
From Coq Require Import Reals List Lra.
From Coquelicot Require Import Coquelicot.
From VLib Require Import RealExtra.
From C22 Require Import C22InvSpec C22inv_gen C22InvStatements C22Inv_c4i_2.
Import ListNotations.
Local Open Scope R_scope.

Theorem C22_c4i_2_same : c4i_2_same_stmt.
Proof. exact c4i_2_same_ok. Qed.
Print Assumptions C22_c4i_2_same.
Theorem C22_c4i_2_grad : c4i_2_grad_stmt.
Proof. exact c4i_2_grad_ok. Qed.
Print Assumptions C22_c4i_2_grad.
Theorem C22_c4i_2_hess : c4i_2_hess_stmt.
Proof. exact c4i_2_hess_ok. Qed.
Print Assumptions C22_c4i_2_hess.
Theorem C22_c4i_2_sym : c4i_2_sym_stmt.
Proof. exact c4i_2_sym_ok. Qed.
Print Assumptions C22_c4i_2_sym.
Theorem C22_c4i_2_hom : c4i_2_hom_stmt.
Proof. exact c4i_2_hom_ok. Qed.
Print Assumptions C22_c4i_2_hom.

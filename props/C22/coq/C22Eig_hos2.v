(* C22 -- Hosford 1972, exponent a = 2, diagonal (1D) stress: proofs (written by mkeig.py from a template, committed).
   hos2_val_1 / _nrm_1 / _snd_1 are the traces of the three public functions of /repo (C22eig_gen.v, regenerated at each run).
   Route: (1) above the threshold the traced value is the documented psi = (sum |s_i - s_j|^a / 2)^(1/a) (the code normalises by the
   von Mises stress: real-power algebra);  (2) the traced normal is G_i = psi N_i / (2 T), which is the gradient of psi
   (auto_derive on the specification);  (3) the traced second derivative is the Jacobian of G (auto_derive on the specification,
   identity with the traced entries over the atoms S^(1/a), 2^(1/a), sqrt Q);  all statements hold at ties (even exponent). *)
From Coq Require Import Reals List Lra.
From Coquelicot Require Import Coquelicot.
From VLib Require Import RealExtra.
From C22 Require Import C22InvSpec C22InvTac C22InvCrit C22EigSpec C22EigTac C22eig_gen C22EigStatements.
Import ListNotations.
Local Open Scope R_scope.

Lemma Q_pos_T2 s0 s1 s2 : 0 < misesQ s0 s1 s2 -> 0 < hosT 2 s0 s1 s2.
Proof.
  unfold misesQ, hosT, hosS. intros H.
  pose proof (pow_even_nonneg (s0 - s1) 1) as A; pose proof (pow_even_nonneg (s0 - s2) 1) as B; pose proof (pow_even_nonneg (s1 - s2) 1) as C.
  simpl Nat.mul in *.
  destruct (Req_dec (s0 - s1) 0) as [E1|N1].
  - destruct (Req_dec (s0 - s2) 0) as [E2|N2].
    + exfalso. assert (E3 : s1 - s2 = 0) by lra. rewrite E1, E2, E3 in H. lra.
    + pose proof (pow_even_pos _ 1 N2). simpl Nat.mul in *. lra.
  - pose proof (pow_even_pos _ 1 N1). simpl Nat.mul in *. lra.
Qed.
Lemma mises_1_Q s0 s1 s2 : mises_1 s0 s1 s2 = sqrt (misesQ s0 s1 s2).
Proof. unfold mises_1; lazy zeta. f_equal. unfold misesQ; field. Qed.

Ltac hos := fun s0 s1 s2 HQ HT =>
  pow_atoms 2%nat (1 / 2) 2 (misesQ s0 s1 s2) (hosT 2 s0 s1 s2) (hosS 2 s0 s1 s2) ltac:(unfold misesQ) ltac:(unfold hosT)
            ltac:(unfold hosT, hosS, hosN in *) HQ HT.

(* ---- (1) and (2): value and normal of the leaves *)
Lemma hos2_val_eq s0 s1 s2 : 0 < misesQ s0 s1 s2 -> nthR (hos2_val_leaf_1 s0 s1 s2) 0 = hosPsi 2 (1 / 2) s0 s1 s2.
Proof. intro HQ. pose proof (Q_pos_T2 _ _ _ HQ) as HT. unfold hos2_val_leaf_1, hosPsi. lazy beta delta [nthR nth] iota zeta. hos s0 s1 s2 HQ HT. Qed.
Lemma hos2_nrm_eq_0 s0 s1 s2 : 0 < misesQ s0 s1 s2 -> nthR (hos2_nrm_leaf_1 s0 s1 s2) 1 = hosG 2 (1 / 2) 0 s0 s1 s2.
Proof. intro HQ. pose proof (Q_pos_T2 _ _ _ HQ) as HT. unfold hos2_nrm_leaf_1, hosG, hosPsi. lazy beta delta [nthR nth] iota zeta. hos s0 s1 s2 HQ HT. Qed.
Lemma hos2_snd_eq_0 s0 s1 s2 : 0 < misesQ s0 s1 s2 -> nthR (hos2_snd_leaf_1 s0 s1 s2) 1 = hosG 2 (1 / 2) 0 s0 s1 s2.
Proof. intro HQ. pose proof (Q_pos_T2 _ _ _ HQ) as HT. unfold hos2_snd_leaf_1, hosG, hosPsi. lazy beta delta [nthR nth] iota zeta. hos s0 s1 s2 HQ HT. Qed.
Lemma hos2_nrm_eq_1 s0 s1 s2 : 0 < misesQ s0 s1 s2 -> nthR (hos2_nrm_leaf_1 s0 s1 s2) 2 = hosG 2 (1 / 2) 1 s0 s1 s2.
Proof. intro HQ. pose proof (Q_pos_T2 _ _ _ HQ) as HT. unfold hos2_nrm_leaf_1, hosG, hosPsi. lazy beta delta [nthR nth] iota zeta. hos s0 s1 s2 HQ HT. Qed.
Lemma hos2_snd_eq_1 s0 s1 s2 : 0 < misesQ s0 s1 s2 -> nthR (hos2_snd_leaf_1 s0 s1 s2) 2 = hosG 2 (1 / 2) 1 s0 s1 s2.
Proof. intro HQ. pose proof (Q_pos_T2 _ _ _ HQ) as HT. unfold hos2_snd_leaf_1, hosG, hosPsi. lazy beta delta [nthR nth] iota zeta. hos s0 s1 s2 HQ HT. Qed.
Lemma hos2_nrm_eq_2 s0 s1 s2 : 0 < misesQ s0 s1 s2 -> nthR (hos2_nrm_leaf_1 s0 s1 s2) 3 = hosG 2 (1 / 2) 2 s0 s1 s2.
Proof. intro HQ. pose proof (Q_pos_T2 _ _ _ HQ) as HT. unfold hos2_nrm_leaf_1, hosG, hosPsi. lazy beta delta [nthR nth] iota zeta. hos s0 s1 s2 HQ HT. Qed.
Lemma hos2_snd_eq_2 s0 s1 s2 : 0 < misesQ s0 s1 s2 -> nthR (hos2_snd_leaf_1 s0 s1 s2) 3 = hosG 2 (1 / 2) 2 s0 s1 s2.
Proof. intro HQ. pose proof (Q_pos_T2 _ _ _ HQ) as HT. unfold hos2_snd_leaf_1, hosG, hosPsi. lazy beta delta [nthR nth] iota zeta. hos s0 s1 s2 HQ HT. Qed.
(* the gradient of the specification *)
Lemma hos2_specgrad_0 s0 s1 s2 : 0 < hosT 2 s0 s1 s2 ->
  is_derive (fun x => hosPsi 2 (1 / 2) x s1 s2) s0 (hosG 2 (1 / 2) 0 s0 s1 s2).
Proof.
  intro HT. unfold hosG, hosPsi, hosN, Rpower. set (T := hosT 2 s0 s1 s2) in *. unfold hosT, hosS. simpl Nat.sub.
  auto_derive; [ eapply Rlt_le_trans; [ exact HT | right; unfold T, hosT, hosS; field ] | ].
  canon_ln_u T ltac:(unfold T, hosT, hosS). generalize (exp (1 / 2 * ln T)); intro Y. unfold T, hosT, hosS in *. field. lra.
Qed.
Lemma hos2_specgrad_1 s0 s1 s2 : 0 < hosT 2 s0 s1 s2 ->
  is_derive (fun x => hosPsi 2 (1 / 2) s0 x s2) s1 (hosG 2 (1 / 2) 1 s0 s1 s2).
Proof.
  intro HT. unfold hosG, hosPsi, hosN, Rpower. set (T := hosT 2 s0 s1 s2) in *. unfold hosT, hosS. simpl Nat.sub.
  auto_derive; [ eapply Rlt_le_trans; [ exact HT | right; unfold T, hosT, hosS; field ] | ].
  canon_ln_u T ltac:(unfold T, hosT, hosS). generalize (exp (1 / 2 * ln T)); intro Y. unfold T, hosT, hosS in *. field. lra.
Qed.
Lemma hos2_specgrad_2 s0 s1 s2 : 0 < hosT 2 s0 s1 s2 ->
  is_derive (fun x => hosPsi 2 (1 / 2) s0 s1 x) s2 (hosG 2 (1 / 2) 2 s0 s1 s2).
Proof.
  intro HT. unfold hosG, hosPsi, hosN, Rpower. set (T := hosT 2 s0 s1 s2) in *. unfold hosT, hosS. simpl Nat.sub.
  auto_derive; [ eapply Rlt_le_trans; [ exact HT | right; unfold T, hosT, hosS; field ] | ].
  canon_ln_u T ltac:(unfold T, hosT, hosS). generalize (exp (1 / 2 * ln T)); intro Y. unfold T, hosT, hosS in *. field. lra.
Qed.
(* ---- (3): Jacobian of G against the traced second derivative *)
Lemma hos2_spechess_0_0 s0 s1 s2 : 0 < misesQ s0 s1 s2 ->
  is_derive (fun x => hosG 2 (1 / 2) 0 x s1 s2) s0 (nthR (hos2_snd_leaf_1 s0 s1 s2) 4).
Proof.
  intro HQ. pose proof (Q_pos_T2 _ _ _ HQ) as HT. set (rhs := nthR (hos2_snd_leaf_1 s0 s1 s2) 4).
  unfold hosG, hosPsi, hosN, hosT, hosS, Rpower. simpl Nat.sub.
  auto_derive; [ side_split; first [ (eapply Rlt_le_trans; [ exact HT | right; unfold hosT, hosS; field ])
    | (apply Rgt_not_eq; eapply Rlt_le_trans; [ exact (Rmult_lt_0_compat _ _ Rlt_0_2 HT) | right; unfold hosT, hosS; field ]) ] | ].
  canon_ln_u (hosT 2 s0 s1 s2) ltac:(unfold hosT, hosS). fold_rpower (hosT 2 s0 s1 s2).
  subst rhs. unfold hos2_snd_leaf_1. lazy beta delta [nthR nth] iota zeta. hos s0 s1 s2 HQ HT.
Qed.
Lemma hos2_spechess_0_1 s0 s1 s2 : 0 < misesQ s0 s1 s2 ->
  is_derive (fun x => hosG 2 (1 / 2) 0 s0 x s2) s1 (nthR (hos2_snd_leaf_1 s0 s1 s2) 5).
Proof.
  intro HQ. pose proof (Q_pos_T2 _ _ _ HQ) as HT. set (rhs := nthR (hos2_snd_leaf_1 s0 s1 s2) 5).
  unfold hosG, hosPsi, hosN, hosT, hosS, Rpower. simpl Nat.sub.
  auto_derive; [ side_split; first [ (eapply Rlt_le_trans; [ exact HT | right; unfold hosT, hosS; field ])
    | (apply Rgt_not_eq; eapply Rlt_le_trans; [ exact (Rmult_lt_0_compat _ _ Rlt_0_2 HT) | right; unfold hosT, hosS; field ]) ] | ].
  canon_ln_u (hosT 2 s0 s1 s2) ltac:(unfold hosT, hosS). fold_rpower (hosT 2 s0 s1 s2).
  subst rhs. unfold hos2_snd_leaf_1. lazy beta delta [nthR nth] iota zeta. hos s0 s1 s2 HQ HT.
Qed.
Lemma hos2_spechess_0_2 s0 s1 s2 : 0 < misesQ s0 s1 s2 ->
  is_derive (fun x => hosG 2 (1 / 2) 0 s0 s1 x) s2 (nthR (hos2_snd_leaf_1 s0 s1 s2) 6).
Proof.
  intro HQ. pose proof (Q_pos_T2 _ _ _ HQ) as HT. set (rhs := nthR (hos2_snd_leaf_1 s0 s1 s2) 6).
  unfold hosG, hosPsi, hosN, hosT, hosS, Rpower. simpl Nat.sub.
  auto_derive; [ side_split; first [ (eapply Rlt_le_trans; [ exact HT | right; unfold hosT, hosS; field ])
    | (apply Rgt_not_eq; eapply Rlt_le_trans; [ exact (Rmult_lt_0_compat _ _ Rlt_0_2 HT) | right; unfold hosT, hosS; field ]) ] | ].
  canon_ln_u (hosT 2 s0 s1 s2) ltac:(unfold hosT, hosS). fold_rpower (hosT 2 s0 s1 s2).
  subst rhs. unfold hos2_snd_leaf_1. lazy beta delta [nthR nth] iota zeta. hos s0 s1 s2 HQ HT.
Qed.
Lemma hos2_spechess_1_0 s0 s1 s2 : 0 < misesQ s0 s1 s2 ->
  is_derive (fun x => hosG 2 (1 / 2) 1 x s1 s2) s0 (nthR (hos2_snd_leaf_1 s0 s1 s2) 7).
Proof.
  intro HQ. pose proof (Q_pos_T2 _ _ _ HQ) as HT. set (rhs := nthR (hos2_snd_leaf_1 s0 s1 s2) 7).
  unfold hosG, hosPsi, hosN, hosT, hosS, Rpower. simpl Nat.sub.
  auto_derive; [ side_split; first [ (eapply Rlt_le_trans; [ exact HT | right; unfold hosT, hosS; field ])
    | (apply Rgt_not_eq; eapply Rlt_le_trans; [ exact (Rmult_lt_0_compat _ _ Rlt_0_2 HT) | right; unfold hosT, hosS; field ]) ] | ].
  canon_ln_u (hosT 2 s0 s1 s2) ltac:(unfold hosT, hosS). fold_rpower (hosT 2 s0 s1 s2).
  subst rhs. unfold hos2_snd_leaf_1. lazy beta delta [nthR nth] iota zeta. hos s0 s1 s2 HQ HT.
Qed.
Lemma hos2_spechess_1_1 s0 s1 s2 : 0 < misesQ s0 s1 s2 ->
  is_derive (fun x => hosG 2 (1 / 2) 1 s0 x s2) s1 (nthR (hos2_snd_leaf_1 s0 s1 s2) 8).
Proof.
  intro HQ. pose proof (Q_pos_T2 _ _ _ HQ) as HT. set (rhs := nthR (hos2_snd_leaf_1 s0 s1 s2) 8).
  unfold hosG, hosPsi, hosN, hosT, hosS, Rpower. simpl Nat.sub.
  auto_derive; [ side_split; first [ (eapply Rlt_le_trans; [ exact HT | right; unfold hosT, hosS; field ])
    | (apply Rgt_not_eq; eapply Rlt_le_trans; [ exact (Rmult_lt_0_compat _ _ Rlt_0_2 HT) | right; unfold hosT, hosS; field ]) ] | ].
  canon_ln_u (hosT 2 s0 s1 s2) ltac:(unfold hosT, hosS). fold_rpower (hosT 2 s0 s1 s2).
  subst rhs. unfold hos2_snd_leaf_1. lazy beta delta [nthR nth] iota zeta. hos s0 s1 s2 HQ HT.
Qed.
Lemma hos2_spechess_1_2 s0 s1 s2 : 0 < misesQ s0 s1 s2 ->
  is_derive (fun x => hosG 2 (1 / 2) 1 s0 s1 x) s2 (nthR (hos2_snd_leaf_1 s0 s1 s2) 9).
Proof.
  intro HQ. pose proof (Q_pos_T2 _ _ _ HQ) as HT. set (rhs := nthR (hos2_snd_leaf_1 s0 s1 s2) 9).
  unfold hosG, hosPsi, hosN, hosT, hosS, Rpower. simpl Nat.sub.
  auto_derive; [ side_split; first [ (eapply Rlt_le_trans; [ exact HT | right; unfold hosT, hosS; field ])
    | (apply Rgt_not_eq; eapply Rlt_le_trans; [ exact (Rmult_lt_0_compat _ _ Rlt_0_2 HT) | right; unfold hosT, hosS; field ]) ] | ].
  canon_ln_u (hosT 2 s0 s1 s2) ltac:(unfold hosT, hosS). fold_rpower (hosT 2 s0 s1 s2).
  subst rhs. unfold hos2_snd_leaf_1. lazy beta delta [nthR nth] iota zeta. hos s0 s1 s2 HQ HT.
Qed.
Lemma hos2_spechess_2_0 s0 s1 s2 : 0 < misesQ s0 s1 s2 ->
  is_derive (fun x => hosG 2 (1 / 2) 2 x s1 s2) s0 (nthR (hos2_snd_leaf_1 s0 s1 s2) 10).
Proof.
  intro HQ. pose proof (Q_pos_T2 _ _ _ HQ) as HT. set (rhs := nthR (hos2_snd_leaf_1 s0 s1 s2) 10).
  unfold hosG, hosPsi, hosN, hosT, hosS, Rpower. simpl Nat.sub.
  auto_derive; [ side_split; first [ (eapply Rlt_le_trans; [ exact HT | right; unfold hosT, hosS; field ])
    | (apply Rgt_not_eq; eapply Rlt_le_trans; [ exact (Rmult_lt_0_compat _ _ Rlt_0_2 HT) | right; unfold hosT, hosS; field ]) ] | ].
  canon_ln_u (hosT 2 s0 s1 s2) ltac:(unfold hosT, hosS). fold_rpower (hosT 2 s0 s1 s2).
  subst rhs. unfold hos2_snd_leaf_1. lazy beta delta [nthR nth] iota zeta. hos s0 s1 s2 HQ HT.
Qed.
Lemma hos2_spechess_2_1 s0 s1 s2 : 0 < misesQ s0 s1 s2 ->
  is_derive (fun x => hosG 2 (1 / 2) 2 s0 x s2) s1 (nthR (hos2_snd_leaf_1 s0 s1 s2) 11).
Proof.
  intro HQ. pose proof (Q_pos_T2 _ _ _ HQ) as HT. set (rhs := nthR (hos2_snd_leaf_1 s0 s1 s2) 11).
  unfold hosG, hosPsi, hosN, hosT, hosS, Rpower. simpl Nat.sub.
  auto_derive; [ side_split; first [ (eapply Rlt_le_trans; [ exact HT | right; unfold hosT, hosS; field ])
    | (apply Rgt_not_eq; eapply Rlt_le_trans; [ exact (Rmult_lt_0_compat _ _ Rlt_0_2 HT) | right; unfold hosT, hosS; field ]) ] | ].
  canon_ln_u (hosT 2 s0 s1 s2) ltac:(unfold hosT, hosS). fold_rpower (hosT 2 s0 s1 s2).
  subst rhs. unfold hos2_snd_leaf_1. lazy beta delta [nthR nth] iota zeta. hos s0 s1 s2 HQ HT.
Qed.
Lemma hos2_spechess_2_2 s0 s1 s2 : 0 < misesQ s0 s1 s2 ->
  is_derive (fun x => hosG 2 (1 / 2) 2 s0 s1 x) s2 (nthR (hos2_snd_leaf_1 s0 s1 s2) 12).
Proof.
  intro HQ. pose proof (Q_pos_T2 _ _ _ HQ) as HT. set (rhs := nthR (hos2_snd_leaf_1 s0 s1 s2) 12).
  unfold hosG, hosPsi, hosN, hosT, hosS, Rpower. simpl Nat.sub.
  auto_derive; [ side_split; first [ (eapply Rlt_le_trans; [ exact HT | right; unfold hosT, hosS; field ])
    | (apply Rgt_not_eq; eapply Rlt_le_trans; [ exact (Rmult_lt_0_compat _ _ Rlt_0_2 HT) | right; unfold hosT, hosS; field ]) ] | ].
  canon_ln_u (hosT 2 s0 s1 s2) ltac:(unfold hosT, hosS). fold_rpower (hosT 2 s0 s1 s2).
  subst rhs. unfold hos2_snd_leaf_1. lazy beta delta [nthR nth] iota zeta. hos s0 s1 s2 HQ HT.
Qed.
(* ---- from the decision trees to their leaves *)
Lemma hos2_val_at s0 s1 s2 e : e < mises_1 s0 s1 s2 -> hos2_val_1 s0 s1 s2 e = Some (hos2_val_leaf_1 s0 s1 s2).
Proof. intro H1. tree_leaf ltac:(unfold hos2_val_1, hos2_val_leaf_1) ltac:(unfold mises_1 in H1) H1. Qed.
Lemma hos2_nrm_at s0 s1 s2 e : e < mises_1 s0 s1 s2 -> hos2_nrm_1 s0 s1 s2 e = Some (hos2_nrm_leaf_1 s0 s1 s2).
Proof. intro H1. tree_leaf ltac:(unfold hos2_nrm_1, hos2_nrm_leaf_1) ltac:(unfold mises_1 in H1) H1. Qed.
Lemma hos2_snd_at s0 s1 s2 e : e < mises_1 s0 s1 s2 -> hos2_snd_1 s0 s1 s2 e = Some (hos2_snd_leaf_1 s0 s1 s2).
Proof. intro H1. tree_leaf ltac:(unfold hos2_snd_1, hos2_snd_leaf_1) ltac:(unfold mises_1 in H1) H1. Qed.
(* the two conditions (above the threshold, not hydrostatic) hold near the point, in every direction *)
Lemma hos2_near_0 s0 s1 s2 e : e < mises_1 s0 s1 s2 -> 0 < misesQ s0 s1 s2 ->
  locally s0 (fun x => e < mises_1 x s1 s2 /\ 0 < misesQ x s1 s2).
Proof.
  intros H1 HQ. apply filter_and.
  - apply (locally_gt_ex (fun x => mises_1 x s1 s2)); [ | exact H1 ]. unfold mises_1; lazy zeta. auto_derive.
    eapply Rlt_le_trans; [ exact HQ | right; unfold misesQ; field ].
  - apply (locally_gt_ex (fun x => misesQ x s1 s2)); [ | exact HQ ]. unfold misesQ. auto_derive. exact I.
Qed.
Lemma hos2_near_1 s0 s1 s2 e : e < mises_1 s0 s1 s2 -> 0 < misesQ s0 s1 s2 ->
  locally s1 (fun x => e < mises_1 s0 x s2 /\ 0 < misesQ s0 x s2).
Proof.
  intros H1 HQ. apply filter_and.
  - apply (locally_gt_ex (fun x => mises_1 s0 x s2)); [ | exact H1 ]. unfold mises_1; lazy zeta. auto_derive.
    eapply Rlt_le_trans; [ exact HQ | right; unfold misesQ; field ].
  - apply (locally_gt_ex (fun x => misesQ s0 x s2)); [ | exact HQ ]. unfold misesQ. auto_derive. exact I.
Qed.
Lemma hos2_near_2 s0 s1 s2 e : e < mises_1 s0 s1 s2 -> 0 < misesQ s0 s1 s2 ->
  locally s2 (fun x => e < mises_1 s0 s1 x /\ 0 < misesQ s0 s1 x).
Proof.
  intros H1 HQ. apply filter_and.
  - apply (locally_gt_ex (fun x => mises_1 s0 s1 x)); [ | exact H1 ]. unfold mises_1; lazy zeta. auto_derive.
    eapply Rlt_le_trans; [ exact HQ | right; unfold misesQ; field ].
  - apply (locally_gt_ex (fun x => misesQ s0 s1 x)); [ | exact HQ ]. unfold misesQ. auto_derive. exact I.
Qed.
(* ---- theorems *)
Lemma hos2_same_ok : hos2_same_stmt.
Proof.
  unfold hos2_same_stmt. intros s0 s1 s2 e H1.
  rewrite (hos2_val_at _ _ _ e H1), (hos2_nrm_at _ _ _ e H1), (hos2_snd_at _ _ _ e H1).
  unfold hos2_val_leaf_1, hos2_nrm_leaf_1, hos2_snd_leaf_1; lazy beta delta [out nthR nth] iota zeta; split; [ | split ];
  [ eexists; apply f_equal; apply f_equal2; [ expr_eq | reflexivity ]
  | eexists; apply f_equal; apply f_equal2; [ expr_eq | reflexivity ]
  | lazy beta delta [out firstn] iota; first [ reflexivity | list_eq ] ].
Qed.
Lemma hos2_value_ok : hos2_value_stmt.
Proof.
  unfold hos2_value_stmt. intros s0 s1 s2 e H1 HQ. rewrite (hos2_val_at _ _ _ e H1). unfold out. apply hos2_val_eq; exact HQ.
Qed.
Lemma hos2_grad_ok : hos2_grad_stmt.
Proof.
  unfold hos2_grad_stmt. intros s0 s1 s2 e H1 HQ. unfold is_grad; cbv [all_upto]; side_split;
  lazy beta delta [upd firstn skipn app nthR nth Nat.add] iota.
  - apply (is_derive_near _ (fun x => hosPsi 2 (1 / 2) x s1 s2)).
    + generalize (hos2_near_0 s0 s1 s2 e H1 HQ); apply filter_imp; intros x [Hx1 Hx2].
      rewrite (hos2_val_at _ _ _ e Hx1). symmetry. exact (hos2_val_eq _ _ _ Hx2).
    + rewrite (hos2_nrm_at _ _ _ e H1).
      match goal with |- is_derive _ _ ?d => replace d with (hosG 2 (1 / 2) 0 s0 s1 s2) by (symmetry; exact (hos2_nrm_eq_0 _ _ _ HQ)) end.
      exact (hos2_specgrad_0 _ _ _ (Q_pos_T2 _ _ _ HQ)).
  - apply (is_derive_near _ (fun x => hosPsi 2 (1 / 2) s0 x s2)).
    + generalize (hos2_near_1 s0 s1 s2 e H1 HQ); apply filter_imp; intros x [Hx1 Hx2].
      rewrite (hos2_val_at _ _ _ e Hx1). symmetry. exact (hos2_val_eq _ _ _ Hx2).
    + rewrite (hos2_nrm_at _ _ _ e H1).
      match goal with |- is_derive _ _ ?d => replace d with (hosG 2 (1 / 2) 1 s0 s1 s2) by (symmetry; exact (hos2_nrm_eq_1 _ _ _ HQ)) end.
      exact (hos2_specgrad_1 _ _ _ (Q_pos_T2 _ _ _ HQ)).
  - apply (is_derive_near _ (fun x => hosPsi 2 (1 / 2) s0 s1 x)).
    + generalize (hos2_near_2 s0 s1 s2 e H1 HQ); apply filter_imp; intros x [Hx1 Hx2].
      rewrite (hos2_val_at _ _ _ e Hx1). symmetry. exact (hos2_val_eq _ _ _ Hx2).
    + rewrite (hos2_nrm_at _ _ _ e H1).
      match goal with |- is_derive _ _ ?d => replace d with (hosG 2 (1 / 2) 2 s0 s1 s2) by (symmetry; exact (hos2_nrm_eq_2 _ _ _ HQ)) end.
      exact (hos2_specgrad_2 _ _ _ (Q_pos_T2 _ _ _ HQ)).
Qed.
Lemma hos2_hess_ok : hos2_hess_stmt.
Proof.
  unfold hos2_hess_stmt. intros s0 s1 s2 e H1 HQ. unfold is_hess; cbv [all_upto]; side_split;
  lazy beta delta [upd firstn skipn app nthR nth Nat.add Nat.mul] iota.
  - apply (is_derive_near _ (fun x => hosG 2 (1 / 2) 0 x s1 s2)).
    + generalize (hos2_near_0 s0 s1 s2 e H1 HQ); apply filter_imp; intros x [Hx1 Hx2].
      rewrite (hos2_snd_at _ _ _ e Hx1). symmetry. exact (hos2_snd_eq_0 _ _ _ Hx2).
    + rewrite (hos2_snd_at _ _ _ e H1). exact (hos2_spechess_0_0 _ _ _ HQ).
  - apply (is_derive_near _ (fun x => hosG 2 (1 / 2) 0 s0 x s2)).
    + generalize (hos2_near_1 s0 s1 s2 e H1 HQ); apply filter_imp; intros x [Hx1 Hx2].
      rewrite (hos2_snd_at _ _ _ e Hx1). symmetry. exact (hos2_snd_eq_0 _ _ _ Hx2).
    + rewrite (hos2_snd_at _ _ _ e H1). exact (hos2_spechess_0_1 _ _ _ HQ).
  - apply (is_derive_near _ (fun x => hosG 2 (1 / 2) 0 s0 s1 x)).
    + generalize (hos2_near_2 s0 s1 s2 e H1 HQ); apply filter_imp; intros x [Hx1 Hx2].
      rewrite (hos2_snd_at _ _ _ e Hx1). symmetry. exact (hos2_snd_eq_0 _ _ _ Hx2).
    + rewrite (hos2_snd_at _ _ _ e H1). exact (hos2_spechess_0_2 _ _ _ HQ).
  - apply (is_derive_near _ (fun x => hosG 2 (1 / 2) 1 x s1 s2)).
    + generalize (hos2_near_0 s0 s1 s2 e H1 HQ); apply filter_imp; intros x [Hx1 Hx2].
      rewrite (hos2_snd_at _ _ _ e Hx1). symmetry. exact (hos2_snd_eq_1 _ _ _ Hx2).
    + rewrite (hos2_snd_at _ _ _ e H1). exact (hos2_spechess_1_0 _ _ _ HQ).
  - apply (is_derive_near _ (fun x => hosG 2 (1 / 2) 1 s0 x s2)).
    + generalize (hos2_near_1 s0 s1 s2 e H1 HQ); apply filter_imp; intros x [Hx1 Hx2].
      rewrite (hos2_snd_at _ _ _ e Hx1). symmetry. exact (hos2_snd_eq_1 _ _ _ Hx2).
    + rewrite (hos2_snd_at _ _ _ e H1). exact (hos2_spechess_1_1 _ _ _ HQ).
  - apply (is_derive_near _ (fun x => hosG 2 (1 / 2) 1 s0 s1 x)).
    + generalize (hos2_near_2 s0 s1 s2 e H1 HQ); apply filter_imp; intros x [Hx1 Hx2].
      rewrite (hos2_snd_at _ _ _ e Hx1). symmetry. exact (hos2_snd_eq_1 _ _ _ Hx2).
    + rewrite (hos2_snd_at _ _ _ e H1). exact (hos2_spechess_1_2 _ _ _ HQ).
  - apply (is_derive_near _ (fun x => hosG 2 (1 / 2) 2 x s1 s2)).
    + generalize (hos2_near_0 s0 s1 s2 e H1 HQ); apply filter_imp; intros x [Hx1 Hx2].
      rewrite (hos2_snd_at _ _ _ e Hx1). symmetry. exact (hos2_snd_eq_2 _ _ _ Hx2).
    + rewrite (hos2_snd_at _ _ _ e H1). exact (hos2_spechess_2_0 _ _ _ HQ).
  - apply (is_derive_near _ (fun x => hosG 2 (1 / 2) 2 s0 x s2)).
    + generalize (hos2_near_1 s0 s1 s2 e H1 HQ); apply filter_imp; intros x [Hx1 Hx2].
      rewrite (hos2_snd_at _ _ _ e Hx1). symmetry. exact (hos2_snd_eq_2 _ _ _ Hx2).
    + rewrite (hos2_snd_at _ _ _ e H1). exact (hos2_spechess_2_1 _ _ _ HQ).
  - apply (is_derive_near _ (fun x => hosG 2 (1 / 2) 2 s0 s1 x)).
    + generalize (hos2_near_2 s0 s1 s2 e H1 HQ); apply filter_imp; intros x [Hx1 Hx2].
      rewrite (hos2_snd_at _ _ _ e Hx1). symmetry. exact (hos2_snd_eq_2 _ _ _ Hx2).
    + rewrite (hos2_snd_at _ _ _ e H1). exact (hos2_spechess_2_2 _ _ _ HQ).
Qed.
Lemma hos2_sym_ok : hos2_sym_stmt.
Proof.
  unfold hos2_sym_stmt. intros s0 s1 s2 e H1. rewrite (hos2_snd_at _ _ _ e H1).
  unfold is_sym; cbv [all_upto]; side_split; lazy beta delta [out hos2_snd_leaf_1 nthR nth Nat.add Nat.mul] iota zeta;
  first [ reflexivity | ring ].
Qed.
Lemma hos2_hom_ok : hos2_hom_stmt.
Proof.
  unfold hos2_hom_stmt. intros s0 s1 s2 e t Ht H1 H1t HQ.
  assert (HQt : 0 < misesQ (t * s0) (t * s1) (t * s2)).
  { replace (misesQ (t * s0) (t * s1) (t * s2)) with (t * t * misesQ s0 s1 s2) by (unfold misesQ; field).
    apply Rmult_lt_0_compat; [ apply Rmult_lt_0_compat; exact Ht | exact HQ ]. }
  rewrite (hos2_val_at _ _ _ e H1), (hos2_val_at _ _ _ e H1t). unfold out.
  rewrite (hos2_val_eq _ _ _ HQ), (hos2_val_eq _ _ _ HQt). unfold hosPsi.
  replace (hosT 2 (t * s0) (t * s1) (t * s2)) with (t ^ 2 * hosT 2 s0 s1 s2) by (unfold hosT, hosS; field).
  apply Rpower_scale_pow; [ auto with arith | simpl; field | exact Ht | exact (Q_pos_T2 _ _ _ HQ) ].
Qed.
(* Hosford with a = 2 is the von Mises stress *)
Lemma hos2_mises_ok : hos2_mises_stmt.
Proof.
  unfold hos2_mises_stmt. intros s0 s1 s2 e H1 HQ. rewrite (hos2_val_at _ _ _ e H1). unfold out. rewrite (hos2_val_eq _ _ _ HQ).
  rewrite mises_1_Q. unfold hosPsi. replace (hosT 2 s0 s1 s2) with (misesQ s0 s1 s2) by (unfold hosT, hosS, misesQ; reflexivity).
  replace (1 / 2) with (/ 2) by field. apply Rpower_sqrt. exact HQ.
Qed.

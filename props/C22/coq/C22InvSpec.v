(* C22 -- invariant-based criteria: what "the normal is the gradient of the value" and "the second derivative is the Jacobian
   of the normal" mean, independently of any code, plus the few analysis lemmas needed to go from a decision tree to its leaf.
   A criterion is observed through list-valued functions of the stress components p (TFEL's orthonormal components):
     val p : R,   nrm p = [seq; n_0 .. n_{m-1}],   snd p = [seq; n_0 .. n_{m-1}; dn_00 dn_01 .. dn_{m-1,m-1}] (row major). *)
From Coq Require Import Reals List Lra.
From Coquelicot Require Import Coquelicot.
From VLib Require Import RealExtra.
Import ListNotations.
Local Open Scope R_scope.

(* p with its j-th component replaced by x *)
Definition upd (p : list R) (j : nat) (x : R) : list R := firstn j p ++ x :: skipn (S j) p.

Fixpoint all_upto (n : nat) (P : nat -> Prop) : Prop :=
  match n with O => True | S k => all_upto k P /\ P k end.

Lemma all_upto_spec n P : all_upto n P <-> forall k, (k < n)%nat -> P k.
Proof.
  induction n as [|n IH]; simpl.
  - split; [intros _ k Hk; inversion Hk | trivial].
  - rewrite IH. split.
    + intros [H1 H2] k Hk. inversion Hk; subst; auto.
    + intros H. split; auto.
Qed.

Definition out (o : option (list R)) : list R := match o with Some l => l | None => [] end.

(* the normal returned at p (entries 1..m of nrm p) is the gradient at p of the function val *)
Definition is_grad (m : nat) (val : list R -> R) (nrm : list R -> list R) (p : list R) : Prop :=
  all_upto m (fun j => is_derive (fun x => val (upd p j x)) (nthR p j) (nthR (nrm p) (1 + j))).

(* the second derivative returned at p (entries 1+m.. of snd p) is the Jacobian at p of the normal returned by the same
   function (entries 1..m of snd) *)
Definition is_hess (m : nat) (snd : list R -> list R) (p : list R) : Prop :=
  all_upto m (fun i => all_upto m (fun j =>
    is_derive (fun x => nthR (snd (upd p j x)) (1 + i)) (nthR p j) (nthR (snd p) (1 + m + i * m + j)))).

Lemma is_grad_spec m val nrm p :
  is_grad m val nrm p <-> forall j, (j < m)%nat -> is_derive (fun x => val (upd p j x)) (nthR p j) (nthR (nrm p) (1 + j)).
Proof. unfold is_grad. apply all_upto_spec. Qed.
Lemma is_hess_spec m snd p :
  is_hess m snd p <-> forall i j, (i < m)%nat -> (j < m)%nat ->
    is_derive (fun x => nthR (snd (upd p j x)) (1 + i)) (nthR p j) (nthR (snd p) (1 + m + i * m + j)).
Proof.
  unfold is_hess. rewrite all_upto_spec. split.
  - intros H i j Hi Hj. specialize (H i Hi). rewrite all_upto_spec in H. auto.
  - intros H i Hi. rewrite all_upto_spec. auto.
Qed.

(* the returned second derivative is a symmetric matrix *)
Definition is_sym (m : nat) (l : list R) : Prop :=
  all_upto m (fun i => all_upto m (fun j => nthR l (1 + m + i * m + j) = nthR l (1 + m + j * m + i))).

(* ---- the scalar functions of the invariants, as documented *)
(* Drucker 1949 / Cazacu 2001: seq = sqrt3 (J2^3 - c J3^2)^(1/6) *)
Definition S6_of (J2 J3 c : R) : R := J2 * J2 * J2 - c * (J3 * J3).
(* Cazacu 2004: seq = (J2^(3/2) - c J3)^(1/3) *)
Definition A4_of (J2 J3 c : R) : R := sqrt J2 * sqrt J2 * sqrt J2 - c * J3.

(* ---- analysis: an inequality satisfied at x0 by a function derivable at x0 is satisfied near x0 *)
Lemma locally_gt_derivable (f : R -> R) (x0 a d : R) : is_derive f x0 d -> a < f x0 -> locally x0 (fun x => a < f x).
Proof.
  intros Hd Ha.
  assert (C : continuous f x0) by (apply (ex_derive_continuous f x0); exists d; exact Hd).
  apply (C (fun y => a < y)). apply (open_gt a (f x0)). exact Ha.
Qed.
Lemma locally_lt_derivable (f : R -> R) (x0 a d : R) : is_derive f x0 d -> f x0 < a -> locally x0 (fun x => f x < a).
Proof.
  intros Hd Ha.
  assert (C : continuous f x0) by (apply (ex_derive_continuous f x0); exists d; exact Hd).
  apply (C (fun y => y < a)). apply (open_lt a (f x0)). exact Ha.
Qed.
Lemma locally_gt_ex (f : R -> R) (x0 a : R) : ex_derive f x0 -> a < f x0 -> locally x0 (fun x => a < f x).
Proof. intros [d Hd]. exact (locally_gt_derivable f x0 a d Hd). Qed.
(* a function that coincides near x0 with a function derivable at x0 *)
Lemma is_derive_near (f g : R -> R) (x0 l : R) : locally x0 (fun x => g x = f x) -> is_derive g x0 l -> is_derive f x0 l.
Proof. intros H Hg. exact (is_derive_ext_loc g f x0 l H Hg). Qed.

(* ---- the real cube root is derivable on (0, +oo) *)
Lemma is_derive_Rcbrt (y : R) : 0 < y -> is_derive Rcbrt y (/ (3 * (Rcbrt y * Rcbrt y))).
Proof.
  intros Hy.
  apply (is_derive_near Rcbrt (fun t => exp (/ 3 * ln t))).
  - apply (locally_gt_derivable (fun t => t) y 0 1) in Hy; [| auto_derive; [exact I | ring]].
    revert Hy. apply filter_imp. intros t Ht. unfold Rcbrt. destruct (Rlt_dec 0 t); [reflexivity | lra].
  - auto_derive; [exact Hy |].
    assert (E : Rcbrt y = exp (/ 3 * ln y)) by (unfold Rcbrt; destruct (Rlt_dec 0 y); [reflexivity | lra]).
    rewrite E. pose proof (Rpower_third_cube y Hy) as C. unfold Rpower in C.
    pose proof (exp_pos (/ 3 * ln y)) as P. set (q := exp (/ 3 * ln y)) in *.
    rewrite <- C at 1. field. lra.
Qed.
Lemma Rcbrt_pos_gt (y : R) : 0 < Rcbrt y -> 0 < y.
Proof.
  intros H. destruct (Rlt_dec 0 y) as [|N]; [assumption | exfalso].
  unfold Rcbrt in H. destruct (Rlt_dec 0 y); [contradiction |].
  destruct (Rlt_dec y 0); [| lra]. pose proof (exp_pos (/ 3 * ln (- y))). unfold Rpower in H. lra.
Qed.

(* ---- scaling laws used for the degree-one homogeneity *)
Lemma Rpower_scale6 (t b : R) : 0 < t -> 0 < b -> Rpower (t * t * t * t * t * t * b) (1 / 6) = t * Rpower b (1 / 6).
Proof.
  intros Ht Hb.
  assert (H3 : 0 < t * t * t) by (apply Rmult_lt_0_compat; [apply Rmult_lt_0_compat |]; assumption).
  assert (H6 : 0 < t * t * t * t * t * t) by (replace (t * t * t * t * t * t) with ((t * t * t) * (t * t * t)) by ring; apply Rmult_lt_0_compat; assumption).
  rewrite <- Rpower_mult_distr by assumption. f_equal.
  replace (t * t * t * t * t * t) with (Rpower t 6).
  - rewrite Rpower_mult. replace (6 * (1 / 6)) with 1 by field. apply Rpower_1; assumption.
  - replace 6 with (INR 6) by (simpl; ring). rewrite Rpower_pow by assumption. simpl; ring.
Qed.
Lemma Rcbrt_scale3 (t b : R) : 0 < t -> 0 < b -> Rcbrt (t * t * t * b) = t * Rcbrt b.
Proof.
  intros Ht Hb.
  assert (H3 : 0 < t * t * t) by (apply Rmult_lt_0_compat; [apply Rmult_lt_0_compat |]; assumption).
  assert (Hp : 0 < t * t * t * b) by (apply Rmult_lt_0_compat; assumption).
  unfold Rcbrt. destruct (Rlt_dec 0 (t * t * t * b)); [| contradiction]. destruct (Rlt_dec 0 b); [| contradiction].
  rewrite <- Rpower_mult_distr by assumption. f_equal.
  replace (t * t * t) with (Rpower t 3).
  - rewrite Rpower_mult. replace (3 * / 3) with 1 by field. apply Rpower_1; assumption.
  - replace 3 with (INR 3) by (simpl; ring). rewrite Rpower_pow by assumption. simpl; ring.
Qed.
Lemma sqrt_scale2 (t b : R) : 0 < t -> 0 <= b -> sqrt (t * t * b) = t * sqrt b.
Proof.
  intros Ht Hb. rewrite sqrt_mult; [| nra | assumption]. rewrite sqrt_square; lra.
Qed.

(* C22 -- Barlat 2004, a = 6: Phi(vp1, vp2, seq) and its derivatives with respect to the eigenvalues: property theorems *)
From Coq Require Import Reals List Lra.
From Coquelicot Require Import Coquelicot.
From VLib Require Import RealExtra.
From C22 Require Import C22InvSpec C22EigSpec C22eig_gen C22EigStatements C22Eig_barS6.
Import ListNotations.
Local Open Scope R_scope.

Theorem C22_barlat6_value : barS6_value_stmt.
Proof. exact barS6_value_ok. Qed.
Print Assumptions C22_barlat6_value.
Theorem C22_barlat6_noq : barS6_noq_stmt.
Proof. exact barS6_noq_ok. Qed.
Print Assumptions C22_barlat6_noq.
Theorem C22_barlat6_grad : barS6_grad_stmt.
Proof. exact barS6_grad_ok. Qed.
Print Assumptions C22_barlat6_grad.
Theorem C22_barlat6_hess : barS6_hess_stmt.
Proof. exact barS6_hess_ok. Qed.
Print Assumptions C22_barlat6_hess.
Theorem C22_barlat6_hosford : barS6_hosford_stmt.
Proof. exact barS6_hosford_ok. Qed.
Print Assumptions C22_barlat6_hosford.

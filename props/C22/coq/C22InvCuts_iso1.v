(* C22 -- the cut quantities are polynomials whose derivatives are the next cut quantities (written by mkcoq.py).
   iso: d(s|s)/ds_j = 2 dev_j, dJ3/ds_j = b_j (computeJ3Derivative), db_i/ds_j = h_ij (computeJ3SecondDerivative);
   ort: dJ2O/ds_j = p_j, dp_i/ds_j = q_ij, dJ3O/ds_j = r_j, dr_i/ds_j = t_ij (computeJ2O/J3O[Second]Derivative). *)
From Coq Require Import Reals List Lra.
From Coquelicot Require Import Coquelicot.
From VLib Require Import RealExtra.
From C22 Require Import C22InvSpec C22InvTac C22inv_gen.
Import ListNotations.
Local Open Scope R_scope.

Lemma iso1_dss_0 s0 s1 s2 : is_derive (fun x => (iso_ss_1 x s1 s2)) s0 (2 * (s0 - (s0 + s1 + s2) / 3)).
Proof. unfold iso_ss_1. cutder. Qed.
Lemma iso1_dj3_0 s0 s1 s2 : is_derive (fun x => (iso_j3_1 x s1 s2)) s0 (iso_b0_1 s0 s1 s2).
Proof. unfold iso_b0_1, iso_j3_1. cutder. Qed.
Lemma iso1_db0_0 s0 s1 s2 : is_derive (fun x => (iso_b0_1 x s1 s2)) s0 (iso_h00_1 s0 s1 s2).
Proof. unfold iso_b0_1, iso_h00_1. cutder. Qed.
Lemma iso1_db1_0 s0 s1 s2 : is_derive (fun x => (iso_b1_1 x s1 s2)) s0 (iso_h10_1 s0 s1 s2).
Proof. unfold iso_b1_1, iso_h10_1. cutder. Qed.
Lemma iso1_db2_0 s0 s1 s2 : is_derive (fun x => (iso_b2_1 x s1 s2)) s0 (iso_h20_1 s0 s1 s2).
Proof. unfold iso_b2_1, iso_h20_1. cutder. Qed.
Lemma iso1_dss_1 s0 s1 s2 : is_derive (fun x => (iso_ss_1 s0 x s2)) s1 (2 * (s1 - (s0 + s1 + s2) / 3)).
Proof. unfold iso_ss_1. cutder. Qed.
Lemma iso1_dj3_1 s0 s1 s2 : is_derive (fun x => (iso_j3_1 s0 x s2)) s1 (iso_b1_1 s0 s1 s2).
Proof. unfold iso_b1_1, iso_j3_1. cutder. Qed.
Lemma iso1_db0_1 s0 s1 s2 : is_derive (fun x => (iso_b0_1 s0 x s2)) s1 (iso_h01_1 s0 s1 s2).
Proof. unfold iso_b0_1, iso_h01_1. cutder. Qed.
Lemma iso1_db1_1 s0 s1 s2 : is_derive (fun x => (iso_b1_1 s0 x s2)) s1 (iso_h11_1 s0 s1 s2).
Proof. unfold iso_b1_1, iso_h11_1. cutder. Qed.
Lemma iso1_db2_1 s0 s1 s2 : is_derive (fun x => (iso_b2_1 s0 x s2)) s1 (iso_h21_1 s0 s1 s2).
Proof. unfold iso_b2_1, iso_h21_1. cutder. Qed.
Lemma iso1_dss_2 s0 s1 s2 : is_derive (fun x => (iso_ss_1 s0 s1 x)) s2 (2 * (s2 - (s0 + s1 + s2) / 3)).
Proof. unfold iso_ss_1. cutder. Qed.
Lemma iso1_dj3_2 s0 s1 s2 : is_derive (fun x => (iso_j3_1 s0 s1 x)) s2 (iso_b2_1 s0 s1 s2).
Proof. unfold iso_b2_1, iso_j3_1. cutder. Qed.
Lemma iso1_db0_2 s0 s1 s2 : is_derive (fun x => (iso_b0_1 s0 s1 x)) s2 (iso_h02_1 s0 s1 s2).
Proof. unfold iso_b0_1, iso_h02_1. cutder. Qed.
Lemma iso1_db1_2 s0 s1 s2 : is_derive (fun x => (iso_b1_1 s0 s1 x)) s2 (iso_h12_1 s0 s1 s2).
Proof. unfold iso_b1_1, iso_h12_1. cutder. Qed.
Lemma iso1_db2_2 s0 s1 s2 : is_derive (fun x => (iso_b2_1 s0 s1 x)) s2 (iso_h22_1 s0 s1 s2).
Proof. unfold iso_b2_1, iso_h22_1. cutder. Qed.

(* C22 -- statements for the eigen-based criteria (written by mkeig.py, committed). *)
From Coq Require Import Reals List Lra.
From Coquelicot Require Import Coquelicot.
From VLib Require Import RealExtra.
From C22 Require Import C22InvSpec C22EigSpec C22eig_gen.
Import ListNotations.
Local Open Scope R_scope.

(* ---- Hosford, a = 2; hypotheses: above the threshold (e < von Mises stress), not hydrostatic *)
Definition hos2_same_stmt : Prop :=
  forall s0 s1 s2 e : R, e < mises_1 s0 s1 s2 ->
    (exists l, hos2_nrm_1 s0 s1 s2 e = Some (nthR (out (hos2_val_1 s0 s1 s2 e)) 0 :: l)) /\
    (exists l, hos2_snd_1 s0 s1 s2 e = Some (nthR (out (hos2_val_1 s0 s1 s2 e)) 0 :: l)) /\
    firstn 4 (out (hos2_snd_1 s0 s1 s2 e)) = out (hos2_nrm_1 s0 s1 s2 e).
Definition hos2_value_stmt : Prop :=
  forall s0 s1 s2 e : R, e < mises_1 s0 s1 s2 -> 0 < misesQ s0 s1 s2 ->
    nthR (out (hos2_val_1 s0 s1 s2 e)) 0 = hosPsi 2 (1 / 2) s0 s1 s2.
Definition hos2_grad_stmt : Prop :=
  forall s0 s1 s2 e : R, e < mises_1 s0 s1 s2 -> 0 < misesQ s0 s1 s2 ->
    is_grad 3 (fun p => nthR (out (hos2_val_1 (nthR p 0) (nthR p 1) (nthR p 2) e)) 0) (fun p => out (hos2_nrm_1 (nthR p 0) (nthR p 1) (nthR p 2) e)) [s0; s1; s2].
Definition hos2_hess_stmt : Prop :=
  forall s0 s1 s2 e : R, e < mises_1 s0 s1 s2 -> 0 < misesQ s0 s1 s2 ->
    is_hess 3 (fun p => out (hos2_snd_1 (nthR p 0) (nthR p 1) (nthR p 2) e)) [s0; s1; s2].
Definition hos2_sym_stmt : Prop :=
  forall s0 s1 s2 e : R, e < mises_1 s0 s1 s2 -> is_sym 3 (out (hos2_snd_1 s0 s1 s2 e)).
Definition hos2_hom_stmt : Prop :=
  forall s0 s1 s2 e t : R, 0 < t -> e < mises_1 s0 s1 s2 -> e < mises_1 (t * s0) (t * s1) (t * s2) -> 0 < misesQ s0 s1 s2 ->
    nthR (out (hos2_val_1 (t * s0) (t * s1) (t * s2) e)) 0 = t * nthR (out (hos2_val_1 s0 s1 s2 e)) 0.
Definition hos2_mises_stmt : Prop :=
  forall s0 s1 s2 e : R, e < mises_1 s0 s1 s2 -> 0 < misesQ s0 s1 s2 ->
    nthR (out (hos2_val_1 s0 s1 s2 e)) 0 = mises_1 s0 s1 s2.

(* ---- Hosford, a = 6; hypotheses: above the threshold (e < von Mises stress), not hydrostatic *)
Definition hos6_same_stmt : Prop :=
  forall s0 s1 s2 e : R, e < mises_1 s0 s1 s2 ->
    (exists l, hos6_nrm_1 s0 s1 s2 e = Some (nthR (out (hos6_val_1 s0 s1 s2 e)) 0 :: l)) /\
    (exists l, hos6_snd_1 s0 s1 s2 e = Some (nthR (out (hos6_val_1 s0 s1 s2 e)) 0 :: l)) /\
    firstn 4 (out (hos6_snd_1 s0 s1 s2 e)) = out (hos6_nrm_1 s0 s1 s2 e).
Definition hos6_value_stmt : Prop :=
  forall s0 s1 s2 e : R, e < mises_1 s0 s1 s2 -> 0 < misesQ s0 s1 s2 ->
    nthR (out (hos6_val_1 s0 s1 s2 e)) 0 = hosPsi 6 (1 / 6) s0 s1 s2.
Definition hos6_grad_stmt : Prop :=
  forall s0 s1 s2 e : R, e < mises_1 s0 s1 s2 -> 0 < misesQ s0 s1 s2 ->
    is_grad 3 (fun p => nthR (out (hos6_val_1 (nthR p 0) (nthR p 1) (nthR p 2) e)) 0) (fun p => out (hos6_nrm_1 (nthR p 0) (nthR p 1) (nthR p 2) e)) [s0; s1; s2].
Definition hos6_hess_stmt : Prop :=
  forall s0 s1 s2 e : R, e < mises_1 s0 s1 s2 -> 0 < misesQ s0 s1 s2 ->
    is_hess 3 (fun p => out (hos6_snd_1 (nthR p 0) (nthR p 1) (nthR p 2) e)) [s0; s1; s2].
Definition hos6_sym_stmt : Prop :=
  forall s0 s1 s2 e : R, e < mises_1 s0 s1 s2 -> is_sym 3 (out (hos6_snd_1 s0 s1 s2 e)).
Definition hos6_hom_stmt : Prop :=
  forall s0 s1 s2 e t : R, 0 < t -> e < mises_1 s0 s1 s2 -> e < mises_1 (t * s0) (t * s1) (t * s2) -> 0 < misesQ s0 s1 s2 ->
    nthR (out (hos6_val_1 (t * s0) (t * s1) (t * s2) e)) 0 = t * nthR (out (hos6_val_1 s0 s1 s2 e)) 0.

(* ---- Hosford, a = 8; hypotheses: above the threshold (e < von Mises stress), not hydrostatic *)
Definition hos8_same_stmt : Prop :=
  forall s0 s1 s2 e : R, e < mises_1 s0 s1 s2 ->
    (exists l, hos8_nrm_1 s0 s1 s2 e = Some (nthR (out (hos8_val_1 s0 s1 s2 e)) 0 :: l)) /\
    (exists l, hos8_snd_1 s0 s1 s2 e = Some (nthR (out (hos8_val_1 s0 s1 s2 e)) 0 :: l)) /\
    firstn 4 (out (hos8_snd_1 s0 s1 s2 e)) = out (hos8_nrm_1 s0 s1 s2 e).
Definition hos8_value_stmt : Prop :=
  forall s0 s1 s2 e : R, e < mises_1 s0 s1 s2 -> 0 < misesQ s0 s1 s2 ->
    nthR (out (hos8_val_1 s0 s1 s2 e)) 0 = hosPsi 8 (1 / 8) s0 s1 s2.
Definition hos8_grad_stmt : Prop :=
  forall s0 s1 s2 e : R, e < mises_1 s0 s1 s2 -> 0 < misesQ s0 s1 s2 ->
    is_grad 3 (fun p => nthR (out (hos8_val_1 (nthR p 0) (nthR p 1) (nthR p 2) e)) 0) (fun p => out (hos8_nrm_1 (nthR p 0) (nthR p 1) (nthR p 2) e)) [s0; s1; s2].
Definition hos8_hess_stmt : Prop :=
  forall s0 s1 s2 e : R, e < mises_1 s0 s1 s2 -> 0 < misesQ s0 s1 s2 ->
    is_hess 3 (fun p => out (hos8_snd_1 (nthR p 0) (nthR p 1) (nthR p 2) e)) [s0; s1; s2].
Definition hos8_sym_stmt : Prop :=
  forall s0 s1 s2 e : R, e < mises_1 s0 s1 s2 -> is_sym 3 (out (hos8_snd_1 s0 s1 s2 e)).
Definition hos8_hom_stmt : Prop :=
  forall s0 s1 s2 e t : R, 0 < t -> e < mises_1 s0 s1 s2 -> e < mises_1 (t * s0) (t * s1) (t * s2) -> 0 < misesQ s0 s1 s2 ->
    nthR (out (hos8_val_1 (t * s0) (t * s1) (t * s2) e)) 0 = t * nthR (out (hos8_val_1 s0 s1 s2 e)) 0.

(* ---- Barlat: Phi(vp1, vp2, seq) = barS<a>, output layout [Phi; dPhi/du (3); dPhi/dw (3); d2/dudu (00 11 22 01 02 12); d2/dwdw (6); d2/dudw (3x3)] *)
Definition bar_sidx (i j : nat) : nat := if Nat.eqb i j then i else (Nat.min i j + Nat.max i j + 2)%nat.
Definition bar_hidx (k l : nat) : nat :=
  if Nat.ltb k 3 then (if Nat.ltb l 3 then 7 + bar_sidx k l else 19 + 3 * k + (l - 3))%nat
  else (if Nat.ltb l 3 then 19 + 3 * l + (k - 3) else 13 + bar_sidx (k - 3) (l - 3))%nat.
Definition barS6_value_stmt : Prop :=
  forall u0 u1 u2 w0 w1 w2 q : R, 0 < q -> 0 < barT 6 u0 u1 u2 w0 w1 w2 -> nthR (barS6 u0 u1 u2 w0 w1 w2 q) 0 = barPhi 6 (1 / 6) u0 u1 u2 w0 w1 w2.
Definition barS6_noq_stmt : Prop :=
  forall u0 u1 u2 w0 w1 w2 q : R, 0 < q -> 0 < barT 6 u0 u1 u2 w0 w1 w2 -> is_derive (fun x => nthR (barS6 u0 u1 u2 w0 w1 w2 x) 0) q 0.
Definition barS6_grad_stmt : Prop :=
  forall u0 u1 u2 w0 w1 w2 q : R, 0 < q -> 0 < barT 6 u0 u1 u2 w0 w1 w2 ->
    all_upto 6 (fun l => is_derive (fun x => nthR ((fun p => barS6 (nthR p 0) (nthR p 1) (nthR p 2) (nthR p 3) (nthR p 4) (nthR p 5) q) (upd [u0; u1; u2; w0; w1; w2] l x)) 0) (nthR [u0; u1; u2; w0; w1; w2] l) (nthR (barS6 u0 u1 u2 w0 w1 w2 q) (1 + l))).
Definition barS6_hess_stmt : Prop :=
  forall u0 u1 u2 w0 w1 w2 q : R, 0 < q -> 0 < barT 6 u0 u1 u2 w0 w1 w2 ->
    all_upto 6 (fun k => all_upto 6 (fun l =>
      is_derive (fun x => nthR ((fun p => barS6 (nthR p 0) (nthR p 1) (nthR p 2) (nthR p 3) (nthR p 4) (nthR p 5) q) (upd [u0; u1; u2; w0; w1; w2] l x)) (1 + k)) (nthR [u0; u1; u2; w0; w1; w2] l) (nthR (barS6 u0 u1 u2 w0 w1 w2 q) (bar_hidx k l)))).
Definition barS6_hosford_stmt : Prop :=
  forall u0 u1 u2 q : R, 0 < q -> 0 < hosT 6 u0 u1 u2 ->
    nthR (barS6 u0 u1 u2 u0 u1 u2 q) 0 = hosPsi 6 (1 / 6) u0 u1 u2.

(* C22 -- statements for the eigen-based criteria (written by mkeig.py, committed). *)
From Coq Require Import Reals List Lra.
From Coquelicot Require Import Coquelicot.
From VLib Require Import RealExtra.
From C22 Require Import C22InvSpec C22EigSpec C22eig_gen.
Import ListNotations.
Local Open Scope R_scope.

(* ---- Hosford, a = 2; hypotheses: above the threshold (e < von Mises stress), not hydrostatic *)
Definition hos2_same_stmt : Prop :=
  forall s0 s1 s2 e : R, e < mises_1 s0 s1 s2 ->
    (exists l, hos2_nrm_1 s0 s1 s2 e = Some (nthR (out (hos2_val_1 s0 s1 s2 e)) 0 :: l)) /\
    (exists l, hos2_snd_1 s0 s1 s2 e = Some (nthR (out (hos2_val_1 s0 s1 s2 e)) 0 :: l)) /\
    firstn 4 (out (hos2_snd_1 s0 s1 s2 e)) = out (hos2_nrm_1 s0 s1 s2 e).
Definition hos2_value_stmt : Prop :=
  forall s0 s1 s2 e : R, e < mises_1 s0 s1 s2 -> 0 < misesQ s0 s1 s2 ->
    nthR (out (hos2_val_1 s0 s1 s2 e)) 0 = hosPsi 2 (1 / 2) s0 s1 s2.
Definition hos2_grad_stmt : Prop :=
  forall s0 s1 s2 e : R, e < mises_1 s0 s1 s2 -> 0 < misesQ s0 s1 s2 ->
    is_grad 3 (fun p => nthR (out (hos2_val_1 (nthR p 0) (nthR p 1) (nthR p 2) e)) 0) (fun p => out (hos2_nrm_1 (nthR p 0) (nthR p 1) (nthR p 2) e)) [s0; s1; s2].
Definition hos2_hess_stmt : Prop :=
  forall s0 s1 s2 e : R, e < mises_1 s0 s1 s2 -> 0 < misesQ s0 s1 s2 ->
    is_hess 3 (fun p => out (hos2_snd_1 (nthR p 0) (nthR p 1) (nthR p 2) e)) [s0; s1; s2].
Definition hos2_sym_stmt : Prop :=
  forall s0 s1 s2 e : R, e < mises_1 s0 s1 s2 -> is_sym 3 (out (hos2_snd_1 s0 s1 s2 e)).
Definition hos2_hom_stmt : Prop :=
  forall s0 s1 s2 e t : R, 0 < t -> e < mises_1 s0 s1 s2 -> e < mises_1 (t * s0) (t * s1) (t * s2) -> 0 < misesQ s0 s1 s2 ->
    nthR (out (hos2_val_1 (t * s0) (t * s1) (t * s2) e)) 0 = t * nthR (out (hos2_val_1 s0 s1 s2 e)) 0.
(* Barlat with the deviatoric projector as both transformations: same value, normal (entries 0..3), second derivative (0..12) *)
Definition bar2_hosford_stmt : Prop :=
  forall s0 s1 s2 e : R, e < mises_1 s0 s1 s2 -> 0 < misesQ s0 s1 s2 ->
    all_upto 1 (fun k => nthR (out (bar2_val_1 s0 s1 s2 e)) k = nthR (out (hos2_val_1 s0 s1 s2 e)) k) /\
    all_upto 4 (fun k => nthR (out (bar2_nrm_1 s0 s1 s2 e)) k = nthR (out (hos2_nrm_1 s0 s1 s2 e)) k) /\
    all_upto 13 (fun k => nthR (out (bar2_snd_1 s0 s1 s2 e)) k = nthR (out (hos2_snd_1 s0 s1 s2 e)) k).
Definition hos2_mises_stmt : Prop :=
  forall s0 s1 s2 e : R, e < mises_1 s0 s1 s2 -> 0 < misesQ s0 s1 s2 ->
    nthR (out (hos2_val_1 s0 s1 s2 e)) 0 = mises_1 s0 s1 s2.

(* ---- Hosford, a = 6; hypotheses: above the threshold (e < von Mises stress), not hydrostatic *)
Definition hos6_same_stmt : Prop :=
  forall s0 s1 s2 e : R, e < mises_1 s0 s1 s2 ->
    (exists l, hos6_nrm_1 s0 s1 s2 e = Some (nthR (out (hos6_val_1 s0 s1 s2 e)) 0 :: l)) /\
    (exists l, hos6_snd_1 s0 s1 s2 e = Some (nthR (out (hos6_val_1 s0 s1 s2 e)) 0 :: l)) /\
    firstn 4 (out (hos6_snd_1 s0 s1 s2 e)) = out (hos6_nrm_1 s0 s1 s2 e).
Definition hos6_value_stmt : Prop :=
  forall s0 s1 s2 e : R, e < mises_1 s0 s1 s2 -> 0 < misesQ s0 s1 s2 ->
    nthR (out (hos6_val_1 s0 s1 s2 e)) 0 = hosPsi 6 (1 / 6) s0 s1 s2.
Definition hos6_grad_stmt : Prop :=
  forall s0 s1 s2 e : R, e < mises_1 s0 s1 s2 -> 0 < misesQ s0 s1 s2 ->
    is_grad 3 (fun p => nthR (out (hos6_val_1 (nthR p 0) (nthR p 1) (nthR p 2) e)) 0) (fun p => out (hos6_nrm_1 (nthR p 0) (nthR p 1) (nthR p 2) e)) [s0; s1; s2].
Definition hos6_hess_stmt : Prop :=
  forall s0 s1 s2 e : R, e < mises_1 s0 s1 s2 -> 0 < misesQ s0 s1 s2 ->
    is_hess 3 (fun p => out (hos6_snd_1 (nthR p 0) (nthR p 1) (nthR p 2) e)) [s0; s1; s2].
Definition hos6_sym_stmt : Prop :=
  forall s0 s1 s2 e : R, e < mises_1 s0 s1 s2 -> is_sym 3 (out (hos6_snd_1 s0 s1 s2 e)).
Definition hos6_hom_stmt : Prop :=
  forall s0 s1 s2 e t : R, 0 < t -> e < mises_1 s0 s1 s2 -> e < mises_1 (t * s0) (t * s1) (t * s2) -> 0 < misesQ s0 s1 s2 ->
    nthR (out (hos6_val_1 (t * s0) (t * s1) (t * s2) e)) 0 = t * nthR (out (hos6_val_1 s0 s1 s2 e)) 0.
(* Barlat with the deviatoric projector as both transformations: same value, normal (entries 0..3), second derivative (0..12) *)
Definition bar6_hosford_stmt : Prop :=
  forall s0 s1 s2 e : R, e < mises_1 s0 s1 s2 -> 0 < misesQ s0 s1 s2 ->
    all_upto 1 (fun k => nthR (out (bar6_val_1 s0 s1 s2 e)) k = nthR (out (hos6_val_1 s0 s1 s2 e)) k) /\
    all_upto 4 (fun k => nthR (out (bar6_nrm_1 s0 s1 s2 e)) k = nthR (out (hos6_nrm_1 s0 s1 s2 e)) k) /\
    all_upto 13 (fun k => nthR (out (bar6_snd_1 s0 s1 s2 e)) k = nthR (out (hos6_snd_1 s0 s1 s2 e)) k).

(* ---- Hosford, a = 8; hypotheses: above the threshold (e < von Mises stress), not hydrostatic *)
Definition hos8_same_stmt : Prop :=
  forall s0 s1 s2 e : R, e < mises_1 s0 s1 s2 ->
    (exists l, hos8_nrm_1 s0 s1 s2 e = Some (nthR (out (hos8_val_1 s0 s1 s2 e)) 0 :: l)) /\
    (exists l, hos8_snd_1 s0 s1 s2 e = Some (nthR (out (hos8_val_1 s0 s1 s2 e)) 0 :: l)) /\
    firstn 4 (out (hos8_snd_1 s0 s1 s2 e)) = out (hos8_nrm_1 s0 s1 s2 e).
Definition hos8_value_stmt : Prop :=
  forall s0 s1 s2 e : R, e < mises_1 s0 s1 s2 -> 0 < misesQ s0 s1 s2 ->
    nthR (out (hos8_val_1 s0 s1 s2 e)) 0 = hosPsi 8 (1 / 8) s0 s1 s2.
Definition hos8_grad_stmt : Prop :=
  forall s0 s1 s2 e : R, e < mises_1 s0 s1 s2 -> 0 < misesQ s0 s1 s2 ->
    is_grad 3 (fun p => nthR (out (hos8_val_1 (nthR p 0) (nthR p 1) (nthR p 2) e)) 0) (fun p => out (hos8_nrm_1 (nthR p 0) (nthR p 1) (nthR p 2) e)) [s0; s1; s2].
Definition hos8_hess_stmt : Prop :=
  forall s0 s1 s2 e : R, e < mises_1 s0 s1 s2 -> 0 < misesQ s0 s1 s2 ->
    is_hess 3 (fun p => out (hos8_snd_1 (nthR p 0) (nthR p 1) (nthR p 2) e)) [s0; s1; s2].
Definition hos8_sym_stmt : Prop :=
  forall s0 s1 s2 e : R, e < mises_1 s0 s1 s2 -> is_sym 3 (out (hos8_snd_1 s0 s1 s2 e)).
Definition hos8_hom_stmt : Prop :=
  forall s0 s1 s2 e t : R, 0 < t -> e < mises_1 s0 s1 s2 -> e < mises_1 (t * s0) (t * s1) (t * s2) -> 0 < misesQ s0 s1 s2 ->
    nthR (out (hos8_val_1 (t * s0) (t * s1) (t * s2) e)) 0 = t * nthR (out (hos8_val_1 s0 s1 s2 e)) 0.
(* Barlat with the deviatoric projector as both transformations: same value, normal (entries 0..3), second derivative (0..12) *)
Definition bar8_hosford_stmt : Prop :=
  forall s0 s1 s2 e : R, e < mises_1 s0 s1 s2 -> 0 < misesQ s0 s1 s2 ->
    all_upto 1 (fun k => nthR (out (bar8_val_1 s0 s1 s2 e)) k = nthR (out (hos8_val_1 s0 s1 s2 e)) k) /\
    all_upto 4 (fun k => nthR (out (bar8_nrm_1 s0 s1 s2 e)) k = nthR (out (hos8_nrm_1 s0 s1 s2 e)) k) /\
    all_upto 13 (fun k => nthR (out (bar8_snd_1 s0 s1 s2 e)) k = nthR (out (hos8_snd_1 s0 s1 s2 e)) k).


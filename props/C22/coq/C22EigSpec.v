(* C22 -- eigen-based criteria: specification written independently of the code.
   Hosford 1972 (even integer exponent a, principal stresses s0 s1 s2):
     psi = ( (|s0-s1|^a + |s0-s2|^a + |s1-s2|^a) / 2 )^(1/a)
   Barlat 2004 (principal values u of s' = L' s and w of s'' = L'' s):
     phi = ( sum_ij |u_i - w_j|^a / 4 )^(1/a)
   For even a the absolute values disappear and both functions are smooth wherever they do not vanish, ties included.
   Second derivative of an isotropic function F(s) = psi(eigenvalues) from the eigen-data (values l_i, vectors v_i = columns of m):
     d2F = sum_ij d2psi_ij n_i (x) n_j + sum_{i<j} theta_ij n_ij (x) n_ij,   n_i = v_i (x) v_i,  n_ij = (v_i (x) v_j + v_j (x) v_i)/sqrt2,
     theta_ij = (dpsi_i - dpsi_j)/(l_i - l_j), replaced by its limit (d2psi_ii + d2psi_jj - 2 d2psi_ij)/2 when l_i and l_j are tied. *)
From Coq Require Import Reals List Lra.
From Coquelicot Require Import Coquelicot.
From VLib Require Import RealExtra.
Import ListNotations.
Local Open Scope R_scope.

(* ---- von Mises: seq = sqrt Q, Q = 3 J2 *)
Definition misesQ (s0 s1 s2 : R) : R := ((s0 - s1) ^ 2 + (s0 - s2) ^ 2 + (s1 - s2) ^ 2) / 2.

(* ---- Hosford; ia stands for 1/a *)
Definition hosS (a : nat) (s0 s1 s2 : R) : R := (s0 - s1) ^ a + (s0 - s2) ^ a + (s1 - s2) ^ a.
Definition hosT (a : nat) (s0 s1 s2 : R) : R := hosS a s0 s1 s2 / 2.
Definition hosPsi (a : nat) (ia : R) (s0 s1 s2 : R) : R := Rpower (hosT a s0 s1 s2) ia.
(* numerators of the gradient: dT/ds_i = a N_i / 2 *)
Definition hosN (a : nat) (i : nat) (s0 s1 s2 : R) : R :=
  match i with
  | O => (s0 - s1) ^ (a - 1) + (s0 - s2) ^ (a - 1)
  | S O => - (s0 - s1) ^ (a - 1) + (s1 - s2) ^ (a - 1)
  | _ => - (s0 - s2) ^ (a - 1) - (s1 - s2) ^ (a - 1)
  end.
(* the gradient of psi: psi N_i / (2 T) *)
Definition hosG (a : nat) (ia : R) (i : nat) (s0 s1 s2 : R) : R :=
  hosPsi a ia s0 s1 s2 * hosN a i s0 s1 s2 / (2 * hosT a s0 s1 s2).

(* ---- Barlat *)
Definition barS (a : nat) (u0 u1 u2 w0 w1 w2 : R) : R :=
  (u0 - w0) ^ a + (u0 - w1) ^ a + (u0 - w2) ^ a + (u1 - w0) ^ a + (u1 - w1) ^ a + (u1 - w2) ^ a +
  (u2 - w0) ^ a + (u2 - w1) ^ a + (u2 - w2) ^ a.
Definition barT (a : nat) (u0 u1 u2 w0 w1 w2 : R) : R := barS a u0 u1 u2 w0 w1 w2 / 4.
Definition barPhi (a : nat) (ia : R) (u0 u1 u2 w0 w1 w2 : R) : R := Rpower (barT a u0 u1 u2 w0 w1 w2) ia.
(* numerators of the gradient with respect to x_k, k = 0..2: u_k, k = 3..5: w_(k-3);  dT/dx_k = a M_k / 4 *)
Definition barM (a : nat) (k : nat) (u0 u1 u2 w0 w1 w2 : R) : R :=
  match k with
  | 0%nat => (u0 - w0) ^ (a - 1) + (u0 - w1) ^ (a - 1) + (u0 - w2) ^ (a - 1)
  | 1%nat => (u1 - w0) ^ (a - 1) + (u1 - w1) ^ (a - 1) + (u1 - w2) ^ (a - 1)
  | 2%nat => (u2 - w0) ^ (a - 1) + (u2 - w1) ^ (a - 1) + (u2 - w2) ^ (a - 1)
  | 3%nat => - (u0 - w0) ^ (a - 1) - (u1 - w0) ^ (a - 1) - (u2 - w0) ^ (a - 1)
  | 4%nat => - (u0 - w1) ^ (a - 1) - (u1 - w1) ^ (a - 1) - (u2 - w1) ^ (a - 1)
  | _ => - (u0 - w2) ^ (a - 1) - (u1 - w2) ^ (a - 1) - (u2 - w2) ^ (a - 1)
  end.
Definition barG (a : nat) (ia : R) (k : nat) (u0 u1 u2 w0 w1 w2 : R) : R :=
  barPhi a ia u0 u1 u2 w0 w1 w2 * barM a k u0 u1 u2 w0 w1 w2 / (4 * barT a u0 u1 u2 w0 w1 w2).

(* ---- second derivative of an isotropic function from the eigen-data (TFEL vector notation of symmetric tensors:
   (t00, t11, t22, sqrt2 t01, sqrt2 t02, sqrt2 t12); plane tensors keep the first four).
   g = [dpsi/dl_0; dpsi/dl_1; dpsi/dl_2], d = [d00; d11; d22; d01; d02; d12] (d2psi/dl_i dl_j), l = eigenvalues,
   m = eigenvector matrix, row major (v_j = column j), e = tie threshold *)
Definition dyad (a0 a1 a2 : R) : list R :=
  [a0 * a0; a1 * a1; a2 * a2; sqrt 2 * (a0 * a1); sqrt 2 * (a0 * a2); sqrt 2 * (a1 * a2)].
Definition sdyad (a0 a1 a2 b0 b1 b2 : R) : list R :=
  [sqrt 2 * (a0 * b0); sqrt 2 * (a1 * b1); sqrt 2 * (a2 * b2); a0 * b1 + a1 * b0; a0 * b2 + a2 * b0; a1 * b2 + a2 * b1].
(* n_i = v_i (x) v_i and n_ij = (v_i (x) v_j + v_j (x) v_i) / sqrt2 *)
Definition nvec (m : list R) (i : nat) : list R := dyad (nthR m i) (nthR m (3 + i)) (nthR m (6 + i)).
Definition npair (m : list R) (i j : nat) : list R :=
  sdyad (nthR m i) (nthR m (3 + i)) (nthR m (6 + i)) (nthR m j) (nthR m (3 + j)) (nthR m (6 + j)).
(* theta_ij, t = true when the pair is treated as tied *)
Definition theta (t : bool) (gi gj dii djj dij li lj : R) : R :=
  if t then (dii + djj - 2 * dij) / 2 else (gi - gj) / (li - lj).
Definition tie (e li lj : R) : bool := if Rlt_dec (Rabs (li - lj)) e then true else false.
(* components r of the six tensors n_0 n_1 n_2 n_01 n_02 n_12 *)
Definition comps (m : list R) (r : nat) : list R :=
  [nthR (nvec m 0) r; nthR (nvec m 1) r; nthR (nvec m 2) r; nthR (npair m 0 1) r; nthR (npair m 0 2) r; nthR (npair m 1 2) r].
(* entry (r, c) from the components a (row r) and b (column c) of the six tensors *)
Definition values_part (d a b : list R) : R :=
  nthR d 0 * (nthR a 0 * nthR b 0) + nthR d 1 * (nthR a 1 * nthR b 1) + nthR d 2 * (nthR a 2 * nthR b 2) +
  nthR d 3 * (nthR a 0 * nthR b 1 + nthR a 1 * nthR b 0) +
  nthR d 4 * (nthR a 0 * nthR b 2 + nthR a 2 * nthR b 0) +
  nthR d 5 * (nthR a 1 * nthR b 2 + nthR a 2 * nthR b 1).
(* pair (i, j): ii jj ij index d, k indexes the tensor n_ij in a and b *)
Definition pair_part (e : R) (g d l a b : list R) (i j ii jj ij k : nat) : R :=
  theta (tie e (nthR l i) (nthR l j)) (nthR g i) (nthR g j) (nthR d ii) (nthR d jj) (nthR d ij) (nthR l i) (nthR l j) *
  (nthR a k * nthR b k).
Definition pairs_part (e : R) (g d l a b : list R) : R :=
  pair_part e g d l a b 0 1 0 1 3 3 + pair_part e g d l a b 0 2 0 2 4 4 + pair_part e g d l a b 1 2 1 2 5 5.
Definition eig_pairs (e : R) (g d l m : list R) (r c : nat) : R := pairs_part e g d l (comps m r) (comps m c).
Definition iso_hess (e : R) (g d l m : list R) (r c : nat) : R :=
  values_part d (comps m r) (comps m c) + pairs_part e g d l (comps m r) (comps m c).
(* plane tensors (third eigenvector e_z): only the in-plane pair contributes to the four in-plane components *)
Definition eig_pair_plane (e : R) (g d l m : list R) (r c : nat) : R := pair_part e g d l (comps m r) (comps m c) 0 1 0 1 3 3.
Definition iso_hess_plane (e : R) (g d l m : list R) (r c : nat) : R :=
  values_part d (comps m r) (comps m c) + pair_part e g d l (comps m r) (comps m c) 0 1 0 1 3 3.
(* "being tied" is transitive on this input (always true of exact ties; the code's branch order differs from the pairwise
   tests only when it is not) *)
Definition ties_transitive (e l0 l1 l2 : R) : Prop :=
  (tie e l0 l1 = true -> tie e l0 l2 = true -> tie e l1 l2 = true) /\
  (tie e l0 l1 = true -> tie e l1 l2 = true -> tie e l0 l2 = true) /\
  (tie e l0 l2 = true -> tie e l1 l2 = true -> tie e l0 l1 = true).

(* ---- algebra of even powers and real powers *)
Lemma Rabs_pow_even (x : R) (k : nat) : Rabs x ^ (2 * k) = x ^ (2 * k).
Proof. rewrite !pow_mult. f_equal. apply pow2_abs. Qed.
Lemma pow_even_nonneg (x : R) (k : nat) : 0 <= x ^ (2 * k).
Proof. rewrite pow_mult. apply pow_le. apply pow2_ge_0. Qed.
Lemma pow_even_pos (x : R) (k : nat) : x <> 0 -> 0 < x ^ (2 * k).
Proof. intros H. rewrite pow_mult. apply pow_lt. assert (0 <= x ^ 2) by apply pow2_ge_0. assert (x ^ 2 <> 0) by (apply pow_nonzero; exact H). lra. Qed.

(* (t^n b)^(1/n) = t b^(1/n) *)
Lemma Rpower_scale_pow (n : nat) (ia t b : R) : (0 < n)%nat -> INR n * ia = 1 -> 0 < t -> 0 < b ->
  Rpower (t ^ n * b) ia = t * Rpower b ia.
Proof.
  intros Hn Hia Ht Hb.
  assert (Hp : 0 < t ^ n) by (apply pow_lt; exact Ht).
  rewrite <- Rpower_mult_distr by assumption. f_equal.
  rewrite <- Rpower_pow by assumption. rewrite Rpower_mult. rewrite Hia. apply Rpower_1; assumption.
Qed.
(* (b^(1/n))^n = b *)
Lemma Rpower_inv_pow (n : nat) (ia b : R) : INR n * ia = 1 -> 0 < b -> Rpower b ia ^ n = b.
Proof.
  intros Hia Hb. rewrite <- Rpower_pow by (unfold Rpower; apply exp_pos).
  rewrite Rpower_mult. rewrite Rmult_comm, Hia. apply Rpower_1; assumption.
Qed.

(* (S/k)^(1/n) = S^(1/n) / k^(1/n) *)
Lemma Rpower_div (ia s k : R) : 0 < s -> 0 < k -> Rpower (s / k) ia = Rpower s ia / Rpower k ia.
Proof.
  intros Hs Hk. unfold Rpower, Rdiv.
  rewrite ln_mult; [ | assumption | apply Rinv_0_lt_compat; assumption ]. rewrite ln_Rinv by assumption.
  rewrite Rmult_plus_distr_l, exp_plus. f_equal.
  replace (ia * - ln k) with (- (ia * ln k)) by ring. apply exp_Ropp.
Qed.

(* a tie threshold that is not met, e > 0: the two values differ *)
Lemma not_tie_neq (x y e : R) : 0 < e -> ~ Rabs (x - y) < e -> x - y <> 0.
Proof. intros He H E. apply H. rewrite E, Rabs_R0. exact He. Qed.

(* C22 -- Barlat 2004 with both linear transformations = the deviatoric projector (makeBarlatLinearTransformation(1,..,1)) is
   Hosford 1972: on a diagonal stress the three public Barlat functions return, above the threshold, the same value, normal and
   second derivative as the three public Hosford functions (traces of both, C22eig_gen.v), exponent a = 8.
   Written by mkeig.py from a template, committed. *)
From Coq Require Import Reals List Lra.
From Coquelicot Require Import Coquelicot.
From VLib Require Import RealExtra.
From C22 Require Import C22InvSpec C22InvTac C22InvCrit C22EigSpec C22EigTac C22eig_gen C22EigStatements C22Eig_hos8.
Import ListNotations.
Local Open Scope R_scope.

Lemma bar8_val_at s0 s1 s2 e : e < mises_1 s0 s1 s2 -> bar8_val_1 s0 s1 s2 e = Some (bar8_val_leaf_1 s0 s1 s2).
Proof. intro H1. tree_leaf ltac:(unfold bar8_val_1, bar8_val_leaf_1) ltac:(unfold mises_1 in H1) H1. Qed.
Lemma bar8_nrm_at s0 s1 s2 e : e < mises_1 s0 s1 s2 -> bar8_nrm_1 s0 s1 s2 e = Some (bar8_nrm_leaf_1 s0 s1 s2).
Proof. intro H1. tree_leaf ltac:(unfold bar8_nrm_1, bar8_nrm_leaf_1) ltac:(unfold mises_1 in H1) H1. Qed.
Lemma bar8_snd_at s0 s1 s2 e : e < mises_1 s0 s1 s2 -> bar8_snd_1 s0 s1 s2 e = Some (bar8_snd_leaf_1 s0 s1 s2).
Proof. intro H1. tree_leaf ltac:(unfold bar8_snd_1, bar8_snd_leaf_1) ltac:(unfold mises_1 in H1) H1. Qed.

Lemma bar8_hosford_ok : bar8_hosford_stmt.
Proof.
  unfold bar8_hosford_stmt. intros s0 s1 s2 e H1 HQ. pose proof (Q_pos_T8 _ _ _ HQ) as HT.
  rewrite (bar8_val_at _ _ _ e H1), (bar8_nrm_at _ _ _ e H1), (bar8_snd_at _ _ _ e H1).
  rewrite (hos8_val_at _ _ _ e H1), (hos8_nrm_at _ _ _ e H1), (hos8_snd_at _ _ _ e H1).
  unfold out. cbv [all_upto]. side_split;
  unfold bar8_val_leaf_1, bar8_nrm_leaf_1, bar8_snd_leaf_1, hos8_val_leaf_1, hos8_nrm_leaf_1, hos8_snd_leaf_1;
  lazy beta delta [nthR nth] iota zeta; hos s0 s1 s2 HQ HT.
Qed.

(* C22 -- tactics for the invariant-based criteria; nothing depends on the shape of the traced terms. *)
From Coq Require Import Reals List Lra.
From Coquelicot Require Import Coquelicot.
From VLib Require Import RealExtra.
From C22 Require Import C22InvSpec.
Import ListNotations.
Local Open Scope R_scope.

(* replace every [Derive g x] by the value given by a hypothesis [is_derive f x d] with f convertible to g *)
Ltac derive_rw :=
  repeat match goal with
         | |- context [Derive ?g ?x] =>
           match goal with H : is_derive _ x ?d |- _ => rewrite (is_derive_unique g x d H) end
         end.
(* polynomial identities modulo sqrt2^2 = 2 (TFEL's shear components) *)
Ltac poly_eq := first [ reflexivity | ring | ring [sqrt2_sq] | (field_simplify_eq; [ ring [sqrt2_sq] | try exact sqrt2_neq0 .. ]) ].
(* a cut quantity is a polynomial: D is its derivative *)
Ltac cutder := intros; lazy beta delta [nthR nth] iota zeta; auto_derive; [ exact I | poly_eq ].

(* make the argument of every [ln] / [sqrt] / [Rcbrt] / [Derive Rcbrt] syntactically equal to the canonical one *)
Ltac canon_ln S :=
  repeat match goal with
         | |- context [ln ?a] => tryif constr_eq a S then fail else (replace a with S by (unfold S; lazy beta delta [S6_of A4_of]; field))
         end.
Ltac canon_sqrt J :=
  repeat match goal with
         | |- context [sqrt ?a] =>
           tryif first [ constr_eq a J | constr_eq a 2 | constr_eq a 3 ] then fail else (replace a with J by field)
         end.
Ltac canon_cbrt A :=
  repeat match goal with
         | |- context [Rcbrt ?a] =>
           tryif constr_eq a A then fail else (replace a with A by (lazy beta delta [A4_of]; field))
         | |- context [Derive Rcbrt ?a] =>
           tryif constr_eq a A then fail else (replace a with A by (lazy beta delta [A4_of]; field))
         | |- context [ex_derive Rcbrt ?a] =>
           tryif constr_eq a A then fail else (replace a with A by (lazy beta delta [A4_of]; field))
         | |- context [Derive (fun x => Rcbrt x) ?a] =>
           tryif constr_eq a A then fail else (replace a with A by (lazy beta delta [A4_of]; field))
         | |- context [ex_derive (fun x => Rcbrt x) ?a] =>
           tryif constr_eq a A then fail else (replace a with A by (lazy beta delta [A4_of]; field))
         end.

(* side conditions of auto_derive *)
Ltac side_split := repeat match goal with |- _ /\ _ => split | |- True => exact I end.
Ltac ex_der_hyp :=
  match goal with
  | H : is_derive ?f ?x ?d |- ex_derive ?g ?x => exact (ex_intro _ d H)
  end.

(* C22 -- Hosford 1972, a = 6, diagonal stress: property theorems (statements in C22EigStatements.v, proofs in C22Eig_hos6.v
   over the definitions regenerated from /repo).  same: the three variants return the same value and the two derivative
   variants the same normal; value: it is the documented formula; grad / hess: normal = gradient of the value, second
   derivative = Jacobian of the normal (ties included); sym; hom: degree-one homogeneity. *)
From Coq Require Import Reals List Lra.
From Coquelicot Require Import Coquelicot.
From VLib Require Import RealExtra.
From C22 Require Import C22InvSpec C22EigSpec C22eig_gen C22EigStatements C22Eig_hos6.
Import ListNotations.
Local Open Scope R_scope.

Theorem C22_hosford6_same : hos6_same_stmt.
Proof. exact hos6_same_ok. Qed.
Print Assumptions C22_hosford6_same.
Theorem C22_hosford6_value : hos6_value_stmt.
Proof. exact hos6_value_ok. Qed.
Print Assumptions C22_hosford6_value.
Theorem C22_hosford6_grad : hos6_grad_stmt.
Proof. exact hos6_grad_ok. Qed.
Print Assumptions C22_hosford6_grad.
Theorem C22_hosford6_hess : hos6_hess_stmt.
Proof. exact hos6_hess_ok. Qed.
Print Assumptions C22_hosford6_hess.
Theorem C22_hosford6_sym : hos6_sym_stmt.
Proof. exact hos6_sym_ok. Qed.
Print Assumptions C22_hosford6_sym.
Theorem C22_hosford6_hom : hos6_hom_stmt.
Proof. exact hos6_hom_ok. Qed.
Print Assumptions C22_hosford6_hom.

(* C22 -- assembly of the second derivative from the eigen-data, 3D, Barlat: property theorems (statements in C22EigAsmTac.v, proofs
   in C22Eig_asm3b.v over the definitions regenerated from /repo).  Every tie branch of internals::computeHosfordStressSecondDerivative /
   internals::completeBaralatStressSecondDerivative returns the specification formula of C22EigSpec.v (iso_hess / eig_pairs: divided
   differences of the first derivatives for distinct eigenvalues, their limit for tied ones). *)
From Coq Require Import Reals List Lra.
From Coquelicot Require Import Coquelicot.
From VLib Require Import RealExtra.
From C22 Require Import C22InvSpec C22EigSpec C22eig_gen C22EigAsmTac C22Eig_asm3b.
Import ListNotations.
Local Open Scope R_scope.

Theorem C22_bar_cpl_3 : bar_cpl_3_stmt.
Proof. exact bar_cpl_3_ok. Qed.
Print Assumptions C22_bar_cpl_3.

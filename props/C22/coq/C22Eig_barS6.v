(* C22 -- Barlat 2004: computeBarlatStressSecondDerivative(vp1, vp2, seq, a), a = 6, all symbolic (trace barS6 of C22eig_gen.v):
   Phi is the documented (sum_ij |u_i - w_j|^a / 4)^(1/a), does not depend on the normalising stress seq, the returned first
   derivatives are its gradient with respect to the six eigenvalues and the returned second derivatives the Jacobian of that
   gradient; with u = w it is Hosford's psi.  Written by mkeig.py, committed. *)
From Coq Require Import Reals List Lra.
From Coquelicot Require Import Coquelicot.
From VLib Require Import RealExtra.
From C22 Require Import C22InvSpec C22InvTac C22InvCrit C22EigSpec C22EigTac C22eig_gen C22EigStatements.
Import ListNotations.
Local Open Scope R_scope.

Ltac bar := fun u0 u1 u2 w0 w1 w2 q Hq HT =>
  abs_even;
  pow_core 6%nat (1 / 6) 4 q Hq (barT 6 u0 u1 u2 w0 w1 w2) (barS 6 u0 u1 u2 w0 w1 w2) ltac:(unfold barT)
           ltac:(unfold barT, barS, barM in *) HT.

Lemma barS6_val_eq u0 u1 u2 w0 w1 w2 q : 0 < q -> 0 < barT 6 u0 u1 u2 w0 w1 w2 -> nthR (barS6 u0 u1 u2 w0 w1 w2 q) 0 = barPhi 6 (1 / 6) u0 u1 u2 w0 w1 w2.
Proof. intros Hq HT. unfold barS6, barPhi. lazy beta delta [nthR nth] iota zeta. bar u0 u1 u2 w0 w1 w2 q Hq HT. Qed.
Lemma barS6_grad_eq_0 u0 u1 u2 w0 w1 w2 q : 0 < q -> 0 < barT 6 u0 u1 u2 w0 w1 w2 -> nthR (barS6 u0 u1 u2 w0 w1 w2 q) 1 = barG 6 (1 / 6) 0 u0 u1 u2 w0 w1 w2.
Proof. intros Hq HT. unfold barS6, barG, barPhi. lazy beta delta [nthR nth] iota zeta. bar u0 u1 u2 w0 w1 w2 q Hq HT. Qed.
Lemma barS6_specgrad_0 u0 u1 u2 w0 w1 w2 : 0 < barT 6 u0 u1 u2 w0 w1 w2 ->
  is_derive (fun x => barPhi 6 (1 / 6) x u1 u2 w0 w1 w2) u0 (barG 6 (1 / 6) 0 u0 u1 u2 w0 w1 w2).
Proof.
  intro HT. unfold barG, barPhi, barM, Rpower. set (T := barT 6 u0 u1 u2 w0 w1 w2) in *. unfold barT, barS. simpl Nat.sub.
  auto_derive; [ eapply Rlt_le_trans; [ exact HT | right; unfold T, barT, barS; field ] | ].
  canon_ln_u T ltac:(unfold T, barT, barS). generalize (exp (1 / 6 * ln T)); intro Y. unfold T, barT, barS in *. field. lra.
Qed.
Lemma barS6_grad_eq_1 u0 u1 u2 w0 w1 w2 q : 0 < q -> 0 < barT 6 u0 u1 u2 w0 w1 w2 -> nthR (barS6 u0 u1 u2 w0 w1 w2 q) 2 = barG 6 (1 / 6) 1 u0 u1 u2 w0 w1 w2.
Proof. intros Hq HT. unfold barS6, barG, barPhi. lazy beta delta [nthR nth] iota zeta. bar u0 u1 u2 w0 w1 w2 q Hq HT. Qed.
Lemma barS6_specgrad_1 u0 u1 u2 w0 w1 w2 : 0 < barT 6 u0 u1 u2 w0 w1 w2 ->
  is_derive (fun x => barPhi 6 (1 / 6) u0 x u2 w0 w1 w2) u1 (barG 6 (1 / 6) 1 u0 u1 u2 w0 w1 w2).
Proof.
  intro HT. unfold barG, barPhi, barM, Rpower. set (T := barT 6 u0 u1 u2 w0 w1 w2) in *. unfold barT, barS. simpl Nat.sub.
  auto_derive; [ eapply Rlt_le_trans; [ exact HT | right; unfold T, barT, barS; field ] | ].
  canon_ln_u T ltac:(unfold T, barT, barS). generalize (exp (1 / 6 * ln T)); intro Y. unfold T, barT, barS in *. field. lra.
Qed.
Lemma barS6_grad_eq_2 u0 u1 u2 w0 w1 w2 q : 0 < q -> 0 < barT 6 u0 u1 u2 w0 w1 w2 -> nthR (barS6 u0 u1 u2 w0 w1 w2 q) 3 = barG 6 (1 / 6) 2 u0 u1 u2 w0 w1 w2.
Proof. intros Hq HT. unfold barS6, barG, barPhi. lazy beta delta [nthR nth] iota zeta. bar u0 u1 u2 w0 w1 w2 q Hq HT. Qed.
Lemma barS6_specgrad_2 u0 u1 u2 w0 w1 w2 : 0 < barT 6 u0 u1 u2 w0 w1 w2 ->
  is_derive (fun x => barPhi 6 (1 / 6) u0 u1 x w0 w1 w2) u2 (barG 6 (1 / 6) 2 u0 u1 u2 w0 w1 w2).
Proof.
  intro HT. unfold barG, barPhi, barM, Rpower. set (T := barT 6 u0 u1 u2 w0 w1 w2) in *. unfold barT, barS. simpl Nat.sub.
  auto_derive; [ eapply Rlt_le_trans; [ exact HT | right; unfold T, barT, barS; field ] | ].
  canon_ln_u T ltac:(unfold T, barT, barS). generalize (exp (1 / 6 * ln T)); intro Y. unfold T, barT, barS in *. field. lra.
Qed.
Lemma barS6_grad_eq_3 u0 u1 u2 w0 w1 w2 q : 0 < q -> 0 < barT 6 u0 u1 u2 w0 w1 w2 -> nthR (barS6 u0 u1 u2 w0 w1 w2 q) 4 = barG 6 (1 / 6) 3 u0 u1 u2 w0 w1 w2.
Proof. intros Hq HT. unfold barS6, barG, barPhi. lazy beta delta [nthR nth] iota zeta. bar u0 u1 u2 w0 w1 w2 q Hq HT. Qed.
Lemma barS6_specgrad_3 u0 u1 u2 w0 w1 w2 : 0 < barT 6 u0 u1 u2 w0 w1 w2 ->
  is_derive (fun x => barPhi 6 (1 / 6) u0 u1 u2 x w1 w2) w0 (barG 6 (1 / 6) 3 u0 u1 u2 w0 w1 w2).
Proof.
  intro HT. unfold barG, barPhi, barM, Rpower. set (T := barT 6 u0 u1 u2 w0 w1 w2) in *. unfold barT, barS. simpl Nat.sub.
  auto_derive; [ eapply Rlt_le_trans; [ exact HT | right; unfold T, barT, barS; field ] | ].
  canon_ln_u T ltac:(unfold T, barT, barS). generalize (exp (1 / 6 * ln T)); intro Y. unfold T, barT, barS in *. field. lra.
Qed.
Lemma barS6_grad_eq_4 u0 u1 u2 w0 w1 w2 q : 0 < q -> 0 < barT 6 u0 u1 u2 w0 w1 w2 -> nthR (barS6 u0 u1 u2 w0 w1 w2 q) 5 = barG 6 (1 / 6) 4 u0 u1 u2 w0 w1 w2.
Proof. intros Hq HT. unfold barS6, barG, barPhi. lazy beta delta [nthR nth] iota zeta. bar u0 u1 u2 w0 w1 w2 q Hq HT. Qed.
Lemma barS6_specgrad_4 u0 u1 u2 w0 w1 w2 : 0 < barT 6 u0 u1 u2 w0 w1 w2 ->
  is_derive (fun x => barPhi 6 (1 / 6) u0 u1 u2 w0 x w2) w1 (barG 6 (1 / 6) 4 u0 u1 u2 w0 w1 w2).
Proof.
  intro HT. unfold barG, barPhi, barM, Rpower. set (T := barT 6 u0 u1 u2 w0 w1 w2) in *. unfold barT, barS. simpl Nat.sub.
  auto_derive; [ eapply Rlt_le_trans; [ exact HT | right; unfold T, barT, barS; field ] | ].
  canon_ln_u T ltac:(unfold T, barT, barS). generalize (exp (1 / 6 * ln T)); intro Y. unfold T, barT, barS in *. field. lra.
Qed.
Lemma barS6_grad_eq_5 u0 u1 u2 w0 w1 w2 q : 0 < q -> 0 < barT 6 u0 u1 u2 w0 w1 w2 -> nthR (barS6 u0 u1 u2 w0 w1 w2 q) 6 = barG 6 (1 / 6) 5 u0 u1 u2 w0 w1 w2.
Proof. intros Hq HT. unfold barS6, barG, barPhi. lazy beta delta [nthR nth] iota zeta. bar u0 u1 u2 w0 w1 w2 q Hq HT. Qed.
Lemma barS6_specgrad_5 u0 u1 u2 w0 w1 w2 : 0 < barT 6 u0 u1 u2 w0 w1 w2 ->
  is_derive (fun x => barPhi 6 (1 / 6) u0 u1 u2 w0 w1 x) w2 (barG 6 (1 / 6) 5 u0 u1 u2 w0 w1 w2).
Proof.
  intro HT. unfold barG, barPhi, barM, Rpower. set (T := barT 6 u0 u1 u2 w0 w1 w2) in *. unfold barT, barS. simpl Nat.sub.
  auto_derive; [ eapply Rlt_le_trans; [ exact HT | right; unfold T, barT, barS; field ] | ].
  canon_ln_u T ltac:(unfold T, barT, barS). generalize (exp (1 / 6 * ln T)); intro Y. unfold T, barT, barS in *. field. lra.
Qed.
Lemma barS6_spechess_0_0 u0 u1 u2 w0 w1 w2 q : 0 < q -> 0 < barT 6 u0 u1 u2 w0 w1 w2 ->
  is_derive (fun x => barG 6 (1 / 6) 0 x u1 u2 w0 w1 w2) u0 (nthR (barS6 u0 u1 u2 w0 w1 w2 q) 7).
Proof.
  intros Hq HT. set (rhs := nthR (barS6 u0 u1 u2 w0 w1 w2 q) 7).
  unfold barG, barPhi, barM, barT, barS, Rpower. simpl Nat.sub.
  auto_derive; [ side_split; first [ (eapply Rlt_le_trans; [ exact HT | right; unfold barT, barS; field ])
    | (apply Rgt_not_eq; eapply Rlt_le_trans; [ exact (Rmult_lt_0_compat _ _ (Rmult_lt_0_compat _ _ Rlt_0_2 Rlt_0_2) HT) | right; unfold barT, barS; field ]) ] | ].
  canon_ln_u (barT 6 u0 u1 u2 w0 w1 w2) ltac:(unfold barT, barS). fold_rpower (barT 6 u0 u1 u2 w0 w1 w2).
  subst rhs. unfold barS6. lazy beta delta [nthR nth] iota zeta. bar u0 u1 u2 w0 w1 w2 q Hq HT.
Qed.
Lemma barS6_spechess_0_1 u0 u1 u2 w0 w1 w2 q : 0 < q -> 0 < barT 6 u0 u1 u2 w0 w1 w2 ->
  is_derive (fun x => barG 6 (1 / 6) 0 u0 x u2 w0 w1 w2) u1 (nthR (barS6 u0 u1 u2 w0 w1 w2 q) 10).
Proof.
  intros Hq HT. set (rhs := nthR (barS6 u0 u1 u2 w0 w1 w2 q) 10).
  unfold barG, barPhi, barM, barT, barS, Rpower. simpl Nat.sub.
  auto_derive; [ side_split; first [ (eapply Rlt_le_trans; [ exact HT | right; unfold barT, barS; field ])
    | (apply Rgt_not_eq; eapply Rlt_le_trans; [ exact (Rmult_lt_0_compat _ _ (Rmult_lt_0_compat _ _ Rlt_0_2 Rlt_0_2) HT) | right; unfold barT, barS; field ]) ] | ].
  canon_ln_u (barT 6 u0 u1 u2 w0 w1 w2) ltac:(unfold barT, barS). fold_rpower (barT 6 u0 u1 u2 w0 w1 w2).
  subst rhs. unfold barS6. lazy beta delta [nthR nth] iota zeta. bar u0 u1 u2 w0 w1 w2 q Hq HT.
Qed.
Lemma barS6_spechess_0_2 u0 u1 u2 w0 w1 w2 q : 0 < q -> 0 < barT 6 u0 u1 u2 w0 w1 w2 ->
  is_derive (fun x => barG 6 (1 / 6) 0 u0 u1 x w0 w1 w2) u2 (nthR (barS6 u0 u1 u2 w0 w1 w2 q) 11).
Proof.
  intros Hq HT. set (rhs := nthR (barS6 u0 u1 u2 w0 w1 w2 q) 11).
  unfold barG, barPhi, barM, barT, barS, Rpower. simpl Nat.sub.
  auto_derive; [ side_split; first [ (eapply Rlt_le_trans; [ exact HT | right; unfold barT, barS; field ])
    | (apply Rgt_not_eq; eapply Rlt_le_trans; [ exact (Rmult_lt_0_compat _ _ (Rmult_lt_0_compat _ _ Rlt_0_2 Rlt_0_2) HT) | right; unfold barT, barS; field ]) ] | ].
  canon_ln_u (barT 6 u0 u1 u2 w0 w1 w2) ltac:(unfold barT, barS). fold_rpower (barT 6 u0 u1 u2 w0 w1 w2).
  subst rhs. unfold barS6. lazy beta delta [nthR nth] iota zeta. bar u0 u1 u2 w0 w1 w2 q Hq HT.
Qed.
Lemma barS6_spechess_0_3 u0 u1 u2 w0 w1 w2 q : 0 < q -> 0 < barT 6 u0 u1 u2 w0 w1 w2 ->
  is_derive (fun x => barG 6 (1 / 6) 0 u0 u1 u2 x w1 w2) w0 (nthR (barS6 u0 u1 u2 w0 w1 w2 q) 19).
Proof.
  intros Hq HT. set (rhs := nthR (barS6 u0 u1 u2 w0 w1 w2 q) 19).
  unfold barG, barPhi, barM, barT, barS, Rpower. simpl Nat.sub.
  auto_derive; [ side_split; first [ (eapply Rlt_le_trans; [ exact HT | right; unfold barT, barS; field ])
    | (apply Rgt_not_eq; eapply Rlt_le_trans; [ exact (Rmult_lt_0_compat _ _ (Rmult_lt_0_compat _ _ Rlt_0_2 Rlt_0_2) HT) | right; unfold barT, barS; field ]) ] | ].
  canon_ln_u (barT 6 u0 u1 u2 w0 w1 w2) ltac:(unfold barT, barS). fold_rpower (barT 6 u0 u1 u2 w0 w1 w2).
  subst rhs. unfold barS6. lazy beta delta [nthR nth] iota zeta. bar u0 u1 u2 w0 w1 w2 q Hq HT.
Qed.
Lemma barS6_spechess_0_4 u0 u1 u2 w0 w1 w2 q : 0 < q -> 0 < barT 6 u0 u1 u2 w0 w1 w2 ->
  is_derive (fun x => barG 6 (1 / 6) 0 u0 u1 u2 w0 x w2) w1 (nthR (barS6 u0 u1 u2 w0 w1 w2 q) 20).
Proof.
  intros Hq HT. set (rhs := nthR (barS6 u0 u1 u2 w0 w1 w2 q) 20).
  unfold barG, barPhi, barM, barT, barS, Rpower. simpl Nat.sub.
  auto_derive; [ side_split; first [ (eapply Rlt_le_trans; [ exact HT | right; unfold barT, barS; field ])
    | (apply Rgt_not_eq; eapply Rlt_le_trans; [ exact (Rmult_lt_0_compat _ _ (Rmult_lt_0_compat _ _ Rlt_0_2 Rlt_0_2) HT) | right; unfold barT, barS; field ]) ] | ].
  canon_ln_u (barT 6 u0 u1 u2 w0 w1 w2) ltac:(unfold barT, barS). fold_rpower (barT 6 u0 u1 u2 w0 w1 w2).
  subst rhs. unfold barS6. lazy beta delta [nthR nth] iota zeta. bar u0 u1 u2 w0 w1 w2 q Hq HT.
Qed.
Lemma barS6_spechess_0_5 u0 u1 u2 w0 w1 w2 q : 0 < q -> 0 < barT 6 u0 u1 u2 w0 w1 w2 ->
  is_derive (fun x => barG 6 (1 / 6) 0 u0 u1 u2 w0 w1 x) w2 (nthR (barS6 u0 u1 u2 w0 w1 w2 q) 21).
Proof.
  intros Hq HT. set (rhs := nthR (barS6 u0 u1 u2 w0 w1 w2 q) 21).
  unfold barG, barPhi, barM, barT, barS, Rpower. simpl Nat.sub.
  auto_derive; [ side_split; first [ (eapply Rlt_le_trans; [ exact HT | right; unfold barT, barS; field ])
    | (apply Rgt_not_eq; eapply Rlt_le_trans; [ exact (Rmult_lt_0_compat _ _ (Rmult_lt_0_compat _ _ Rlt_0_2 Rlt_0_2) HT) | right; unfold barT, barS; field ]) ] | ].
  canon_ln_u (barT 6 u0 u1 u2 w0 w1 w2) ltac:(unfold barT, barS). fold_rpower (barT 6 u0 u1 u2 w0 w1 w2).
  subst rhs. unfold barS6. lazy beta delta [nthR nth] iota zeta. bar u0 u1 u2 w0 w1 w2 q Hq HT.
Qed.
Lemma barS6_spechess_1_0 u0 u1 u2 w0 w1 w2 q : 0 < q -> 0 < barT 6 u0 u1 u2 w0 w1 w2 ->
  is_derive (fun x => barG 6 (1 / 6) 1 x u1 u2 w0 w1 w2) u0 (nthR (barS6 u0 u1 u2 w0 w1 w2 q) 10).
Proof.
  intros Hq HT. set (rhs := nthR (barS6 u0 u1 u2 w0 w1 w2 q) 10).
  unfold barG, barPhi, barM, barT, barS, Rpower. simpl Nat.sub.
  auto_derive; [ side_split; first [ (eapply Rlt_le_trans; [ exact HT | right; unfold barT, barS; field ])
    | (apply Rgt_not_eq; eapply Rlt_le_trans; [ exact (Rmult_lt_0_compat _ _ (Rmult_lt_0_compat _ _ Rlt_0_2 Rlt_0_2) HT) | right; unfold barT, barS; field ]) ] | ].
  canon_ln_u (barT 6 u0 u1 u2 w0 w1 w2) ltac:(unfold barT, barS). fold_rpower (barT 6 u0 u1 u2 w0 w1 w2).
  subst rhs. unfold barS6. lazy beta delta [nthR nth] iota zeta. bar u0 u1 u2 w0 w1 w2 q Hq HT.
Qed.
Lemma barS6_spechess_1_1 u0 u1 u2 w0 w1 w2 q : 0 < q -> 0 < barT 6 u0 u1 u2 w0 w1 w2 ->
  is_derive (fun x => barG 6 (1 / 6) 1 u0 x u2 w0 w1 w2) u1 (nthR (barS6 u0 u1 u2 w0 w1 w2 q) 8).
Proof.
  intros Hq HT. set (rhs := nthR (barS6 u0 u1 u2 w0 w1 w2 q) 8).
  unfold barG, barPhi, barM, barT, barS, Rpower. simpl Nat.sub.
  auto_derive; [ side_split; first [ (eapply Rlt_le_trans; [ exact HT | right; unfold barT, barS; field ])
    | (apply Rgt_not_eq; eapply Rlt_le_trans; [ exact (Rmult_lt_0_compat _ _ (Rmult_lt_0_compat _ _ Rlt_0_2 Rlt_0_2) HT) | right; unfold barT, barS; field ]) ] | ].
  canon_ln_u (barT 6 u0 u1 u2 w0 w1 w2) ltac:(unfold barT, barS). fold_rpower (barT 6 u0 u1 u2 w0 w1 w2).
  subst rhs. unfold barS6. lazy beta delta [nthR nth] iota zeta. bar u0 u1 u2 w0 w1 w2 q Hq HT.
Qed.
Lemma barS6_spechess_1_2 u0 u1 u2 w0 w1 w2 q : 0 < q -> 0 < barT 6 u0 u1 u2 w0 w1 w2 ->
  is_derive (fun x => barG 6 (1 / 6) 1 u0 u1 x w0 w1 w2) u2 (nthR (barS6 u0 u1 u2 w0 w1 w2 q) 12).
Proof.
  intros Hq HT. set (rhs := nthR (barS6 u0 u1 u2 w0 w1 w2 q) 12).
  unfold barG, barPhi, barM, barT, barS, Rpower. simpl Nat.sub.
  auto_derive; [ side_split; first [ (eapply Rlt_le_trans; [ exact HT | right; unfold barT, barS; field ])
    | (apply Rgt_not_eq; eapply Rlt_le_trans; [ exact (Rmult_lt_0_compat _ _ (Rmult_lt_0_compat _ _ Rlt_0_2 Rlt_0_2) HT) | right; unfold barT, barS; field ]) ] | ].
  canon_ln_u (barT 6 u0 u1 u2 w0 w1 w2) ltac:(unfold barT, barS). fold_rpower (barT 6 u0 u1 u2 w0 w1 w2).
  subst rhs. unfold barS6. lazy beta delta [nthR nth] iota zeta. bar u0 u1 u2 w0 w1 w2 q Hq HT.
Qed.
Lemma barS6_spechess_1_3 u0 u1 u2 w0 w1 w2 q : 0 < q -> 0 < barT 6 u0 u1 u2 w0 w1 w2 ->
  is_derive (fun x => barG 6 (1 / 6) 1 u0 u1 u2 x w1 w2) w0 (nthR (barS6 u0 u1 u2 w0 w1 w2 q) 22).
Proof.
  intros Hq HT. set (rhs := nthR (barS6 u0 u1 u2 w0 w1 w2 q) 22).
  unfold barG, barPhi, barM, barT, barS, Rpower. simpl Nat.sub.
  auto_derive; [ side_split; first [ (eapply Rlt_le_trans; [ exact HT | right; unfold barT, barS; field ])
    | (apply Rgt_not_eq; eapply Rlt_le_trans; [ exact (Rmult_lt_0_compat _ _ (Rmult_lt_0_compat _ _ Rlt_0_2 Rlt_0_2) HT) | right; unfold barT, barS; field ]) ] | ].
  canon_ln_u (barT 6 u0 u1 u2 w0 w1 w2) ltac:(unfold barT, barS). fold_rpower (barT 6 u0 u1 u2 w0 w1 w2).
  subst rhs. unfold barS6. lazy beta delta [nthR nth] iota zeta. bar u0 u1 u2 w0 w1 w2 q Hq HT.
Qed.
Lemma barS6_spechess_1_4 u0 u1 u2 w0 w1 w2 q : 0 < q -> 0 < barT 6 u0 u1 u2 w0 w1 w2 ->
  is_derive (fun x => barG 6 (1 / 6) 1 u0 u1 u2 w0 x w2) w1 (nthR (barS6 u0 u1 u2 w0 w1 w2 q) 23).
Proof.
  intros Hq HT. set (rhs := nthR (barS6 u0 u1 u2 w0 w1 w2 q) 23).
  unfold barG, barPhi, barM, barT, barS, Rpower. simpl Nat.sub.
  auto_derive; [ side_split; first [ (eapply Rlt_le_trans; [ exact HT | right; unfold barT, barS; field ])
    | (apply Rgt_not_eq; eapply Rlt_le_trans; [ exact (Rmult_lt_0_compat _ _ (Rmult_lt_0_compat _ _ Rlt_0_2 Rlt_0_2) HT) | right; unfold barT, barS; field ]) ] | ].
  canon_ln_u (barT 6 u0 u1 u2 w0 w1 w2) ltac:(unfold barT, barS). fold_rpower (barT 6 u0 u1 u2 w0 w1 w2).
  subst rhs. unfold barS6. lazy beta delta [nthR nth] iota zeta. bar u0 u1 u2 w0 w1 w2 q Hq HT.
Qed.
Lemma barS6_spechess_1_5 u0 u1 u2 w0 w1 w2 q : 0 < q -> 0 < barT 6 u0 u1 u2 w0 w1 w2 ->
  is_derive (fun x => barG 6 (1 / 6) 1 u0 u1 u2 w0 w1 x) w2 (nthR (barS6 u0 u1 u2 w0 w1 w2 q) 24).
Proof.
  intros Hq HT. set (rhs := nthR (barS6 u0 u1 u2 w0 w1 w2 q) 24).
  unfold barG, barPhi, barM, barT, barS, Rpower. simpl Nat.sub.
  auto_derive; [ side_split; first [ (eapply Rlt_le_trans; [ exact HT | right; unfold barT, barS; field ])
    | (apply Rgt_not_eq; eapply Rlt_le_trans; [ exact (Rmult_lt_0_compat _ _ (Rmult_lt_0_compat _ _ Rlt_0_2 Rlt_0_2) HT) | right; unfold barT, barS; field ]) ] | ].
  canon_ln_u (barT 6 u0 u1 u2 w0 w1 w2) ltac:(unfold barT, barS). fold_rpower (barT 6 u0 u1 u2 w0 w1 w2).
  subst rhs. unfold barS6. lazy beta delta [nthR nth] iota zeta. bar u0 u1 u2 w0 w1 w2 q Hq HT.
Qed.
Lemma barS6_spechess_2_0 u0 u1 u2 w0 w1 w2 q : 0 < q -> 0 < barT 6 u0 u1 u2 w0 w1 w2 ->
  is_derive (fun x => barG 6 (1 / 6) 2 x u1 u2 w0 w1 w2) u0 (nthR (barS6 u0 u1 u2 w0 w1 w2 q) 11).
Proof.
  intros Hq HT. set (rhs := nthR (barS6 u0 u1 u2 w0 w1 w2 q) 11).
  unfold barG, barPhi, barM, barT, barS, Rpower. simpl Nat.sub.
  auto_derive; [ side_split; first [ (eapply Rlt_le_trans; [ exact HT | right; unfold barT, barS; field ])
    | (apply Rgt_not_eq; eapply Rlt_le_trans; [ exact (Rmult_lt_0_compat _ _ (Rmult_lt_0_compat _ _ Rlt_0_2 Rlt_0_2) HT) | right; unfold barT, barS; field ]) ] | ].
  canon_ln_u (barT 6 u0 u1 u2 w0 w1 w2) ltac:(unfold barT, barS). fold_rpower (barT 6 u0 u1 u2 w0 w1 w2).
  subst rhs. unfold barS6. lazy beta delta [nthR nth] iota zeta. bar u0 u1 u2 w0 w1 w2 q Hq HT.
Qed.
Lemma barS6_spechess_2_1 u0 u1 u2 w0 w1 w2 q : 0 < q -> 0 < barT 6 u0 u1 u2 w0 w1 w2 ->
  is_derive (fun x => barG 6 (1 / 6) 2 u0 x u2 w0 w1 w2) u1 (nthR (barS6 u0 u1 u2 w0 w1 w2 q) 12).
Proof.
  intros Hq HT. set (rhs := nthR (barS6 u0 u1 u2 w0 w1 w2 q) 12).
  unfold barG, barPhi, barM, barT, barS, Rpower. simpl Nat.sub.
  auto_derive; [ side_split; first [ (eapply Rlt_le_trans; [ exact HT | right; unfold barT, barS; field ])
    | (apply Rgt_not_eq; eapply Rlt_le_trans; [ exact (Rmult_lt_0_compat _ _ (Rmult_lt_0_compat _ _ Rlt_0_2 Rlt_0_2) HT) | right; unfold barT, barS; field ]) ] | ].
  canon_ln_u (barT 6 u0 u1 u2 w0 w1 w2) ltac:(unfold barT, barS). fold_rpower (barT 6 u0 u1 u2 w0 w1 w2).
  subst rhs. unfold barS6. lazy beta delta [nthR nth] iota zeta. bar u0 u1 u2 w0 w1 w2 q Hq HT.
Qed.
Lemma barS6_spechess_2_2 u0 u1 u2 w0 w1 w2 q : 0 < q -> 0 < barT 6 u0 u1 u2 w0 w1 w2 ->
  is_derive (fun x => barG 6 (1 / 6) 2 u0 u1 x w0 w1 w2) u2 (nthR (barS6 u0 u1 u2 w0 w1 w2 q) 9).
Proof.
  intros Hq HT. set (rhs := nthR (barS6 u0 u1 u2 w0 w1 w2 q) 9).
  unfold barG, barPhi, barM, barT, barS, Rpower. simpl Nat.sub.
  auto_derive; [ side_split; first [ (eapply Rlt_le_trans; [ exact HT | right; unfold barT, barS; field ])
    | (apply Rgt_not_eq; eapply Rlt_le_trans; [ exact (Rmult_lt_0_compat _ _ (Rmult_lt_0_compat _ _ Rlt_0_2 Rlt_0_2) HT) | right; unfold barT, barS; field ]) ] | ].
  canon_ln_u (barT 6 u0 u1 u2 w0 w1 w2) ltac:(unfold barT, barS). fold_rpower (barT 6 u0 u1 u2 w0 w1 w2).
  subst rhs. unfold barS6. lazy beta delta [nthR nth] iota zeta. bar u0 u1 u2 w0 w1 w2 q Hq HT.
Qed.
Lemma barS6_spechess_2_3 u0 u1 u2 w0 w1 w2 q : 0 < q -> 0 < barT 6 u0 u1 u2 w0 w1 w2 ->
  is_derive (fun x => barG 6 (1 / 6) 2 u0 u1 u2 x w1 w2) w0 (nthR (barS6 u0 u1 u2 w0 w1 w2 q) 25).
Proof.
  intros Hq HT. set (rhs := nthR (barS6 u0 u1 u2 w0 w1 w2 q) 25).
  unfold barG, barPhi, barM, barT, barS, Rpower. simpl Nat.sub.
  auto_derive; [ side_split; first [ (eapply Rlt_le_trans; [ exact HT | right; unfold barT, barS; field ])
    | (apply Rgt_not_eq; eapply Rlt_le_trans; [ exact (Rmult_lt_0_compat _ _ (Rmult_lt_0_compat _ _ Rlt_0_2 Rlt_0_2) HT) | right; unfold barT, barS; field ]) ] | ].
  canon_ln_u (barT 6 u0 u1 u2 w0 w1 w2) ltac:(unfold barT, barS). fold_rpower (barT 6 u0 u1 u2 w0 w1 w2).
  subst rhs. unfold barS6. lazy beta delta [nthR nth] iota zeta. bar u0 u1 u2 w0 w1 w2 q Hq HT.
Qed.
Lemma barS6_spechess_2_4 u0 u1 u2 w0 w1 w2 q : 0 < q -> 0 < barT 6 u0 u1 u2 w0 w1 w2 ->
  is_derive (fun x => barG 6 (1 / 6) 2 u0 u1 u2 w0 x w2) w1 (nthR (barS6 u0 u1 u2 w0 w1 w2 q) 26).
Proof.
  intros Hq HT. set (rhs := nthR (barS6 u0 u1 u2 w0 w1 w2 q) 26).
  unfold barG, barPhi, barM, barT, barS, Rpower. simpl Nat.sub.
  auto_derive; [ side_split; first [ (eapply Rlt_le_trans; [ exact HT | right; unfold barT, barS; field ])
    | (apply Rgt_not_eq; eapply Rlt_le_trans; [ exact (Rmult_lt_0_compat _ _ (Rmult_lt_0_compat _ _ Rlt_0_2 Rlt_0_2) HT) | right; unfold barT, barS; field ]) ] | ].
  canon_ln_u (barT 6 u0 u1 u2 w0 w1 w2) ltac:(unfold barT, barS). fold_rpower (barT 6 u0 u1 u2 w0 w1 w2).
  subst rhs. unfold barS6. lazy beta delta [nthR nth] iota zeta. bar u0 u1 u2 w0 w1 w2 q Hq HT.
Qed.
Lemma barS6_spechess_2_5 u0 u1 u2 w0 w1 w2 q : 0 < q -> 0 < barT 6 u0 u1 u2 w0 w1 w2 ->
  is_derive (fun x => barG 6 (1 / 6) 2 u0 u1 u2 w0 w1 x) w2 (nthR (barS6 u0 u1 u2 w0 w1 w2 q) 27).
Proof.
  intros Hq HT. set (rhs := nthR (barS6 u0 u1 u2 w0 w1 w2 q) 27).
  unfold barG, barPhi, barM, barT, barS, Rpower. simpl Nat.sub.
  auto_derive; [ side_split; first [ (eapply Rlt_le_trans; [ exact HT | right; unfold barT, barS; field ])
    | (apply Rgt_not_eq; eapply Rlt_le_trans; [ exact (Rmult_lt_0_compat _ _ (Rmult_lt_0_compat _ _ Rlt_0_2 Rlt_0_2) HT) | right; unfold barT, barS; field ]) ] | ].
  canon_ln_u (barT 6 u0 u1 u2 w0 w1 w2) ltac:(unfold barT, barS). fold_rpower (barT 6 u0 u1 u2 w0 w1 w2).
  subst rhs. unfold barS6. lazy beta delta [nthR nth] iota zeta. bar u0 u1 u2 w0 w1 w2 q Hq HT.
Qed.
Lemma barS6_spechess_3_0 u0 u1 u2 w0 w1 w2 q : 0 < q -> 0 < barT 6 u0 u1 u2 w0 w1 w2 ->
  is_derive (fun x => barG 6 (1 / 6) 3 x u1 u2 w0 w1 w2) u0 (nthR (barS6 u0 u1 u2 w0 w1 w2 q) 19).
Proof.
  intros Hq HT. set (rhs := nthR (barS6 u0 u1 u2 w0 w1 w2 q) 19).
  unfold barG, barPhi, barM, barT, barS, Rpower. simpl Nat.sub.
  auto_derive; [ side_split; first [ (eapply Rlt_le_trans; [ exact HT | right; unfold barT, barS; field ])
    | (apply Rgt_not_eq; eapply Rlt_le_trans; [ exact (Rmult_lt_0_compat _ _ (Rmult_lt_0_compat _ _ Rlt_0_2 Rlt_0_2) HT) | right; unfold barT, barS; field ]) ] | ].
  canon_ln_u (barT 6 u0 u1 u2 w0 w1 w2) ltac:(unfold barT, barS). fold_rpower (barT 6 u0 u1 u2 w0 w1 w2).
  subst rhs. unfold barS6. lazy beta delta [nthR nth] iota zeta. bar u0 u1 u2 w0 w1 w2 q Hq HT.
Qed.
Lemma barS6_spechess_3_1 u0 u1 u2 w0 w1 w2 q : 0 < q -> 0 < barT 6 u0 u1 u2 w0 w1 w2 ->
  is_derive (fun x => barG 6 (1 / 6) 3 u0 x u2 w0 w1 w2) u1 (nthR (barS6 u0 u1 u2 w0 w1 w2 q) 22).
Proof.
  intros Hq HT. set (rhs := nthR (barS6 u0 u1 u2 w0 w1 w2 q) 22).
  unfold barG, barPhi, barM, barT, barS, Rpower. simpl Nat.sub.
  auto_derive; [ side_split; first [ (eapply Rlt_le_trans; [ exact HT | right; unfold barT, barS; field ])
    | (apply Rgt_not_eq; eapply Rlt_le_trans; [ exact (Rmult_lt_0_compat _ _ (Rmult_lt_0_compat _ _ Rlt_0_2 Rlt_0_2) HT) | right; unfold barT, barS; field ]) ] | ].
  canon_ln_u (barT 6 u0 u1 u2 w0 w1 w2) ltac:(unfold barT, barS). fold_rpower (barT 6 u0 u1 u2 w0 w1 w2).
  subst rhs. unfold barS6. lazy beta delta [nthR nth] iota zeta. bar u0 u1 u2 w0 w1 w2 q Hq HT.
Qed.
Lemma barS6_spechess_3_2 u0 u1 u2 w0 w1 w2 q : 0 < q -> 0 < barT 6 u0 u1 u2 w0 w1 w2 ->
  is_derive (fun x => barG 6 (1 / 6) 3 u0 u1 x w0 w1 w2) u2 (nthR (barS6 u0 u1 u2 w0 w1 w2 q) 25).
Proof.
  intros Hq HT. set (rhs := nthR (barS6 u0 u1 u2 w0 w1 w2 q) 25).
  unfold barG, barPhi, barM, barT, barS, Rpower. simpl Nat.sub.
  auto_derive; [ side_split; first [ (eapply Rlt_le_trans; [ exact HT | right; unfold barT, barS; field ])
    | (apply Rgt_not_eq; eapply Rlt_le_trans; [ exact (Rmult_lt_0_compat _ _ (Rmult_lt_0_compat _ _ Rlt_0_2 Rlt_0_2) HT) | right; unfold barT, barS; field ]) ] | ].
  canon_ln_u (barT 6 u0 u1 u2 w0 w1 w2) ltac:(unfold barT, barS). fold_rpower (barT 6 u0 u1 u2 w0 w1 w2).
  subst rhs. unfold barS6. lazy beta delta [nthR nth] iota zeta. bar u0 u1 u2 w0 w1 w2 q Hq HT.
Qed.
Lemma barS6_spechess_3_3 u0 u1 u2 w0 w1 w2 q : 0 < q -> 0 < barT 6 u0 u1 u2 w0 w1 w2 ->
  is_derive (fun x => barG 6 (1 / 6) 3 u0 u1 u2 x w1 w2) w0 (nthR (barS6 u0 u1 u2 w0 w1 w2 q) 13).
Proof.
  intros Hq HT. set (rhs := nthR (barS6 u0 u1 u2 w0 w1 w2 q) 13).
  unfold barG, barPhi, barM, barT, barS, Rpower. simpl Nat.sub.
  auto_derive; [ side_split; first [ (eapply Rlt_le_trans; [ exact HT | right; unfold barT, barS; field ])
    | (apply Rgt_not_eq; eapply Rlt_le_trans; [ exact (Rmult_lt_0_compat _ _ (Rmult_lt_0_compat _ _ Rlt_0_2 Rlt_0_2) HT) | right; unfold barT, barS; field ]) ] | ].
  canon_ln_u (barT 6 u0 u1 u2 w0 w1 w2) ltac:(unfold barT, barS). fold_rpower (barT 6 u0 u1 u2 w0 w1 w2).
  subst rhs. unfold barS6. lazy beta delta [nthR nth] iota zeta. bar u0 u1 u2 w0 w1 w2 q Hq HT.
Qed.
Lemma barS6_spechess_3_4 u0 u1 u2 w0 w1 w2 q : 0 < q -> 0 < barT 6 u0 u1 u2 w0 w1 w2 ->
  is_derive (fun x => barG 6 (1 / 6) 3 u0 u1 u2 w0 x w2) w1 (nthR (barS6 u0 u1 u2 w0 w1 w2 q) 16).
Proof.
  intros Hq HT. set (rhs := nthR (barS6 u0 u1 u2 w0 w1 w2 q) 16).
  unfold barG, barPhi, barM, barT, barS, Rpower. simpl Nat.sub.
  auto_derive; [ side_split; first [ (eapply Rlt_le_trans; [ exact HT | right; unfold barT, barS; field ])
    | (apply Rgt_not_eq; eapply Rlt_le_trans; [ exact (Rmult_lt_0_compat _ _ (Rmult_lt_0_compat _ _ Rlt_0_2 Rlt_0_2) HT) | right; unfold barT, barS; field ]) ] | ].
  canon_ln_u (barT 6 u0 u1 u2 w0 w1 w2) ltac:(unfold barT, barS). fold_rpower (barT 6 u0 u1 u2 w0 w1 w2).
  subst rhs. unfold barS6. lazy beta delta [nthR nth] iota zeta. bar u0 u1 u2 w0 w1 w2 q Hq HT.
Qed.
Lemma barS6_spechess_3_5 u0 u1 u2 w0 w1 w2 q : 0 < q -> 0 < barT 6 u0 u1 u2 w0 w1 w2 ->
  is_derive (fun x => barG 6 (1 / 6) 3 u0 u1 u2 w0 w1 x) w2 (nthR (barS6 u0 u1 u2 w0 w1 w2 q) 17).
Proof.
  intros Hq HT. set (rhs := nthR (barS6 u0 u1 u2 w0 w1 w2 q) 17).
  unfold barG, barPhi, barM, barT, barS, Rpower. simpl Nat.sub.
  auto_derive; [ side_split; first [ (eapply Rlt_le_trans; [ exact HT | right; unfold barT, barS; field ])
    | (apply Rgt_not_eq; eapply Rlt_le_trans; [ exact (Rmult_lt_0_compat _ _ (Rmult_lt_0_compat _ _ Rlt_0_2 Rlt_0_2) HT) | right; unfold barT, barS; field ]) ] | ].
  canon_ln_u (barT 6 u0 u1 u2 w0 w1 w2) ltac:(unfold barT, barS). fold_rpower (barT 6 u0 u1 u2 w0 w1 w2).
  subst rhs. unfold barS6. lazy beta delta [nthR nth] iota zeta. bar u0 u1 u2 w0 w1 w2 q Hq HT.
Qed.
Lemma barS6_spechess_4_0 u0 u1 u2 w0 w1 w2 q : 0 < q -> 0 < barT 6 u0 u1 u2 w0 w1 w2 ->
  is_derive (fun x => barG 6 (1 / 6) 4 x u1 u2 w0 w1 w2) u0 (nthR (barS6 u0 u1 u2 w0 w1 w2 q) 20).
Proof.
  intros Hq HT. set (rhs := nthR (barS6 u0 u1 u2 w0 w1 w2 q) 20).
  unfold barG, barPhi, barM, barT, barS, Rpower. simpl Nat.sub.
  auto_derive; [ side_split; first [ (eapply Rlt_le_trans; [ exact HT | right; unfold barT, barS; field ])
    | (apply Rgt_not_eq; eapply Rlt_le_trans; [ exact (Rmult_lt_0_compat _ _ (Rmult_lt_0_compat _ _ Rlt_0_2 Rlt_0_2) HT) | right; unfold barT, barS; field ]) ] | ].
  canon_ln_u (barT 6 u0 u1 u2 w0 w1 w2) ltac:(unfold barT, barS). fold_rpower (barT 6 u0 u1 u2 w0 w1 w2).
  subst rhs. unfold barS6. lazy beta delta [nthR nth] iota zeta. bar u0 u1 u2 w0 w1 w2 q Hq HT.
Qed.
Lemma barS6_spechess_4_1 u0 u1 u2 w0 w1 w2 q : 0 < q -> 0 < barT 6 u0 u1 u2 w0 w1 w2 ->
  is_derive (fun x => barG 6 (1 / 6) 4 u0 x u2 w0 w1 w2) u1 (nthR (barS6 u0 u1 u2 w0 w1 w2 q) 23).
Proof.
  intros Hq HT. set (rhs := nthR (barS6 u0 u1 u2 w0 w1 w2 q) 23).
  unfold barG, barPhi, barM, barT, barS, Rpower. simpl Nat.sub.
  auto_derive; [ side_split; first [ (eapply Rlt_le_trans; [ exact HT | right; unfold barT, barS; field ])
    | (apply Rgt_not_eq; eapply Rlt_le_trans; [ exact (Rmult_lt_0_compat _ _ (Rmult_lt_0_compat _ _ Rlt_0_2 Rlt_0_2) HT) | right; unfold barT, barS; field ]) ] | ].
  canon_ln_u (barT 6 u0 u1 u2 w0 w1 w2) ltac:(unfold barT, barS). fold_rpower (barT 6 u0 u1 u2 w0 w1 w2).
  subst rhs. unfold barS6. lazy beta delta [nthR nth] iota zeta. bar u0 u1 u2 w0 w1 w2 q Hq HT.
Qed.
Lemma barS6_spechess_4_2 u0 u1 u2 w0 w1 w2 q : 0 < q -> 0 < barT 6 u0 u1 u2 w0 w1 w2 ->
  is_derive (fun x => barG 6 (1 / 6) 4 u0 u1 x w0 w1 w2) u2 (nthR (barS6 u0 u1 u2 w0 w1 w2 q) 26).
Proof.
  intros Hq HT. set (rhs := nthR (barS6 u0 u1 u2 w0 w1 w2 q) 26).
  unfold barG, barPhi, barM, barT, barS, Rpower. simpl Nat.sub.
  auto_derive; [ side_split; first [ (eapply Rlt_le_trans; [ exact HT | right; unfold barT, barS; field ])
    | (apply Rgt_not_eq; eapply Rlt_le_trans; [ exact (Rmult_lt_0_compat _ _ (Rmult_lt_0_compat _ _ Rlt_0_2 Rlt_0_2) HT) | right; unfold barT, barS; field ]) ] | ].
  canon_ln_u (barT 6 u0 u1 u2 w0 w1 w2) ltac:(unfold barT, barS). fold_rpower (barT 6 u0 u1 u2 w0 w1 w2).
  subst rhs. unfold barS6. lazy beta delta [nthR nth] iota zeta. bar u0 u1 u2 w0 w1 w2 q Hq HT.
Qed.
Lemma barS6_spechess_4_3 u0 u1 u2 w0 w1 w2 q : 0 < q -> 0 < barT 6 u0 u1 u2 w0 w1 w2 ->
  is_derive (fun x => barG 6 (1 / 6) 4 u0 u1 u2 x w1 w2) w0 (nthR (barS6 u0 u1 u2 w0 w1 w2 q) 16).
Proof.
  intros Hq HT. set (rhs := nthR (barS6 u0 u1 u2 w0 w1 w2 q) 16).
  unfold barG, barPhi, barM, barT, barS, Rpower. simpl Nat.sub.
  auto_derive; [ side_split; first [ (eapply Rlt_le_trans; [ exact HT | right; unfold barT, barS; field ])
    | (apply Rgt_not_eq; eapply Rlt_le_trans; [ exact (Rmult_lt_0_compat _ _ (Rmult_lt_0_compat _ _ Rlt_0_2 Rlt_0_2) HT) | right; unfold barT, barS; field ]) ] | ].
  canon_ln_u (barT 6 u0 u1 u2 w0 w1 w2) ltac:(unfold barT, barS). fold_rpower (barT 6 u0 u1 u2 w0 w1 w2).
  subst rhs. unfold barS6. lazy beta delta [nthR nth] iota zeta. bar u0 u1 u2 w0 w1 w2 q Hq HT.
Qed.
Lemma barS6_spechess_4_4 u0 u1 u2 w0 w1 w2 q : 0 < q -> 0 < barT 6 u0 u1 u2 w0 w1 w2 ->
  is_derive (fun x => barG 6 (1 / 6) 4 u0 u1 u2 w0 x w2) w1 (nthR (barS6 u0 u1 u2 w0 w1 w2 q) 14).
Proof.
  intros Hq HT. set (rhs := nthR (barS6 u0 u1 u2 w0 w1 w2 q) 14).
  unfold barG, barPhi, barM, barT, barS, Rpower. simpl Nat.sub.
  auto_derive; [ side_split; first [ (eapply Rlt_le_trans; [ exact HT | right; unfold barT, barS; field ])
    | (apply Rgt_not_eq; eapply Rlt_le_trans; [ exact (Rmult_lt_0_compat _ _ (Rmult_lt_0_compat _ _ Rlt_0_2 Rlt_0_2) HT) | right; unfold barT, barS; field ]) ] | ].
  canon_ln_u (barT 6 u0 u1 u2 w0 w1 w2) ltac:(unfold barT, barS). fold_rpower (barT 6 u0 u1 u2 w0 w1 w2).
  subst rhs. unfold barS6. lazy beta delta [nthR nth] iota zeta. bar u0 u1 u2 w0 w1 w2 q Hq HT.
Qed.
Lemma barS6_spechess_4_5 u0 u1 u2 w0 w1 w2 q : 0 < q -> 0 < barT 6 u0 u1 u2 w0 w1 w2 ->
  is_derive (fun x => barG 6 (1 / 6) 4 u0 u1 u2 w0 w1 x) w2 (nthR (barS6 u0 u1 u2 w0 w1 w2 q) 18).
Proof.
  intros Hq HT. set (rhs := nthR (barS6 u0 u1 u2 w0 w1 w2 q) 18).
  unfold barG, barPhi, barM, barT, barS, Rpower. simpl Nat.sub.
  auto_derive; [ side_split; first [ (eapply Rlt_le_trans; [ exact HT | right; unfold barT, barS; field ])
    | (apply Rgt_not_eq; eapply Rlt_le_trans; [ exact (Rmult_lt_0_compat _ _ (Rmult_lt_0_compat _ _ Rlt_0_2 Rlt_0_2) HT) | right; unfold barT, barS; field ]) ] | ].
  canon_ln_u (barT 6 u0 u1 u2 w0 w1 w2) ltac:(unfold barT, barS). fold_rpower (barT 6 u0 u1 u2 w0 w1 w2).
  subst rhs. unfold barS6. lazy beta delta [nthR nth] iota zeta. bar u0 u1 u2 w0 w1 w2 q Hq HT.
Qed.
Lemma barS6_spechess_5_0 u0 u1 u2 w0 w1 w2 q : 0 < q -> 0 < barT 6 u0 u1 u2 w0 w1 w2 ->
  is_derive (fun x => barG 6 (1 / 6) 5 x u1 u2 w0 w1 w2) u0 (nthR (barS6 u0 u1 u2 w0 w1 w2 q) 21).
Proof.
  intros Hq HT. set (rhs := nthR (barS6 u0 u1 u2 w0 w1 w2 q) 21).
  unfold barG, barPhi, barM, barT, barS, Rpower. simpl Nat.sub.
  auto_derive; [ side_split; first [ (eapply Rlt_le_trans; [ exact HT | right; unfold barT, barS; field ])
    | (apply Rgt_not_eq; eapply Rlt_le_trans; [ exact (Rmult_lt_0_compat _ _ (Rmult_lt_0_compat _ _ Rlt_0_2 Rlt_0_2) HT) | right; unfold barT, barS; field ]) ] | ].
  canon_ln_u (barT 6 u0 u1 u2 w0 w1 w2) ltac:(unfold barT, barS). fold_rpower (barT 6 u0 u1 u2 w0 w1 w2).
  subst rhs. unfold barS6. lazy beta delta [nthR nth] iota zeta. bar u0 u1 u2 w0 w1 w2 q Hq HT.
Qed.
Lemma barS6_spechess_5_1 u0 u1 u2 w0 w1 w2 q : 0 < q -> 0 < barT 6 u0 u1 u2 w0 w1 w2 ->
  is_derive (fun x => barG 6 (1 / 6) 5 u0 x u2 w0 w1 w2) u1 (nthR (barS6 u0 u1 u2 w0 w1 w2 q) 24).
Proof.
  intros Hq HT. set (rhs := nthR (barS6 u0 u1 u2 w0 w1 w2 q) 24).
  unfold barG, barPhi, barM, barT, barS, Rpower. simpl Nat.sub.
  auto_derive; [ side_split; first [ (eapply Rlt_le_trans; [ exact HT | right; unfold barT, barS; field ])
    | (apply Rgt_not_eq; eapply Rlt_le_trans; [ exact (Rmult_lt_0_compat _ _ (Rmult_lt_0_compat _ _ Rlt_0_2 Rlt_0_2) HT) | right; unfold barT, barS; field ]) ] | ].
  canon_ln_u (barT 6 u0 u1 u2 w0 w1 w2) ltac:(unfold barT, barS). fold_rpower (barT 6 u0 u1 u2 w0 w1 w2).
  subst rhs. unfold barS6. lazy beta delta [nthR nth] iota zeta. bar u0 u1 u2 w0 w1 w2 q Hq HT.
Qed.
Lemma barS6_spechess_5_2 u0 u1 u2 w0 w1 w2 q : 0 < q -> 0 < barT 6 u0 u1 u2 w0 w1 w2 ->
  is_derive (fun x => barG 6 (1 / 6) 5 u0 u1 x w0 w1 w2) u2 (nthR (barS6 u0 u1 u2 w0 w1 w2 q) 27).
Proof.
  intros Hq HT. set (rhs := nthR (barS6 u0 u1 u2 w0 w1 w2 q) 27).
  unfold barG, barPhi, barM, barT, barS, Rpower. simpl Nat.sub.
  auto_derive; [ side_split; first [ (eapply Rlt_le_trans; [ exact HT | right; unfold barT, barS; field ])
    | (apply Rgt_not_eq; eapply Rlt_le_trans; [ exact (Rmult_lt_0_compat _ _ (Rmult_lt_0_compat _ _ Rlt_0_2 Rlt_0_2) HT) | right; unfold barT, barS; field ]) ] | ].
  canon_ln_u (barT 6 u0 u1 u2 w0 w1 w2) ltac:(unfold barT, barS). fold_rpower (barT 6 u0 u1 u2 w0 w1 w2).
  subst rhs. unfold barS6. lazy beta delta [nthR nth] iota zeta. bar u0 u1 u2 w0 w1 w2 q Hq HT.
Qed.
Lemma barS6_spechess_5_3 u0 u1 u2 w0 w1 w2 q : 0 < q -> 0 < barT 6 u0 u1 u2 w0 w1 w2 ->
  is_derive (fun x => barG 6 (1 / 6) 5 u0 u1 u2 x w1 w2) w0 (nthR (barS6 u0 u1 u2 w0 w1 w2 q) 17).
Proof.
  intros Hq HT. set (rhs := nthR (barS6 u0 u1 u2 w0 w1 w2 q) 17).
  unfold barG, barPhi, barM, barT, barS, Rpower. simpl Nat.sub.
  auto_derive; [ side_split; first [ (eapply Rlt_le_trans; [ exact HT | right; unfold barT, barS; field ])
    | (apply Rgt_not_eq; eapply Rlt_le_trans; [ exact (Rmult_lt_0_compat _ _ (Rmult_lt_0_compat _ _ Rlt_0_2 Rlt_0_2) HT) | right; unfold barT, barS; field ]) ] | ].
  canon_ln_u (barT 6 u0 u1 u2 w0 w1 w2) ltac:(unfold barT, barS). fold_rpower (barT 6 u0 u1 u2 w0 w1 w2).
  subst rhs. unfold barS6. lazy beta delta [nthR nth] iota zeta. bar u0 u1 u2 w0 w1 w2 q Hq HT.
Qed.
Lemma barS6_spechess_5_4 u0 u1 u2 w0 w1 w2 q : 0 < q -> 0 < barT 6 u0 u1 u2 w0 w1 w2 ->
  is_derive (fun x => barG 6 (1 / 6) 5 u0 u1 u2 w0 x w2) w1 (nthR (barS6 u0 u1 u2 w0 w1 w2 q) 18).
Proof.
  intros Hq HT. set (rhs := nthR (barS6 u0 u1 u2 w0 w1 w2 q) 18).
  unfold barG, barPhi, barM, barT, barS, Rpower. simpl Nat.sub.
  auto_derive; [ side_split; first [ (eapply Rlt_le_trans; [ exact HT | right; unfold barT, barS; field ])
    | (apply Rgt_not_eq; eapply Rlt_le_trans; [ exact (Rmult_lt_0_compat _ _ (Rmult_lt_0_compat _ _ Rlt_0_2 Rlt_0_2) HT) | right; unfold barT, barS; field ]) ] | ].
  canon_ln_u (barT 6 u0 u1 u2 w0 w1 w2) ltac:(unfold barT, barS). fold_rpower (barT 6 u0 u1 u2 w0 w1 w2).
  subst rhs. unfold barS6. lazy beta delta [nthR nth] iota zeta. bar u0 u1 u2 w0 w1 w2 q Hq HT.
Qed.
Lemma barS6_spechess_5_5 u0 u1 u2 w0 w1 w2 q : 0 < q -> 0 < barT 6 u0 u1 u2 w0 w1 w2 ->
  is_derive (fun x => barG 6 (1 / 6) 5 u0 u1 u2 w0 w1 x) w2 (nthR (barS6 u0 u1 u2 w0 w1 w2 q) 15).
Proof.
  intros Hq HT. set (rhs := nthR (barS6 u0 u1 u2 w0 w1 w2 q) 15).
  unfold barG, barPhi, barM, barT, barS, Rpower. simpl Nat.sub.
  auto_derive; [ side_split; first [ (eapply Rlt_le_trans; [ exact HT | right; unfold barT, barS; field ])
    | (apply Rgt_not_eq; eapply Rlt_le_trans; [ exact (Rmult_lt_0_compat _ _ (Rmult_lt_0_compat _ _ Rlt_0_2 Rlt_0_2) HT) | right; unfold barT, barS; field ]) ] | ].
  canon_ln_u (barT 6 u0 u1 u2 w0 w1 w2) ltac:(unfold barT, barS). fold_rpower (barT 6 u0 u1 u2 w0 w1 w2).
  subst rhs. unfold barS6. lazy beta delta [nthR nth] iota zeta. bar u0 u1 u2 w0 w1 w2 q Hq HT.
Qed.
Lemma barS6_near_0 u0 u1 u2 w0 w1 w2 : 0 < barT 6 u0 u1 u2 w0 w1 w2 -> locally u0 (fun x => 0 < barT 6 x u1 u2 w0 w1 w2).
Proof. intro HT. apply (locally_gt_ex (fun x => barT 6 x u1 u2 w0 w1 w2)); [ unfold barT, barS; auto_derive; exact I | exact HT ]. Qed.
Lemma barS6_near_1 u0 u1 u2 w0 w1 w2 : 0 < barT 6 u0 u1 u2 w0 w1 w2 -> locally u1 (fun x => 0 < barT 6 u0 x u2 w0 w1 w2).
Proof. intro HT. apply (locally_gt_ex (fun x => barT 6 u0 x u2 w0 w1 w2)); [ unfold barT, barS; auto_derive; exact I | exact HT ]. Qed.
Lemma barS6_near_2 u0 u1 u2 w0 w1 w2 : 0 < barT 6 u0 u1 u2 w0 w1 w2 -> locally u2 (fun x => 0 < barT 6 u0 u1 x w0 w1 w2).
Proof. intro HT. apply (locally_gt_ex (fun x => barT 6 u0 u1 x w0 w1 w2)); [ unfold barT, barS; auto_derive; exact I | exact HT ]. Qed.
Lemma barS6_near_3 u0 u1 u2 w0 w1 w2 : 0 < barT 6 u0 u1 u2 w0 w1 w2 -> locally w0 (fun x => 0 < barT 6 u0 u1 u2 x w1 w2).
Proof. intro HT. apply (locally_gt_ex (fun x => barT 6 u0 u1 u2 x w1 w2)); [ unfold barT, barS; auto_derive; exact I | exact HT ]. Qed.
Lemma barS6_near_4 u0 u1 u2 w0 w1 w2 : 0 < barT 6 u0 u1 u2 w0 w1 w2 -> locally w1 (fun x => 0 < barT 6 u0 u1 u2 w0 x w2).
Proof. intro HT. apply (locally_gt_ex (fun x => barT 6 u0 u1 u2 w0 x w2)); [ unfold barT, barS; auto_derive; exact I | exact HT ]. Qed.
Lemma barS6_near_5 u0 u1 u2 w0 w1 w2 : 0 < barT 6 u0 u1 u2 w0 w1 w2 -> locally w2 (fun x => 0 < barT 6 u0 u1 u2 w0 w1 x).
Proof. intro HT. apply (locally_gt_ex (fun x => barT 6 u0 u1 u2 w0 w1 x)); [ unfold barT, barS; auto_derive; exact I | exact HT ]. Qed.
Lemma barS6_value_ok : barS6_value_stmt.
Proof. unfold barS6_value_stmt. intros. apply barS6_val_eq; assumption. Qed.
Lemma barS6_noq_ok : barS6_noq_stmt.
Proof.
  unfold barS6_noq_stmt. intros u0 u1 u2 w0 w1 w2 q Hq HT.
  apply (is_derive_near _ (fun _ => barPhi 6 (1 / 6) u0 u1 u2 w0 w1 w2)).
  - apply (locally_gt_ex (fun x => x) q 0) in Hq; [ | auto_derive; exact I ]. revert Hq; apply filter_imp; intros x Hx.
    symmetry; apply barS6_val_eq; assumption.
  - auto_derive; [ exact I | ring ].
Qed.
Lemma barS6_grad_ok : barS6_grad_stmt.
Proof.
  unfold barS6_grad_stmt. intros u0 u1 u2 w0 w1 w2 q Hq HT. cbv [all_upto]; side_split;
  lazy beta delta [upd firstn skipn app nthR nth Nat.add] iota.
  - apply (is_derive_near _ (fun x => barPhi 6 (1 / 6) x u1 u2 w0 w1 w2)).
    + generalize (barS6_near_0 u0 u1 u2 w0 w1 w2 HT); apply filter_imp; intros x Hx. symmetry. exact (barS6_val_eq x u1 u2 w0 w1 w2 q Hq Hx).
    + match goal with |- is_derive _ _ ?d => replace d with (barG 6 (1 / 6) 0 u0 u1 u2 w0 w1 w2) by (symmetry; exact (barS6_grad_eq_0 u0 u1 u2 w0 w1 w2 q Hq HT)) end.
      exact (barS6_specgrad_0 u0 u1 u2 w0 w1 w2 HT).
  - apply (is_derive_near _ (fun x => barPhi 6 (1 / 6) u0 x u2 w0 w1 w2)).
    + generalize (barS6_near_1 u0 u1 u2 w0 w1 w2 HT); apply filter_imp; intros x Hx. symmetry. exact (barS6_val_eq u0 x u2 w0 w1 w2 q Hq Hx).
    + match goal with |- is_derive _ _ ?d => replace d with (barG 6 (1 / 6) 1 u0 u1 u2 w0 w1 w2) by (symmetry; exact (barS6_grad_eq_1 u0 u1 u2 w0 w1 w2 q Hq HT)) end.
      exact (barS6_specgrad_1 u0 u1 u2 w0 w1 w2 HT).
  - apply (is_derive_near _ (fun x => barPhi 6 (1 / 6) u0 u1 x w0 w1 w2)).
    + generalize (barS6_near_2 u0 u1 u2 w0 w1 w2 HT); apply filter_imp; intros x Hx. symmetry. exact (barS6_val_eq u0 u1 x w0 w1 w2 q Hq Hx).
    + match goal with |- is_derive _ _ ?d => replace d with (barG 6 (1 / 6) 2 u0 u1 u2 w0 w1 w2) by (symmetry; exact (barS6_grad_eq_2 u0 u1 u2 w0 w1 w2 q Hq HT)) end.
      exact (barS6_specgrad_2 u0 u1 u2 w0 w1 w2 HT).
  - apply (is_derive_near _ (fun x => barPhi 6 (1 / 6) u0 u1 u2 x w1 w2)).
    + generalize (barS6_near_3 u0 u1 u2 w0 w1 w2 HT); apply filter_imp; intros x Hx. symmetry. exact (barS6_val_eq u0 u1 u2 x w1 w2 q Hq Hx).
    + match goal with |- is_derive _ _ ?d => replace d with (barG 6 (1 / 6) 3 u0 u1 u2 w0 w1 w2) by (symmetry; exact (barS6_grad_eq_3 u0 u1 u2 w0 w1 w2 q Hq HT)) end.
      exact (barS6_specgrad_3 u0 u1 u2 w0 w1 w2 HT).
  - apply (is_derive_near _ (fun x => barPhi 6 (1 / 6) u0 u1 u2 w0 x w2)).
    + generalize (barS6_near_4 u0 u1 u2 w0 w1 w2 HT); apply filter_imp; intros x Hx. symmetry. exact (barS6_val_eq u0 u1 u2 w0 x w2 q Hq Hx).
    + match goal with |- is_derive _ _ ?d => replace d with (barG 6 (1 / 6) 4 u0 u1 u2 w0 w1 w2) by (symmetry; exact (barS6_grad_eq_4 u0 u1 u2 w0 w1 w2 q Hq HT)) end.
      exact (barS6_specgrad_4 u0 u1 u2 w0 w1 w2 HT).
  - apply (is_derive_near _ (fun x => barPhi 6 (1 / 6) u0 u1 u2 w0 w1 x)).
    + generalize (barS6_near_5 u0 u1 u2 w0 w1 w2 HT); apply filter_imp; intros x Hx. symmetry. exact (barS6_val_eq u0 u1 u2 w0 w1 x q Hq Hx).
    + match goal with |- is_derive _ _ ?d => replace d with (barG 6 (1 / 6) 5 u0 u1 u2 w0 w1 w2) by (symmetry; exact (barS6_grad_eq_5 u0 u1 u2 w0 w1 w2 q Hq HT)) end.
      exact (barS6_specgrad_5 u0 u1 u2 w0 w1 w2 HT).
Qed.
Lemma barS6_hess_ok : barS6_hess_stmt.
Proof.
  unfold barS6_hess_stmt. intros u0 u1 u2 w0 w1 w2 q Hq HT. cbv [all_upto]; side_split;
  lazy beta delta [upd firstn skipn app nthR nth Nat.add Nat.mul bar_hidx bar_sidx Nat.ltb Nat.leb Nat.eqb Nat.sub Nat.min Nat.max] iota.
  - apply (is_derive_near _ (fun x => barG 6 (1 / 6) 0 x u1 u2 w0 w1 w2)).
    + generalize (barS6_near_0 u0 u1 u2 w0 w1 w2 HT); apply filter_imp; intros x Hx. symmetry. exact (barS6_grad_eq_0 x u1 u2 w0 w1 w2 q Hq Hx).
    + exact (barS6_spechess_0_0 u0 u1 u2 w0 w1 w2 q Hq HT).
  - apply (is_derive_near _ (fun x => barG 6 (1 / 6) 0 u0 x u2 w0 w1 w2)).
    + generalize (barS6_near_1 u0 u1 u2 w0 w1 w2 HT); apply filter_imp; intros x Hx. symmetry. exact (barS6_grad_eq_0 u0 x u2 w0 w1 w2 q Hq Hx).
    + exact (barS6_spechess_0_1 u0 u1 u2 w0 w1 w2 q Hq HT).
  - apply (is_derive_near _ (fun x => barG 6 (1 / 6) 0 u0 u1 x w0 w1 w2)).
    + generalize (barS6_near_2 u0 u1 u2 w0 w1 w2 HT); apply filter_imp; intros x Hx. symmetry. exact (barS6_grad_eq_0 u0 u1 x w0 w1 w2 q Hq Hx).
    + exact (barS6_spechess_0_2 u0 u1 u2 w0 w1 w2 q Hq HT).
  - apply (is_derive_near _ (fun x => barG 6 (1 / 6) 0 u0 u1 u2 x w1 w2)).
    + generalize (barS6_near_3 u0 u1 u2 w0 w1 w2 HT); apply filter_imp; intros x Hx. symmetry. exact (barS6_grad_eq_0 u0 u1 u2 x w1 w2 q Hq Hx).
    + exact (barS6_spechess_0_3 u0 u1 u2 w0 w1 w2 q Hq HT).
  - apply (is_derive_near _ (fun x => barG 6 (1 / 6) 0 u0 u1 u2 w0 x w2)).
    + generalize (barS6_near_4 u0 u1 u2 w0 w1 w2 HT); apply filter_imp; intros x Hx. symmetry. exact (barS6_grad_eq_0 u0 u1 u2 w0 x w2 q Hq Hx).
    + exact (barS6_spechess_0_4 u0 u1 u2 w0 w1 w2 q Hq HT).
  - apply (is_derive_near _ (fun x => barG 6 (1 / 6) 0 u0 u1 u2 w0 w1 x)).
    + generalize (barS6_near_5 u0 u1 u2 w0 w1 w2 HT); apply filter_imp; intros x Hx. symmetry. exact (barS6_grad_eq_0 u0 u1 u2 w0 w1 x q Hq Hx).
    + exact (barS6_spechess_0_5 u0 u1 u2 w0 w1 w2 q Hq HT).
  - apply (is_derive_near _ (fun x => barG 6 (1 / 6) 1 x u1 u2 w0 w1 w2)).
    + generalize (barS6_near_0 u0 u1 u2 w0 w1 w2 HT); apply filter_imp; intros x Hx. symmetry. exact (barS6_grad_eq_1 x u1 u2 w0 w1 w2 q Hq Hx).
    + exact (barS6_spechess_1_0 u0 u1 u2 w0 w1 w2 q Hq HT).
  - apply (is_derive_near _ (fun x => barG 6 (1 / 6) 1 u0 x u2 w0 w1 w2)).
    + generalize (barS6_near_1 u0 u1 u2 w0 w1 w2 HT); apply filter_imp; intros x Hx. symmetry. exact (barS6_grad_eq_1 u0 x u2 w0 w1 w2 q Hq Hx).
    + exact (barS6_spechess_1_1 u0 u1 u2 w0 w1 w2 q Hq HT).
  - apply (is_derive_near _ (fun x => barG 6 (1 / 6) 1 u0 u1 x w0 w1 w2)).
    + generalize (barS6_near_2 u0 u1 u2 w0 w1 w2 HT); apply filter_imp; intros x Hx. symmetry. exact (barS6_grad_eq_1 u0 u1 x w0 w1 w2 q Hq Hx).
    + exact (barS6_spechess_1_2 u0 u1 u2 w0 w1 w2 q Hq HT).
  - apply (is_derive_near _ (fun x => barG 6 (1 / 6) 1 u0 u1 u2 x w1 w2)).
    + generalize (barS6_near_3 u0 u1 u2 w0 w1 w2 HT); apply filter_imp; intros x Hx. symmetry. exact (barS6_grad_eq_1 u0 u1 u2 x w1 w2 q Hq Hx).
    + exact (barS6_spechess_1_3 u0 u1 u2 w0 w1 w2 q Hq HT).
  - apply (is_derive_near _ (fun x => barG 6 (1 / 6) 1 u0 u1 u2 w0 x w2)).
    + generalize (barS6_near_4 u0 u1 u2 w0 w1 w2 HT); apply filter_imp; intros x Hx. symmetry. exact (barS6_grad_eq_1 u0 u1 u2 w0 x w2 q Hq Hx).
    + exact (barS6_spechess_1_4 u0 u1 u2 w0 w1 w2 q Hq HT).
  - apply (is_derive_near _ (fun x => barG 6 (1 / 6) 1 u0 u1 u2 w0 w1 x)).
    + generalize (barS6_near_5 u0 u1 u2 w0 w1 w2 HT); apply filter_imp; intros x Hx. symmetry. exact (barS6_grad_eq_1 u0 u1 u2 w0 w1 x q Hq Hx).
    + exact (barS6_spechess_1_5 u0 u1 u2 w0 w1 w2 q Hq HT).
  - apply (is_derive_near _ (fun x => barG 6 (1 / 6) 2 x u1 u2 w0 w1 w2)).
    + generalize (barS6_near_0 u0 u1 u2 w0 w1 w2 HT); apply filter_imp; intros x Hx. symmetry. exact (barS6_grad_eq_2 x u1 u2 w0 w1 w2 q Hq Hx).
    + exact (barS6_spechess_2_0 u0 u1 u2 w0 w1 w2 q Hq HT).
  - apply (is_derive_near _ (fun x => barG 6 (1 / 6) 2 u0 x u2 w0 w1 w2)).
    + generalize (barS6_near_1 u0 u1 u2 w0 w1 w2 HT); apply filter_imp; intros x Hx. symmetry. exact (barS6_grad_eq_2 u0 x u2 w0 w1 w2 q Hq Hx).
    + exact (barS6_spechess_2_1 u0 u1 u2 w0 w1 w2 q Hq HT).
  - apply (is_derive_near _ (fun x => barG 6 (1 / 6) 2 u0 u1 x w0 w1 w2)).
    + generalize (barS6_near_2 u0 u1 u2 w0 w1 w2 HT); apply filter_imp; intros x Hx. symmetry. exact (barS6_grad_eq_2 u0 u1 x w0 w1 w2 q Hq Hx).
    + exact (barS6_spechess_2_2 u0 u1 u2 w0 w1 w2 q Hq HT).
  - apply (is_derive_near _ (fun x => barG 6 (1 / 6) 2 u0 u1 u2 x w1 w2)).
    + generalize (barS6_near_3 u0 u1 u2 w0 w1 w2 HT); apply filter_imp; intros x Hx. symmetry. exact (barS6_grad_eq_2 u0 u1 u2 x w1 w2 q Hq Hx).
    + exact (barS6_spechess_2_3 u0 u1 u2 w0 w1 w2 q Hq HT).
  - apply (is_derive_near _ (fun x => barG 6 (1 / 6) 2 u0 u1 u2 w0 x w2)).
    + generalize (barS6_near_4 u0 u1 u2 w0 w1 w2 HT); apply filter_imp; intros x Hx. symmetry. exact (barS6_grad_eq_2 u0 u1 u2 w0 x w2 q Hq Hx).
    + exact (barS6_spechess_2_4 u0 u1 u2 w0 w1 w2 q Hq HT).
  - apply (is_derive_near _ (fun x => barG 6 (1 / 6) 2 u0 u1 u2 w0 w1 x)).
    + generalize (barS6_near_5 u0 u1 u2 w0 w1 w2 HT); apply filter_imp; intros x Hx. symmetry. exact (barS6_grad_eq_2 u0 u1 u2 w0 w1 x q Hq Hx).
    + exact (barS6_spechess_2_5 u0 u1 u2 w0 w1 w2 q Hq HT).
  - apply (is_derive_near _ (fun x => barG 6 (1 / 6) 3 x u1 u2 w0 w1 w2)).
    + generalize (barS6_near_0 u0 u1 u2 w0 w1 w2 HT); apply filter_imp; intros x Hx. symmetry. exact (barS6_grad_eq_3 x u1 u2 w0 w1 w2 q Hq Hx).
    + exact (barS6_spechess_3_0 u0 u1 u2 w0 w1 w2 q Hq HT).
  - apply (is_derive_near _ (fun x => barG 6 (1 / 6) 3 u0 x u2 w0 w1 w2)).
    + generalize (barS6_near_1 u0 u1 u2 w0 w1 w2 HT); apply filter_imp; intros x Hx. symmetry. exact (barS6_grad_eq_3 u0 x u2 w0 w1 w2 q Hq Hx).
    + exact (barS6_spechess_3_1 u0 u1 u2 w0 w1 w2 q Hq HT).
  - apply (is_derive_near _ (fun x => barG 6 (1 / 6) 3 u0 u1 x w0 w1 w2)).
    + generalize (barS6_near_2 u0 u1 u2 w0 w1 w2 HT); apply filter_imp; intros x Hx. symmetry. exact (barS6_grad_eq_3 u0 u1 x w0 w1 w2 q Hq Hx).
    + exact (barS6_spechess_3_2 u0 u1 u2 w0 w1 w2 q Hq HT).
  - apply (is_derive_near _ (fun x => barG 6 (1 / 6) 3 u0 u1 u2 x w1 w2)).
    + generalize (barS6_near_3 u0 u1 u2 w0 w1 w2 HT); apply filter_imp; intros x Hx. symmetry. exact (barS6_grad_eq_3 u0 u1 u2 x w1 w2 q Hq Hx).
    + exact (barS6_spechess_3_3 u0 u1 u2 w0 w1 w2 q Hq HT).
  - apply (is_derive_near _ (fun x => barG 6 (1 / 6) 3 u0 u1 u2 w0 x w2)).
    + generalize (barS6_near_4 u0 u1 u2 w0 w1 w2 HT); apply filter_imp; intros x Hx. symmetry. exact (barS6_grad_eq_3 u0 u1 u2 w0 x w2 q Hq Hx).
    + exact (barS6_spechess_3_4 u0 u1 u2 w0 w1 w2 q Hq HT).
  - apply (is_derive_near _ (fun x => barG 6 (1 / 6) 3 u0 u1 u2 w0 w1 x)).
    + generalize (barS6_near_5 u0 u1 u2 w0 w1 w2 HT); apply filter_imp; intros x Hx. symmetry. exact (barS6_grad_eq_3 u0 u1 u2 w0 w1 x q Hq Hx).
    + exact (barS6_spechess_3_5 u0 u1 u2 w0 w1 w2 q Hq HT).
  - apply (is_derive_near _ (fun x => barG 6 (1 / 6) 4 x u1 u2 w0 w1 w2)).
    + generalize (barS6_near_0 u0 u1 u2 w0 w1 w2 HT); apply filter_imp; intros x Hx. symmetry. exact (barS6_grad_eq_4 x u1 u2 w0 w1 w2 q Hq Hx).
    + exact (barS6_spechess_4_0 u0 u1 u2 w0 w1 w2 q Hq HT).
  - apply (is_derive_near _ (fun x => barG 6 (1 / 6) 4 u0 x u2 w0 w1 w2)).
    + generalize (barS6_near_1 u0 u1 u2 w0 w1 w2 HT); apply filter_imp; intros x Hx. symmetry. exact (barS6_grad_eq_4 u0 x u2 w0 w1 w2 q Hq Hx).
    + exact (barS6_spechess_4_1 u0 u1 u2 w0 w1 w2 q Hq HT).
  - apply (is_derive_near _ (fun x => barG 6 (1 / 6) 4 u0 u1 x w0 w1 w2)).
    + generalize (barS6_near_2 u0 u1 u2 w0 w1 w2 HT); apply filter_imp; intros x Hx. symmetry. exact (barS6_grad_eq_4 u0 u1 x w0 w1 w2 q Hq Hx).
    + exact (barS6_spechess_4_2 u0 u1 u2 w0 w1 w2 q Hq HT).
  - apply (is_derive_near _ (fun x => barG 6 (1 / 6) 4 u0 u1 u2 x w1 w2)).
    + generalize (barS6_near_3 u0 u1 u2 w0 w1 w2 HT); apply filter_imp; intros x Hx. symmetry. exact (barS6_grad_eq_4 u0 u1 u2 x w1 w2 q Hq Hx).
    + exact (barS6_spechess_4_3 u0 u1 u2 w0 w1 w2 q Hq HT).
  - apply (is_derive_near _ (fun x => barG 6 (1 / 6) 4 u0 u1 u2 w0 x w2)).
    + generalize (barS6_near_4 u0 u1 u2 w0 w1 w2 HT); apply filter_imp; intros x Hx. symmetry. exact (barS6_grad_eq_4 u0 u1 u2 w0 x w2 q Hq Hx).
    + exact (barS6_spechess_4_4 u0 u1 u2 w0 w1 w2 q Hq HT).
  - apply (is_derive_near _ (fun x => barG 6 (1 / 6) 4 u0 u1 u2 w0 w1 x)).
    + generalize (barS6_near_5 u0 u1 u2 w0 w1 w2 HT); apply filter_imp; intros x Hx. symmetry. exact (barS6_grad_eq_4 u0 u1 u2 w0 w1 x q Hq Hx).
    + exact (barS6_spechess_4_5 u0 u1 u2 w0 w1 w2 q Hq HT).
  - apply (is_derive_near _ (fun x => barG 6 (1 / 6) 5 x u1 u2 w0 w1 w2)).
    + generalize (barS6_near_0 u0 u1 u2 w0 w1 w2 HT); apply filter_imp; intros x Hx. symmetry. exact (barS6_grad_eq_5 x u1 u2 w0 w1 w2 q Hq Hx).
    + exact (barS6_spechess_5_0 u0 u1 u2 w0 w1 w2 q Hq HT).
  - apply (is_derive_near _ (fun x => barG 6 (1 / 6) 5 u0 x u2 w0 w1 w2)).
    + generalize (barS6_near_1 u0 u1 u2 w0 w1 w2 HT); apply filter_imp; intros x Hx. symmetry. exact (barS6_grad_eq_5 u0 x u2 w0 w1 w2 q Hq Hx).
    + exact (barS6_spechess_5_1 u0 u1 u2 w0 w1 w2 q Hq HT).
  - apply (is_derive_near _ (fun x => barG 6 (1 / 6) 5 u0 u1 x w0 w1 w2)).
    + generalize (barS6_near_2 u0 u1 u2 w0 w1 w2 HT); apply filter_imp; intros x Hx. symmetry. exact (barS6_grad_eq_5 u0 u1 x w0 w1 w2 q Hq Hx).
    + exact (barS6_spechess_5_2 u0 u1 u2 w0 w1 w2 q Hq HT).
  - apply (is_derive_near _ (fun x => barG 6 (1 / 6) 5 u0 u1 u2 x w1 w2)).
    + generalize (barS6_near_3 u0 u1 u2 w0 w1 w2 HT); apply filter_imp; intros x Hx. symmetry. exact (barS6_grad_eq_5 u0 u1 u2 x w1 w2 q Hq Hx).
    + exact (barS6_spechess_5_3 u0 u1 u2 w0 w1 w2 q Hq HT).
  - apply (is_derive_near _ (fun x => barG 6 (1 / 6) 5 u0 u1 u2 w0 x w2)).
    + generalize (barS6_near_4 u0 u1 u2 w0 w1 w2 HT); apply filter_imp; intros x Hx. symmetry. exact (barS6_grad_eq_5 u0 u1 u2 w0 x w2 q Hq Hx).
    + exact (barS6_spechess_5_4 u0 u1 u2 w0 w1 w2 q Hq HT).
  - apply (is_derive_near _ (fun x => barG 6 (1 / 6) 5 u0 u1 u2 w0 w1 x)).
    + generalize (barS6_near_5 u0 u1 u2 w0 w1 w2 HT); apply filter_imp; intros x Hx. symmetry. exact (barS6_grad_eq_5 u0 u1 u2 w0 w1 x q Hq Hx).
    + exact (barS6_spechess_5_5 u0 u1 u2 w0 w1 w2 q Hq HT).
Qed.
Lemma barS6_hosford_ok : barS6_hosford_stmt.
Proof.
  unfold barS6_hosford_stmt. intros u0 u1 u2 q Hq HT.
  assert (E : barT 6 u0 u1 u2 u0 u1 u2 = hosT 6 u0 u1 u2) by (unfold barT, barS, hosT, hosS; field).
  rewrite barS6_val_eq; [ | exact Hq | rewrite E; exact HT ]. unfold barPhi, hosPsi. rewrite E. reflexivity.
Qed.

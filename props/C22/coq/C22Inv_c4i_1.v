(* C22 -- Cazacu 2004 (isotropic), N = 1: proofs (written by mkcoq.py, committed).  One lemma per entry of the gradient / Jacobian:
   the cut quantities are abstracted as functions of the varying component with the derivatives proved in C22InvCuts_iso1.v,
   auto_derive differentiates the traced leaf, the result is compared with the traced derivative by field. *)
From Coq Require Import Reals List Lra.
From Coquelicot Require Import Coquelicot.
From VLib Require Import RealExtra.
From C22 Require Import C22InvSpec C22InvTac C22inv_gen C22InvStatements C22InvCuts_iso1 C22InvCrit.
Import ListNotations.
Local Open Scope R_scope.

Lemma c4i_1_absgrad_0 : forall (Uss Uj3 Ub0 Ub1 Ub2 : R -> R) (x0 s1 s2 c : R),
    0 < (Uss x0 / 2) ->
    0 < A4_of (Uss x0 / 2) (Uj3 x0) c ->
    is_derive Uss x0 (2 * (x0 - (x0 + s1 + s2) / 3)) ->
    is_derive Uj3 x0 (Ub0 x0) ->
    is_derive Ub0 x0 (iso_h00_1 x0 s1 s2) ->
    is_derive Ub1 x0 (iso_h10_1 x0 s1 s2) ->
    is_derive Ub2 x0 (iso_h20_1 x0 s1 s2) ->
    is_derive (fun x => (c4i_val_abs_1 x s1 s2 (Uss x) (Uj3 x) (Ub0 x) (Ub1 x) (Ub2 x) (iso_h00_1 x s1 s2) (iso_h01_1 x s1 s2) (iso_h02_1 x s1 s2) (iso_h10_1 x s1 s2) (iso_h11_1 x s1 s2) (iso_h12_1 x s1 s2) (iso_h20_1 x s1 s2) (iso_h21_1 x s1 s2) (iso_h22_1 x s1 s2) c)) x0 (nthR (c4i_nrm_leaf_1 x0 s1 s2 (Uss x0) (Uj3 x0) (Ub0 x0) (Ub1 x0) (Ub2 x0) (iso_h00_1 x0 s1 s2) (iso_h01_1 x0 s1 s2) (iso_h02_1 x0 s1 s2) (iso_h10_1 x0 s1 s2) (iso_h11_1 x0 s1 s2) (iso_h12_1 x0 s1 s2) (iso_h20_1 x0 s1 s2) (iso_h21_1 x0 s1 s2) (iso_h22_1 x0 s1 s2) c) 1).
Proof. intros Uss Uj3 Ub0 Ub1 Ub2 x0 s1 s2 c HJ HA Dss Dj3 Db0 Db1 Db2. crit_A4 ltac:(lazy beta delta [c4i_val_abs_1 c4i_nrm_leaf_1 nthR nth] iota zeta) ltac:(unfold iso_h00_1, iso_h01_1, iso_h02_1, iso_h10_1, iso_h11_1, iso_h12_1, iso_h20_1, iso_h21_1, iso_h22_1) (Uss x0 / 2) (Uj3 x0). Qed.
Lemma c4i_1_abshess_0_0 : forall (Uss Uj3 Ub0 Ub1 Ub2 : R -> R) (x0 s1 s2 c : R),
    0 < (Uss x0 / 2) ->
    0 < A4_of (Uss x0 / 2) (Uj3 x0) c ->
    is_derive Uss x0 (2 * (x0 - (x0 + s1 + s2) / 3)) ->
    is_derive Uj3 x0 (Ub0 x0) ->
    is_derive Ub0 x0 (iso_h00_1 x0 s1 s2) ->
    is_derive Ub1 x0 (iso_h10_1 x0 s1 s2) ->
    is_derive Ub2 x0 (iso_h20_1 x0 s1 s2) ->
    is_derive (fun x => nthR (c4i_snd_leaf_1 x s1 s2 (Uss x) (Uj3 x) (Ub0 x) (Ub1 x) (Ub2 x) (iso_h00_1 x s1 s2) (iso_h01_1 x s1 s2) (iso_h02_1 x s1 s2) (iso_h10_1 x s1 s2) (iso_h11_1 x s1 s2) (iso_h12_1 x s1 s2) (iso_h20_1 x s1 s2) (iso_h21_1 x s1 s2) (iso_h22_1 x s1 s2) c) 1) x0 (nthR (c4i_snd_leaf_1 x0 s1 s2 (Uss x0) (Uj3 x0) (Ub0 x0) (Ub1 x0) (Ub2 x0) (iso_h00_1 x0 s1 s2) (iso_h01_1 x0 s1 s2) (iso_h02_1 x0 s1 s2) (iso_h10_1 x0 s1 s2) (iso_h11_1 x0 s1 s2) (iso_h12_1 x0 s1 s2) (iso_h20_1 x0 s1 s2) (iso_h21_1 x0 s1 s2) (iso_h22_1 x0 s1 s2) c) 4).
Proof. intros Uss Uj3 Ub0 Ub1 Ub2 x0 s1 s2 c HJ HA Dss Dj3 Db0 Db1 Db2. crit_A4 ltac:(lazy beta delta [c4i_snd_leaf_1 nthR nth] iota zeta) ltac:(unfold iso_h00_1, iso_h01_1, iso_h02_1, iso_h10_1, iso_h11_1, iso_h12_1, iso_h20_1, iso_h21_1, iso_h22_1) (Uss x0 / 2) (Uj3 x0). Qed.
Lemma c4i_1_abshess_1_0 : forall (Uss Uj3 Ub0 Ub1 Ub2 : R -> R) (x0 s1 s2 c : R),
    0 < (Uss x0 / 2) ->
    0 < A4_of (Uss x0 / 2) (Uj3 x0) c ->
    is_derive Uss x0 (2 * (x0 - (x0 + s1 + s2) / 3)) ->
    is_derive Uj3 x0 (Ub0 x0) ->
    is_derive Ub0 x0 (iso_h00_1 x0 s1 s2) ->
    is_derive Ub1 x0 (iso_h10_1 x0 s1 s2) ->
    is_derive Ub2 x0 (iso_h20_1 x0 s1 s2) ->
    is_derive (fun x => nthR (c4i_snd_leaf_1 x s1 s2 (Uss x) (Uj3 x) (Ub0 x) (Ub1 x) (Ub2 x) (iso_h00_1 x s1 s2) (iso_h01_1 x s1 s2) (iso_h02_1 x s1 s2) (iso_h10_1 x s1 s2) (iso_h11_1 x s1 s2) (iso_h12_1 x s1 s2) (iso_h20_1 x s1 s2) (iso_h21_1 x s1 s2) (iso_h22_1 x s1 s2) c) 2) x0 (nthR (c4i_snd_leaf_1 x0 s1 s2 (Uss x0) (Uj3 x0) (Ub0 x0) (Ub1 x0) (Ub2 x0) (iso_h00_1 x0 s1 s2) (iso_h01_1 x0 s1 s2) (iso_h02_1 x0 s1 s2) (iso_h10_1 x0 s1 s2) (iso_h11_1 x0 s1 s2) (iso_h12_1 x0 s1 s2) (iso_h20_1 x0 s1 s2) (iso_h21_1 x0 s1 s2) (iso_h22_1 x0 s1 s2) c) 7).
Proof. intros Uss Uj3 Ub0 Ub1 Ub2 x0 s1 s2 c HJ HA Dss Dj3 Db0 Db1 Db2. crit_A4 ltac:(lazy beta delta [c4i_snd_leaf_1 nthR nth] iota zeta) ltac:(unfold iso_h00_1, iso_h01_1, iso_h02_1, iso_h10_1, iso_h11_1, iso_h12_1, iso_h20_1, iso_h21_1, iso_h22_1) (Uss x0 / 2) (Uj3 x0). Qed.
Lemma c4i_1_abshess_2_0 : forall (Uss Uj3 Ub0 Ub1 Ub2 : R -> R) (x0 s1 s2 c : R),
    0 < (Uss x0 / 2) ->
    0 < A4_of (Uss x0 / 2) (Uj3 x0) c ->
    is_derive Uss x0 (2 * (x0 - (x0 + s1 + s2) / 3)) ->
    is_derive Uj3 x0 (Ub0 x0) ->
    is_derive Ub0 x0 (iso_h00_1 x0 s1 s2) ->
    is_derive Ub1 x0 (iso_h10_1 x0 s1 s2) ->
    is_derive Ub2 x0 (iso_h20_1 x0 s1 s2) ->
    is_derive (fun x => nthR (c4i_snd_leaf_1 x s1 s2 (Uss x) (Uj3 x) (Ub0 x) (Ub1 x) (Ub2 x) (iso_h00_1 x s1 s2) (iso_h01_1 x s1 s2) (iso_h02_1 x s1 s2) (iso_h10_1 x s1 s2) (iso_h11_1 x s1 s2) (iso_h12_1 x s1 s2) (iso_h20_1 x s1 s2) (iso_h21_1 x s1 s2) (iso_h22_1 x s1 s2) c) 3) x0 (nthR (c4i_snd_leaf_1 x0 s1 s2 (Uss x0) (Uj3 x0) (Ub0 x0) (Ub1 x0) (Ub2 x0) (iso_h00_1 x0 s1 s2) (iso_h01_1 x0 s1 s2) (iso_h02_1 x0 s1 s2) (iso_h10_1 x0 s1 s2) (iso_h11_1 x0 s1 s2) (iso_h12_1 x0 s1 s2) (iso_h20_1 x0 s1 s2) (iso_h21_1 x0 s1 s2) (iso_h22_1 x0 s1 s2) c) 10).
Proof. intros Uss Uj3 Ub0 Ub1 Ub2 x0 s1 s2 c HJ HA Dss Dj3 Db0 Db1 Db2. crit_A4 ltac:(lazy beta delta [c4i_snd_leaf_1 nthR nth] iota zeta) ltac:(unfold iso_h00_1, iso_h01_1, iso_h02_1, iso_h10_1, iso_h11_1, iso_h12_1, iso_h20_1, iso_h21_1, iso_h22_1) (Uss x0 / 2) (Uj3 x0). Qed.
Lemma c4i_1_absgrad_1 : forall (Uss Uj3 Ub0 Ub1 Ub2 : R -> R) (s0 x0 s2 c : R),
    0 < (Uss x0 / 2) ->
    0 < A4_of (Uss x0 / 2) (Uj3 x0) c ->
    is_derive Uss x0 (2 * (x0 - (s0 + x0 + s2) / 3)) ->
    is_derive Uj3 x0 (Ub1 x0) ->
    is_derive Ub0 x0 (iso_h01_1 s0 x0 s2) ->
    is_derive Ub1 x0 (iso_h11_1 s0 x0 s2) ->
    is_derive Ub2 x0 (iso_h21_1 s0 x0 s2) ->
    is_derive (fun x => (c4i_val_abs_1 s0 x s2 (Uss x) (Uj3 x) (Ub0 x) (Ub1 x) (Ub2 x) (iso_h00_1 s0 x s2) (iso_h01_1 s0 x s2) (iso_h02_1 s0 x s2) (iso_h10_1 s0 x s2) (iso_h11_1 s0 x s2) (iso_h12_1 s0 x s2) (iso_h20_1 s0 x s2) (iso_h21_1 s0 x s2) (iso_h22_1 s0 x s2) c)) x0 (nthR (c4i_nrm_leaf_1 s0 x0 s2 (Uss x0) (Uj3 x0) (Ub0 x0) (Ub1 x0) (Ub2 x0) (iso_h00_1 s0 x0 s2) (iso_h01_1 s0 x0 s2) (iso_h02_1 s0 x0 s2) (iso_h10_1 s0 x0 s2) (iso_h11_1 s0 x0 s2) (iso_h12_1 s0 x0 s2) (iso_h20_1 s0 x0 s2) (iso_h21_1 s0 x0 s2) (iso_h22_1 s0 x0 s2) c) 2).
Proof. intros Uss Uj3 Ub0 Ub1 Ub2 s0 x0 s2 c HJ HA Dss Dj3 Db0 Db1 Db2. crit_A4 ltac:(lazy beta delta [c4i_val_abs_1 c4i_nrm_leaf_1 nthR nth] iota zeta) ltac:(unfold iso_h00_1, iso_h01_1, iso_h02_1, iso_h10_1, iso_h11_1, iso_h12_1, iso_h20_1, iso_h21_1, iso_h22_1) (Uss x0 / 2) (Uj3 x0). Qed.
Lemma c4i_1_abshess_0_1 : forall (Uss Uj3 Ub0 Ub1 Ub2 : R -> R) (s0 x0 s2 c : R),
    0 < (Uss x0 / 2) ->
    0 < A4_of (Uss x0 / 2) (Uj3 x0) c ->
    is_derive Uss x0 (2 * (x0 - (s0 + x0 + s2) / 3)) ->
    is_derive Uj3 x0 (Ub1 x0) ->
    is_derive Ub0 x0 (iso_h01_1 s0 x0 s2) ->
    is_derive Ub1 x0 (iso_h11_1 s0 x0 s2) ->
    is_derive Ub2 x0 (iso_h21_1 s0 x0 s2) ->
    is_derive (fun x => nthR (c4i_snd_leaf_1 s0 x s2 (Uss x) (Uj3 x) (Ub0 x) (Ub1 x) (Ub2 x) (iso_h00_1 s0 x s2) (iso_h01_1 s0 x s2) (iso_h02_1 s0 x s2) (iso_h10_1 s0 x s2) (iso_h11_1 s0 x s2) (iso_h12_1 s0 x s2) (iso_h20_1 s0 x s2) (iso_h21_1 s0 x s2) (iso_h22_1 s0 x s2) c) 1) x0 (nthR (c4i_snd_leaf_1 s0 x0 s2 (Uss x0) (Uj3 x0) (Ub0 x0) (Ub1 x0) (Ub2 x0) (iso_h00_1 s0 x0 s2) (iso_h01_1 s0 x0 s2) (iso_h02_1 s0 x0 s2) (iso_h10_1 s0 x0 s2) (iso_h11_1 s0 x0 s2) (iso_h12_1 s0 x0 s2) (iso_h20_1 s0 x0 s2) (iso_h21_1 s0 x0 s2) (iso_h22_1 s0 x0 s2) c) 5).
Proof. intros Uss Uj3 Ub0 Ub1 Ub2 s0 x0 s2 c HJ HA Dss Dj3 Db0 Db1 Db2. crit_A4 ltac:(lazy beta delta [c4i_snd_leaf_1 nthR nth] iota zeta) ltac:(unfold iso_h00_1, iso_h01_1, iso_h02_1, iso_h10_1, iso_h11_1, iso_h12_1, iso_h20_1, iso_h21_1, iso_h22_1) (Uss x0 / 2) (Uj3 x0). Qed.
Lemma c4i_1_abshess_1_1 : forall (Uss Uj3 Ub0 Ub1 Ub2 : R -> R) (s0 x0 s2 c : R),
    0 < (Uss x0 / 2) ->
    0 < A4_of (Uss x0 / 2) (Uj3 x0) c ->
    is_derive Uss x0 (2 * (x0 - (s0 + x0 + s2) / 3)) ->
    is_derive Uj3 x0 (Ub1 x0) ->
    is_derive Ub0 x0 (iso_h01_1 s0 x0 s2) ->
    is_derive Ub1 x0 (iso_h11_1 s0 x0 s2) ->
    is_derive Ub2 x0 (iso_h21_1 s0 x0 s2) ->
    is_derive (fun x => nthR (c4i_snd_leaf_1 s0 x s2 (Uss x) (Uj3 x) (Ub0 x) (Ub1 x) (Ub2 x) (iso_h00_1 s0 x s2) (iso_h01_1 s0 x s2) (iso_h02_1 s0 x s2) (iso_h10_1 s0 x s2) (iso_h11_1 s0 x s2) (iso_h12_1 s0 x s2) (iso_h20_1 s0 x s2) (iso_h21_1 s0 x s2) (iso_h22_1 s0 x s2) c) 2) x0 (nthR (c4i_snd_leaf_1 s0 x0 s2 (Uss x0) (Uj3 x0) (Ub0 x0) (Ub1 x0) (Ub2 x0) (iso_h00_1 s0 x0 s2) (iso_h01_1 s0 x0 s2) (iso_h02_1 s0 x0 s2) (iso_h10_1 s0 x0 s2) (iso_h11_1 s0 x0 s2) (iso_h12_1 s0 x0 s2) (iso_h20_1 s0 x0 s2) (iso_h21_1 s0 x0 s2) (iso_h22_1 s0 x0 s2) c) 8).
Proof. intros Uss Uj3 Ub0 Ub1 Ub2 s0 x0 s2 c HJ HA Dss Dj3 Db0 Db1 Db2. crit_A4 ltac:(lazy beta delta [c4i_snd_leaf_1 nthR nth] iota zeta) ltac:(unfold iso_h00_1, iso_h01_1, iso_h02_1, iso_h10_1, iso_h11_1, iso_h12_1, iso_h20_1, iso_h21_1, iso_h22_1) (Uss x0 / 2) (Uj3 x0). Qed.
Lemma c4i_1_abshess_2_1 : forall (Uss Uj3 Ub0 Ub1 Ub2 : R -> R) (s0 x0 s2 c : R),
    0 < (Uss x0 / 2) ->
    0 < A4_of (Uss x0 / 2) (Uj3 x0) c ->
    is_derive Uss x0 (2 * (x0 - (s0 + x0 + s2) / 3)) ->
    is_derive Uj3 x0 (Ub1 x0) ->
    is_derive Ub0 x0 (iso_h01_1 s0 x0 s2) ->
    is_derive Ub1 x0 (iso_h11_1 s0 x0 s2) ->
    is_derive Ub2 x0 (iso_h21_1 s0 x0 s2) ->
    is_derive (fun x => nthR (c4i_snd_leaf_1 s0 x s2 (Uss x) (Uj3 x) (Ub0 x) (Ub1 x) (Ub2 x) (iso_h00_1 s0 x s2) (iso_h01_1 s0 x s2) (iso_h02_1 s0 x s2) (iso_h10_1 s0 x s2) (iso_h11_1 s0 x s2) (iso_h12_1 s0 x s2) (iso_h20_1 s0 x s2) (iso_h21_1 s0 x s2) (iso_h22_1 s0 x s2) c) 3) x0 (nthR (c4i_snd_leaf_1 s0 x0 s2 (Uss x0) (Uj3 x0) (Ub0 x0) (Ub1 x0) (Ub2 x0) (iso_h00_1 s0 x0 s2) (iso_h01_1 s0 x0 s2) (iso_h02_1 s0 x0 s2) (iso_h10_1 s0 x0 s2) (iso_h11_1 s0 x0 s2) (iso_h12_1 s0 x0 s2) (iso_h20_1 s0 x0 s2) (iso_h21_1 s0 x0 s2) (iso_h22_1 s0 x0 s2) c) 11).
Proof. intros Uss Uj3 Ub0 Ub1 Ub2 s0 x0 s2 c HJ HA Dss Dj3 Db0 Db1 Db2. crit_A4 ltac:(lazy beta delta [c4i_snd_leaf_1 nthR nth] iota zeta) ltac:(unfold iso_h00_1, iso_h01_1, iso_h02_1, iso_h10_1, iso_h11_1, iso_h12_1, iso_h20_1, iso_h21_1, iso_h22_1) (Uss x0 / 2) (Uj3 x0). Qed.
Lemma c4i_1_absgrad_2 : forall (Uss Uj3 Ub0 Ub1 Ub2 : R -> R) (s0 s1 x0 c : R),
    0 < (Uss x0 / 2) ->
    0 < A4_of (Uss x0 / 2) (Uj3 x0) c ->
    is_derive Uss x0 (2 * (x0 - (s0 + s1 + x0) / 3)) ->
    is_derive Uj3 x0 (Ub2 x0) ->
    is_derive Ub0 x0 (iso_h02_1 s0 s1 x0) ->
    is_derive Ub1 x0 (iso_h12_1 s0 s1 x0) ->
    is_derive Ub2 x0 (iso_h22_1 s0 s1 x0) ->
    is_derive (fun x => (c4i_val_abs_1 s0 s1 x (Uss x) (Uj3 x) (Ub0 x) (Ub1 x) (Ub2 x) (iso_h00_1 s0 s1 x) (iso_h01_1 s0 s1 x) (iso_h02_1 s0 s1 x) (iso_h10_1 s0 s1 x) (iso_h11_1 s0 s1 x) (iso_h12_1 s0 s1 x) (iso_h20_1 s0 s1 x) (iso_h21_1 s0 s1 x) (iso_h22_1 s0 s1 x) c)) x0 (nthR (c4i_nrm_leaf_1 s0 s1 x0 (Uss x0) (Uj3 x0) (Ub0 x0) (Ub1 x0) (Ub2 x0) (iso_h00_1 s0 s1 x0) (iso_h01_1 s0 s1 x0) (iso_h02_1 s0 s1 x0) (iso_h10_1 s0 s1 x0) (iso_h11_1 s0 s1 x0) (iso_h12_1 s0 s1 x0) (iso_h20_1 s0 s1 x0) (iso_h21_1 s0 s1 x0) (iso_h22_1 s0 s1 x0) c) 3).
Proof. intros Uss Uj3 Ub0 Ub1 Ub2 s0 s1 x0 c HJ HA Dss Dj3 Db0 Db1 Db2. crit_A4 ltac:(lazy beta delta [c4i_val_abs_1 c4i_nrm_leaf_1 nthR nth] iota zeta) ltac:(unfold iso_h00_1, iso_h01_1, iso_h02_1, iso_h10_1, iso_h11_1, iso_h12_1, iso_h20_1, iso_h21_1, iso_h22_1) (Uss x0 / 2) (Uj3 x0). Qed.
Lemma c4i_1_abshess_0_2 : forall (Uss Uj3 Ub0 Ub1 Ub2 : R -> R) (s0 s1 x0 c : R),
    0 < (Uss x0 / 2) ->
    0 < A4_of (Uss x0 / 2) (Uj3 x0) c ->
    is_derive Uss x0 (2 * (x0 - (s0 + s1 + x0) / 3)) ->
    is_derive Uj3 x0 (Ub2 x0) ->
    is_derive Ub0 x0 (iso_h02_1 s0 s1 x0) ->
    is_derive Ub1 x0 (iso_h12_1 s0 s1 x0) ->
    is_derive Ub2 x0 (iso_h22_1 s0 s1 x0) ->
    is_derive (fun x => nthR (c4i_snd_leaf_1 s0 s1 x (Uss x) (Uj3 x) (Ub0 x) (Ub1 x) (Ub2 x) (iso_h00_1 s0 s1 x) (iso_h01_1 s0 s1 x) (iso_h02_1 s0 s1 x) (iso_h10_1 s0 s1 x) (iso_h11_1 s0 s1 x) (iso_h12_1 s0 s1 x) (iso_h20_1 s0 s1 x) (iso_h21_1 s0 s1 x) (iso_h22_1 s0 s1 x) c) 1) x0 (nthR (c4i_snd_leaf_1 s0 s1 x0 (Uss x0) (Uj3 x0) (Ub0 x0) (Ub1 x0) (Ub2 x0) (iso_h00_1 s0 s1 x0) (iso_h01_1 s0 s1 x0) (iso_h02_1 s0 s1 x0) (iso_h10_1 s0 s1 x0) (iso_h11_1 s0 s1 x0) (iso_h12_1 s0 s1 x0) (iso_h20_1 s0 s1 x0) (iso_h21_1 s0 s1 x0) (iso_h22_1 s0 s1 x0) c) 6).
Proof. intros Uss Uj3 Ub0 Ub1 Ub2 s0 s1 x0 c HJ HA Dss Dj3 Db0 Db1 Db2. crit_A4 ltac:(lazy beta delta [c4i_snd_leaf_1 nthR nth] iota zeta) ltac:(unfold iso_h00_1, iso_h01_1, iso_h02_1, iso_h10_1, iso_h11_1, iso_h12_1, iso_h20_1, iso_h21_1, iso_h22_1) (Uss x0 / 2) (Uj3 x0). Qed.
Lemma c4i_1_abshess_1_2 : forall (Uss Uj3 Ub0 Ub1 Ub2 : R -> R) (s0 s1 x0 c : R),
    0 < (Uss x0 / 2) ->
    0 < A4_of (Uss x0 / 2) (Uj3 x0) c ->
    is_derive Uss x0 (2 * (x0 - (s0 + s1 + x0) / 3)) ->
    is_derive Uj3 x0 (Ub2 x0) ->
    is_derive Ub0 x0 (iso_h02_1 s0 s1 x0) ->
    is_derive Ub1 x0 (iso_h12_1 s0 s1 x0) ->
    is_derive Ub2 x0 (iso_h22_1 s0 s1 x0) ->
    is_derive (fun x => nthR (c4i_snd_leaf_1 s0 s1 x (Uss x) (Uj3 x) (Ub0 x) (Ub1 x) (Ub2 x) (iso_h00_1 s0 s1 x) (iso_h01_1 s0 s1 x) (iso_h02_1 s0 s1 x) (iso_h10_1 s0 s1 x) (iso_h11_1 s0 s1 x) (iso_h12_1 s0 s1 x) (iso_h20_1 s0 s1 x) (iso_h21_1 s0 s1 x) (iso_h22_1 s0 s1 x) c) 2) x0 (nthR (c4i_snd_leaf_1 s0 s1 x0 (Uss x0) (Uj3 x0) (Ub0 x0) (Ub1 x0) (Ub2 x0) (iso_h00_1 s0 s1 x0) (iso_h01_1 s0 s1 x0) (iso_h02_1 s0 s1 x0) (iso_h10_1 s0 s1 x0) (iso_h11_1 s0 s1 x0) (iso_h12_1 s0 s1 x0) (iso_h20_1 s0 s1 x0) (iso_h21_1 s0 s1 x0) (iso_h22_1 s0 s1 x0) c) 9).
Proof. intros Uss Uj3 Ub0 Ub1 Ub2 s0 s1 x0 c HJ HA Dss Dj3 Db0 Db1 Db2. crit_A4 ltac:(lazy beta delta [c4i_snd_leaf_1 nthR nth] iota zeta) ltac:(unfold iso_h00_1, iso_h01_1, iso_h02_1, iso_h10_1, iso_h11_1, iso_h12_1, iso_h20_1, iso_h21_1, iso_h22_1) (Uss x0 / 2) (Uj3 x0). Qed.
Lemma c4i_1_abshess_2_2 : forall (Uss Uj3 Ub0 Ub1 Ub2 : R -> R) (s0 s1 x0 c : R),
    0 < (Uss x0 / 2) ->
    0 < A4_of (Uss x0 / 2) (Uj3 x0) c ->
    is_derive Uss x0 (2 * (x0 - (s0 + s1 + x0) / 3)) ->
    is_derive Uj3 x0 (Ub2 x0) ->
    is_derive Ub0 x0 (iso_h02_1 s0 s1 x0) ->
    is_derive Ub1 x0 (iso_h12_1 s0 s1 x0) ->
    is_derive Ub2 x0 (iso_h22_1 s0 s1 x0) ->
    is_derive (fun x => nthR (c4i_snd_leaf_1 s0 s1 x (Uss x) (Uj3 x) (Ub0 x) (Ub1 x) (Ub2 x) (iso_h00_1 s0 s1 x) (iso_h01_1 s0 s1 x) (iso_h02_1 s0 s1 x) (iso_h10_1 s0 s1 x) (iso_h11_1 s0 s1 x) (iso_h12_1 s0 s1 x) (iso_h20_1 s0 s1 x) (iso_h21_1 s0 s1 x) (iso_h22_1 s0 s1 x) c) 3) x0 (nthR (c4i_snd_leaf_1 s0 s1 x0 (Uss x0) (Uj3 x0) (Ub0 x0) (Ub1 x0) (Ub2 x0) (iso_h00_1 s0 s1 x0) (iso_h01_1 s0 s1 x0) (iso_h02_1 s0 s1 x0) (iso_h10_1 s0 s1 x0) (iso_h11_1 s0 s1 x0) (iso_h12_1 s0 s1 x0) (iso_h20_1 s0 s1 x0) (iso_h21_1 s0 s1 x0) (iso_h22_1 s0 s1 x0) c) 12).
Proof. intros Uss Uj3 Ub0 Ub1 Ub2 s0 s1 x0 c HJ HA Dss Dj3 Db0 Db1 Db2. crit_A4 ltac:(lazy beta delta [c4i_snd_leaf_1 nthR nth] iota zeta) ltac:(unfold iso_h00_1, iso_h01_1, iso_h02_1, iso_h10_1, iso_h11_1, iso_h12_1, iso_h20_1, iso_h21_1, iso_h22_1) (Uss x0 / 2) (Uj3 x0). Qed.

Lemma c4i_1_leafgrad_0 s0 s1 s2 c : 0 < ((iso_ss_1 s0 s1 s2) / 2) -> 0 < A4_of ((iso_ss_1 s0 s1 s2) / 2) (iso_j3_1 s0 s1 s2) c ->
  is_derive (fun x => (c4i_val_abs_1 x s1 s2 (iso_ss_1 x s1 s2) (iso_j3_1 x s1 s2) (iso_b0_1 x s1 s2) (iso_b1_1 x s1 s2) (iso_b2_1 x s1 s2) (iso_h00_1 x s1 s2) (iso_h01_1 x s1 s2) (iso_h02_1 x s1 s2) (iso_h10_1 x s1 s2) (iso_h11_1 x s1 s2) (iso_h12_1 x s1 s2) (iso_h20_1 x s1 s2) (iso_h21_1 x s1 s2) (iso_h22_1 x s1 s2) c)) s0 (nthR (c4i_nrm_leaf_1 s0 s1 s2 (iso_ss_1 s0 s1 s2) (iso_j3_1 s0 s1 s2) (iso_b0_1 s0 s1 s2) (iso_b1_1 s0 s1 s2) (iso_b2_1 s0 s1 s2) (iso_h00_1 s0 s1 s2) (iso_h01_1 s0 s1 s2) (iso_h02_1 s0 s1 s2) (iso_h10_1 s0 s1 s2) (iso_h11_1 s0 s1 s2) (iso_h12_1 s0 s1 s2) (iso_h20_1 s0 s1 s2) (iso_h21_1 s0 s1 s2) (iso_h22_1 s0 s1 s2) c) 1).
Proof. intros HJ HA. exact (c4i_1_absgrad_0 (fun x => (iso_ss_1 x s1 s2)) (fun x => (iso_j3_1 x s1 s2)) (fun x => (iso_b0_1 x s1 s2)) (fun x => (iso_b1_1 x s1 s2)) (fun x => (iso_b2_1 x s1 s2)) s0 s1 s2 c HJ HA (iso1_dss_0 s0 s1 s2) (iso1_dj3_0 s0 s1 s2) (iso1_db0_0 s0 s1 s2) (iso1_db1_0 s0 s1 s2) (iso1_db2_0 s0 s1 s2)). Qed.
Lemma c4i_1_leafhess_0_0 s0 s1 s2 c : 0 < ((iso_ss_1 s0 s1 s2) / 2) -> 0 < A4_of ((iso_ss_1 s0 s1 s2) / 2) (iso_j3_1 s0 s1 s2) c ->
  is_derive (fun x => nthR (c4i_snd_leaf_1 x s1 s2 (iso_ss_1 x s1 s2) (iso_j3_1 x s1 s2) (iso_b0_1 x s1 s2) (iso_b1_1 x s1 s2) (iso_b2_1 x s1 s2) (iso_h00_1 x s1 s2) (iso_h01_1 x s1 s2) (iso_h02_1 x s1 s2) (iso_h10_1 x s1 s2) (iso_h11_1 x s1 s2) (iso_h12_1 x s1 s2) (iso_h20_1 x s1 s2) (iso_h21_1 x s1 s2) (iso_h22_1 x s1 s2) c) 1) s0 (nthR (c4i_snd_leaf_1 s0 s1 s2 (iso_ss_1 s0 s1 s2) (iso_j3_1 s0 s1 s2) (iso_b0_1 s0 s1 s2) (iso_b1_1 s0 s1 s2) (iso_b2_1 s0 s1 s2) (iso_h00_1 s0 s1 s2) (iso_h01_1 s0 s1 s2) (iso_h02_1 s0 s1 s2) (iso_h10_1 s0 s1 s2) (iso_h11_1 s0 s1 s2) (iso_h12_1 s0 s1 s2) (iso_h20_1 s0 s1 s2) (iso_h21_1 s0 s1 s2) (iso_h22_1 s0 s1 s2) c) 4).
Proof. intros HJ HA. exact (c4i_1_abshess_0_0 (fun x => (iso_ss_1 x s1 s2)) (fun x => (iso_j3_1 x s1 s2)) (fun x => (iso_b0_1 x s1 s2)) (fun x => (iso_b1_1 x s1 s2)) (fun x => (iso_b2_1 x s1 s2)) s0 s1 s2 c HJ HA (iso1_dss_0 s0 s1 s2) (iso1_dj3_0 s0 s1 s2) (iso1_db0_0 s0 s1 s2) (iso1_db1_0 s0 s1 s2) (iso1_db2_0 s0 s1 s2)). Qed.
Lemma c4i_1_leafhess_1_0 s0 s1 s2 c : 0 < ((iso_ss_1 s0 s1 s2) / 2) -> 0 < A4_of ((iso_ss_1 s0 s1 s2) / 2) (iso_j3_1 s0 s1 s2) c ->
  is_derive (fun x => nthR (c4i_snd_leaf_1 x s1 s2 (iso_ss_1 x s1 s2) (iso_j3_1 x s1 s2) (iso_b0_1 x s1 s2) (iso_b1_1 x s1 s2) (iso_b2_1 x s1 s2) (iso_h00_1 x s1 s2) (iso_h01_1 x s1 s2) (iso_h02_1 x s1 s2) (iso_h10_1 x s1 s2) (iso_h11_1 x s1 s2) (iso_h12_1 x s1 s2) (iso_h20_1 x s1 s2) (iso_h21_1 x s1 s2) (iso_h22_1 x s1 s2) c) 2) s0 (nthR (c4i_snd_leaf_1 s0 s1 s2 (iso_ss_1 s0 s1 s2) (iso_j3_1 s0 s1 s2) (iso_b0_1 s0 s1 s2) (iso_b1_1 s0 s1 s2) (iso_b2_1 s0 s1 s2) (iso_h00_1 s0 s1 s2) (iso_h01_1 s0 s1 s2) (iso_h02_1 s0 s1 s2) (iso_h10_1 s0 s1 s2) (iso_h11_1 s0 s1 s2) (iso_h12_1 s0 s1 s2) (iso_h20_1 s0 s1 s2) (iso_h21_1 s0 s1 s2) (iso_h22_1 s0 s1 s2) c) 7).
Proof. intros HJ HA. exact (c4i_1_abshess_1_0 (fun x => (iso_ss_1 x s1 s2)) (fun x => (iso_j3_1 x s1 s2)) (fun x => (iso_b0_1 x s1 s2)) (fun x => (iso_b1_1 x s1 s2)) (fun x => (iso_b2_1 x s1 s2)) s0 s1 s2 c HJ HA (iso1_dss_0 s0 s1 s2) (iso1_dj3_0 s0 s1 s2) (iso1_db0_0 s0 s1 s2) (iso1_db1_0 s0 s1 s2) (iso1_db2_0 s0 s1 s2)). Qed.
Lemma c4i_1_leafhess_2_0 s0 s1 s2 c : 0 < ((iso_ss_1 s0 s1 s2) / 2) -> 0 < A4_of ((iso_ss_1 s0 s1 s2) / 2) (iso_j3_1 s0 s1 s2) c ->
  is_derive (fun x => nthR (c4i_snd_leaf_1 x s1 s2 (iso_ss_1 x s1 s2) (iso_j3_1 x s1 s2) (iso_b0_1 x s1 s2) (iso_b1_1 x s1 s2) (iso_b2_1 x s1 s2) (iso_h00_1 x s1 s2) (iso_h01_1 x s1 s2) (iso_h02_1 x s1 s2) (iso_h10_1 x s1 s2) (iso_h11_1 x s1 s2) (iso_h12_1 x s1 s2) (iso_h20_1 x s1 s2) (iso_h21_1 x s1 s2) (iso_h22_1 x s1 s2) c) 3) s0 (nthR (c4i_snd_leaf_1 s0 s1 s2 (iso_ss_1 s0 s1 s2) (iso_j3_1 s0 s1 s2) (iso_b0_1 s0 s1 s2) (iso_b1_1 s0 s1 s2) (iso_b2_1 s0 s1 s2) (iso_h00_1 s0 s1 s2) (iso_h01_1 s0 s1 s2) (iso_h02_1 s0 s1 s2) (iso_h10_1 s0 s1 s2) (iso_h11_1 s0 s1 s2) (iso_h12_1 s0 s1 s2) (iso_h20_1 s0 s1 s2) (iso_h21_1 s0 s1 s2) (iso_h22_1 s0 s1 s2) c) 10).
Proof. intros HJ HA. exact (c4i_1_abshess_2_0 (fun x => (iso_ss_1 x s1 s2)) (fun x => (iso_j3_1 x s1 s2)) (fun x => (iso_b0_1 x s1 s2)) (fun x => (iso_b1_1 x s1 s2)) (fun x => (iso_b2_1 x s1 s2)) s0 s1 s2 c HJ HA (iso1_dss_0 s0 s1 s2) (iso1_dj3_0 s0 s1 s2) (iso1_db0_0 s0 s1 s2) (iso1_db1_0 s0 s1 s2) (iso1_db2_0 s0 s1 s2)). Qed.
Lemma c4i_1_leafgrad_1 s0 s1 s2 c : 0 < ((iso_ss_1 s0 s1 s2) / 2) -> 0 < A4_of ((iso_ss_1 s0 s1 s2) / 2) (iso_j3_1 s0 s1 s2) c ->
  is_derive (fun x => (c4i_val_abs_1 s0 x s2 (iso_ss_1 s0 x s2) (iso_j3_1 s0 x s2) (iso_b0_1 s0 x s2) (iso_b1_1 s0 x s2) (iso_b2_1 s0 x s2) (iso_h00_1 s0 x s2) (iso_h01_1 s0 x s2) (iso_h02_1 s0 x s2) (iso_h10_1 s0 x s2) (iso_h11_1 s0 x s2) (iso_h12_1 s0 x s2) (iso_h20_1 s0 x s2) (iso_h21_1 s0 x s2) (iso_h22_1 s0 x s2) c)) s1 (nthR (c4i_nrm_leaf_1 s0 s1 s2 (iso_ss_1 s0 s1 s2) (iso_j3_1 s0 s1 s2) (iso_b0_1 s0 s1 s2) (iso_b1_1 s0 s1 s2) (iso_b2_1 s0 s1 s2) (iso_h00_1 s0 s1 s2) (iso_h01_1 s0 s1 s2) (iso_h02_1 s0 s1 s2) (iso_h10_1 s0 s1 s2) (iso_h11_1 s0 s1 s2) (iso_h12_1 s0 s1 s2) (iso_h20_1 s0 s1 s2) (iso_h21_1 s0 s1 s2) (iso_h22_1 s0 s1 s2) c) 2).
Proof. intros HJ HA. exact (c4i_1_absgrad_1 (fun x => (iso_ss_1 s0 x s2)) (fun x => (iso_j3_1 s0 x s2)) (fun x => (iso_b0_1 s0 x s2)) (fun x => (iso_b1_1 s0 x s2)) (fun x => (iso_b2_1 s0 x s2)) s0 s1 s2 c HJ HA (iso1_dss_1 s0 s1 s2) (iso1_dj3_1 s0 s1 s2) (iso1_db0_1 s0 s1 s2) (iso1_db1_1 s0 s1 s2) (iso1_db2_1 s0 s1 s2)). Qed.
Lemma c4i_1_leafhess_0_1 s0 s1 s2 c : 0 < ((iso_ss_1 s0 s1 s2) / 2) -> 0 < A4_of ((iso_ss_1 s0 s1 s2) / 2) (iso_j3_1 s0 s1 s2) c ->
  is_derive (fun x => nthR (c4i_snd_leaf_1 s0 x s2 (iso_ss_1 s0 x s2) (iso_j3_1 s0 x s2) (iso_b0_1 s0 x s2) (iso_b1_1 s0 x s2) (iso_b2_1 s0 x s2) (iso_h00_1 s0 x s2) (iso_h01_1 s0 x s2) (iso_h02_1 s0 x s2) (iso_h10_1 s0 x s2) (iso_h11_1 s0 x s2) (iso_h12_1 s0 x s2) (iso_h20_1 s0 x s2) (iso_h21_1 s0 x s2) (iso_h22_1 s0 x s2) c) 1) s1 (nthR (c4i_snd_leaf_1 s0 s1 s2 (iso_ss_1 s0 s1 s2) (iso_j3_1 s0 s1 s2) (iso_b0_1 s0 s1 s2) (iso_b1_1 s0 s1 s2) (iso_b2_1 s0 s1 s2) (iso_h00_1 s0 s1 s2) (iso_h01_1 s0 s1 s2) (iso_h02_1 s0 s1 s2) (iso_h10_1 s0 s1 s2) (iso_h11_1 s0 s1 s2) (iso_h12_1 s0 s1 s2) (iso_h20_1 s0 s1 s2) (iso_h21_1 s0 s1 s2) (iso_h22_1 s0 s1 s2) c) 5).
Proof. intros HJ HA. exact (c4i_1_abshess_0_1 (fun x => (iso_ss_1 s0 x s2)) (fun x => (iso_j3_1 s0 x s2)) (fun x => (iso_b0_1 s0 x s2)) (fun x => (iso_b1_1 s0 x s2)) (fun x => (iso_b2_1 s0 x s2)) s0 s1 s2 c HJ HA (iso1_dss_1 s0 s1 s2) (iso1_dj3_1 s0 s1 s2) (iso1_db0_1 s0 s1 s2) (iso1_db1_1 s0 s1 s2) (iso1_db2_1 s0 s1 s2)). Qed.
Lemma c4i_1_leafhess_1_1 s0 s1 s2 c : 0 < ((iso_ss_1 s0 s1 s2) / 2) -> 0 < A4_of ((iso_ss_1 s0 s1 s2) / 2) (iso_j3_1 s0 s1 s2) c ->
  is_derive (fun x => nthR (c4i_snd_leaf_1 s0 x s2 (iso_ss_1 s0 x s2) (iso_j3_1 s0 x s2) (iso_b0_1 s0 x s2) (iso_b1_1 s0 x s2) (iso_b2_1 s0 x s2) (iso_h00_1 s0 x s2) (iso_h01_1 s0 x s2) (iso_h02_1 s0 x s2) (iso_h10_1 s0 x s2) (iso_h11_1 s0 x s2) (iso_h12_1 s0 x s2) (iso_h20_1 s0 x s2) (iso_h21_1 s0 x s2) (iso_h22_1 s0 x s2) c) 2) s1 (nthR (c4i_snd_leaf_1 s0 s1 s2 (iso_ss_1 s0 s1 s2) (iso_j3_1 s0 s1 s2) (iso_b0_1 s0 s1 s2) (iso_b1_1 s0 s1 s2) (iso_b2_1 s0 s1 s2) (iso_h00_1 s0 s1 s2) (iso_h01_1 s0 s1 s2) (iso_h02_1 s0 s1 s2) (iso_h10_1 s0 s1 s2) (iso_h11_1 s0 s1 s2) (iso_h12_1 s0 s1 s2) (iso_h20_1 s0 s1 s2) (iso_h21_1 s0 s1 s2) (iso_h22_1 s0 s1 s2) c) 8).
Proof. intros HJ HA. exact (c4i_1_abshess_1_1 (fun x => (iso_ss_1 s0 x s2)) (fun x => (iso_j3_1 s0 x s2)) (fun x => (iso_b0_1 s0 x s2)) (fun x => (iso_b1_1 s0 x s2)) (fun x => (iso_b2_1 s0 x s2)) s0 s1 s2 c HJ HA (iso1_dss_1 s0 s1 s2) (iso1_dj3_1 s0 s1 s2) (iso1_db0_1 s0 s1 s2) (iso1_db1_1 s0 s1 s2) (iso1_db2_1 s0 s1 s2)). Qed.
Lemma c4i_1_leafhess_2_1 s0 s1 s2 c : 0 < ((iso_ss_1 s0 s1 s2) / 2) -> 0 < A4_of ((iso_ss_1 s0 s1 s2) / 2) (iso_j3_1 s0 s1 s2) c ->
  is_derive (fun x => nthR (c4i_snd_leaf_1 s0 x s2 (iso_ss_1 s0 x s2) (iso_j3_1 s0 x s2) (iso_b0_1 s0 x s2) (iso_b1_1 s0 x s2) (iso_b2_1 s0 x s2) (iso_h00_1 s0 x s2) (iso_h01_1 s0 x s2) (iso_h02_1 s0 x s2) (iso_h10_1 s0 x s2) (iso_h11_1 s0 x s2) (iso_h12_1 s0 x s2) (iso_h20_1 s0 x s2) (iso_h21_1 s0 x s2) (iso_h22_1 s0 x s2) c) 3) s1 (nthR (c4i_snd_leaf_1 s0 s1 s2 (iso_ss_1 s0 s1 s2) (iso_j3_1 s0 s1 s2) (iso_b0_1 s0 s1 s2) (iso_b1_1 s0 s1 s2) (iso_b2_1 s0 s1 s2) (iso_h00_1 s0 s1 s2) (iso_h01_1 s0 s1 s2) (iso_h02_1 s0 s1 s2) (iso_h10_1 s0 s1 s2) (iso_h11_1 s0 s1 s2) (iso_h12_1 s0 s1 s2) (iso_h20_1 s0 s1 s2) (iso_h21_1 s0 s1 s2) (iso_h22_1 s0 s1 s2) c) 11).
Proof. intros HJ HA. exact (c4i_1_abshess_2_1 (fun x => (iso_ss_1 s0 x s2)) (fun x => (iso_j3_1 s0 x s2)) (fun x => (iso_b0_1 s0 x s2)) (fun x => (iso_b1_1 s0 x s2)) (fun x => (iso_b2_1 s0 x s2)) s0 s1 s2 c HJ HA (iso1_dss_1 s0 s1 s2) (iso1_dj3_1 s0 s1 s2) (iso1_db0_1 s0 s1 s2) (iso1_db1_1 s0 s1 s2) (iso1_db2_1 s0 s1 s2)). Qed.
Lemma c4i_1_leafgrad_2 s0 s1 s2 c : 0 < ((iso_ss_1 s0 s1 s2) / 2) -> 0 < A4_of ((iso_ss_1 s0 s1 s2) / 2) (iso_j3_1 s0 s1 s2) c ->
  is_derive (fun x => (c4i_val_abs_1 s0 s1 x (iso_ss_1 s0 s1 x) (iso_j3_1 s0 s1 x) (iso_b0_1 s0 s1 x) (iso_b1_1 s0 s1 x) (iso_b2_1 s0 s1 x) (iso_h00_1 s0 s1 x) (iso_h01_1 s0 s1 x) (iso_h02_1 s0 s1 x) (iso_h10_1 s0 s1 x) (iso_h11_1 s0 s1 x) (iso_h12_1 s0 s1 x) (iso_h20_1 s0 s1 x) (iso_h21_1 s0 s1 x) (iso_h22_1 s0 s1 x) c)) s2 (nthR (c4i_nrm_leaf_1 s0 s1 s2 (iso_ss_1 s0 s1 s2) (iso_j3_1 s0 s1 s2) (iso_b0_1 s0 s1 s2) (iso_b1_1 s0 s1 s2) (iso_b2_1 s0 s1 s2) (iso_h00_1 s0 s1 s2) (iso_h01_1 s0 s1 s2) (iso_h02_1 s0 s1 s2) (iso_h10_1 s0 s1 s2) (iso_h11_1 s0 s1 s2) (iso_h12_1 s0 s1 s2) (iso_h20_1 s0 s1 s2) (iso_h21_1 s0 s1 s2) (iso_h22_1 s0 s1 s2) c) 3).
Proof. intros HJ HA. exact (c4i_1_absgrad_2 (fun x => (iso_ss_1 s0 s1 x)) (fun x => (iso_j3_1 s0 s1 x)) (fun x => (iso_b0_1 s0 s1 x)) (fun x => (iso_b1_1 s0 s1 x)) (fun x => (iso_b2_1 s0 s1 x)) s0 s1 s2 c HJ HA (iso1_dss_2 s0 s1 s2) (iso1_dj3_2 s0 s1 s2) (iso1_db0_2 s0 s1 s2) (iso1_db1_2 s0 s1 s2) (iso1_db2_2 s0 s1 s2)). Qed.
Lemma c4i_1_leafhess_0_2 s0 s1 s2 c : 0 < ((iso_ss_1 s0 s1 s2) / 2) -> 0 < A4_of ((iso_ss_1 s0 s1 s2) / 2) (iso_j3_1 s0 s1 s2) c ->
  is_derive (fun x => nthR (c4i_snd_leaf_1 s0 s1 x (iso_ss_1 s0 s1 x) (iso_j3_1 s0 s1 x) (iso_b0_1 s0 s1 x) (iso_b1_1 s0 s1 x) (iso_b2_1 s0 s1 x) (iso_h00_1 s0 s1 x) (iso_h01_1 s0 s1 x) (iso_h02_1 s0 s1 x) (iso_h10_1 s0 s1 x) (iso_h11_1 s0 s1 x) (iso_h12_1 s0 s1 x) (iso_h20_1 s0 s1 x) (iso_h21_1 s0 s1 x) (iso_h22_1 s0 s1 x) c) 1) s2 (nthR (c4i_snd_leaf_1 s0 s1 s2 (iso_ss_1 s0 s1 s2) (iso_j3_1 s0 s1 s2) (iso_b0_1 s0 s1 s2) (iso_b1_1 s0 s1 s2) (iso_b2_1 s0 s1 s2) (iso_h00_1 s0 s1 s2) (iso_h01_1 s0 s1 s2) (iso_h02_1 s0 s1 s2) (iso_h10_1 s0 s1 s2) (iso_h11_1 s0 s1 s2) (iso_h12_1 s0 s1 s2) (iso_h20_1 s0 s1 s2) (iso_h21_1 s0 s1 s2) (iso_h22_1 s0 s1 s2) c) 6).
Proof. intros HJ HA. exact (c4i_1_abshess_0_2 (fun x => (iso_ss_1 s0 s1 x)) (fun x => (iso_j3_1 s0 s1 x)) (fun x => (iso_b0_1 s0 s1 x)) (fun x => (iso_b1_1 s0 s1 x)) (fun x => (iso_b2_1 s0 s1 x)) s0 s1 s2 c HJ HA (iso1_dss_2 s0 s1 s2) (iso1_dj3_2 s0 s1 s2) (iso1_db0_2 s0 s1 s2) (iso1_db1_2 s0 s1 s2) (iso1_db2_2 s0 s1 s2)). Qed.
Lemma c4i_1_leafhess_1_2 s0 s1 s2 c : 0 < ((iso_ss_1 s0 s1 s2) / 2) -> 0 < A4_of ((iso_ss_1 s0 s1 s2) / 2) (iso_j3_1 s0 s1 s2) c ->
  is_derive (fun x => nthR (c4i_snd_leaf_1 s0 s1 x (iso_ss_1 s0 s1 x) (iso_j3_1 s0 s1 x) (iso_b0_1 s0 s1 x) (iso_b1_1 s0 s1 x) (iso_b2_1 s0 s1 x) (iso_h00_1 s0 s1 x) (iso_h01_1 s0 s1 x) (iso_h02_1 s0 s1 x) (iso_h10_1 s0 s1 x) (iso_h11_1 s0 s1 x) (iso_h12_1 s0 s1 x) (iso_h20_1 s0 s1 x) (iso_h21_1 s0 s1 x) (iso_h22_1 s0 s1 x) c) 2) s2 (nthR (c4i_snd_leaf_1 s0 s1 s2 (iso_ss_1 s0 s1 s2) (iso_j3_1 s0 s1 s2) (iso_b0_1 s0 s1 s2) (iso_b1_1 s0 s1 s2) (iso_b2_1 s0 s1 s2) (iso_h00_1 s0 s1 s2) (iso_h01_1 s0 s1 s2) (iso_h02_1 s0 s1 s2) (iso_h10_1 s0 s1 s2) (iso_h11_1 s0 s1 s2) (iso_h12_1 s0 s1 s2) (iso_h20_1 s0 s1 s2) (iso_h21_1 s0 s1 s2) (iso_h22_1 s0 s1 s2) c) 9).
Proof. intros HJ HA. exact (c4i_1_abshess_1_2 (fun x => (iso_ss_1 s0 s1 x)) (fun x => (iso_j3_1 s0 s1 x)) (fun x => (iso_b0_1 s0 s1 x)) (fun x => (iso_b1_1 s0 s1 x)) (fun x => (iso_b2_1 s0 s1 x)) s0 s1 s2 c HJ HA (iso1_dss_2 s0 s1 s2) (iso1_dj3_2 s0 s1 s2) (iso1_db0_2 s0 s1 s2) (iso1_db1_2 s0 s1 s2) (iso1_db2_2 s0 s1 s2)). Qed.
Lemma c4i_1_leafhess_2_2 s0 s1 s2 c : 0 < ((iso_ss_1 s0 s1 s2) / 2) -> 0 < A4_of ((iso_ss_1 s0 s1 s2) / 2) (iso_j3_1 s0 s1 s2) c ->
  is_derive (fun x => nthR (c4i_snd_leaf_1 s0 s1 x (iso_ss_1 s0 s1 x) (iso_j3_1 s0 s1 x) (iso_b0_1 s0 s1 x) (iso_b1_1 s0 s1 x) (iso_b2_1 s0 s1 x) (iso_h00_1 s0 s1 x) (iso_h01_1 s0 s1 x) (iso_h02_1 s0 s1 x) (iso_h10_1 s0 s1 x) (iso_h11_1 s0 s1 x) (iso_h12_1 s0 s1 x) (iso_h20_1 s0 s1 x) (iso_h21_1 s0 s1 x) (iso_h22_1 s0 s1 x) c) 3) s2 (nthR (c4i_snd_leaf_1 s0 s1 s2 (iso_ss_1 s0 s1 s2) (iso_j3_1 s0 s1 s2) (iso_b0_1 s0 s1 s2) (iso_b1_1 s0 s1 s2) (iso_b2_1 s0 s1 s2) (iso_h00_1 s0 s1 s2) (iso_h01_1 s0 s1 s2) (iso_h02_1 s0 s1 s2) (iso_h10_1 s0 s1 s2) (iso_h11_1 s0 s1 s2) (iso_h12_1 s0 s1 s2) (iso_h20_1 s0 s1 s2) (iso_h21_1 s0 s1 s2) (iso_h22_1 s0 s1 s2) c) 12).
Proof. intros HJ HA. exact (c4i_1_abshess_2_2 (fun x => (iso_ss_1 s0 s1 x)) (fun x => (iso_j3_1 s0 s1 x)) (fun x => (iso_b0_1 s0 s1 x)) (fun x => (iso_b1_1 s0 s1 x)) (fun x => (iso_b2_1 s0 s1 x)) s0 s1 s2 c HJ HA (iso1_dss_2 s0 s1 s2) (iso1_dj3_2 s0 s1 s2) (iso1_db0_2 s0 s1 s2) (iso1_db1_2 s0 s1 s2) (iso1_db2_2 s0 s1 s2)). Qed.

Lemma c4i_1_nrm_at s0 s1 s2 c seps : seps < c4i_val_1 s0 s1 s2 c ->
  c4i_nrm_1 s0 s1 s2 c seps = Some (c4i_nrm_leaf_1 s0 s1 s2 (iso_ss_1 s0 s1 s2) (iso_j3_1 s0 s1 s2) (iso_b0_1 s0 s1 s2) (iso_b1_1 s0 s1 s2) (iso_b2_1 s0 s1 s2) (iso_h00_1 s0 s1 s2) (iso_h01_1 s0 s1 s2) (iso_h02_1 s0 s1 s2) (iso_h10_1 s0 s1 s2) (iso_h11_1 s0 s1 s2) (iso_h12_1 s0 s1 s2) (iso_h20_1 s0 s1 s2) (iso_h21_1 s0 s1 s2) (iso_h22_1 s0 s1 s2) c).
Proof. intro H1. tree_leaf ltac:(change (c4i_nrm_1 s0 s1 s2 c seps) with (c4i_nrm_fac_1 s0 s1 s2 c seps); unfold c4i_nrm_fac_1, c4i_nrm_abs_1)
  ltac:(change (c4i_val_1 s0 s1 s2 c) with (c4i_val_fac_1 s0 s1 s2 c) in H1; unfold c4i_val_fac_1, c4i_val_abs_1 in H1) H1. Qed.
Lemma c4i_1_snd_at s0 s1 s2 c seps : seps < c4i_val_1 s0 s1 s2 c ->
  c4i_snd_1 s0 s1 s2 c seps = Some (c4i_snd_leaf_1 s0 s1 s2 (iso_ss_1 s0 s1 s2) (iso_j3_1 s0 s1 s2) (iso_b0_1 s0 s1 s2) (iso_b1_1 s0 s1 s2) (iso_b2_1 s0 s1 s2) (iso_h00_1 s0 s1 s2) (iso_h01_1 s0 s1 s2) (iso_h02_1 s0 s1 s2) (iso_h10_1 s0 s1 s2) (iso_h11_1 s0 s1 s2) (iso_h12_1 s0 s1 s2) (iso_h20_1 s0 s1 s2) (iso_h21_1 s0 s1 s2) (iso_h22_1 s0 s1 s2) c).
Proof. intro H1. tree_leaf ltac:(change (c4i_snd_1 s0 s1 s2 c seps) with (c4i_snd_fac_1 s0 s1 s2 c seps); unfold c4i_snd_fac_1, c4i_snd_abs_1)
  ltac:(change (c4i_val_1 s0 s1 s2 c) with (c4i_val_fac_1 s0 s1 s2 c) in H1; unfold c4i_val_fac_1, c4i_val_abs_1 in H1) H1. Qed.
Lemma c4i_1_val_fac s0 s1 s2 c : c4i_val_1 s0 s1 s2 c = (c4i_val_abs_1 s0 s1 s2 (iso_ss_1 s0 s1 s2) (iso_j3_1 s0 s1 s2) (iso_b0_1 s0 s1 s2) (iso_b1_1 s0 s1 s2) (iso_b2_1 s0 s1 s2) (iso_h00_1 s0 s1 s2) (iso_h01_1 s0 s1 s2) (iso_h02_1 s0 s1 s2) (iso_h10_1 s0 s1 s2) (iso_h11_1 s0 s1 s2) (iso_h12_1 s0 s1 s2) (iso_h20_1 s0 s1 s2) (iso_h21_1 s0 s1 s2) (iso_h22_1 s0 s1 s2) c).
Proof. reflexivity. Qed.
Lemma c4i_1_near_0 s0 s1 s2 c seps : seps < c4i_val_1 s0 s1 s2 c -> 0 < ((iso_ss_1 s0 s1 s2) / 2) -> 0 < A4_of ((iso_ss_1 s0 s1 s2) / 2) (iso_j3_1 s0 s1 s2) c ->
  locally s0 (fun x => seps < c4i_val_1 x s1 s2 c).
Proof. intros H1 HJ HA. apply (locally_gt_ex (fun x => c4i_val_1 x s1 s2 c)); [ | exact H1 ].
  exists (nthR (c4i_nrm_leaf_1 s0 s1 s2 (iso_ss_1 s0 s1 s2) (iso_j3_1 s0 s1 s2) (iso_b0_1 s0 s1 s2) (iso_b1_1 s0 s1 s2) (iso_b2_1 s0 s1 s2) (iso_h00_1 s0 s1 s2) (iso_h01_1 s0 s1 s2) (iso_h02_1 s0 s1 s2) (iso_h10_1 s0 s1 s2) (iso_h11_1 s0 s1 s2) (iso_h12_1 s0 s1 s2) (iso_h20_1 s0 s1 s2) (iso_h21_1 s0 s1 s2) (iso_h22_1 s0 s1 s2) c) 1). exact (c4i_1_leafgrad_0 s0 s1 s2 c HJ HA). Qed.
Lemma c4i_1_near_1 s0 s1 s2 c seps : seps < c4i_val_1 s0 s1 s2 c -> 0 < ((iso_ss_1 s0 s1 s2) / 2) -> 0 < A4_of ((iso_ss_1 s0 s1 s2) / 2) (iso_j3_1 s0 s1 s2) c ->
  locally s1 (fun x => seps < c4i_val_1 s0 x s2 c).
Proof. intros H1 HJ HA. apply (locally_gt_ex (fun x => c4i_val_1 s0 x s2 c)); [ | exact H1 ].
  exists (nthR (c4i_nrm_leaf_1 s0 s1 s2 (iso_ss_1 s0 s1 s2) (iso_j3_1 s0 s1 s2) (iso_b0_1 s0 s1 s2) (iso_b1_1 s0 s1 s2) (iso_b2_1 s0 s1 s2) (iso_h00_1 s0 s1 s2) (iso_h01_1 s0 s1 s2) (iso_h02_1 s0 s1 s2) (iso_h10_1 s0 s1 s2) (iso_h11_1 s0 s1 s2) (iso_h12_1 s0 s1 s2) (iso_h20_1 s0 s1 s2) (iso_h21_1 s0 s1 s2) (iso_h22_1 s0 s1 s2) c) 2). exact (c4i_1_leafgrad_1 s0 s1 s2 c HJ HA). Qed.
Lemma c4i_1_near_2 s0 s1 s2 c seps : seps < c4i_val_1 s0 s1 s2 c -> 0 < ((iso_ss_1 s0 s1 s2) / 2) -> 0 < A4_of ((iso_ss_1 s0 s1 s2) / 2) (iso_j3_1 s0 s1 s2) c ->
  locally s2 (fun x => seps < c4i_val_1 s0 s1 x c).
Proof. intros H1 HJ HA. apply (locally_gt_ex (fun x => c4i_val_1 s0 s1 x c)); [ | exact H1 ].
  exists (nthR (c4i_nrm_leaf_1 s0 s1 s2 (iso_ss_1 s0 s1 s2) (iso_j3_1 s0 s1 s2) (iso_b0_1 s0 s1 s2) (iso_b1_1 s0 s1 s2) (iso_b2_1 s0 s1 s2) (iso_h00_1 s0 s1 s2) (iso_h01_1 s0 s1 s2) (iso_h02_1 s0 s1 s2) (iso_h10_1 s0 s1 s2) (iso_h11_1 s0 s1 s2) (iso_h12_1 s0 s1 s2) (iso_h20_1 s0 s1 s2) (iso_h21_1 s0 s1 s2) (iso_h22_1 s0 s1 s2) c) 3). exact (c4i_1_leafgrad_2 s0 s1 s2 c HJ HA). Qed.

Lemma c4i_1_same_ok : c4i_1_same_stmt.
Proof.
  unfold c4i_1_same_stmt. intros s0 s1 s2 c seps H1.
  rewrite (c4i_1_nrm_at s0 s1 s2 c seps H1), (c4i_1_snd_at s0 s1 s2 c seps H1), (c4i_1_val_fac s0 s1 s2 c).
  same_leaves ltac:(unfold c4i_nrm_leaf_1, c4i_snd_leaf_1, c4i_val_abs_1).
Qed.
Lemma c4i_1_grad_ok : c4i_1_grad_stmt.
Proof.
  unfold c4i_1_grad_stmt. intros s0 s1 s2 c seps H1 HJ HA. unfold is_grad; cbv [all_upto]; side_split;
  lazy beta delta [upd firstn skipn app nthR nth Nat.add] iota;
  rewrite (c4i_1_nrm_at s0 s1 s2 c seps H1); lazy beta delta [out] iota.
  - exact (c4i_1_leafgrad_0 s0 s1 s2 c HJ HA).
  - exact (c4i_1_leafgrad_1 s0 s1 s2 c HJ HA).
  - exact (c4i_1_leafgrad_2 s0 s1 s2 c HJ HA).
Qed.
Lemma c4i_1_hess_ok : c4i_1_hess_stmt.
Proof.
  unfold c4i_1_hess_stmt. intros s0 s1 s2 c seps H1 HJ HA. unfold is_hess; cbv [all_upto]; side_split;
  lazy beta delta [upd firstn skipn app nthR nth Nat.add Nat.mul] iota.
  - apply (is_derive_near _ (fun x => nth 1 (c4i_snd_leaf_1 x s1 s2 (iso_ss_1 x s1 s2) (iso_j3_1 x s1 s2) (iso_b0_1 x s1 s2) (iso_b1_1 x s1 s2) (iso_b2_1 x s1 s2) (iso_h00_1 x s1 s2) (iso_h01_1 x s1 s2) (iso_h02_1 x s1 s2) (iso_h10_1 x s1 s2) (iso_h11_1 x s1 s2) (iso_h12_1 x s1 s2) (iso_h20_1 x s1 s2) (iso_h21_1 x s1 s2) (iso_h22_1 x s1 s2) c) 0)).
    + generalize (c4i_1_near_0 s0 s1 s2 c seps H1 HJ HA); apply filter_imp; intros x Hx;
      rewrite (c4i_1_snd_at x s1 s2 c seps Hx); reflexivity.
    + rewrite (c4i_1_snd_at s0 s1 s2 c seps H1). exact (c4i_1_leafhess_0_0 s0 s1 s2 c HJ HA).
  - apply (is_derive_near _ (fun x => nth 1 (c4i_snd_leaf_1 s0 x s2 (iso_ss_1 s0 x s2) (iso_j3_1 s0 x s2) (iso_b0_1 s0 x s2) (iso_b1_1 s0 x s2) (iso_b2_1 s0 x s2) (iso_h00_1 s0 x s2) (iso_h01_1 s0 x s2) (iso_h02_1 s0 x s2) (iso_h10_1 s0 x s2) (iso_h11_1 s0 x s2) (iso_h12_1 s0 x s2) (iso_h20_1 s0 x s2) (iso_h21_1 s0 x s2) (iso_h22_1 s0 x s2) c) 0)).
    + generalize (c4i_1_near_1 s0 s1 s2 c seps H1 HJ HA); apply filter_imp; intros x Hx;
      rewrite (c4i_1_snd_at s0 x s2 c seps Hx); reflexivity.
    + rewrite (c4i_1_snd_at s0 s1 s2 c seps H1). exact (c4i_1_leafhess_0_1 s0 s1 s2 c HJ HA).
  - apply (is_derive_near _ (fun x => nth 1 (c4i_snd_leaf_1 s0 s1 x (iso_ss_1 s0 s1 x) (iso_j3_1 s0 s1 x) (iso_b0_1 s0 s1 x) (iso_b1_1 s0 s1 x) (iso_b2_1 s0 s1 x) (iso_h00_1 s0 s1 x) (iso_h01_1 s0 s1 x) (iso_h02_1 s0 s1 x) (iso_h10_1 s0 s1 x) (iso_h11_1 s0 s1 x) (iso_h12_1 s0 s1 x) (iso_h20_1 s0 s1 x) (iso_h21_1 s0 s1 x) (iso_h22_1 s0 s1 x) c) 0)).
    + generalize (c4i_1_near_2 s0 s1 s2 c seps H1 HJ HA); apply filter_imp; intros x Hx;
      rewrite (c4i_1_snd_at s0 s1 x c seps Hx); reflexivity.
    + rewrite (c4i_1_snd_at s0 s1 s2 c seps H1). exact (c4i_1_leafhess_0_2 s0 s1 s2 c HJ HA).
  - apply (is_derive_near _ (fun x => nth 2 (c4i_snd_leaf_1 x s1 s2 (iso_ss_1 x s1 s2) (iso_j3_1 x s1 s2) (iso_b0_1 x s1 s2) (iso_b1_1 x s1 s2) (iso_b2_1 x s1 s2) (iso_h00_1 x s1 s2) (iso_h01_1 x s1 s2) (iso_h02_1 x s1 s2) (iso_h10_1 x s1 s2) (iso_h11_1 x s1 s2) (iso_h12_1 x s1 s2) (iso_h20_1 x s1 s2) (iso_h21_1 x s1 s2) (iso_h22_1 x s1 s2) c) 0)).
    + generalize (c4i_1_near_0 s0 s1 s2 c seps H1 HJ HA); apply filter_imp; intros x Hx;
      rewrite (c4i_1_snd_at x s1 s2 c seps Hx); reflexivity.
    + rewrite (c4i_1_snd_at s0 s1 s2 c seps H1). exact (c4i_1_leafhess_1_0 s0 s1 s2 c HJ HA).
  - apply (is_derive_near _ (fun x => nth 2 (c4i_snd_leaf_1 s0 x s2 (iso_ss_1 s0 x s2) (iso_j3_1 s0 x s2) (iso_b0_1 s0 x s2) (iso_b1_1 s0 x s2) (iso_b2_1 s0 x s2) (iso_h00_1 s0 x s2) (iso_h01_1 s0 x s2) (iso_h02_1 s0 x s2) (iso_h10_1 s0 x s2) (iso_h11_1 s0 x s2) (iso_h12_1 s0 x s2) (iso_h20_1 s0 x s2) (iso_h21_1 s0 x s2) (iso_h22_1 s0 x s2) c) 0)).
    + generalize (c4i_1_near_1 s0 s1 s2 c seps H1 HJ HA); apply filter_imp; intros x Hx;
      rewrite (c4i_1_snd_at s0 x s2 c seps Hx); reflexivity.
    + rewrite (c4i_1_snd_at s0 s1 s2 c seps H1). exact (c4i_1_leafhess_1_1 s0 s1 s2 c HJ HA).
  - apply (is_derive_near _ (fun x => nth 2 (c4i_snd_leaf_1 s0 s1 x (iso_ss_1 s0 s1 x) (iso_j3_1 s0 s1 x) (iso_b0_1 s0 s1 x) (iso_b1_1 s0 s1 x) (iso_b2_1 s0 s1 x) (iso_h00_1 s0 s1 x) (iso_h01_1 s0 s1 x) (iso_h02_1 s0 s1 x) (iso_h10_1 s0 s1 x) (iso_h11_1 s0 s1 x) (iso_h12_1 s0 s1 x) (iso_h20_1 s0 s1 x) (iso_h21_1 s0 s1 x) (iso_h22_1 s0 s1 x) c) 0)).
    + generalize (c4i_1_near_2 s0 s1 s2 c seps H1 HJ HA); apply filter_imp; intros x Hx;
      rewrite (c4i_1_snd_at s0 s1 x c seps Hx); reflexivity.
    + rewrite (c4i_1_snd_at s0 s1 s2 c seps H1). exact (c4i_1_leafhess_1_2 s0 s1 s2 c HJ HA).
  - apply (is_derive_near _ (fun x => nth 3 (c4i_snd_leaf_1 x s1 s2 (iso_ss_1 x s1 s2) (iso_j3_1 x s1 s2) (iso_b0_1 x s1 s2) (iso_b1_1 x s1 s2) (iso_b2_1 x s1 s2) (iso_h00_1 x s1 s2) (iso_h01_1 x s1 s2) (iso_h02_1 x s1 s2) (iso_h10_1 x s1 s2) (iso_h11_1 x s1 s2) (iso_h12_1 x s1 s2) (iso_h20_1 x s1 s2) (iso_h21_1 x s1 s2) (iso_h22_1 x s1 s2) c) 0)).
    + generalize (c4i_1_near_0 s0 s1 s2 c seps H1 HJ HA); apply filter_imp; intros x Hx;
      rewrite (c4i_1_snd_at x s1 s2 c seps Hx); reflexivity.
    + rewrite (c4i_1_snd_at s0 s1 s2 c seps H1). exact (c4i_1_leafhess_2_0 s0 s1 s2 c HJ HA).
  - apply (is_derive_near _ (fun x => nth 3 (c4i_snd_leaf_1 s0 x s2 (iso_ss_1 s0 x s2) (iso_j3_1 s0 x s2) (iso_b0_1 s0 x s2) (iso_b1_1 s0 x s2) (iso_b2_1 s0 x s2) (iso_h00_1 s0 x s2) (iso_h01_1 s0 x s2) (iso_h02_1 s0 x s2) (iso_h10_1 s0 x s2) (iso_h11_1 s0 x s2) (iso_h12_1 s0 x s2) (iso_h20_1 s0 x s2) (iso_h21_1 s0 x s2) (iso_h22_1 s0 x s2) c) 0)).
    + generalize (c4i_1_near_1 s0 s1 s2 c seps H1 HJ HA); apply filter_imp; intros x Hx;
      rewrite (c4i_1_snd_at s0 x s2 c seps Hx); reflexivity.
    + rewrite (c4i_1_snd_at s0 s1 s2 c seps H1). exact (c4i_1_leafhess_2_1 s0 s1 s2 c HJ HA).
  - apply (is_derive_near _ (fun x => nth 3 (c4i_snd_leaf_1 s0 s1 x (iso_ss_1 s0 s1 x) (iso_j3_1 s0 s1 x) (iso_b0_1 s0 s1 x) (iso_b1_1 s0 s1 x) (iso_b2_1 s0 s1 x) (iso_h00_1 s0 s1 x) (iso_h01_1 s0 s1 x) (iso_h02_1 s0 s1 x) (iso_h10_1 s0 s1 x) (iso_h11_1 s0 s1 x) (iso_h12_1 s0 s1 x) (iso_h20_1 s0 s1 x) (iso_h21_1 s0 s1 x) (iso_h22_1 s0 s1 x) c) 0)).
    + generalize (c4i_1_near_2 s0 s1 s2 c seps H1 HJ HA); apply filter_imp; intros x Hx;
      rewrite (c4i_1_snd_at s0 s1 x c seps Hx); reflexivity.
    + rewrite (c4i_1_snd_at s0 s1 s2 c seps H1). exact (c4i_1_leafhess_2_2 s0 s1 s2 c HJ HA).
Qed.
Lemma c4i_1_sym_ok : c4i_1_sym_stmt.
Proof.
  unfold c4i_1_sym_stmt. intros s0 s1 s2 c seps H1 HJ HA. rewrite (c4i_1_snd_at s0 s1 s2 c seps H1).
  unfold is_sym; cbv [all_upto]; side_split; sym_entry ltac:(lazy beta delta [out c4i_snd_leaf_1 nthR nth Nat.add Nat.mul] iota zeta) ltac:(unfold iso_h00_1, iso_h01_1, iso_h02_1, iso_h10_1, iso_h11_1, iso_h12_1, iso_h20_1, iso_h21_1, iso_h22_1) ((iso_ss_1 s0 s1 s2) / 2) (iso_j3_1 s0 s1 s2).
Qed.
Lemma c4i_1_hom_ok : c4i_1_hom_stmt.
Proof.
  unfold c4i_1_hom_stmt. intros s0 s1 s2 c t Ht HJ HA. rewrite !c4i_1_val_fac.
  assert (E2 : (iso_ss_1 (t * s0) (t * s1) (t * s2)) = t * t * (iso_ss_1 s0 s1 s2)) by (unfold iso_ss_1; poly_eq).
  assert (E3 : (iso_j3_1 (t * s0) (t * s1) (t * s2)) = t * t * t * (iso_j3_1 s0 s1 s2)) by (unfold iso_j3_1; poly_eq).
  hom_A4 ltac:(unfold c4i_val_abs_1) E2 E3.
Qed.

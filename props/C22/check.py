"""C22 -- equivalent-stress criteria return consistent values and derivatives.
Engine S (symtrace) + Coquelicot.  Three tracers instantiate the unmodified templates of /repo with the symbolic scalar:
  trace.cxx      Drucker 1949 / Cazacu 2004 iso / sigmaeq, monolithic (first round: value documented, variants, 1D normal)
  trace_inv.cxx  INVARIANT-BASED criteria (Drucker 1949, Cazacu 2001, Cazacu 2004 iso/ortho), N = 1,2,3, with cut points at the
                 results of the library calls (s|s, det, computeJ3[Second]Derivative, computeJ2O/J3O and derivatives); Coq proves for
                 each criterion and N: variants agree, normal = gradient of the value, second derivative = Jacobian of the normal
                 (component-wise is_derive, on the open set where the criterion is smooth), symmetry, degree-one homogeneity
  trace_eig.cxx  EIGEN-BASED criteria: the public Hosford functions on a diagonal stress (a = 2, 6, 8): documented value,
                 gradient, Jacobian (ties included), homogeneity, Hosford(2) = von Mises; the assembly of the second derivative from the
                 eigen-data (Hosford, Barlat), every tie branch against the specification formula
Quick: N = 1 (all four), N = 2 (Drucker, Cazacu 2004 iso), a = 2, 6, assembly 2D and 3D.  Thorough adds N = 2 for the orthotropic criteria, N = 3,
a = 8, Barlat's Phi(vp1, vp2, seq) and its derivatives (a = 6).
Everything that is not proved (2D/3D Hosford and Barlat through the eigen solvers, Mohr-Coulomb, ...) is checked BY EXECUTION of the
real double code against central finite differences (trace run, driver run) -- labelled as such; it is also the failing-input search."""
import math, os, re
from concurrent.futures import ThreadPoolExecutor, wait, FIRST_COMPLETED
from vlib import guarded_main

SUPPORT = ["src/Exception/ContractViolation.cxx", "src/Exception/TFELException.cxx"]
INV = ["drk", "c01", "c4i", "c4o"]
LODET = 20.0 * math.pi / 180  # lodeT of driver.cxx


def fl(t):
    return [float(x) for x in t.split()[1:]]


def nthm(c, fn):
    try:
        return len(re.findall(r"^Theorem ", open(os.path.join(c.dir, "coq", fn)).read(), flags=re.M))
    except OSError:
        return 0


def run_jobs(c, jobs, nworkers=4):
    """jobs: name -> (files, deps).  Runs c.coq(files) for every job whose dependencies succeeded, at most nworkers at a time.
    Returns name -> CoqResult (None for jobs skipped because a dependency failed)."""
    results, running, done = {}, {}, set()
    pending = dict(jobs)
    with ThreadPoolExecutor(max_workers=nworkers) as ex:
        while pending or running:
            for name in sorted(pending, key=lambda n: jobs[n][2]):
                files, deps, _prio = pending[name]
                if any(d in results and (results[d] is None or not results[d].ok) for d in deps):
                    results[name] = None
                    del pending[name]
                elif all(d in done for d in deps) and len(running) < nworkers:
                    running[ex.submit(c.coq, files, 2400)] = name
                    del pending[name]
            if not running:
                continue
            fin, _ = wait(list(running), return_when=FIRST_COMPLETED)
            for f in fin:
                name = running.pop(f)
                results[name] = f.result()
                done.add(name)
    return results


def process_cases(c, out, source, failed_classes, pending, stats):
    for l in out.splitlines():
        if l.startswith("MISES"):
            t = l.split()
            a, b = float(t[3]), float(t[4])
            c.count(1, ("mises", t[1], t[2]))
            if abs(a - b) > 1e-9 * max(abs(a), abs(b)):
                c.report("mises:N%s:%s" % (t[1], t[2]), "Hosford(a=2) = %.17g differs from sigmaeq = %.17g" % (b, a), {"line": l}, True)
            continue
        if l.startswith("BARLATID"):
            a, b, d = l.split("|")
            t = a.split()
            N, cid = t[1], t[2]
            hb, hh = [float(x) for x in b.split()], [float(x) for x in d.split()]
            n = {"1": 3, "2": 4, "3": 6}[N]
            c.count(1, ("barlatid", N, cid))
            stats["barlatid"] = stats.get("barlatid", 0) + 1
            sc = [abs(hh[0])] * 1 + [max(abs(x) for x in hh[1:1 + n])] * n + [max(abs(x) for x in hh[1 + n:])] * (n * n)
            e = max(abs(x - y) / s for x, y, s in zip(hb, hh, sc))
            if not e <= 1e-8:
                c.report("barlatid:N%s:%s" % (N, cid), "Barlat with both transformations = deviatoric projector differs from Hosford (a=%s, N=%s, %s): relative "
                         "difference %.3g" % (t[3], N, cid, e), {"line": l, "how": "props/C22/driver.cxx run (Jacobi eigen solver)"}, True)
            continue
        if not l.startswith("CASE"):
            continue
        f = [x.strip() for x in l.split("|")]
        _, crit, N, cid = f[0].split()
        params = f[1]
        sig, seq, hom = fl(f[2]), fl(f[3]), fl(f[4])[0]
        n1, n2, fdn, dn, fdd = fl(f[5]), fl(f[6]), fl(f[7]), fl(f[8]), fl(f[9])
        aux = fl(f[10])[0] if len(f) > 10 else 0.0
        m = len(sig)
        stats["cases"] = stats.get("cases", 0) + 1
        c.count(1, (crit, N, cid, tuple(sig)))
        if stats["cases"] % 97 == 1:
            c.sample({"criterion": crit, "N": int(N), "params": params[:60], "sigma": sig, "seq": seq[0], "normal": n1})
        tie = cid.startswith("tie-")
        if tie:
            stats["tie"] = stats.get("tie", 0) + 1
        # tolerance of the second-derivative comparison (relative to the largest entry)
        tol_dn = 1e-4
        skip_dn = False
        if crit in ("hosford", "barlat") and tie:
            tol_dn = 2e-3   # default solver: ties split by ~1e-9, divided differences with tiny denominators
        if crit == "mohrcoulomb":
            if abs(abs(aux) - LODET) < 0.01:
                skip_dn = True   # K is only C1 across |lode| = lodeT: a finite difference straddling it means nothing
            if abs(aux) > LODET:
                stats["mc_corner"] = stats.get("mc_corner", 0) + 1
            if abs(aux) > 29.9 * math.pi / 180:
                tol_dn = 5e-2    # exact apex: terms in 1/cos^2(3 lode) ~ 1e14 cancel; two digits are lost (see NOTES)
                stats["mc_apex"] = stats.get("mc_apex", 0) + 1
        bad = []
        if max(seq) - min(seq) > 1e-11 * abs(seq[0]):
            bad.append(("value", "value/normal/second-derivative variants return %s" % seq))
        if hom == hom and abs(hom - 2.5 * seq[0]) > 1e-9 * abs(hom):
            bad.append(("homogeneity", "seq(2.5 sigma) = %.17g but 2.5 seq(sigma) = %.17g" % (hom, 2.5 * seq[0])))
        sn = max(map(abs, n1))
        e = max(abs(a - b) for a, b in zip(n1, n2))
        if e > 1e-11 * sn:
            bad.append(("normal-variants", "normal of the two derivative variants differ by %.3g" % e))
        e = max(abs(a - b) for a, b in zip(n1, fdn))
        if e > 2e-6 * sn:
            bad.append(("n", "normal differs from the finite-difference gradient of the value by %.3g (entries of size %.3g)" % (e, sn)))
        sd = max(map(abs, dn))
        e = max(abs(a - b) for a, b in zip(dn, fdd))
        if not skip_dn and e > tol_dn * sd:
            bad.append(("dn", "second derivative differs from the finite-difference gradient of the normal by %.3g (entries of size %.3g)" % (e, sd)))
        e = max(abs(dn[i * m + j] - dn[j * m + i]) for i in range(m) for j in range(m))
        if e > 1e-9 * sd:
            bad.append(("dn-symmetry", "second derivative is not symmetric (%.3g)" % e))
        for (q, what) in bad:
            key = "%s:%s:N%s:%s" % (crit, q, N, cid)
            rep = {"criterion": crit, "N": int(N), "parameters": params, "sigma": sig, "seq": seq, "normal": n1, "fd_normal": fdn,
                   "second_derivative": dn, "fd_second_derivative": fdd, "lode": aux,
                   "how": "props/C22/%s run (central differences, step 1e-5 |sigma|)" % source}
            msg = "%s (N=%s, parameters %s, sigma=%s): %s" % (crit, N, params[:80], sig, what)
            if not cid.startswith("rand"):
                failed_classes.setdefault((crit, q, N), 0)
                c.report(key, msg, rep, True)
            else:
                pending.append(((crit, q, N), key, msg, rep))


def main(c):
    # ---------------------------------------------------------------- tracers and drivers
    with ThreadPoolExecutor(max_workers=4) as ex:
        fb = {k: ex.submit(c.cxx, k, [k + ".cxx"], SUPPORT) for k in ("trace", "trace_inv", "trace_eig", "driver")}
        exe = {k: f.result() for k, f in fb.items()}
    wd = os.path.join(c.work, "coq")
    os.makedirs(wd, exist_ok=True)
    gens = {"trace": os.path.join(wd, "C22_gen.v"), "trace_inv": os.path.join(wd, "C22inv_gen.v"), "trace_eig": os.path.join(wd, "C22eig_gen.v")}
    nag = 0
    for k, gen in gens.items():
        args = [exe[k], "gen", gen, str(c.seed)] + (["3"] if k == "trace_inv" else [])
        rc, out, err = c.run(args)
        if rc != 0:
            c.report(k, "tracer %s failed on /repo's headers: %s" % (k, err[-500:]), {"stderr": err[-3000:]}, False)
            return
        for l in out.splitlines():
            if l.startswith("AGREE"):
                nag += 1
                c.count(1, ("agree", k, l))
                if l.startswith("AGREE-FAIL"):
                    c.report("agree:" + l.split()[1], "traced expression and double instantiation disagree: " + l, {"line": l, "seed": c.seed}, True)
            if l.startswith("FACTOR-FAIL"):
                c.report("factor:" + l.split()[1], "substituting the cut quantities back does not give the traced DAG: " + l, {"line": l}, False)
    c.trusted("engine S tracer (cxx/sym/sym.hxx path oracle + printer; node substitution for the cut points in props/C22/trace_inv.cxx), g++ template "
              "instantiation with Sym; std::pow traced as Rpower (integer exponents as pow), std::cbrt as VLib.Rcbrt",
              "agreement Sym decision tree vs double instantiation on %d seeded cases (above and below the thresholds, tie patterns for the eigen-based functions)" % nag,
              "central finite differences (step 1e-5 |sigma|) as the independent statement of 'is the gradient of' for everything not proved in Coq",
              "for the tensor-level second derivative of Hosford / Barlat in 2D/3D: the standard formula for the Hessian of an isotropic function from the "
              "eigen-data (C22EigSpec.v iso_hess) is the specification; that it is the Frechet derivative is assumed mathematics (checked by finite differences only)")
    # ---------------------------------------------------------------- Coq jobs (at most 4 at a time)
    Ns = c.pick([1, 2], [1, 2, 3])
    As = c.pick([6], [6, 2, 8])   # quick: one exponent (time); a = 2 (von Mises) and 8 in the thorough tier
    jobs = {
        "old": ([gens["trace"], "C22Spec.v", "C22Proofs.v", "Properties_C22.v"], [], 5),
        "invbase": ([gens["trace_inv"], "C22InvSpec.v", "C22InvTac.v", "C22InvCrit.v", "C22InvStatements.v"], [], 0),
        "eigbase": ([gens["trace_eig"], "C22EigSpec.v", "C22EigTac.v", "C22EigStatements.v", "C22EigAsmCuts.v", "C22EigAsmTac.v"], ["invbase"], 1),
        "asm3h": (["C22Eig_asm3h.v", "Properties_C22eig_asm3h.v"], ["eigbase"], 2),
        "asm2": (["C22Eig_asm2.v", "Properties_C22eig_asm2.v"], ["eigbase"], 6),
    }
    jobs["asm3b"] = (["C22Eig_asm3b.v", "Properties_C22eig_asm3b.v"], ["eigbase"], 3)
    if not c.quick():
        jobs["barS6"] = (["C22Eig_barS6.v", "Properties_C22eig_barS6.v"], ["eigbase"], 2)
    for a in As:
        jobs["hos%d" % a] = (["C22Eig_hos%d.v" % a, "Properties_C22eig_hos%d.v" % a], ["eigbase"], 4)
    FAM = {"drk": "iso", "c4i": "iso", "c01": "ort", "c4o": "ort"}
    for N in Ns:
        for X in INV:
            if c.quick() and N == 2 and X != "drk":
                continue   # quick: only Drucker in 2D; the other criteria in 2D (and everything in 3D) in the thorough tier (time)
            cj = "cuts_%s%d" % (FAM[X], N)
            jobs[cj] = (["C22InvCuts_%s%d.v" % (FAM[X], N)], ["invbase"], 3 - N)
            jobs["inv_%s_%d" % (X, N)] = (["C22Inv_%s_%d.v" % (X, N), "Properties_C22inv_%s_%d.v" % (X, N)], [cj], 10 - 3 * N)
    ex = ThreadPoolExecutor(max_workers=1)
    fcoq = ex.submit(run_jobs, c, jobs, 4)

    # ---------------------------------------------------------------- execution of the real code (while Coq runs)
    n = c.pick(12, 150)
    failed_classes, pending, stats = {}, [], {}
    for (k, src) in (("trace", "trace.cxx"), ("driver", "driver.cxx")):
        rc, out, err = c.run([exe[k], "run", str(c.seed), str(n if k == "trace" else c.pick(6, 60))], timeout=3000)
        if rc != 0:
            c.report("run:" + k, "driver failed: " + err[-500:], {"stderr": err[-3000:]}, False)
            continue
        process_cases(c, out, src, failed_classes, pending, stats)
    extra = 0
    for (cl, key, msg, rep) in pending:
        if cl in failed_classes:
            failed_classes[cl] += 1
            extra += 1
        else:
            failed_classes[cl] = 0
            c.report(key + ":seed%d" % c.seed, msg, rep, True)
    if extra:
        c.notes.append("%d further seeded cases fail in classes already reported on a corpus case: %s" % (extra, {"%s:%s:N%s" % k: v for k, v in failed_classes.items() if v}))
    results = fcoq.result()
    ex.shutdown()
    c.coverage["rule"] = (
        "Coq, all reals: invariant-based criteria {Drucker 1949, Cazacu 2001, Cazacu 2004 iso/ortho} x N=%s (quick: orthotropic ones only N=1): variants agree, normal = gradient, second "
        "derivative = Jacobian (every entry), symmetry, homogeneity, on {above threshold, J2^3 - c J3^2 > 0 resp. J2 > 0 and J2^(3/2) - c J3 > 0}; Hosford "
        "a=%s on diagonal stresses (ties included): value documented, gradient, Jacobian, symmetry, homogeneity, a=2 is von Mises; assembly of the Hosford "
        "/ Barlat second derivative from the eigen-data, every tie branch (2D, 3D)%s. Execution: corpus (3 generic + %d tie patterns and corner-zone points "
        "per dimension) + seeded stresses x N=1,2,3 x {Drucker, Cazacu 2001/2004, Hosford and Barlat with default and Jacobi eigen solvers, Mohr-Coulomb}: "
        "same value, homogeneity, normal and second derivative vs central finite differences, symmetry; Barlat(projector) = Hosford"
        % (Ns, As, "" if c.quick() else "; Barlat's Phi(vp1, vp2, seq), a=6: documented value, independent of seq, gradient and Jacobian with respect to the six "
           "eigenvalues, Phi(u, u) = Hosford", stats.get("tie", 0)))
    c.coverage["traces_validated_against_impl"] = nag
    c.coverage["executions_against_finite_differences"] = stats.get("cases", 0)
    c.coverage["executions_on_tie_patterns"] = stats.get("tie", 0)
    c.coverage["mohr_coulomb_executions_in_corner_zones"] = stats.get("mc_corner", 0)
    c.coverage["barlat_projector_vs_hosford"] = stats.get("barlatid", 0)
    if stats.get("mc_apex"):
        c.notes.append("Mohr-Coulomb at the exact apex (|lode| = 30 deg, %d cases): second derivative compared with tolerance 5e-2 (catastrophic cancellation "
                       "of terms in 1/cos^2(3 lode) in the code; see NOTES.md)" % stats["mc_apex"])
    # ---------------------------------------------------------------- broken obligations
    broken = []
    for name in sorted(jobs):
        res = results.get(name)
        if res is None:
            for fn in jobs[name][0]:
                if isinstance(fn, str) and os.path.basename(fn).startswith("Properties"):
                    c.coverage["obligations"] += nthm(c, fn)
            c.notes.append("Coq job %s skipped: a prerequisite failed" % name)
            continue
        if not res.ok:
            broken.append((name, res))
            compiled = [x[0] for x in res.files]
            for fn in jobs[name][0]:
                b = os.path.basename(fn)
                if b.startswith("Properties") and b not in compiled:
                    c.coverage["obligations"] += nthm(c, b)
            for (fn, line, thm, msg) in res.failed:
                ls = re.findall(r'line (\d+), characters', msg or "")
                if ls:
                    line = int(ls[-1])   # the first "File .. line" of coqc's output is a warning of the Require lines
                if line and not fn.startswith("Properties"):
                    try:
                        src = open(os.path.join(c.dir, "coq", fn)).read().splitlines()
                        lem = [m.group(1) for i, l in enumerate(src) for m in [re.match(r"Lemma (\w+)", l)] if m and i + 1 <= line]
                        if lem:
                            c.notes.append("broken lemma: %s (%s line %d)" % (lem[-1], fn, line))
                    except OSError:
                        pass
    for (name, res) in broken:
        if any(v[3] for v in c.violations) or c.known_hits:
            c.notes.append("proof obligations failed in job %s: %s; concrete failing inputs reported above" % (name, [f[2] or f[3][:80] for f in res.failed]))
        else:
            c.coq_failures(res, None)


guarded_main("C22", main)

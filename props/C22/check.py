"""C22 -- equivalent-stress criteria return consistent values and derivatives.
Engine S: Drucker 1949 (value / normal / second derivative, N=1,2,3, decision tree on the seps test), Cazacu 2004 isotropic and
sigmaeq are traced from /repo; Coq proves: traced value = documented formula (1D,2D,3D), the variants return the same value
(1D, 2D, 3D normal variant), zeros below the threshold, and in 1D that the returned normal is the gradient of the returned value
(Coquelicot auto_derive + field).  Everything else (second derivatives, 2D/3D normals, Cazacu 2001/2004, Hosford) is checked BY
EXECUTION of the real double code against central finite differences -- labelled as such in the evidence; it is also the
failing-input search when an obligation breaks."""
import os
from vlib import guarded_main

SUPPORT = ["src/Exception/ContractViolation.cxx", "src/Exception/TFELException.cxx"]


def fl(t):
    return [float(x) for x in t.split()[1:]]


def main(c):
    exe = c.cxx("trace", ["trace.cxx"], SUPPORT)
    gen = os.path.join(c.work, "coq", "C22_gen.v")
    os.makedirs(os.path.dirname(gen), exist_ok=True)
    rc, out, err = c.run([exe, "gen", gen, str(c.seed)])
    if rc != 0:
        c.report("trace", "tracer failed on /repo's headers: " + err[-500:], {"stderr": err[-3000:]}, False)
        return
    nag = 0
    for l in out.splitlines():
        if l.startswith("AGREE"):
            nag += 1
            c.count(1, ("agree", l))
            if l.startswith("AGREE-FAIL"):
                c.report("agree:" + l.split()[1], "traced expression and double instantiation disagree: " + l, {"line": l, "seed": c.seed}, True)
    c.trusted("engine S tracer (cxx/sym/sym.hxx path oracle + printer), g++ template instantiation with Sym; std::pow traced as Rpower, "
              "std::cbrt as VLib.Rcbrt", "agreement Sym decision tree vs double instantiation on %d seeded cases (above and below the seps threshold)" % nag,
              "central finite differences (step 1e-5 |sigma|) as the independent statement of 'is the gradient of' for everything not proved in Coq")
    res = c.coq([gen, "C22Spec.v", "C22Proofs.v", "Properties_C22.v"], timeout=900)

    # ---- execution of the real code: values, normals, second derivatives vs finite differences
    n = c.pick(12, 150)
    rc, out, err = c.run([exe, "run", str(c.seed), str(n)])
    if rc != 0:
        c.report("run", "driver failed: " + err[-500:], {"stderr": err[-3000:]}, False)
        return
    failed_classes = {}
    pending = []
    ncase = 0
    for l in out.splitlines():
        if l.startswith("MISES"):
            t = l.split()
            a, b = float(t[3]), float(t[4])
            c.count(1, ("mises", t[1], t[2]))
            if abs(a - b) > 1e-9 * max(abs(a), abs(b)):
                c.report("mises:N%s:%s" % (t[1], t[2]), "Hosford(a=2) = %.17g differs from sigmaeq = %.17g" % (b, a), {"line": l}, True)
            continue
        if not l.startswith("CASE"):
            continue
        f = [x.strip() for x in l.split("|")]
        _, crit, N, cid = f[0].split()
        params = f[1]
        sig = fl(f[2])
        seq = fl(f[3])
        hom = fl(f[4])[0]
        n1, n2, fdn, dn, fdd = fl(f[5]), fl(f[6]), fl(f[7]), fl(f[8]), fl(f[9])
        m = len(sig)
        ncase += 1
        c.count(1, (crit, N, cid, tuple(sig)))
        if ncase % 29 == 1:
            c.sample({"criterion": crit, "N": int(N), "params": params[:60], "sigma": sig, "seq": seq[0], "normal": n1})
        bad = []
        if max(seq) - min(seq) > 1e-11 * abs(seq[0]):
            bad.append(("value", "value/normal/second-derivative variants return %s" % seq))
        if abs(hom - 2.5 * seq[0]) > 1e-9 * abs(hom):
            bad.append(("homogeneity", "seq(2.5 sigma) = %.17g but 2.5 seq(sigma) = %.17g" % (hom, 2.5 * seq[0])))
        sn = max(map(abs, n1))
        e = max(abs(a - b) for a, b in zip(n1, n2))
        if e > 1e-11 * sn:
            bad.append(("normal-variants", "normal of the two derivative variants differ by %.3g" % e))
        e = max(abs(a - b) for a, b in zip(n1, fdn))
        if e > 2e-6 * sn:
            bad.append(("n", "normal differs from the finite-difference gradient of the value by %.3g (entries of size %.3g)" % (e, sn)))
        sd = max(map(abs, dn))
        e = max(abs(a - b) for a, b in zip(dn, fdd))
        if e > 1e-4 * sd:
            bad.append(("dn", "second derivative differs from the finite-difference gradient of the normal by %.3g (entries of size %.3g)" % (e, sd)))
        e = max(abs(dn[i * m + j] - dn[j * m + i]) for i in range(m) for j in range(m))
        if e > 1e-9 * sd:
            bad.append(("dn-symmetry", "second derivative is not symmetric (%.3g)" % e))
        for (q, what) in bad:
            key = "%s:%s:N%s:%s" % (crit, q, N, cid)
            rep = {"criterion": crit, "N": int(N), "parameters": params, "sigma": sig, "seq": seq, "normal": n1, "fd_normal": fdn,
                   "second_derivative": dn, "fd_second_derivative": fdd, "how": "props/C22/trace.cxx run (central differences, step 1e-5 |sigma|)"}
            msg = "%s (N=%s, parameters %s, sigma=%s): %s" % (crit, N, params[:80], sig, what)
            if cid.startswith("corpus"):
                failed_classes.setdefault((crit, q, N), 0)
                c.report(key, msg, rep, True)
            else:
                pending.append(((crit, q, N), key, msg, rep))
    extra = 0
    for (cl, key, msg, rep) in pending:
        if cl in failed_classes:
            failed_classes[cl] += 1
            extra += 1
        else:
            failed_classes[cl] = 0
            c.report(key + ":seed%d" % c.seed, msg, rep, True)
    if extra:
        c.notes.append("%d further seeded cases fail in classes already reported on a corpus case: %s" % (extra, {"%s:%s:N%s" % k: v for k, v in failed_classes.items() if v}))
    c.coverage["rule"] = ("Coq: all reals (Drucker value 1D/2D/3D, variants, 1D normal = gradient). Execution: 3 corpus + %d seeded stresses x N=1,2,3 x "
                          "{Drucker 1949, Cazacu 2001, Cazacu 2004 iso/ortho, Hosford a=2,6,8}: same value, homogeneity, normal and second derivative "
                          "vs central finite differences, symmetry" % n)
    c.coverage["traces_validated_against_impl"] = nag
    c.coverage["executions_against_finite_differences"] = ncase
    if not res.ok:
        if any(v[3] for v in c.violations) or c.known_hits:
            c.notes.append("proof obligations failed: %s; concrete failing inputs reported above" % [f[2] or f[3][:80] for f in res.failed])
        else:
            c.coq_failures(res, None)


guarded_main("C22", main)

#!/usr/bin/env python3
"""C22 -- typing aid: writes coq/C22Eig_hos<a>.v and coq/Properties_C22eig_hos<a>.v (Hosford 1972 on a diagonal stress, even
integer exponent a = 2, 6, 8) from one template.  Outputs are committed; the check does not run this script."""
import os

HERE = os.path.dirname(os.path.abspath(__file__))
COQ = os.path.join(HERE, "coq")

TEMPLATE = r'''(* C22 -- Hosford 1972, exponent a = @A@, diagonal (1D) stress: proofs (written by mkeig.py from a template, committed).
   hos@A@_val_1 / _nrm_1 / _snd_1 are the traces of the three public functions of /repo (C22eig_gen.v, regenerated at each run).
   Route: (1) above the threshold the traced value is the documented psi = (sum |s_i - s_j|^a / 2)^(1/a) (the code normalises by the
   von Mises stress: real-power algebra);  (2) the traced normal is G_i = psi N_i / (2 T), which is the gradient of psi
   (auto_derive on the specification);  (3) the traced second derivative is the Jacobian of G (auto_derive on the specification,
   identity with the traced entries over the atoms S^(1/a), 2^(1/a), sqrt Q);  all statements hold at ties (even exponent). *)
From Coq Require Import Reals List Lra.
From Coquelicot Require Import Coquelicot.
From VLib Require Import RealExtra.
From C22 Require Import C22InvSpec C22InvTac C22InvCrit C22EigSpec C22EigTac C22eig_gen C22EigStatements.
Import ListNotations.
Local Open Scope R_scope.

Lemma Q_pos_T@A@ s0 s1 s2 : 0 < misesQ s0 s1 s2 -> 0 < hosT @A@ s0 s1 s2.
Proof.
  unfold misesQ, hosT, hosS. intros H.
  pose proof (pow_even_nonneg (s0 - s1) @K@) as A; pose proof (pow_even_nonneg (s0 - s2) @K@) as B; pose proof (pow_even_nonneg (s1 - s2) @K@) as C.
  simpl Nat.mul in *.
  destruct (Req_dec (s0 - s1) 0) as [E1|N1].
  - destruct (Req_dec (s0 - s2) 0) as [E2|N2].
    + exfalso. assert (E3 : s1 - s2 = 0) by lra. rewrite E1, E2, E3 in H. lra.
    + pose proof (pow_even_pos _ @K@ N2). simpl Nat.mul in *. lra.
  - pose proof (pow_even_pos _ @K@ N1). simpl Nat.mul in *. lra.
Qed.
Lemma mises_1_Q s0 s1 s2 : mises_1 s0 s1 s2 = sqrt (misesQ s0 s1 s2).
Proof. unfold mises_1; lazy zeta. f_equal. unfold misesQ; field. Qed.

Ltac hos := fun s0 s1 s2 HQ HT =>
  pow_atoms @A@%nat (1 / @A@) 2 (misesQ s0 s1 s2) (hosT @A@ s0 s1 s2) (hosS @A@ s0 s1 s2) ltac:(unfold misesQ) ltac:(unfold hosT)
            ltac:(unfold hosT, hosS, hosN in *) HQ HT.

(* ---- (1) and (2): value and normal of the leaves *)
Lemma hos@A@_val_eq s0 s1 s2 : 0 < misesQ s0 s1 s2 -> nthR (hos@A@_val_leaf_1 s0 s1 s2) 0 = hosPsi @A@ (1 / @A@) s0 s1 s2.
Proof. intro HQ. pose proof (Q_pos_T@A@ _ _ _ HQ) as HT. unfold hos@A@_val_leaf_1, hosPsi. lazy beta delta [nthR nth] iota zeta. hos s0 s1 s2 HQ HT. Qed.
@NRMEQ@
(* the gradient of the specification *)
@SPECGRAD@
(* ---- (3): Jacobian of G against the traced second derivative *)
@HESS@
(* ---- from the decision trees to their leaves *)
Lemma hos@A@_val_at s0 s1 s2 e : e < mises_1 s0 s1 s2 -> hos@A@_val_1 s0 s1 s2 e = Some (hos@A@_val_leaf_1 s0 s1 s2).
Proof. intro H1. tree_leaf ltac:(unfold hos@A@_val_1, hos@A@_val_leaf_1) ltac:(unfold mises_1 in H1) H1. Qed.
Lemma hos@A@_nrm_at s0 s1 s2 e : e < mises_1 s0 s1 s2 -> hos@A@_nrm_1 s0 s1 s2 e = Some (hos@A@_nrm_leaf_1 s0 s1 s2).
Proof. intro H1. tree_leaf ltac:(unfold hos@A@_nrm_1, hos@A@_nrm_leaf_1) ltac:(unfold mises_1 in H1) H1. Qed.
Lemma hos@A@_snd_at s0 s1 s2 e : e < mises_1 s0 s1 s2 -> hos@A@_snd_1 s0 s1 s2 e = Some (hos@A@_snd_leaf_1 s0 s1 s2).
Proof. intro H1. tree_leaf ltac:(unfold hos@A@_snd_1, hos@A@_snd_leaf_1) ltac:(unfold mises_1 in H1) H1. Qed.
(* the two conditions (above the threshold, not hydrostatic) hold near the point, in every direction *)
@NEAR@
(* ---- theorems *)
Lemma hos@A@_same_ok : hos@A@_same_stmt.
Proof.
  unfold hos@A@_same_stmt. intros s0 s1 s2 e H1.
  rewrite (hos@A@_val_at _ _ _ e H1), (hos@A@_nrm_at _ _ _ e H1), (hos@A@_snd_at _ _ _ e H1).
  unfold hos@A@_val_leaf_1, hos@A@_nrm_leaf_1, hos@A@_snd_leaf_1; lazy beta delta [out nthR nth] iota zeta; split; [ | split ];
  [ eexists; apply f_equal; apply f_equal2; [ expr_eq | reflexivity ]
  | eexists; apply f_equal; apply f_equal2; [ expr_eq | reflexivity ]
  | lazy beta delta [out firstn] iota; first [ reflexivity | list_eq ] ].
Qed.
Lemma hos@A@_value_ok : hos@A@_value_stmt.
Proof.
  unfold hos@A@_value_stmt. intros s0 s1 s2 e H1 HQ. rewrite (hos@A@_val_at _ _ _ e H1). unfold out. apply hos@A@_val_eq; exact HQ.
Qed.
Lemma hos@A@_grad_ok : hos@A@_grad_stmt.
Proof.
  unfold hos@A@_grad_stmt. intros s0 s1 s2 e H1 HQ. unfold is_grad; cbv [all_upto]; side_split;
  lazy beta delta [upd firstn skipn app nthR nth Nat.add] iota.
@GRADCASES@
Qed.
Lemma hos@A@_hess_ok : hos@A@_hess_stmt.
Proof.
  unfold hos@A@_hess_stmt. intros s0 s1 s2 e H1 HQ. unfold is_hess; cbv [all_upto]; side_split;
  lazy beta delta [upd firstn skipn app nthR nth Nat.add Nat.mul] iota.
@HESSCASES@
Qed.
Lemma hos@A@_sym_ok : hos@A@_sym_stmt.
Proof.
  unfold hos@A@_sym_stmt. intros s0 s1 s2 e H1. rewrite (hos@A@_snd_at _ _ _ e H1).
  unfold is_sym; cbv [all_upto]; side_split; lazy beta delta [out hos@A@_snd_leaf_1 nthR nth Nat.add Nat.mul] iota zeta;
  first [ reflexivity | ring ].
Qed.
Lemma hos@A@_hom_ok : hos@A@_hom_stmt.
Proof.
  unfold hos@A@_hom_stmt. intros s0 s1 s2 e t Ht H1 H1t HQ.
  assert (HQt : 0 < misesQ (t * s0) (t * s1) (t * s2)).
  { replace (misesQ (t * s0) (t * s1) (t * s2)) with (t * t * misesQ s0 s1 s2) by (unfold misesQ; field).
    apply Rmult_lt_0_compat; [ apply Rmult_lt_0_compat; exact Ht | exact HQ ]. }
  rewrite (hos@A@_val_at _ _ _ e H1), (hos@A@_val_at _ _ _ e H1t). unfold out.
  rewrite (hos@A@_val_eq _ _ _ HQ), (hos@A@_val_eq _ _ _ HQt). unfold hosPsi.
  replace (hosT @A@ (t * s0) (t * s1) (t * s2)) with (t ^ @A@ * hosT @A@ s0 s1 s2) by (unfold hosT, hosS; field).
  apply Rpower_scale_pow; [ auto with arith | simpl; field | exact Ht | exact (Q_pos_T@A@ _ _ _ HQ) ].
Qed.
@MISES@'''


def sx(j, x):
    v = ["s0", "s1", "s2"]
    v[j] = x
    return " ".join(v)


def gen(a):
    A = str(a)
    nrmeq, specgrad, hess, near, gradcases, hesscases = [], [], [], [], [], []
    for i in range(3):
        for w in ("nrm", "snd"):
            nrmeq.append("Lemma hos%s_%s_eq_%d s0 s1 s2 : 0 < misesQ s0 s1 s2 -> nthR (hos%s_%s_leaf_1 s0 s1 s2) %d = hosG %s (1 / %s) %d s0 s1 s2.\n"
                         "Proof. intro HQ. pose proof (Q_pos_T%s _ _ _ HQ) as HT. unfold hos%s_%s_leaf_1, hosG, hosPsi. lazy beta delta [nthR nth] iota zeta. hos s0 s1 s2 HQ HT. Qed."
                         % (A, w, i, A, w, 1 + i, A, A, i, A, A, w))
        specgrad.append("Lemma hos%s_specgrad_%d s0 s1 s2 : 0 < hosT %s s0 s1 s2 ->\n  is_derive (fun x => hosPsi %s (1 / %s) %s) s%d (hosG %s (1 / %s) %d s0 s1 s2).\n"
                        "Proof.\n  intro HT. unfold hosG, hosPsi, hosN, Rpower. set (T := hosT %s s0 s1 s2) in *. unfold hosT, hosS. simpl Nat.sub.\n"
                        "  auto_derive; [ eapply Rlt_le_trans; [ exact HT | right; unfold T, hosT, hosS; field ] | ].\n"
                        "  canon_ln_u T ltac:(unfold T, hosT, hosS). generalize (exp (1 / %s * ln T)); intro Y. unfold T, hosT, hosS in *. field. lra.\nQed."
                        % (A, i, A, A, A, sx(i, "x"), i, A, A, i, A, A))
        for j in range(3):
            hess.append("Lemma hos%s_spechess_%d_%d s0 s1 s2 : 0 < misesQ s0 s1 s2 ->\n  is_derive (fun x => hosG %s (1 / %s) %d %s) s%d (nthR (hos%s_snd_leaf_1 s0 s1 s2) %d).\n"
                        "Proof.\n  intro HQ. pose proof (Q_pos_T%s _ _ _ HQ) as HT. set (rhs := nthR (hos%s_snd_leaf_1 s0 s1 s2) %d).\n"
                        "  unfold hosG, hosPsi, hosN, hosT, hosS, Rpower. simpl Nat.sub.\n"
                        "  auto_derive; [ side_split; first [ (eapply Rlt_le_trans; [ exact HT | right; unfold hosT, hosS; field ])\n"
                        "    | (apply Rgt_not_eq; eapply Rlt_le_trans; [ exact (Rmult_lt_0_compat _ _ Rlt_0_2 HT) | right; unfold hosT, hosS; field ]) ] | ].\n"
                        "  canon_ln_u (hosT %s s0 s1 s2) ltac:(unfold hosT, hosS). fold_rpower (hosT %s s0 s1 s2).\n"
                        "  subst rhs. unfold hos%s_snd_leaf_1. lazy beta delta [nthR nth] iota zeta. hos s0 s1 s2 HQ HT.\nQed."
                        % (A, i, j, A, A, i, sx(j, "x"), j, A, 4 + 3 * i + j, A, A, 4 + 3 * i + j, A, A, A))
    for j in range(3):
        near.append("Lemma hos%s_near_%d s0 s1 s2 e : e < mises_1 s0 s1 s2 -> 0 < misesQ s0 s1 s2 ->\n"
                    "  locally s%d (fun x => e < mises_1 %s /\\ 0 < misesQ %s).\n"
                    "Proof.\n  intros H1 HQ. apply filter_and.\n"
                    "  - apply (locally_gt_ex (fun x => mises_1 %s)); [ | exact H1 ]. unfold mises_1; lazy zeta. auto_derive.\n"
                    "    eapply Rlt_le_trans; [ exact HQ | right; unfold misesQ; field ].\n"
                    "  - apply (locally_gt_ex (fun x => misesQ %s)); [ | exact HQ ]. unfold misesQ. auto_derive. exact I.\nQed."
                    % (A, j, j, sx(j, "x"), sx(j, "x"), sx(j, "x"), sx(j, "x")))
        gradcases.append("  - apply (is_derive_near _ (fun x => hosPsi %s (1 / %s) %s)).\n"
                         "    + generalize (hos%s_near_%d s0 s1 s2 e H1 HQ); apply filter_imp; intros x [Hx1 Hx2].\n"
                         "      rewrite (hos%s_val_at _ _ _ e Hx1). symmetry. exact (hos%s_val_eq _ _ _ Hx2).\n"
                         "    + rewrite (hos%s_nrm_at _ _ _ e H1).\n"
                         "      match goal with |- is_derive _ _ ?d => replace d with (hosG %s (1 / %s) %d s0 s1 s2) by (symmetry; exact (hos%s_nrm_eq_%d _ _ _ HQ)) end.\n"
                         "      exact (hos%s_specgrad_%d _ _ _ (Q_pos_T%s _ _ _ HQ))."
                         % (A, A, sx(j, "x"), A, j, A, A, A, A, A, j, A, j, A, j, A))
    for i in range(3):
        for j in range(3):
            hesscases.append("  - apply (is_derive_near _ (fun x => hosG %s (1 / %s) %d %s)).\n"
                             "    + generalize (hos%s_near_%d s0 s1 s2 e H1 HQ); apply filter_imp; intros x [Hx1 Hx2].\n"
                             "      rewrite (hos%s_snd_at _ _ _ e Hx1). symmetry. exact (hos%s_snd_eq_%d _ _ _ Hx2).\n"
                             "    + rewrite (hos%s_snd_at _ _ _ e H1). exact (hos%s_spechess_%d_%d _ _ _ HQ)."
                             % (A, A, i, sx(j, "x"), A, j, A, A, i, A, A, i, j))
    mises = ""
    if a == 2:
        mises = ("(* Hosford with a = 2 is the von Mises stress *)\nLemma hos2_mises_ok : hos2_mises_stmt.\nProof.\n"
                 "  unfold hos2_mises_stmt. intros s0 s1 s2 e H1 HQ. rewrite (hos2_val_at _ _ _ e H1). unfold out. rewrite (hos2_val_eq _ _ _ HQ).\n"
                 "  rewrite mises_1_Q. unfold hosPsi. replace (hosT 2 s0 s1 s2) with (misesQ s0 s1 s2) by (unfold hosT, hosS, misesQ; reflexivity).\n"
                 "  replace (1 / 2) with (/ 2) by field. apply Rpower_sqrt. exact HQ.\nQed.\n")
    t = TEMPLATE.replace("@NRMEQ@", "\n".join(nrmeq)).replace("@SPECGRAD@", "\n".join(specgrad)).replace("@HESS@", "\n".join(hess))
    t = t.replace("@NEAR@", "\n".join(near)).replace("@GRADCASES@", "\n".join(gradcases)).replace("@HESSCASES@", "\n".join(hesscases))
    t = t.replace("@MISES@", mises).replace("@A@", A).replace("@K@", str(a // 2))
    open(os.path.join(COQ, "C22Eig_hos%s.v" % A), "w").write(t)
    names = ["same", "value", "grad", "hess", "sym", "hom"] + (["mises"] if a == 2 else [])
    q = ["(* C22 -- Hosford 1972, a = %s, diagonal stress: property theorems (statements in C22EigStatements.v, proofs in C22Eig_hos%s.v" % (A, A),
         "   over the definitions regenerated from /repo).  same: the three variants return the same value and the two derivative",
         "   variants the same normal; value: it is the documented formula; grad / hess: normal = gradient of the value, second",
         "   derivative = Jacobian of the normal (ties included); sym; hom: degree-one homogeneity%s. *)" % ("; mises: Hosford(2) = von Mises" if a == 2 else ""),
         "From Coq Require Import Reals List Lra.\nFrom Coquelicot Require Import Coquelicot.\nFrom VLib Require Import RealExtra.",
         "From C22 Require Import C22InvSpec C22EigSpec C22eig_gen C22EigStatements C22Eig_hos%s.\nImport ListNotations.\nLocal Open Scope R_scope.\n" % A]
    for w in names:
        q.append("Theorem C22_hosford%s_%s : hos%s_%s_stmt.\nProof. exact hos%s_%s_ok. Qed.\nPrint Assumptions C22_hosford%s_%s." % (A, w, A, w, A, w, A, w))
    open(os.path.join(COQ, "Properties_C22eig_hos%s.v" % A), "w").write("\n".join(q) + "\n")


def statements():
    o = ["(* C22 -- statements for the eigen-based criteria (written by mkeig.py, committed). *)",
         "From Coq Require Import Reals List Lra.\nFrom Coquelicot Require Import Coquelicot.\nFrom VLib Require Import RealExtra.",
         "From C22 Require Import C22InvSpec C22EigSpec C22eig_gen.\nImport ListNotations.\nLocal Open Scope R_scope.\n"]
    for a in (2, 6, 8):
        A = str(a)
        pl = "(nthR p 0) (nthR p 1) (nthR p 2)"
        o.append("(* ---- Hosford, a = %s; hypotheses: above the threshold (e < von Mises stress), not hydrostatic *)" % A)
        o.append("Definition hos%s_same_stmt : Prop :=\n  forall s0 s1 s2 e : R, e < mises_1 s0 s1 s2 ->\n"
                 "    (exists l, hos%s_nrm_1 s0 s1 s2 e = Some (nthR (out (hos%s_val_1 s0 s1 s2 e)) 0 :: l)) /\\\n"
                 "    (exists l, hos%s_snd_1 s0 s1 s2 e = Some (nthR (out (hos%s_val_1 s0 s1 s2 e)) 0 :: l)) /\\\n"
                 "    firstn 4 (out (hos%s_snd_1 s0 s1 s2 e)) = out (hos%s_nrm_1 s0 s1 s2 e)." % (A, A, A, A, A, A, A))
        o.append("Definition hos%s_value_stmt : Prop :=\n  forall s0 s1 s2 e : R, e < mises_1 s0 s1 s2 -> 0 < misesQ s0 s1 s2 ->\n"
                 "    nthR (out (hos%s_val_1 s0 s1 s2 e)) 0 = hosPsi %s (1 / %s) s0 s1 s2." % (A, A, A, A))
        o.append("Definition hos%s_grad_stmt : Prop :=\n  forall s0 s1 s2 e : R, e < mises_1 s0 s1 s2 -> 0 < misesQ s0 s1 s2 ->\n"
                 "    is_grad 3 (fun p => nthR (out (hos%s_val_1 %s e)) 0) (fun p => out (hos%s_nrm_1 %s e)) [s0; s1; s2]." % (A, A, pl, A, pl))
        o.append("Definition hos%s_hess_stmt : Prop :=\n  forall s0 s1 s2 e : R, e < mises_1 s0 s1 s2 -> 0 < misesQ s0 s1 s2 ->\n"
                 "    is_hess 3 (fun p => out (hos%s_snd_1 %s e)) [s0; s1; s2]." % (A, A, pl))
        o.append("Definition hos%s_sym_stmt : Prop :=\n  forall s0 s1 s2 e : R, e < mises_1 s0 s1 s2 -> is_sym 3 (out (hos%s_snd_1 s0 s1 s2 e))." % (A, A))
        o.append("Definition hos%s_hom_stmt : Prop :=\n  forall s0 s1 s2 e t : R, 0 < t -> e < mises_1 s0 s1 s2 -> e < mises_1 (t * s0) (t * s1) (t * s2) -> 0 < misesQ s0 s1 s2 ->\n"
                 "    nthR (out (hos%s_val_1 (t * s0) (t * s1) (t * s2) e)) 0 = t * nthR (out (hos%s_val_1 s0 s1 s2 e)) 0." % (A, A, A))
        if a == 2:
            o.append("Definition hos2_mises_stmt : Prop :=\n  forall s0 s1 s2 e : R, e < mises_1 s0 s1 s2 -> 0 < misesQ s0 s1 s2 ->\n"
                     "    nthR (out (hos2_val_1 s0 s1 s2 e)) 0 = mises_1 s0 s1 s2.")
        o.append("")
    X = "u0 u1 u2 w0 w1 w2"
    pl = " ".join("(nthR p %d)" % i for i in range(6))
    o.append("(* ---- Barlat: Phi(vp1, vp2, seq) = barS<a>, output layout [Phi; dPhi/du (3); dPhi/dw (3); d2/dudu (00 11 22 01 02 12); d2/dwdw (6); d2/dudw (3x3)] *)")
    o.append("Definition bar_sidx (i j : nat) : nat := if Nat.eqb i j then i else (Nat.min i j + Nat.max i j + 2)%nat.")
    o.append("Definition bar_hidx (k l : nat) : nat :=\n  if Nat.ltb k 3 then (if Nat.ltb l 3 then 7 + bar_sidx k l else 19 + 3 * k + (l - 3))%nat\n"
             "  else (if Nat.ltb l 3 then 19 + 3 * l + (k - 3) else 13 + bar_sidx (k - 3) (l - 3))%nat.")
    for a in (6,):
        A = str(a)
        o.append("Definition barS%s_value_stmt : Prop :=\n  forall %s q : R, 0 < q -> 0 < barT %s %s -> nthR (barS%s %s q) 0 = barPhi %s (1 / %s) %s." % (A, X, A, X, A, X, A, A, X))
        o.append("Definition barS%s_noq_stmt : Prop :=\n  forall %s q : R, 0 < q -> 0 < barT %s %s -> is_derive (fun x => nthR (barS%s %s x) 0) q 0." % (A, X, A, X, A, X))
        o.append("Definition barS%s_grad_stmt : Prop :=\n  forall %s q : R, 0 < q -> 0 < barT %s %s ->\n"
                 "    all_upto 6 (fun l => is_derive (fun x => nthR ((fun p => barS%s %s q) (upd [%s] l x)) 0) (nthR [%s] l) (nthR (barS%s %s q) (1 + l)))."
                 % (A, X, A, X, A, pl, X.replace(" ", "; "), X.replace(" ", "; "), A, X))
        o.append("Definition barS%s_hess_stmt : Prop :=\n  forall %s q : R, 0 < q -> 0 < barT %s %s ->\n"
                 "    all_upto 6 (fun k => all_upto 6 (fun l =>\n      is_derive (fun x => nthR ((fun p => barS%s %s q) (upd [%s] l x)) (1 + k)) (nthR [%s] l) (nthR (barS%s %s q) (bar_hidx k l))))."
                 % (A, X, A, X, A, pl, X.replace(" ", "; "), X.replace(" ", "; "), A, X))
        o.append("Definition barS%s_hosford_stmt : Prop :=\n  forall u0 u1 u2 q : R, 0 < q -> 0 < hosT %s u0 u1 u2 ->\n"
                 "    nthR (barS%s u0 u1 u2 u0 u1 u2 q) 0 = hosPsi %s (1 / %s) u0 u1 u2." % (A, A, A, A, A))
    open(os.path.join(COQ, "C22EigStatements.v"), "w").write("\n".join(o) + "\n")


if __name__ == "__main__":
    statements()
    for a in (2, 6, 8):
        gen(a)


def asmcuts():
    """coq/C22EigAsmCuts.v: the cut quantities of the assembly functions (eigen-tensors computed by the library calls) are the
    tensors n_i, n_ij of the specification"""
    o = ["(* C22 -- the eigen-tensors computed by the library calls of the assembly functions (cut points asm<N>_n?<r> of C22eig_gen.v) are the",
         "   tensors n_i = v_i (x) v_i and n_ij = (v_i (x) v_j + v_j (x) v_i)/sqrt2 of the specification, component by component",
         "   (written by mkeig.py, committed). *)",
         "From Coq Require Import Reals List Lra.\nFrom Coquelicot Require Import Coquelicot.\nFrom VLib Require Import RealExtra.",
         "From C22 Require Import C22InvSpec C22InvTac C22EigSpec C22eig_gen.\nImport ListNotations.\nLocal Open Scope R_scope.\n"]
    for N, n, mv, ml in ((2, 4, "m00 m01 m10 m11", "[m00; m01; 0; m10; m11; 0; 0; 0; 1]"),
                         (3, 6, "m00 m01 m02 m10 m11 m12 m20 m21 m22", "[m00; m01; m02; m10; m11; m12; m20; m21; m22]")):
        tens = ["na", "nb", "nc", "np"] + (["nq", "nr"] if N == 3 else [])
        for r in range(n):
            cs = ["asm%d_%s%d %s" % (N, nm, r, mv) for nm in tens]
            if N == 2:  # no out-of-plane pairs: the specification's own (vanishing) components
                cs += ["nthR (npair %s 0 2) %d" % (ml, r), "nthR (npair %s 1 2) %d" % (ml, r)]
            o.append("Lemma asm%d_comps_%d %s : comps %s %d = [%s].\nProof.\n  unfold comps, %s, nvec, npair, dyad, sdyad; lazy beta delta [nthR nth Nat.add] iota.\n"
                     "  repeat (apply f_equal2; [ poly_eq | ]); reflexivity.\nQed."
                     % (N, r, mv, ml, r, "; ".join(cs), ", ".join("asm%d_%s%d" % (N, nm, r) for nm in tens)))
        o.append("Ltac rw_comps%d :=\n  repeat match goal with\n  | |- context [comps _ ?r] =>\n    match r with\n%s\n    end\n  end.\n"
                 % (N, "\n".join("    | %d%%nat => rewrite asm%d_comps_%d" % (r, N, r) for r in range(n))))
        allc = ["asm%d_%s%d" % (N, nm, r) for nm in tens for r in range(n)]
        o.append("Ltac unfold_asm%dcuts := unfold %s.\n" % (N, ", ".join(allc)))
    open(os.path.join(COQ, "C22EigAsmCuts.v"), "w").write("\n".join(o) + "\n")


asmcuts()


# ------------------------------------------------------------------ Barlat: Phi(vp1, vp2, seq) and its derivatives
def barS(a):
    A = str(a)
    X = ["u0", "u1", "u2", "w0", "w1", "w2"]

    def xs(j, x):
        v = list(X)
        v[j] = x
        return " ".join(v)

    def sidx(i, j):
        return i if i == j else {(0, 1): 3, (0, 2): 4, (1, 2): 5}[(min(i, j), max(i, j))]

    def hidx(k, l):
        if k < 3 and l < 3:
            return 7 + sidx(k, l)
        if k >= 3 and l >= 3:
            return 13 + sidx(k - 3, l - 3)
        if k < 3:
            return 19 + 3 * k + (l - 3)
        return 19 + 3 * l + (k - 3)
    allx = " ".join(X)
    o = ["(* C22 -- Barlat 2004: computeBarlatStressSecondDerivative(vp1, vp2, seq, a), a = %s, all symbolic (trace barS%s of C22eig_gen.v):" % (A, A),
         "   Phi is the documented (sum_ij |u_i - w_j|^a / 4)^(1/a), does not depend on the normalising stress seq, the returned first",
         "   derivatives are its gradient with respect to the six eigenvalues and the returned second derivatives the Jacobian of that",
         "   gradient; with u = w it is Hosford's psi.  Written by mkeig.py, committed. *)",
         "From Coq Require Import Reals List Lra.\nFrom Coquelicot Require Import Coquelicot.\nFrom VLib Require Import RealExtra.",
         "From C22 Require Import C22InvSpec C22InvTac C22InvCrit C22EigSpec C22EigTac C22eig_gen C22EigStatements.\nImport ListNotations.\nLocal Open Scope R_scope.\n",
         "Ltac bar := fun u0 u1 u2 w0 w1 w2 q Hq HT =>\n  abs_even;\n  pow_core %s%%nat (1 / %s) 4 q Hq (barT %s u0 u1 u2 w0 w1 w2) (barS %s u0 u1 u2 w0 w1 w2) ltac:(unfold barT)\n"
         "           ltac:(unfold barT, barS, barM in *) HT.\n" % (A, A, A, A)]
    o.append("Lemma barS%s_val_eq %s q : 0 < q -> 0 < barT %s %s -> nthR (barS%s %s q) 0 = barPhi %s (1 / %s) %s.\n"
             "Proof. intros Hq HT. unfold barS%s, barPhi. lazy beta delta [nthR nth] iota zeta. bar u0 u1 u2 w0 w1 w2 q Hq HT. Qed."
             % (A, allx, A, allx, A, allx, A, A, allx, A))
    for k in range(6):
        o.append("Lemma barS%s_grad_eq_%d %s q : 0 < q -> 0 < barT %s %s -> nthR (barS%s %s q) %d = barG %s (1 / %s) %d %s.\n"
                 "Proof. intros Hq HT. unfold barS%s, barG, barPhi. lazy beta delta [nthR nth] iota zeta. bar u0 u1 u2 w0 w1 w2 q Hq HT. Qed."
                 % (A, k, allx, A, allx, A, allx, 1 + k, A, A, k, allx, A))
        o.append("Lemma barS%s_specgrad_%d %s : 0 < barT %s %s ->\n  is_derive (fun x => barPhi %s (1 / %s) %s) %s (barG %s (1 / %s) %d %s).\n"
                 "Proof.\n  intro HT. unfold barG, barPhi, barM, Rpower. set (T := barT %s %s) in *. unfold barT, barS. simpl Nat.sub.\n"
                 "  auto_derive; [ eapply Rlt_le_trans; [ exact HT | right; unfold T, barT, barS; field ] | ].\n"
                 "  canon_ln_u T ltac:(unfold T, barT, barS). generalize (exp (1 / %s * ln T)); intro Y. unfold T, barT, barS in *. field. lra.\nQed."
                 % (A, k, allx, A, allx, A, A, xs(k, "x"), X[k], A, A, k, allx, A, allx, A))
    for k in range(6):
        for l in range(6):
            o.append("Lemma barS%s_spechess_%d_%d %s q : 0 < q -> 0 < barT %s %s ->\n  is_derive (fun x => barG %s (1 / %s) %d %s) %s (nthR (barS%s %s q) %d).\n"
                     "Proof.\n  intros Hq HT. set (rhs := nthR (barS%s %s q) %d).\n"
                     "  unfold barG, barPhi, barM, barT, barS, Rpower. simpl Nat.sub.\n"
                     "  auto_derive; [ side_split; first [ (eapply Rlt_le_trans; [ exact HT | right; unfold barT, barS; field ])\n"
                     "    | (apply Rgt_not_eq; eapply Rlt_le_trans; [ exact (Rmult_lt_0_compat _ _ (Rmult_lt_0_compat _ _ Rlt_0_2 Rlt_0_2) HT) | right; unfold barT, barS; field ]) ] | ].\n"
                     "  canon_ln_u (barT %s %s) ltac:(unfold barT, barS). fold_rpower (barT %s %s).\n"
                     "  subst rhs. unfold barS%s. lazy beta delta [nthR nth] iota zeta. bar u0 u1 u2 w0 w1 w2 q Hq HT.\nQed."
                     % (A, k, l, allx, A, allx, A, A, k, xs(l, "x"), X[l], A, allx, hidx(k, l), A, allx, hidx(k, l), A, allx, A, allx, A))
    # the domain is open in every direction
    for l in range(6):
        o.append("Lemma barS%s_near_%d %s : 0 < barT %s %s -> locally %s (fun x => 0 < barT %s %s).\n"
                 "Proof. intro HT. apply (locally_gt_ex (fun x => barT %s %s)); [ unfold barT, barS; auto_derive; exact I | exact HT ]. Qed."
                 % (A, l, allx, A, allx, X[l], A, xs(l, "x"), A, xs(l, "x")))
    # theorems
    o.append("Lemma barS%s_value_ok : barS%s_value_stmt.\nProof. unfold barS%s_value_stmt. intros. apply barS%s_val_eq; assumption. Qed." % (A, A, A, A))
    o.append("Lemma barS%s_noq_ok : barS%s_noq_stmt.\nProof.\n  unfold barS%s_noq_stmt. intros %s q Hq HT.\n"
             "  apply (is_derive_near _ (fun _ => barPhi %s (1 / %s) %s)).\n"
             "  - apply (locally_gt_ex (fun x => x) q 0) in Hq; [ | auto_derive; exact I ]. revert Hq; apply filter_imp; intros x Hx.\n"
             "    symmetry; apply barS%s_val_eq; assumption.\n  - auto_derive; [ exact I | ring ].\nQed." % (A, A, A, allx, A, A, allx, A))
    g = ["Lemma barS%s_grad_ok : barS%s_grad_stmt.\nProof.\n  unfold barS%s_grad_stmt. intros %s q Hq HT. cbv [all_upto]; side_split;\n"
         "  lazy beta delta [upd firstn skipn app nthR nth Nat.add] iota." % (A, A, A, allx)]
    for l in range(6):
        g.append("  - apply (is_derive_near _ (fun x => barPhi %s (1 / %s) %s)).\n"
                 "    + generalize (barS%s_near_%d %s HT); apply filter_imp; intros x Hx. symmetry. exact (barS%s_val_eq %s q Hq Hx).\n"
                 "    + match goal with |- is_derive _ _ ?d => replace d with (barG %s (1 / %s) %d %s) by (symmetry; exact (barS%s_grad_eq_%d %s q Hq HT)) end.\n"
                 "      exact (barS%s_specgrad_%d %s HT)." % (A, A, xs(l, "x"), A, l, allx, A, xs(l, "x"), A, A, l, allx, A, l, allx, A, l, allx))
    g.append("Qed.")
    o.append("\n".join(g))
    h = ["Lemma barS%s_hess_ok : barS%s_hess_stmt.\nProof.\n  unfold barS%s_hess_stmt. intros %s q Hq HT. cbv [all_upto]; side_split;\n"
         "  lazy beta delta [upd firstn skipn app nthR nth Nat.add Nat.mul bar_hidx bar_sidx Nat.ltb Nat.leb Nat.eqb Nat.sub Nat.min Nat.max] iota." % (A, A, A, allx)]
    for k in range(6):
        for l in range(6):
            h.append("  - apply (is_derive_near _ (fun x => barG %s (1 / %s) %d %s)).\n"
                     "    + generalize (barS%s_near_%d %s HT); apply filter_imp; intros x Hx. symmetry. exact (barS%s_grad_eq_%d %s q Hq Hx).\n"
                     "    + exact (barS%s_spechess_%d_%d %s q Hq HT)." % (A, A, k, xs(l, "x"), A, l, allx, A, k, xs(l, "x"), A, k, l, allx))
    h.append("Qed.")
    o.append("\n".join(h))
    o.append("Lemma barS%s_hosford_ok : barS%s_hosford_stmt.\nProof.\n  unfold barS%s_hosford_stmt. intros u0 u1 u2 q Hq HT.\n"
             "  assert (E : barT %s u0 u1 u2 u0 u1 u2 = hosT %s u0 u1 u2) by (unfold barT, barS, hosT, hosS; field).\n"
             "  rewrite barS%s_val_eq; [ | exact Hq | rewrite E; exact HT ]. unfold barPhi, hosPsi. rewrite E. reflexivity.\nQed." % (A, A, A, A, A, A))
    open(os.path.join(COQ, "C22Eig_barS%s.v" % A), "w").write("\n".join(o) + "\n")
    q = ["(* C22 -- Barlat 2004, a = %s: Phi(vp1, vp2, seq) and its derivatives with respect to the eigenvalues: property theorems *)" % A,
         "From Coq Require Import Reals List Lra.\nFrom Coquelicot Require Import Coquelicot.\nFrom VLib Require Import RealExtra.",
         "From C22 Require Import C22InvSpec C22EigSpec C22eig_gen C22EigStatements C22Eig_barS%s.\nImport ListNotations.\nLocal Open Scope R_scope.\n" % A]
    for w in ("value", "noq", "grad", "hess", "hosford"):
        q.append("Theorem C22_barlat%s_%s : barS%s_%s_stmt.\nProof. exact barS%s_%s_ok. Qed.\nPrint Assumptions C22_barlat%s_%s." % (A, w, A, w, A, w, A, w))
    open(os.path.join(COQ, "Properties_C22eig_barS%s.v" % A), "w").write("\n".join(q) + "\n")


for _a in (6,):
    barS(_a)

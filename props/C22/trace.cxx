// C22: tracer (engine S) and driver for the equivalent-stress criteria.
//   trace gen <out.v> [seed] : Coq definitions of Drucker 1949 (value / normal / second derivative; N=1,2,3; decision tree on
//                              the seps test), Cazacu 2004 isotropic (three variants, value only), sigmaeq; AGREE lines
//   trace run [seed] [n]     : runs the real double code of every criterion (Drucker 1949, Cazacu 2001, Cazacu 2004 iso/ortho,
//                              Hosford, Mises) on a corpus + seeded stresses; prints values, normals, second derivatives and their
//                              central finite differences
#include "symtfel.hxx"
#include "TFEL/Math/stensor.hxx"
#include "TFEL/Math/st2tost2.hxx"
#include "TFEL/Material/IsotropicPlasticity.hxx"
#include "TFEL/Material/OrthotropicPlasticity.hxx"
#include "TFEL/Material/Drucker1949YieldCriterion.hxx"
#include "TFEL/Material/Cazacu2001YieldCriterion.hxx"
#include "TFEL/Material/Cazacu2004IsotropicYieldCriterion.hxx"
#include "TFEL/Material/Cazacu2004OrthotropicYieldCriterion.hxx"
#include "TFEL/Material/Hosford1972YieldCriterion.hxx"
#include <cstring>
#include <iostream>

using namespace symv;
namespace tm_ = tfel::material;
using tfel::math::st2tost2;
using tfel::math::stensor;

template <unsigned short N>
constexpr unsigned short ssz = tfel::math::StensorDimeToSize<N>::value;

template <unsigned short N, typename T>
stensor<N, T> mk(const std::vector<T>& v) {
  stensor<N, T> s;
  for (unsigned short i = 0; i < ssz<N>; ++i) s[i] = v[i];
  return s;
}
template <unsigned short N, typename T>
void push(std::vector<T>& r, const stensor<N, T>& s) {
  for (unsigned short i = 0; i < ssz<N>; ++i) r.push_back(s[i]);
}
template <unsigned short N, typename T>
void push(std::vector<T>& r, const st2tost2<N, T>& m) {
  for (unsigned short i = 0; i < ssz<N>; ++i)
    for (unsigned short j = 0; j < ssz<N>; ++j) r.push_back(m(i, j));
}

// which: 0 value, 1 normal, 2 second derivative.  Output: [seq; n...; dn...]
template <unsigned short N, typename T>
std::vector<T> drucker(int which, const std::vector<T>& s, const T& c, const T& seps) {
  const auto sig = mk<N, T>(s);
  std::vector<T> r;
  if (which == 0) {
    r.push_back(tm_::computeDrucker1949StressCriterion(sig, c));
  } else if (which == 1) {
    auto [seq, n] = tm_::computeDrucker1949StressCriterionNormal(sig, c, seps);
    r.push_back(seq);
    push<N, T>(r, n);
  } else {
    auto [seq, n, dn] = tm_::computeDrucker1949StressCriterionSecondDerivative(sig, c, seps);
    r.push_back(seq);
    push<N, T>(r, n);
    push<N, T>(r, dn);
  }
  return r;
}
template <unsigned short N, typename T>
std::vector<T> caz04i(int which, const std::vector<T>& s, const T& c, const T& seps) {
  const auto sig = mk<N, T>(s);
  std::vector<T> r;
  if (which == 0) {
    r.push_back(tm_::computeCazacu2004IsotropicStressCriterion(sig, c));
  } else if (which == 1) {
    auto [seq, n] = tm_::computeCazacu2004IsotropicStressCriterionNormal(sig, c, seps);
    r.push_back(seq);
    push<N, T>(r, n);
  } else {
    auto [seq, n, dn] = tm_::computeCazacu2004IsotropicStressCriterionSecondDerivative(sig, c, seps);
    r.push_back(seq);
    push<N, T>(r, n);
    push<N, T>(r, dn);
  }
  return r;
}
// orthotropic criteria: p = a[6] b[11] c
template <unsigned short N, int K>
std::vector<double> cazo(int which, const std::vector<double>& s, const std::vector<double>& p, double seps) {
  const auto sig = mk<N, double>(s);
  tm_::J2OCoefficients<stensor<N, double>> a;
  tm_::J3OCoefficients<stensor<N, double>> b;
  for (int i = 0; i < 6; ++i) a[i] = p[i];
  for (int i = 0; i < 11; ++i) b[i] = p[6 + i];
  const double c = p[17];
  std::vector<double> r;
  if (which == 0) {
    if constexpr (K == 2001) r.push_back(tm_::computeCazacu2001StressCriterion(sig, a, b, c));
    else r.push_back(tm_::computeCazacu2004OrthotropicStressCriterion(sig, a, b, c));
  } else if (which == 1) {
    if constexpr (K == 2001) {
      auto [seq, n] = tm_::computeCazacu2001StressCriterionNormal(sig, a, b, c, seps);
      r.push_back(seq);
      push<N, double>(r, n);
    } else {
      auto [seq, n] = tm_::computeCazacu2004OrthotropicStressCriterionNormal(sig, a, b, c, seps);
      r.push_back(seq);
      push<N, double>(r, n);
    }
  } else {
    if constexpr (K == 2001) {
      auto [seq, n, dn] = tm_::computeCazacu2001StressCriterionSecondDerivative(sig, a, b, c, seps);
      r.push_back(seq);
      push<N, double>(r, n);
      push<N, double>(r, dn);
    } else {
      auto [seq, n, dn] = tm_::computeCazacu2004OrthotropicStressCriterionSecondDerivative(sig, a, b, c, seps);
      r.push_back(seq);
      push<N, double>(r, n);
      push<N, double>(r, dn);
    }
  }
  return r;
}
template <unsigned short N>
std::vector<double> hosford(int which, const std::vector<double>& s, double a, double seps) {
  const auto sig = mk<N, double>(s);
  std::vector<double> r;
  if (which == 0) {
    r.push_back(tm_::computeHosfordStress(sig, a, seps));
  } else if (which == 1) {
    auto [seq, n] = tm_::computeHosfordStressNormal(sig, a, seps);
    r.push_back(seq);
    push<N, double>(r, n);
  } else {
    auto [seq, n, dn] = tm_::computeHosfordStressSecondDerivative(sig, a, seps);
    r.push_back(seq);
    push<N, double>(r, n);
    push<N, double>(r, dn);
  }
  return r;
}

// ------------------------------------------------------------------ gen
template <unsigned short N>
void gen_dim(Trace& tr, Rng& rng, int& nag, int& nfail) {
  const std::string d = std::to_string(N);
  auto s = vars("s", ssz<N>);
  Sym c = var("c"), seps = var("seps");
  std::vector<Sym> pv = s;
  pv.push_back(c);
  std::vector<Sym> pt = pv;
  pt.push_back(seps);
  // Drucker value: straight line
  auto v0 = drucker<N, Sym>(0, s, c, seps);
  tr.def1("dr_val_" + d, pv, v0[0]);
  auto l1 = tr.def_paths("dr_nrm_" + d, pt, [&] { return drucker<N, Sym>(1, s, c, seps); });
  auto l2 = tr.def_paths("dr_snd_" + d, pt, [&] { return drucker<N, Sym>(2, s, c, seps); });
  // Cazacu 2004 isotropic
  auto w0 = caz04i<N, Sym>(0, s, c, seps);
  tr.def1("cz_val_" + d, pv, w0[0]);
  auto m1 = tr.def_paths("cz_nrm_" + d, pt, [&] { return caz04i<N, Sym>(1, s, c, seps); });
  auto m2 = tr.def_paths("cz_snd_" + d, pt, [&] { return caz04i<N, Sym>(2, s, c, seps); });
  // von Mises
  tr.def1("mises_" + d, s, tfel::math::sigmaeq(mk<N, Sym>(s)));
  // agreement with the double instantiation
  for (int k = 0; k < 12; ++k) {
    Env env;
    std::vector<double> sv;
    for (unsigned short i = 0; i < ssz<N>; ++i) {
      sv.push_back(rng.range(-100., 100.));
      env["s" + std::to_string(i)] = sv.back();
    }
    const double cv = (k % 3 == 0) ? 1. : rng.range(-2., 2.);
    const double ev = (k == 11) ? 1e6 : 1e-3;  // last case: below the threshold
    env["c"] = cv;
    env["seps"] = ev;
    auto cmp = [&](const char* nm, const std::vector<long double>& sy, const std::vector<double>& dv) {
      bool ok = sy.size() == dv.size();
      long double sc = 0;
      for (double x : dv) sc = std::max<long double>(sc, std::fabs(x));
      for (size_t i = 0; ok && i < dv.size(); ++i) ok = close(sy[i], dv[i], i == 0 ? 0 : 1e-30L, 1e-10L) || std::fabs(sy[i] - dv[i]) <= 1e-12L * sc;
      std::printf("%s %s_%s case %d\n", ok ? "AGREE" : "AGREE-FAIL", nm, d.c_str(), k);
      ok ? ++nag : ++nfail;
    };
    std::vector<long double> r;
    cmp("dr_val", {eval(v0[0], env)}, drucker<N, double>(0, sv, cv, ev));
    if (eval_leaves(l1, env, r)) cmp("dr_nrm", r, drucker<N, double>(1, sv, cv, ev));
    if (eval_leaves(l2, env, r)) cmp("dr_snd", r, drucker<N, double>(2, sv, cv, ev));
    cmp("cz_val", {eval(w0[0], env)}, caz04i<N, double>(0, sv, cv, ev));
    if (eval_leaves(m1, env, r)) cmp("cz_nrm", r, caz04i<N, double>(1, sv, cv, ev));
    if (eval_leaves(m2, env, r)) cmp("cz_snd", r, caz04i<N, double>(2, sv, cv, ev));
  }
}

// ------------------------------------------------------------------ run
using Fn = std::function<std::vector<double>(int, const std::vector<double>&)>;
template <unsigned short N>
void run_case(const char* crit, const std::string& id, const Fn& f, const std::vector<double>& s, const std::string& params) {
  constexpr int n = ssz<N>;
  auto v = f(0, s), g = f(1, s), h = f(2, s);
  double nrm = 0;
  for (double x : s) nrm = std::max(nrm, std::fabs(x));
  const double e = 1e-5 * nrm;
  // central differences of the value and of the normal returned by the second-derivative variant
  std::vector<double> fdn(n), fdd(n * n);
  for (int j = 0; j < n; ++j) {
    auto sp = s, sm = s;
    sp[j] += e;
    sm[j] -= e;
    fdn[j] = (f(0, sp)[0] - f(0, sm)[0]) / (2 * e);
    auto hp = f(2, sp), hm = f(2, sm);
    for (int i = 0; i < n; ++i) fdd[i * n + j] = (hp[1 + i] - hm[1 + i]) / (2 * e);
  }
  auto s2 = s;
  for (auto& x : s2) x *= 2.5;
  const double hom = f(0, s2)[0];
  std::printf("CASE %s %d %s | %s | in", crit, int(N), id.c_str(), params.c_str());
  for (double x : s) std::printf(" %.17g", x);
  std::printf(" | seq %.17g %.17g %.17g | hom %.17g | n1", v[0], g[0], h[0], hom);
  for (int i = 0; i < n; ++i) std::printf(" %.17g", g[1 + i]);
  std::printf(" | n2");
  for (int i = 0; i < n; ++i) std::printf(" %.17g", h[1 + i]);
  std::printf(" | fdn");
  for (int i = 0; i < n; ++i) std::printf(" %.17g", fdn[i]);
  std::printf(" | dn");
  for (int i = 0; i < n * n; ++i) std::printf(" %.17g", h[1 + n + i]);
  std::printf(" | fdd");
  for (int i = 0; i < n * n; ++i) std::printf(" %.17g", fdd[i]);
  std::printf("\n");
}
static std::string pstr(const std::vector<double>& p) {
  std::string r;
  char b[40];
  for (double x : p) {
    std::snprintf(b, sizeof b, "%s%.17g", r.empty() ? "" : ",", x);
    r += b;
  }
  return r;
}
template <unsigned short N>
void run_dim(Rng& rng, int nrand) {
  constexpr int n = ssz<N>;
  const double corpus[3][6] = {{100, -50, 30, 20, -10, 40}, {200, 10, -120, 35, 60, -15}, {-80, -75, 150, 5, 90, 45}};
  const double seps = 1e-8;
  for (int k = 0; k < 3 + nrand; ++k) {
    std::vector<double> s(n);
    for (int i = 0; i < n; ++i) s[i] = k < 3 ? corpus[k][i] : rng.range(-150., 150.);
    const std::string id = (k < 3 ? "corpus" : "rand") + std::to_string(k);
    const double cs[3] = {2.0, 1.0, -1.5};
    const double c = k < 3 ? cs[k] : rng.range(-2., 3.);
    run_case<N>("drucker1949", id, [&](int w, const std::vector<double>& x) { return drucker<N, double>(w, x, c, seps); }, s, pstr({c}));
    const double c4 = k < 3 ? cs[k] * 0.5 : rng.range(-1., 1.);
    run_case<N>("cazacu2004iso", id, [&](int w, const std::vector<double>& x) { return caz04i<N, double>(w, x, c4, seps); }, s, pstr({c4}));
    std::vector<double> p(18);
    for (int i = 0; i < 17; ++i) p[i] = k == 1 ? 1. : rng.range(0.8, 1.2);
    p[17] = k < 3 ? cs[k] * 0.5 : rng.range(-1., 1.);
    run_case<N>("cazacu2001", id, [&](int w, const std::vector<double>& x) { return cazo<N, 2001>(w, x, p, seps); }, s, pstr(p));
    run_case<N>("cazacu2004ortho", id, [&](int w, const std::vector<double>& x) { return cazo<N, 2004>(w, x, p, seps); }, s, pstr(p));
    const double as[3] = {2., 6., 8.};
    const double a = as[k % 3];
    run_case<N>("hosford", id, [&](int w, const std::vector<double>& x) { return hosford<N>(w, x, a, seps); }, s, pstr({a}));
    std::printf("MISES %d %s %.17g %.17g\n", int(N), id.c_str(), tfel::math::sigmaeq(mk<N, double>(s)), hosford<N>(0, s, 2., seps)[0]);
  }
}

int main(int argc, char** argv) {
  if (argc >= 3 && !std::strcmp(argv[1], "gen")) {
    Trace tr("C22_gen");
    Rng rng(argc >= 4 ? std::strtoull(argv[3], nullptr, 10) : 1);
    int nag = 0, nfail = 0;
    gen_dim<1>(tr, rng, nag, nfail);
    gen_dim<2>(tr, rng, nag, nfail);
    gen_dim<3>(tr, rng, nag, nfail);
    tr.write(argv[2]);
    std::printf("SUMMARY agree=%d fail=%d\n", nag, nfail);
    return 0;
  }
  if (argc >= 2 && !std::strcmp(argv[1], "run")) {
    Rng rng(argc >= 3 ? std::strtoull(argv[2], nullptr, 10) : 1);
    const int n = argc >= 4 ? std::atoi(argv[3]) : 10;
    run_dim<1>(rng, n);
    run_dim<2>(rng, n);
    run_dim<3>(rng, n);
    return 0;
  }
  std::fprintf(stderr, "usage: trace gen <out.v> [seed] | trace run [seed] [n]\n");
  return 2;
}

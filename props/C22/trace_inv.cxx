// C22: tracer (engine S) for the INVARIANT-BASED criteria, with cut points.
//   trace_inv gen <out.v> <seed> <maxN>
// For every criterion X in {drk = Drucker 1949, c01 = Cazacu 2001, c4i = Cazacu 2004 isotropic, c4o = Cazacu 2004 orthotropic}
// and N = 1..maxN the three public functions of /repo (value / normal / second derivative) are instantiated with the symbolic
// scalar.  The results of the library calls made by the criterion (s|s, det(dev), computeJ3Derivative, computeJ3SecondDerivative;
// computeJ2O/J3O and their first and second derivatives) are CUT POINTS: the very same library functions are called here on the
// same symbolic stress, which (hash-consing) yields the very same DAG nodes; these nodes are replaced by fresh variables.
// Emitted (all regenerated from /repo at each run):
//   <cut>_<N>           one definition per cut quantity (polynomial in the stress and the coefficients)
//   X_val_N, X_nrm_N, X_snd_N            monolithic traces (decision trees on the seps tests)
//   X_val_abs_N, X_nrm_abs_N, X_snd_abs_N  the same DAGs printed with the cut nodes as parameters
//   X_nrm_leaf_N, X_snd_leaf_N           the leaf of the abstract tree taken above the threshold (straight line)
//   X_val_fac_N ...                      composition abs o cuts  (Coq proves monolithic = composition by reflexivity;
//                                        the tracer also checks that substituting back gives the identical DAG node)
// AGREE lines: Sym (abstract leaf + cuts, long double) against the double instantiation of the public functions.
#include "symtfel.hxx"
#include "TFEL/Math/stensor.hxx"
#include "TFEL/Math/st2tost2.hxx"
#include "TFEL/Material/IsotropicPlasticity.hxx"
#include "TFEL/Material/OrthotropicPlasticity.hxx"
#include "TFEL/Material/Drucker1949YieldCriterion.hxx"
#include "TFEL/Material/Cazacu2001YieldCriterion.hxx"
#include "TFEL/Material/Cazacu2004IsotropicYieldCriterion.hxx"
#include "TFEL/Material/Cazacu2004OrthotropicYieldCriterion.hxx"
#include <cstring>
#include <iostream>

using namespace symv;
namespace tm_ = tfel::material;
using tfel::math::st2tost2;
using tfel::math::stensor;

template <unsigned short N>
constexpr unsigned short ssz = tfel::math::StensorDimeToSize<N>::value;

template <unsigned short N, typename T>
stensor<N, T> mk(const std::vector<T>& v) {
  stensor<N, T> s;
  for (unsigned short i = 0; i < ssz<N>; ++i) s[i] = v[i];
  return s;
}
template <unsigned short N, typename T>
void push(std::vector<T>& r, const stensor<N, T>& s) {
  for (unsigned short i = 0; i < ssz<N>; ++i) r.push_back(s[i]);
}
template <unsigned short N, typename T>
void push(std::vector<T>& r, const st2tost2<N, T>& m) {
  for (unsigned short i = 0; i < ssz<N>; ++i)
    for (unsigned short j = 0; j < ssz<N>; ++j) r.push_back(m(i, j));
}

// ---- the public functions; which: 0 value, 1 normal, 2 second derivative; output [seq; n..; dn..]
// p: drk, c4i: [c];  c01, c4o: [a0..a5, b0..b10, c]
template <unsigned short N, typename T>
std::vector<T> crit(int K, int which, const std::vector<T>& s, const std::vector<T>& p, const T& seps) {
  const auto sig = mk<N, T>(s);
  std::vector<T> r;
  auto out2 = [&](const auto& t) {
    r.push_back(std::get<0>(t));
    push<N, T>(r, std::get<1>(t));
  };
  auto out3 = [&](const auto& t) {
    r.push_back(std::get<0>(t));
    push<N, T>(r, std::get<1>(t));
    push<N, T>(r, std::get<2>(t));
  };
  if (K == 0) {
    if (which == 0) r.push_back(tm_::computeDrucker1949StressCriterion(sig, p[0]));
    else if (which == 1) out2(tm_::computeDrucker1949StressCriterionNormal(sig, p[0], seps));
    else out3(tm_::computeDrucker1949StressCriterionSecondDerivative(sig, p[0], seps));
  } else if (K == 2) {
    if (which == 0) r.push_back(tm_::computeCazacu2004IsotropicStressCriterion(sig, p[0]));
    else if (which == 1) out2(tm_::computeCazacu2004IsotropicStressCriterionNormal(sig, p[0], seps));
    else out3(tm_::computeCazacu2004IsotropicStressCriterionSecondDerivative(sig, p[0], seps));
  } else {
    tm_::J2OCoefficients<stensor<N, T>> a;
    tm_::J3OCoefficients<stensor<N, T>> b;
    for (int i = 0; i < 6; ++i) a[i] = p[i];
    for (int i = 0; i < 11; ++i) b[i] = p[6 + i];
    const T c = p[17];
    if (K == 1) {
      if (which == 0) r.push_back(tm_::computeCazacu2001StressCriterion(sig, a, b, c));
      else if (which == 1) out2(tm_::computeCazacu2001StressCriterionNormal(sig, a, b, c, seps));
      else out3(tm_::computeCazacu2001StressCriterionSecondDerivative(sig, a, b, c, seps));
    } else {
      if (which == 0) r.push_back(tm_::computeCazacu2004OrthotropicStressCriterion(sig, a, b, c));
      else if (which == 1) out2(tm_::computeCazacu2004OrthotropicStressCriterionNormal(sig, a, b, c, seps));
      else out3(tm_::computeCazacu2004OrthotropicStressCriterionSecondDerivative(sig, a, b, c, seps));
    }
  }
  return r;
}

// ---- substitution of DAG nodes (top-down: a node of the map is replaced as a whole)
static Sym subst(int id, const std::map<int, Sym>& m, std::map<int, Sym>& memo) {
  auto im = m.find(id);
  if (im != m.end()) return im->second;
  auto it = memo.find(id);
  if (it != memo.end()) return it->second;
  const Node n = Store::get().nodes[id];
  Sym r;
  if (n.op == VAR || n.op == CST || n.op == DCST) {
    r = from_node(id);
  } else if (n.op == UFUN) {
    std::vector<Sym> a;
    for (int x : n.args) a.push_back(subst(x, m, memo));
    r = ufun(n.name, a);
  } else if (n.b < 0) {
    Node q;
    q.op = n.op;
    q.a = node_of(subst(n.a, m, memo));
    r = from_node(Store::get().intern(q));
  } else {
    Node q;
    q.op = n.op;
    q.a = node_of(subst(n.a, m, memo));
    q.b = node_of(subst(n.b, m, memo));
    r = from_node(Store::get().intern(q));
  }
  memo[id] = r;
  return r;
}
static Sym subst(const Sym& e, const std::map<int, Sym>& m, std::map<int, Sym>& memo) { return subst(node_of(e), m, memo); }

struct CutSet {
  std::vector<std::pair<std::string, Sym>> cuts;  // variable name, expression
  std::vector<Sym> vars;
  std::map<int, Sym> fwd;   // node -> variable
  std::map<int, Sym> back;  // variable node -> expression
  void add(const std::string& nm, const Sym& e) {
    Sym v = var(nm);
    cuts.push_back({nm, e});
    vars.push_back(v);
    back[node_of(v)] = e;
    if (!e.isconst()) {
      const Node& n = Store::get().nodes[node_of(e)];
      if (n.op != VAR && n.op != CST && n.op != DCST) fwd.try_emplace(node_of(e), v);
    }
  }
};

template <unsigned short N>
CutSet iso_cuts(const std::vector<Sym>& s) {
  constexpr int n = ssz<N>;
  CutSet C;
  const auto sig = mk<N, Sym>(s);
  const auto dev = tfel::math::deviator(sig);
  C.add("ss", Sym(dev | dev));
  C.add("j3", Sym(tfel::math::det(dev)));
  const auto dJ3 = tm_::computeJ3Derivative(sig);
  const auto d2J3 = tm_::computeJ3SecondDerivative(sig);
  for (int i = 0; i < n; ++i) C.add("b" + std::to_string(i), Sym(dJ3[i]));
  for (int i = 0; i < n; ++i)
    for (int j = 0; j < n; ++j) C.add("h" + std::to_string(i) + std::to_string(j), Sym(d2J3(i, j)));
  return C;
}
// NB the cut variables must not clash with the coefficient variables a<i>, b<i>
template <unsigned short N>
CutSet ort_cuts(const std::vector<Sym>& s, const std::vector<Sym>& p) {
  constexpr int n = ssz<N>;
  CutSet C;
  const auto sig = mk<N, Sym>(s);
  tm_::J2OCoefficients<stensor<N, Sym>> a;
  tm_::J3OCoefficients<stensor<N, Sym>> b;
  for (int i = 0; i < 6; ++i) a[i] = p[i];
  for (int i = 0; i < 11; ++i) b[i] = p[6 + i];
  C.add("k2", Sym(tm_::computeJ2O(sig, a)));
  C.add("k3", Sym(tm_::computeJ3O(sig, b)));
  const auto dJ2 = tm_::computeJ2ODerivative(sig, a);
  const auto d2J2 = tm_::computeJ2OSecondDerivative(sig, a);
  const auto dJ3 = tm_::computeJ3ODerivative(sig, b);
  const auto d2J3 = tm_::computeJ3OSecondDerivative(sig, b);
  for (int i = 0; i < n; ++i) C.add("p" + std::to_string(i), Sym(dJ2[i]));
  for (int i = 0; i < n; ++i)
    for (int j = 0; j < n; ++j) C.add("q" + std::to_string(i) + std::to_string(j), Sym(d2J2(i, j)));
  for (int i = 0; i < n; ++i) C.add("r" + std::to_string(i), Sym(dJ3[i]));
  for (int i = 0; i < n; ++i)
    for (int j = 0; j < n; ++j) C.add("t" + std::to_string(i) + std::to_string(j), Sym(d2J3(i, j)));
  return C;
}

static std::string pnames(const std::vector<Sym>& vs) { return Trace::params(vs); }

// print a decision tree from ready-made leaves
static void def_leaves(Trace& tr, const std::string& name, const std::vector<Sym>& ps, const std::vector<Leaf>& leaves) {
  Printer p;
  std::vector<int> roots;
  for (auto& L : leaves) {
    for (auto& o : L.out) roots.push_back(node_of(o));
    for (auto& c : L.conds) {
      roots.push_back(c.a);
      roots.push_back(c.b);
    }
  }
  std::string l = p.lets(roots);
  std::ostringstream t;
  tr.tree(t, p, leaves, 0, leaves.size(), 0, 2);
  tr.out << "(* " << leaves.size() << " leaves *)\nDefinition " << name << " (" << pnames(ps) << " : R) : option (list R) :=\n" << l << t.str() << ".\n\n";
  ++tr.ndefs;
}

static std::vector<Leaf> subst_leaves(const std::vector<Leaf>& ls, const std::map<int, Sym>& m) {
  std::vector<Leaf> r;
  std::map<int, Sym> memo;
  for (auto& L : ls) {
    Leaf q;
    q.error = L.error;
    for (auto& o : L.out) q.out.push_back(subst(o, m, memo));
    for (auto c : L.conds) {
      c.a = node_of(subst(c.a, m, memo));
      c.b = node_of(subst(c.b, m, memo));
      q.conds.push_back(c);
    }
    r.push_back(q);
  }
  return r;
}
static bool same_leaves(const std::vector<Leaf>& a, const std::vector<Leaf>& b) {
  if (a.size() != b.size()) return false;
  for (size_t k = 0; k < a.size(); ++k) {
    if (a[k].out.size() != b[k].out.size() || a[k].conds.size() != b[k].conds.size()) return false;
    for (size_t i = 0; i < a[k].out.size(); ++i)
      if (node_of(a[k].out[i]) != node_of(b[k].out[i])) return false;
    for (size_t i = 0; i < a[k].conds.size(); ++i)
      if (a[k].conds[i].a != b[k].conds[i].a || a[k].conds[i].b != b[k].conds[i].b || a[k].conds[i].value != b[k].conds[i].value) return false;
  }
  return true;
}
// index of the leaf selected by env
static int select_leaf(const std::vector<Leaf>& ls, const Env& env) {
  for (size_t k = 0; k < ls.size(); ++k) {
    bool ok = true;
    std::map<int, long double> memo;
    for (auto& c : ls[k].conds) {
      long double x = eval_node(c.a, env, memo), y = eval_node(c.b, env, memo);
      bool v = c.rel == LT ? x < y : (c.rel == LE ? x <= y : x == y);
      if (v != c.value) {
        ok = false;
        break;
      }
    }
    if (ok) return int(k);
  }
  return -1;
}

static const char* KNAME[4] = {"drk", "c01", "c4i", "c4o"};

template <unsigned short N>
void gen_crit(Trace& tr, int K, Rng& rng, int& nag, int& nfail, const CutSet& C, const std::string& cutpre, const std::vector<Sym>& s,
              const std::vector<Sym>& p) {
  constexpr int n = ssz<N>;
  const std::string d = std::to_string(N);
  const std::string X = KNAME[K];
  Sym seps = var("seps");
  std::vector<Sym> pv = s;  // s, params
  for (auto& x : p) pv.push_back(x);
  std::vector<Sym> pt = pv;
  pt.push_back(seps);
  // abstract parameter list: s, cut variables, params [, seps]
  std::vector<Sym> av = s;
  for (auto& v : C.vars) av.push_back(v);
  for (auto& x : p) av.push_back(x);
  std::vector<Sym> at = av;
  at.push_back(seps);
  // monolithic
  auto v0 = crit<N, Sym>(K, 0, s, p, seps);
  tr.def1(X + "_val_" + d, pv, v0[0]);
  auto l1 = tr.def_paths(X + "_nrm_" + d, pt, [&] { return crit<N, Sym>(K, 1, s, p, seps); });
  auto l2 = tr.def_paths(X + "_snd_" + d, pt, [&] { return crit<N, Sym>(K, 2, s, p, seps); });
  // abstract
  std::map<int, Sym> memo;
  Sym v0a = subst(v0[0], C.fwd, memo);
  auto l1a = subst_leaves(l1, C.fwd);
  auto l2a = subst_leaves(l2, C.fwd);
  tr.def1(X + "_val_abs_" + d, av, v0a);
  def_leaves(tr, X + "_nrm_abs_" + d, at, l1a);
  def_leaves(tr, X + "_snd_abs_" + d, at, l2a);
  // substituting back must give the identical DAG
  {
    std::map<int, Sym> mb;
    bool ok = node_of(subst(v0a, C.back, mb)) == node_of(v0[0]) && same_leaves(subst_leaves(l1a, C.back), l1) && same_leaves(subst_leaves(l2a, C.back), l2);
    std::printf("%s %s_%s\n", ok ? "FACTOR-OK" : "FACTOR-FAIL", X.c_str(), d.c_str());
  }
  // compositions
  {
    std::string args, cutargs = pnames(s) + (cutpre == "ort" ? pnames(std::vector<Sym>(p.begin(), p.begin() + 17)) : "");
    // each cut function takes (s, coefficient params it may depend on): iso: s ; ort j2-family: s a ; j3-family: s b  -> we give all of (s [a b])
    for (auto& c : C.cuts) args += " (" + cutpre + "_" + c.first + "_" + d + cutargs + ")";
    tr.raw("Definition " + X + "_val_fac_" + d + " (" + pnames(pv) + " : R) : R :=\n  " + X + "_val_abs_" + d + pnames(s) + args + pnames(p) + ".\n");
    tr.raw("Definition " + X + "_nrm_fac_" + d + " (" + pnames(pt) + " : R) : option (list R) :=\n  " + X + "_nrm_abs_" + d + pnames(s) + args + pnames(p) +
           " seps.\n");
    tr.raw("Definition " + X + "_snd_fac_" + d + " (" + pnames(pt) + " : R) : option (list R) :=\n  " + X + "_snd_abs_" + d + pnames(s) + args + pnames(p) +
           " seps.\n\n");
  }
  // reference environment: generic stress, tiny seps -> the smooth leaf
  Env ref;
  {
    const double sv[6] = {100, -50, 30, 20, -10, 40};
    for (int i = 0; i < n; ++i) ref["s" + std::to_string(i)] = sv[i];
    for (size_t i = 0; i < p.size(); ++i) ref[Store::get().nodes[node_of(p[i])].name] = (i + 1 == p.size()) ? 0.5 : 1. + 0.01 * i;
    ref["seps"] = 1e-10;
    for (auto& c : C.cuts) ref[c.first] = eval(c.second, ref);
  }
  const int k1 = select_leaf(l1a, ref), k2 = select_leaf(l2a, ref);
  if (k1 < 0 || k2 < 0) throw SymError("no smooth leaf");
  tr.def(X + "_nrm_leaf_" + d, av, l1a[k1].out);
  tr.def(X + "_snd_leaf_" + d, av, l2a[k2].out);
  std::printf("SHAPE %s %d nin=%d leaves=%zu,%zu smooth=%d,%d\n", X.c_str(), int(N), n, l1a.size(), l2a.size(), k1, k2);
  // ---- agreement of (abstract leaves o cuts) with the double instantiation
  for (int k = 0; k < 12; ++k) {
    Env env;
    std::vector<double> sv, pd;
    for (int i = 0; i < n; ++i) {
      sv.push_back(rng.range(-100., 100.));
      env["s" + std::to_string(i)] = sv.back();
    }
    for (size_t i = 0; i < p.size(); ++i) {
      const bool last = i + 1 == p.size();
      double x = last ? ((k % 3 == 0) ? 1. : rng.range(-1.5, 1.5)) : rng.range(0.8, 1.2);
      if (last && (K == 2 || K == 3)) x *= 0.5;
      pd.push_back(x);
      env[Store::get().nodes[node_of(p[i])].name] = x;
    }
    const double ev = (k == 11) ? 1e6 : 1e-3;  // last case: below the threshold
    env["seps"] = ev;
    for (auto& c : C.cuts) env[c.first] = eval(c.second, env);
    auto cmp = [&](const char* nm, const std::vector<long double>& sy, const std::vector<double>& dv) {
      bool ok = sy.size() == dv.size();
      long double sc = 0;
      for (double x : dv) sc = std::max<long double>(sc, std::fabs(x));
      for (size_t i = 0; ok && i < dv.size(); ++i) ok = close(sy[i], dv[i], i == 0 ? 0 : 1e-30L, 1e-10L) || std::fabs(sy[i] - dv[i]) <= 1e-12L * sc;
      std::printf("%s %s_%s_%s case %d\n", ok ? "AGREE" : "AGREE-FAIL", X.c_str(), nm, d.c_str(), k);
      ok ? ++nag : ++nfail;
    };
    std::vector<long double> r;
    cmp("val_abs", {eval(v0a, env)}, crit<N, double>(K, 0, sv, pd, ev));
    if (eval_leaves(l1a, env, r)) cmp("nrm_abs", r, crit<N, double>(K, 1, sv, pd, ev));
    if (eval_leaves(l2a, env, r)) cmp("snd_abs", r, crit<N, double>(K, 2, sv, pd, ev));
  }
}

template <unsigned short N>
void emit_cuts(Trace& tr, const CutSet& C, const std::string& pre, const std::vector<Sym>& ps) {
  const std::string d = std::to_string(N);
  for (auto& c : C.cuts) tr.def1(pre + "_" + c.first + "_" + d, ps, c.second);
}

template <unsigned short N>
void gen_dim(Trace& tr, Rng& rng, int& nag, int& nfail) {
  auto s = vars("s", ssz<N>);
  Sym c = var("c");
  std::vector<Sym> po;
  for (auto& x : vars("a", 6)) po.push_back(x);
  for (auto& x : vars("b", 11)) po.push_back(x);
  std::vector<Sym> sab = s;
  for (auto& x : po) sab.push_back(x);
  po.push_back(c);
  const auto Ci = iso_cuts<N>(s);
  emit_cuts<N>(tr, Ci, "iso", s);
  gen_crit<N>(tr, 0, rng, nag, nfail, Ci, "iso", s, {c});
  gen_crit<N>(tr, 2, rng, nag, nfail, Ci, "iso", s, {c});
  const auto Co = ort_cuts<N>(s, po);
  emit_cuts<N>(tr, Co, "ort", sab);
  gen_crit<N>(tr, 1, rng, nag, nfail, Co, "ort", s, po);
  gen_crit<N>(tr, 3, rng, nag, nfail, Co, "ort", s, po);
}

int main(int argc, char** argv) {
  if (argc >= 3 && !std::strcmp(argv[1], "gen")) {
    Trace tr("C22inv_gen");
    Rng rng(argc >= 4 ? std::strtoull(argv[3], nullptr, 10) : 1);
    const int maxN = argc >= 5 ? std::atoi(argv[4]) : 3;
    int nag = 0, nfail = 0;
    gen_dim<1>(tr, rng, nag, nfail);
    if (maxN >= 2) gen_dim<2>(tr, rng, nag, nfail);
    if (maxN >= 3) gen_dim<3>(tr, rng, nag, nfail);
    tr.write(argv[2]);
    std::printf("SUMMARY agree=%d fail=%d\n", nag, nfail);
    return 0;
  }
  std::fprintf(stderr, "usage: trace_inv gen <out.v> <seed> <maxN>\n");
  return 2;
}

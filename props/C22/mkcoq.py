#!/usr/bin/env python3
"""C22 -- typing aid: writes the statement / proof / property files of the invariant-based criteria
(coq/C22InvStatements.v, coq/C22InvCuts<N>.v, coq/C22Inv_<X>_<N>.v, coq/Properties_C22inv_<X>_<N>.v).
The outputs are committed; the check does not run this script.  Nothing here looks at the traced terms: the scripts only
use the NAMES of the definitions that trace_inv.cxx regenerates (C22inv_gen.v) and shape-independent tactics."""
import os, sys

HERE = os.path.dirname(os.path.abspath(__file__))
COQ = os.path.join(HERE, "coq")
NS = {1: 3, 2: 4, 3: 6}
A = ["a%d" % i for i in range(6)]
B = ["b%d" % i for i in range(11)]
CR = {
    "drk": dict(fam="iso", kind="S6", title="Drucker 1949", fn="computeDrucker1949StressCriterion"),
    "c01": dict(fam="ort", kind="S6", title="Cazacu 2001", fn="computeCazacu2001StressCriterion"),
    "c4i": dict(fam="iso", kind="A4", title="Cazacu 2004 (isotropic)", fn="computeCazacu2004IsotropicStressCriterion"),
    "c4o": dict(fam="ort", kind="A4", title="Cazacu 2004 (orthotropic)", fn="computeCazacu2004OrthotropicStressCriterion"),
}
ORDER = ["drk", "c01", "c4i", "c4o"]


def svars(N):
    return ["s%d" % i for i in range(NS[N])]


def sw(N, j, x):
    """stress variables with component j replaced by x"""
    v = svars(N)
    if j is not None:
        v[j] = x
    return v


def params(X):
    return ["c"] if CR[X]["fam"] == "iso" else A + B + ["c"]


def cutparams(fam):
    return [] if fam == "iso" else A + B


def cuts(fam, N):
    """(name, kind) in the order of trace_inv.cxx; kind 'f' = abstracted as a function in the derivative proofs"""
    n = NS[N]
    if fam == "iso":
        r = [("ss", "f"), ("j3", "f")] + [("b%d" % i, "f") for i in range(n)]
        r += [("h%d%d" % (i, j), "c") for i in range(n) for j in range(n)]
    else:
        r = [("k2", "f"), ("k3", "f")] + [("p%d" % i, "f") for i in range(n)]
        r += [("q%d%d" % (i, j), "c") for i in range(n) for j in range(n)]
        r += [("r%d" % i, "f") for i in range(n)]
        r += [("t%d%d" % (i, j), "c") for i in range(n) for j in range(n)]
    return r


def cutfn(fam, N, name, sv):
    return "(%s_%s_%d %s)" % (fam, name, N, " ".join(sv + cutparams(fam)))


def cutargs(fam, N, sv):
    return " ".join(cutfn(fam, N, nm, sv) for (nm, _k) in cuts(fam, N))


def J2txt(fam, N, sv):
    return "(%s / 2)" % cutfn(fam, N, "ss", sv) if fam == "iso" else cutfn(fam, N, "k2", sv)


def J3txt(fam, N, sv):
    return cutfn(fam, N, "j3" if fam == "iso" else "k3", sv)


def dom(X, N, sv, with_seps=True):
    """domain hypotheses (name, text)"""
    fam, kind = CR[X]["fam"], CR[X]["kind"]
    j2, j3 = J2txt(fam, N, sv), J3txt(fam, N, sv)
    h = []
    if kind == "S6":
        if with_seps:
            h.append(("H1", "seps * seps < %s" % j2))
        h.append(("HS", "0 < S6_of %s %s c" % (j2, j3)))
    else:
        if with_seps:
            h.append(("H1", "seps < %s_val_%d %s" % (X, N, " ".join(sv + params(X)))))
        h.append(("HJ", "0 < %s" % j2))
        h.append(("HA", "0 < A4_of %s %s c" % (j2, j3)))
    return h


def leaf(X, N, which, sv):
    return "(%s_%s_leaf_%d %s %s %s)" % (X, which, N, " ".join(sv), cutargs(CR[X]["fam"], N, sv), " ".join(params(X)))


def valabs(X, N, sv):
    return "(%s_val_abs_%d %s %s %s)" % (X, N, " ".join(sv), cutargs(CR[X]["fam"], N, sv), " ".join(params(X)))


def devtxt(N, j, sv):
    return "(%s - (%s + %s + %s) / 3)" % (sv[j], sv[0], sv[1], sv[2]) if j < 3 else sv[j]


HEAD = """From Coq Require Import Reals List Lra.
From Coquelicot Require Import Coquelicot.
From VLib Require Import RealExtra.
"""


# ------------------------------------------------------------------ statements
def statements():
    o = ["(* C22 -- statements for the invariant-based criteria (written by mkcoq.py, committed).  Every function named",
         "   <X>_val_<N>, <X>_nrm_<N>, <X>_snd_<N> (monolithic traces of the three public functions of /repo) and every cut quantity",
         "   iso_*_<N> / ort_*_<N> (results of the library calls s|s, det(dev), computeJ3Derivative, ..., computeJ2O, ...) is",
         "   regenerated from /repo at each run (C22inv_gen.v).  Hypotheses are stated on the traced invariants. *)",
         HEAD + "From C22 Require Import C22InvSpec C22inv_gen.\nImport ListNotations.\nLocal Open Scope R_scope.\n"]
    for X in ORDER:
        for N in (1, 2, 3):
            n = NS[N]
            sv = svars(N)
            p = params(X)
            P = " ".join(p)
            allv = " ".join(sv + p)
            pl = " ".join("(nthR p %d)" % i for i in range(n))
            d = dom(X, N, sv)
            hyp = " ->\n    ".join(t for (_n, t) in d)
            o.append("(* ---- %s, N = %d *)" % (CR[X]["title"], N))
            o.append("Definition %s_%d_same_stmt : Prop :=\n  forall %s seps : R,\n    %s ->\n"
                     "    (exists l, %s_nrm_%d %s seps = Some (%s_val_%d %s :: l)) /\\\n"
                     "    (exists l, %s_snd_%d %s seps = Some (%s_val_%d %s :: l)) /\\\n"
                     "    firstn %d (out (%s_snd_%d %s seps)) = out (%s_nrm_%d %s seps)." % (
                         X, N, allv, d[0][1], X, N, allv, X, N, allv, X, N, allv, X, N, allv, 1 + n, X, N, allv, X, N, allv))
            o.append("Definition %s_%d_grad_stmt : Prop :=\n  forall %s seps : R,\n    %s ->\n"
                     "    is_grad %d (fun p => %s_val_%d %s %s) (fun p => out (%s_nrm_%d %s %s seps)) [%s]." % (
                         X, N, allv, hyp, n, X, N, pl, P, X, N, pl, P, "; ".join(sv)))
            o.append("Definition %s_%d_hess_stmt : Prop :=\n  forall %s seps : R,\n    %s ->\n"
                     "    is_hess %d (fun p => out (%s_snd_%d %s %s seps)) [%s]." % (X, N, allv, hyp, n, X, N, pl, P, "; ".join(sv)))
            o.append("Definition %s_%d_sym_stmt : Prop :=\n  forall %s seps : R,\n    %s ->\n    is_sym %d (out (%s_snd_%d %s seps))." % (
                X, N, allv, hyp, n, X, N, allv))
            tv = " ".join("(t * %s)" % s for s in sv)
            hd = " ->\n    ".join(t for (_n, t) in dom(X, N, sv, False))
            o.append("Definition %s_%d_hom_stmt : Prop :=\n  forall %s t : R, 0 < t ->\n    %s ->\n    %s_val_%d %s %s = t * %s_val_%d %s." % (
                X, N, allv, hd, X, N, tv, P, X, N, allv))
            o.append("")
    open(os.path.join(COQ, "C22InvStatements.v"), "w").write("\n".join(o) + "\n")


# ------------------------------------------------------------------ cut derivative lemmas
def cutfile(N):
    n = NS[N]
    sv = svars(N)
    head = ["(* C22 -- the cut quantities are polynomials whose derivatives are the next cut quantities (written by mkcoq.py).",
            "   iso: d(s|s)/ds_j = 2 dev_j, dJ3/ds_j = b_j (computeJ3Derivative), db_i/ds_j = h_ij (computeJ3SecondDerivative);",
            "   ort: dJ2O/ds_j = p_j, dp_i/ds_j = q_ij, dJ3O/ds_j = r_j, dr_i/ds_j = t_ij (computeJ2O/J3O[Second]Derivative). *)",
            HEAD + "From C22 Require Import C22InvSpec C22InvTac C22inv_gen.\nImport ListNotations.\nLocal Open Scope R_scope.\n"]
    for fam in ("iso", "ort"):
        o = list(head)

        def lem(name, f, d_txt, j):
            allv = " ".join(sv + cutparams(fam))
            o.append("Lemma %s %s : is_derive (fun x => %s) %s %s.\nProof. unfold %s. cutder. Qed." % (
                name, allv, cutfn(fam, N, f, sw(N, j, "x")), sv[j], d_txt,
                ", ".join(sorted({"%s_%s_%d" % (fam, f, N)} | {w.strip("()").split()[0] for w in [d_txt] if w.startswith("(" + fam)}))))
        for j in range(n):
            if fam == "iso":
                lem("iso%d_dss_%d" % (N, j), "ss", "(2 * %s)" % devtxt(N, j, sv), j)
                lem("iso%d_dj3_%d" % (N, j), "j3", cutfn("iso", N, "b%d" % j, sv), j)
                for i in range(n):
                    lem("iso%d_db%d_%d" % (N, i, j), "b%d" % i, cutfn("iso", N, "h%d%d" % (i, j), sv), j)
            else:
                lem("ort%d_dk2_%d" % (N, j), "k2", cutfn("ort", N, "p%d" % j, sv), j)
                lem("ort%d_dk3_%d" % (N, j), "k3", cutfn("ort", N, "r%d" % j, sv), j)
                for i in range(n):
                    lem("ort%d_dp%d_%d" % (N, i, j), "p%d" % i, cutfn("ort", N, "q%d%d" % (i, j), sv), j)
                    lem("ort%d_dr%d_%d" % (N, i, j), "r%d" % i, cutfn("ort", N, "t%d%d" % (i, j), sv), j)
        open(os.path.join(COQ, "C22InvCuts_%s%d.v" % (fam, N)), "w").write("\n".join(o) + "\n")


# ------------------------------------------------------------------ proofs of one criterion, one N
def fcuts(fam, N):
    return [nm for (nm, k) in cuts(fam, N) if k == "f"]


def ccuts(fam, N):
    return [nm for (nm, k) in cuts(fam, N) if k == "c"]


def absleaf(X, N, which, j, x):
    """leaf with the function-cuts replaced by U<name> x and the other cuts by their definitions at s[j:=x]"""
    fam = CR[X]["fam"]
    sv = sw(N, j, x)
    args = []
    for (nm, k) in cuts(fam, N):
        args.append("(U%s %s)" % (nm, x) if k == "f" else cutfn(fam, N, nm, sv))
    head = "%s_%s_leaf_%d" % (X, which, N) if which != "val" else "%s_val_abs_%d" % (X, N)
    return "(%s %s %s %s)" % (head, " ".join(sv), " ".join(args), " ".join(params(X)))


def critfile(X, N):
    fam, kind = CR[X]["fam"], CR[X]["kind"]
    n = NS[N]
    sv = svars(N)
    p = params(X)
    P = " ".join(p)
    fam_pre = "%s%d" % (fam, N)
    ccn = ", ".join("%s_%s_%d" % (fam, nm, N) for nm in ccuts(fam, N))
    J2n, J3n = ("ss", "j3") if fam == "iso" else ("k2", "k3")
    o = ["(* C22 -- %s, N = %d: proofs (written by mkcoq.py, committed).  One lemma per entry of the gradient / Jacobian:" % (CR[X]["title"], N),
         "   the cut quantities are abstracted as functions of the varying component with the derivatives proved in C22InvCuts_%s%d.v," % (fam, N),
         "   auto_derive differentiates the traced leaf, the result is compared with the traced derivative by field. *)",
         HEAD + "From C22 Require Import C22InvSpec C22InvTac C22inv_gen C22InvStatements C22InvCuts_%s%d C22InvCrit.\nImport ListNotations.\nLocal Open Scope R_scope.\n" % (fam, N)]
    ent = o.append
    # ---- abstract lemmas (all hypotheses explicit, in a fixed order)
    def abs_binders(j):
        svj = sw(N, j, "x0")
        j2 = "(U%s x0 / 2)" % J2n if fam == "iso" else "(U%s x0)" % J2n
        j3 = "(U%s x0)" % J3n
        b = "forall (%s : R -> R) (%s : R),\n" % (" ".join("U" + nm for nm in fcuts(fam, N)), " ".join(svj + p))
        names = []
        hs = []
        if kind == "S6":
            hs.append(("HS", "0 < S6_of %s %s c" % (j2, j3)))
        else:
            hs.append(("HJ", "0 < %s" % j2))
            hs.append(("HA", "0 < A4_of %s %s c" % (j2, j3)))
        if fam == "iso":
            hs.append(("Dss", "is_derive Uss x0 (2 * %s)" % devtxt(N, j, svj)))
            hs.append(("Dj3", "is_derive Uj3 x0 (Ub%d x0)" % j))
            for i in range(n):
                hs.append(("Db%d" % i, "is_derive Ub%d x0 %s" % (i, cutfn(fam, N, "h%d%d" % (i, j), svj))))
        else:
            hs.append(("Dk2", "is_derive Uk2 x0 (Up%d x0)" % j))
            hs.append(("Dk3", "is_derive Uk3 x0 (Ur%d x0)" % j))
            for i in range(n):
                hs.append(("Dp%d" % i, "is_derive Up%d x0 %s" % (i, cutfn(fam, N, "q%d%d" % (i, j), svj))))
                hs.append(("Dr%d" % i, "is_derive Ur%d x0 %s" % (i, cutfn(fam, N, "t%d%d" % (i, j), svj))))
        b += "".join("    %s ->\n" % t_ for (_n, t_) in hs)
        intro = "intros %s %s %s" % (" ".join("U" + nm for nm in fcuts(fam, N)), " ".join(svj + p), " ".join(nm for (nm, _t) in hs))
        return b, intro, j2, j3
    tac = "crit_%s" % kind
    for j in range(n):
        b, intro, j2, j3 = abs_binders(j)
        ent("Lemma %s_%d_absgrad_%d : %s    is_derive (fun x => %s) x0 (nthR %s %d)." % (
            X, N, j, b, absleaf(X, N, "val", j, "x"), absleaf(X, N, "nrm", j, "x0"), 1 + j))
        ent("Proof. %s. %s ltac:(lazy beta delta [%s_val_abs_%d %s_nrm_leaf_%d nthR nth] iota zeta) ltac:(unfold %s) %s %s. Qed." % (
            intro, tac, X, N, X, N, ccn, j2, j3))
        for i in range(n):
            ent("Lemma %s_%d_abshess_%d_%d : %s    is_derive (fun x => nthR %s %d) x0 (nthR %s %d)." % (
                X, N, i, j, b, absleaf(X, N, "snd", j, "x"), 1 + i, absleaf(X, N, "snd", j, "x0"), 1 + n + i * n + j))
            ent("Proof. %s. %s ltac:(lazy beta delta [%s_snd_leaf_%d nthR nth] iota zeta) ltac:(unfold %s) %s %s. Qed." % (
                intro, tac, X, N, ccn, j2, j3))
    ent("")
    # ---- instantiation
    allv = " ".join(sv + p)

    def inst(j):
        fs = " ".join("(fun x => %s)" % cutfn(fam, N, nm, sw(N, j, "x")) for nm in fcuts(fam, N))
        if fam == "iso":
            ds = ["(%s_dss_%d %s)" % (fam_pre, j, " ".join(sv)), "(%s_dj3_%d %s)" % (fam_pre, j, " ".join(sv))]
            ds += ["(%s_db%d_%d %s)" % (fam_pre, i, j, " ".join(sv)) for i in range(n)]
        else:
            cp = " ".join(sv + cutparams(fam))
            ds = ["(%s_dk2_%d %s)" % (fam_pre, j, cp), "(%s_dk3_%d %s)" % (fam_pre, j, cp)]
            for i in range(n):
                ds += ["(%s_dp%d_%d %s)" % (fam_pre, i, j, cp), "(%s_dr%d_%d %s)" % (fam_pre, i, j, cp)]
        return fs, " ".join(ds)
    dnos = dom(X, N, sv, False)
    hy = " -> ".join(t for (_n, t) in dnos)
    hn = " ".join(nm for (nm, _t) in dnos)
    for j in range(n):
        fs, ds = inst(j)
        ent("Lemma %s_%d_leafgrad_%d %s : %s ->\n  is_derive (fun x => %s) %s (nthR %s %d)." % (
            X, N, j, allv, hy, valabs(X, N, sw(N, j, "x")), sv[j], leaf(X, N, "nrm", sv), 1 + j))
        ent("Proof. intros %s. exact (%s_%d_absgrad_%d %s %s %s %s). Qed." % (hn, X, N, j, fs, allv, hn, ds))
        for i in range(n):
            ent("Lemma %s_%d_leafhess_%d_%d %s : %s ->\n  is_derive (fun x => nthR %s %d) %s (nthR %s %d)." % (
                X, N, i, j, allv, hy, leaf(X, N, "snd", sw(N, j, "x")), 1 + i, sv[j], leaf(X, N, "snd", sv), 1 + n + i * n + j))
            ent("Proof. intros %s. exact (%s_%d_abshess_%d_%d %s %s %s %s). Qed." % (hn, X, N, i, j, fs, allv, hn, ds))
    ent("")
    # ---- from the decision tree to the leaf
    d = dom(X, N, sv)
    h1 = d[0][1]
    for which in ("nrm", "snd"):
        ent("Lemma %s_%d_%s_at %s seps : %s ->\n  %s_%s_%d %s seps = Some %s." % (X, N, which, allv, h1, X, which, N, allv, leaf(X, N, which, sv)))
        ent("Proof. intro H1. tree_leaf ltac:(change (%s_%s_%d %s seps) with (%s_%s_fac_%d %s seps); unfold %s_%s_fac_%d, %s_%s_abs_%d)\n"
            "  ltac:(change (%s_val_%d %s) with (%s_val_fac_%d %s) in H1; unfold %s_val_fac_%d, %s_val_abs_%d in H1) H1. Qed." % (
                X, which, N, allv, X, which, N, allv, X, which, N, X, which, N, X, N, allv, X, N, allv, X, N, X, N))
    ent("Lemma %s_%d_val_fac %s : %s_val_%d %s = %s.\nProof. reflexivity. Qed." % (X, N, allv, X, N, allv, valabs(X, N, sv)))
    # the path condition holds near the point, in every direction
    for j in range(n):
        svx = sw(N, j, "x")
        h1x = dom(X, N, svx)[0][1]
        hyps = " -> ".join(t for (_n, t) in d)
        hnames = " ".join(nm for (nm, _t) in d)
        ent("Lemma %s_%d_near_%d %s seps : %s ->\n  locally %s (fun x => %s)." % (X, N, j, allv, hyps, sv[j], h1x))
        if kind == "S6":
            f = "(fun x => %s)" % J2txt(fam, N, svx)
            ent("Proof. intros %s. apply (locally_gt_ex %s); [ unfold %s_%s_%d; auto_derive; exact I | exact H1 ]. Qed." % (
                hnames, f, fam, J2n, N))
        else:
            ent("Proof. intros %s. apply (locally_gt_ex (fun x => %s_val_%d %s)); [ | exact H1 ].\n"
                "  exists (nthR %s %d). exact (%s_%d_leafgrad_%d %s HJ HA). Qed." % (
                    hnames, X, N, " ".join(svx + p), leaf(X, N, "nrm", sv), 1 + j, X, N, j, allv))
    ent("")
    # ---- final lemmas
    hyps = " -> ".join(t for (_n, t) in d)
    hnames = " ".join(nm for (nm, _t) in d)
    hnos = " ".join(nm for (nm, _t) in dnos)
    # same value / same normal
    ent("Lemma %s_%d_same_ok : %s_%d_same_stmt.\nProof.\n  unfold %s_%d_same_stmt. intros %s seps H1.\n"
        "  rewrite (%s_%d_nrm_at %s seps H1), (%s_%d_snd_at %s seps H1), (%s_%d_val_fac %s).\n"
        "  same_leaves ltac:(unfold %s_nrm_leaf_%d, %s_snd_leaf_%d, %s_val_abs_%d).\nQed." % (
            X, N, X, N, X, N, allv, X, N, allv, X, N, allv, X, N, allv, X, N, X, N, X, N))
    # gradient
    ent("Lemma %s_%d_grad_ok : %s_%d_grad_stmt.\nProof.\n  unfold %s_%d_grad_stmt. intros %s seps %s. unfold is_grad; cbv [all_upto]; side_split;\n"
        "  lazy beta delta [upd firstn skipn app nthR nth Nat.add] iota;\n  rewrite (%s_%d_nrm_at %s seps H1); lazy beta delta [out] iota." % (
            X, N, X, N, X, N, allv, hnames, X, N, allv))
    for j in range(n):
        ent("  - exact (%s_%d_leafgrad_%d %s %s)." % (X, N, j, allv, hnos))
    ent("Qed.")
    # hessian
    ent("Lemma %s_%d_hess_ok : %s_%d_hess_stmt.\nProof.\n  unfold %s_%d_hess_stmt. intros %s seps %s. unfold is_hess; cbv [all_upto]; side_split;\n"
        "  lazy beta delta [upd firstn skipn app nthR nth Nat.add Nat.mul] iota." % (X, N, X, N, X, N, allv, hnames))
    for i in range(n):
        for j in range(n):
            svx = sw(N, j, "x")
            ent("  - apply (is_derive_near _ (fun x => nth %d %s 0)).\n"
                "    + generalize (%s_%d_near_%d %s seps %s); apply filter_imp; intros x Hx;\n"
                "      rewrite (%s_%d_snd_at %s seps Hx); reflexivity.\n"
                "    + rewrite (%s_%d_snd_at %s seps H1). exact (%s_%d_leafhess_%d_%d %s %s)." % (
                    1 + i, leaf(X, N, "snd", svx), X, N, j, allv, hnames, X, N, " ".join(svx + p), X, N, allv, X, N, i, j, allv, hnos))
    ent("Qed.")
    # symmetry
    ent("Lemma %s_%d_sym_ok : %s_%d_sym_stmt.\nProof.\n  unfold %s_%d_sym_stmt. intros %s seps %s. rewrite (%s_%d_snd_at %s seps H1).\n"
        "  unfold is_sym; cbv [all_upto]; side_split; sym_entry ltac:(lazy beta delta [out %s_snd_leaf_%d nthR nth Nat.add Nat.mul] iota zeta) ltac:(unfold %s) %s %s.\nQed." % (
            X, N, X, N, X, N, allv, hnames, X, N, allv, X, N, ccn, J2txt(fam, N, sv), J3txt(fam, N, sv)))
    # homogeneity
    tv = ["(t * %s)" % s for s in sv]
    ent("Lemma %s_%d_hom_ok : %s_%d_hom_stmt.\nProof.\n  unfold %s_%d_hom_stmt. intros %s t Ht %s. rewrite !%s_%d_val_fac.\n"
        "  assert (E2 : %s = t * t * %s) by (unfold %s_%s_%d; poly_eq).\n"
        "  assert (E3 : %s = t * t * t * %s) by (unfold %s_%s_%d; poly_eq).\n"
        "  hom_%s ltac:(unfold %s_val_abs_%d) E2 E3.\nQed." % (
            X, N, X, N, X, N, allv, hnos, X, N,
            cutfn(fam, N, J2n, tv), cutfn(fam, N, J2n, sv), fam, J2n, N,
            cutfn(fam, N, J3n, tv), cutfn(fam, N, J3n, sv), fam, J3n, N, kind, X, N))
    open(os.path.join(COQ, "C22Inv_%s_%d.v" % (X, N)), "w").write("\n".join(o) + "\n")
    # ---- property file
    q = ["(* C22 -- %s (%s, ...Normal, ...SecondDerivative), N = %d: property theorems (statements in C22InvStatements.v, proofs in C22Inv_%s_%d.v over the" % (CR[X]["title"], CR[X]["fn"], N, X, N),
         "   definitions regenerated from /repo).  same: the three variants return the same value and the two derivative variants the",
         "   same normal; grad: the normal is the gradient of the value; hess: the second derivative is the Jacobian of the normal;",
         "   sym: it is symmetric; hom: the value is positively homogeneous of degree one. *)",
         HEAD + "From C22 Require Import C22InvSpec C22inv_gen C22InvStatements C22Inv_%s_%d.\nImport ListNotations.\nLocal Open Scope R_scope.\n" % (X, N)]
    for w in ("same", "grad", "hess", "sym", "hom"):
        q.append("Theorem C22_%s_%d_%s : %s_%d_%s_stmt.\nProof. exact %s_%d_%s_ok. Qed.\nPrint Assumptions C22_%s_%d_%s." % (X, N, w, X, N, w, X, N, w, X, N, w))
    open(os.path.join(COQ, "Properties_C22inv_%s_%d.v" % (X, N)), "w").write("\n".join(q) + "\n")


if __name__ == "__main__":
    statements()
    for N in (1, 2, 3):
        cutfile(N)
        for X in ORDER:
            critfile(X, N)

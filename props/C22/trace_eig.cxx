// C22: tracer (engine S) for the EIGEN-BASED criteria (Hosford 1972, Barlat 2004) and the von Mises stress.
//   trace_eig gen <out.v> <seed>
// Emitted definitions (regenerated from /repo at each run):
//   hos<a>_val_1 / _nrm_1 / _snd_1   the three PUBLIC Hosford functions on a 1D (diagonal) stress, integer exponent a = 2, 6, 8
//                                    (the eigen decomposition of stensor<1> is explicit; decision tree on seq < e);  the same
//                                    functions give psi, dpsi/dvp_i, d2psi/dvp_i dvp_j of the general case
//   bar<a>_val_1 / _nrm_1 / _snd_1   the PUBLIC Barlat functions in 1D with both linear transformations = the deviatoric
//                                    projector built by makeBarlatLinearTransformation<1>(1,..,1)
//   barS<a>                          computeBarlatStressSecondDerivative(vp1, vp2, seq, a): Phi and its first and second derivatives
//                                    with respect to the two sets of eigenvalues, all symbolic
//   hos_asm_2, hos_asm_3             internals::computeHosfordStressSecondDerivative (the assembly of the second derivative from the
//                                    eigen-data: dPsi/dvp, d2Psi/dvp2, eigenvalues, eigenvector matrix, tie threshold e), every
//                                    tie branch as a path condition
//   bar_cpl_2, bar_cpl_3             internals::completeBaralatStressSecondDerivative (the eigenvector terms, tie branches)
//   mises_1                          sigmaeq
// AGREE lines: Sym (long double evaluation of the selected leaf) against the double instantiation of the same functions.
#include "symtfel.hxx"
#include "TFEL/Math/stensor.hxx"
#include "TFEL/Math/st2tost2.hxx"
#include "TFEL/Math/tmatrix.hxx"
#include "TFEL/Material/Hosford1972YieldCriterion.hxx"
#include "TFEL/Material/Barlat2004YieldCriterion.hxx"
#include <cstring>
#include <iostream>

using namespace symv;
namespace tm_ = tfel::material;
using tfel::math::st2tost2;
using tfel::math::stensor;
using tfel::math::tmatrix;
using tfel::math::tvector;

template <unsigned short N>
constexpr unsigned short ssz = tfel::math::StensorDimeToSize<N>::value;

template <unsigned short N, typename T>
void push(std::vector<T>& r, const stensor<N, T>& s) {
  for (unsigned short i = 0; i < ssz<N>; ++i) r.push_back(s[i]);
}
template <unsigned short N, typename T>
void push(std::vector<T>& r, const st2tost2<N, T>& m) {
  for (unsigned short i = 0; i < ssz<N>; ++i)
    for (unsigned short j = 0; j < ssz<N>; ++j) r.push_back(m(i, j));
}

// ---- public Hosford functions, 1D, integer exponent
template <typename T>
std::vector<T> hosford1(int which, const std::vector<T>& s, int a, const T& e) {
  using S = stensor<1, T>;
  S sig;
  for (int i = 0; i < 3; ++i) sig[i] = s[i];
  std::vector<T> r;
  if (which == 0) {
    r.push_back(tm_::computeHosfordStress<S, int>(sig, a, e));
  } else if (which == 1) {
    auto [seq, n] = tm_::computeHosfordStressNormal<S, int>(sig, a, e);
    r.push_back(seq);
    push<1, T>(r, n);
  } else {
    auto [seq, n, dn] = tm_::computeHosfordStressSecondDerivative<S, int>(sig, a, e);
    r.push_back(seq);
    push<1, T>(r, n);
    push<1, T>(r, dn);
  }
  return r;
}
// ---- public Barlat functions, 1D, both transformations = makeBarlatLinearTransformation<1>(1,...,1)
template <typename T>
std::vector<T> barlat1(int which, const std::vector<T>& s, int a, const T& e) {
  using S = stensor<1, T>;
  S sig;
  for (int i = 0; i < 3; ++i) sig[i] = s[i];
  const T o(1);
  const auto l = tm_::makeBarlatLinearTransformation<1, T>(o, o, o, o, o, o, o, o, o);
  std::vector<T> r;
  if (which == 0) {
    r.push_back(tm_::computeBarlatStress<S, int>(sig, l, l, a, e));
  } else if (which == 1) {
    auto [seq, n] = tm_::computeBarlatStressNormal<S, int>(sig, l, l, a, e);
    r.push_back(seq);
    push<1, T>(r, n);
  } else {
    auto [seq, n, dn] = tm_::computeBarlatStressSecondDerivative<S, int>(sig, l, l, a, e);
    r.push_back(seq);
    push<1, T>(r, n);
    push<1, T>(r, dn);
  }
  return r;
}
// ---- Barlat: Phi and its derivatives with respect to the eigenvalues;  x = vp1[3] vp2[3] seq
template <typename T>
std::vector<T> barlatS(const std::vector<T>& x, int a) {
  using S = stensor<3, T>;
  tvector<3u, T> vp1{x[0], x[1], x[2]}, vp2{x[3], x[4], x[5]};
  const auto d = tm_::computeBarlatStressSecondDerivative<S, int>(vp1, vp2, x[6], a);
  std::vector<T> r;
  r.push_back(d.Phi);
  for (int i = 0; i < 3; ++i) r.push_back(d.dPhi_dsvp1[i]);
  for (int i = 0; i < 3; ++i) r.push_back(d.dPhi_dsvp2[i]);
  for (int i = 0; i < 6; ++i) r.push_back(d.d2Phi_dsvp12[i]);
  for (int i = 0; i < 6; ++i) r.push_back(d.d2Phi_dsvp22[i]);
  for (int i = 0; i < 9; ++i) r.push_back(d.d2Phi_dsvp1dsvp2[i]);
  return r;
}
template <typename T>
static tmatrix<3u, 3u, T> mat(const std::vector<T>& m, unsigned short N) {
  tmatrix<3u, 3u, T> r;
  for (unsigned short i = 0; i < 3; ++i)
    for (unsigned short j = 0; j < 3; ++j) r(i, j) = m[3 * i + j];
  if (N == 2) {  // plane tensors: third eigenvector is e_z
    r(0, 2) = r(1, 2) = r(2, 0) = r(2, 1) = T(0);
    r(2, 2) = T(1);
  }
  return r;
}
// ---- assembly of the Hosford second derivative;  x = g[3] d[6] vp[3] m[9] e
template <unsigned short N, typename T>
std::vector<T> hos_asm(const std::vector<T>& x) {
  using S = stensor<N, T>;
  tvector<3u, T> g{x[0], x[1], x[2]}, vp{x[9], x[10], x[11]};
  tvector<6u, T> d;
  for (int i = 0; i < 6; ++i) d[i] = x[3 + i];
  const auto m = mat<T>(std::vector<T>(x.begin() + 12, x.begin() + 21), N);
  const auto n = S::computeEigenTensors(m);
  st2tost2<N, T> r2;
  tm_::internals::computeHosfordStressSecondDerivative<S>(r2, g, d, std::get<0>(n), std::get<1>(n), std::get<2>(n), vp, m, x[21]);
  std::vector<T> r;
  push<N, T>(r, r2);
  return r;
}
// ---- Barlat: terms added for the derivatives of the eigenvectors (starting from zero);  same x
template <unsigned short N, typename T>
std::vector<T> bar_cpl(const std::vector<T>& x) {
  using S = stensor<N, T>;
  tvector<3u, T> g{x[0], x[1], x[2]}, vp{x[9], x[10], x[11]};
  tvector<6u, T> d;
  for (int i = 0; i < 6; ++i) d[i] = x[3 + i];
  const auto m = mat<T>(std::vector<T>(x.begin() + 12, x.begin() + 21), N);
  st2tost2<N, T> r2(T(0));
  tm_::internals::completeBaralatStressSecondDerivative<S>(r2, g, d, vp, m, x[21]);
  std::vector<T> r;
  push<N, T>(r, r2);
  return r;
}

static int nag = 0, nfail = 0;
static void cmp(const std::string& nm, int k, const std::vector<long double>& sy, const std::vector<double>& dv) {
  bool ok = sy.size() == dv.size();
  long double sc = 0;
  for (double x : dv) sc = std::max<long double>(sc, std::fabs(x));
  for (size_t i = 0; ok && i < dv.size(); ++i) ok = close(sy[i], dv[i], 1e-30L, 1e-10L) || std::fabs(sy[i] - dv[i]) <= 1e-11L * sc;
  std::printf("%s %s case %d\n", ok ? "AGREE" : "AGREE-FAIL", nm.c_str(), k);
  ok ? ++nag : ++nfail;
}

// the leaf taken for a generic stress above the threshold, as a straight-line definition
static void emit_leaf(Trace& tr, const std::string& name, const std::vector<Sym>& ps, const std::vector<Leaf>& ls) {
  Env ref;
  ref["s0"] = 100;
  ref["s1"] = -50;
  ref["s2"] = 30;
  ref["e"] = 1e-10;
  std::vector<long double> r;
  for (auto& L : ls) {
    bool ok = true;
    std::map<int, long double> memo;
    for (auto& c : L.conds) {
      long double x = eval_node(c.a, ref, memo), y = eval_node(c.b, ref, memo);
      bool v = c.rel == LT ? x < y : (c.rel == LE ? x <= y : x == y);
      if (v != c.value) ok = false;
    }
    if (ok) {
      tr.def(name, ps, L.out);
      return;
    }
  }
  throw SymError("no smooth leaf for " + name);
}

static std::vector<Sym> asm_vars(unsigned short N, std::vector<Sym>& x) {
  // parameters of the assembly functions; N = 2 has only the in-plane block of m
  std::vector<Sym> ps;
  for (auto& v : vars("g", 3)) ps.push_back(v);
  for (auto& v : vars("d", 6)) ps.push_back(v);
  for (auto& v : vars("l", 3)) ps.push_back(v);
  x = ps;
  auto m = vars("m", 9);
  for (int i = 0; i < 9; ++i) {
    x.push_back(m[i]);
    const bool inplane = (i == 0 || i == 1 || i == 3 || i == 4);
    if (N == 3 || inplane) ps.push_back(m[i]);
  }
  Sym e = var("e");
  x.push_back(e);
  ps.push_back(e);
  return ps;
}

// ---- substitution of DAG nodes (top-down), as in trace_inv.cxx: the eigen-tensors n_i = v_i (x) v_i and n_ij built by the library
// calls (computeEigenTensors, buildFromVectorsSymmetricDiadicProduct) are cut points of the assembly functions
static Sym subst(int id, const std::map<int, Sym>& m, std::map<int, Sym>& memo) {
  auto im = m.find(id);
  if (im != m.end()) return im->second;
  auto it = memo.find(id);
  if (it != memo.end()) return it->second;
  const Node n = Store::get().nodes[id];
  Sym r;
  if (n.op == VAR || n.op == CST || n.op == DCST) {
    r = from_node(id);
  } else if (n.b < 0) {
    Node q;
    q.op = n.op;
    q.a = node_of(subst(n.a, m, memo));
    r = from_node(Store::get().intern(q));
  } else {
    Node q;
    q.op = n.op;
    q.a = node_of(subst(n.a, m, memo));
    q.b = node_of(subst(n.b, m, memo));
    r = from_node(Store::get().intern(q));
  }
  memo[id] = r;
  return r;
}
struct Cuts {
  std::vector<std::pair<std::string, Sym>> cuts;
  std::vector<Sym> vars;
  std::map<int, Sym> fwd, back;
  void add(const std::string& nm, const Sym& e) {
    Sym v = var(nm);
    cuts.push_back({nm, e});
    vars.push_back(v);
    back[node_of(v)] = e;
    if (!e.isconst()) {
      const Node& n = Store::get().nodes[node_of(e)];
      if (n.op != VAR && n.op != CST && n.op != DCST) fwd.try_emplace(node_of(e), v);
    }
  }
};
template <unsigned short N>
Cuts asm_cuts(const std::vector<Sym>& x) {
  using S = stensor<N, Sym>;
  Cuts C;
  const auto m = mat<Sym>(std::vector<Sym>(x.begin() + 12, x.begin() + 21), N);
  const auto n = S::computeEigenTensors(m);
  const char* nm[3] = {"na", "nb", "nc"};
  const S* t[3] = {&std::get<0>(n), &std::get<1>(n), &std::get<2>(n)};
  for (int k = 0; k < 3; ++k)
    for (int r = 0; r < ssz<N>; ++r) C.add(nm[k] + std::to_string(r), Sym((*t[k])[r]));
  constexpr auto cste = tfel::math::Cste<Sym>::isqrt2;
  const tvector<3u, Sym> v0 = m.template column_view<0u>();
  const tvector<3u, Sym> v1 = m.template column_view<1u>();
  const tvector<3u, Sym> v2 = m.template column_view<2u>();
  const S n01 = S::buildFromVectorsSymmetricDiadicProduct(v0, v1) * cste;
  for (int r = 0; r < ssz<N>; ++r) C.add("np" + std::to_string(r), Sym(n01[r]));
  if constexpr (N == 3) {
    const S n02 = S::buildFromVectorsSymmetricDiadicProduct(v0, v2) * cste;
    const S n12 = S::buildFromVectorsSymmetricDiadicProduct(v1, v2) * cste;
    for (int r = 0; r < ssz<N>; ++r) C.add("nq" + std::to_string(r), Sym(n02[r]));
    for (int r = 0; r < ssz<N>; ++r) C.add("nr" + std::to_string(r), Sym(n12[r]));
  }
  return C;
}

// skeleton of a decision tree: the leaves are replaced by calls to separately printed leaf definitions <name>_leaf<k>
static void tree_sk(std::ostringstream& o, Printer& p, const std::vector<Leaf>& ls, size_t lo, size_t hi, size_t depth, int ind, const std::string& name,
                    const std::string& args) {
  std::string pad(ind, ' ');
  if (hi - lo == 1 && ls[lo].conds.size() == depth) {
    if (!ls[lo].error.empty()) o << pad << "None";
    else o << pad << "Some (" << name << "_leaf" << lo << args << ")";
    return;
  }
  size_t mid = lo;
  while (mid < hi && ls[mid].conds.size() > depth && ls[mid].conds[depth].value) ++mid;
  const Cond& c = ls[lo].conds.at(depth);
  o << pad << "if " << cond_str(p, c) << " then\n";
  tree_sk(o, p, ls, lo, mid, depth + 1, ind + 2, name, args);
  o << "\n" << pad << "else\n";
  if (mid == hi) throw SymError("decision tree: missing else branch");
  tree_sk(o, p, ls, mid, hi, depth + 1, ind + 2, name, args);
}
// mps: the parameters the cut quantities depend on (the entries of m); cutpre: prefix of their definitions
static void def_split(Trace& tr, const std::string& name, const std::vector<Sym>& ps, const std::vector<Leaf>& ls, const Cuts& C, const std::string& cutpre,
                      const std::vector<Sym>& mps) {
  std::vector<Sym> aps = ps;
  for (auto& v : C.vars) aps.push_back(v);
  std::string cutargs;
  for (auto& c : C.cuts) cutargs += " (" + cutpre + "_" + c.first + Trace::params(mps) + ")";
  for (size_t k = 0; k < ls.size(); ++k)
    if (ls[k].error.empty()) {
      const std::string nm = name + "_leaf" + std::to_string(k);
      tr.def(nm, ps, ls[k].out);
      // the same leaf with the eigen-tensors as parameters, and the composition
      std::map<int, Sym> memo;
      std::vector<Sym> ao;
      for (auto& o : ls[k].out) ao.push_back(subst(node_of(o), C.fwd, memo));
      tr.def(nm + "_abs", aps, ao);
      tr.raw("Definition " + nm + "_fac (" + Trace::params(ps) + " : R) : list R :=\n  " + nm + "_abs" + Trace::params(ps) + cutargs + ".\n\n");
      std::map<int, Sym> mb;
      bool ok = true;
      for (size_t i = 0; i < ao.size(); ++i) ok = ok && node_of(subst(node_of(ao[i]), C.back, mb)) == node_of(ls[k].out[i]);
      std::printf("%s %s\n", ok ? "FACTOR-OK" : "FACTOR-FAIL", nm.c_str());
    }
  Printer p;
  std::vector<int> roots;
  for (auto& L : ls)
    for (auto& c : L.conds) {
      roots.push_back(c.a);
      roots.push_back(c.b);
    }
  std::string l = p.lets(roots);
  std::ostringstream t;
  tree_sk(t, p, ls, 0, ls.size(), 0, 2, name, Trace::params(ps));
  tr.out << "(* the same tree with the leaves as separate definitions *)\nDefinition " << name << "_sk (" << Trace::params(ps) << " : R) : option (list R) :=\n"
         << l << t.str() << ".\n\n";
}

template <unsigned short N>
void gen_asm(Trace& tr, Rng& rng) {
  const std::string d = std::to_string(N);
  std::vector<Sym> x;
  const auto ps = asm_vars(N, x);
  auto lh = tr.def_paths("hos_asm_" + d, ps, [&] { return hos_asm<N, Sym>(x); });
  auto lb = tr.def_paths("bar_cpl_" + d, ps, [&] { return bar_cpl<N, Sym>(x); });
  const auto C = asm_cuts<N>(x);
  std::vector<Sym> mps;
  for (auto& v : ps) {
    const std::string& nm = Store::get().nodes[node_of(v)].name;
    if (nm[0] == 'm') mps.push_back(v);
  }
  for (auto& c : C.cuts) tr.def1("asm" + d + "_" + c.first, mps, c.second);
  def_split(tr, "hos_asm_" + d, ps, lh, C, "asm" + d, mps);
  def_split(tr, "bar_cpl_" + d, ps, lb, C, "asm" + d, mps);
  std::printf("SHAPE asm %d hos_leaves=%zu bar_leaves=%zu\n", int(N), lh.size(), lb.size());
  // agreement, including every tie pattern (exact ties and eigenvalues e/2 apart)
  for (int k = 0; k < 40; ++k) {
    Env env;
    std::vector<double> xv;
    for (int i = 0; i < 9; ++i) xv.push_back(rng.range(-2., 2.));
    double l[3] = {rng.range(-100., 100.), rng.range(-100., 100.), rng.range(-100., 100.)};
    const double e = 1e-3;
    const int pat = k % 8;  // 0: distinct; 1: 0=1; 2: 0=2; 3: 1=2; 4: all; 5,6,7: near ties (e/2 apart)
    if (pat == 1) l[1] = l[0];
    if (pat == 2) l[2] = l[0];
    if (pat == 3) l[2] = l[1];
    if (pat == 4) l[1] = l[2] = l[0];
    if (pat == 5) l[1] = l[0] + e / 2;
    if (pat == 6) l[2] = l[0] - e / 2;
    if (pat == 7) l[2] = l[1] + e / 2;
    for (int i = 0; i < 3; ++i) xv.push_back(l[i]);
    // a rotation-like matrix (need not be orthogonal: the assembly is algebraic in m)
    for (int i = 0; i < 9; ++i) xv.push_back(rng.range(-1., 1.));
    xv.push_back(e);
    if (N == 2) {
      xv[12 + 2] = xv[12 + 5] = xv[12 + 6] = xv[12 + 7] = 0;
      xv[12 + 8] = 1;
    }
    for (size_t i = 0; i < x.size(); ++i) env[Store::get().nodes[node_of(x[i])].name] = xv[i];
    std::vector<long double> r;
    if (eval_leaves(lh, env, r)) cmp("hos_asm_" + d, k, r, hos_asm<N, double>(xv));
    if (eval_leaves(lb, env, r)) cmp("bar_cpl_" + d, k, r, bar_cpl<N, double>(xv));
  }
}

void gen_scalar(Trace& tr, Rng& rng, int a) {
  const std::string A = std::to_string(a);
  auto s = vars("s", 3);
  Sym e = var("e");
  std::vector<Sym> pt = s;
  pt.push_back(e);
  auto h0 = tr.def_paths("hos" + A + "_val_1", pt, [&] { return hosford1<Sym>(0, s, a, e); });
  auto h1 = tr.def_paths("hos" + A + "_nrm_1", pt, [&] { return hosford1<Sym>(1, s, a, e); });
  auto h2 = tr.def_paths("hos" + A + "_snd_1", pt, [&] { return hosford1<Sym>(2, s, a, e); });
  auto b0 = tr.def_paths("bar" + A + "_val_1", pt, [&] { return barlat1<Sym>(0, s, a, e); });
  auto b1 = tr.def_paths("bar" + A + "_nrm_1", pt, [&] { return barlat1<Sym>(1, s, a, e); });
  auto b2 = tr.def_paths("bar" + A + "_snd_1", pt, [&] { return barlat1<Sym>(2, s, a, e); });
  for (auto& pr : std::vector<std::pair<std::string, const std::vector<Leaf>*>>{{"hos" + A + "_val", &h0}, {"hos" + A + "_nrm", &h1}, {"hos" + A + "_snd", &h2},
                                                                                {"bar" + A + "_val", &b0}, {"bar" + A + "_nrm", &b1}, {"bar" + A + "_snd", &b2}})
    emit_leaf(tr, pr.first + "_leaf_1", s, *pr.second);
  std::vector<Sym> xs;
  for (auto& v : vars("u", 3)) xs.push_back(v);
  for (auto& v : vars("w", 3)) xs.push_back(v);
  xs.push_back(var("q"));
  tr.def("barS" + A, xs, barlatS<Sym>(xs, a));
  std::printf("SHAPE scalar a=%d leaves=%zu,%zu,%zu,%zu,%zu,%zu\n", a, h0.size(), h1.size(), h2.size(), b0.size(), b1.size(), b2.size());
  for (int k = 0; k < 16; ++k) {
    Env env;
    std::vector<double> sv;
    for (int i = 0; i < 3; ++i) sv.push_back(rng.range(-100., 100.));
    if (k % 4 == 1) sv[1] = sv[0];  // ties
    if (k % 4 == 2) sv[2] = sv[0];
    if (k % 4 == 3) sv[2] = sv[1];
    const double ev = (k == 15) ? 1e6 : 1e-3;  // last case: below the threshold
    for (int i = 0; i < 3; ++i) env["s" + std::to_string(i)] = sv[i];
    env["e"] = ev;
    std::vector<long double> r;
    if (eval_leaves(h0, env, r)) cmp("hos" + A + "_val_1", k, r, hosford1<double>(0, sv, a, ev));
    if (eval_leaves(h1, env, r)) cmp("hos" + A + "_nrm_1", k, r, hosford1<double>(1, sv, a, ev));
    if (eval_leaves(h2, env, r)) cmp("hos" + A + "_snd_1", k, r, hosford1<double>(2, sv, a, ev));
    if (eval_leaves(b0, env, r)) cmp("bar" + A + "_val_1", k, r, barlat1<double>(0, sv, a, ev));
    if (eval_leaves(b1, env, r)) cmp("bar" + A + "_nrm_1", k, r, barlat1<double>(1, sv, a, ev));
    if (eval_leaves(b2, env, r)) cmp("bar" + A + "_snd_1", k, r, barlat1<double>(2, sv, a, ev));
    // Barlat scalar function
    Env e2;
    std::vector<double> xv;
    const char* nm[7] = {"u0", "u1", "u2", "w0", "w1", "w2", "q"};
    for (int i = 0; i < 7; ++i) {
      xv.push_back(i == 6 ? rng.range(20., 200.) : rng.range(-100., 100.));
      if (k % 4 == 1 && i == 3) xv[3] = xv[0];  // an eigenvalue of s' equal to one of s''
      e2[nm[i]] = xv.back();
    }
    std::vector<long double> rs;
    for (auto& o : barlatS<Sym>(xs, a)) rs.push_back(eval(o, e2));
    cmp("barS" + A, k, rs, barlatS<double>(xv, a));
  }
}

int main(int argc, char** argv) {
  if (argc >= 3 && !std::strcmp(argv[1], "gen")) {
    Trace tr("C22eig_gen");
    Rng rng(argc >= 4 ? std::strtoull(argv[3], nullptr, 10) : 1);
    for (int a : {2, 6, 8}) gen_scalar(tr, rng, a);
    {
      auto s = vars("s", 3);
      stensor<1, Sym> sig;
      for (int i = 0; i < 3; ++i) sig[i] = s[i];
      tr.def1("mises_1", s, tfel::math::sigmaeq(sig));
    }
    gen_asm<2>(tr, rng);
    gen_asm<3>(tr, rng);
    tr.write(argv[2]);
    std::printf("SUMMARY agree=%d fail=%d\n", nag, nfail);
    return 0;
  }
  std::fprintf(stderr, "usage: trace_eig gen <out.v> <seed>\n");
  return 2;
}

(* C09 -- bracket confinement; holds for the repaired getNextRootEstimate (variant NaNSafe).  Used by the check
   when /repo implements that variant. *)
From Coq Require Import List ZArith Bool.
From C09 Require Import C09Model C09Spec C09Confine C09ER.

(* with a finite bracket whose end values are finite and of different signs, every evaluation of f after the three
   initial ones lies in the bracket -- for every scalar type satisfying `laws`, every f (derivative data
   arbitrary: zero, infinite, NaN), every criterion, every budget *)
Theorem C09_confined : forall (F : Type) (o : ops F), laws o -> forall f c (p : params),
  valid_bracket o f (xmin0 p) (xmax0 p) ->
  confined o (xmin0 p) (xmax0 p) (scalar_newton_raphson o NaNSafe f c p).
Proof. exact @snr_confined. Qed.
Print Assumptions C09_confined.

(* instance without hypothesis on the scalar type: exact arithmetic with infinities and NaN *)
Theorem C09_confined_exact : forall f c (p : params),
  valid_bracket er_ops f (xmin0 p) (xmax0 p) ->
  confined er_ops (xmin0 p) (xmax0 p) (scalar_newton_raphson er_ops NaNSafe f c p).
Proof. exact (snr_confined er_ops er_laws). Qed.
Print Assumptions C09_confined_exact.

(* C09 -- the pinned getNextRootEstimate does not confine the estimates: two witnesses on binary64
   (Coq primitive floats, computation by vm_compute is bit-exact IEEE-754). *)
From Coq Require Import Floats List ZArith Bool.
From C09 Require Import C09Model C09Spec C09Float.
Import ListNotations.
Open Scope float_scope.

(* F9-a: bracket [0,1], f = (x <= 0 ? 0 : 5e-321), f' = 0: the secant estimate is 0 - inf*0 = NaN and
   (NaN < xmin) || (NaN > xmax) is false *)
Definition tiny := 0x0.00000000003f4p-1022.
Definition f_a := pw [(0, [0], [0])] [tiny] [0].
Definition p_a : params := {| x0 := 0.5; im := 10; xmin0 := 0; xmax0 := 1 |}.
(* F9-b: bracket [1e308, 1.7e308], f = (x <= 1.3e308 ? -0.01 : 0.01), f' = 0: the inverse slope overflows, the
   secant estimate is +inf > xmax, and the fallback (xmin + xmax) / 2 overflows to +inf *)
Definition A := 0x1.1ccf385ebc8ap+1023.
Definition B := 0x1.e42d130773b76p+1023.
Definition f_b := pw [(0x1.72409614c1e6ap+1023, [-0x1.47ae147ae147bp-7], [0])] [0x1.47ae147ae147bp-7] [0].
Definition p_b : params := {| x0 := A; im := 5; xmin0 := A; xmax0 := B |}.
Definition never (_ _ _ : float) (_ : nat) := false.

Lemma valid_a : valid_bracket fops f_a 0 1.
Proof. unfold valid_bracket. vm_compute. repeat split; auto; discriminate. Qed.
Lemma valid_b : valid_bracket fops f_b A B.
Proof. unfold valid_bracket. vm_compute. repeat split; auto; discriminate. Qed.

Lemma escape_a : ~ confined fops 0 1 (scalar_newton_raphson fops Pinned f_a never p_a).
Proof.
  intro H. unfold confined in H.
  assert (E : In nan (let '(_, _, _, calls) := scalar_newton_raphson fops Pinned f_a never p_a in
                      firstn (length calls - 3) calls)) by (vm_compute; left; reflexivity).
  destruct (scalar_newton_raphson fops Pinned f_a never p_a) as [[[? ?] ?] calls].
  destruct (H nan E) as [H1 _]. vm_compute in H1. discriminate.
Qed.
Lemma escape_b : ~ confined fops A B (scalar_newton_raphson fops Pinned f_b never p_b).
Proof.
  intro H. unfold confined in H.
  assert (E : In infinity (let '(_, _, _, calls) := scalar_newton_raphson fops Pinned f_b never p_b in
                           firstn (length calls - 3) calls)) by (vm_compute; left; reflexivity).
  destruct (scalar_newton_raphson fops Pinned f_b never p_b) as [[[? ?] ?] calls].
  destruct (H infinity E) as [_ H2]. vm_compute in H2. discriminate.
Qed.
(* the repaired variant confines both *)
Lemma repaired_a : confined fops 0 1 (scalar_newton_raphson fops NaNSafe f_a never p_a).
Proof. vm_compute. intros x H. repeat (destruct H as [H|H]; [subst x; split; reflexivity|]). destruct H. Qed.
Lemma repaired_b : confined fops A B (scalar_newton_raphson fops NaNSafe f_b never p_b).
Proof. vm_compute. intros x H. repeat (destruct H as [H|H]; [subst x; split; reflexivity|]). destruct H. Qed.

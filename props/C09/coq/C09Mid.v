(* C09 -- binary64 (Flocq): the repaired midpoint  xmin/2 + xmax/2  of two finite doubles xmin < xmax is finite and
   lies in [xmin, xmax].  Part 1: real-number lemma on the format FLT(emin = -1074, prec = 53) with rounding to nearest
   (any tie-breaking rule). *)
From Coq Require Import ZArith Reals Lra Lia.
From Flocq Require Import Core.Core.
Local Open Scope R_scope.

Section Mid.
  Variables emin prec : Z.
  Context (prec_gt_0_ : Prec_gt_0 prec).
  Variable choice : Z -> bool.
  Notation fexp := (FLT_exp emin prec).
  Notation format := (generic_format radix2 fexp).
  Notation rnd := (round radix2 fexp (Znearest choice)).
  Notation u := (bpow radix2 emin).

  (* every number of the format is an integer multiple of the smallest subnormal *)
  Lemma format_multiple x : format x -> exists k : Z, x = IZR k * u.
  Proof.
    intros Hx. apply FLT_format_generic in Hx; [|assumption]. destruct Hx as [[m e] Hx _ He]. cbn [Fexp] in He.
    exists (m * Zpower radix2 (e - emin))%Z. rewrite Hx. unfold F2R. cbn [Fnum Fexp].
    rewrite mult_IZR, IZR_Zpower by lia. rewrite Rmult_assoc, <- bpow_plus. f_equal. f_equal. ring.
  Qed.

  (* halving is exact except on odd multiples of u, where the error is u/2 *)
  Lemma half_error x : format x -> Rabs (rnd (x / 2) - x / 2) <= u / 2.
  Proof.
    intros Hx. apply FLT_format_generic in Hx; [|assumption]. destruct Hx as [[m e] Hx Hm He]. cbn [Fnum Fexp] in Hm, He.
    destruct (Z.eq_dec e emin) as [E|E].
    - (* |x/2| < 2^(emin+prec): ulp = u *)
      assert (Hs : Rabs (x / 2) < bpow radix2 (emin + prec)).
      { rewrite Hx. unfold F2R. cbn [Fnum Fexp]. rewrite E. unfold Rdiv. rewrite !Rabs_mult.
        rewrite (Rabs_pos_eq (bpow radix2 emin)) by apply bpow_ge_0. rewrite (Rabs_pos_eq (/ 2)) by lra.
        rewrite bpow_plus, <- abs_IZR. apply IZR_lt in Hm. rewrite IZR_Zpower in Hm by (unfold Prec_gt_0 in *; lia).
        pose proof (bpow_gt_0 radix2 emin). pose proof (bpow_gt_0 radix2 prec). pose proof (Rabs_pos (IZR m)).
        rewrite abs_IZR in *. nra. }
      pose proof (error_le_half_ulp radix2 fexp choice (x / 2)) as H.
      rewrite (ulp_FLT_small radix2 emin prec) in H by assumption. lra.
    - (* x/2 is in the format *)
      assert (Hf : format (x / 2)).
      { apply generic_format_FLT. apply FLT_spec with (Float radix2 m (e - 1)); simpl; [|assumption|lia].
        rewrite Hx. unfold F2R. cbn [Fnum Fexp]. unfold Zminus. rewrite bpow_plus. replace (bpow radix2 (- (1))) with (/ 2) by (simpl; lra). field. }
      rewrite round_generic by (auto with typeclass_instances). 
      replace (x / 2 - x / 2) with 0 by ring. rewrite Rabs_R0. pose proof (bpow_gt_0 radix2 emin). lra.
  Qed.

  Lemma mid_real a b : format a -> format b -> a < b ->
    a <= rnd (rnd (a / 2) + rnd (b / 2)) <= b.
  Proof.
    intros Ha Hb Hab.
    pose proof (half_error a Ha) as Ea. pose proof (half_error b Hb) as Eb.
    assert (Fa : format (rnd (a / 2))) by (apply generic_format_round; auto with typeclass_instances).
    assert (Fb : format (rnd (b / 2))) by (apply generic_format_round; auto with typeclass_instances).
    destruct (format_multiple a Ha) as [ka Ka]. destruct (format_multiple b Hb) as [kb Kb].
    destruct (format_multiple _ Fa) as [ja Ja]. destruct (format_multiple _ Fb) as [jb Jb].
    pose proof (bpow_gt_0 radix2 emin) as Hu.
    set (ha := rnd (a / 2)) in *. set (hb := rnd (b / 2)) in *.
    apply Rabs_le_inv in Ea. apply Rabs_le_inv in Eb.
    (* b - a >= u *)
    assert (Hk : (ka + 1 <= kb)%Z).
    { assert (IZR ka < IZR kb) by (apply Rmult_lt_reg_r with u; [assumption | lra]). apply lt_IZR in H. lia. }
    assert (Hd : a + u <= b). { rewrite Ka, Kb. apply IZR_le in Hk. rewrite plus_IZR in Hk. nra. }
    (* ha + hb, a and b are multiples of u; ha + hb is within u/2 + u/2 of (a+b)/2 *)
    assert (H1 : (ka <= ja + jb)%Z).
    { assert (IZR ka - 1 < IZR (ja + jb)); [|apply Z.lt_succ_r; apply lt_IZR; rewrite succ_IZR; lra].
      rewrite plus_IZR. apply Rmult_lt_reg_r with u; [assumption|]. nra. }
    assert (H2 : (ja + jb <= kb)%Z).
    { assert (IZR (ja + jb) < IZR kb + 1); [|apply Z.lt_succ_r; apply lt_IZR; rewrite succ_IZR; lra].
      rewrite plus_IZR. apply Rmult_lt_reg_r with u; [assumption|]. nra. }
    apply IZR_le in H1, H2. rewrite plus_IZR in H1, H2.
    split.
    - apply round_ge_generic; auto with typeclass_instances. rewrite Ja, Jb, Ka. nra.
    - apply round_le_generic; auto with typeclass_instances. rewrite Ja, Jb, Kb. nra.
  Qed.

  (* when halving both ends is exact (in particular for a = b not an odd multiple of u) *)
  Lemma mid_real_exact a b : format a -> format b -> a <= b -> format (a / 2) -> format (b / 2) ->
    a <= rnd (rnd (a / 2) + rnd (b / 2)) <= b.
  Proof.
    intros Ha Hb Hab Ha2 Hb2. rewrite !(round_generic radix2 fexp (Znearest choice) (_ / 2)) by assumption.
    split; [apply round_ge_generic | apply round_le_generic]; auto with typeclass_instances; lra.
  Qed.
End Mid.

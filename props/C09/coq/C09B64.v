(* C09 -- binary64: the laws of C09Spec.laws hold for the very table of operations `fops` (Coq primitive floats) on which
   the model is executed against the real code.  Flocq's IEEE754.PrimFloat relates the primitive operations to
   BinarySingleNaN's binary_float 53 1024 (through Coq's FloatAxioms), whose operations are specified on real numbers. *)
From Coq Require Import ZArith Reals Lra Lia Bool Floats.
From Flocq Require Import Core.Core IEEE754.BinarySingleNaN IEEE754.PrimFloat.
From C09 Require Import C09Model C09Spec C09Float C09Mid.

#[local] Existing Instance Hprec.
#[local] Existing Instance Hmax.
Notation b64 := (binary_float prec emax).
Notation B2R64 := (B2R (prec := prec) (emax := emax)).
Notation fmt64 := (generic_format radix2 (FLT_exp (-1074) 53)).
Notation rne := (round radix2 (FLT_exp (-1074) 53) ZnearestE).

Definition Btwo : b64 := Prim2B 2%float.
Lemma Btwo_R : B2R Btwo = 2%R.
Proof. unfold Btwo, Prim2B. rewrite B2R_SF2B. vm_compute Prim2SF. unfold SF2R, F2R; simpl. lra. Qed.
Lemma Btwo_finite : is_finite Btwo = true.
Proof. unfold Btwo, Prim2B. rewrite is_finite_SF2B. reflexivity. Qed.

Lemma fmt_B2R (x : b64) : fmt64 (B2R x).
Proof. exact (generic_format_B2R prec emax x). Qed.

Lemma abs_between (a x b : R) : (a <= x <= b)%R -> (Rabs x <= Rmax (Rabs a) (Rabs b))%R.
Proof. intros H. unfold Rmax, Rabs. destruct Rle_dec; repeat destruct Rcase_abs; lra. Qed.

(* x / 2 never overflows and is finite *)
Lemma Bhalf (x : b64) : is_finite x = true ->
  is_finite (Bdiv mode_NE x Btwo) = true /\ B2R (Bdiv mode_NE x Btwo) = rne (B2R x / 2).
Proof.
  intros Fx. pose proof (Bdiv_correct prec emax Hprec Hmax mode_NE x Btwo) as H. rewrite Btwo_R in H.
  specialize (H ltac:(lra)).
  rewrite Rlt_bool_true in H.
  - destruct H as [H1 [H2 _]]. rewrite H2. split; [assumption | exact H1].
  - apply Rle_lt_trans with (Rabs (B2R x)); [|apply abs_B2R_lt_emax].
    apply (abs_round_le_generic radix2 (fexp prec emax) ZnearestE).
    + apply generic_format_abs. apply fmt_B2R.
    + unfold Rdiv. rewrite Rabs_mult. rewrite (Rabs_pos_eq (/ 2)) by lra. pose proof (Rabs_pos (B2R x)). lra.
Qed.

(* the midpoint, on real values *)
Lemma Bmid_gen (a b : b64) : is_finite a = true -> is_finite b = true ->
  (B2R a <= rne (rne (B2R a / 2) + rne (B2R b / 2)) <= B2R b)%R ->
  let m := Bplus mode_NE (Bdiv mode_NE a Btwo) (Bdiv mode_NE b Btwo) in
  is_finite m = true /\ (B2R a <= B2R m <= B2R b)%R.
Proof.
  intros Fa Fb Hr m. destruct (Bhalf a Fa) as [Fha Ra]. destruct (Bhalf b Fb) as [Fhb Rb].
  pose proof (Bplus_correct prec emax Hprec Hmax mode_NE _ _ Fha Fhb) as H. rewrite Ra, Rb in H.
  rewrite Rlt_bool_true in H.
  - destruct H as [H1 [H2 _]]. fold m in H1, H2. rewrite H1. split; assumption.
  - apply Rle_lt_trans with (Rmax (Rabs (B2R a)) (Rabs (B2R b))).
    + apply abs_between. exact Hr.
    + apply Rmax_lub_lt; apply abs_B2R_lt_emax.
Qed.

Lemma Bmid_lt (a b : b64) : is_finite a = true -> is_finite b = true -> (B2R a < B2R b)%R ->
  let m := Bplus mode_NE (Bdiv mode_NE a Btwo) (Bdiv mode_NE b Btwo) in
  is_finite m = true /\ (B2R a <= B2R m <= B2R b)%R.
Proof.
  intros Fa Fb Hab. apply Bmid_gen; try assumption.
  exact (mid_real (-1074) 53 Hprec (fun x => negb (Z.even x)) _ _ (fmt_B2R a) (fmt_B2R b) Hab).
Qed.

Lemma Bmid_zero (a b : b64) : is_finite a = true -> is_finite b = true -> B2R a = 0%R -> B2R b = 0%R ->
  let m := Bplus mode_NE (Bdiv mode_NE a Btwo) (Bdiv mode_NE b Btwo) in
  is_finite m = true /\ (B2R a <= B2R m <= B2R b)%R.
Proof.
  intros Fa Fb Za Zb. apply Bmid_gen; try assumption. rewrite Za, Zb.
  unfold Rdiv. rewrite Rmult_0_l, round_0 by (auto with typeclass_instances).
  rewrite Rplus_0_l, round_0 by (auto with typeclass_instances). lra.
Qed.

(* two different finite doubles with the same real value are the two zeros *)
Lemma same_value_zero (a b : b64) : is_finite a = true -> is_finite b = true -> a <> b -> B2R a = B2R b -> B2R a = 0%R.
Proof.
  intros Fa Fb Hne E.
  destruct a as [sa|sa| |sa ma ea Ha]; try discriminate Fa; [reflexivity|].
  destruct b as [sb|sb| |sb mb eb Hb]; try discriminate Fb; [exact E|].
  exfalso. apply Hne. apply B2R_Bsign_inj; try assumption. simpl.
  simpl in E. destruct sa, sb; try reflexivity; exfalso.
  - assert (F2R (Float radix2 (cond_Zopp true (Z.pos ma)) ea) < 0)%R by (apply F2R_lt_0; simpl; lia).
    assert (0 < F2R (Float radix2 (cond_Zopp false (Z.pos mb)) eb))%R by (apply F2R_gt_0; simpl; lia). lra.
  - assert (F2R (Float radix2 (cond_Zopp true (Z.pos mb)) eb) < 0)%R by (apply F2R_lt_0; simpl; lia).
    assert (0 < F2R (Float radix2 (cond_Zopp false (Z.pos ma)) ea))%R by (apply F2R_gt_0; simpl; lia). lra.
Qed.

(* ---- order laws on binary_float *)
Lemma Blt_le (a b : b64) : Bltb a b = true -> Bleb a b = true.
Proof. unfold Bltb, Bleb, SpecFloat.SFltb, SpecFloat.SFleb. destruct SpecFloat.SFcompare as [[]|]; congruence. Qed.

Lemma Bnlt_le (a b : b64) : is_finite a = true -> is_finite b = true -> Bltb a b = false -> Bleb b a = true.
Proof.
  intros Fa Fb. rewrite Bltb_correct, Bleb_correct by assumption.
  destruct (Rlt_bool_spec (B2R a) (B2R b)); [discriminate|]. intros _. apply Rle_bool_true. assumption.
Qed.

Lemma Bleb_not_nan_l (a b : b64) : Bleb a b = true -> is_nan a = false /\ is_nan b = false.
Proof. destruct a as [?|[]| |[] ? ? ?], b as [?|[]| |[] ? ? ?]; cbn; auto; discriminate. Qed.

Lemma Bleb_trans (a b c : b64) : Bleb a b = true -> Bleb b c = true -> Bleb a c = true.
Proof.
  destruct (is_finite a) eqn:Fa; destruct (is_finite b) eqn:Fb; destruct (is_finite c) eqn:Fc.
  - rewrite !Bleb_correct by assumption. intros H1 H2.
    apply Rle_bool_true. apply Rle_trans with (B2R b).
    + destruct (Rle_bool_spec (B2R a) (B2R b)); [assumption|discriminate].
    + destruct (Rle_bool_spec (B2R b) (B2R c)); [assumption|discriminate].
  - destruct a as [?|[]| |[] ? ? ?], b as [?|[]| |[] ? ? ?], c as [?|[]| |[] ? ? ?]; try discriminate; cbn; auto.
  - destruct a as [?|[]| |[] ? ? ?], b as [?|[]| |[] ? ? ?], c as [?|[]| |[] ? ? ?]; try discriminate; cbn; auto.
  - destruct a as [?|[]| |[] ? ? ?], b as [?|[]| |[] ? ? ?], c as [?|[]| |[] ? ? ?]; try discriminate; cbn; auto.
  - destruct a as [?|[]| |[] ? ? ?], b as [?|[]| |[] ? ? ?], c as [?|[]| |[] ? ? ?]; try discriminate; cbn; auto.
  - destruct a as [?|[]| |[] ? ? ?], b as [?|[]| |[] ? ? ?], c as [?|[]| |[] ? ? ?]; try discriminate; cbn; auto.
  - destruct a as [?|[]| |[] ? ? ?], b as [?|[]| |[] ? ? ?], c as [?|[]| |[] ? ? ?]; try discriminate; cbn; auto.
  - destruct a as [?|[]| |[] ? ? ?], b as [?|[]| |[] ? ? ?], c as [?|[]| |[] ? ? ?]; try discriminate; cbn; auto.
Qed.

Lemma Bleb_refl (a : b64) : is_finite a = true -> Bleb a a = true.
Proof. intros Fa. rewrite Bleb_correct by assumption. apply Rle_bool_true. apply Rle_refl. Qed.

(* ---- the laws for the table of primitive-float operations *)
Lemma fops_isfinite x : isfinite fops x = is_finite (Prim2B x).
Proof. exact (is_finite_equiv x). Qed.

Lemma two_equiv' : Prim2B (two fops) = Btwo.
Proof. reflexivity. Qed.

Lemma fops_laws : laws fops.
Proof.
  constructor.
  - intros a b. cbn [ltb leb fops]. rewrite ltb_equiv, leb_equiv. apply Blt_le.
  - intros a b. rewrite !fops_isfinite. cbn [ltb leb fops]. rewrite ltb_equiv, leb_equiv. apply Bnlt_le.
  - intros a b c. cbn [leb fops]. rewrite !leb_equiv. apply Bleb_trans.
  - intros a. rewrite fops_isfinite. cbn [leb fops]. rewrite leb_equiv. apply Bleb_refl.
  - intros a. rewrite fops_isfinite. cbn [isnan fops]. rewrite is_nan_equiv. destruct (Prim2B a); cbn; congruence.
  - reflexivity.
  - intros a b. rewrite !fops_isfinite. cbn [leb add div two fops]. intros Fa Fb Hle Hne.
    rewrite !leb_equiv, add_equiv, !div_equiv. fold Btwo.
    rewrite leb_equiv in Hle.
    assert (Hne' : Prim2B a <> Prim2B b) by (intros E; apply Hne; apply Prim2B_inj; exact E).
    rewrite Bleb_correct in Hle by assumption.
    destruct (Rle_bool_spec (B2R (Prim2B a)) (B2R (Prim2B b))) as [Hr|]; [|discriminate].
    assert (H : let m := Bplus mode_NE (Bdiv mode_NE (Prim2B a) Btwo) (Bdiv mode_NE (Prim2B b) Btwo) in
                is_finite m = true /\ (B2R (Prim2B a) <= B2R m <= B2R (Prim2B b))%R).
    { destruct Hr as [Hlt|Heq].
      - apply Bmid_lt; assumption.
      - apply Bmid_zero; try assumption.
        + eapply same_value_zero; eauto.
        + rewrite <- Heq. eapply same_value_zero; eauto. }
    cbv zeta in H. destruct H as [Fm [H1 H2]].
    rewrite !Bleb_correct by assumption. split; apply Rle_bool_true; assumption.
Qed.

(* ---- what holds for the midpoint and the range test, stated on primitive floats *)
Open Scope float_scope.
Notation pfloat := Coq.Floats.PrimFloat.float.
Notation pfinite := Coq.Floats.PrimFloat.is_finite.

(* finite xmin < xmax: the repaired midpoint xmin/2 + xmax/2 is finite and xmin <= xmin/2 + xmax/2 <= xmax (all subnormal cases included) *)
Lemma prim_mid (b : bstate) : pfinite (C09Model.xmin b) = true -> pfinite (C09Model.xmax b) = true ->
  (C09Model.xmin b <? C09Model.xmax b) = true ->
  let m := midpoint fops NaNSafe b in pfinite m = true /\ (C09Model.xmin b <=? m) = true /\ (m <=? C09Model.xmax b) = true.
Proof.
  destruct b as [a fa b fb]. cbn [C09Model.xmin C09Model.xmax midpoint add div two fops].
  intros Fa Fb Hlt. cbv zeta. rewrite is_finite_equiv in *. rewrite ltb_equiv in Hlt.
  rewrite !leb_equiv, add_equiv, !div_equiv. fold Btwo.
  rewrite Bltb_correct in Hlt by assumption.
  destruct (Rlt_bool_spec (B2R (Prim2B a)) (B2R (Prim2B b))) as [Hr|]; [|discriminate].
  destruct (Bmid_lt _ _ Fa Fb Hr) as [Fm [H1 H2]].
  rewrite !Bleb_correct by assumption. repeat split; try assumption; apply Rle_bool_true; assumption.
Qed.

(* equal ends: the midpoint leaves the (degenerate) interval exactly when halving is inexact, e.g. for the smallest subnormal *)
Definition denorm_min := 0x1p-1074.
Definition same_ends (a : pfloat) : bstate := {| xmin := a; fmin := 0; xmax := a; fmax := 0 |}.
Lemma mid_equal_ends_escape :
  midpoint fops NaNSafe (same_ends denorm_min) = zero fops /\
  leb fops denorm_min (midpoint fops NaNSafe (same_ends denorm_min)) = false /\
  leb fops (midpoint fops NaNSafe (same_ends 0x3p-1074)) 0x3p-1074 = false.
Proof. vm_compute. auto. Qed.

(* the NaN-safe range test  !((x >= xmin) && (x <= xmax))  with finite ends accepts x exactly when x is a finite number
   with xmin <= x <= xmax as real numbers: NaN, the infinities and every value outside are rejected *)
Lemma range_test (xmin xmax x : pfloat) : pfinite xmin = true -> pfinite xmax = true ->
  (out_of_range fops NaNSafe {| xmin := xmin; fmin := 0; xmax := xmax; fmax := 0 |} x = false <->
   pfinite x = true /\ (B2R (Prim2B xmin) <= B2R (Prim2B x) <= B2R (Prim2B xmax))%R).
Proof.
  intros F1 F2. unfold out_of_range. cbn [C09Model.xmin C09Model.xmax leb fops]. rewrite is_finite_equiv in *.
  rewrite !leb_equiv, negb_false_iff, andb_true_iff. split.
  - intros [H1 H2].
    assert (Fx : is_finite (Prim2B x) = true).
    { destruct (Prim2B xmin) as [?|[]| |[] ? ? ?], (Prim2B x) as [?|[]| |[] ? ? ?], (Prim2B xmax) as [?|[]| |[] ? ? ?];
        try discriminate; reflexivity. }
    rewrite Bleb_correct in H1, H2 by assumption.
    destruct (Rle_bool_spec (B2R (Prim2B xmin)) (B2R (Prim2B x))); [|discriminate].
    destruct (Rle_bool_spec (B2R (Prim2B x)) (B2R (Prim2B xmax))); [|discriminate]. auto.
  - intros [Fx [H1 H2]]. rewrite !Bleb_correct by assumption. split; apply Rle_bool_true; assumption.
Qed.
Lemma range_test_nan (b : bstate) : out_of_range fops NaNSafe b nan = true.
Proof. unfold out_of_range. cbn [leb fops]. rewrite leb_equiv. destruct (Prim2B (C09Model.xmin b)) as [?|[]| |[] ? ? ?]; reflexivity. Qed.

(* C09 -- specification of "the scalar Newton-bisection root finder is sound, bounded and bracket-confined",
   stated on the observable behaviour (returned triple and the list of points at which the user function was
   evaluated) independently of how the algorithm is written.  Only the signature of the scalar operations
   (record `ops`) is shared with the model. *)
From Coq Require Import List ZArith Bool Arith.
From C09 Require Import C09Model.
Import ListNotations.

Section Spec.
  Context {F : Type} (o : ops F).
  Variable f : F -> F * F.
  Variable c : F -> F -> F -> nat -> bool.

  (* observable result: converged flag, returned root, iteration counter, evaluation points (most recent first) *)
  Definition obs := (bool * F * nat * list F)%type.

  (* (1) a claimed convergence is genuine *)
  Definition sound (r : obs) : Prop :=
    let '(conv, x, i, calls) := r in
    conv = true ->
    o.(isfinite) x = true /\ o.(isfinite) (fst (f x)) = true /\
    (exists dx, c (fst (f x)) dx x i = true) /\ In x calls.

  (* (2) the iteration budget is respected; at most two evaluations per iteration plus the three initial ones *)
  Definition within_budget (im : nat) (r : obs) : Prop :=
    let '(_, _, i, calls) := r in i <= im /\ length calls <= 3 + 2 * im.

  (* (3) bracket confinement *)
  Definition sign (a : F) : Z :=
    ((if o.(ltb) o.(zero) a then 1 else 0) - (if o.(ltb) a o.(zero) then 1 else 0))%Z.
  (* a finite bracket with finite function values of different signs (a zero value at one end counts) *)
  Definition valid_bracket (a b : F) : Prop :=
    o.(isfinite) a = true /\ o.(isfinite) b = true /\
    o.(isfinite) (fst (f a)) = true /\ o.(isfinite) (fst (f b)) = true /\
    sign (fst (f a)) <> sign (fst (f b)).
  Definition lo (a b : F) : F := if o.(ltb) a b then a else b.
  Definition hi (a b : F) : F := if o.(ltb) a b then b else a.
  (* every evaluation after the three initial ones (x0, xmin0, xmax0) is inside the bracket *)
  Definition confined (a b : F) (r : obs) : Prop :=
    let '(_, _, _, calls) := r in
    forall x, In x (firstn (length calls - 3) calls) ->
              o.(leb) (lo a b) x = true /\ o.(leb) x (hi a b) = true.

  (* laws of the scalar type used by the confinement theorem only (they hold for an extended-real line with an
     incomparable NaN, see C09ER, and for binary64 = the table of primitive-float operations C09Float.fops, see C09B64) *)
  Record laws : Prop := {
    lt_le : forall a b, o.(ltb) a b = true -> o.(leb) a b = true;
    nlt_le : forall a b, o.(isfinite) a = true -> o.(isfinite) b = true -> o.(ltb) a b = false -> o.(leb) b a = true;
    le_trans : forall a b c, o.(leb) a b = true -> o.(leb) b c = true -> o.(leb) a c = true;
    le_refl : forall a, o.(isfinite) a = true -> o.(leb) a a = true;
    finite_not_nan : forall a, o.(isfinite) a = true -> o.(isnan) a = false;
    nan_is_nan : o.(isnan) o.(fnan) = true;
    (* a <> b: on binary64 the law is FALSE for a = b an odd multiple of the smallest subnormal (halving is then inexact:
       2^-1074 / 2 + 2^-1074 / 2 = 0, see C09B64.mid_equal_ends_escape); the confinement proof gets a <> b from the
       different signs of f at the two ends of the bracket *)
    mid_between : forall a b, o.(isfinite) a = true -> o.(isfinite) b = true -> o.(leb) a b = true -> a <> b ->
      let m := o.(add) (o.(div) a o.(two)) (o.(div) b o.(two)) in o.(leb) a m = true /\ o.(leb) m b = true
  }.
End Spec.

(* C09 -- bracket confinement on IEEE binary64 itself: the laws under which C09_confined is proved are theorems for the table
   of primitive-float operations `fops` -- the same table on which the model is executed bit for bit against the real code.
   (Flocq 4.1: IEEE754.PrimFloat ties Coq's primitive floats, through the FloatAxioms of the standard library, to
   BinarySingleNaN.binary_float 53 1024 whose operations are specified as roundings of real operations.)
   Used by the check when /repo implements the NaN-safe getNextRootEstimate. *)
From Coq Require Import List ZArith Bool Reals.
From Coq Require Floats.   (* not imported: Print Assumptions then prints the primitives fully qualified *)
From Flocq Require IEEE754.BinarySingleNaN IEEE754.PrimFloat.
From C09 Require Import C09Model C09Spec C09Float C09Confine C09B64.

Notation pfloat := Coq.Floats.PrimFloat.float.
Notation pfinite := Coq.Floats.PrimFloat.is_finite.
Notation R64 x := (BinarySingleNaN.B2R (Flocq.IEEE754.PrimFloat.Prim2B x)).

(* every law of C09Spec.laws holds on binary64: order laws (with NaN and the infinities), and the midpoint law *)
Theorem C09_laws_binary64 : laws fops.
Proof. exact fops_laws. Qed.
Print Assumptions C09_laws_binary64.

(* the repaired midpoint: for finite doubles xmin < xmax (same sign or not, normal or subnormal) xmin/2 + xmax/2 is finite and
   xmin <= xmin/2 + xmax/2 <= xmax *)
Theorem C09_midpoint_binary64 : forall b : bstate, pfinite (xmin b) = true -> pfinite (xmax b) = true ->
  PrimFloat.ltb (xmin b) (xmax b) = true ->
  let m := midpoint fops NaNSafe b in
  pfinite m = true /\ PrimFloat.leb (xmin b) m = true /\ PrimFloat.leb m (xmax b) = true.
Proof. exact prim_mid. Qed.
Print Assumptions C09_midpoint_binary64.

(* ... and this is sharp: with equal ends the midpoint escapes when halving is inexact (2^-1074/2 + 2^-1074/2 = 0 < 2^-1074,
   3*2^-1074/2 + 3*2^-1074/2 = 4*2^-1074 > 3*2^-1074); the algorithm never asks for it (the ends of a sign-changing bracket differ) *)
Theorem C09_midpoint_equal_ends_escapes :
  midpoint fops NaNSafe (same_ends denorm_min) = zero fops /\
  leb fops denorm_min (midpoint fops NaNSafe (same_ends denorm_min)) = false /\
  leb fops (midpoint fops NaNSafe (same_ends (PrimFloat.add denorm_min (PrimFloat.add denorm_min denorm_min))))
           (PrimFloat.add denorm_min (PrimFloat.add denorm_min denorm_min)) = false.
Proof. exact mid_equal_ends_escape. Qed.
Print Assumptions C09_midpoint_equal_ends_escapes.

(* the NaN-safe test !((x >= xmin) && (x <= xmax)) with finite ends lets x through exactly when x is finite and
   xmin <= x <= xmax as real numbers; NaN is rejected whatever the ends *)
Theorem C09_range_test_binary64 : forall xmin xmax x : pfloat, pfinite xmin = true -> pfinite xmax = true ->
  (out_of_range fops NaNSafe {| xmin := xmin; fmin := zero fops; xmax := xmax; fmax := zero fops |} x = false <->
   pfinite x = true /\ (R64 xmin <= R64 x <= R64 xmax)%R).
Proof. exact range_test. Qed.
Print Assumptions C09_range_test_binary64.
Theorem C09_range_test_rejects_nan : forall b : bstate, out_of_range fops NaNSafe b PrimFloat.nan = true.
Proof. exact range_test_nan. Qed.
Print Assumptions C09_range_test_rejects_nan.

(* bracket confinement for binary64, no hypothesis left on the arithmetic: every user function (values and derivative data
   arbitrary doubles, NaN and infinities included), criterion, initial guess, budget *)
Theorem C09_confined_binary64 : forall (f : pfloat -> pfloat * pfloat) c (p : params),
  valid_bracket fops f (xmin0 p) (xmax0 p) ->
  confined fops (xmin0 p) (xmax0 p) (scalar_newton_raphson fops NaNSafe f c p).
Proof. exact (snr_confined fops fops_laws). Qed.
Print Assumptions C09_confined_binary64.

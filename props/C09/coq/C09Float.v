(* C09 -- instance of the scalar operations on Coq's primitive binary64 floats (definitions only) *)
From Coq Require Import Floats List ZArith Bool.
From C09 Require Import C09Model.
Import ListNotations.
Open Scope float_scope.

Definition fops : ops float := {|
  zero := 0; two := 2; fnan := nan;
  add := PrimFloat.add; sub := PrimFloat.sub; mul := PrimFloat.mul; div := PrimFloat.div; opp := PrimFloat.opp;
  ltb := PrimFloat.ltb; leb := PrimFloat.leb;
  isfinite := fun x => negb (is_nan x || is_infinity x); isnan := is_nan; iszero := is_zero |}.

(* user functions and criteria as data (shared format with props/C09/driver.cxx) *)
Definition horner (cs : list float) (x : float) : float := fold_right (fun c acc => c + x * acc) 0 cs.
(* pieces: (upper bound, value coefficients, derivative coefficients); first piece with x <= bound; else default *)
Definition piece := (float * list float * list float)%type.
Fixpoint pw (ps : list piece) (dv dd : list float) (x : float) : float * float :=
  match ps with
  | [] => (horner dv x, horner dd x)
  | (b, cv, cd) :: r => if x <=? b then (horner cv x, horner cd x) else pw r dv dd x
  end.
(* criteria: 0 |fv|<e1 ; 1 |dx|<e1 ; 2 false ; 3 true ; 4 |fv|<e1 && |dx|<e2 ; 5 i >= n (n = e1 as nat given separately) *)
Definition crit (k : nat) (e1 e2 : float) (n : nat) (fv dx x : float) (i : nat) : bool :=
  match k with
  | 0%nat => abs fv <? e1
  | 1%nat => abs dx <? e1
  | 2%nat => false
  | 3%nat => true
  | 4%nat => (abs fv <? e1) && (abs dx <? e2)
  | _ => Nat.leb n i
  end.

Definition run (v : variant) (ps : list piece) (dv dd : list float) (k : nat) (e1 e2 : float) (n : nat)
           (x0 : float) (im : nat) (a b : float) :=
  let '(conv, x, i, calls) :=
    scalar_newton_raphson fops v (pw ps dv dd) (crit k e1 e2 n) {| x0 := x0; im := im; xmin0 := a; xmax0 := b |} in
  (conv, x, Z.of_nat i, rev calls).

(* one case as a tuple (the check feeds lists of these to `map (run1 v)`) *)
Definition case := (list piece * list float * list float * nat * float * float * nat * float * nat * float * float)%type.
Definition run1 (v : variant) (cs : case) :=
  let '(ps, dv, dd, k, e1, e2, n, x0, im, a, b) := cs in run v ps dv dd k e1 e2 n x0 im a b.

(* C09 -- property theorems that hold for the pinned and for the repaired code alike (statements only).
   `o` is ANY table of scalar operations (no law assumed: every rounding, overflow, NaN behaviour), `v` either
   variant of getNextRootEstimate, `f` any user function, `c` any criterion, `p` any parameters. *)
From Coq Require Import List ZArith Bool.
From C09 Require Import C09Model C09Spec C09Proofs C09ER.

(* convergence is reported only with a finite root, a finite function value at that root, the criterion true on
   exactly those values and that iteration number, and f has been evaluated at the returned root *)
Theorem C09_sound : forall (F : Type) (o : ops F) (v : variant) f c (p : params),
  sound o f c (scalar_newton_raphson o v f c p).
Proof. exact @snr_sound. Qed.
Print Assumptions C09_sound.

(* the iteration counter never exceeds im; at most 3 + 2 im evaluations of f; (termination: the model is a
   structural recursion on the remaining budget) *)
Theorem C09_budget : forall (F : Type) (o : ops F) (v : variant) f c (p : params),
  within_budget (im p) (scalar_newton_raphson o v f c p).
Proof. exact @snr_budget. Qed.
Print Assumptions C09_budget.

(* the laws under which confinement is proved are satisfiable (extended rationals with infinities and NaN) *)
Theorem C09_laws_satisfiable : laws er_ops.
Proof. exact er_laws. Qed.
Print Assumptions C09_laws_satisfiable.

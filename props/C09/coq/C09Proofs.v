(* C09 -- proofs about the model (every scalar type, every operation table, every user function and criterion) *)
From Coq Require Import List ZArith Bool Arith Lia.
From C09 Require Import C09Model C09Spec.
Import ListNotations.

Section Proofs.
  Context {F : Type} (o : ops F) (v : variant).
  Variable f : F -> F * F.
  Variable c : F -> F -> F -> nat -> bool.

  Notation loop := (loop o v f c).

  (* ---------------------------------------------------------------- soundness and budget: no law needed *)
  Lemma loop_sound : forall p fuel i b x fv dfv dx calls,
    fv = fst (f x) -> In x calls ->
    sound o f c (loop p fuel i b x fv dfv dx calls).
  Proof.
    intros p fuel; induction fuel as [|n IH]; intros i b x fv dfv dx calls Hfv Hin.
    - cbn. intro H; discriminate.
    - cbn [C09Model.loop].
      set (b' := update_bounds o b x fv).
      assert (FIN : forall have x' fv' dx' calls', fv' = fst (f x') -> In x' calls' ->
        sound o f c (if have && isfinite o x' && isfinite o fv' && c fv' dx' x' i then (true, x', i, calls')
                 else loop p n (S i) b' (iterate o v b' (add o x' dx')) (fst (f (iterate o v b' (add o x' dx'))))
                        (snd (f (iterate o v b' (add o x' dx')))) dx' (iterate o v b' (add o x' dx') :: calls'))).
      { intros have x' fv' dx' calls' Hfv' Hin'.
        destruct (have && isfinite o x' && isfinite o fv' && c fv' dx' x' i) eqn:E.
        - apply andb_prop in E; destruct E as [E Ec]. apply andb_prop in E; destruct E as [E Ef].
          apply andb_prop in E; destruct E as [_ Ex]. subst fv'.
          cbn. intros _. repeat split; auto. exists dx'; exact Ec.
        - apply IH; [reflexivity | left; reflexivity]. }
      destruct (isfinite o fv || iszero o dfv).
      + apply FIN; assumption.
      + destruct (fst (get_next o v b' x)).
        * apply FIN; assumption.
        * destruct i as [|i'].
          -- cbn. intro H; discriminate.
          -- apply FIN; [reflexivity | left; reflexivity].
  Qed.

  Lemma initial_bounds_calls : forall p, exists l, snd (initial_bounds o f p) = l ++ [x0 p] /\ length l <= 2.
  Proof.
    intros p. unfold initial_bounds.
    destruct (isfinite o (xmin0 p)); destruct (isfinite o (xmax0 p)); cbn.
    - exists [xmax0 p; xmin0 p]; split; [reflexivity | cbn; lia].
    - exists [xmin0 p]; split; [reflexivity | cbn; lia].
    - exists [xmax0 p]; split; [reflexivity | cbn; lia].
    - exists []; split; [reflexivity | cbn; lia].
  Qed.

  Theorem snr_sound : forall p, sound o f c (scalar_newton_raphson o v f c p).
  Proof.
    intros p. unfold scalar_newton_raphson.
    destruct (im p) eqn:Eim.
    - cbn. intro H; discriminate.
    - destruct (initial_bounds_calls p) as [l [Hl _]].
      destruct (initial_bounds o f p) as [b calls]. cbn in Hl. subst calls.
      apply loop_sound; [reflexivity | apply in_or_app; right; left; reflexivity].
  Qed.

  Lemma loop_budget : forall p fuel i b x fv dfv dx calls,
    let '(_, _, i', calls') := loop p fuel i b x fv dfv dx calls in
    i' <= i + fuel /\ length calls' <= length calls + 2 * fuel.
  Proof.
    intros p fuel; induction fuel as [|n IH]; intros i b x fv dfv dx calls.
    - cbn. lia.
    - cbn [C09Model.loop].
      set (b' := update_bounds o b x fv).
      assert (FIN : forall have x' fv' dx' calls', length calls' <= length calls + 1 ->
        let '(_, _, i', calls'') :=
          (if have && isfinite o x' && isfinite o fv' && c fv' dx' x' i then (true, x', i, calls')
           else loop p n (S i) b' (iterate o v b' (add o x' dx')) (fst (f (iterate o v b' (add o x' dx'))))
                  (snd (f (iterate o v b' (add o x' dx')))) dx' (iterate o v b' (add o x' dx') :: calls')) in
        i' <= i + S n /\ length calls'' <= length calls + 2 * S n).
      { intros have x' fv' dx' calls' Hl.
        destruct (have && isfinite o x' && isfinite o fv' && c fv' dx' x' i).
        - lia.
        - specialize (IH (S i) b' (iterate o v b' (add o x' dx')) (fst (f (iterate o v b' (add o x' dx'))))
                         (snd (f (iterate o v b' (add o x' dx')))) dx' (iterate o v b' (add o x' dx') :: calls')).
          destruct (loop p n (S i) b' _ _ _ dx' _) as [[[? ?] i'] calls'']. cbn [length] in IH. lia. }
      destruct (isfinite o fv || iszero o dfv).
      + apply FIN; lia.
      + destruct (fst (get_next o v b' x)).
        * apply FIN; lia.
        * destruct i as [|i'].
          -- lia.
          -- apply FIN; cbn [length]; lia.
  Qed.

  Theorem snr_budget : forall p, within_budget (im p) (scalar_newton_raphson o v f c p).
  Proof.
    intros p. unfold scalar_newton_raphson, within_budget.
    destruct (im p) eqn:Eim.
    - cbn; lia.
    - destruct (initial_bounds_calls p) as [l [Hl Hlen]].
      destruct (initial_bounds o f p) as [b calls]. cbn in Hl.
      pose proof (loop_budget p (S n) 0 b (x0 p) (fst (f (x0 p))) (snd (f (x0 p))) (zero o) calls) as H.
      destruct (loop p (S n) 0 b _ _ _ _ calls) as [[[? ?] i'] calls'].
      subst calls. rewrite app_length in H. cbn [length] in H. lia.
  Qed.
End Proofs.

(* C09 -- the laws of C09Spec.laws are satisfiable: an extended rational line with infinities and an
   incomparable NaN (exact arithmetic with IEEE-like special values).  Hence the confinement theorem is not vacuous
   and holds for exact arithmetic with special values. *)
From Coq Require Import QArith Qabs Bool Lqa ZArith.
From C09 Require Import C09Model C09Spec.

Inductive ER := ENaN | EInf (neg : bool) | EFin (q : Q).

Definition qneg (q : Q) : bool := negb (Qle_bool 0 q).
Definition qzero (q : Q) : bool := Qeq_bool q 0.
Definition er_opp (a : ER) : ER :=
  match a with ENaN => ENaN | EInf s => EInf (negb s) | EFin q => EFin (- q) end.
Definition er_add (a b : ER) : ER :=
  match a, b with
  | ENaN, _ | _, ENaN => ENaN
  | EInf s, EInf t => if Bool.eqb s t then EInf s else ENaN
  | EInf s, EFin _ | EFin _, EInf s => EInf s
  | EFin p, EFin q => EFin (p + q)
  end.
Definition er_mul (a b : ER) : ER :=
  match a, b with
  | ENaN, _ | _, ENaN => ENaN
  | EInf s, EInf t => EInf (xorb s t)
  | EInf s, EFin q | EFin q, EInf s => if qzero q then ENaN else EInf (xorb s (qneg q))
  | EFin p, EFin q => EFin (p * q)
  end.
Definition er_div (a b : ER) : ER :=
  match a, b with
  | ENaN, _ | _, ENaN => ENaN
  | EInf _, EInf _ => ENaN
  | EInf s, EFin q => EInf (xorb s (qneg q))
  | EFin _, EInf _ => EFin 0
  | EFin p, EFin q => if qzero q then (if qzero p then ENaN else EInf (qneg p)) else EFin (p / q)
  end.
Definition er_leb (a b : ER) : bool :=
  match a, b with
  | ENaN, _ | _, ENaN => false
  | EInf true, _ => true
  | _, EInf false => true
  | EInf false, _ => false
  | _, EInf true => false
  | EFin p, EFin q => Qle_bool p q
  end.
Definition er_ltb (a b : ER) : bool :=
  match a, b with
  | ENaN, _ | _, ENaN => false
  | EInf true, EInf true => false
  | EInf false, EInf false => false
  | EInf true, _ => true
  | _, EInf false => true
  | EInf false, _ => false
  | _, EInf true => false
  | EFin p, EFin q => negb (Qle_bool q p)
  end.
Definition er_ops : ops ER := {|
  zero := EFin 0; two := EFin 2; fnan := ENaN;
  add := er_add; sub := fun a b => er_add a (er_opp b); mul := er_mul; div := er_div; opp := er_opp;
  ltb := er_ltb; leb := er_leb;
  isfinite := fun a => match a with EFin _ => true | _ => false end;
  isnan := fun a => match a with ENaN => true | _ => false end;
  iszero := fun a => match a with EFin q => qzero q | _ => false end |}.

Lemma er_laws : laws er_ops.
Proof.
  constructor; cbn.
  - intros [|[]|p] [|[]|q]; cbn; try congruence.
    intros H. apply negb_true_iff in H. apply Qle_bool_iff. apply Qlt_le_weak. apply Qnot_le_lt.
    intro Hc. apply Qle_bool_iff in Hc. congruence.
  - intros [|[]|p] [|[]|q]; cbn; try congruence.
    intros _ _ H. apply negb_false_iff in H. exact H.
  - intros [|[]|p] [|[]|q] [|[]|r]; cbn; try congruence.
    intros H1 H2. apply Qle_bool_iff in H1. apply Qle_bool_iff in H2. apply Qle_bool_iff. lra.
  - intros [|[]|p]; cbn; try congruence. intros _. apply Qle_bool_iff. lra.
  - intros [|[]|p]; cbn; congruence.
  - reflexivity.
  - intros [|[]|p] [|[]|q]; cbn; try congruence.
    intros _ _ H _. apply Qle_bool_iff in H.
    unfold qzero. replace (Qeq_bool 2 0) with false by reflexivity. cbn.
    split; apply Qle_bool_iff; unfold Qdiv; change (/ 2)%Q with (1 # 2)%Q; lra.
Qed.

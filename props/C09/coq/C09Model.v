(* C09 -- hand-written executable model of tfel::math::scalarNewtonRaphson and BissectionAlgorithmBase
   (include/TFEL/Math/NonLinearSolvers/ScalarNewtonRaphson.ixx, BissectionAlgorithmBase.ixx).
   Definitions only.  The scalar type is abstract: a record of operations with NO law attached, so that every
   theorem that does not mention laws holds for every rounding, overflow and NaN behaviour.  The same definitions
   are executed on Coq's primitive binary64 floats (bit-exact IEEE under vm_compute) for the correspondence.

   `variant` selects the two places where the pinned tree and the repaired tree differ (getNextRootEstimate):
     Pinned : range test  (x < xmin) || (x > xmax)        midpoint (xmin + xmax) / 2
     NaNSafe: range test  !((x >= xmin) && (x <= xmax))   midpoint xmin / 2 + xmax / 2
   The check finds out which variant /repo implements (bit-exact agreement on every case). *)
From Coq Require Import List ZArith Bool.
Import ListNotations.

Record ops (F : Type) := {
  zero : F; two : F; fnan : F;
  add : F -> F -> F; sub : F -> F -> F; mul : F -> F -> F; div : F -> F -> F; opp : F -> F;
  ltb : F -> F -> bool; leb : F -> F -> bool;
  isfinite : F -> bool; isnan : F -> bool; iszero : F -> bool   (* fpclassify(.) == FP_ZERO *)
}.
Arguments zero {F}. Arguments two {F}. Arguments fnan {F}. Arguments add {F}. Arguments sub {F}.
Arguments mul {F}. Arguments div {F}. Arguments opp {F}. Arguments ltb {F}. Arguments leb {F}.
Arguments isfinite {F}. Arguments isnan {F}. Arguments iszero {F}.

Inductive variant := Pinned | NaNSafe.

Section Model.
  Context {F : Type} (o : ops F) (v : variant).
  Variable f : F -> F * F.                    (* user function: value and derivative *)
  Variable c : F -> F -> F -> nat -> bool.    (* user criterion c(fv, dx, x, i) *)

  (* BissectionAlgorithmData *)
  Record bstate := { xmin : F; fmin : F; xmax : F; fmax : F }.
  Definition b_init := {| xmin := o.(fnan); fmin := o.(fnan); xmax := o.(fnan); fmax := o.(fnan) |}.

  Definition b2z (b : bool) : Z := if b then 1%Z else 0%Z.
  (* sgn(value) = (zero < value) - (value < zero) *)
  Definition sgn (a : F) : Z := (b2z (o.(ltb) o.(zero) a) - b2z (o.(ltb) a o.(zero)))%Z.
  Definition same_sign (a b : F) : bool := Z.eqb (sgn a) (sgn b).
  (* tfel::math::abs *)
  Definition fabs (s : F) : F := if o.(ltb) s o.(zero) then o.(opp) s else s.

  Definition update_range (x1 f1 x2 f2 : F) : bstate :=
    if o.(ltb) x1 x2 then {| xmin := x1; fmin := f1; xmax := x2; fmax := f2 |}
    else {| xmin := x2; fmin := f2; xmax := x1; fmax := f1 |}.

  Definition update_bounds (b : bstate) (x fx : F) : bstate :=
    if negb (o.(isfinite) x) || negb (o.(isfinite) fx) then b
    else if o.(isnan) b.(xmin) then {| xmin := x; fmin := fx; xmax := b.(xmax); fmax := b.(fmax) |}
    else if o.(isnan) b.(xmax) then update_range b.(xmin) b.(fmin) x fx
    else if same_sign b.(fmin) b.(fmax) then
      if same_sign b.(fmin) fx then
        let b1 := if o.(ltb) x b.(xmin) then update_range b.(xmax) b.(fmax) x fx else b in
        if o.(ltb) b1.(xmax) x then update_range b1.(xmin) b1.(fmin) x fx else b1
      else if o.(ltb) (fabs (o.(sub) x b.(xmin))) (fabs (o.(sub) x b.(xmax)))
           then update_range b.(xmin) b.(fmin) x fx
           else update_range b.(xmax) b.(fmax) x fx
    else if same_sign b.(fmin) fx then
      if o.(ltb) b.(xmin) x && o.(ltb) x b.(xmax)
      then {| xmin := x; fmin := fx; xmax := b.(xmax); fmax := b.(fmax) |} else b
    else
      if o.(ltb) x b.(xmax) && o.(ltb) b.(xmin) x
      then {| xmin := b.(xmin); fmin := b.(fmin); xmax := x; fmax := fx |} else b.

  (* the three-fold guard shared by iterate and getNextRootEstimate: "no sign-changing finite bracket yet" *)
  Definition no_bracket (b : bstate) : bool :=
    negb (o.(isfinite) b.(xmin)) || negb (o.(isfinite) b.(xmax)) || same_sign b.(fmin) b.(fmax).

  Definition out_of_range (b : bstate) (x : F) : bool :=
    match v with
    | Pinned => o.(ltb) x b.(xmin) || o.(ltb) b.(xmax) x
    | NaNSafe => negb (o.(leb) b.(xmin) x && o.(leb) x b.(xmax))
    end.
  Definition midpoint (b : bstate) : F :=
    match v with
    | Pinned => o.(div) (o.(add) b.(xmin) b.(xmax)) o.(two)
    | NaNSafe => o.(add) (o.(div) b.(xmin) o.(two)) (o.(div) b.(xmax) o.(two))
    end.

  (* getNextRootEstimate: (estimate available, new x) *)
  Definition get_next (b : bstate) (x : F) : bool * F :=
    if no_bracket b then (false, x)
    else if negb (o.(iszero) (o.(sub) b.(fmax) b.(fmin))) then
      let islope := o.(div) (o.(sub) b.(xmax) b.(xmin)) (o.(sub) b.(fmax) b.(fmin)) in
      let xs := o.(sub) b.(xmin) (o.(mul) islope b.(fmin)) in
      (true, if out_of_range b xs then midpoint b else xs)
    else (true, midpoint b).

  (* iterate *)
  Definition iterate (b : bstate) (x : F) : F :=
    if no_bracket b then x
    else if negb (o.(isfinite) x) || (o.(ltb) x b.(xmin) || o.(ltb) b.(xmax) x) then snd (get_next b x)
    else x.

  (* result: converged, x, i, points at which f was evaluated (most recent first) *)
  Definition result := (bool * F * nat * list F)%type.

  Record params := { x0 : F; im : nat; xmin0 : F; xmax0 : F }.

  (* body of `while ((!converged) && (i != p.im))`; fuel = im - i *)
  Fixpoint loop (p : params) (fuel i : nat) (b : bstate) (x fv dfv dx : F) (calls : list F) : result :=
    match fuel with
    | O => (false, x, i, calls)
    | S fuel' =>
      let b := update_bounds b x fv in
      (* tail: convergence test, otherwise Newton/bisection update and next iteration *)
      let finish (have : bool) (x fv dfv dx : F) (calls : list F) : result :=
        if have && o.(isfinite) x && o.(isfinite) fv && c fv dx x i then (true, x, i, calls)
        else let x1 := iterate b (o.(add) x dx) in
             let r := f x1 in
             loop p fuel' (S i) b x1 (fst r) (snd r) dx (x1 :: calls) in
      if o.(isfinite) fv || o.(iszero) dfv then
        finish true x fv dfv (o.(div) (o.(opp) fv) dfv) calls
      else
        let ge := get_next b x in
        if fst ge then finish true x fv dfv (o.(sub) (snd ge) x) calls
        else match i with
             | O => (false, p.(x0), i, calls)
             | S _ => let x1 := iterate b (o.(sub) x (o.(div) dx o.(two))) in
                      let r := f x1 in
                      finish false x1 (fst r) (snd r) dx (x1 :: calls)
             end
    end.

  Definition initial_bounds (p : params) : bstate * list F :=
    let r0 := f p.(x0) in
    let '(b1, c1) := if o.(isfinite) p.(xmin0)
                     then (update_bounds b_init p.(xmin0) (fst (f p.(xmin0))), [p.(xmin0); p.(x0)])
                     else (b_init, [p.(x0)]) in
    if o.(isfinite) p.(xmax0)
    then (update_bounds b1 p.(xmax0) (fst (f p.(xmax0))), p.(xmax0) :: c1)
    else (b1, c1).

  Definition scalar_newton_raphson (p : params) : result :=
    match p.(im) with
    | O => (false, p.(x0), O, [])
    | S _ =>
      let r0 := f p.(x0) in
      let '(b, calls) := initial_bounds p in
      loop p p.(im) O b p.(x0) (fst r0) (snd r0) o.(zero) calls
    end.
End Model.

Arguments xmin {F}. Arguments fmin {F}. Arguments xmax {F}. Arguments fmax {F}.
Arguments x0 {F}. Arguments im {F}. Arguments xmin0 {F}. Arguments xmax0 {F}.

(* C09 -- bracket confinement is FALSE for the pinned getNextRootEstimate (variant Pinned) on binary64.
   Used by the check while /repo implements that variant (finding F9). *)
From Coq Require Import List ZArith Bool.
From Coq Require Floats.   (* not imported: Print Assumptions then prints the primitives fully qualified *)
From C09 Require Import C09Model C09Spec C09Float C09Refute.

(* a NaN secant estimate escapes: f is evaluated at NaN *)
Theorem C09_confined_refuted_nan : exists f c (p : params),
  valid_bracket fops f (xmin0 p) (xmax0 p) /\
  ~ confined fops (xmin0 p) (xmax0 p) (scalar_newton_raphson fops Pinned f c p).
Proof. exists f_a, never, p_a. exact (conj valid_a escape_a). Qed.
Print Assumptions C09_confined_refuted_nan.

(* the midpoint (xmin + xmax) / 2 overflows: f is evaluated at +infinity *)
Theorem C09_confined_refuted_overflow : exists f c (p : params),
  valid_bracket fops f (xmin0 p) (xmax0 p) /\
  ~ confined fops (xmin0 p) (xmax0 p) (scalar_newton_raphson fops Pinned f c p).
Proof. exists f_b, never, p_b. exact (conj valid_b escape_b). Qed.
Print Assumptions C09_confined_refuted_overflow.

(* the repaired variant confines the estimates on both witnesses *)
Theorem C09_repair_confines_witnesses :
  confined fops (xmin0 p_a) (xmax0 p_a) (scalar_newton_raphson fops NaNSafe f_a never p_a) /\
  confined fops (xmin0 p_b) (xmax0 p_b) (scalar_newton_raphson fops NaNSafe f_b never p_b).
Proof. exact (conj repaired_a repaired_b). Qed.
Print Assumptions C09_repair_confines_witnesses.

(* C09 -- bracket confinement of the NaN-safe variant, for every scalar type satisfying `laws` *)
From Coq Require Import List ZArith Bool Arith Lia.
From C09 Require Import C09Model C09Spec.
Import ListNotations.

Section Confine.
  Context {F : Type} (o : ops F) (L : laws o).
  Variable f : F -> F * F.
  Variable c : F -> F -> F -> nat -> bool.
  Variables lo_ hi_ : F.

  Notation loop := (loop o NaNSafe f c).
  Definition inr (x : F) : Prop := leb o lo_ x = true /\ leb o x hi_ = true.
  (* a sign-changing finite bracket nested in [lo_, hi_] *)
  Definition Inv (b : bstate) : Prop :=
    (no_bracket o b = false /\ leb o (xmin b) (xmax b) = true /\
     leb o lo_ (xmin b) = true /\ leb o (xmax b) hi_ = true) /\
    (* the stored values are the values of f at the stored ends; with the sign change: the ends are different *)
    fmin b = fst (f (xmin b)) /\ fmax b = fst (f (xmax b)).

  Lemma same_sign_refl a : same_sign o a a = true.
  Proof. unfold same_sign. apply Z.eqb_refl. Qed.

  Lemma ends_differ b : Inv b -> xmin b <> xmax b.
  Proof.
    intros [[Hnb _] [E1 E2]] E. apply orb_false_elim in Hnb. destruct Hnb as [_ Hs].
    rewrite E1, E2, E, same_sign_refl in Hs. discriminate.
  Qed.

  Lemma no_bracket_false b : no_bracket o b = false ->
    isfinite o (xmin b) = true /\ isfinite o (xmax b) = true /\ same_sign o (fmin b) (fmax b) = false.
  Proof.
    unfold no_bracket. intros H. apply orb_false_elim in H; destruct H as [H H3].
    apply orb_false_elim in H; destruct H as [H1 H2].
    apply negb_false_iff in H1. apply negb_false_iff in H2. auto.
  Qed.

  Lemma get_next_in b x : Inv b ->
    fst (get_next o NaNSafe b x) = true /\
    leb o (xmin b) (snd (get_next o NaNSafe b x)) = true /\ leb o (snd (get_next o NaNSafe b x)) (xmax b) = true.
  Proof.
    intros HI. pose proof (ends_differ b HI) as Hne. destruct HI as [[Hnb [Hle _]] _].
    destruct (no_bracket_false b Hnb) as [F1 [F2 _]].
    pose proof (mid_between o L _ _ F1 F2 Hle Hne) as Hmid. cbn zeta in Hmid.
    unfold get_next. rewrite Hnb.
    destruct (negb (iszero o (sub o (fmax b) (fmin b)))); cbn [fst snd]; [|split; [reflexivity | exact Hmid]].
    split; [reflexivity|].
    unfold out_of_range, midpoint.
    match goal with |- context [negb (?a && ?b)] => destruct a eqn:Ea; destruct b eqn:Eb end; cbn [negb andb]; auto.
  Qed.

  Lemma iterate_in b x : Inv b ->
    leb o (xmin b) (iterate o NaNSafe b x) = true /\ leb o (iterate o NaNSafe b x) (xmax b) = true.
  Proof.
    intros HI. pose proof HI as [[Hnb [Hle _]] _]. destruct (no_bracket_false b Hnb) as [F1 [F2 _]].
    unfold iterate. rewrite Hnb.
    destruct (isfinite o x) eqn:Fx; cbn [negb orb].
    - destruct (ltb o x (xmin b)) eqn:E1; cbn [orb]; [apply get_next_in; assumption|].
      destruct (ltb o (xmax b) x) eqn:E2; cbn [orb]; [apply get_next_in; assumption|].
      split; apply (nlt_le o L); assumption.
    - apply get_next_in; assumption.
  Qed.

  Lemma inr_of_bracket b x : Inv b -> leb o (xmin b) x = true -> leb o x (xmax b) = true -> inr x.
  Proof.
    intros [[_ [_ [H1 H2]]] _] Ha Hb. split; eapply (le_trans o L); eauto.
  Qed.

  Lemma same_sign_chain a b d : same_sign o a b = true -> same_sign o a d = false -> same_sign o b d = false.
  Proof.
    unfold same_sign. intros H1 H2. apply Z.eqb_eq in H1. apply Z.eqb_neq in H2. apply Z.eqb_neq. congruence.
  Qed.

  Lemma update_bounds_inv b x fx : Inv b -> fx = fst (f x) -> Inv (update_bounds o b x fx).
  Proof.
    intros HI Efx. pose proof HI as [[Hnb [Hle [Hlo Hhi]]] [Emin Emax]]. destruct (no_bracket_false b Hnb) as [F1 [F2 Hs]].
    unfold update_bounds.
    destruct (isfinite o x) eqn:Fx; cbn [negb orb]; [|exact HI].
    destruct (isfinite o fx) eqn:Ffx; cbn [negb orb]; [|exact HI].
    rewrite (finite_not_nan o L _ F1), (finite_not_nan o L _ F2), Hs.
    destruct (same_sign o (fmin b) fx) eqn:S1.
    - destruct (ltb o (xmin b) x) eqn:E1; cbn [andb]; [|exact HI].
      destruct (ltb o x (xmax b)) eqn:E2; [|exact HI].
      unfold Inv, no_bracket; cbn [xmin xmax fmin fmax].
      rewrite Fx, F2, (same_sign_chain _ _ _ S1 Hs). cbn.
      repeat split; auto.
      + apply (lt_le o L); assumption.
      + eapply (le_trans o L); [exact Hlo | apply (lt_le o L); assumption].
    - destruct (ltb o x (xmax b)) eqn:E2; cbn [andb]; [|exact HI].
      destruct (ltb o (xmin b) x) eqn:E1; [|exact HI].
      unfold Inv, no_bracket; cbn [xmin xmax fmin fmax].
      rewrite Fx, F1, S1. cbn.
      repeat split; auto.
      + apply (lt_le o L); assumption.
      + eapply (le_trans o L); [apply (lt_le o L); eassumption | exact Hhi].
  Qed.

  Lemma loop_confined : forall p fuel i b x fv dfv dx calls, Inv b -> fv = fst (f x) ->
    exists new, snd (loop p fuel i b x fv dfv dx calls) = new ++ calls /\ Forall inr new.
  Proof.
    intros p fuel; induction fuel as [|n IH]; intros i b x fv dfv dx calls HI Efv.
    - cbn. exists []; split; [reflexivity | constructor].
    - cbn [C09Model.loop].
      pose proof (update_bounds_inv b x fv HI Efv) as HI'.
      set (b' := update_bounds o b x fv) in *.
      assert (FIN : forall have x' fv' dx' calls' new', calls' = new' ++ calls -> Forall inr new' ->
        exists new, snd
          (if have && isfinite o x' && isfinite o fv' && c fv' dx' x' i then (true, x', i, calls')
           else loop p n (S i) b' (iterate o NaNSafe b' (add o x' dx')) (fst (f (iterate o NaNSafe b' (add o x' dx'))))
                  (snd (f (iterate o NaNSafe b' (add o x' dx')))) dx' (iterate o NaNSafe b' (add o x' dx') :: calls'))
          = new ++ calls /\ Forall inr new).
      { intros have x' fv' dx' calls' new' Hc Hn.
        destruct (have && isfinite o x' && isfinite o fv' && c fv' dx' x' i).
        - exists new'; split; [exact Hc | exact Hn].
        - destruct (IH (S i) b' (iterate o NaNSafe b' (add o x' dx')) (fst (f (iterate o NaNSafe b' (add o x' dx'))))
                       (snd (f (iterate o NaNSafe b' (add o x' dx')))) dx'
                       (iterate o NaNSafe b' (add o x' dx') :: calls') HI' eq_refl) as [nw [E Hf]].
          exists (nw ++ iterate o NaNSafe b' (add o x' dx') :: new'). split.
          + rewrite E, Hc, <- app_assoc. reflexivity.
          + apply Forall_app; split; [exact Hf|]. constructor; [|exact Hn].
            destruct (iterate_in b' (add o x' dx') HI'). eapply inr_of_bracket; eauto. }
      destruct (isfinite o fv || iszero o dfv).
      + apply (FIN true x fv _ calls []); [reflexivity | constructor].
      + destruct (fst (get_next o NaNSafe b' x)).
        * apply (FIN true x fv _ calls []); [reflexivity | constructor].
        * destruct i as [|i'].
          -- exists []; split; [reflexivity | constructor].
          -- apply (FIN false _ _ _ _ [iterate o NaNSafe b' (sub o x (div o dx (two o)))]); [reflexivity|].
             constructor; [|constructor].
             destruct (iterate_in b' (sub o x (div o dx (two o))) HI'). eapply inr_of_bracket; eauto.
  Qed.
End Confine.

Section Top.
  Context {F : Type} (o : ops F) (L : laws o).
  Variable f : F -> F * F.
  Variable c : F -> F -> F -> nat -> bool.

  Lemma sign_same_sign a b : C09Spec.sign o a <> C09Spec.sign o b -> same_sign o a b = false.
  Proof.
    unfold same_sign, sgn, b2z, C09Spec.sign. intros H. apply Z.eqb_neq. exact H.
  Qed.

  Lemma initial_inv p : valid_bracket o f (xmin0 p) (xmax0 p) ->
    Inv o f (lo o (xmin0 p) (xmax0 p)) (hi o (xmin0 p) (xmax0 p)) (fst (initial_bounds o f p)) /\
    snd (initial_bounds o f p) = [xmax0 p; xmin0 p; x0 p].
  Proof.
    intros [Fa [Fb [Ffa [Ffb Hs]]]]. apply sign_same_sign in Hs.
    unfold initial_bounds. rewrite Fa, Fb. cbn [fst snd]. split; [|reflexivity].
    unfold update_bounds at 2. rewrite Fa, Ffa. cbn [negb orb b_init xmin xmax fmin fmax].
    rewrite (nan_is_nan o L).
    unfold update_bounds. rewrite Fb, Ffb. cbn [negb orb xmin xmax fmin fmax].
    rewrite (finite_not_nan o L _ Fa), (nan_is_nan o L).
    unfold update_range, lo, hi, Inv, no_bracket.
    destruct (ltb o (xmin0 p) (xmax0 p)) eqn:E; cbn [xmin xmax fmin fmax].
    - rewrite Fa, Fb, Hs. cbn. repeat split; auto using (le_refl o L), (lt_le o L).
    - rewrite Fa, Fb. assert (Hs' : same_sign o (fst (f (xmax0 p))) (fst (f (xmin0 p))) = false).
      { unfold same_sign in *. rewrite Z.eqb_sym. exact Hs. }
      rewrite Hs'. cbn. repeat split; auto using (le_refl o L). apply (nlt_le o L); assumption.
  Qed.

  Theorem snr_confined : forall p, valid_bracket o f (xmin0 p) (xmax0 p) ->
    confined o (xmin0 p) (xmax0 p) (scalar_newton_raphson o NaNSafe f c p).
  Proof.
    intros p Hv. destruct (initial_inv p Hv) as [HI Hc].
    unfold scalar_newton_raphson, confined.
    destruct (im p) eqn:Eim.
    - cbn. intros x [].
    - destruct (initial_bounds o f p) as [b calls]. cbn [fst snd] in HI, Hc. subst calls.
      destruct (loop_confined o L f c _ _ p (S n) 0 b (x0 p) (fst (f (x0 p))) (snd (f (x0 p))) (zero o)
                              [xmax0 p; xmin0 p; x0 p] HI eq_refl) as [new [E Hf]].
      destruct (loop o NaNSafe f c p (S n) 0 b _ _ _ _ _) as [[[? ?] ?] calls']. cbn [snd] in E. subst calls'.
      intros x Hin. rewrite app_length in Hin. cbn [length] in Hin.
      replace (length new + 3 - 3) with (length new + 0) in Hin by lia.
      rewrite firstn_app_2 in Hin. cbn [firstn] in Hin. rewrite app_nil_r in Hin.
      rewrite Forall_forall in Hf. exact (Hf x Hin).
  Qed.
End Top.

"""C09 -- scalar Newton-bisection root finder is sound, bounded and bracket-confined.
Engine H: hand-written Gallina model of scalarNewtonRaphson / BissectionAlgorithmBase over an abstract scalar type
(coq/C09Model.v), theorems for every operation table / user function / criterion / budget; the tie to /repo is the
bit-exact agreement of the model run on Coq primitive floats (vm_compute) with the REAL template run on the same
user functions given as data (everything observable: returned triple and every evaluation point of f)."""
import math, os, re, struct, threading
from vlib import guarded_main

DBL_MAX = 1.7976931348623157e308
KEY_NAN = "confine:getNextRootEstimate:nan-estimate"
KEY_OVF = "confine:getNextRootEstimate:midpoint-overflow"


def bits(x):
    return "nan" if x != x else struct.pack(">d", x).hex()


def hx(x):  # text for the C++ driver
    if x != x:
        return "nan"
    if math.isinf(x):
        return "inf" if x > 0 else "-inf"
    return x.hex()


def cq(x):  # Coq literal
    if x != x:
        return "nan"
    if math.isinf(x):
        return "infinity" if x > 0 else "neg_infinity"
    if x == 0:
        return "(-0)" if math.copysign(1, x) < 0 else "0"
    h = x.hex()
    return "(%s)" % h if h.startswith("-") else h


def cql(v):
    return "[" + "; ".join(cq(x) for x in v) + "]"


class Case:
    def __init__(self, cid, pieces, dv, dd, k, e1, e2, n, x0, im, a, b):
        self.id, self.pieces, self.dv, self.dd, self.k, self.e1, self.e2, self.n = cid, pieces, dv, dd, k, e1, e2, n
        self.x0, self.im, self.a, self.b = x0, im, a, b

    def line(self):
        t = [self.id, str(len(self.pieces))]
        for (bd, cv, cd) in self.pieces:
            t += [hx(bd), str(len(cv))] + [hx(x) for x in cv] + [str(len(cd))] + [hx(x) for x in cd]
        t += [str(len(self.dv))] + [hx(x) for x in self.dv] + [str(len(self.dd))] + [hx(x) for x in self.dd]
        t += [str(self.k), hx(self.e1), hx(self.e2), str(self.n), hx(self.x0), str(self.im), hx(self.a), hx(self.b)]
        return " ".join(t)

    def coq(self, variant):
        ps = "[" + "; ".join("(%s, %s, %s)" % (cq(bd), cql(cv), cql(cd)) for (bd, cv, cd) in self.pieces) + "]"
        return "(%s, %s, %s, %d%%nat, %s, %s, %d%%nat, %s, %d%%nat, %s, %s)" % (
            ps, cql(self.dv), cql(self.dd), self.k, cq(self.e1), cq(self.e2), self.n, cq(self.x0), self.im,
            cq(self.a), cq(self.b))

    def json(self):
        return {"id": self.id, "pieces(bound,value_coefs,derivative_coefs)": [[hx(b), [hx(x) for x in cv], [hx(x) for x in cd]] for (b, cv, cd) in self.pieces],
                "default_value_coefs": [hx(x) for x in self.dv], "default_derivative_coefs": [hx(x) for x in self.dd],
                "criterion_kind": self.k, "e1": hx(self.e1), "e2": hx(self.e2), "n": self.n, "x0": hx(self.x0), "im": self.im,
                "xmin0": hx(self.a), "xmax0": hx(self.b), "driver_line": self.line(),
                "how": "props/C09/driver.cxx <file with driver_line>; f(x) = first piece with x <= bound (Horner, c0 + x*(c1 + ...)), else default"}


NAN, INF = float("nan"), float("inf")
TINY = 5e-321


def named_cases():
    cs = []
    # F9-a / F9-b (the witnesses of coq/C09Refute.v)
    cs.append(Case("F9a", [(0.0, [0.0], [0.0])], [TINY], [0.0], 2, 0.0, 0.0, 0, 0.5, 10, 0.0, 1.0))
    cs.append(Case("F9b", [(1.3e308, [-0.01], [0.0])], [0.01], [0.0], 2, 0.0, 0.0, 0, 1e308, 5, 1e308, 1.7e308))
    # upstream test: sqrt(13) from 0.1
    cs.append(Case("sqrt13", [], [-13.0, 0.0, 1.0], [0.0, 2.0], 0, 1e-12, 0.0, 0, 0.1, 100, NAN, NAN))
    cs.append(Case("sqrt13b", [], [-13.0, 0.0, 1.0], [0.0, 2.0], 4, 1e-12, 1e-9, 0, 0.1, 100, 0.0, 10.0))
    cs.append(Case("im0", [], [-13.0, 0.0, 1.0], [0.0, 2.0], 3, 0.0, 0.0, 0, 0.1, 0, 0.0, 10.0))
    cs.append(Case("flat", [], [1.0], [0.0], 0, 1e-12, 0.0, 0, 0.3, 7, NAN, NAN))
    cs.append(Case("nanf", [], [NAN], [NAN], 3, 0.0, 0.0, 0, 0.3, 7, -1.0, 1.0))
    cs.append(Case("atan-like", [(-1.0, [-1.0], [0.0]), (1.0, [0.0, 1.0], [1.0])], [1.0], [0.0], 0, 1e-9, 0.0, 0, 5.0, 20, -3.0, 4.0))
    # cubic with non-monotone region and bracket
    cs.append(Case("cubic", [], [1.0, -3.0, 0.0, 1.0], [-3.0, 0.0, 3.0], 0, 1e-10, 0.0, 0, 1.0, 50, -3.0, 0.0))
    cs.append(Case("bigbr", [(0.0, [-1.0], [0.0])], [1.0], [0.0], 2, 0.0, 0.0, 0, 0.0, 6, -1.7e308, 1.7e308))
    # brackets whose ends are odd multiples of the smallest subnormal (halving inexact: the midpoint law of C09B64 at work),
    # straddling zero, across the subnormal/normal border, and the widest bracket; zero derivative -> bisection only
    U = 5e-324
    for (nm, a, b, thr) in [("sub1-3", U, 3 * U, U), ("sub3-5", 3 * U, 5 * U, 4 * U), ("sub-1+1", -U, U, -U), ("sub-3+7", -3 * U, 7 * U, 2 * U),
                            ("sub1-2", U, 2 * U, U), ("subnorm", 2.2250738585072009e-308, 2.2250738585072024e-308, 2.2250738585072014e-308),
                            ("sub7-1e300", 7 * U, 1e300, 1e-300), ("maxbr", -DBL_MAX, DBL_MAX, 1e300), ("maxpos", 1.7976931348623155e308, DBL_MAX, 1.7976931348623155e308)]:
        cs.append(Case(nm, [(thr, [-1.0], [0.0])], [1.0], [0.0], 2, 0.0, 0.0, 0, a, 12, a, b))
        cs.append(Case(nm + "r", [(thr, [1.0], [0.0])], [-TINY], [0.0], 2, 0.0, 0.0, 0, b, 12, b, a))
    return cs


def grid_cases(quick):
    """two-region step functions: every combination of special value / derivative classes (exhaustive)"""
    vals = [NAN, INF, -INF, 0.0, -1.0, 1.0, TINY]
    ders = [0.0, 1.0, -1.0, NAN, INF]
    cs = []
    for i1, v1 in enumerate(vals):
        for j1, d1 in enumerate(ders):
            for i2, v2 in enumerate(vals):
                for j2, d2 in enumerate(ders):
                    for (bi, (a, b, x0)) in enumerate([(NAN, NAN, 0.25), (0.0, 1.0, 0.75)] if quick else
                                                      [(NAN, NAN, 0.25), (0.0, 1.0, 0.75), (1.0, NAN, 0.5), (0.25, 1e308, 3.0)]):
                        cs.append(Case("g%d.%d.%d.%d.%d" % (i1, j1, i2, j2, bi), [(0.5, [v1], [d1])], [v2], [d2],
                                       5, 0.0, 0.0, 2, x0, 4, a, b))
    return cs


def random_cases(rng, n):
    cs = []
    specials = [NAN, INF, -INF, 0.0, -0.0, TINY, -TINY, 1e308, -1e308, 1.7e308, 2.2e-308]

    def num(scale=1.0, pspecial=0.08):
        if rng.random() < pspecial:
            return rng.choice(specials)
        r = rng.random()
        if r < 0.6:
            return rng.uniform(-3, 3) * scale
        if r < 0.8:
            return float(rng.randint(-4, 4))
        return rng.uniform(-1, 1) * 10.0 ** rng.randint(-12, 12)

    def poly(true_derivative):
        deg = rng.randint(0, 4)
        cv = [num() for _ in range(deg + 1)]
        if true_derivative:
            cd = [k * cv[k] for k in range(1, deg + 1)] or [0.0]
        else:
            cd = [num() for _ in range(rng.randint(1, 3))]
        return cv, cd

    for t in range(n):
        np_ = rng.choice([0, 0, 1, 1, 2, 3])
        bounds = sorted(num(pspecial=0.02) for _ in range(np_))
        bounds = [b for b in bounds if b == b]
        pieces = []
        td = rng.random() < 0.7
        for bd in bounds:
            cv, cd = poly(td)
            pieces.append((bd, cv, cd))
        dv, dd = poly(td)
        k = rng.choice([0, 0, 0, 1, 2, 3, 4, 5])
        e1 = rng.choice([1e-12, 1e-6, 1e-3, 0.0, NAN, INF, 1.0])
        e2 = rng.choice([1e-9, 1e-3, INF, 1.0])
        im = rng.choice([0, 1, 2, 3, 5, 8, 13, 30, 60])
        r = rng.random()
        if r < 0.3:
            a, b = NAN, NAN
        elif r < 0.85:
            a, b = num(pspecial=0.03), num(pspecial=0.03)
        elif r < 0.93:
            a, b = num(), NAN
        else:
            a, b = rng.choice([(1e308, 1.7e308), (-1.7e308, 1.7e308), (-1.7e308, -1e308), (0.0, TINY), (-TINY, TINY)])
        cs.append(Case("r%d" % t, pieces, dv, dd, k, e1, e2, rng.randint(0, 6), num(), im, a, b))
    return cs


def pf(s):
    return float(s) if s != "nan" else NAN


def parse_driver(out):
    res = {}
    for l in out.splitlines():
        t = l.split()
        if not t or t[0] != "R":
            continue
        cid, conv, x, i, nc = t[1], t[2] == "1", float.fromhex(t[3]) if t[3] != "nan" else NAN, int(t[4]), int(t[5])
        p = 6
        calls = []
        for _ in range(nc):
            calls.append(tuple(float.fromhex(u) if u != "nan" else NAN for u in t[p:p + 3]))
            p += 3
        ncr = int(t[p]); p += 1
        crits = []
        for _ in range(ncr):
            f3 = [float.fromhex(u) if u != "nan" else NAN for u in t[p:p + 3]]
            crits.append((f3[0], f3[1], f3[2], int(t[p + 3]), t[p + 4] == "1"))
            p += 5
        res[cid] = (conv, x, i, calls, crits)
    return res


def sign(v):
    return (1 if 0 < v else 0) - (1 if v < 0 else 0)


def spec_check(case, obs):
    """independent statement of the property on what was observed of the real code; returns list of (key, what)"""
    conv, x, i, calls, crits = obs
    bad = []
    if conv:
        at = [cl for cl in calls if bits(cl[0]) == bits(x)]
        ok = math.isfinite(x) and at and math.isfinite(at[-1][1]) and any(
            r and bits(cx) == bits(x) and ci == i and bits(cf) == bits(at[-1][1]) for (cf, cdx, cx, ci, r) in crits)
        if not ok:
            bad.append(("sound:%s" % case.id, "convergence claimed with x=%r i=%d but x or f(x) is not finite, or the criterion was not true on (f(x), x, i), or f was never evaluated at x" % (x, i)))
    if not (0 <= i <= case.im) or len(calls) > 3 + 2 * case.im or (case.im == 0 and calls):
        bad.append(("budget:%s" % case.id, "iteration counter %d / %d evaluations for im=%d" % (i, len(calls), case.im)))
    a, b = case.a, case.b
    if math.isfinite(a) and math.isfinite(b) and len(calls) >= 3:
        fa, fb = calls[1][1], calls[2][1]
        if math.isfinite(fa) and math.isfinite(fb) and sign(fa) != sign(fb):
            lo, hi = min(a, b), max(a, b)
            for (cx, _fv, _d) in calls[3:]:
                if not (lo <= cx <= hi):
                    if cx != cx:
                        key = KEY_NAN
                    elif math.isinf(cx) and max(abs(lo), abs(hi)) > DBL_MAX / 2:
                        key = KEY_OVF
                    else:
                        key = "confine:%s" % case.id
                    bad.append((key, "valid sign-changing bracket [%r, %r] (f = %r, %r) but the user function is then evaluated at %r (case %s)" % (
                        lo, hi, fa, fb, cx, case.id)))
                    break
    return bad


def parse_term(txt):
    """Coq-printed term made of lists [a; b], tuples (a, b) and atoms -> nested Python lists / tuples / strings"""
    toks = re.findall(r"[\[\]();,]|[^\s\[\]();,]+", txt)
    pos = [0]

    def term():
        t = toks[pos[0]]
        pos[0] += 1
        if t == "[" or t == "(":
            close = "]" if t == "[" else ")"
            items = []
            while toks[pos[0]] != close:
                items.append(term())
                if toks[pos[0]] in (";", ","):
                    pos[0] += 1
            pos[0] += 1
            return items if t == "[" else tuple(items)
        return t
    return term()


def parse_coq(out):
    """results of the `Eval vm_compute in map run1 [...]` commands, concatenated"""
    def fl(s):
        return {"nan": NAN, "infinity": INF, "neg_infinity": -INF}[s] if s in ("nan", "infinity", "neg_infinity") else float(s)
    res = []
    for m in re.finditer(r"^\s+= (.*?)^\s+: ", out, flags=re.S | re.M):
        for t in parse_term(m.group(1)):
            try:
                res.append((t[0] == "true", fl(t[1]), int(t[2].replace("%Z", "")), [fl(u) for u in t[3]]))
            except (KeyError, ValueError, IndexError, TypeError):
                res.append(None)
    return res


MODEL = ["C09Model.v", "C09Spec.v", "C09Float.v"]


def main(c):
    exe = c.cxx("driver", ["driver.cxx"], flags=["-ffp-contract=off"])
    if c.replay and "driver_line" in c.replay.get("replay", {}):
        cases = None
        line = c.replay["replay"]["driver_line"]
    cases = named_cases() + grid_cases(c.quick()) + random_cases(c.rng, c.pick(1500, 20000))
    byid = {cs.id: cs for cs in cases}
    inp = os.path.join(c.work, "cases.txt")
    with open(inp, "w") as f:
        f.write("\n".join(cs.line() for cs in cases) + "\n")
    rc, out, err = c.run([exe, inp], timeout=600)
    if rc != 0:
        c.report("run", "driver failed (rc=%d): %s" % (rc, err[-500:]), {"stderr": err[-3000:]}, False)
        return
    c.log('driver ran %d cases' % len(cases))
    obs = parse_driver(out)
    if len(obs) != len(cases):
        c.report("run", "driver printed %d results for %d cases" % (len(obs), len(cases)), {}, False)
        return
    # ---- independent property statement on the observations of the real code
    nvalid = 0
    for cs in cases:
        o = obs[cs.id]
        nontrivial = len(o[3]) > 3 or o[0]
        c.count(1, cs.id, nontrivial)
        for (key, what) in spec_check(cs, o):
            c.report(key, what, cs.json(), True)
    finding = [k for k in (KEY_NAN, KEY_OVF) if k in c.known_hits or any(v[0] == k for v in c.violations)]
    variant = "Pinned" if finding else "NaNSafe"
    c.log("getNextRootEstimate variant implemented by the tree:", variant, "(escape keys observed: %s)" % finding)
    # ---- theorems: compiled in two threads next to the model evaluation (3 coqc at a time)
    base = c.coq(MODEL, timeout=600)
    scratch_model = [os.path.join(c.work, "coq", f) for f in MODEL]   # already compiled: coq_eval does not touch them again
    thm = {}

    def comp(key, fl):
        thm[key] = c.coq(fl, timeout=900)
    if variant == "Pinned":
        groups = {"A": ["C09Proofs.v", "C09ER.v", "Properties_C09.v"], "B": ["C09Refute.v", "Properties_C09_refuted.v"]}
        c.notes.append("finding F9 present: confinement theorem replaced by its refutation (Properties_C09_refuted.v); "
                       "the positive theorems Properties_C09_confined.v / Properties_C09_binary64.v are the obligations once the repair is in")
    else:
        # confinement for every scalar type satisfying the laws (A), the laws for binary64 = the executed table `fops` (B, Flocq)
        groups = {"A": ["C09Proofs.v", "C09ER.v", "Properties_C09.v", "C09Confine.v", "Properties_C09_confined.v"],
                  "B": ["C09Mid.v", "C09B64.v"]}
    ths = [threading.Thread(target=comp, args=kv) for kv in groups.items()] if base.ok else []
    for t in ths:
        t.start()
    # ---- correspondence: model on primitive floats vs real code, bit-exact
    mism = []
    chunk = 6000
    nmodel = 0
    for k0 in range(0, len(cases), chunk):
        sub = cases[k0:k0 + chunk]
        txt = ("From Coq Require Import Floats List ZArith.\nFrom C09 Require Import C09Model C09Float.\nImport ListNotations.\n"
               "Open Scope float_scope.\n" + "".join(
                   "Eval vm_compute in map (run1 %s) [\n%s].\n" % (variant, ";\n".join(cs.coq(variant) for cs in sub[j:j + 500]))
                   for j in range(0, len(sub), 500)))
        rc, out, err = c.coq_eval(scratch_model if base.ok else MODEL, txt, timeout=900)
        if rc != 0:
            c.report("model-run", "model evaluation failed: " + err[-600:], {"stderr": err[-3000:]}, False)
            for t in ths:
                t.join()
            return
        c.log('model evaluated on %d cases' % len(sub))
        mres = parse_coq(out)
        if len(mres) != len(sub):
            c.report("model-run", "model printed %d results for %d cases" % (len(mres), len(sub)), {"stdout": out[-2000:]}, False)
            for t in ths:
                t.join()
            return
        for cs, m in zip(sub, mres):
            o = obs[cs.id]
            nmodel += 1
            same = (m is not None and m[0] == o[0] and bits(m[1]) == bits(o[1]) and m[2] == o[2] and
                    [bits(x) for x in m[3]] == [bits(cl[0]) for cl in o[3]])
            if not same:
                mism.append((cs, m, o))
            elif nmodel % 487 == 3:
                c.sample({"case": cs.id, "converged": o[0], "x": hx(o[1]), "i": o[2], "evaluations": [hx(cl[0]) for cl in o[3]][:8]})
    c.log('compared')
    c.coverage["traces_validated_against_impl"] = nmodel
    c.coverage["rule"] = ("named witnesses and textbook cases; exhaustive grid of two-region step functions over 7 value classes x 5 derivative "
                          "classes per region x bracket/no bracket (%s); %d seeded random piecewise-polynomial functions (true or arbitrary "
                          "derivative data, NaN/inf/subnormal/huge coefficients, brackets valid/invalid/huge/one-sided, 6 criteria, budgets 0..60); "
                          "compared bit for bit: converged, x, i and the full sequence of evaluation points. non-trivial = iterated beyond the initial evaluations or converged"
                          % ("2 configurations" if c.quick() else "4 configurations", c.pick(1500, 20000)))
    c.trusted("hand-written Gallina model coq/C09Model.v (tied to /repo by bit-exact differential execution only)",
              "C++ driver props/C09/driver.cxx (Horner/piecewise interpreter, logging) and its Coq twin coq/C09Float.v",
              "g++ -O1 -ffp-contract=off x86-64 SSE2 double arithmetic = IEEE-754 binary64 = Coq primitive floats",
              "Flocq 4.1.0 (IEEE754.BinarySingleNaN, IEEE754.PrimFloat) and the FloatAxioms of Coq's standard library: specification of the primitive float operations",
              "Python differ and float parsing (hex <-> 17-digit decimal)")
    if mism:
        # concrete failing inputs, if any, have been reported above by the independent spec
        cs, m, o = mism[0]
        found = any(v[3] for v in c.violations)
        c.report("corr:" + cs.id, "model (%s variant) and real code disagree on %d/%d cases, first: %s model=%s code=%s" % (
            variant, len(mism), nmodel, cs.id, None if m is None else (m[0], hx(m[1]), m[2], [hx(x) for x in m[3]][:12]),
            (o[0], hx(o[1]), o[2], [hx(cl[0]) for cl in o[3]][:12])), cs.json(), False)
        if found:
            c.notes.append("correspondence broken; concrete property failures found by the independent spec are reported above")
    # ---- theorems (threads started above)
    for t in ths:
        t.join()
    results = [base] + list(thm.values())
    if variant != "Pinned" and all(r.ok for r in results):
        results.append(c.coq(["Properties_C09_binary64.v"], timeout=600))
    for res in results:
        if not res.ok:
            c.coq_failures(res)
    c.coverage["checker_cmd"] = ("coqc -Q coq/lib VLib -R <scratch> C09 C09Model.v C09Spec.v C09Float.v C09Proofs.v C09ER.v Properties_C09.v " +
                                 ("C09Refute.v Properties_C09_refuted.v" if variant == "Pinned" else
                                  "C09Confine.v Properties_C09_confined.v C09Mid.v C09B64.v Properties_C09_binary64.v") + " (Coq 8.16.1, Flocq 4.1.0)")
    c.assumptions.append("IndexType modelled as nat (im >= 0); user function and criterion are pure functions of their arguments")
    c.assumptions.append("confinement theorem C09_confined: scalar type satisfies C09Spec.laws (order laws + xmin/2+xmax/2 lies in [xmin,xmax] for "
                         "different finite xmin <= xmax); the laws are proved for exact extended rationals and for binary64 (C09_laws_binary64: Flocq "
                         "BinarySingleNaN + Coq FloatAxioms), so C09_confined_binary64 has no hypothesis on the arithmetic")


guarded_main("C09", main)

// C09 driver: runs the REAL tfel::math::scalarNewtonRaphson (double, int) on user functions / criteria given as data
// (piecewise Horner polynomials with independent "derivative" data, see coq/C09Float.v for the same format) and
// prints everything observable: returned triple, every evaluation of the user function, every criterion call.
// Must be compiled with -ffp-contract=off (bit-exact comparison with the Coq primitive-float model).
#include <cmath>
#include <cstdio>
#include <cstdlib>
#include <fstream>
#include <iostream>
#include <sstream>
#include <string>
#include <tuple>
#include <vector>
#include "TFEL/Config/TFELConfig.hxx"  // ScalarNewtonRaphson.hxx is not self-contained (TFEL_HOST_DEVICE)
#include "TFEL/Math/ScalarNewtonRaphson.hxx"

struct Piece {
  double bound;
  std::vector<double> cv, cd;
};
static double horner(const std::vector<double>& cs, const double x) {
  volatile double acc = 0;
  for (auto it = cs.rbegin(); it != cs.rend(); ++it) {
    volatile double t = x * acc;
    acc = *it + t;
  }
  return acc;
}
static double rd(std::istream& is) {
  std::string s;
  is >> s;
  if (s == "nan") return std::nan("");
  if (s == "inf") return HUGE_VAL;
  if (s == "-inf") return -HUGE_VAL;
  return std::strtod(s.c_str(), nullptr);
}
static std::vector<double> rdv(std::istream& is) {
  int n;
  is >> n;
  std::vector<double> v(n);
  for (auto& x : v) x = rd(is);
  return v;
}
static void pr(const double x) {
  if (std::isnan(x)) std::printf(" nan");
  else std::printf(" %a", x);
}

int main(int argc, char** argv) {
  if (argc < 2) return 2;
  std::ifstream in(argv[1]);
  std::string line;
  while (std::getline(in, line)) {
    if (line.empty()) continue;
    std::istringstream is(line);
    std::string id;
    int np;
    is >> id >> np;
    std::vector<Piece> ps(np);
    for (auto& p : ps) {
      p.bound = rd(is);
      p.cv = rdv(is);
      p.cd = rdv(is);
    }
    const auto dv = rdv(is);
    const auto dd = rdv(is);
    int k, n, im;
    is >> k;
    const double e1 = rd(is), e2 = rd(is);
    is >> n;
    const double x0 = rd(is);
    is >> im;
    const double a = rd(is), b = rd(is);
    std::vector<std::tuple<double, double, double>> calls;
    std::vector<std::tuple<double, double, double, int, bool>> crits;
    auto f = [&](const double x) {
      double fv, dfv;
      bool done = false;
      for (const auto& p : ps) {
        if (x <= p.bound) {
          fv = horner(p.cv, x);
          dfv = horner(p.cd, x);
          done = true;
          break;
        }
      }
      if (!done) {
        fv = horner(dv, x);
        dfv = horner(dd, x);
      }
      calls.push_back({x, fv, dfv});
      return std::make_tuple(fv, dfv);
    };
    auto c = [&](const double fv, const double dx, const double x, const int i) {
      bool r;
      switch (k) {
        case 0: r = std::fabs(fv) < e1; break;
        case 1: r = std::fabs(dx) < e1; break;
        case 2: r = false; break;
        case 3: r = true; break;
        case 4: r = (std::fabs(fv) < e1) && (std::fabs(dx) < e2); break;
        default: r = i >= n;
      }
      crits.push_back({fv, dx, x, i, r});
      return r;
    };
    tfel::math::ScalarNewtonRaphsonParameters<double, int> p;
    p.x0 = x0;
    p.im = im;
    p.xmin0 = a;
    p.xmax0 = b;
    const auto r = tfel::math::scalarNewtonRaphson(f, c, p);
    std::printf("R %s %d", id.c_str(), std::get<0>(r) ? 1 : 0);
    pr(std::get<1>(r));
    std::printf(" %d %zu", std::get<2>(r), calls.size());
    for (const auto& t : calls) {
      pr(std::get<0>(t));
      pr(std::get<1>(t));
      pr(std::get<2>(t));
    }
    std::printf(" %zu", crits.size());
    for (const auto& t : crits) {
      pr(std::get<0>(t));
      pr(std::get<1>(t));
      pr(std::get<2>(t));
      std::printf(" %d %d", std::get<3>(t), std::get<4>(t) ? 1 : 0);
    }
    std::printf("\n");
  }
  return 0;
}

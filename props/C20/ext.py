"""C20 extension: quantities inside tvector / stensor / st2tost2, math functions, element access, qt_ref / const_qt_ref / views.
Same three-way comparison as check.py (g++ verdict by requires-probes / Gallina model typeofX, acceptsX by vm_compute / independent
exact dimensional analysis below) plus the unit g++ computes for the elements (numeric_type of the result) and value
transparency component by component.  AST: ('var', i) ('lit', k) ('add'|'sub'|'mul'|'div'|'inner'|'dyad', a, b) ('neg', a)
('pow', n, d, a) ('sqrt', a) ('sqrtraw', a) ('cbrt', a) ('abs', a) ('fn', k, a) ('elem', a)."""
import os, re, struct
from fractions import Fraction as Fr

ZERO = tuple(Fr(0) for _ in range(7))
N = 2                                         # space dimension of the tensors
SHAPES = ["Sc", "Vec", "Sym", "T4"]
NCOMP = {"Sc": 1, "Vec": 2, "Sym": 4, "T4": 16}
FNS = ["std::exp", "std::log", "std::sin", "std::cos", "std::tanh", "std::sqrt", "std::cbrt"]
BIN = {"add": "+", "sub": "-", "mul": "*", "div": "/", "inner": "|", "dyad": "^"}


class Decl:
    def __init__(self, shape, unit, kind="own"):
        """kind: own (qt / tensor of qt), ref (qt_ref or View), cref (const_qt_ref or View of const), plain (double elements)"""
        self.shape, self.unit, self.kind = shape, unit, kind
        self.mut = kind != "cref"


def shape_mul(a, b):
    if a == "Sc":
        return b
    if b == "Sc":
        return a
    if a == "T4" and b in ("Sym", "T4"):
        return b
    raise ValueError("shape")


def py_x(e, D):
    """independent statement: (shape, dimension) with exact fractions; dimension None = plain number; raises on error"""
    t = e[0]
    if t == "var":
        return D[e[1]].shape, D[e[1]].unit
    if t == "lit":
        return "Sc", None
    if t == "neg":
        return py_x(e[1], D)
    if t in ("pow", "sqrt", "sqrtraw", "cbrt", "abs", "fn"):
        s, d = py_x(e[-1], D)
        if s != "Sc":
            raise ValueError("shape")
        if t == "abs":
            return s, d
        if t == "fn":
            if (d or ZERO) != ZERO:
                raise ValueError("function of a quantity with a unit")
            return s, None
        r = Fr(e[1], e[2]) if t == "pow" else (Fr(1, 3) if t == "cbrt" else Fr(1, 2))
        return s, (None if d is None else tuple(q * r for q in d))
    if t == "elem":
        s, d = py_x(e[1], D)
        if s == "Sc":
            raise ValueError("shape")
        return "Sc", d
    (sa, a), (sb, b) = py_x(e[1], D), py_x(e[2], D)
    if t in ("add", "sub"):
        if sa != sb:
            raise ValueError("shape")
        if (a or ZERO) != (b or ZERO):
            raise ValueError("dimension mismatch")
        return sa, (None if (a is None and b is None) else (a or ZERO))
    if t == "div":
        if sb != "Sc":
            raise ValueError("shape")
        s = sa
        if a is None and b is None:
            return s, None
        return s, tuple(x - y for x, y in zip(a or ZERO, b or ZERO))
    if t == "mul":
        s = shape_mul(sa, sb)
    elif t == "inner":
        if sa != sb or sa not in ("Sym", "Vec"):
            raise ValueError("shape")
        s = "Sc"
    else:
        if sa != "Sym" or sb != "Sym":
            raise ValueError("shape")
        s = "T4"
    if a is None or b is None:
        return s, (a if b is None else b)
    return s, tuple(x + y for x, y in zip(a, b))


def py_ok(s, D):
    try:
        if s[0] == "eval":
            py_x(s[1], D)
            return True
        if s[0] == "cmp":
            (sa, a), (sb, b) = py_x(s[1], D), py_x(s[2], D)
            return sa == "Sc" and sb == "Sc" and (a or ZERO) == (b or ZERO)
        d = D[s[1]]
        se, de = py_x(s[2], D)
        if s[0] == "assign":
            return d.mut and d.shape == se and (d.unit or ZERO) == (de or ZERO)
        if s[0] == "aelem":
            return d.mut and d.shape != "Sc" and se == "Sc" and (d.unit or ZERO) == (de or ZERO)
        if s[0] == "scale":
            return d.mut and se == "Sc" and (de or ZERO) == ZERO
    except ValueError:
        return False


# ---------------------------------------------------------------- printers
def coq_e(e):
    t = e[0]
    if t == "var":
        return "(XVar %d)" % e[1]
    if t == "lit":
        return "(XLit %d)" % e[1]
    if t == "pow":
        return "(XPow (%d) %d %s)" % (e[1], e[2], coq_e(e[3]))
    if t == "fn":
        return "(XFn %d %s)" % (e[1], coq_e(e[2]))
    if t == "sqrtraw":
        return "(XSqrt %s)" % coq_e(e[1])
    if len(e) == 2:
        return "(X%s %s)" % (t.capitalize(), coq_e(e[1]))
    return "(X%s %s %s)" % (t.capitalize(), coq_e(e[1]), coq_e(e[2]))


def coq_s(s):
    if s[0] == "eval":
        return "(XEval %s)" % coq_e(s[1])
    if s[0] == "cmp":
        return "(XCmp %s %s)" % (coq_e(s[1]), coq_e(s[2]))
    return "(%s %d %s)" % ({"assign": "XAssign", "aelem": "XAssignElem", "scale": "XScale"}[s[0]], s[1], coq_e(s[2]))


def lit(k):
    return "%.2f" % (1.5 + 0.25 * k)


def idx(shape):
    return "(0, 1)" if shape == "T4" else "(1)"


def cpp_e(e, D, plain=False):
    t = e[0]
    r = lambda x: cpp_e(x, D, plain)
    if t == "var":
        return ("z.x%d" if plain else "z.v%d") % e[1]
    if t == "lit":
        return lit(e[1])
    if t == "neg":
        return "(-%s)" % r(e[1])
    if t == "pow":
        return "tfel::math::power<%d, %du>(%s)" % (e[1], e[2], r(e[3]))
    if t == "cbrt":
        return "tfel::math::power<1, 3u>(%s)" % r(e[1])
    if t == "sqrt":
        return ("std::sqrt(%s)" if plain else "vsqrt(%s)") % r(e[1])
    if t == "sqrtraw":
        return ("std::sqrt(%s)" if plain else "tfel::math::square_root(%s)") % r(e[1])
    if t == "abs":
        return "tfel::math::abs(%s)" % r(e[1])
    if t == "fn":
        return "%s(%s)" % (FNS[e[1]], r(e[2]))
    if t == "elem":
        try:
            sh = py_x(e[1], D)[0]
        except ValueError:
            sh = "Sym"
        return "(%s)%s" % (r(e[1]), idx(sh))
    return "(%s %s %s)" % (r(e[1]), BIN[t], r(e[2]))


CMPOPS = ["<", "<=", ">", ">=", "==", "!="]


def cpp_s(s, k, D):
    if s[0] == "eval":
        return cpp_e(s[1], D)
    if s[0] == "cmp":
        return "%s %s %s" % (cpp_e(s[1], D), CMPOPS[k % 6], cpp_e(s[2], D))
    if s[0] == "assign":
        return "z.v%d %s %s" % (s[1], ["=", "+=", "-="][k % 3], cpp_e(s[2], D))
    if s[0] == "aelem":
        op = "=" if D[s[1]].kind == "plain" else ["=", "+=", "-="][k % 3]   # double += qt<NoUnit>: no implicit conversion for built-in compound assignment
        return "z.v%d%s %s %s" % (s[1], idx(D[s[1]].shape), op, cpp_e(s[2], D))
    return "z.v%d %s %s" % (s[1], ["*=", "/="][k % 2], cpp_e(s[2], D))


def cpp_type(d, cpp_unit, plain=False):
    el = "double" if (plain or d.kind == "plain") else "qt<%s>" % cpp_unit(d.unit)
    if d.shape == "Sc":
        if plain or d.kind == "plain":
            return "double"
        return {"own": "qt<%s>", "ref": "qt_ref<%s, double>", "cref": "const_qt_ref<%s, double>"}[d.kind] % cpp_unit(d.unit)
    obj = {"Vec": "tvector<%d, %s>", "Sym": "stensor<%d, %s>", "T4": "st2tost2<%d, %s>"}[d.shape] % (N, el)
    if plain or d.kind in ("own", "plain"):
        return obj
    return "View<%s>" % obj if d.kind == "ref" else "View<const %s>" % obj


def coq_decl(d, coq_unit):
    return "mkdecl %s %s %s" % (d.shape, "TS" if d.unit is None else "(TQ %s)" % coq_unit(d.unit), "true" if d.mut else "false")


# ---------------------------------------------------------------- generator
class GenX:
    def __init__(self, rng, D, base):
        self.r, self.D, self.base = rng, D, base
        self.by = {s: [i for i, d in enumerate(D) if d.shape == s] for s in SHAPES}

    def dim(self, e):
        return py_x(e, self.D)[1] or ZERO

    def factor(self, u):
        e = None
        for i, q in enumerate(u):
            if q == 0:
                continue
            v = ("var", self.base[i])
            if q == 1:
                f = v
            elif q == Fr(1, 2) and self.r.random() < 0.5:
                f = ("sqrt", v)
            elif q == Fr(1, 3) and self.r.random() < 0.5:
                f = ("cbrt", v)
            else:
                f = ("pow", q.numerator, q.denominator, v)
            e = f if e is None else ("mul", e, f)
        return e if e is not None else ("lit", 2)

    def fix(self, e, want):
        """multiply e (any shape) by a scalar so that its dimension becomes `want`"""
        diff = tuple(a - b for a, b in zip(want, self.dim(e)))
        if diff == ZERO:
            return e
        return ("mul", e, self.factor(diff)) if self.r.random() < 0.7 else ("mul", self.factor(diff), e)

    def var(self, shape):
        return ("var", self.r.choice(self.by[shape]))

    def noabs(self, e):
        """tfel::math::abs(qt_ref) is a hard error (NumericType(0) of a reference): not probed"""
        if e[0] == "var":
            return self.D[e[1]].kind in ("ref", "cref")
        return e[0] == "elem" and e[1][0] == "var" and self.D[e[1][1]].kind in ("ref", "cref")

    def sums(self, shape, depth, good):
        a, b = self.gen(shape, depth - 1), self.gen(shape, depth - 1)
        try:
            da = self.dim(a)
            self.dim(b)
        except ValueError:
            return (self.r.choice(["add", "sub"]), a, b)
        if good:
            b = self.fix(b, da)
        elif self.r.random() < 0.5:
            w = list(da)
            w[self.r.choice([0, 1, 2, 4])] += self.r.choice([Fr(1), Fr(-1), Fr(1, 2), Fr(1, 3)])
            b = self.fix(b, tuple(w))
        return (self.r.choice(["add", "sub"]), a, b)

    def gen(self, shape, depth):
        r = self.r
        if depth <= 0 or r.random() < 0.2:
            if shape == "Sc" and r.random() < 0.12:
                return ("lit", r.randrange(6))
            return self.var(shape)
        if r.random() < 0.25:
            return self.sums(shape, depth, r.random() < 0.75)
        k = r.random()
        if shape == "Sc":
            if k < 0.2:
                return ("mul", self.gen("Sc", depth - 1), self.gen("Sc", depth - 1))
            if k < 0.35:
                return ("div", self.gen("Sc", depth - 1), self.gen("Sc", depth - 1))
            if k < 0.4:
                return ("neg", self.gen("Sc", depth - 1))
            if k < 0.48:
                n, d = r.choice([(2, 1), (3, 1), (-1, 1), (1, 2), (1, 3), (3, 2), (-1, 2), (2, 3)])
                return ("pow", n, d, self.gen("Sc", depth - 1))
            if k < 0.56:
                return ("sqrt", self.gen("Sc", depth - 1))
            if k < 0.62:
                return ("cbrt", self.gen("Sc", depth - 1))
            if k < 0.68:
                a = self.gen("Sc", depth - 1)
                return ("neg", a) if self.noabs(a) else ("abs", a)
            if k < 0.8:
                a = self.gen("Sc", depth - 1)
                if r.random() < 0.7:
                    try:
                        a = self.fix(a, ZERO)
                    except ValueError:
                        pass
                return ("fn", r.randrange(len(FNS)), a)
            if k < 0.92:
                sh = r.choice(["Sym", "Sym", "Vec"])
                return ("inner", self.gen(sh, depth - 1), self.gen(sh, depth - 1))
            sh = r.choice(["Vec", "Sym", "T4"])
            return ("elem", self.gen(sh, depth - 1))
        if k < 0.2:
            return ("mul", self.gen("Sc", depth - 1), self.gen(shape, depth - 1))
        if k < 0.35:
            return ("mul", self.gen(shape, depth - 1), self.gen("Sc", depth - 1))
        if k < 0.5:
            return ("div", self.gen(shape, depth - 1), self.gen("Sc", depth - 1))
        if k < 0.58:
            return ("neg", self.gen(shape, depth - 1))
        if shape == "Sym" and k < 0.9:
            return ("mul", self.gen("T4", depth - 1), self.gen("Sym", depth - 1))
        if shape == "T4" and k < 0.8:
            return ("dyad", self.gen("Sym", depth - 1), self.gen("Sym", depth - 1))
        if shape == "T4" and k < 0.9:
            return ("mul", self.gen("T4", depth - 1), self.gen("T4", depth - 1))
        return self.var(shape)

    def bad_shape(self):
        """statements whose shapes do not fit (all rejected by g++, by the model and by the analysis)"""
        r = self.r
        k = r.randrange(6)
        if k == 0:
            return ("eval", ("add", self.var("Sym"), self.var(r.choice(["Vec", "Sc", "T4"]))))
        if k == 1:
            return ("eval", ("div", self.var("Sc"), self.var(r.choice(["Vec", "Sym", "T4"]))))
        if k == 2:
            return ("assign", r.choice(self.by["Sym"]), self.gen(r.choice(["T4", "Vec", "Sc"]), 1))
        if k == 3:
            return ("eval", ("inner", self.var("Sym"), self.var("Vec")))
        if k == 4:
            return ("eval", ("dyad", self.var("Sym"), self.var("Vec")))
        return ("assign", r.choice(self.by["Sc"]), self.var(r.choice(["Sym", "Vec"])))

    def isref(self, e):
        """an lvalue of type qt_ref<U>: a declared qt_ref or an element of a view"""
        return (e[0] == "var" and self.D[e[1]].kind == "ref" and self.D[e[1]].shape == "Sc") or (
            e[0] == "elem" and e[1][0] == "var" and self.D[e[1][1]].kind == "ref")

    def stmt(self):
        """`qt_ref = qt_ref` of the same type is rejected by g++ (implicitly deleted copy assignment hides the template operator=): a
        completeness gap, not generated; the source is multiplied by a literal instead"""
        s = self.stmt0()
        if s[0] in ("assign", "aelem") and self.isref(s[2]) and self.D[s[1]].kind == "ref" and (s[0] == "aelem" or self.D[s[1]].shape == "Sc"):
            return (s[0], s[1], ("mul", s[2], ("lit", 2)))
        return s

    def stmt0(self):
        r = self.r
        k = r.random()
        good = r.random() < 0.6
        if k < 0.05:
            return self.bad_shape()
        if k < 0.4:
            sh = r.choice(["Sc", "Sc", "Vec", "Sym", "Sym", "T4"])
            return ("eval", self.sums(sh, 3, good) if r.random() < 0.4 else self.gen(sh, 3))
        if k < 0.52:
            a, b = self.gen("Sc", 2), self.gen("Sc", 2)
            try:
                da = self.dim(a)
                self.dim(b)
                if good:
                    b = self.fix(b, da)
            except ValueError:
                pass
            return ("cmp", a, b)
        if k < 0.8:
            i = r.randrange(len(self.D))
            e = self.gen(self.D[i].shape, 2)
            try:
                self.dim(e)
                if good:
                    e = self.fix(e, self.D[i].unit or ZERO)
            except ValueError:
                pass
            return ("assign", i, e)
        if k < 0.9:
            i = r.choice(self.by["Vec"] + self.by["Sym"] + self.by["T4"])
            e = self.gen("Sc", 2)
            try:
                self.dim(e)
                if good:
                    e = self.fix(e, self.D[i].unit or ZERO)
            except ValueError:
                pass
            return ("aelem", i, e)
        i = r.choice([j for j, d in enumerate(self.D) if d.kind != "plain" and not (d.kind == "cref" and d.shape != "Sc")])
        e = self.gen("Sc", 2)
        try:
            self.dim(e)
            if good:
                e = self.fix(e, ZERO)
        except ValueError:
            pass
        return ("scale", i, e)


PRELUDE = r'''#include <cstdio>
#include <cstring>
#include <cmath>
#include <type_traits>
#include "TFEL/Math/qt.hxx"
#include "TFEL/Math/tvector.hxx"
#include "TFEL/Math/stensor.hxx"
#include "TFEL/Math/st2tost2.hxx"
#include "TFEL/Math/Array/View.hxx"
using namespace tfel::math;
using namespace tfel::math::unit;
// does tfel::math::square_root keep the unit of its argument?
constexpr bool SQRT_KEEPS_UNIT = ImmutableQuantityConcept<std::remove_cvref_t<decltype(tfel::math::square_root(std::declval<const qt<Stress>&>()))>>;
template <typename T> requires(ImmutableQuantityConcept<T>) constexpr auto vsqrt(const T& x) {
  if constexpr (SQRT_KEEPS_UNIT) { return tfel::math::square_root(x); } else { return tfel::math::power<1, 2u>(x); }
}
inline double vsqrt(const double x) { return std::sqrt(x); }
template <typename T> struct elt_of { using type = numeric_type<T>; };
template <> struct elt_of<double> { using type = double; };
template <ImmutableQuantityConcept T> struct elt_of<T> { using type = T; };
template <typename T> using elt = typename elt_of<std::remove_cvref_t<T>>::type;
template <typename T, int... E> struct same_exps { static constexpr bool value = false; };
template <typename T> requires(std::is_same_v<std::remove_cvref_t<T>, double>) struct same_exps<T> { static constexpr bool value = true; };
template <typename T, int N1, int N2, int N3, int N4, int N5, int N6, int N7, int D1, int D2, int D3, int D4, int D5, int D6, int D7>
requires(ImmutableQuantityConcept<std::remove_cvref_t<T>>) struct same_exps<T, N1, N2, N3, N4, N5, N6, N7, D1, D2, D3, D4, D5, D6, D7> {
  static constexpr bool value = exponents<quantity_unit<std::remove_cvref_t<T>>> == makeUnitExponents<N1, N2, N3, N4, N5, N6, N7, D1, D2, D3, D4, D5, D6, D7>(); };
'''


def ctx_struct(D, cpp_unit, plain):
    return "struct Ctx { %s };" % " ".join("%s %s%d;" % (cpp_type(d, cpp_unit, plain), "x" if plain else "v", i) for i, d in enumerate(D))


def build_verdicts(c, name, progs, k0, D, cpp_unit):
    """requires-probes in a templated context (the context type is the template parameter)"""
    L = [PRELUDE, ctx_struct(D, cpp_unit, False)]
    hasu = set()
    for j, s in enumerate(progs):
        k = k0 + j
        L.append("template <typename C> constexpr bool P%d = requires(C& z) { %s; };" % (k, cpp_s(s, k, D)))
        if s[0] == "eval" and py_ok(s, D):
            d = py_x(s[1], D)[1]
            exps = "" if d is None else ", " + ", ".join(str(q.numerator) for q in d) + ", " + ", ".join(str(q.denominator) for q in d)
            L.append("template <typename C> constexpr bool U%d = requires(C& z) { requires same_exps<elt<decltype(%s)>%s>::value; };" % (k, cpp_e(s[1], D), exps))
            hasu.add(k)
    L.append('int main() {\n  std::printf("SQRT %d\\n", int(SQRT_KEEPS_UNIT));')
    for j, s in enumerate(progs):
        k = k0 + j
        L.append('  std::printf("L %d %%d %%d\\n", int(P%d<Ctx>), %s);' % (k, k, ("int(U%d<Ctx>)" % k) if k in hasu else "-1"))
    L.append("  return 0;\n}")
    tu = os.path.join(c.work, name + ".cxx")
    open(tu, "w").write("\n".join(L) + "\n")
    exe = c.cxx(name, [tu], opt="-O0")
    return c.run([exe])


def build_values(c, name, items, D, cpp_unit, vals):
    """items: [(k, expr)]: every accepted expression evaluated with quantities and with plain doubles, all components printed"""
    L = [PRELUDE, "namespace Q { %s }" % ctx_struct(D, cpp_unit, False), "namespace P { %s }" % ctx_struct(D, cpp_unit, True),
         'static unsigned long long bits(double x) { unsigned long long u; std::memcpy(&u, &x, 8); return u; }',
         'template <typename T> static void comp(const T& x) { if constexpr (std::is_floating_point_v<T>) std::printf(" %llx", bits(x)); else std::printf(" %llx", bits(base_type_cast(x))); }',
         'template <int SH, typename T> static void dump(const int k, const char tag, const T& x) {',
         '  std::printf("V %d %c", k, tag);',
         '  if constexpr (SH == 0) { comp(x); }',
         '  else if constexpr (SH == 1) { for (unsigned short i = 0; i != 2; ++i) comp(x(i)); }',
         '  else if constexpr (SH == 2) { for (unsigned short i = 0; i != 4; ++i) comp(x(i)); }',
         '  else { for (unsigned short i = 0; i != 4; ++i) for (unsigned short j = 0; j != 4; ++j) comp(x(i, j)); }',
         '  std::printf("\\n"); }']
    SHC = {"Sc": 0, "Vec": 1, "Sym": 2, "T4": 3}
    for k, e in items:
        sh = SHC[py_x(e, D)[0]]
        L.append("static void q%d(Q::Ctx& z) { dump<%d>(%d, 'q', %s); }" % (k, sh, k, cpp_e(e, D)))
        L.append("static void p%d(P::Ctx& z) { dump<%d>(%d, 'p', %s); }" % (k, sh, k, cpp_e(e, D, True)))
    L.append("int main() {")
    mem, qi, pi = [], [], []
    for i, d in enumerate(D):
        n = NCOMP[d.shape]
        vs = ", ".join(repr(vals[i][j]) for j in range(n))
        L.append("  double m%d[%d] = {%s}; double n%d[%d] = {%s};" % (i, n, vs, i, n, vs))
        if d.shape == "Sc":
            qi.append({"own": "qt<%s>(m%d[0])" % (cpp_unit(d.unit or ZERO), i), "plain": "m%d[0]" % i}.get(d.kind, "%s(m%d[0])" % (cpp_type(d, cpp_unit), i)))
            pi.append("n%d[0]" % i)
        else:
            own = cpp_type(Decl(d.shape, d.unit, "plain" if d.kind == "plain" else "own"), cpp_unit)
            if d.kind in ("own", "plain"):
                qi.append("%s(map<const %s>(m%d))" % (own, own, i))
            elif d.kind == "ref":
                qi.append("map<%s>(m%d)" % (own, i))
            else:
                qi.append("map<const %s>(m%d)" % (own, i))
            pown = cpp_type(d, cpp_unit, True)
            pi.append("%s(map<const %s>(n%d))" % (pown, pown, i))
    L.append("  Q::Ctx zq{%s};" % ", ".join(qi))
    L.append("  P::Ctx zp{%s};" % ", ".join(pi))
    for k, e in items:
        L.append("  q%d(zq); p%d(zp);" % (k, k))
    L.append("  return 0;\n}")
    tu = os.path.join(c.work, name + ".cxx")
    open(tu, "w").write("\n".join(L) + "\n")
    exe = c.cxx(name, [tu], repo_sources=["src/Exception/ContractViolation.cxx"], opt="-O1", flags=["-ffp-contract=off", "-Wno-unused-variable"])
    return c.run([exe])


CH = 800


def model_text(progs, D, coq_unit):
    """rows [accepts; kind; shape; exponents...] (kind 0 untyped, 1 double, 2 quantity) by vm_compute"""
    return ("Definition DX : list decl := [" + ";\n  ".join(coq_decl(d, coq_unit) for d in D) + "].\n"
            "Definition shc (s : shape) : Z := match s with Sc => 0 | Vec => 1 | Sym => 2 | T4 => 3 end%Z.\n"
            "Definition encx (s : xstmt) : list Z := ((if acceptsX DX s then 1 else 0) :: match s with XEval e => match typeofX DX e with "
            "Some (sh, TS) => [1; shc sh] | Some (sh, TQ u) => 2 :: shc sh :: flat_map (fun q => [Qnum q; Zpos (Qden q)]) u | None => [0] end | _ => [] end)%Z.\n"
            "Eval vm_compute in map encx [" + ";\n ".join(coq_s(s) for s in progs) + "].\n")


def parse_blocks(o):
    """the `= [[..]; ..] : list (list Z)` answers of a harness file, in order"""
    out = []
    for body in re.findall(r"=\s*(\[.*?\])\s*:\s*list \(list Z\)", o, flags=re.S):
        rows = re.findall(r"\[([^\[\]]*)\]", body)
        out.append([[int(x.replace("(", "").replace(")", "").replace("%Z", "")) for x in r.split(";") if x.strip()] for r in rows])
    return out


def model_eval(c, progs, D, coq_unit):
    out = []
    for k0 in range(0, len(progs), CH):
        txt = ("From Coq Require Import QArith List ZArith.\nFrom C20 Require Import C20Spec C20Model.\nImport ListNotations.\n" +
               model_text(progs[k0:k0 + CH], D, coq_unit))
        rc, o, e = c.coq_eval(["C20Spec.v", "C20Model.v"], txt)
        if rc != 0:
            return None, "evaluation of the extended Gallina model failed: " + e[-600:]
        b = parse_blocks(o)
        if len(b) != 1 or len(b[0]) != len(progs[k0:k0 + CH]):
            return None, "extended model evaluation returned a wrong number of rows"
        out += b[0]
    return out, None

"""C20 -- physical quantities: dimension checking is sound and transparent.
Engine H: Gallina model of the type-level unit arithmetic (7 rational exponents, gcd-normalised) and of the acceptance
rules of qt<> (typing function on expression programs), theorems: rational arithmetic / abelian group / structural
equality = dimension equality / rejection exactly of mismatched sums, comparisons, assignments / erasure (transparency).
Tie (`programs`): seeded well- and ill-dimensioned expression programs become one C++ translation unit of
`requires{...}` probes compiled against /repo's headers; g++'s verdict per line (and the unit it computes) must equal
the model's (vm_compute), and a second translation unit checks value transparency bit for bit."""
import os, re, struct, random
from fractions import Fraction as Fr
from vlib import guarded_main
import sys
sys.path.insert(0, os.path.dirname(os.path.abspath(__file__)))
import ext

NAMED = {"NoUnit": (0, 0, 0, 0, 0, 0, 0), "Mass": (1, 0, 0, 0, 0, 0, 0), "Length": (0, 1, 0, 0, 0, 0, 0), "Time": (0, 0, 1, 0, 0, 0, 0),
         "Ampere": (0, 0, 0, 1, 0, 0, 0), "Temperature": (0, 0, 0, 0, 1, 0, 0), "Candela": (0, 0, 0, 0, 0, 1, 0), "Mole": (0, 0, 0, 0, 0, 0, 1),
         "InvLength": (0, -1, 0, 0, 0, 0, 0), "InvTemperature": (0, 0, 0, 0, -1, 0, 0), "Frequency": (0, 0, -1, 0, 0, 0, 0),
         "Speed": (0, 1, -1, 0, 0, 0, 0), "Acceleration": (0, 1, -2, 0, 0, 0, 0), "Momentum": (1, 1, -1, 0, 0, 0, 0),
         "Force": (1, 1, -2, 0, 0, 0, 0), "Stress": (1, -1, -2, 0, 0, 0, 0), "StressRate": (1, -1, -3, 0, 0, 0, 0),
         "Energy": (1, 2, -2, 0, 0, 0, 0), "Density": (1, -3, 0, 0, 0, 0, 0), "TemperatureGradient": (0, -1, 0, 0, 1, 0, 0),
         "ThermalConductivity": (1, 1, -3, 0, -1, 0, 0), "HeatFluxDensity": (1, 0, -3, 0, 0, 0, 0)}
BYEXP = {tuple(Fr(x) for x in v): k for k, v in NAMED.items()}
ZERO = tuple(Fr(0) for _ in range(7))


def cpp_unit(u):
    """canonical spelling = what unit::UnitRebind yields for these exponents"""
    if u in BYEXP:
        return BYEXP[u]
    if all(q.denominator == 1 for q in u):
        return "StandardUnit<%s>" % ", ".join(str(q.numerator) for q in u)
    return "Unit<%s, %s>" % (", ".join(str(q.numerator) for q in u), ", ".join(str(q.denominator) for q in u))


def coq_unit(u):
    return "[" + "; ".join("(%d)#%d" % (q.numerator, q.denominator) for q in u) + "]"


# ---------------- expressions: ('var', i) ('lit', k) ('add'|'sub'|'mul'|'div', a, b) ('neg', a) ('pow', n, d, a)
def coq_e(e):
    t = e[0]
    if t == "var":
        return "(Var %d)" % e[1]
    if t == "lit":
        return "(Lit %d)" % e[1]
    if t == "neg":
        return "(Neg %s)" % coq_e(e[1])
    if t == "pow":
        return "(Pow (%d) %d %s)" % (e[1], e[2], coq_e(e[3]))
    return "(%s %s %s)" % (t.capitalize(), coq_e(e[1]), coq_e(e[2]))


def lit(k):
    return "%.2f" % (1.5 + 0.25 * k)


def cpp_e(e, plain=False):
    t = e[0]
    if t == "var":
        return ("x%d" if plain else "v%d") % e[1]
    if t == "lit":
        return lit(e[1])
    if t == "neg":
        return "(-%s)" % cpp_e(e[1], plain)
    if t == "pow":
        if e[2] == 1 and e[1] % 2 == 0:
            return "tfel::math::power<%d>(%s)" % (e[1], cpp_e(e[3], plain))
        return "tfel::math::power<%d, %du>(%s)" % (e[1], e[2], cpp_e(e[3], plain))
    op = {"add": "+", "sub": "-", "mul": "*", "div": "/"}[t]
    return "(%s %s %s)" % (cpp_e(e[1], plain), op, cpp_e(e[2], plain))


def py_dim(e, G):
    """independent statement: dimension of an expression with exact fractions; raises on a dimension error.
    Returns None for a plain number, else the 7 exponents."""
    t = e[0]
    if t == "var":
        return G[e[1]]
    if t == "lit":
        return None
    if t == "neg":
        return py_dim(e[1], G)
    if t == "pow":
        a = py_dim(e[3], G)
        return None if a is None else tuple(q * Fr(e[1], e[2]) for q in a)
    a, b = py_dim(e[1], G), py_dim(e[2], G)
    if t in ("add", "sub"):
        if (a or ZERO) != (b or ZERO):
            raise ValueError("dimension mismatch")
        return None if (a is None and b is None) else (a or ZERO)
    if t == "mul":
        if a is None or b is None:
            return a if b is None else b
        return tuple(x + y for x, y in zip(a, b))
    if a is None and b is None:
        return None
    return tuple(x - y for x, y in zip(a or ZERO, b or ZERO))


def py_ok(s, G):
    """is the statement dimensionally homogeneous?"""
    try:
        if s[0] == "eval":
            py_dim(s[1], G)
            return True
        if s[0] == "cmp":
            return (py_dim(s[1], G) or ZERO) == (py_dim(s[2], G) or ZERO)
        if s[0] == "assign":
            return G[s[1]] == (py_dim(s[2], G) or ZERO)
        if s[0] == "scale":
            return (py_dim(s[2], G) or ZERO) == ZERO
    except ValueError:
        return False


class Gen:
    def __init__(self, rng, G, base):
        self.r, self.G, self.base = rng, G, base

    def free(self, depth):
        """always-typed expression (no sums)"""
        r = self.r
        if depth <= 0 or r.random() < 0.25:
            return ("var", r.randrange(len(self.G))) if r.random() < 0.85 else ("lit", r.randrange(6))
        k = r.random()
        if k < 0.4:
            return ("mul", self.any(depth - 1), self.any(depth - 1))
        if k < 0.7:
            return ("div", self.any(depth - 1), self.any(depth - 1))
        if k < 0.8:
            return ("neg", self.any(depth - 1))
        n, d = r.choice([(2, 1), (3, 1), (-1, 1), (-2, 1), (1, 2), (1, 3), (3, 2), (-1, 2), (2, 3), (2, 4)])
        return ("pow", n, d, self.any(depth - 1))

    def factor(self, u):
        """expression of dimension u built from the base-unit variables with rational powers"""
        e = None
        for i, q in enumerate(u):
            if q == 0:
                continue
            v = ("var", self.base[i])
            f = v if q == 1 else ("pow", q.numerator, q.denominator, v)
            e = f if e is None else ("mul", e, f)
        return e if e is not None else ("lit", 2)

    def fix(self, e, want):
        """multiply e so that its dimension becomes `want`"""
        have = py_dim(e, self.G) or ZERO
        diff = tuple(a - b for a, b in zip(want, have))
        if diff == ZERO:
            return e
        return ("mul", e, self.factor(diff))

    def summ(self, depth, good):
        a, b = self.any(depth - 1), self.any(depth - 1)
        try:
            da = py_dim(a, self.G) or ZERO
            py_dim(b, self.G)
        except ValueError:
            return (self.r.choice(["add", "sub"]), a, b)
        if good:
            b = self.fix(b, da)
        elif self.r.random() < 0.5:   # near miss: one exponent off by a small amount
            w = list(da)
            w[self.r.choice([0, 1, 2, 4])] += self.r.choice([Fr(1), Fr(-1), Fr(1, 2)])
            b = self.fix(b, tuple(w))
        return (self.r.choice(["add", "sub"]), a, b)

    def any(self, depth):
        if depth > 0 and self.r.random() < 0.3:
            return self.summ(depth, self.r.random() < 0.75)
        return self.free(depth)

    def stmt(self):
        r = self.r
        k = r.random()
        good = r.random() < 0.6
        if k < 0.35:
            return ("eval", self.summ(3, good) if r.random() < 0.6 else self.any(3))
        if k < 0.6:
            a, b = self.any(2), self.any(2)
            try:
                da = py_dim(a, self.G) or ZERO
                py_dim(b, self.G)
                if good:
                    b = self.fix(b, da)
            except ValueError:
                pass
            return ("cmp", a, b)
        if k < 0.85:
            i = r.randrange(len(self.G))
            e = self.any(2)
            try:
                py_dim(e, self.G)
                if good:
                    e = self.fix(e, self.G[i])
            except ValueError:
                pass
            return ("assign", i, e)
        i = r.randrange(len(self.G))
        e = self.any(2)
        try:
            d = py_dim(e, self.G)
            if good and d is not None:
                e = self.fix(e, ZERO)
        except ValueError:
            pass
        return ("scale", i, e)


def coq_s(s):
    if s[0] == "eval":
        return "(Eval %s)" % coq_e(s[1])
    if s[0] == "cmp":
        return "(Cmp %s %s)" % (coq_e(s[1]), coq_e(s[2]))
    return "(%s %d %s)" % (s[0].capitalize(), s[1], coq_e(s[2]))


CMPOPS = ["<", "<=", ">", ">=", "==", "!="]


def cpp_s(s, k):
    if s[0] == "eval":
        return cpp_e(s[1])
    if s[0] == "cmp":
        return "%s %s %s" % (cpp_e(s[1]), CMPOPS[k % 6], cpp_e(s[2]))
    if s[0] == "assign":
        return "v%d %s %s" % (s[1], ["=", "+=", "-="][k % 3], cpp_e(s[2]))
    return "v%d %s %s" % (s[1], ["*=", "/="][k % 2], cpp_e(s[2]))



def build_verdicts(c, progs, G):
    """one C++ translation unit of requires-probes: P<k> = does statement k compile; U<k> = is the unit computed by g++
    the one exact rational arithmetic gives (only for homogeneous expression statements)"""
    nv = len(G)
    tps = ", ".join("typename T%d" % i for i in range(nv))
    args = ", ".join("T%d& v%d" % (i, i) for i in range(nv))
    inst = ", ".join("qt<%s>" % cpp_unit(u) for u in G)
    L = ['#include <cstdio>', '#include <type_traits>', '#include "TFEL/Math/qt.hxx"', 'using namespace tfel::math;', 'using namespace tfel::math::unit;',
         'template <typename T, int... E> struct same_exps { static constexpr bool value = false; };',
         'template <typename T> requires(std::is_same_v<std::remove_cvref_t<T>, double>) struct same_exps<T> { static constexpr bool value = true; };',
         'template <typename T, int N1, int N2, int N3, int N4, int N5, int N6, int N7, int D1, int D2, int D3, int D4, int D5, int D6, int D7>',
         'requires(ImmutableQuantityConcept<std::remove_cvref_t<T>>) struct same_exps<T, N1, N2, N3, N4, N5, N6, N7, D1, D2, D3, D4, D5, D6, D7> {',
         '  static constexpr bool value = exponents<quantity_unit<std::remove_cvref_t<T>>> == makeUnitExponents<N1, N2, N3, N4, N5, N6, N7, D1, D2, D3, D4, D5, D6, D7>(); };']
    hasu = set()
    for k, s in enumerate(progs):
        L.append("template <%s> constexpr bool P%d = requires(%s) { %s; };" % (tps, k, args, cpp_s(s, k)))
        if s[0] == "eval" and py_ok(s, G):
            d = py_dim(s[1], G)
            exps = "" if d is None else ", " + ", ".join(str(q.numerator) for q in d) + ", " + ", ".join(str(q.denominator) for q in d)
            L.append("template <%s> constexpr bool U%d = requires(%s) { requires same_exps<decltype(%s)%s>::value; };" % (tps, k, args, cpp_e(s[1]), exps))
            hasu.add(k)
    L.append("int main() {")
    for k, s in enumerate(progs):
        u = ("int(U%d<%s>)" % (k, inst)) if k in hasu else "-1"
        L.append('  std::printf("L %d %%d %%d\\n", int(P%d<%s>), %s);' % (k, k, inst, u))
    L.append("  return 0;\n}")
    tu1 = os.path.join(c.work, "verdicts.cxx")
    open(tu1, "w").write("\n".join(L) + "\n")
    exe1 = c.cxx("verdicts", [tu1], opt="-O0")
    return c.run([exe1])

def ext_prepare(c):
    """declarations, fixed corpus and seeded statements of the extension (tensors of quantities, math functions, views)"""
    F = Fr
    U = lambda n: tuple(F(x) for x in NAMED[n])
    Dc = ext.Decl
    D = [Dc("Sc", U("Mass")), Dc("Sc", U("Length")), Dc("Sc", U("Time")), Dc("Sc", U("Temperature")), Dc("Sc", U("Stress")), Dc("Sc", U("NoUnit")),
         Dc("Sc", U("Force")), Dc("Sc", (F(0), F(1, 3), F(0), F(0), F(0), F(0), F(0))), Dc("Sc", (F(1, 2), F(0), F(-1), F(0), F(0), F(0), F(0))),
         Dc("Sc", U("Stress"), "ref"), Dc("Sc", U("Length"), "cref"), Dc("Sc", U("NoUnit"), "ref"),
         Dc("Vec", U("Length")), Dc("Vec", U("Force")), Dc("Vec", U("Length"), "ref"),
         Dc("Sym", U("Stress")), Dc("Sym", U("NoUnit")), Dc("Sym", None, "plain"), Dc("Sym", U("Stress"), "ref"), Dc("Sym", U("Stress"), "cref"),
         Dc("T4", U("Stress")), Dc("T4", U("NoUnit")), Dc("T4", U("Stress"), "ref")]
    V = lambda i: ("var", i)
    corpus = [
        # stiffness * strain = stress; sums of tensors need the same unit
        ("assign", 15, ("mul", V(20), V(16))), ("eval", ("mul", V(20), V(16))), ("assign", 15, V(16)), ("eval", ("add", V(15), V(16))),
        ("eval", ("add", V(16), V(17))), ("eval", ("sub", V(15), V(17))), ("eval", ("inner", V(15), V(16))), ("eval", ("inner", V(12), V(13))),
        ("eval", ("dyad", V(15), V(16))), ("assign", 20, ("dyad", V(15), V(16))), ("assign", 20, ("dyad", V(15), V(15))),
        ("eval", ("mul", V(4), V(16))), ("eval", ("div", V(15), V(4))), ("eval", ("neg", ("mul", V(21), V(15)))),
        # quotients of rational exponents with different denominators
        ("eval", ("div", ("sqrt", V(1)), ("cbrt", V(1)))), ("eval", ("div", ("pow", 1, 2, V(1)), ("pow", 1, 3, V(1)))), ("eval", ("div", V(8), V(7))),
        ("eval", ("div", ("cbrt", V(4)), ("sqrt", V(6)))), ("eval", ("div", ("mul", V(12), V(7)), V(8))),
        # math functions
        ("eval", ("sqrt", ("mul", V(4), V(4)))), ("eval", ("cbrt", ("mul", ("mul", V(1), V(1)), V(1)))), ("eval", ("fn", 0, V(4))),
        ("eval", ("fn", 0, ("div", V(4), V(4)))), ("eval", ("fn", 1, V(5))), ("eval", ("fn", 5, V(4))), ("eval", ("fn", 5, V(5))),
        ("eval", ("fn", 6, ("mul", ("mul", V(1), V(1)), V(1)))), ("eval", ("abs", ("neg", V(4)))), ("eval", ("add", ("abs", V(4)), V(1))),
        # tfel::math::square_root itself (the generated programs use it through vsqrt, see PRELUDE)
        ("eval", ("add", ("sqrtraw", V(4)), ("lit", 0))), ("eval", ("add", ("sqrtraw", V(4)), ("sqrtraw", V(1)))), ("cmp", ("sqrtraw", V(4)), ("lit", 1)),
        ("eval", ("sqrtraw", V(4))),
        # references and views
        ("assign", 9, V(4)), ("assign", 9, V(1)), ("assign", 10, V(1)), ("assign", 18, ("mul", V(20), V(16))), ("assign", 19, V(15)),
        ("assign", 18, V(16)), ("aelem", 15, V(4)), ("aelem", 15, V(1)), ("aelem", 18, V(4)), ("aelem", 19, V(4)), ("aelem", 17, V(5)), ("aelem", 17, V(4)),
        ("eval", ("add", ("elem", V(18)), V(9))), ("eval", ("add", ("elem", V(19)), V(10))), ("eval", ("elem", ("mul", V(20), V(16)))),
        ("scale", 18, V(5)), ("scale", 18, V(4)), ("scale", 15, ("lit", 1)), ("scale", 10, ("lit", 1)), ("eval", ("fn", 0, V(11))), ("eval", ("fn", 0, V(9))),
        ("eval", ("inner", V(18), V(19))), ("eval", ("mul", V(22), V(18))), ("cmp", V(9), V(4)), ("cmp", V(9), V(10))]
    rng2 = random.Random(c.seed + 77)
    gen = ext.GenX(rng2, D, {0: 0, 1: 1, 2: 2, 4: 3})
    nprog = c.pick(220, 900)
    progs = corpus + [gen.stmt() for _ in range(nprog)]
    if c.replay and "xstmt" in c.replay.get("replay", {}):
        progs.insert(0, eval(c.replay["replay"]["xstmt"]))
    n = len(progs)
    nch = c.pick(1, 3)
    step = (n + nch - 1) // nch
    return {"D": D, "progs": progs, "ncorpus": len(corpus), "nprog": nprog, "chunks": [(a, min(n, a + step)) for a in range(0, n, step)], "rng": rng2}


def ext_compare(c, X, pool):
    D, progs = X["D"], X["progs"]
    if X["model"] is None:
        c.report("xmodel-eval", X["model_err"], {}, False)
        pool.shutdown()
        return "model evaluation failed"
    gpp = {}
    sqrt_ok = 1
    for f in X["fut"]:
        rc, out, err = f.result()
        if rc != 0:
            c.report("xrun-verdicts", "extended verdict program failed: " + err[-300:], {}, False)
            pool.shutdown()
            return "verdict program failed"
        for l in out.splitlines():
            t = l.split()
            if t[0] == "SQRT":
                sqrt_ok = int(t[1])
            else:
                gpp[int(t[1])] = (int(t[2]), int(t[3]))
    pool.shutdown()
    c.log("extension: verdicts compiled and run")
    if not sqrt_ok:
        c.notes.append("tfel::math::square_root(quantity) returns a plain number (unit dropped): XSqrt in the seeded statements is spelled "
                       "tfel::math::power<1, 2u>; the corpus statements that call square_root itself are reported")
    decls = ", ".join("v%d:%s" % (i, ext.cpp_type(d, cpp_unit)) for i, d in enumerate(D))
    ncat = {}
    _report = c.report

    def capped(key, what, replay=None, found_input=True):
        cat = key.split(":")[0]
        ncat[cat] = ncat.get(cat, 0) + 1
        if ncat[cat] <= 4:
            _report(key, what, replay, found_input)
    c.report = capped
    both, nacc, kinds = [], 0, {}
    SHC = {"Sc": 0, "Vec": 1, "Sym": 2, "T4": 3}
    for k, s in enumerate(progs):
        g, gu = gpp[k]
        m = X["model"][k][0]
        ok = ext.py_ok(s, D)
        text = ext.cpp_s(s, k, D).replace("z.v", "v")
        nacc += g
        kinds[s[0]] = kinds.get(s[0], 0) + 1
        c.count(1, ext.coq_s(s), True)
        if k % 41 == 7:
            c.sample({"program": text, "model_accepts": bool(m), "gpp_accepts": bool(g), "homogeneous": bool(ok)})
        rep = {"xstmt": repr(s), "cxx": text, "declarations": decls, "model_accepts": m, "gpp_accepts": g, "homogeneous": ok}
        if g and not ok:
            c.report("xunsound:" + text[:120], "g++ ACCEPTS the dimensionally inhomogeneous (or ill-shaped) statement `%s` (declarations: %s)" % (text, decls), rep, True)
        elif g != m:
            c.report("xverdict:" + text[:120], "g++ %s `%s` but the model %s it (statement is %shomogeneous)" % (
                "accepts" if g else "rejects", text, "accepts" if m else "rejects", "" if ok else "not "), rep, True)
        elif m != (1 if ok else 0):
            c.report("xmodel-vs-spec:" + text[:120], "model verdict %d differs from the independent dimensional analysis %s on `%s`" % (m, ok, text), rep, True)
        elif s[0] == "eval" and g == 1:
            sh, d = ext.py_x(s[1], D)
            want = [1, SHC[sh]] if d is None else [2, SHC[sh]] + [x for q in d for x in (q.numerator, q.denominator)]
            if gu != 1 or X["model"][k][1:] != want:
                c.report("xunit:" + text[:120], "unit of the elements of `%s`: g++ %s the exponents %s given by exact rational arithmetic; the model gives %s" % (
                    text, "agrees with" if gu == 1 else "DISAGREES with", want[2:], X["model"][k][3:]), rep, True)
            else:
                both.append((k, s[1], sh))
    c.log("extension: verdicts compared: %d accepted of %d" % (nacc, len(progs)))
    # values, component by component; two translation units compiled in parallel
    rng = X["rng"]
    vals = [[round(0.5 + 2.5 * rng.random(), 3) for _ in range(16)] for _ in D]
    cap = c.pick(110, 500)
    items = [(k, e) for (k, e, sh) in both][:cap]
    shapes = {k: sh for (k, e, sh) in both}
    from concurrent.futures import ThreadPoolExecutor
    half = (len(items) + 1) // 2
    with ThreadPoolExecutor(max_workers=2) as ex:
        futs = [ex.submit(ext.build_values, c, "xvalues%d" % j, part, D, cpp_unit, vals) for j, part in enumerate([items[:half], items[half:]]) if part]
        outs = [f.result() for f in futs]
    nval = ncomp = 0
    for rc, out, err in outs:
        if rc != 0:
            c.report("xrun-values", "extended value program failed: " + err[-300:], {}, False)
            continue
        got = {}
        for l in out.splitlines():
            t = l.split()
            got[(int(t[1]), t[2])] = [int(x, 16) for x in t[3:]]
        for (k, tag), q in got.items():
            if tag != "q":
                continue
            pl = got.get((k, "p"))
            nval += 1
            ncomp += len(q)
            text = ext.cpp_e(progs[k][1], D).replace("z.v", "v")
            if pl is None or len(q) != len(pl) or len(q) != ext.NCOMP[shapes[k]]:
                c.report("xshape:" + text[:120], "`%s`: %d components with quantities, %s with doubles, the model's shape %s has %d" % (
                    text, len(q), None if pl is None else len(pl), shapes[k], ext.NCOMP[shapes[k]]), {"xstmt": repr(progs[k])}, True)
                continue
            for j, (a, b) in enumerate(zip(q, pl)):
                fa, fb = struct.unpack("<d", struct.pack("<Q", a))[0], struct.unpack("<d", struct.pack("<Q", b))[0]
                if a != b and not (fa != fa and fb != fb):
                    c.report("xvalue:" + text[:120], "`%s` component %d: with quantities %r, the same computation on doubles %r" % (text, j, fa, fb),
                             {"xstmt": repr(progs[k]), "cxx": text, "values": vals, "qt": fa, "plain": fb}, True)
                    break
    c.report = _report
    if any(v > 4 for v in ncat.values()):
        c.notes.append("extension: failing programs per category (first 4 of each reported): %s" % ncat)
    c.coverage["traces_validated_against_impl"] = c.coverage.get("traces_validated_against_impl", 0) + len(progs) + nval
    c.trusted("props/C20/ext.py generator, printers and the wrapper vsqrt of the probe prelude (square_root when it keeps the unit, else power<1,2>)")
    return ("%d statements (%d corpus + %d seeded; %s) over %d declarations (qt, qt_ref, const_qt_ref, tvector/stensor/st2tost2<%d> of quantities, "
            "views of them, one stensor of double), constructs: sums, scalar*tensor, tensor/scalar, st2tost2*stensor, st2tost2*st2tost2, a|b, a^b, element access, "
            "power, square_root, power<1,3>, abs, %d dimensionless-only std functions; g++ accepted %d; per statement g++ verdict = model verdict = exact "
            "analysis, element unit computed by g++ = exact exponents = model's; %d accepted expressions (%d components) bit-identical to the computation "
            "on plain doubles/tensors of doubles; square_root keeps unit: %s" % (
                len(progs), X["ncorpus"], X["nprog"], ", ".join("%s %d" % kv for kv in sorted(kinds.items())), len(D), ext.N, len(ext.FNS), nacc, nval, ncomp,
                bool(sqrt_ok)))


def main(c):
    rng = c.rng
    F = Fr
    G = [tuple(F(x) for x in NAMED[n]) for n in ("Mass", "Length", "Time", "Temperature", "Stress", "Force", "NoUnit", "Speed", "Energy", "Density")]
    G.append((F(0), F(2), F(0), F(0), F(0), F(0), F(0)))            # area: StandardUnit, no name
    G.append((F(1, 2), F(0), F(-1), F(0), F(0), F(0), F(0)))        # sqrt(kg)/s: rational exponents
    G.append(tuple(F(x) for x in NAMED["Frequency"]))
    G.append((F(0), F(1, 3), F(0), F(0), F(0), F(0), F(0)))         # m^(1/3): a second rational denominator
    base = {0: 0, 1: 1, 2: 2, 4: 3}
    gen = Gen(rng, G, base)
    nprog = c.pick(300, 1200)
    progs = [gen.stmt() for _ in range(nprog)]
    # fixed corpus: the familiar cases first
    V = lambda i: ("var", i)
    corpus = [("eval", ("add", V(4), V(1))), ("eval", ("add", V(4), ("div", V(5), ("pow", 2, 1, V(1))))), ("cmp", V(4), ("lit", 0)),
              ("cmp", ("div", V(4), V(4)), ("lit", 0)), ("assign", 4, V(5)), ("assign", 4, ("div", V(5), V(10))), ("assign", 6, ("lit", 1)),
              ("assign", 4, ("lit", 1)), ("scale", 4, ("lit", 3)), ("scale", 4, V(6)), ("scale", 4, V(1)),
              ("eval", ("pow", 1, 2, ("mul", V(4), V(1)))), ("eval", ("add", V(11), ("pow", 1, 2, ("mul", V(0), ("pow", -2, 1, V(2)))))),
              ("eval", ("add", V(6), ("lit", 1))), ("eval", ("add", V(4), ("lit", 1))), ("eval", ("div", ("lit", 1), V(2))),
              ("cmp", ("div", ("lit", 1), V(2)), V(12)), ("eval", ("sub", ("mul", V(0), V(7)), ("mul", V(5), V(2)))),
              # quotients of rational exponents with DIFFERENT denominators (unit::subtract cross-multiplies)
              ("eval", ("div", ("pow", 1, 2, V(1)), ("pow", 1, 3, V(1)))), ("eval", ("div", V(11), V(13))),
              ("eval", ("div", ("pow", 1, 3, V(4)), V(11))), ("cmp", ("div", V(13), ("pow", 1, 2, V(1))), ("pow", -1, 6, V(1)))]
    ncorpus = len(corpus)
    progs = corpus + progs
    if c.replay and "stmt" in c.replay.get("replay", {}):
        progs.insert(0, eval(c.replay["replay"]["stmt"]))
    n = len(progs)
    # ---- translation unit 1 (built in a thread while Coq runs): g++'s verdict per line, and the unit it computes
    from concurrent.futures import ThreadPoolExecutor
    pool = ThreadPoolExecutor(max_workers=1)      # one compiler job in the background while coqc runs: 2 jobs at most
    fut = pool.submit(build_verdicts, c, progs, G)
    X = ext_prepare(c)
    X["fut"] = [pool.submit(ext.build_verdicts, c, "xverdicts%d" % j, X["progs"][a:b], a, X["D"], cpp_unit) for j, (a, b) in enumerate(X["chunks"])]
    X["model"], X["model_err"] = None, "extended model not evaluated"
    # ---- model verdicts (vm_compute)
    model = []
    CH = 1000
    for k0 in range(0, n, CH):
        txt = ("From Coq Require Import QArith List ZArith.\nFrom C20 Require Import C20Spec C20Model.\nImport ListNotations.\n"
               "Definition G : list unit := [" + ";\n  ".join(coq_unit(u) for u in G) + "].\n"
               "Definition enc (s : stmt) : list Z := ((if accepts G s then 1 else 0) :: match s with Eval e => match typeof G e with "
               "Some TS => [1] | Some (TQ u) => 2 :: flat_map (fun q => [Qnum q; Zpos (Qden q)]) u | None => [0] end | _ => [] end)%Z.\n"
               "Eval vm_compute in map enc [" + ";\n ".join(coq_s(s) for s in progs[k0:k0 + CH]) + "].\n")
        if k0 == 0:    # the first chunk of the extension is evaluated by the same coqc call
            txt += ext.model_text(X["progs"][:ext.CH], X["D"], coq_unit)
        rc, o, e = c.coq_eval(["C20Spec.v", "C20Model.v"], txt)
        if rc != 0:
            c.report("model-eval", "evaluation of the Gallina model failed: " + e[-600:], {"stderr": e[-3000:]}, False)
            return
        blocks = ext.parse_blocks(o)
        rows = blocks[0] if blocks else []
        if k0 == 0 and len(blocks) == 2 and len(blocks[1]) == len(X["progs"][:ext.CH]):
            X["model"] = blocks[1]
        if len(rows) != len(progs[k0:k0 + CH]):
            c.report("model-eval-count", "model evaluation returned %d rows for %d programs" % (len(rows), len(progs[k0:k0 + CH])), {}, False)
            return
        model += rows
    if X["model"] is not None and len(X["progs"]) > ext.CH:
        more, X["model_err"] = ext.model_eval(c, X["progs"][ext.CH:], X["D"], coq_unit)
        X["model"] = None if more is None else X["model"] + more
    c.log("model evaluated")
    # ---- proofs (while the verdict program compiles)
    res = c.coq(["C20Spec.v", "C20Model.v", "C20Proofs.v", "Properties_C20.v"], timeout=900)
    c.log("coq done")
    nv = len(G)
    rc, out, err = fut.result()
    if rc != 0:
        c.report("run-verdicts", "verdict program failed: " + err[-300:], {}, False)
        return
    c.log("verdicts compiled and run")
    gpp = {}
    for l in out.splitlines():
        t = l.split()
        gpp[int(t[1])] = (int(t[2]), int(t[3]))
    c.trusted("props/C20/check.py program generator and printers (Coq term / C++ text of the same AST)",
              "g++ 12 as the judge of acceptance (requires-expressions in a templated context)",
              "canonical spelling of declared units (what unit::UnitRebind yields); differently spelled equal units are outside the generated programs")
    both = []
    nacc = 0
    ncat = {}
    _report = c.report

    def capped(key, what, replay=None, found_input=True):
        cat = key.split(":")[0]
        ncat[cat] = ncat.get(cat, 0) + 1
        if ncat[cat] <= 4:
            _report(key, what, replay, found_input)
    c.report = capped
    for k, s in enumerate(progs):
        g, gu = gpp[k]
        m = model[k][0]
        ok = py_ok(s, G)
        text = cpp_s(s, k)
        nacc += g
        c.count(1, coq_s(s), True)
        if k % 37 == 5:
            c.sample({"program": text, "model_accepts": bool(m), "gpp_accepts": bool(g), "homogeneous": bool(ok)})
        rep = {"stmt": repr(s), "cxx": text, "declared_units": [cpp_unit(u) for u in G], "model_accepts": m, "gpp_accepts": g, "homogeneous": ok}
        if g and not ok:
            c.report("unsound:" + text[:120], "g++ ACCEPTS the dimensionally inhomogeneous statement `%s` (variables: %s)" % (
                text, ", ".join("v%d:%s" % (i, cpp_unit(u)) for i, u in enumerate(G))), rep, True)
        elif g != m:
            c.report("verdict:" + text[:120], "g++ %s `%s` but the model %s it (statement is %shomogeneous)" % (
                "accepts" if g else "rejects", text, "accepts" if m else "rejects", "" if ok else "not "), rep, True)
        elif m != (1 if ok else 0):
            c.report("model-vs-spec:" + text[:120], "model verdict %d differs from the independent dimensional analysis %s on `%s`" % (m, ok, text), rep, True)
        elif s[0] == "eval" and g == 1:
            d = py_dim(s[1], G)
            want = [1] if d is None else [2] + [x for q in d for x in (q.numerator, q.denominator)]
            if gu != 1 or model[k][1:] != want:
                c.report("unit:" + text[:120], "unit of `%s`: g++ %s the model's exponents %s; exact rational arithmetic gives %s" % (
                    text, "agrees with" if gu == 1 else "DISAGREES with", model[k][2:], want[1:]), rep, True)
            else:
                both.append(k)
    c.log("verdicts compared: %d accepted of %d" % (nacc, n))
    # ---- translation unit 2: transparency of values (bit for bit)
    vals = [round(0.5 + 2.5 * rng.random(), 3) for _ in range(nv)]
    L = ['#include <cstdio>', '#include <cstring>', '#include <cstdint>', '#include "TFEL/Math/qt.hxx"', 'using namespace tfel::math;', 'using namespace tfel::math::unit;',
         'static unsigned long long bits(double x) { unsigned long long u; std::memcpy(&u, &x, 8); return u; }',
         'template <typename T> static double val(const T& x) { if constexpr (std::is_same_v<T, double>) return x; else return base_type_cast(x); }']
    for k in both:
        decl_q = " ".join("qt<%s> v%d(%r);" % (cpp_unit(u), i, vals[i]) for i, u in enumerate(G))
        decl_p = " ".join("double x%d = %r;" % (i, vals[i]) for i in range(nv))
        L.append("static double q%d() { %s auto r = %s; return val(r); }" % (k, decl_q, cpp_e(progs[k][1])))
        L.append("static double p%d() { %s return %s; }" % (k, decl_p, cpp_e(progs[k][1], True)))
    L.append("int main() {")
    for k in both:
        L.append('  std::printf("V %d %%llx %%llx\\n", bits(q%d()), bits(p%d()));' % (k, k, k))
    L.append("  return 0;\n}")
    tu2 = os.path.join(c.work, "values.cxx")
    open(tu2, "w").write("\n".join(L) + "\n")
    exe2 = c.cxx("values", [tu2], opt="-O1", flags=["-ffp-contract=off", "-Wno-unused-variable"])
    rc, out, err = c.run([exe2])
    if rc != 0:
        c.report("run-values", "value program failed: " + err[-300:], {}, False)
        return
    nval = 0
    for l in out.splitlines():
        t = l.split()
        k, a, b = int(t[1]), int(t[2], 16), int(t[3], 16)
        nval += 1
        fa, fb = struct.unpack("<d", struct.pack("<Q", a))[0], struct.unpack("<d", struct.pack("<Q", b))[0]
        if a != b and not (fa != fa and fb != fb):
            text = cpp_e(progs[k][1])
            c.report("value:" + text[:120], "`%s` with quantities gives %r, the same computation on doubles gives %r (values %s)" % (text, fa, fb, vals),
                     {"stmt": repr(progs[k]), "cxx": text, "values": vals, "qt": fa, "plain": fb}, True)
    c.report = _report
    if any(v > 4 for v in ncat.values()):
        c.notes.append("failing programs per category (first 4 of each reported): %s" % ncat)
    c.coverage["traces_validated_against_impl"] = n + nval
    c.coverage["rule"] = ("%d statements (%d corpus + %d seeded; kinds eval/compare/assign/scale; 14 declared units incl. one unnamed integer and two "
                          "rational-exponent units (denominators 2 and 3); sums built homogeneous / near-miss / random), g++ accepted %d; per statement: g++ verdict = model verdict = "
                          "exact dimensional analysis, unit computed by g++ = model's exponents; %d accepted expressions compared bit for bit with the "
                          "computation on plain doubles" % (n, ncorpus, nprog, nacc, nval))
    c.coverage["rule"] += "; EXTENSION: " + ext_compare(c, X, pool)
    if not res.ok:
        if c.violations and any(v[3] for v in c.violations):
            c.notes.append("proof obligations failed: %s; concrete failing programs reported above" % [f[2] for f in res.failed])
        else:
            c.coq_failures(res, None)


guarded_main("C20", main)

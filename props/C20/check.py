"""C20 -- physical quantities: dimension checking is sound and transparent.
Engine H: Gallina model of the type-level unit arithmetic (7 rational exponents, gcd-normalised) and of the acceptance
rules of qt<> (typing function on expression programs), theorems: rational arithmetic / abelian group / structural
equality = dimension equality / rejection exactly of mismatched sums, comparisons, assignments / erasure (transparency).
Tie (`programs`): seeded well- and ill-dimensioned expression programs become one C++ translation unit of
`requires{...}` probes compiled against /repo's headers; g++'s verdict per line (and the unit it computes) must equal
the model's (vm_compute), and a second translation unit checks value transparency bit for bit."""
import os, re, struct
from fractions import Fraction as Fr
from vlib import guarded_main

NAMED = {"NoUnit": (0, 0, 0, 0, 0, 0, 0), "Mass": (1, 0, 0, 0, 0, 0, 0), "Length": (0, 1, 0, 0, 0, 0, 0), "Time": (0, 0, 1, 0, 0, 0, 0),
         "Ampere": (0, 0, 0, 1, 0, 0, 0), "Temperature": (0, 0, 0, 0, 1, 0, 0), "Candela": (0, 0, 0, 0, 0, 1, 0), "Mole": (0, 0, 0, 0, 0, 0, 1),
         "InvLength": (0, -1, 0, 0, 0, 0, 0), "InvTemperature": (0, 0, 0, 0, -1, 0, 0), "Frequency": (0, 0, -1, 0, 0, 0, 0),
         "Speed": (0, 1, -1, 0, 0, 0, 0), "Acceleration": (0, 1, -2, 0, 0, 0, 0), "Momentum": (1, 1, -1, 0, 0, 0, 0),
         "Force": (1, 1, -2, 0, 0, 0, 0), "Stress": (1, -1, -2, 0, 0, 0, 0), "StressRate": (1, -1, -3, 0, 0, 0, 0),
         "Energy": (1, 2, -2, 0, 0, 0, 0), "Density": (1, -3, 0, 0, 0, 0, 0), "TemperatureGradient": (0, -1, 0, 0, 1, 0, 0),
         "ThermalConductivity": (1, 1, -3, 0, -1, 0, 0), "HeatFluxDensity": (1, 0, -3, 0, 0, 0, 0)}
BYEXP = {tuple(Fr(x) for x in v): k for k, v in NAMED.items()}
ZERO = tuple(Fr(0) for _ in range(7))


def cpp_unit(u):
    """canonical spelling = what unit::UnitRebind yields for these exponents"""
    if u in BYEXP:
        return BYEXP[u]
    if all(q.denominator == 1 for q in u):
        return "StandardUnit<%s>" % ", ".join(str(q.numerator) for q in u)
    return "Unit<%s, %s>" % (", ".join(str(q.numerator) for q in u), ", ".join(str(q.denominator) for q in u))


def coq_unit(u):
    return "[" + "; ".join("(%d)#%d" % (q.numerator, q.denominator) for q in u) + "]"


# ---------------- expressions: ('var', i) ('lit', k) ('add'|'sub'|'mul'|'div', a, b) ('neg', a) ('pow', n, d, a)
def coq_e(e):
    t = e[0]
    if t == "var":
        return "(Var %d)" % e[1]
    if t == "lit":
        return "(Lit %d)" % e[1]
    if t == "neg":
        return "(Neg %s)" % coq_e(e[1])
    if t == "pow":
        return "(Pow (%d) %d %s)" % (e[1], e[2], coq_e(e[3]))
    return "(%s %s %s)" % (t.capitalize(), coq_e(e[1]), coq_e(e[2]))


def lit(k):
    return "%.2f" % (1.5 + 0.25 * k)


def cpp_e(e, plain=False):
    t = e[0]
    if t == "var":
        return ("x%d" if plain else "v%d") % e[1]
    if t == "lit":
        return lit(e[1])
    if t == "neg":
        return "(-%s)" % cpp_e(e[1], plain)
    if t == "pow":
        if e[2] == 1 and e[1] % 2 == 0:
            return "tfel::math::power<%d>(%s)" % (e[1], cpp_e(e[3], plain))
        return "tfel::math::power<%d, %du>(%s)" % (e[1], e[2], cpp_e(e[3], plain))
    op = {"add": "+", "sub": "-", "mul": "*", "div": "/"}[t]
    return "(%s %s %s)" % (cpp_e(e[1], plain), op, cpp_e(e[2], plain))


def py_dim(e, G):
    """independent statement: dimension of an expression with exact fractions; raises on a dimension error.
    Returns None for a plain number, else the 7 exponents."""
    t = e[0]
    if t == "var":
        return G[e[1]]
    if t == "lit":
        return None
    if t == "neg":
        return py_dim(e[1], G)
    if t == "pow":
        a = py_dim(e[3], G)
        return None if a is None else tuple(q * Fr(e[1], e[2]) for q in a)
    a, b = py_dim(e[1], G), py_dim(e[2], G)
    if t in ("add", "sub"):
        if (a or ZERO) != (b or ZERO):
            raise ValueError("dimension mismatch")
        return None if (a is None and b is None) else (a or ZERO)
    if t == "mul":
        if a is None or b is None:
            return a if b is None else b
        return tuple(x + y for x, y in zip(a, b))
    if a is None and b is None:
        return None
    return tuple(x - y for x, y in zip(a or ZERO, b or ZERO))


def py_ok(s, G):
    """is the statement dimensionally homogeneous?"""
    try:
        if s[0] == "eval":
            py_dim(s[1], G)
            return True
        if s[0] == "cmp":
            return (py_dim(s[1], G) or ZERO) == (py_dim(s[2], G) or ZERO)
        if s[0] == "assign":
            return G[s[1]] == (py_dim(s[2], G) or ZERO)
        if s[0] == "scale":
            return (py_dim(s[2], G) or ZERO) == ZERO
    except ValueError:
        return False


class Gen:
    def __init__(self, rng, G, base):
        self.r, self.G, self.base = rng, G, base

    def free(self, depth):
        """always-typed expression (no sums)"""
        r = self.r
        if depth <= 0 or r.random() < 0.25:
            return ("var", r.randrange(len(self.G))) if r.random() < 0.85 else ("lit", r.randrange(6))
        k = r.random()
        if k < 0.4:
            return ("mul", self.any(depth - 1), self.any(depth - 1))
        if k < 0.7:
            return ("div", self.any(depth - 1), self.any(depth - 1))
        if k < 0.8:
            return ("neg", self.any(depth - 1))
        n, d = r.choice([(2, 1), (3, 1), (-1, 1), (-2, 1), (1, 2), (1, 3), (3, 2), (-1, 2), (2, 3), (2, 4)])
        return ("pow", n, d, self.any(depth - 1))

    def factor(self, u):
        """expression of dimension u built from the base-unit variables with rational powers"""
        e = None
        for i, q in enumerate(u):
            if q == 0:
                continue
            v = ("var", self.base[i])
            f = v if q == 1 else ("pow", q.numerator, q.denominator, v)
            e = f if e is None else ("mul", e, f)
        return e if e is not None else ("lit", 2)

    def fix(self, e, want):
        """multiply e so that its dimension becomes `want`"""
        have = py_dim(e, self.G) or ZERO
        diff = tuple(a - b for a, b in zip(want, have))
        if diff == ZERO:
            return e
        return ("mul", e, self.factor(diff))

    def summ(self, depth, good):
        a, b = self.any(depth - 1), self.any(depth - 1)
        try:
            da = py_dim(a, self.G) or ZERO
            py_dim(b, self.G)
        except ValueError:
            return (self.r.choice(["add", "sub"]), a, b)
        if good:
            b = self.fix(b, da)
        elif self.r.random() < 0.5:   # near miss: one exponent off by a small amount
            w = list(da)
            w[self.r.choice([0, 1, 2, 4])] += self.r.choice([Fr(1), Fr(-1), Fr(1, 2)])
            b = self.fix(b, tuple(w))
        return (self.r.choice(["add", "sub"]), a, b)

    def any(self, depth):
        if depth > 0 and self.r.random() < 0.3:
            return self.summ(depth, self.r.random() < 0.75)
        return self.free(depth)

    def stmt(self):
        r = self.r
        k = r.random()
        good = r.random() < 0.6
        if k < 0.35:
            return ("eval", self.summ(3, good) if r.random() < 0.6 else self.any(3))
        if k < 0.6:
            a, b = self.any(2), self.any(2)
            try:
                da = py_dim(a, self.G) or ZERO
                py_dim(b, self.G)
                if good:
                    b = self.fix(b, da)
            except ValueError:
                pass
            return ("cmp", a, b)
        if k < 0.85:
            i = r.randrange(len(self.G))
            e = self.any(2)
            try:
                py_dim(e, self.G)
                if good:
                    e = self.fix(e, self.G[i])
            except ValueError:
                pass
            return ("assign", i, e)
        i = r.randrange(len(self.G))
        e = self.any(2)
        try:
            d = py_dim(e, self.G)
            if good and d is not None:
                e = self.fix(e, ZERO)
        except ValueError:
            pass
        return ("scale", i, e)


def coq_s(s):
    if s[0] == "eval":
        return "(Eval %s)" % coq_e(s[1])
    if s[0] == "cmp":
        return "(Cmp %s %s)" % (coq_e(s[1]), coq_e(s[2]))
    return "(%s %d %s)" % (s[0].capitalize(), s[1], coq_e(s[2]))


CMPOPS = ["<", "<=", ">", ">=", "==", "!="]


def cpp_s(s, k):
    if s[0] == "eval":
        return cpp_e(s[1])
    if s[0] == "cmp":
        return "%s %s %s" % (cpp_e(s[1]), CMPOPS[k % 6], cpp_e(s[2]))
    if s[0] == "assign":
        return "v%d %s %s" % (s[1], ["=", "+=", "-="][k % 3], cpp_e(s[2]))
    return "v%d %s %s" % (s[1], ["*=", "/="][k % 2], cpp_e(s[2]))



def build_verdicts(c, progs, G):
    """one C++ translation unit of requires-probes: P<k> = does statement k compile; U<k> = is the unit computed by g++
    the one exact rational arithmetic gives (only for homogeneous expression statements)"""
    nv = len(G)
    tps = ", ".join("typename T%d" % i for i in range(nv))
    args = ", ".join("T%d& v%d" % (i, i) for i in range(nv))
    inst = ", ".join("qt<%s>" % cpp_unit(u) for u in G)
    L = ['#include <cstdio>', '#include <type_traits>', '#include "TFEL/Math/qt.hxx"', 'using namespace tfel::math;', 'using namespace tfel::math::unit;',
         'template <typename T, int... E> struct same_exps { static constexpr bool value = false; };',
         'template <typename T> requires(std::is_same_v<std::remove_cvref_t<T>, double>) struct same_exps<T> { static constexpr bool value = true; };',
         'template <typename T, int N1, int N2, int N3, int N4, int N5, int N6, int N7, int D1, int D2, int D3, int D4, int D5, int D6, int D7>',
         'requires(ImmutableQuantityConcept<std::remove_cvref_t<T>>) struct same_exps<T, N1, N2, N3, N4, N5, N6, N7, D1, D2, D3, D4, D5, D6, D7> {',
         '  static constexpr bool value = exponents<quantity_unit<std::remove_cvref_t<T>>> == makeUnitExponents<N1, N2, N3, N4, N5, N6, N7, D1, D2, D3, D4, D5, D6, D7>(); };']
    hasu = set()
    for k, s in enumerate(progs):
        L.append("template <%s> constexpr bool P%d = requires(%s) { %s; };" % (tps, k, args, cpp_s(s, k)))
        if s[0] == "eval" and py_ok(s, G):
            d = py_dim(s[1], G)
            exps = "" if d is None else ", " + ", ".join(str(q.numerator) for q in d) + ", " + ", ".join(str(q.denominator) for q in d)
            L.append("template <%s> constexpr bool U%d = requires(%s) { requires same_exps<decltype(%s)%s>::value; };" % (tps, k, args, cpp_e(s[1]), exps))
            hasu.add(k)
    L.append("int main() {")
    for k, s in enumerate(progs):
        u = ("int(U%d<%s>)" % (k, inst)) if k in hasu else "-1"
        L.append('  std::printf("L %d %%d %%d\\n", int(P%d<%s>), %s);' % (k, k, inst, u))
    L.append("  return 0;\n}")
    tu1 = os.path.join(c.work, "verdicts.cxx")
    open(tu1, "w").write("\n".join(L) + "\n")
    exe1 = c.cxx("verdicts", [tu1], opt="-O0")
    return c.run([exe1])

def main(c):
    rng = c.rng
    F = Fr
    G = [tuple(F(x) for x in NAMED[n]) for n in ("Mass", "Length", "Time", "Temperature", "Stress", "Force", "NoUnit", "Speed", "Energy", "Density")]
    G.append((F(0), F(2), F(0), F(0), F(0), F(0), F(0)))            # area: StandardUnit, no name
    G.append((F(1, 2), F(0), F(-1), F(0), F(0), F(0), F(0)))        # sqrt(kg)/s: rational exponents
    G.append(tuple(F(x) for x in NAMED["Frequency"]))
    base = {0: 0, 1: 1, 2: 2, 4: 3}
    gen = Gen(rng, G, base)
    nprog = c.pick(300, 1200)
    progs = [gen.stmt() for _ in range(nprog)]
    # fixed corpus: the familiar cases first
    V = lambda i: ("var", i)
    corpus = [("eval", ("add", V(4), V(1))), ("eval", ("add", V(4), ("div", V(5), ("pow", 2, 1, V(1))))), ("cmp", V(4), ("lit", 0)),
              ("cmp", ("div", V(4), V(4)), ("lit", 0)), ("assign", 4, V(5)), ("assign", 4, ("div", V(5), V(10))), ("assign", 6, ("lit", 1)),
              ("assign", 4, ("lit", 1)), ("scale", 4, ("lit", 3)), ("scale", 4, V(6)), ("scale", 4, V(1)),
              ("eval", ("pow", 1, 2, ("mul", V(4), V(1)))), ("eval", ("add", V(11), ("pow", 1, 2, ("mul", V(0), ("pow", -2, 1, V(2)))))),
              ("eval", ("add", V(6), ("lit", 1))), ("eval", ("add", V(4), ("lit", 1))), ("eval", ("div", ("lit", 1), V(2))),
              ("cmp", ("div", ("lit", 1), V(2)), V(12)), ("eval", ("sub", ("mul", V(0), V(7)), ("mul", V(5), V(2))))]
    progs = corpus + progs
    if c.replay and "stmt" in c.replay.get("replay", {}):
        progs.insert(0, eval(c.replay["replay"]["stmt"]))
    n = len(progs)
    # ---- translation unit 1 (built in a thread while Coq runs): g++'s verdict per line, and the unit it computes
    from concurrent.futures import ThreadPoolExecutor
    pool = ThreadPoolExecutor(max_workers=1)
    fut = pool.submit(build_verdicts, c, progs, G)
    # ---- model verdicts (vm_compute)
    model = []
    CH = 1000
    for k0 in range(0, n, CH):
        txt = ("From Coq Require Import QArith List ZArith.\nFrom C20 Require Import C20Spec C20Model.\nImport ListNotations.\n"
               "Definition G : list unit := [" + ";\n  ".join(coq_unit(u) for u in G) + "].\n"
               "Definition enc (s : stmt) : list Z := ((if accepts G s then 1 else 0) :: match s with Eval e => match typeof G e with "
               "Some TS => [1] | Some (TQ u) => 2 :: flat_map (fun q => [Qnum q; Zpos (Qden q)]) u | None => [0] end | _ => [] end)%Z.\n"
               "Eval vm_compute in map enc [" + ";\n ".join(coq_s(s) for s in progs[k0:k0 + CH]) + "].\n")
        rc, o, e = c.coq_eval(["C20Spec.v", "C20Model.v"], txt)
        if rc != 0:
            c.report("model-eval", "evaluation of the Gallina model failed: " + e[-600:], {"stderr": e[-3000:]}, False)
            return
        body = o[o.index("=") + 1:o.rindex(":")]
        rows = re.findall(r"\[([^\[\]]*)\]", body)
        rows = [[int(x.replace("(", "").replace(")", "").replace("%Z", "")) for x in r.split(";") if x.strip()] for r in rows]
        if len(rows) != len(progs[k0:k0 + CH]):
            c.report("model-eval-count", "model evaluation returned %d rows for %d programs" % (len(rows), len(progs[k0:k0 + CH])), {}, False)
            return
        model += rows
    c.log("model evaluated")
    # ---- proofs (while the verdict program compiles)
    res = c.coq(["C20Spec.v", "C20Model.v", "C20Proofs.v", "Properties_C20.v"], timeout=900)
    c.log("coq done")
    nv = len(G)
    rc, out, err = fut.result()
    pool.shutdown()
    if rc != 0:
        c.report("run-verdicts", "verdict program failed: " + err[-300:], {}, False)
        return
    c.log("verdicts compiled and run")
    gpp = {}
    for l in out.splitlines():
        t = l.split()
        gpp[int(t[1])] = (int(t[2]), int(t[3]))
    c.trusted("props/C20/check.py program generator and printers (Coq term / C++ text of the same AST)",
              "g++ 12 as the judge of acceptance (requires-expressions in a templated context)",
              "canonical spelling of declared units (what unit::UnitRebind yields); differently spelled equal units are outside the generated programs")
    both = []
    nacc = 0
    ncat = {}
    _report = c.report

    def capped(key, what, replay=None, found_input=True):
        cat = key.split(":")[0]
        ncat[cat] = ncat.get(cat, 0) + 1
        if ncat[cat] <= 4:
            _report(key, what, replay, found_input)
    c.report = capped
    for k, s in enumerate(progs):
        g, gu = gpp[k]
        m = model[k][0]
        ok = py_ok(s, G)
        text = cpp_s(s, k)
        nacc += g
        c.count(1, coq_s(s), True)
        if k % 37 == 5:
            c.sample({"program": text, "model_accepts": bool(m), "gpp_accepts": bool(g), "homogeneous": bool(ok)})
        rep = {"stmt": repr(s), "cxx": text, "declared_units": [cpp_unit(u) for u in G], "model_accepts": m, "gpp_accepts": g, "homogeneous": ok}
        if g and not ok:
            c.report("unsound:" + text[:120], "g++ ACCEPTS the dimensionally inhomogeneous statement `%s` (variables: %s)" % (
                text, ", ".join("v%d:%s" % (i, cpp_unit(u)) for i, u in enumerate(G))), rep, True)
        elif g != m:
            c.report("verdict:" + text[:120], "g++ %s `%s` but the model %s it (statement is %shomogeneous)" % (
                "accepts" if g else "rejects", text, "accepts" if m else "rejects", "" if ok else "not "), rep, True)
        elif m != (1 if ok else 0):
            c.report("model-vs-spec:" + text[:120], "model verdict %d differs from the independent dimensional analysis %s on `%s`" % (m, ok, text), rep, True)
        elif s[0] == "eval" and g == 1:
            d = py_dim(s[1], G)
            want = [1] if d is None else [2] + [x for q in d for x in (q.numerator, q.denominator)]
            if gu != 1 or model[k][1:] != want:
                c.report("unit:" + text[:120], "unit of `%s`: g++ %s the model's exponents %s; exact rational arithmetic gives %s" % (
                    text, "agrees with" if gu == 1 else "DISAGREES with", model[k][2:], want[1:]), rep, True)
            else:
                both.append(k)
    c.log("verdicts compared: %d accepted of %d" % (nacc, n))
    # ---- translation unit 2: transparency of values (bit for bit)
    vals = [round(0.5 + 2.5 * rng.random(), 3) for _ in range(nv)]
    L = ['#include <cstdio>', '#include <cstring>', '#include <cstdint>', '#include "TFEL/Math/qt.hxx"', 'using namespace tfel::math;', 'using namespace tfel::math::unit;',
         'static unsigned long long bits(double x) { unsigned long long u; std::memcpy(&u, &x, 8); return u; }',
         'template <typename T> static double val(const T& x) { if constexpr (std::is_same_v<T, double>) return x; else return base_type_cast(x); }']
    for k in both:
        decl_q = " ".join("qt<%s> v%d(%r);" % (cpp_unit(u), i, vals[i]) for i, u in enumerate(G))
        decl_p = " ".join("double x%d = %r;" % (i, vals[i]) for i in range(nv))
        L.append("static double q%d() { %s auto r = %s; return val(r); }" % (k, decl_q, cpp_e(progs[k][1])))
        L.append("static double p%d() { %s return %s; }" % (k, decl_p, cpp_e(progs[k][1], True)))
    L.append("int main() {")
    for k in both:
        L.append('  std::printf("V %d %%llx %%llx\\n", bits(q%d()), bits(p%d()));' % (k, k, k))
    L.append("  return 0;\n}")
    tu2 = os.path.join(c.work, "values.cxx")
    open(tu2, "w").write("\n".join(L) + "\n")
    exe2 = c.cxx("values", [tu2], opt="-O1", flags=["-ffp-contract=off", "-Wno-unused-variable"])
    rc, out, err = c.run([exe2])
    if rc != 0:
        c.report("run-values", "value program failed: " + err[-300:], {}, False)
        return
    nval = 0
    for l in out.splitlines():
        t = l.split()
        k, a, b = int(t[1]), int(t[2], 16), int(t[3], 16)
        nval += 1
        fa, fb = struct.unpack("<d", struct.pack("<Q", a))[0], struct.unpack("<d", struct.pack("<Q", b))[0]
        if a != b and not (fa != fa and fb != fb):
            text = cpp_e(progs[k][1])
            c.report("value:" + text[:120], "`%s` with quantities gives %r, the same computation on doubles gives %r (values %s)" % (text, fa, fb, vals),
                     {"stmt": repr(progs[k]), "cxx": text, "values": vals, "qt": fa, "plain": fb}, True)
    c.report = _report
    if any(v > 4 for v in ncat.values()):
        c.notes.append("failing programs per category (first 4 of each reported): %s" % ncat)
    c.coverage["traces_validated_against_impl"] = n + nval
    c.coverage["rule"] = ("%d statements (18 corpus + %d seeded; kinds eval/compare/assign/scale; 13 declared units incl. one unnamed integer and one "
                          "rational-exponent unit; sums built homogeneous / near-miss / random), g++ accepted %d; per statement: g++ verdict = model verdict = "
                          "exact dimensional analysis, unit computed by g++ = model's exponents; %d accepted expressions compared bit for bit with the "
                          "computation on plain doubles" % (n, nprog, nacc, nval))
    if not res.ok:
        if c.violations and any(v[3] for v in c.violations):
            c.notes.append("proof obligations failed: %s; concrete failing programs reported above" % [f[2] for f in res.failed])
        else:
            c.coq_failures(res, None)


guarded_main("C20", main)

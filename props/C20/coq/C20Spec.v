(* C20 -- specification: physical dimensions are vectors of 7 rational exponents (kg, m, s, A, K, cd, mol) under
   pointwise rational arithmetic; two dimensions are the same when all exponents are equal as rationals (Qeq).
   Written independently of the code: no normalisation, no gcd. *)
From Coq Require Import QArith List Bool.
Import ListNotations.

Definition dim := list Q.
Definition zipw {A B C} (f : A -> B -> C) (a : list A) (b : list B) : list C :=
  map (fun p => f (fst p) (snd p)) (combine a b).
Definition dim_eq (a b : dim) : Prop := Forall2 Qeq a b.
Definition dim_one : dim := repeat 0%Q 7.                 (* dimensionless *)
Definition dim_mul (a b : dim) : dim := zipw Qplus a b.   (* unit of a product: exponents add *)
Definition dim_div (a b : dim) : dim := zipw Qminus a b.  (* unit of a quotient *)
Definition dim_pow (r : Q) (a : dim) : dim := map (fun q => Qmult q r) a.   (* unit of x^r *)

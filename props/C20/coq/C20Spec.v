(* C20 -- specification: physical dimensions are vectors of 7 rational exponents (kg, m, s, A, K, cd, mol) under
   pointwise rational arithmetic; two dimensions are the same when all exponents are equal as rationals (Qeq).
   Written independently of the code: no normalisation, no gcd. *)
From Coq Require Import QArith List Bool.
Import ListNotations.

Definition dim := list Q.
Definition zipw {A B C} (f : A -> B -> C) (a : list A) (b : list B) : list C :=
  map (fun p => f (fst p) (snd p)) (combine a b).
Definition dim_eq (a b : dim) : Prop := Forall2 Qeq a b.
Definition dim_one : dim := repeat 0%Q 7.                 (* dimensionless *)
Definition dim_mul (a b : dim) : dim := zipw Qplus a b.   (* unit of a product: exponents add *)
Definition dim_div (a b : dim) : dim := zipw Qminus a b.  (* unit of a quotient *)
Definition dim_pow (r : Q) (a : dim) : dim := map (fun q => Qmult q r) a.   (* unit of x^r *)

(* ---------------------------------------------------------------------------------------------------------------
   Extension: tensorial objects of quantities, math functions, element access.
   The language of the generated programs (syntax and shapes) and the dimension `dim_of` of an expression computed
   with plain rational arithmetic.  A plain number is dimensionless.  `None` = the expression is not homogeneous
   (or the shapes do not fit). *)
Inductive shape := Sc | Vec | Sym | T4.      (* scalar | tvector<N> | stensor<N> | st2tost2<N> *)
Definition shape_same (a b : shape) : option shape :=
  match a, b with Sc, Sc => Some Sc | Vec, Vec => Some Vec | Sym, Sym => Some Sym | T4, T4 => Some T4 | _, _ => None end.
Definition shape_mul (a b : shape) : option shape :=      (* scalar * object, object * scalar, st2tost2 * stensor, st2tost2 * st2tost2 *)
  match a, b with Sc, s => Some s | s, Sc => Some s | T4, Sym => Some Sym | T4, T4 => Some T4 | _, _ => None end.
Definition shape_div (a b : shape) : option shape := match b with Sc => Some a | _ => None end.
Definition shape_inner (a b : shape) : option shape := match a, b with Sym, Sym | Vec, Vec => Some Sc | _, _ => None end.
Definition shape_dyad (a b : shape) : option shape := match a, b with Sym, Sym => Some T4 | _, _ => None end.

Inductive xexpr :=
| XVar (i : nat) | XLit (k : nat)
| XAdd (a b : xexpr) | XSub (a b : xexpr) | XMul (a b : xexpr) | XDiv (a b : xexpr) | XNeg (a : xexpr)
| XPow (n : Z) (d : positive) (a : xexpr)
| XSqrt (a : xexpr) | XCbrt (a : xexpr) | XAbs (a : xexpr)
| XFn (k : nat) (a : xexpr)                (* exp, log, sin, cos, tanh, std::sqrt, std::cbrt: dimensionless arguments only *)
| XInner (a b : xexpr)                     (* a | b *)
| XDyad (a b : xexpr)                      (* a ^ b *)
| XElem (a : xexpr).                       (* a(i), a(i,j) *)

Fixpoint dim_eqb (a b : dim) : bool :=
  match a, b with
  | [], [] => true
  | x :: a', y :: b' => Qeq_bool x y && dim_eqb a' b'
  | _, _ => false
  end.
Definition sdim := (shape * dim)%type.
Definition sbin (fs : shape -> shape -> option shape) (fd : dim -> dim -> option dim) (x y : option sdim) : option sdim :=
  match x, y with
  | Some (s1, d1), Some (s2, d2) => match fs s1 s2, fd d1 d2 with Some s, Some d => Some (s, d) | _, _ => None end
  | _, _ => None
  end.
Definition ssc1 (f : dim -> option dim) (x : option sdim) : option sdim :=
  match x with Some (Sc, d) => option_map (pair Sc) (f d) | _ => None end.
Definition d_same (a b : dim) : option dim := if dim_eqb a b then Some a else None.     (* sums: same dimension *)
Definition d_mul (a b : dim) : option dim := Some (dim_mul a b).
Definition d_div (a b : dim) : option dim := Some (dim_div a b).
Definition d_fn (a : dim) : option dim := if dim_eqb a dim_one then Some dim_one else None.
Fixpoint dim_of (G : list sdim) (e : xexpr) : option sdim :=
  match e with
  | XVar i => nth_error G i
  | XLit _ => Some (Sc, dim_one)
  | XAdd a b | XSub a b => sbin shape_same d_same (dim_of G a) (dim_of G b)
  | XMul a b => sbin shape_mul d_mul (dim_of G a) (dim_of G b)
  | XDiv a b => sbin shape_div d_div (dim_of G a) (dim_of G b)
  | XNeg a => dim_of G a
  | XPow n d a => ssc1 (fun x => Some (dim_pow (n # d) x)) (dim_of G a)
  | XSqrt a => ssc1 (fun x => Some (dim_pow (1 # 2) x)) (dim_of G a)
  | XCbrt a => ssc1 (fun x => Some (dim_pow (1 # 3) x)) (dim_of G a)
  | XAbs a => ssc1 Some (dim_of G a)
  | XFn _ a => ssc1 d_fn (dim_of G a)
  | XInner a b => sbin shape_inner d_mul (dim_of G a) (dim_of G b)
  | XDyad a b => sbin shape_dyad d_mul (dim_of G a) (dim_of G b)
  | XElem a => match dim_of G a with Some (Sc, _) => None | Some (_, d) => Some (Sc, d) | None => None end
  end.

(* C20 -- property theorems (statements only; proofs are in C20Proofs.v). *)
From Coq Require Import QArith List Bool.
From C20 Require Import C20Spec C20Model C20Proofs.
Import ListNotations.

(* the gcd-normalised unit arithmetic is rational arithmetic on the 7 exponents, and stays in lowest terms *)
Theorem C20_unit_arithmetic_is_rational : forall a b n d, length a = length b ->
  dim_eq (u_add a b) (dim_mul a b) /\ dim_eq (u_sub a b) (dim_div a b) /\ dim_eq (u_pow n d a) (dim_pow (n # d) a) /\
  canon_u (u_add a b) /\ canon_u (u_sub a b) /\ canon_u (u_pow n d a).
Proof.
  intros a b n d Hl. repeat split.
  - apply Forall2_zipw_map; [exact Hl | exact ue_add_Q].
  - apply Forall2_zipw_map; [exact Hl | exact ue_sub_Q].
  - unfold u_pow, dim_pow, dim_eq. clear. induction a; simpl; constructor; [apply ue_mul_Q | assumption].
  - apply canon_zipw, ue_add_canon.
  - apply canon_zipw, ue_sub_canon.
  - apply canon_pow.
Qed.
Print Assumptions C20_unit_arithmetic_is_rational.

(* units form an abelian group with rational powers (Leibniz equality on normalised units) *)
Theorem C20_unit_group : forall a b c n d, canon_u a -> length a = 7%nat ->
  u_add a b = u_add b a /\ u_add (u_add a b) c = u_add a (u_add b c) /\ u_add a u_none = a /\ u_sub a a = u_none /\
  u_pow n d (u_add a b) = u_add (u_pow n d a) (u_pow n d b) /\ u_pow 1 1 a = a.
Proof.
  intros a b c n d Hc Hl. repeat split.
  - apply u_add_comm. - apply u_add_assoc. - now apply u_add_none. - now apply u_sub_self. - apply u_pow_add. - now apply u_pow_one.
Qed.
Print Assumptions C20_unit_group.

(* member-wise equality of normalised units is equality of dimensions *)
Theorem C20_unit_equality : forall a b, canon_u a -> canon_u b -> (u_eqb a b = true <-> dim_eq a b).
Proof. intros a b Ha Hb. rewrite u_eqb_eq. now apply canon_dim_eq. Qed.
Print Assumptions C20_unit_equality.

(* soundness: + - and comparisons are accepted exactly for equal dimensions (a scalar counts as dimensionless);
   assignment (=, +=, -=) exactly when the dimension of the value is the declared one *)
Theorem C20_rejects_exactly_mismatches : forall G u v, Forall canon_u G -> canon_u u -> canon_u v ->
  (ty_addsub (TQ u) (TQ v) <> None <-> dim_eq u v) /\
  (ty_addsub (TQ u) TS <> None <-> dim_eq u dim_one) /\ (ty_addsub TS (TQ u) <> None <-> dim_eq u dim_one) /\
  (forall a b x y, typeof G a = Some x -> typeof G b = Some y ->
     accepts G (Cmp a b) = match ty_addsub x y with Some _ => true | None => false end) /\
  (forall i e U w, nth_error G i = Some U -> typeof G e = Some (TQ w) -> (accepts G (Assign i e) = true <-> dim_eq U w)) /\
  (forall i e U, nth_error G i = Some U -> typeof G e = Some TS -> (accepts G (Assign i e) = true <-> dim_eq U dim_one)).
Proof.
  intros G u v HG Hu Hv. split; [now apply addsub_qq|]. split; [apply (addsub_qs u Hu)|]. split; [apply (addsub_qs u Hu)|].
  split; [intros; now apply cmp_accepts|]. split; [intros; now apply assign_accepts | intros; now apply assign_scalar_accepts].
Qed.
Print Assumptions C20_rejects_exactly_mismatches.

(* every unit computed by the typing is in lowest terms, so type identity after UnitRebind is dimension equality *)
Theorem C20_typing_keeps_units_normalised : forall G e t, Forall canon_u G -> typeof G e = Some t -> canon_ty t.
Proof. intros G e t HG H. exact (typeof_canon G e HG t H). Qed.
Print Assumptions C20_typing_keeps_units_normalised.

(* transparency: for every well-dimensioned expression the reference semantics (units checked dynamically) computes
   the value of the erased program, whatever the value type and its operations *)
Theorem C20_transparency : forall (V : Type) vadd vsub vmul vdiv vneg vpow vlit G env e t,
  typeof G e = Some t ->
  qeval V vadd vsub vmul vdiv vneg vpow vlit G env e = Some (t, erase_eval V vadd vsub vmul vdiv vneg vpow vlit env e).
Proof. intros. rewrite erasure. now rewrite H. Qed.
Print Assumptions C20_transparency.
Theorem C20_ill_dimensioned_has_no_value : forall (V : Type) vadd vsub vmul vdiv vneg vpow vlit G env e,
  typeof G e = None -> qeval V vadd vsub vmul vdiv vneg vpow vlit G env e = None.
Proof. intros. rewrite erasure. now rewrite H. Qed.
Print Assumptions C20_ill_dimensioned_has_no_value.

(* examples: Stress = Force / Length^2, sqrt(Stress * Length) has a rational unit, Stress + Length is rejected *)
Definition uStress : unit := [1#1; (-1)#1; (-2)#1; 0#1; 0#1; 0#1; 0#1].
Definition uForce : unit := [1#1; 1#1; (-2)#1; 0#1; 0#1; 0#1; 0#1].
Definition uLength : unit := [0#1; 1#1; 0#1; 0#1; 0#1; 0#1; 0#1].
Theorem C20_examples :
  typeof [uForce; uLength; uStress] (Div (Var 0) (Mul (Var 1) (Var 1))) = Some (TQ uStress) /\
  typeof [uForce; uLength; uStress] (Pow 1 2 (Mul (Var 2) (Var 1))) = Some (TQ [1#2; 0#1; (-1)#1; 0#1; 0#1; 0#1; 0#1]) /\
  typeof [uForce; uLength; uStress] (Add (Var 2) (Var 1)) = None /\
  typeof [uForce; uLength; uStress] (Add (Var 2) (Div (Var 0) (Pow 2 1 (Var 1)))) = Some (TQ uStress) /\
  accepts [uForce; uLength; uStress] (Assign 2 (Var 0)) = false /\
  accepts [uForce; uLength; uStress] (Cmp (Var 2) (Lit 0)) = false /\
  accepts [uForce; uLength; uStress] (Cmp (Div (Var 2) (Var 2)) (Lit 0)) = true.
Proof. vm_compute. repeat split. Qed.
Print Assumptions C20_examples.

(* ================= extension: quantities inside tvector / stensor / st2tost2, math functions, views ================= *)

(* soundness and completeness of the extended typing: an expression is typed exactly when the specification (plain
   rational arithmetic: product -> +, quotient -> -, power/sqrt/cbrt -> *r, abs -> same, contraction / inner / dyadic
   product -> +, exp/log/... -> dimensionless only, sums -> same dimension and shape) finds it homogeneous, with the
   same shape and the same dimension; every computed unit is 7 exponents in lowest terms *)
Theorem C20_ext_typing_sound_and_complete : forall G e, Forall wf_decl G ->
  match typeofX G e, dim_of (map sdecl G) e with
  | Some (s, t), Some (s', d) => s = s' /\ wf_ty t /\ dim_eq (ty_dim t) d
  | None, None => True
  | _, _ => False
  end.
Proof. exact typeofX_spec. Qed.
Print Assumptions C20_ext_typing_sound_and_complete.

Theorem C20_ext_typed_is_homogeneous : forall G e s t, Forall wf_decl G -> typeofX G e = Some (s, t) ->
  wf_ty t /\ exists d, dim_of (map sdecl G) e = Some (s, d) /\ dim_eq (ty_dim t) d.
Proof. exact typeofX_wf. Qed.
Print Assumptions C20_ext_typed_is_homogeneous.

Theorem C20_ext_rejected_iff_inhomogeneous : forall G e, Forall wf_decl G ->
  (typeofX G e = None <-> dim_of (map sdecl G) e = None).
Proof. exact typeofX_none. Qed.
Print Assumptions C20_ext_rejected_iff_inhomogeneous.

(* transparency of the extended language: the reference semantics (shape and unit carried by every value and checked
   at every operation) computes the value of the erased program; an untyped expression has no value *)
Theorem C20_ext_transparency : forall (V : Type) vadd vsub vmul vdiv vinner vdyad vneg vsqrt vcbrt vabs velem vpow vfn vlit G env e,
  qevalX V vadd vsub vmul vdiv vinner vdyad vneg vsqrt vcbrt vabs velem vpow vfn vlit G env e =
  match typeofX G e with
  | Some t => Some (t, erase_evalX V vadd vsub vmul vdiv vinner vdyad vneg vsqrt vcbrt vabs velem vpow vfn vlit env e)
  | None => None
  end.
Proof. exact erasureX. Qed.
Print Assumptions C20_ext_transparency.

(* what is rejected: exp/log/sin/... of a quantity exactly when it is not dimensionless; sums of tensors exactly when
   shapes or dimensions differ; assignment of a tensor expression exactly when the target is not writable, or the
   shape or the dimension differs *)
Theorem C20_ext_rejections : forall G, Forall wf_decl G ->
  (forall k a t, typeofX G a = Some (Sc, t) -> (typeofX G (XFn k a) <> None <-> dim_eq (ty_dim t) dim_one)) /\
  (forall a b s1 t1 s2 t2, typeofX G a = Some (s1, t1) -> typeofX G b = Some (s2, t2) ->
     (typeofX G (XAdd a b) <> None <-> s1 = s2 /\ dim_eq (ty_dim t1) (ty_dim t2)) /\
     (typeofX G (XSub a b) <> None <-> s1 = s2 /\ dim_eq (ty_dim t1) (ty_dim t2))) /\
  (forall i e d s t, nth_error G i = Some d -> typeofX G e = Some (s, t) ->
     (acceptsX G (XAssign i e) = true <-> d_mut d = true /\ d_shape d = s /\ dim_eq (ty_dim (d_ty d)) (ty_dim t))).
Proof.
  intros G HG. split; [intros; now apply fn_accepts|]. split; [intros; now apply sum_accepts | intros; now apply assign_acceptsX].
Qed.
Print Assumptions C20_ext_rejections.

(* examples: stiffness * strain is a stress tensor; sqrt(Stress*Stress) = Stress; the cube root of a volume is a length;
   exp(Stress) is rejected, exp(Stress/Stress) accepted (a double); stress tensor + strain tensor rejected; s | e is a
   stress; s ^ s is a fourth order tensor in Pa^2; sqrt(l) / cbrt(l) has exponent 1/6 *)
Definition uNone : unit := [0#1; 0#1; 0#1; 0#1; 0#1; 0#1; 0#1].
Definition GX : list decl := [mkdecl T4 (TQ uStress) true; mkdecl Sym (TQ uNone) true; mkdecl Sc (TQ uStress) true;
                              mkdecl Sc (TQ uLength) true; mkdecl Sym (TQ uStress) true; mkdecl Sym (TQ uStress) false].
Theorem C20_ext_examples :
  typeofX GX (XMul (XVar 0) (XVar 1)) = Some (Sym, TQ uStress) /\
  typeofX GX (XSqrt (XMul (XVar 2) (XVar 2))) = Some (Sc, TQ uStress) /\
  typeofX GX (XCbrt (XMul (XMul (XVar 3) (XVar 3)) (XVar 3))) = Some (Sc, TQ uLength) /\
  typeofX GX (XFn 0 (XVar 2)) = None /\
  typeofX GX (XFn 0 (XDiv (XVar 2) (XVar 2))) = Some (Sc, TS) /\
  typeofX GX (XAdd (XVar 4) (XVar 1)) = None /\
  typeofX GX (XInner (XVar 4) (XVar 1)) = Some (Sc, TQ uStress) /\
  typeofX GX (XDyad (XVar 4) (XVar 4)) = Some (T4, TQ [2#1; (-2)#1; (-4)#1; 0#1; 0#1; 0#1; 0#1]) /\
  typeofX GX (XDiv (XSqrt (XVar 3)) (XCbrt (XVar 3))) = Some (Sc, TQ [0#1; 1#6; 0#1; 0#1; 0#1; 0#1; 0#1]) /\
  typeofX GX (XElem (XMul (XVar 0) (XVar 1))) = Some (Sc, TQ uStress) /\
  acceptsX GX (XAssign 4 (XMul (XVar 0) (XVar 1))) = true /\
  acceptsX GX (XAssign 4 (XVar 1)) = false /\
  acceptsX GX (XAssign 5 (XVar 4)) = false /\
  acceptsX GX (XAssign 4 (XDyad (XVar 4) (XVar 1))) = false /\
  acceptsX GX (XAssignElem 4 (XVar 2)) = true /\
  acceptsX GX (XAssignElem 4 (XVar 3)) = false.
Proof. vm_compute. repeat split. Qed.
Print Assumptions C20_ext_examples.

(* the extended typing restricted to scalar programs is the scalar typing (so the scalar theorems above speak about the same rules) *)
Theorem C20_ext_conservative : forall G e, typeofX (sdecls G) (embed e) = option_map (pair Sc) (typeof G e).
Proof. exact embed_typeof. Qed.
Print Assumptions C20_ext_conservative.

(* C20 -- proofs about the unit arithmetic and the typing model. *)
From Coq Require Import QArith List Bool Lia.
From C20 Require Import C20Spec C20Model.
Import ListNotations.

Definition canon (q : Q) : Prop := Qred q = q.
Definition canon_u (u : unit) : Prop := Forall canon u.

Lemma Qred_idem q : Qred (Qred q) = Qred q.
Proof. apply Qred_complete, Qred_correct. Qed.
Lemma canon_eq x y : canon x -> canon y -> x == y -> x = y.
Proof. unfold canon. intros Hx Hy H. rewrite <- Hx, <- Hy. now apply Qred_complete. Qed.

(* ---- exponent level: the gcd-normalised operations are rational arithmetic, in lowest terms ---- *)
Lemma ue_add_Q a b : ue_add a b == a + b. Proof. apply Qred_correct. Qed.
Lemma ue_sub_Q a b : ue_sub a b == a - b. Proof. apply Qred_correct. Qed.
Lemma ue_mul_Q a b : ue_mul a b == a * b. Proof. apply Qred_correct. Qed.
Lemma ue_add_canon a b : canon (ue_add a b). Proof. apply Qred_idem. Qed.
Lemma ue_sub_canon a b : canon (ue_sub a b). Proof. apply Qred_idem. Qed.
Lemma ue_mul_canon a b : canon (ue_mul a b). Proof. apply Qred_idem. Qed.

Lemma ue_add_comm a b : ue_add a b = ue_add b a.
Proof. apply Qred_complete, Qplus_comm. Qed.
Lemma ue_add_assoc a b c : ue_add (ue_add a b) c = ue_add a (ue_add b c).
Proof. apply Qred_complete. rewrite (ue_add_Q a b), (ue_add_Q b c). symmetry. apply Qplus_assoc. Qed.
Lemma ue_add_0 a : canon a -> ue_add a (0 # 1) = a.
Proof. intro H. unfold canon in H. unfold ue_add. rewrite <- H at 2. apply Qred_complete. apply Qplus_0_r. Qed.
Lemma ue_sub_self a : ue_sub a a = 0 # 1.
Proof. change (0 # 1) with (Qred (0 # 1)). apply Qred_complete. unfold Qminus. apply Qplus_opp_r. Qed.
Lemma ue_sub_add a b : canon a -> ue_sub (ue_add a b) b = a.
Proof.
  intro H. unfold canon in H. unfold ue_sub. rewrite <- H at 2. apply Qred_complete. rewrite (ue_add_Q a b). unfold Qminus.
  rewrite <- Qplus_assoc, Qplus_opp_r. apply Qplus_0_r.
Qed.
Lemma ue_mul_add a b r : ue_mul (ue_add a b) r = ue_add (ue_mul a r) (ue_mul b r).
Proof. apply Qred_complete. rewrite (ue_add_Q a b), (ue_mul_Q a r), (ue_mul_Q b r). apply Qmult_plus_distr_l. Qed.
Lemma ue_mul_mul a r s : ue_mul (ue_mul a r) s = ue_mul a (r * s).
Proof. apply Qred_complete. rewrite (ue_mul_Q a r). symmetry. apply Qmult_assoc. Qed.
Lemma ue_mul_1 a : canon a -> ue_mul a (1 # 1) = a.
Proof. intro H. unfold canon in H. unfold ue_mul. rewrite <- H at 2. apply Qred_complete, Qmult_1_r. Qed.

(* ---- structural equality of normalised exponents IS equality of the rationals ---- *)
Lemma ue_eqb_eq a b : ue_eqb a b = true <-> a = b.
Proof.
  destruct a as [n d], b as [n' d']. unfold ue_eqb. simpl. rewrite andb_true_iff, Z.eqb_eq, Pos.eqb_eq.
  split; [intros [-> ->]; reflexivity | intro H; inversion H; auto].
Qed.
Lemma u_eqb_eq a : forall b, u_eqb a b = true <-> a = b.
Proof.
  induction a as [|x a IH]; destruct b as [|y b]; simpl; try (split; [discriminate | discriminate]); [tauto|].
  rewrite andb_true_iff, ue_eqb_eq, IH. split; [intros [-> ->]; reflexivity | intro H; inversion H; auto].
Qed.
Lemma canon_dim_eq a : forall b, canon_u a -> canon_u b -> (a = b <-> dim_eq a b).
Proof.
  unfold dim_eq, canon_u. induction a as [|x a IH]; intros b Ha Hb.
  - split; [intros <-; constructor | intro H; inversion H; reflexivity].
  - split; [intros <-; clear; induction (x :: a); constructor; [reflexivity | assumption] |].
    intro H. inversion H as [|? y ? b' Hxy Hab]; subst. inversion Ha; inversion Hb; subst.
    f_equal; [now apply canon_eq | apply IH; assumption].
Qed.

(* ---- list level ---- *)
Lemma zipw_comm {A B} (f : A -> A -> B) a : forall b, (forall x y, f x y = f y x) -> zipw f a b = zipw f b a.
Proof. unfold zipw. induction a as [|x a IH]; destruct b as [|y b]; intros H; simpl; try reflexivity. now rewrite H, IH. Qed.
Lemma zipw_assoc {A} (f : A -> A -> A) a : forall b c, (forall x y z, f (f x y) z = f x (f y z)) ->
  zipw f (zipw f a b) c = zipw f a (zipw f b c).
Proof.
  unfold zipw. induction a as [|x a IH]; intros b c H; [reflexivity|].
  destruct b as [|y b]; [reflexivity|]. destruct c as [|z c]; [reflexivity|]. simpl. rewrite H. f_equal. apply IH, H.
Qed.
Lemma u_add_comm a b : u_add a b = u_add b a.
Proof. apply zipw_comm, ue_add_comm. Qed.
Lemma u_add_assoc a b c : u_add (u_add a b) c = u_add a (u_add b c).
Proof. apply zipw_assoc, ue_add_assoc. Qed.
Lemma u_add_none a : canon_u a -> length a = 7%nat -> u_add a u_none = a.
Proof.
  intros Hc Hl. do 8 (destruct a as [|? a]; try discriminate Hl). unfold u_add, zipw, u_none. simpl.
  repeat match goal with H : canon_u (_ :: _) |- _ => inversion H; clear H; subst end.
  unfold canon_u in *. repeat match goal with H : Forall _ (_ :: _) |- _ => inversion H; clear H; subst end.
  now rewrite !ue_add_0.
Qed.
Lemma u_sub_self a : length a = 7%nat -> u_sub a a = u_none.
Proof.
  intro Hl. do 8 (destruct a as [|? a]; try discriminate Hl). unfold u_sub, zipw, u_none. simpl. now rewrite !ue_sub_self.
Qed.
Lemma u_pow_add n d a : forall b, u_pow n d (u_add a b) = u_add (u_pow n d a) (u_pow n d b).
Proof.
  unfold u_pow, u_add, zipw. induction a as [|x a IH]; destruct b as [|y b]; simpl; try reflexivity.
  now rewrite ue_mul_add, IH.
Qed.
Lemma u_pow_one a : canon_u a -> u_pow 1 1 a = a.
Proof. unfold u_pow. induction 1 as [|x a Hx Ha IH]; simpl; [reflexivity|]. now rewrite ue_mul_1, IH. Qed.

Lemma Forall2_zipw_map {A} (R : A -> A -> Prop) (f g : A -> A -> A) a : forall b, length a = length b ->
  (forall x y, R (f x y) (g x y)) -> Forall2 R (zipw f a b) (zipw g a b).
Proof.
  unfold zipw. induction a as [|x a IH]; destruct b as [|y b]; simpl; intros Hl H; try discriminate; constructor; [apply H | apply IH; auto].
Qed.
Lemma canon_zipw (f : Q -> Q -> Q) a : forall b, (forall x y, canon (f x y)) -> canon_u (zipw f a b).
Proof. unfold zipw, canon_u. induction a as [|x a IH]; destruct b as [|y b]; simpl; intro H; constructor; [apply H | apply IH, H]. Qed.
Lemma canon_none : canon_u u_none.
Proof. unfold u_none. simpl. repeat constructor. Qed.
Lemma canon_pow n d a : canon_u (u_pow n d a).
Proof. unfold u_pow, canon_u. induction a; simpl; constructor; [apply ue_mul_canon | assumption]. Qed.

(* units computed by the typing are in lowest terms when the declared ones are *)
Definition canon_ty (t : ty) : Prop := match t with TS => True | TQ u => canon_u u end.
Lemma typeof_canon G e : Forall canon_u G -> forall t, typeof G e = Some t -> canon_ty t.
Proof.
  intro HG. induction e as [i|k|a IHa b IHb|a IHa b IHb|a IHa b IHb|a IHa b IHb|a IHa|n d a IHa]; simpl; intros t Ht.
  - destruct (nth_error G i) as [u|] eqn:E; [|discriminate]. injection Ht as <-. simpl.
    rewrite Forall_forall in HG. apply HG. eapply nth_error_In, E.
  - now injection Ht as <-.
  - destruct (typeof G a) as [x|]; [|discriminate]. destruct (typeof G b) as [y|]; [|discriminate].
    specialize (IHa _ eq_refl). specialize (IHb _ eq_refl).
    destruct x as [|u], y as [|v]; simpl in Ht;
      repeat match type of Ht with context [if ?c then _ else _] => destruct c end; try discriminate; injection Ht as <-; simpl; auto using canon_none.
  - destruct (typeof G a) as [x|]; [|discriminate]. destruct (typeof G b) as [y|]; [|discriminate].
    specialize (IHa _ eq_refl). specialize (IHb _ eq_refl).
    destruct x as [|u], y as [|v]; simpl in Ht;
      repeat match type of Ht with context [if ?c then _ else _] => destruct c end; try discriminate; injection Ht as <-; simpl; auto using canon_none.
  - destruct (typeof G a) as [[|u]|]; destruct (typeof G b) as [[|v]|]; try discriminate; injection Ht as <-; simpl; auto.
    + apply (IHb _ eq_refl).
    + apply (IHa _ eq_refl).
    + apply canon_zipw, ue_add_canon.
  - destruct (typeof G a) as [[|u]|]; destruct (typeof G b) as [[|v]|]; try discriminate; injection Ht as <-; simpl; auto.
    + apply canon_zipw, ue_sub_canon.
    + apply (IHa _ eq_refl).
    + apply canon_zipw, ue_sub_canon.
  - auto.
  - destruct (typeof G a) as [[|u]|]; try discriminate; injection Ht as <-; simpl; auto. apply canon_pow.
Qed.

(* ---- transparency: the reference semantics of a well-typed expression is the erased computation ---- *)
Section Erasure.
  Variable V : Type.
  Variables (vadd vsub vmul vdiv : V -> V -> V) (vneg : V -> V) (vpow : Z -> positive -> V -> V) (vlit : nat -> V).
  Variable G : list unit.
  Variable env : nat -> V.
  Notation qev := (qeval V vadd vsub vmul vdiv vneg vpow vlit G env).
  Notation eev := (erase_eval V vadd vsub vmul vdiv vneg vpow vlit env).
  Lemma erasure e : qev e = match typeof G e with Some t => Some (t, eev e) | None => None end.
  Proof.
    induction e as [i|k|a IHa b IHb|a IHa b IHb|a IHa b IHb|a IHa b IHb|a IHa|n d a IHa]; simpl.
    - destruct (nth_error G i); reflexivity.
    - reflexivity.
    - rewrite IHa, IHb. destruct (typeof G a) as [x|]; [|reflexivity]. destruct (typeof G b) as [y|]; [|reflexivity].
      destruct (ty_addsub x y); reflexivity.
    - rewrite IHa, IHb. destruct (typeof G a) as [x|]; [|reflexivity]. destruct (typeof G b) as [y|]; [|reflexivity].
      destruct (ty_addsub x y); reflexivity.
    - rewrite IHa, IHb. destruct (typeof G a) as [[|u]|]; destruct (typeof G b) as [[|v]|]; reflexivity.
    - rewrite IHa, IHb. destruct (typeof G a) as [[|u]|]; destruct (typeof G b) as [[|v]|]; reflexivity.
    - rewrite IHa. destruct (typeof G a); reflexivity.
    - rewrite IHa. destruct (typeof G a) as [[|u]|]; reflexivity.
  Qed.
End Erasure.

(* ---- what is rejected: exactly sums / comparisons / assignments of different dimensions ---- *)
Lemma addsub_qq u v : canon_u u -> canon_u v -> (ty_addsub (TQ u) (TQ v) <> None <-> dim_eq u v).
Proof.
  intros Hu Hv. simpl. rewrite <- (canon_dim_eq u v Hu Hv), <- u_eqb_eq.
  destruct (u_eqb u v); split; congruence.
Qed.
Lemma addsub_qs u : canon_u u -> (ty_addsub (TQ u) TS <> None <-> dim_eq u dim_one) /\ (ty_addsub TS (TQ u) <> None <-> dim_eq u dim_one).
Proof.
  intros Hu. simpl. change dim_one with u_none. rewrite <- (canon_dim_eq u u_none Hu canon_none), <- u_eqb_eq.
  unfold is_none. destruct (u_eqb u u_none); repeat split; congruence.
Qed.
Lemma cmp_accepts G a b x y : typeof G a = Some x -> typeof G b = Some y ->
  accepts G (Cmp a b) = match ty_addsub x y with Some _ => true | None => false end.
Proof. intros Ha Hb. simpl. now rewrite Ha, Hb. Qed.
Lemma assign_accepts G i e U u : Forall canon_u G -> nth_error G i = Some U -> typeof G e = Some (TQ u) ->
  (accepts G (Assign i e) = true <-> dim_eq U u).
Proof.
  intros HG HU He. simpl. rewrite HU, He.
  assert (cU : canon_u U) by (rewrite Forall_forall in HG; eapply HG, nth_error_In, HU).
  assert (cu : canon_u u) by (apply (typeof_canon G e HG _ He)).
  now rewrite <- (canon_dim_eq U u cU cu), u_eqb_eq.
Qed.
Lemma assign_scalar_accepts G i e U : Forall canon_u G -> nth_error G i = Some U -> typeof G e = Some TS ->
  (accepts G (Assign i e) = true <-> dim_eq U dim_one).
Proof.
  intros HG HU He. simpl. rewrite HU, He.
  assert (cU : canon_u U) by (rewrite Forall_forall in HG; eapply HG, nth_error_In, HU).
  change dim_one with u_none. unfold is_none. now rewrite <- (canon_dim_eq U u_none cU canon_none), u_eqb_eq.
Qed.

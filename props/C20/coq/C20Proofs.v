(* C20 -- proofs about the unit arithmetic and the typing model. *)
From Coq Require Import QArith List Bool Lia.
From C20 Require Import C20Spec C20Model.
Import ListNotations.

Definition canon (q : Q) : Prop := Qred q = q.
Definition canon_u (u : unit) : Prop := Forall canon u.

Lemma Qred_idem q : Qred (Qred q) = Qred q.
Proof. apply Qred_complete, Qred_correct. Qed.
Lemma canon_eq x y : canon x -> canon y -> x == y -> x = y.
Proof. unfold canon. intros Hx Hy H. rewrite <- Hx, <- Hy. now apply Qred_complete. Qed.

(* ---- exponent level: the gcd-normalised operations are rational arithmetic, in lowest terms ---- *)
Lemma ue_add_Q a b : ue_add a b == a + b. Proof. apply Qred_correct. Qed.
Lemma ue_sub_Q a b : ue_sub a b == a - b. Proof. apply Qred_correct. Qed.
Lemma ue_mul_Q a b : ue_mul a b == a * b. Proof. apply Qred_correct. Qed.
Lemma ue_add_canon a b : canon (ue_add a b). Proof. apply Qred_idem. Qed.
Lemma ue_sub_canon a b : canon (ue_sub a b). Proof. apply Qred_idem. Qed.
Lemma ue_mul_canon a b : canon (ue_mul a b). Proof. apply Qred_idem. Qed.

Lemma ue_add_comm a b : ue_add a b = ue_add b a.
Proof. apply Qred_complete, Qplus_comm. Qed.
Lemma ue_add_assoc a b c : ue_add (ue_add a b) c = ue_add a (ue_add b c).
Proof. apply Qred_complete. rewrite (ue_add_Q a b), (ue_add_Q b c). symmetry. apply Qplus_assoc. Qed.
Lemma ue_add_0 a : canon a -> ue_add a (0 # 1) = a.
Proof. intro H. unfold canon in H. unfold ue_add. rewrite <- H at 2. apply Qred_complete. apply Qplus_0_r. Qed.
Lemma ue_sub_self a : ue_sub a a = 0 # 1.
Proof. change (0 # 1) with (Qred (0 # 1)). apply Qred_complete. unfold Qminus. apply Qplus_opp_r. Qed.
Lemma ue_sub_add a b : canon a -> ue_sub (ue_add a b) b = a.
Proof.
  intro H. unfold canon in H. unfold ue_sub. rewrite <- H at 2. apply Qred_complete. rewrite (ue_add_Q a b). unfold Qminus.
  rewrite <- Qplus_assoc, Qplus_opp_r. apply Qplus_0_r.
Qed.
Lemma ue_mul_add a b r : ue_mul (ue_add a b) r = ue_add (ue_mul a r) (ue_mul b r).
Proof. apply Qred_complete. rewrite (ue_add_Q a b), (ue_mul_Q a r), (ue_mul_Q b r). apply Qmult_plus_distr_l. Qed.
Lemma ue_mul_mul a r s : ue_mul (ue_mul a r) s = ue_mul a (r * s).
Proof. apply Qred_complete. rewrite (ue_mul_Q a r). symmetry. apply Qmult_assoc. Qed.
Lemma ue_mul_1 a : canon a -> ue_mul a (1 # 1) = a.
Proof. intro H. unfold canon in H. unfold ue_mul. rewrite <- H at 2. apply Qred_complete, Qmult_1_r. Qed.

(* ---- structural equality of normalised exponents IS equality of the rationals ---- *)
Lemma ue_eqb_eq a b : ue_eqb a b = true <-> a = b.
Proof.
  destruct a as [n d], b as [n' d']. unfold ue_eqb. simpl. rewrite andb_true_iff, Z.eqb_eq, Pos.eqb_eq.
  split; [intros [-> ->]; reflexivity | intro H; inversion H; auto].
Qed.
Lemma u_eqb_eq a : forall b, u_eqb a b = true <-> a = b.
Proof.
  induction a as [|x a IH]; destruct b as [|y b]; simpl; try (split; [discriminate | discriminate]); [tauto|].
  rewrite andb_true_iff, ue_eqb_eq, IH. split; [intros [-> ->]; reflexivity | intro H; inversion H; auto].
Qed.
Lemma canon_dim_eq a : forall b, canon_u a -> canon_u b -> (a = b <-> dim_eq a b).
Proof.
  unfold dim_eq, canon_u. induction a as [|x a IH]; intros b Ha Hb.
  - split; [intros <-; constructor | intro H; inversion H; reflexivity].
  - split; [intros <-; clear; induction (x :: a); constructor; [reflexivity | assumption] |].
    intro H. inversion H as [|? y ? b' Hxy Hab]; subst. inversion Ha; inversion Hb; subst.
    f_equal; [now apply canon_eq | apply IH; assumption].
Qed.

(* ---- list level ---- *)
Lemma zipw_comm {A B} (f : A -> A -> B) a : forall b, (forall x y, f x y = f y x) -> zipw f a b = zipw f b a.
Proof. unfold zipw. induction a as [|x a IH]; destruct b as [|y b]; intros H; simpl; try reflexivity. now rewrite H, IH. Qed.
Lemma zipw_assoc {A} (f : A -> A -> A) a : forall b c, (forall x y z, f (f x y) z = f x (f y z)) ->
  zipw f (zipw f a b) c = zipw f a (zipw f b c).
Proof.
  unfold zipw. induction a as [|x a IH]; intros b c H; [reflexivity|].
  destruct b as [|y b]; [reflexivity|]. destruct c as [|z c]; [reflexivity|]. simpl. rewrite H. f_equal. apply IH, H.
Qed.
Lemma u_add_comm a b : u_add a b = u_add b a.
Proof. apply zipw_comm, ue_add_comm. Qed.
Lemma u_add_assoc a b c : u_add (u_add a b) c = u_add a (u_add b c).
Proof. apply zipw_assoc, ue_add_assoc. Qed.
Lemma u_add_none a : canon_u a -> length a = 7%nat -> u_add a u_none = a.
Proof.
  intros Hc Hl. do 8 (destruct a as [|? a]; try discriminate Hl). unfold u_add, zipw, u_none. simpl.
  repeat match goal with H : canon_u (_ :: _) |- _ => inversion H; clear H; subst end.
  unfold canon_u in *. repeat match goal with H : Forall _ (_ :: _) |- _ => inversion H; clear H; subst end.
  now rewrite !ue_add_0.
Qed.
Lemma u_sub_self a : length a = 7%nat -> u_sub a a = u_none.
Proof.
  intro Hl. do 8 (destruct a as [|? a]; try discriminate Hl). unfold u_sub, zipw, u_none. simpl. now rewrite !ue_sub_self.
Qed.
Lemma u_pow_add n d a : forall b, u_pow n d (u_add a b) = u_add (u_pow n d a) (u_pow n d b).
Proof.
  unfold u_pow, u_add, zipw. induction a as [|x a IH]; destruct b as [|y b]; simpl; try reflexivity.
  now rewrite ue_mul_add, IH.
Qed.
Lemma u_pow_one a : canon_u a -> u_pow 1 1 a = a.
Proof. unfold u_pow. induction 1 as [|x a Hx Ha IH]; simpl; [reflexivity|]. now rewrite ue_mul_1, IH. Qed.

Lemma Forall2_zipw_map {A} (R : A -> A -> Prop) (f g : A -> A -> A) a : forall b, length a = length b ->
  (forall x y, R (f x y) (g x y)) -> Forall2 R (zipw f a b) (zipw g a b).
Proof.
  unfold zipw. induction a as [|x a IH]; destruct b as [|y b]; simpl; intros Hl H; try discriminate; constructor; [apply H | apply IH; auto].
Qed.
Lemma canon_zipw (f : Q -> Q -> Q) a : forall b, (forall x y, canon (f x y)) -> canon_u (zipw f a b).
Proof. unfold zipw, canon_u. induction a as [|x a IH]; destruct b as [|y b]; simpl; intro H; constructor; [apply H | apply IH, H]. Qed.
Lemma canon_none : canon_u u_none.
Proof. unfold u_none. simpl. repeat constructor. Qed.
Lemma canon_pow n d a : canon_u (u_pow n d a).
Proof. unfold u_pow, canon_u. induction a; simpl; constructor; [apply ue_mul_canon | assumption]. Qed.

(* units computed by the typing are in lowest terms when the declared ones are *)
Definition canon_ty (t : ty) : Prop := match t with TS => True | TQ u => canon_u u end.
Lemma typeof_canon G e : Forall canon_u G -> forall t, typeof G e = Some t -> canon_ty t.
Proof.
  intro HG. induction e as [i|k|a IHa b IHb|a IHa b IHb|a IHa b IHb|a IHa b IHb|a IHa|n d a IHa]; simpl; intros t Ht.
  - destruct (nth_error G i) as [u|] eqn:E; [|discriminate]. injection Ht as <-. simpl.
    rewrite Forall_forall in HG. apply HG. eapply nth_error_In, E.
  - now injection Ht as <-.
  - destruct (typeof G a) as [x|]; [|discriminate]. destruct (typeof G b) as [y|]; [|discriminate].
    specialize (IHa _ eq_refl). specialize (IHb _ eq_refl).
    destruct x as [|u], y as [|v]; simpl in Ht;
      repeat match type of Ht with context [if ?c then _ else _] => destruct c end; try discriminate; injection Ht as <-; simpl; auto using canon_none.
  - destruct (typeof G a) as [x|]; [|discriminate]. destruct (typeof G b) as [y|]; [|discriminate].
    specialize (IHa _ eq_refl). specialize (IHb _ eq_refl).
    destruct x as [|u], y as [|v]; simpl in Ht;
      repeat match type of Ht with context [if ?c then _ else _] => destruct c end; try discriminate; injection Ht as <-; simpl; auto using canon_none.
  - destruct (typeof G a) as [[|u]|]; destruct (typeof G b) as [[|v]|]; try discriminate; injection Ht as <-; simpl; auto.
    + apply (IHb _ eq_refl).
    + apply (IHa _ eq_refl).
    + apply canon_zipw, ue_add_canon.
  - destruct (typeof G a) as [[|u]|]; destruct (typeof G b) as [[|v]|]; try discriminate; injection Ht as <-; simpl; auto.
    + apply canon_zipw, ue_sub_canon.
    + apply (IHa _ eq_refl).
    + apply canon_zipw, ue_sub_canon.
  - auto.
  - destruct (typeof G a) as [[|u]|]; try discriminate; injection Ht as <-; simpl; auto. apply canon_pow.
Qed.

(* ---- transparency: the reference semantics of a well-typed expression is the erased computation ---- *)
Section Erasure.
  Variable V : Type.
  Variables (vadd vsub vmul vdiv : V -> V -> V) (vneg : V -> V) (vpow : Z -> positive -> V -> V) (vlit : nat -> V).
  Variable G : list unit.
  Variable env : nat -> V.
  Notation qev := (qeval V vadd vsub vmul vdiv vneg vpow vlit G env).
  Notation eev := (erase_eval V vadd vsub vmul vdiv vneg vpow vlit env).
  Lemma erasure e : qev e = match typeof G e with Some t => Some (t, eev e) | None => None end.
  Proof.
    induction e as [i|k|a IHa b IHb|a IHa b IHb|a IHa b IHb|a IHa b IHb|a IHa|n d a IHa]; simpl.
    - destruct (nth_error G i); reflexivity.
    - reflexivity.
    - rewrite IHa, IHb. destruct (typeof G a) as [x|]; [|reflexivity]. destruct (typeof G b) as [y|]; [|reflexivity].
      destruct (ty_addsub x y); reflexivity.
    - rewrite IHa, IHb. destruct (typeof G a) as [x|]; [|reflexivity]. destruct (typeof G b) as [y|]; [|reflexivity].
      destruct (ty_addsub x y); reflexivity.
    - rewrite IHa, IHb. destruct (typeof G a) as [[|u]|]; destruct (typeof G b) as [[|v]|]; reflexivity.
    - rewrite IHa, IHb. destruct (typeof G a) as [[|u]|]; destruct (typeof G b) as [[|v]|]; reflexivity.
    - rewrite IHa. destruct (typeof G a); reflexivity.
    - rewrite IHa. destruct (typeof G a) as [[|u]|]; reflexivity.
  Qed.
End Erasure.

(* ---- what is rejected: exactly sums / comparisons / assignments of different dimensions ---- *)
Lemma addsub_qq u v : canon_u u -> canon_u v -> (ty_addsub (TQ u) (TQ v) <> None <-> dim_eq u v).
Proof.
  intros Hu Hv. simpl. rewrite <- (canon_dim_eq u v Hu Hv), <- u_eqb_eq.
  destruct (u_eqb u v); split; congruence.
Qed.
Lemma addsub_qs u : canon_u u -> (ty_addsub (TQ u) TS <> None <-> dim_eq u dim_one) /\ (ty_addsub TS (TQ u) <> None <-> dim_eq u dim_one).
Proof.
  intros Hu. simpl. change dim_one with u_none. rewrite <- (canon_dim_eq u u_none Hu canon_none), <- u_eqb_eq.
  unfold is_none. destruct (u_eqb u u_none); repeat split; congruence.
Qed.
Lemma cmp_accepts G a b x y : typeof G a = Some x -> typeof G b = Some y ->
  accepts G (Cmp a b) = match ty_addsub x y with Some _ => true | None => false end.
Proof. intros Ha Hb. simpl. now rewrite Ha, Hb. Qed.
Lemma assign_accepts G i e U u : Forall canon_u G -> nth_error G i = Some U -> typeof G e = Some (TQ u) ->
  (accepts G (Assign i e) = true <-> dim_eq U u).
Proof.
  intros HG HU He. simpl. rewrite HU, He.
  assert (cU : canon_u U) by (rewrite Forall_forall in HG; eapply HG, nth_error_In, HU).
  assert (cu : canon_u u) by (apply (typeof_canon G e HG _ He)).
  now rewrite <- (canon_dim_eq U u cU cu), u_eqb_eq.
Qed.
Lemma assign_scalar_accepts G i e U : Forall canon_u G -> nth_error G i = Some U -> typeof G e = Some TS ->
  (accepts G (Assign i e) = true <-> dim_eq U dim_one).
Proof.
  intros HG HU He. simpl. rewrite HU, He.
  assert (cU : canon_u U) by (rewrite Forall_forall in HG; eapply HG, nth_error_In, HU).
  change dim_one with u_none. unfold is_none. now rewrite <- (canon_dim_eq U u_none cU canon_none), u_eqb_eq.
Qed.

(* =============================================================================================================
   Extension: tensors of quantities, math functions, element access (typeofX / dim_of / qevalX)
   ============================================================================================================= *)
Definition ty_dim (t : ty) : dim := match t with TS => dim_one | TQ u => u end.
Definition sdecl (d : decl) : sdim := (d_shape d, ty_dim (d_ty d)).
Definition canon_decl (d : decl) : Prop := canon_ty (d_ty d).

Lemma dim_eq_refl a : dim_eq a a.
Proof. unfold dim_eq. induction a; constructor; [reflexivity | assumption]. Qed.
Lemma dim_eq_sym a : forall b, dim_eq a b -> dim_eq b a.
Proof. unfold dim_eq. induction 1; constructor; [now symmetry | assumption]. Qed.
Lemma dim_eq_trans a : forall b c, dim_eq a b -> dim_eq b c -> dim_eq a c.
Proof.
  unfold dim_eq. intros b c H. revert c. induction H; intros c Hc; inversion Hc; subst; constructor; [etransitivity; eassumption | auto].
Qed.
Lemma dim_eqb_spec a : forall b, dim_eqb a b = true <-> dim_eq a b.
Proof.
  unfold dim_eq. induction a as [|x a IH]; destruct b as [|y b]; simpl.
  - split; [constructor | reflexivity].
  - split; [discriminate | intro H; inversion H].
  - split; [discriminate | intro H; inversion H].
  - rewrite andb_true_iff, Qeq_bool_iff, IH. split; [intros [? ?]; now constructor | intro H; inversion H; auto].
Qed.
Lemma dim_eqb_compat a a' b b' : dim_eq a a' -> dim_eq b b' -> dim_eqb a b = dim_eqb a' b'.
Proof.
  intros Ha Hb. destruct (dim_eqb a b) eqn:E1, (dim_eqb a' b') eqn:E2; try reflexivity.
  - rewrite dim_eqb_spec in E1. assert (dim_eq a' b') by (eapply dim_eq_trans; [apply dim_eq_sym, Ha | eapply dim_eq_trans; eassumption]).
    rewrite <- dim_eqb_spec in H. congruence.
  - rewrite dim_eqb_spec in E2. assert (dim_eq a b) by (eapply dim_eq_trans; [apply Ha | eapply dim_eq_trans; [eassumption | apply dim_eq_sym, Hb]]).
    rewrite <- dim_eqb_spec in H. congruence.
Qed.
Lemma zipw_compat (f g : Q -> Q -> Q) : (forall x y x' y', x == x' -> y == y' -> f x y == g x' y') ->
  forall a a' b b', dim_eq a a' -> dim_eq b b' -> dim_eq (zipw f a b) (zipw g a' b').
Proof.
  intros H a a' b b' Ha. revert b b'. unfold dim_eq, zipw in *. induction Ha as [|x x' a a' Hx Ha IH]; intros b b' Hb; [constructor|].
  destruct Hb as [|y y' b b' Hy Hb]; simpl; constructor; [now apply H | now apply IH].
Qed.
Lemma u_add_dim a a' b b' : dim_eq a a' -> dim_eq b b' -> dim_eq (u_add a b) (dim_mul a' b').
Proof. intros Ha Hb. apply zipw_compat; [|assumption|assumption]. intros x y x' y' Hx Hy. rewrite ue_add_Q. now rewrite Hx, Hy. Qed.
Lemma u_sub_dim a a' b b' : dim_eq a a' -> dim_eq b b' -> dim_eq (u_sub a b) (dim_div a' b').
Proof. intros Ha Hb. apply zipw_compat; [|assumption|assumption]. intros x y x' y' Hx Hy. rewrite ue_sub_Q. now rewrite Hx, Hy. Qed.
Lemma dim_mul_compat a a' b b' : dim_eq a a' -> dim_eq b b' -> dim_eq (dim_mul a b) (dim_mul a' b').
Proof. intros Ha Hb. apply zipw_compat; [|assumption|assumption]. intros x y x' y' Hx Hy. now rewrite Hx, Hy. Qed.
Lemma dim_div_compat a a' b b' : dim_eq a a' -> dim_eq b b' -> dim_eq (dim_div a b) (dim_div a' b').
Proof. intros Ha Hb. apply zipw_compat; [|assumption|assumption]. intros x y x' y' Hx Hy. now rewrite Hx, Hy. Qed.
Lemma u_pow_dim n d a a' : dim_eq a a' -> dim_eq (u_pow n d a) (dim_pow (n # d) a').
Proof. unfold dim_eq, u_pow, dim_pow. induction 1; simpl; constructor; [rewrite ue_mul_Q; now rewrite H | assumption]. Qed.
Lemma dim_pow_compat r a a' : dim_eq a a' -> dim_eq (dim_pow r a) (dim_pow r a').
Proof. unfold dim_eq, dim_pow. induction 1; simpl; constructor; [now rewrite H | assumption]. Qed.

(* well-formed element type: 7 exponents in lowest terms *)
Definition wf_u (u : unit) : Prop := canon_u u /\ length u = 7%nat.
Definition wf_ty (t : ty) : Prop := match t with TS => True | TQ u => wf_u u end.
Definition wf_decl (d : decl) : Prop := wf_ty (d_ty d).
Lemma wf_canon t : wf_ty t -> canon_ty t.
Proof. destruct t; simpl; [auto | intros [? ?]; assumption]. Qed.
Lemma wf_none : wf_u u_none.
Proof. split; [apply canon_none | reflexivity]. Qed.
Lemma zipw_length {A B C} (f : A -> B -> C) a : forall b n, length a = n -> length b = n -> length (zipw f a b) = n.
Proof.
  unfold zipw. induction a as [|x a IH]; destruct b as [|y b]; simpl; intros n Ha Hb; try congruence.
  destruct n; [discriminate|]. f_equal. apply IH; congruence.
Qed.
Lemma wf_add u v : wf_u u -> wf_u v -> wf_u (u_add u v).
Proof. intros [_ lu] [_ lv]. split; [apply canon_zipw, ue_add_canon | now apply zipw_length]. Qed.
Lemma wf_sub u v : wf_u u -> wf_u v -> wf_u (u_sub u v).
Proof. intros [_ lu] [_ lv]. split; [apply canon_zipw, ue_sub_canon | now apply zipw_length]. Qed.
Lemma wf_pow n d u : wf_u u -> wf_u (u_pow n d u).
Proof. intros [_ lu]. split; [apply canon_pow | unfold u_pow; now rewrite map_length]. Qed.
Lemma dim_eq_length a : forall b, dim_eq a b -> length a = length b.
Proof. unfold dim_eq. induction 1; simpl; congruence. Qed.
Lemma wf_dim_len t d : wf_ty t -> dim_eq (ty_dim t) d -> length d = 7%nat.
Proof.
  intros W E. apply dim_eq_length in E. rewrite <- E. destruct t; simpl in *; [reflexivity | apply W].
Qed.
Ltac d7 d H := do 8 (destruct d as [|? d]; try discriminate H).
Lemma dim_mul_one_l d : length d = 7%nat -> dim_eq d (dim_mul dim_one d).
Proof. intro H. d7 d H. unfold dim_eq, dim_mul, zipw, dim_one. simpl. repeat constructor; symmetry; apply Qplus_0_l. Qed.
Lemma dim_mul_one_r d : length d = 7%nat -> dim_eq d (dim_mul d dim_one).
Proof. intro H. d7 d H. unfold dim_eq, dim_mul, zipw, dim_one. simpl. repeat constructor; symmetry; apply Qplus_0_r. Qed.
Lemma dim_div_one_r d : length d = 7%nat -> dim_eq d (dim_div d dim_one).
Proof.
  intro H. d7 d H. unfold dim_eq, dim_div, zipw, dim_one. simpl. repeat constructor; unfold Qminus; symmetry; apply Qplus_0_r.
Qed.

(* relation between what the typing computes and what the specification computes *)
Definition Rt (x : option ty) (y : option dim) : Prop :=
  match x, y with
  | Some t, Some d => wf_ty t /\ dim_eq (ty_dim t) d
  | None, None => True
  | _, _ => False
  end.
Definition Rx (x : option xty) (y : option sdim) : Prop :=
  match x, y with
  | Some (s, t), Some (s', d) => s = s' /\ wf_ty t /\ dim_eq (ty_dim t) d
  | None, None => True
  | _, _ => False
  end.
Lemma Rx_bin fs ft fd x y x' y' :
  (forall t1 t2 d1 d2, wf_ty t1 -> wf_ty t2 -> dim_eq (ty_dim t1) d1 -> dim_eq (ty_dim t2) d2 -> Rt (ft t1 t2) (fd d1 d2)) ->
  Rx x x' -> Rx y y' -> Rx (xbin fs ft x y) (sbin fs fd x' y').
Proof.
  intros H Hx Hy. destruct x as [[s1 t1]|], x' as [[s1' d1]|]; simpl in Hx; try contradiction; [|destruct y as [[? ?]|]; exact I].
  destruct y as [[s2 t2]|], y' as [[s2' d2]|]; simpl in Hy; try contradiction; [|exact I].
  destruct Hx as (<- & c1 & e1), Hy as (<- & c2 & e2). simpl. specialize (H t1 t2 d1 d2 c1 c2 e1 e2).
  destruct (fs s1 s2); [|destruct (ft t1 t2), (fd d1 d2); simpl in *; tauto].
  destruct (ft t1 t2), (fd d1 d2); simpl in *; tauto.
Qed.
Lemma Rx_sc1 f g x x' :
  (forall t d, wf_ty t -> dim_eq (ty_dim t) d -> Rt (f t) (g d)) -> Rx x x' -> Rx (xsc1 f x) (ssc1 g x').
Proof.
  intros H Hx. destruct x as [[s t]|], x' as [[s' d]|]; simpl in Hx; try contradiction; [|exact I].
  destruct Hx as (<- & c & e). specialize (H t d c e). destruct s; simpl; try exact I.
  destruct (f t), (g d); simpl in *; tauto.
Qed.
Lemma canon_ty_dim_eq t1 t2 : wf_ty t1 -> wf_ty t2 -> forall d1 d2, dim_eq (ty_dim t1) d1 -> dim_eq (ty_dim t2) d2 ->
  (ty_dim t1 = ty_dim t2 <-> dim_eqb d1 d2 = true).
Proof.
  intros c1 c2 d1 d2 e1 e2. rewrite <- (dim_eqb_compat _ _ _ _ e1 e2), dim_eqb_spec.
  apply canon_dim_eq; [destruct t1 | destruct t2]; simpl; try apply canon_none; [apply c1 | apply c2].
Qed.
Lemma u_eqb_refl u : u_eqb u u = true.
Proof. now apply u_eqb_eq. Qed.
Lemma Rt_addsub t1 t2 d1 d2 : wf_ty t1 -> wf_ty t2 -> dim_eq (ty_dim t1) d1 -> dim_eq (ty_dim t2) d2 ->
  Rt (ty_addsub t1 t2) (d_same d1 d2).
Proof.
  intros c1 c2 e1 e2. pose proof (canon_ty_dim_eq t1 t2 c1 c2 d1 d2 e1 e2) as [H1 H2]. unfold d_same.
  destruct t1 as [|u], t2 as [|v]; simpl in *.
  - rewrite (H1 eq_refl). simpl. auto.
  - unfold is_none. destruct (u_eqb v u_none) eqn:E.
    + apply u_eqb_eq in E. subst v. rewrite (H1 eq_refl). simpl. split; [apply wf_none | exact e1].
    + destruct (dim_eqb d1 d2); [|exact I]. specialize (H2 eq_refl). change dim_one with u_none in H2. subst v.
      rewrite u_eqb_refl in E. discriminate.
  - unfold is_none. destruct (u_eqb u u_none) eqn:E.
    + apply u_eqb_eq in E. subst u. rewrite (H1 eq_refl). simpl. split; [apply wf_none | exact e1].
    + destruct (dim_eqb d1 d2); [|exact I]. specialize (H2 eq_refl). change dim_one with u_none in H2. subst u.
      rewrite u_eqb_refl in E. discriminate.
  - destruct (u_eqb u v) eqn:E.
    + apply u_eqb_eq in E. subst v. rewrite (H1 eq_refl). simpl. auto.
    + destruct (dim_eqb d1 d2); [|exact I]. specialize (H2 eq_refl). subst v. rewrite u_eqb_refl in E. discriminate.
Qed.
Lemma Rt_mul t1 t2 d1 d2 : wf_ty t1 -> wf_ty t2 -> dim_eq (ty_dim t1) d1 -> dim_eq (ty_dim t2) d2 -> Rt (t_mul t1 t2) (d_mul d1 d2).
Proof.
  intros c1 c2 e1 e2. pose proof (wf_dim_len _ _ c1 e1) as l1. pose proof (wf_dim_len _ _ c2 e2) as l2.
  destruct t1 as [|u], t2 as [|v]; simpl in *.
  - split; [exact I|]. eapply dim_eq_trans; [|apply (dim_mul_compat _ _ _ _ e1 e2)]. vm_compute. repeat constructor.
  - split; [exact c2|]. eapply dim_eq_trans; [|apply (dim_mul_compat _ _ _ _ e1 e2)]. apply dim_mul_one_l, c2.
  - split; [exact c1|]. eapply dim_eq_trans; [|apply (dim_mul_compat _ _ _ _ e1 e2)]. apply dim_mul_one_r, c1.
  - split; [now apply wf_add | now apply u_add_dim].
Qed.
Lemma Rt_div t1 t2 d1 d2 : wf_ty t1 -> wf_ty t2 -> dim_eq (ty_dim t1) d1 -> dim_eq (ty_dim t2) d2 -> Rt (t_div t1 t2) (d_div d1 d2).
Proof.
  intros c1 c2 e1 e2. destruct t1 as [|u], t2 as [|v]; simpl in *.
  - split; [exact I|]. eapply dim_eq_trans; [|apply (dim_div_compat _ _ _ _ e1 e2)]. vm_compute. repeat constructor.
  - split; [apply wf_sub; [apply wf_none | exact c2] | now apply u_sub_dim].
  - split; [exact c1|]. eapply dim_eq_trans; [|apply (dim_div_compat _ _ _ _ e1 e2)]. apply dim_div_one_r, c1.
  - split; [now apply wf_sub | now apply u_sub_dim].
Qed.
Lemma Rt_pow n d t x : wf_ty t -> dim_eq (ty_dim t) x -> Rt (Some (ty_pow n d t)) (Some (dim_pow (n # d) x)).
Proof.
  intros c e. destruct t as [|u]; simpl in *.
  - split; [exact I|]. eapply dim_eq_trans; [|apply (dim_pow_compat _ _ _ e)]. unfold dim_one, dim_pow, dim_eq. simpl.
    repeat constructor; symmetry; apply Qmult_0_l.
  - split; [now apply wf_pow | now apply u_pow_dim].
Qed.
Lemma Rt_fn t x : wf_ty t -> dim_eq (ty_dim t) x -> Rt (ty_fn t) (d_fn x).
Proof.
  intros c e. unfold d_fn. rewrite <- (dim_eqb_compat _ _ _ _ e (dim_eq_refl dim_one)). destruct t as [|u]; simpl in *.
  - split; [exact I | apply dim_eq_refl].
  - unfold is_none. destruct (u_eqb u u_none) eqn:E.
    + apply u_eqb_eq in E. subst u. simpl. split; [exact I | apply dim_eq_refl].
    + destruct (dim_eqb u dim_one) eqn:E2; [|exact I]. apply dim_eqb_spec in E2.
      apply (canon_dim_eq u u_none (proj1 c) canon_none) in E2. subst u. rewrite u_eqb_refl in E. discriminate.
Qed.

(* soundness and completeness of the extended typing w.r.t. the specification: the typing succeeds exactly when the
   expression is homogeneous (and well-shaped), with the same shape and the same dimension; computed units are
   7 exponents in lowest terms *)
Lemma typeofX_spec G e : Forall wf_decl G -> Rx (typeofX G e) (dim_of (map sdecl G) e).
Proof.
  intro HG. induction e; simpl.
  - rewrite nth_error_map. destruct (nth_error G i) as [d|] eqn:E; simpl; [|exact I].
    split; [reflexivity|]. split; [|apply dim_eq_refl]. rewrite Forall_forall in HG. apply HG. eapply nth_error_In, E.
  - split; [reflexivity|]. split; [exact I | apply dim_eq_refl].
  - apply Rx_bin; auto using Rt_addsub.
  - apply Rx_bin; auto using Rt_addsub.
  - apply Rx_bin; auto using Rt_mul.
  - apply Rx_bin; auto using Rt_div.
  - assumption.
  - apply Rx_sc1; auto using Rt_pow.
  - apply Rx_sc1; auto using Rt_pow.
  - apply Rx_sc1; auto using Rt_pow.
  - apply Rx_sc1; auto. intros t x c ex. simpl. auto.
  - apply Rx_sc1; auto using Rt_fn.
  - apply Rx_bin; auto using Rt_mul.
  - apply Rx_bin; auto using Rt_mul.
  - destruct (typeofX G e) as [[s t]|], (dim_of (map sdecl G) e) as [[s' d]|]; simpl in IHe; try contradiction; [|exact I].
    destruct IHe as (<- & c & ex). destruct s; simpl; auto.
Qed.

(* transparency of the extended language *)
Section XErasure.
  Variable V : Type.
  Variables (vadd vsub vmul vdiv vinner vdyad : V -> V -> V) (vneg vsqrt vcbrt vabs velem : V -> V)
            (vpow : Z -> positive -> V -> V) (vfn : nat -> V -> V) (vlit : nat -> V).
  Variable G : list decl.
  Variable env : nat -> V.
  Notation qev := (qevalX V vadd vsub vmul vdiv vinner vdyad vneg vsqrt vcbrt vabs velem vpow vfn vlit G env).
  Notation eev := (erase_evalX V vadd vsub vmul vdiv vinner vdyad vneg vsqrt vcbrt vabs velem vpow vfn vlit env).
  Definition wrapX (t : option xty) (v : V) : option (xty * V) := match t with Some t => Some (t, v) | None => None end.
  Lemma qbin_wrap fs ft f x y va vb : qbin V fs ft f (wrapX x va) (wrapX y vb) = wrapX (xbin fs ft x y) (f va vb).
  Proof.
    destruct x as [[s1 t1]|], y as [[s2 t2]|]; simpl; try reflexivity;
      try (destruct (fs s1 s2), (ft t1 t2); reflexivity).
  Qed.
  Lemma qun_wrap g f x va : g None = None -> qun V g f (wrapX x va) = wrapX (g x) (f va).
  Proof. intro Hg. destruct x as [t|]; simpl; [destruct (g (Some t)); reflexivity | now rewrite Hg]. Qed.
  Lemma erasureX e : qev e = wrapX (typeofX G e) (eev e).
  Proof.
    induction e; simpl; try (rewrite IHe1, IHe2; apply qbin_wrap); try (rewrite IHe; apply qun_wrap; reflexivity).
    - destruct (nth_error G i); reflexivity.
    - reflexivity.
  Qed.
End XErasure.

(* what is rejected *)
Lemma fn_accepts G k a t : Forall wf_decl G -> typeofX G a = Some (Sc, t) ->
  (typeofX G (XFn k a) <> None <-> dim_eq (ty_dim t) dim_one).
Proof.
  intros HG Ha. pose proof (typeofX_spec G a HG) as R. rewrite Ha in R. simpl. rewrite Ha. simpl.
  destruct (dim_of (map sdecl G) a) as [[s d]|]; simpl in R; [|contradiction]. destruct R as (_ & c & _).
  pose proof (Rt_fn t (ty_dim t) c (dim_eq_refl _)) as H. unfold d_fn in H.
  destruct (ty_fn t), (dim_eqb (ty_dim t) dim_one) eqn:E; simpl in *; try contradiction.
  - apply dim_eqb_spec in E. split; [intros _; exact E | intros _; discriminate].
  - split; [intro X; now elim X | intro X; apply dim_eqb_spec in X; congruence].
Qed.
Lemma sum_accepts G a b s1 t1 s2 t2 : Forall wf_decl G -> typeofX G a = Some (s1, t1) -> typeofX G b = Some (s2, t2) ->
  (typeofX G (XAdd a b) <> None <-> s1 = s2 /\ dim_eq (ty_dim t1) (ty_dim t2)) /\
  (typeofX G (XSub a b) <> None <-> s1 = s2 /\ dim_eq (ty_dim t1) (ty_dim t2)).
Proof.
  intros HG Ha Hb. pose proof (typeofX_spec G a HG) as Ra. pose proof (typeofX_spec G b HG) as Rb. rewrite Ha in Ra. rewrite Hb in Rb.
  destruct (dim_of (map sdecl G) a) as [[? ?]|]; simpl in Ra; [|contradiction]. destruct Ra as (_ & c1 & _).
  destruct (dim_of (map sdecl G) b) as [[? ?]|]; simpl in Rb; [|contradiction]. destruct Rb as (_ & c2 & _).
  pose proof (Rt_addsub t1 t2 _ _ c1 c2 (dim_eq_refl _) (dim_eq_refl _)) as H. unfold d_same in H.
  assert (X : xbin shape_same ty_addsub (Some (s1, t1)) (Some (s2, t2)) <> None <-> s1 = s2 /\ dim_eq (ty_dim t1) (ty_dim t2)).
  { simpl. destruct (dim_eqb (ty_dim t1) (ty_dim t2)) eqn:E.
    - apply dim_eqb_spec in E. destruct (ty_addsub t1 t2); [|contradiction].
      destruct s1, s2; simpl; split; try (intros _; split; [reflexivity | exact E]); try (intros X; now elim X); try (intros [X _]; discriminate X); intros _; discriminate.
    - destruct (ty_addsub t1 t2); [contradiction|].
      assert (~ dim_eq (ty_dim t1) (ty_dim t2)) by (intro X; apply dim_eqb_spec in X; congruence).
      destruct (shape_same s1 s2); split; try (intro X; now elim X); intros [_ X]; contradiction. }
  simpl. rewrite Ha, Hb. split; exact X.
Qed.
Lemma assign_acceptsX G i e d s t : Forall wf_decl G -> nth_error G i = Some d -> typeofX G e = Some (s, t) ->
  (acceptsX G (XAssign i e) = true <-> d_mut d = true /\ d_shape d = s /\ dim_eq (ty_dim (d_ty d)) (ty_dim t)).
Proof.
  intros HG Hd He. pose proof (typeofX_spec G e HG) as R. rewrite He in R.
  destruct (dim_of (map sdecl G) e) as [[? ?]|]; simpl in R; [|contradiction]. destruct R as (_ & c & _).
  assert (cd : wf_ty (d_ty d)) by (rewrite Forall_forall in HG; eapply HG, nth_error_In, Hd).
  simpl. rewrite Hd, He. rewrite !andb_true_iff.
  assert (S1 : same_shape (d_shape d) s = true <-> d_shape d = s) by (unfold same_shape; destruct (d_shape d), s; simpl; split; congruence).
  assert (S2 : storable (d_ty d) t = true <-> dim_eq (ty_dim (d_ty d)) (ty_dim t)).
  { destruct (d_ty d) as [|U], t as [|u]; simpl in *; unfold is_none.
    - split; [intros _; apply dim_eq_refl | reflexivity].
    - rewrite u_eqb_eq. change dim_one with u_none. rewrite <- (canon_dim_eq u_none u canon_none (proj1 c)). split; congruence.
    - rewrite u_eqb_eq. change dim_one with u_none. now rewrite <- (canon_dim_eq U u_none (proj1 cd) canon_none).
    - rewrite u_eqb_eq. now rewrite <- (canon_dim_eq U u (proj1 cd) (proj1 c)). }
  rewrite S1, S2. tauto.
Qed.
Lemma typeofX_wf G e s t : Forall wf_decl G -> typeofX G e = Some (s, t) ->
  wf_ty t /\ exists d, dim_of (map sdecl G) e = Some (s, d) /\ dim_eq (ty_dim t) d.
Proof.
  intros HG He. pose proof (typeofX_spec G e HG) as R. rewrite He in R.
  destruct (dim_of (map sdecl G) e) as [[s' d]|]; simpl in R; [|contradiction]. destruct R as (<- & c & ex).
  split; [exact c | exists d; split; [reflexivity | exact ex]].
Qed.
Lemma typeofX_none G e : Forall wf_decl G -> (typeofX G e = None <-> dim_of (map sdecl G) e = None).
Proof.
  intros HG. pose proof (typeofX_spec G e HG) as R.
  destruct (typeofX G e) as [[s t]|], (dim_of (map sdecl G) e) as [[s' d]|]; simpl in R; try contradiction; split; congruence.
Qed.

(* the extended layer is a conservative extension of the scalar one: scalar programs embedded into `xexpr` get the same type *)
Fixpoint embed (e : expr) : xexpr :=
  match e with
  | Var i => XVar i
  | Lit k => XLit k
  | Add a b => XAdd (embed a) (embed b)
  | Sub a b => XSub (embed a) (embed b)
  | Mul a b => XMul (embed a) (embed b)
  | Div a b => XDiv (embed a) (embed b)
  | Neg a => XNeg (embed a)
  | Pow n d a => XPow n d (embed a)
  end.
Definition sdecls (G : list unit) : list decl := map (fun u => mkdecl Sc (TQ u) true) G.
Lemma embed_typeof G e : typeofX (sdecls G) (embed e) = option_map (pair Sc) (typeof G e).
Proof.
  induction e; simpl; try rewrite IHe1, IHe2; try rewrite IHe.
  - unfold sdecls. rewrite nth_error_map. destruct (nth_error G i); reflexivity.
  - reflexivity.
  - destruct (typeof G e1) as [x|], (typeof G e2) as [y|]; simpl; try reflexivity; try (destruct (ty_addsub x y); reflexivity).
  - destruct (typeof G e1) as [x|], (typeof G e2) as [y|]; simpl; try reflexivity; try (destruct (ty_addsub x y); reflexivity).
  - destruct (typeof G e1) as [[|u]|], (typeof G e2) as [[|v]|]; reflexivity.
  - destruct (typeof G e1) as [[|u]|], (typeof G e2) as [[|v]|]; reflexivity.
  - reflexivity.
  - destruct (typeof G e) as [[|u]|]; reflexivity.
Qed.

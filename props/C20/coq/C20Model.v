(* C20 -- executable model (definitions only) of the type-level unit arithmetic of include/TFEL/Math/Quantity/Unit.hxx,
   Forward/Unit.hxx and of the acceptance rules of qt.hxx / Quantity/qtOperations.hxx.
   UnitExponent {int numerator; unsigned denominator} is a Coq Q (Qnum, Qden); add / subtract / multiply compute the
   numerator and denominator of the result exactly as Qplus / Qminus / Qmult do and divide both by their gcd, which
   is what Qred does (Z.ggcd).  Equality of units is member-wise equality of (numerator, denominator) (defaulted
   operator==), i.e. structural equality of normalised rationals; because results go through UnitRebind, which maps
   exponents to ONE type, identity of unit types (std::is_same_v in operator+, <, ==) coincides with it for
   canonically spelled units. *)
From Coq Require Import QArith List Bool.
From C20 Require Import C20Spec.
Import ListNotations.

Definition unit := list Q.                                     (* 7 exponents, each in lowest terms *)
Definition ue_add (a b : Q) : Q := Qred (Qplus a b).            (* unit::add(UnitExponent, UnitExponent) *)
Definition ue_sub (a b : Q) : Q := Qred (Qminus a b).           (* unit::subtract *)
Definition ue_mul (a b : Q) : Q := Qred (Qmult a b).            (* unit::multiply *)
Definition u_add (a b : unit) : unit := zipw ue_add a b.        (* AddUnit: unit of a product *)
Definition u_sub (a b : unit) : unit := zipw ue_sub a b.        (* SubtractUnit: unit of a quotient *)
Definition u_pow (n : Z) (d : positive) (a : unit) : unit := map (fun q => ue_mul q (n # d)) a.   (* PowerUnit<N, D, U> *)
Definition u_none : unit := repeat (0 # 1) 7.                   (* NoUnit *)
Definition ue_eqb (a b : Q) : bool := Z.eqb (Qnum a) (Qnum b) && Pos.eqb (Qden a) (Qden b).
Fixpoint u_eqb (a b : unit) : bool :=
  match a, b with
  | [], [] => true
  | x :: a', y :: b' => ue_eqb x y && u_eqb a' b'
  | _, _ => false
  end.

(* expressions and statements of the generated programs *)
Inductive expr :=
| Var (i : nat)                 (* a declared qt<U_i, double> *)
| Lit (k : nat)                 (* a plain double *)
| Add (a b : expr) | Sub (a b : expr) | Mul (a b : expr) | Div (a b : expr) | Neg (a : expr)
| Pow (n : Z) (d : positive) (a : expr).     (* tfel::math::power<N, D>(a) *)
Inductive stmt :=
| Cmp (a b : expr)              (* a < b, a == b, ... *)
| Assign (i : nat) (e : expr)   (* v_i = e, also v_i += e, v_i -= e *)
| Scale (i : nat) (e : expr)    (* v_i *= e, v_i /= e *)
| Eval (e : expr).              (* the expression itself *)
Inductive ty := TS | TQ (u : unit).    (* double | qt<u, double> *)

Definition is_none (u : unit) : bool := u_eqb u u_none.

Section Typing.
  Variable G : list unit.       (* units of the declared variables *)
  (* operator+ / operator-: same unit type, or NoUnit with a scalar (others are `= delete`) *)
  Definition ty_addsub (a b : ty) : option ty :=
    match a, b with
    | TS, TS => Some TS
    | TQ u, TQ v => if u_eqb u v then Some (TQ u) else None
    | TQ u, TS | TS, TQ u => if is_none u then Some (TQ u_none) else None
    end.
  Fixpoint typeof (e : expr) : option ty :=
    match e with
    | Var i => option_map TQ (nth_error G i)
    | Lit _ => Some TS
    | Add a b | Sub a b =>
      match typeof a, typeof b with Some x, Some y => ty_addsub x y | _, _ => None end
    | Mul a b =>
      match typeof a, typeof b with
      | Some TS, Some TS => Some TS
      | Some (TQ u), Some TS | Some TS, Some (TQ u) => Some (TQ u)
      | Some (TQ u), Some (TQ v) => Some (TQ (u_add u v))
      | _, _ => None
      end
    | Div a b =>
      match typeof a, typeof b with
      | Some TS, Some TS => Some TS
      | Some (TQ u), Some TS => Some (TQ u)
      | Some TS, Some (TQ v) => Some (TQ (u_sub u_none v))
      | Some (TQ u), Some (TQ v) => Some (TQ (u_sub u v))
      | _, _ => None
      end
    | Neg a => typeof a
    | Pow n d a =>
      match typeof a with
      | Some TS => Some TS
      | Some (TQ u) => Some (TQ (u_pow n d u))
      | None => None
      end
    end.
  (* does the statement compile? *)
  Definition accepts (s : stmt) : bool :=
    match s with
    | Eval e => match typeof e with Some _ => true | None => false end
    | Cmp a b =>
      match typeof a, typeof b with
      | Some x, Some y => match ty_addsub x y with Some _ => true | None => false end
      | _, _ => false
      end
    | Assign i e =>
      match nth_error G i, typeof e with
      | Some U, Some (TQ u) => u_eqb U u           (* areUnitsEqual *)
      | Some U, Some TS => is_none U               (* only NoUnit quantities accept a scalar *)
      | _, _ => false
      end
    | Scale i e =>
      match nth_error G i, typeof e with
      | Some _, Some TS => true
      | Some _, Some (TQ u) => is_none u
      | _, _ => false
      end
    end.
End Typing.

(* values: quantities carry their unit at run time in the reference semantics; V and its operations are abstract *)
Section Values.
  Variable V : Type.
  Variables (vadd vsub vmul vdiv : V -> V -> V) (vneg : V -> V) (vpow : Z -> positive -> V -> V) (vlit : nat -> V).
  Variable G : list unit.
  Variable env : nat -> V.
  (* erased program: the same computation on the underlying values, no units *)
  Fixpoint erase_eval (e : expr) : V :=
    match e with
    | Var i => env i
    | Lit k => vlit k
    | Add a b => vadd (erase_eval a) (erase_eval b)
    | Sub a b => vsub (erase_eval a) (erase_eval b)
    | Mul a b => vmul (erase_eval a) (erase_eval b)
    | Div a b => vdiv (erase_eval a) (erase_eval b)
    | Neg a => vneg (erase_eval a)
    | Pow n d a => vpow n d (erase_eval a)
    end.
  (* reference semantics with units checked dynamically: None = dimension error *)
  Fixpoint qeval (e : expr) : option (ty * V) :=
    match e with
    | Var i => option_map (fun u => (TQ u, env i)) (nth_error G i)
    | Lit k => Some (TS, vlit k)
    | Add a b =>
      match qeval a, qeval b with
      | Some (x, va), Some (y, vb) => option_map (fun t => (t, vadd va vb)) (ty_addsub x y)
      | _, _ => None
      end
    | Sub a b =>
      match qeval a, qeval b with
      | Some (x, va), Some (y, vb) => option_map (fun t => (t, vsub va vb)) (ty_addsub x y)
      | _, _ => None
      end
    | Mul a b =>
      match qeval a, qeval b with
      | Some (TS, va), Some (TS, vb) => Some (TS, vmul va vb)
      | Some (TQ u, va), Some (TS, vb) | Some (TS, va), Some (TQ u, vb) => Some (TQ u, vmul va vb)
      | Some (TQ u, va), Some (TQ v, vb) => Some (TQ (u_add u v), vmul va vb)
      | _, _ => None
      end
    | Div a b =>
      match qeval a, qeval b with
      | Some (TS, va), Some (TS, vb) => Some (TS, vdiv va vb)
      | Some (TQ u, va), Some (TS, vb) => Some (TQ u, vdiv va vb)
      | Some (TS, va), Some (TQ v, vb) => Some (TQ (u_sub u_none v), vdiv va vb)
      | Some (TQ u, va), Some (TQ v, vb) => Some (TQ (u_sub u v), vdiv va vb)
      | _, _ => None
      end
    | Neg a => option_map (fun p => (fst p, vneg (snd p))) (qeval a)
    | Pow n d a =>
      match qeval a with
      | Some (TS, va) => Some (TS, vpow n d va)
      | Some (TQ u, va) => Some (TQ (u_pow n d u), vpow n d va)
      | None => None
      end
    end.
End Values.

(* C20 -- executable model (definitions only) of the type-level unit arithmetic of include/TFEL/Math/Quantity/Unit.hxx,
   Forward/Unit.hxx and of the acceptance rules of qt.hxx / Quantity/qtOperations.hxx.
   UnitExponent {int numerator; unsigned denominator} is a Coq Q (Qnum, Qden); add / subtract / multiply compute the
   numerator and denominator of the result exactly as Qplus / Qminus / Qmult do and divide both by their gcd, which
   is what Qred does (Z.ggcd).  Equality of units is member-wise equality of (numerator, denominator) (defaulted
   operator==), i.e. structural equality of normalised rationals; because results go through UnitRebind, which maps
   exponents to ONE type, identity of unit types (std::is_same_v in operator+, <, ==) coincides with it for
   canonically spelled units. *)
From Coq Require Import QArith List Bool.
From C20 Require Import C20Spec.
Import ListNotations.

Definition unit := list Q.                                     (* 7 exponents, each in lowest terms *)
Definition ue_add (a b : Q) : Q := Qred (Qplus a b).            (* unit::add(UnitExponent, UnitExponent) *)
Definition ue_sub (a b : Q) : Q := Qred (Qminus a b).           (* unit::subtract *)
Definition ue_mul (a b : Q) : Q := Qred (Qmult a b).            (* unit::multiply *)
Definition u_add (a b : unit) : unit := zipw ue_add a b.        (* AddUnit: unit of a product *)
Definition u_sub (a b : unit) : unit := zipw ue_sub a b.        (* SubtractUnit: unit of a quotient *)
Definition u_pow (n : Z) (d : positive) (a : unit) : unit := map (fun q => ue_mul q (n # d)) a.   (* PowerUnit<N, D, U> *)
Definition u_none : unit := repeat (0 # 1) 7.                   (* NoUnit *)
Definition ue_eqb (a b : Q) : bool := Z.eqb (Qnum a) (Qnum b) && Pos.eqb (Qden a) (Qden b).
Fixpoint u_eqb (a b : unit) : bool :=
  match a, b with
  | [], [] => true
  | x :: a', y :: b' => ue_eqb x y && u_eqb a' b'
  | _, _ => false
  end.

(* expressions and statements of the generated programs *)
Inductive expr :=
| Var (i : nat)                 (* a declared qt<U_i, double> *)
| Lit (k : nat)                 (* a plain double *)
| Add (a b : expr) | Sub (a b : expr) | Mul (a b : expr) | Div (a b : expr) | Neg (a : expr)
| Pow (n : Z) (d : positive) (a : expr).     (* tfel::math::power<N, D>(a) *)
Inductive stmt :=
| Cmp (a b : expr)              (* a < b, a == b, ... *)
| Assign (i : nat) (e : expr)   (* v_i = e, also v_i += e, v_i -= e *)
| Scale (i : nat) (e : expr)    (* v_i *= e, v_i /= e *)
| Eval (e : expr).              (* the expression itself *)
Inductive ty := TS | TQ (u : unit).    (* double | qt<u, double> *)

Definition is_none (u : unit) : bool := u_eqb u u_none.

Section Typing.
  Variable G : list unit.       (* units of the declared variables *)
  (* operator+ / operator-: same unit type, or NoUnit with a scalar (others are `= delete`) *)
  Definition ty_addsub (a b : ty) : option ty :=
    match a, b with
    | TS, TS => Some TS
    | TQ u, TQ v => if u_eqb u v then Some (TQ u) else None
    | TQ u, TS | TS, TQ u => if is_none u then Some (TQ u_none) else None
    end.
  Fixpoint typeof (e : expr) : option ty :=
    match e with
    | Var i => option_map TQ (nth_error G i)
    | Lit _ => Some TS
    | Add a b | Sub a b =>
      match typeof a, typeof b with Some x, Some y => ty_addsub x y | _, _ => None end
    | Mul a b =>
      match typeof a, typeof b with
      | Some TS, Some TS => Some TS
      | Some (TQ u), Some TS | Some TS, Some (TQ u) => Some (TQ u)
      | Some (TQ u), Some (TQ v) => Some (TQ (u_add u v))
      | _, _ => None
      end
    | Div a b =>
      match typeof a, typeof b with
      | Some TS, Some TS => Some TS
      | Some (TQ u), Some TS => Some (TQ u)
      | Some TS, Some (TQ v) => Some (TQ (u_sub u_none v))
      | Some (TQ u), Some (TQ v) => Some (TQ (u_sub u v))
      | _, _ => None
      end
    | Neg a => typeof a
    | Pow n d a =>
      match typeof a with
      | Some TS => Some TS
      | Some (TQ u) => Some (TQ (u_pow n d u))
      | None => None
      end
    end.
  (* does the statement compile? *)
  Definition accepts (s : stmt) : bool :=
    match s with
    | Eval e => match typeof e with Some _ => true | None => false end
    | Cmp a b =>
      match typeof a, typeof b with
      | Some x, Some y => match ty_addsub x y with Some _ => true | None => false end
      | _, _ => false
      end
    | Assign i e =>
      match nth_error G i, typeof e with
      | Some U, Some (TQ u) => u_eqb U u           (* areUnitsEqual *)
      | Some U, Some TS => is_none U               (* only NoUnit quantities accept a scalar *)
      | _, _ => false
      end
    | Scale i e =>
      match nth_error G i, typeof e with
      | Some _, Some TS => true
      | Some _, Some (TQ u) => is_none u
      | _, _ => false
      end
    end.
End Typing.

(* values: quantities carry their unit at run time in the reference semantics; V and its operations are abstract *)
Section Values.
  Variable V : Type.
  Variables (vadd vsub vmul vdiv : V -> V -> V) (vneg : V -> V) (vpow : Z -> positive -> V -> V) (vlit : nat -> V).
  Variable G : list unit.
  Variable env : nat -> V.
  (* erased program: the same computation on the underlying values, no units *)
  Fixpoint erase_eval (e : expr) : V :=
    match e with
    | Var i => env i
    | Lit k => vlit k
    | Add a b => vadd (erase_eval a) (erase_eval b)
    | Sub a b => vsub (erase_eval a) (erase_eval b)
    | Mul a b => vmul (erase_eval a) (erase_eval b)
    | Div a b => vdiv (erase_eval a) (erase_eval b)
    | Neg a => vneg (erase_eval a)
    | Pow n d a => vpow n d (erase_eval a)
    end.
  (* reference semantics with units checked dynamically: None = dimension error *)
  Fixpoint qeval (e : expr) : option (ty * V) :=
    match e with
    | Var i => option_map (fun u => (TQ u, env i)) (nth_error G i)
    | Lit k => Some (TS, vlit k)
    | Add a b =>
      match qeval a, qeval b with
      | Some (x, va), Some (y, vb) => option_map (fun t => (t, vadd va vb)) (ty_addsub x y)
      | _, _ => None
      end
    | Sub a b =>
      match qeval a, qeval b with
      | Some (x, va), Some (y, vb) => option_map (fun t => (t, vsub va vb)) (ty_addsub x y)
      | _, _ => None
      end
    | Mul a b =>
      match qeval a, qeval b with
      | Some (TS, va), Some (TS, vb) => Some (TS, vmul va vb)
      | Some (TQ u, va), Some (TS, vb) | Some (TS, va), Some (TQ u, vb) => Some (TQ u, vmul va vb)
      | Some (TQ u, va), Some (TQ v, vb) => Some (TQ (u_add u v), vmul va vb)
      | _, _ => None
      end
    | Div a b =>
      match qeval a, qeval b with
      | Some (TS, va), Some (TS, vb) => Some (TS, vdiv va vb)
      | Some (TQ u, va), Some (TS, vb) => Some (TQ u, vdiv va vb)
      | Some (TS, va), Some (TQ v, vb) => Some (TQ (u_sub u_none v), vdiv va vb)
      | Some (TQ u, va), Some (TQ v, vb) => Some (TQ (u_sub u v), vdiv va vb)
      | _, _ => None
      end
    | Neg a => option_map (fun p => (fst p, vneg (snd p))) (qeval a)
    | Pow n d a =>
      match qeval a with
      | Some (TS, va) => Some (TS, vpow n d va)
      | Some (TQ u, va) => Some (TQ (u_pow n d u), vpow n d va)
      | None => None
      end
    end.
End Values.

(* ---------------------------------------------------------------------------------------------------------------
   Extension: quantities inside tvector / stensor / st2tost2, math functions, element access, references and views.
   A type is (shape, element type); the element type is `TS` (double) or `TQ u` (qt<u>, qt_ref<u>, const_qt_ref<u>).
   A declaration also says whether the object can be written (const_qt_ref and views of const objects cannot).
   Views (map<stensor<N, qt<U>>> of a pointer to double), qt_ref and const_qt_ref are declared variables: they are typed as
   what they view.  `None` = rejected by the compiler, or outside the modelled fragment (stensor * stensor,
   tvector ^ tvector, abs/power of a tensor, ...: never generated). *)
Record decl := mkdecl { d_shape : shape; d_ty : ty; d_mut : bool }.
Inductive xstmt :=
| XCmp (a b : xexpr)
| XAssign (i : nat) (e : xexpr)       (* v_i = e, += , -= *)
| XAssignElem (i : nat) (e : xexpr)   (* v_i(k) = e: assignment through the reference returned by operator() *)
| XScale (i : nat) (e : xexpr)        (* v_i *= e, /= *)
| XEval (e : xexpr).
Definition xty := (shape * ty)%type.

Definition ty_mul (a b : ty) : ty :=
  match a, b with TS, TS => TS | TQ u, TS | TS, TQ u => TQ u | TQ u, TQ v => TQ (u_add u v) end.
Definition ty_div (a b : ty) : ty :=
  match a, b with TS, TS => TS | TQ u, TS => TQ u | TS, TQ v => TQ (u_sub u_none v) | TQ u, TQ v => TQ (u_sub u v) end.
Definition ty_pow (n : Z) (d : positive) (a : ty) : ty := match a with TS => TS | TQ u => TQ (u_pow n d u) end.
(* std::exp, std::log, ... only see a quantity through the implicit conversion of qt<NoUnit, T> to T: result double *)
Definition ty_fn (a : ty) : option ty := match a with TS => Some TS | TQ u => if is_none u then Some TS else None end.
Definition xbin (fs : shape -> shape -> option shape) (ft : ty -> ty -> option ty) (x y : option xty) : option xty :=
  match x, y with
  | Some (s1, t1), Some (s2, t2) => match fs s1 s2, ft t1 t2 with Some s, Some t => Some (s, t) | _, _ => None end
  | _, _ => None
  end.
Definition xsc1 (f : ty -> option ty) (x : option xty) : option xty :=
  match x with Some (Sc, t) => option_map (pair Sc) (f t) | _ => None end.
Definition xelem (x : option xty) : option xty :=
  match x with Some (Sc, _) => None | Some (_, t) => Some (Sc, t) | None => None end.
Definition t_mul (a b : ty) : option ty := Some (ty_mul a b).
Definition t_div (a b : ty) : option ty := Some (ty_div a b).
(* may a value of type `t` be stored into an object whose elements have type `U`? (=, +=, -=) *)
Definition storable (U t : ty) : bool :=
  match U, t with
  | TQ U', TQ u => u_eqb U' u          (* areUnitsEqual *)
  | TQ U', TS => is_none U'            (* only NoUnit quantities accept a plain number *)
  | TS, TS => true
  | TS, TQ u => is_none u              (* implicit conversion of qt<NoUnit> to its value *)
  end.
Definition is_sc (s : shape) : bool := match s with Sc => true | _ => false end.
Definition same_shape (a b : shape) : bool := match shape_same a b with Some _ => true | None => false end.

Section XTyping.
  Variable G : list decl.
  Fixpoint typeofX (e : xexpr) : option xty :=
    match e with
    | XVar i => option_map (fun d => (d_shape d, d_ty d)) (nth_error G i)
    | XLit _ => Some (Sc, TS)
    | XAdd a b | XSub a b => xbin shape_same ty_addsub (typeofX a) (typeofX b)
    | XMul a b => xbin shape_mul t_mul (typeofX a) (typeofX b)
    | XDiv a b => xbin shape_div t_div (typeofX a) (typeofX b)
    | XNeg a => typeofX a
    | XPow n d a => xsc1 (fun t => Some (ty_pow n d t)) (typeofX a)
    | XSqrt a => xsc1 (fun t => Some (ty_pow 1 2 t)) (typeofX a)      (* square_root(q) *)
    | XCbrt a => xsc1 (fun t => Some (ty_pow 1 3 t)) (typeofX a)      (* power<1, 3>(q): TFEL has no cbrt on quantities *)
    | XAbs a => xsc1 Some (typeofX a)                                  (* tfel::math::abs *)
    | XFn _ a => xsc1 ty_fn (typeofX a)
    | XInner a b => xbin shape_inner t_mul (typeofX a) (typeofX b)
    | XDyad a b => xbin shape_dyad t_mul (typeofX a) (typeofX b)
    | XElem a => xelem (typeofX a)
    end.
  Definition acceptsX (s : xstmt) : bool :=
    match s with
    | XEval e => match typeofX e with Some _ => true | None => false end
    | XCmp a b =>
      match typeofX a, typeofX b with
      | Some (Sc, x), Some (Sc, y) => match ty_addsub x y with Some _ => true | None => false end
      | _, _ => false
      end
    | XAssign i e =>
      match nth_error G i, typeofX e with
      | Some d, Some (s, t) => d_mut d && same_shape (d_shape d) s && storable (d_ty d) t
      | _, _ => false
      end
    | XAssignElem i e =>
      match nth_error G i, typeofX e with
      | Some d, Some (Sc, t) => d_mut d && negb (is_sc (d_shape d)) && storable (d_ty d) t
      | _, _ => false
      end
    | XScale i e =>
      match nth_error G i, typeofX e with
      | Some d, Some (Sc, t) => d_mut d && match ty_fn t with Some _ => true | None => false end
      | _, _ => false
      end
    end.
End XTyping.

Section XValues.
  Variable V : Type.     (* values of any shape; operations abstract *)
  Variables (vadd vsub vmul vdiv vinner vdyad : V -> V -> V) (vneg vsqrt vcbrt vabs velem : V -> V)
            (vpow : Z -> positive -> V -> V) (vfn : nat -> V -> V) (vlit : nat -> V).
  Variable G : list decl.
  Variable env : nat -> V.
  Fixpoint erase_evalX (e : xexpr) : V :=
    match e with
    | XVar i => env i
    | XLit k => vlit k
    | XAdd a b => vadd (erase_evalX a) (erase_evalX b)
    | XSub a b => vsub (erase_evalX a) (erase_evalX b)
    | XMul a b => vmul (erase_evalX a) (erase_evalX b)
    | XDiv a b => vdiv (erase_evalX a) (erase_evalX b)
    | XNeg a => vneg (erase_evalX a)
    | XPow n d a => vpow n d (erase_evalX a)
    | XSqrt a => vsqrt (erase_evalX a)
    | XCbrt a => vcbrt (erase_evalX a)
    | XAbs a => vabs (erase_evalX a)
    | XFn k a => vfn k (erase_evalX a)
    | XInner a b => vinner (erase_evalX a) (erase_evalX b)
    | XDyad a b => vdyad (erase_evalX a) (erase_evalX b)
    | XElem a => velem (erase_evalX a)
    end.
  (* reference semantics: every value carries its shape and unit, checked at each operation *)
  Definition qbin fs ft (f : V -> V -> V) (x y : option (xty * V)) : option (xty * V) :=
    match x, y with
    | Some (tx, va), Some (ty', vb) => option_map (fun t => (t, f va vb)) (xbin fs ft (Some tx) (Some ty'))
    | _, _ => None
    end.
  Definition qun (g : option xty -> option xty) (f : V -> V) (x : option (xty * V)) : option (xty * V) :=
    match x with
    | Some (tx, va) => option_map (fun t => (t, f va)) (g (Some tx))
    | None => None
    end.
  Fixpoint qevalX (e : xexpr) : option (xty * V) :=
    match e with
    | XVar i => option_map (fun d => ((d_shape d, d_ty d), env i)) (nth_error G i)
    | XLit k => Some ((Sc, TS), vlit k)
    | XAdd a b => qbin shape_same ty_addsub vadd (qevalX a) (qevalX b)
    | XSub a b => qbin shape_same ty_addsub vsub (qevalX a) (qevalX b)
    | XMul a b => qbin shape_mul t_mul vmul (qevalX a) (qevalX b)
    | XDiv a b => qbin shape_div t_div vdiv (qevalX a) (qevalX b)
    | XNeg a => qun (fun x => x) vneg (qevalX a)
    | XPow n d a => qun (xsc1 (fun t => Some (ty_pow n d t))) (vpow n d) (qevalX a)
    | XSqrt a => qun (xsc1 (fun t => Some (ty_pow 1 2 t))) vsqrt (qevalX a)
    | XCbrt a => qun (xsc1 (fun t => Some (ty_pow 1 3 t))) vcbrt (qevalX a)
    | XAbs a => qun (xsc1 Some) vabs (qevalX a)
    | XFn k a => qun (xsc1 ty_fn) (vfn k) (qevalX a)
    | XInner a b => qbin shape_inner t_mul vinner (qevalX a) (qevalX b)
    | XDyad a b => qbin shape_dyad t_mul vdyad (qevalX a) (qevalX b)
    | XElem a => qun xelem velem (qevalX a)
    end.
End XValues.

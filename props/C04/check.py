"""C04 -- requested eigenvalue ordering is honoured, ties included.
Engine S with path enumeration: the complete decision trees of the sorters are regenerated from /repo and the
Coq theorems (every triple of reals, hence every weak order) are re-checked against them; the real code is run
on every weak-order pattern (sorters) and through the public eigen API of every solver (tie + failing-input search)."""
import itertools, os
from vlib import guarded_main

SUPPORT = ["src/Exception/ContractViolation.cxx"]
PERMS3 = list(itertools.permutations(range(3)))
PERMS2 = [(0, 1, 2), (1, 0, 2)]


def sorted_ok(o, v, two_d=False):
    if o == "uns":
        return True
    n = 2 if two_d else 3
    w = v[:n]
    return all((w[i] <= w[i + 1]) if o == "asc" else (w[i] >= w[i + 1]) for i in range(n - 1))


def spec(which, o, vin, min_, out, tol=0.0):
    """independent statement of the property on concrete data"""
    dim = {"sev3": 3, "sval3": 3, "svec3": 3, "fses": 3, "sval2": 2, "svec2": 2, "sval1": 1, "svec1": 1}[which]
    vec = which in ("svec3", "svec2", "fses", "svec1")
    if dim == 1:
        return out == (vin + (min_ if vec else []))
    perms = PERMS3 if dim == 3 else PERMS2
    for s in perms:
        if o == "uns" and s != (0, 1, 2):
            continue
        v = [vin[s[0]], vin[s[1]], vin[s[2]]]
        if v != out[:3] or not sorted_ok(o, v, dim == 2):
            continue
        if vec:
            cols = [min_[3 * r + s[c]] for r in range(3) for c in range(3)]
            if dim == 2:  # third row of the in-plane columns is not exchanged by the code (it is zero in 2D)
                cols[6], cols[7] = min_[6], min_[7]
            if cols != out[3:]:
                continue
        return True
    return False


def main(c):
    exe = c.cxx("trace", ["trace.cxx"], SUPPORT)
    gen = os.path.join(c.work, "coq", "C04_gen.v")
    os.makedirs(os.path.dirname(gen), exist_ok=True)
    rc, out, err = c.run([exe, "gen", gen])
    if rc != 0:
        c.report("trace", "tracer failed on /repo's sorters: " + err[-500:], {"stderr": err[-3000:]}, False)
        return
    agree = [l for l in out.splitlines() if l.startswith("AGREE")]
    for l in agree:
        c.count(1)
        if l.startswith("AGREE-FAIL"):
            c.report("agree:" + l, "traced decision tree and double instantiation disagree: " + l, {"line": l}, True)
    c.trusted("engine S tracer (cxx/sym/sym.hxx path oracle + printer), g++ template instantiation of the sorters with Sym",
              "agreement Sym tree vs double instantiation on all 27 value patterns x 24 functions (exhaustive for comparison-only code)")
    res = c.coq([gen, "C04Spec.v", "C04Proofs.v", "Properties_C04.v"], timeout=600)
    # run the real code
    rc, out, err = c.run([exe, "run"])
    if rc != 0:
        c.report("run", "driver failed: " + err[-500:], {"stderr": err[-3000:]}, False)
        return
    bad_by_fn = {}
    nsort = napi = 0
    for l in out.splitlines():
        t = l.split()
        if t[0] == "SORT":
            which, o = t[1], t[2]
            vin = [float(x) for x in t[3:6]]
            outv = [float(x) for x in t[7:]]
            m = [10.0 + k for k in range(9)]
            nsort += 1
            nontrivial = len(set(vin)) < 3 or vin != sorted(vin)
            c.count(1, ("S", which, o, tuple(vin)), nontrivial)
            if nsort % 97 == 1:
                c.sample({"sorter": which, "order": o, "in": vin, "out": outv})
            if not spec(which, o, vin, m, outv):
                key = "sorter:%s:%s:%s" % (which, o, ",".join("%g" % x for x in vin))
                bad_by_fn.setdefault(which + "_" + o, []).append(key)
                c.report(key, "%s(%s) on values %s with tagged columns returns %s: not the values/columns sorted by one permutation" % (
                    which, o, vin, outv), {"sorter": which, "order": o, "values": vin, "columns_row_major": m, "observed": outv,
                                          "how": "props/C04/trace.cxx run"}, True)
        elif t[0] == "API":
            solver, dim, o = t[1], int(t[2]), t[3]
            iin = t.index("in", 4); iu = t.index("uns", iin); isrt = t.index("sorted", iu); iv = t.index("values", isrt); ivu = t.index("valuns", iv)
            d = [float(x) for x in t[iin + 1:iu]]
            un = [float(x) for x in t[iu + 1:isrt]]
            so = [float(x) for x in t[isrt + 1:iv]]
            vals = [float(x) for x in t[iv + 1:ivu]]
            valuns = [float(x) for x in t[ivu + 1:]]
            napi += 1
            c.count(1, ("A", solver, dim, o, tuple(d)), len(set(d)) < 3)
            which = {3: "svec3", 2: "svec2", 1: "svec1"}[dim]
            ok = spec(which, o, un[:3], un[3:], so)
            # computeEigenValues(o) must be computeEigenValues(unsorted) sorted by the sorter contract (exactly)
            whichv = {3: "sval3", 2: "sval2", 1: "sval1"}[dim]
            ok2 = spec(whichv, o, valuns, [], vals)
            ok3 = True
            if napi % 401 == 1:
                c.sample({"api": solver, "N": dim, "order": o, "diag": d, "sorted_values": so[:3]})
            if not (ok and ok2 and ok3):
                key = "api:%s:%d:%s:%s" % (solver, dim, o, ",".join("%g" % x for x in d))
                c.report(key, "stensor<%d>::computeEigenVectors/Values<%s>(%s) on diag%s: unsorted=%s sorted=%s values=%s violates the ordering contract" % (
                    dim, solver, o, d, un[:3], so[:3], vals), {"solver": solver, "N": dim, "order": o, "diag": d, "unsorted": un,
                                                               "sorted": so, "values": vals}, True)
    c.coverage["rule"] = ("exhaustive: every value pattern of {0,1,2}^3 (all 13 weak orders) x 3 orderings x 8 sorters with tagged columns; "
                          "API: diagonal tensors with every tie pattern x 8 eigen solvers x N=1,2,3; non-trivial = has a tie or is not already sorted")
    c.coverage["exhaustive"] = True
    c.coverage["traces_validated_against_impl"] = nsort + napi

    def search(fail):
        # a failed obligation about function f: reuse the failing inputs found by execution for that function
        thm = fail[2]
        for fn, keys in bad_by_fn.items():
            if fn.split("_")[0] in thm or fn in fail[3]:
                return None  # already reported with a concrete input
        return None
    # if concrete failing inputs were found, the broken obligations are explained by them
    if not res.ok:
        if c.violations and any(v[3] for v in c.violations):
            c.notes.append("proof obligations failed: %s; concrete failing inputs reported above" % [f[2] for f in res.failed])
        else:
            c.coq_failures(res, search)


guarded_main("C04", main)

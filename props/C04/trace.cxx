// C04: tracer (engine S, path enumeration) and driver for the eigenvalue sorters of /repo.
//   trace gen <out.v>   : prints the complete decision trees as Coq definitions
//   trace run           : runs the real code (double) on every weak-order pattern and prints one line per case
#include "symtfel.hxx"
#include "TFEL/Math/stensor.hxx"
#include "TFEL/Math/tmatrix.hxx"
#include "FSES/Utilities.hxx"
#include "FSES/std_array.hxx"
#include <array>
#include <cstring>
#include <iostream>

using namespace symv;
using tfel::math::stensor;
using tfel::math::stensor_common;
using tfel::math::tmatrix;
using tfel::math::tvector;
using Ord = stensor_common::EigenValuesOrdering;

static const char* oname[3] = {"asc", "desc", "uns"};
static const Ord ords[3] = {stensor_common::ASCENDING, stensor_common::DESCENDING, stensor_common::UNSORTED};
static const fses::EigenValuesOrdering fords[3] = {fses::EigenValuesOrdering::ASCENDING, fses::EigenValuesOrdering::DESCENDING,
                                                   fses::EigenValuesOrdering::UNSORTED};

// the five sorters, generic in the scalar type; in: v[3], m[9] (row major m(i,j)); out: same layout
template <typename T>
std::vector<T> run_sorter(int which, int o, const std::vector<T>& v, const std::vector<T>& mm) {
  tvector<3u, T> vp{v[0], v[1], v[2]};
  tmatrix<3u, 3u, T> m;
  for (unsigned short i = 0; i < 3; ++i)
    for (unsigned short j = 0; j < 3; ++j) m(i, j) = mm[3 * i + j];
  switch (which) {
    case 0: {  // tfel::math::sortEigenValues
      auto r = tfel::math::sortEigenValues(vp, ords[o]);
      return {r[0], r[1], r[2]};
    }
    case 1: {  // SortEigenValues<2>
      T a = v[0], b = v[1], c = v[2];
      tfel::math::internals::SortEigenValues<2u>::exe(a, b, c, ords[o]);
      return {a, b, c};
    }
    case 2: {  // SortEigenValues<3>
      T a = v[0], b = v[1], c = v[2];
      tfel::math::internals::SortEigenValues<3u>::exe(a, b, c, ords[o]);
      return {a, b, c};
    }
    case 3:
      tfel::math::internals::SortEigenVectors<2u>::exe(vp, m, ords[o]);
      break;
    case 4:
      tfel::math::internals::SortEigenVectors<3u>::exe(vp, m, ords[o]);
      break;
    case 5: {  // fses::sort on std::array
      std::array<std::array<T, 3>, 3> fm;
      std::array<T, 3> fv{v[0], v[1], v[2]};
      for (int i = 0; i < 3; ++i)
        for (int j = 0; j < 3; ++j) fm[i][j] = mm[3 * i + j];
      fses::sort(fm, fv, fords[o]);
      std::vector<T> r{fv[0], fv[1], fv[2]};
      for (int i = 0; i < 3; ++i)
        for (int j = 0; j < 3; ++j) r.push_back(fm[i][j]);
      return r;
    }
    case 6: {  // SortEigenValues<1> : identity
      T a = v[0], b = v[1], c = v[2];
      tfel::math::internals::SortEigenValues<1u>::exe(a, b, c, ords[o]);
      return {a, b, c};
    }
    case 7:
      tfel::math::internals::SortEigenVectors<1u>::exe(vp, m, ords[o]);
      break;
  }
  std::vector<T> r{vp[0], vp[1], vp[2]};
  for (unsigned short i = 0; i < 3; ++i)
    for (unsigned short j = 0; j < 3; ++j) r.push_back(m(i, j));
  return r;
}
static const char* sname[8] = {"sev3", "sval2", "sval3", "svec2", "svec3", "fses", "sval1", "svec1"};

// API level: sorted call vs unsorted call of the real eigen solvers on doubles
template <unsigned short N, stensor_common::EigenSolver es>
void api_case(const char* solver, const double* d, int o) {
  stensor<N, double> s(0.);
  for (unsigned short i = 0; i < 3; ++i) s[i] = d[i];
  tvector<3u, double> vu, vs, vs2, vu2;
  tmatrix<3u, 3u, double> mu, ms;
  s.template computeEigenVectors<es>(vu, mu);
  s.template computeEigenVectors<es>(vs, ms, ords[o]);
  s.template computeEigenValues<es>(vs2, ords[o]);
  s.template computeEigenValues<es>(vu2);
  std::printf("API %s %d %s in %.17g %.17g %.17g uns", solver, int(N), oname[o], d[0], d[1], d[2]);
  for (int i = 0; i < 3; ++i) std::printf(" %.17g", vu[i]);
  for (unsigned short i = 0; i < 3; ++i)
    for (unsigned short j = 0; j < 3; ++j) std::printf(" %.17g", mu(i, j));
  std::printf(" sorted");
  for (int i = 0; i < 3; ++i) std::printf(" %.17g", vs[i]);
  for (unsigned short i = 0; i < 3; ++i)
    for (unsigned short j = 0; j < 3; ++j) std::printf(" %.17g", ms(i, j));
  std::printf(" values");
  for (int i = 0; i < 3; ++i) std::printf(" %.17g", vs2[i]);
  std::printf(" valuns");
  for (int i = 0; i < 3; ++i) std::printf(" %.17g", vu2[i]);
  std::printf("\n");
}
template <unsigned short N>
void api_all(const double* d, int o) {
  api_case<N, stensor_common::TFELEIGENSOLVER>("TFEL", d, o);
  api_case<N, stensor_common::FSESJACOBIEIGENSOLVER>("FSESJACOBI", d, o);
  api_case<N, stensor_common::FSESQLEIGENSOLVER>("FSESQL", d, o);
  api_case<N, stensor_common::FSESCUPPENEIGENSOLVER>("FSESCUPPEN", d, o);
  api_case<N, stensor_common::FSESANALYTICALEIGENSOLVER>("FSESANALYTICAL", d, o);
  api_case<N, stensor_common::FSESHYBRIDEIGENSOLVER>("FSESHYBRID", d, o);
  api_case<N, stensor_common::GTESYMMETRICQREIGENSOLVER>("GTE", d, o);
  api_case<N, stensor_common::HARARIEIGENSOLVER>("HARARI", d, o);
}

int main(int argc, char** argv) {
  if (argc >= 3 && !std::strcmp(argv[1], "gen")) {
    Trace tr("C04_gen");
    auto v = vars("v", 3);
    auto m = vars("m", 9);
    std::vector<Sym> all = v;
    all.insert(all.end(), m.begin(), m.end());
    for (int w = 0; w < 8; ++w)
      for (int o = 0; o < 3; ++o) {
        bool vec = (w == 3 || w == 4 || w == 5 || w == 7);
        auto leaves = tr.def_paths(std::string(sname[w]) + "_" + oname[o], vec ? all : v, [&] { return run_sorter<Sym>(w, o, v, m); });
        // agreement of the tree with the double instantiation on every weak order of {0,1,2}^3 (exhaustive)
        for (int a = 0; a < 3; ++a)
          for (int b = 0; b < 3; ++b)
            for (int c = 0; c < 3; ++c) {
              Env env{{"v0", a}, {"v1", b}, {"v2", c}};
              std::vector<double> dm;
              for (int k = 0; k < 9; ++k) {
                env["m" + std::to_string(k)] = 10 + k;
                dm.push_back(10 + k);
              }
              std::vector<long double> r;
              if (!eval_leaves(leaves, env, r)) {
                std::printf("AGREE-FAIL %s_%s no leaf for %d %d %d\n", sname[w], oname[o], a, b, c);
                continue;
              }
              auto d = run_sorter<double>(w, o, {double(a), double(b), double(c)}, dm);
              bool ok = d.size() == r.size();
              for (size_t k = 0; ok && k < d.size(); ++k) ok = (d[k] == double(r[k]));
              std::printf("%s %s_%s %d %d %d\n", ok ? "AGREE" : "AGREE-FAIL", sname[w], oname[o], a, b, c);
            }
      }
    tr.write(argv[2]);
    return 0;
  }
  if (argc >= 2 && !std::strcmp(argv[1], "run")) {
    // every weak-order pattern of three values, with tagged columns
    for (int w = 0; w < 8; ++w)
      for (int o = 0; o < 3; ++o)
        for (int a = 0; a < 3; ++a)
          for (int b = 0; b < 3; ++b)
            for (int c = 0; c < 3; ++c) {
              std::vector<double> dm;
              for (int k = 0; k < 9; ++k) dm.push_back(10 + k);
              auto d = run_sorter<double>(w, o, {double(a), double(b), double(c)}, dm);
              std::printf("SORT %s %s %d %d %d ->", sname[w], oname[o], a, b, c);
              for (double x : d) std::printf(" %g", x);
              std::printf("\n");
            }
    // API level on diagonal tensors with every tie pattern (values scaled to avoid special-casing zero)
    const double vals[3] = {1.5, 4.25, 7.0};
    for (int o = 0; o < 3; ++o)
      for (int a = 0; a < 3; ++a)
        for (int b = 0; b < 3; ++b)
          for (int c = 0; c < 3; ++c) {
            double d[3] = {vals[a], vals[b], vals[c]};
            api_all<1u>(d, o);
            api_all<2u>(d, o);
            api_all<3u>(d, o);
          }
    return 0;
  }
  std::fprintf(stderr, "usage: trace gen <out.v> | trace run\n");
  return 2;
}

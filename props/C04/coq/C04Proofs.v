(* C04 -- proofs over the decision trees regenerated from /repo (C04_gen.v).  The tactics do not depend on the
   shape of the trees: they split every test, discard infeasible leaves by lra and look for the permutation. *)
From Coq Require Import Reals List Lra.
From C04 Require Import C04Spec C04_gen.
Import ListNotations.
Local Open Scope R_scope.

Ltac split_tests :=
  repeat match goal with
         | |- context [if ?c then _ else _] => destruct c
         end.

Ltac leaf_with s :=
  exists s; split; [cbn; tauto |
  split; [reflexivity |
  split; [cbn; lra | let HU := fresh "HU" in intro HU; first [reflexivity | discriminate HU]]]].

Ltac leaf3 :=
  first [ exfalso; lra
        | leaf_with (0,1,2)%nat | leaf_with (0,2,1)%nat | leaf_with (1,0,2)%nat
        | leaf_with (1,2,0)%nat | leaf_with (2,0,1)%nat | leaf_with (2,1,0)%nat ].
Ltac leaf2 := first [ exfalso; lra | leaf_with (0,1,2)%nat | leaf_with (1,0,2)%nat ].

Ltac sorter3 f := intros; unfold f; split_tests; leaf3.
Ltac sorter2 f := intros; unfold f; split_tests; leaf2.

(* tfel::math::sortEigenValues *)
Lemma sev3_asc_ok v0 v1 v2 : sort_values_spec3 Asc [v0; v1; v2] (sev3_asc v0 v1 v2).
Proof. sorter3 sev3_asc. Qed.
Lemma sev3_desc_ok v0 v1 v2 : sort_values_spec3 Desc [v0; v1; v2] (sev3_desc v0 v1 v2).
Proof. sorter3 sev3_desc. Qed.
Lemma sev3_uns_ok v0 v1 v2 : sort_values_spec3 Uns [v0; v1; v2] (sev3_uns v0 v1 v2).
Proof. sorter3 sev3_uns. Qed.
(* internals::SortEigenValues<3> *)
Lemma sval3_asc_ok v0 v1 v2 : sort_values_spec3 Asc [v0; v1; v2] (sval3_asc v0 v1 v2).
Proof. sorter3 sval3_asc. Qed.
Lemma sval3_desc_ok v0 v1 v2 : sort_values_spec3 Desc [v0; v1; v2] (sval3_desc v0 v1 v2).
Proof. sorter3 sval3_desc. Qed.
Lemma sval3_uns_ok v0 v1 v2 : sort_values_spec3 Uns [v0; v1; v2] (sval3_uns v0 v1 v2).
Proof. sorter3 sval3_uns. Qed.
(* internals::SortEigenValues<2> *)
Lemma sval2_asc_ok v0 v1 v2 : sort_values_spec2 Asc [v0; v1; v2] (sval2_asc v0 v1 v2).
Proof. sorter2 sval2_asc. Qed.
Lemma sval2_desc_ok v0 v1 v2 : sort_values_spec2 Desc [v0; v1; v2] (sval2_desc v0 v1 v2).
Proof. sorter2 sval2_desc. Qed.
Lemma sval2_uns_ok v0 v1 v2 : sort_values_spec2 Uns [v0; v1; v2] (sval2_uns v0 v1 v2).
Proof. sorter2 sval2_uns. Qed.
(* internals::SortEigenValues<1> *)
Lemma sval1_ok v0 v1 v2 :
  identity_spec [v0; v1; v2] (sval1_asc v0 v1 v2) /\ identity_spec [v0; v1; v2] (sval1_desc v0 v1 v2) /\
  identity_spec [v0; v1; v2] (sval1_uns v0 v1 v2).
Proof. repeat split. Qed.

Section Vectors.
  Variables v0 v1 v2 m0 m1 m2 m3 m4 m5 m6 m7 m8 : R.
  Let v := [v0; v1; v2].
  Let m := [m0; m1; m2; m3; m4; m5; m6; m7; m8].
  (* internals::SortEigenVectors<3> *)
  Lemma svec3_asc_ok : sort_vectors_spec3 Asc v m (svec3_asc v0 v1 v2 m0 m1 m2 m3 m4 m5 m6 m7 m8).
  Proof. subst v m. sorter3 svec3_asc. Qed.
  Lemma svec3_desc_ok : sort_vectors_spec3 Desc v m (svec3_desc v0 v1 v2 m0 m1 m2 m3 m4 m5 m6 m7 m8).
  Proof. subst v m. sorter3 svec3_desc. Qed.
  Lemma svec3_uns_ok : sort_vectors_spec3 Uns v m (svec3_uns v0 v1 v2 m0 m1 m2 m3 m4 m5 m6 m7 m8).
  Proof. subst v m. sorter3 svec3_uns. Qed.
  (* fses::sort *)
  Lemma fses_asc_ok : sort_vectors_spec3 Asc v m (fses_asc v0 v1 v2 m0 m1 m2 m3 m4 m5 m6 m7 m8).
  Proof. subst v m. sorter3 fses_asc. Qed.
  Lemma fses_desc_ok : sort_vectors_spec3 Desc v m (fses_desc v0 v1 v2 m0 m1 m2 m3 m4 m5 m6 m7 m8).
  Proof. subst v m. sorter3 fses_desc. Qed.
  Lemma fses_uns_ok : sort_vectors_spec3 Uns v m (fses_uns v0 v1 v2 m0 m1 m2 m3 m4 m5 m6 m7 m8).
  Proof. subst v m. sorter3 fses_uns. Qed.
  (* internals::SortEigenVectors<2>: in 2D the third components of the in-plane eigenvectors vanish, so the code
     does not exchange m(2,0) and m(2,1); the statement carries that hypothesis *)
  Hypothesis Hplane : m6 = m7.
  Lemma svec2_asc_ok : sort_vectors_spec2 Asc v m (svec2_asc v0 v1 v2 m0 m1 m2 m3 m4 m5 m6 m7 m8).
  Proof. subst v m. intros; unfold svec2_asc; split_tests; subst m7; leaf2. Qed.
  Lemma svec2_desc_ok : sort_vectors_spec2 Desc v m (svec2_desc v0 v1 v2 m0 m1 m2 m3 m4 m5 m6 m7 m8).
  Proof. subst v m. intros; unfold svec2_desc; split_tests; subst m7; leaf2. Qed.
  Lemma svec2_uns_ok : sort_vectors_spec2 Uns v m (svec2_uns v0 v1 v2 m0 m1 m2 m3 m4 m5 m6 m7 m8).
  Proof. subst v m. intros; unfold svec2_uns; split_tests; subst m7; leaf2. Qed.
End Vectors.

Lemma svec1_ok v0 v1 v2 m0 m1 m2 m3 m4 m5 m6 m7 m8 :
  let inp := [v0; v1; v2; m0; m1; m2; m3; m4; m5; m6; m7; m8] in
  identity_spec inp (svec1_asc v0 v1 v2 m0 m1 m2 m3 m4 m5 m6 m7 m8) /\
  identity_spec inp (svec1_desc v0 v1 v2 m0 m1 m2 m3 m4 m5 m6 m7 m8) /\
  identity_spec inp (svec1_uns v0 v1 v2 m0 m1 m2 m3 m4 m5 m6 m7 m8).
Proof. repeat split. Qed.

(* non-vacuity: the specification is satisfiable and discriminating on a tie *)
Example spec_tie_example : sort_values_spec3 Desc [5; 5; 1] (Some [5; 5; 1]) /\ ~ sort_values_spec3 Desc [5; 5; 1] (Some [1; 5; 5]).
Proof.
  split.
  - leaf_with (0,1,2)%nat.
  - intros [s [Hin [Heq [Hs _]]]]. unfold perms3 in Hin. cbn in Hin.
    repeat (destruct Hin as [Hin|Hin]; [subst s; cbn in Hs, Heq; first [lra | injection Heq; intros; lra]|]). contradiction.
Qed.

(* C04 -- specification of "the requested eigenvalue ordering is honoured, ties included".
   Written independently of the code: a sorter maps (values, eigenvector columns) to the image of both under
   ONE permutation of the three indices, such that the permuted values are sorted in the requested order. *)
From Coq Require Import Reals List Lra.
Import ListNotations.
Local Open Scope R_scope.

Inductive ordering := Asc | Desc | Uns.

Definition sel (l : list R) (i : nat) : R := nth i l 0.

(* the six permutations of {0,1,2} *)
Definition perms3 : list (nat * nat * nat) :=
  [(0,1,2); (0,2,1); (1,0,2); (1,2,0); (2,0,1); (2,1,0)]%nat.
(* permutations of the in-plane pair only (2D) *)
Definition perms2 : list (nat * nat * nat) := [(0,1,2); (1,0,2)]%nat.

Definition apply_vals (s : nat * nat * nat) (v : list R) : list R :=
  let '(i, j, k) := s in [sel v i; sel v j; sel v k].
(* m is the 3x3 matrix of eigenvectors stored row-major: column c is (m_c, m_(3+c), m_(6+c)) *)
Definition apply_cols (s : nat * nat * nat) (m : list R) : list R :=
  let '(i, j, k) := s in
  [sel m i; sel m j; sel m k;
   sel m (3 + i); sel m (3 + j); sel m (3 + k);
   sel m (6 + i); sel m (6 + j); sel m (6 + k)].

Definition sorted3 (o : ordering) (l : list R) : Prop :=
  match o, l with
  | Asc, [a; b; c] => a <= b /\ b <= c
  | Desc, [a; b; c] => b <= a /\ c <= b
  | Uns, [_; _; _] => True
  | _, _ => False
  end.
Definition sorted2 (o : ordering) (l : list R) : Prop :=
  match o, l with
  | Asc, [a; b; _] => a <= b
  | Desc, [a; b; _] => b <= a
  | Uns, [_; _; _] => True
  | _, _ => False
  end.

Definition ident := (0, 1, 2)%nat.

(* values only, 3D *)
Definition sort_values_spec3 (o : ordering) (v : list R) (out : option (list R)) : Prop :=
  exists s, In s perms3 /\ out = Some (apply_vals s v) /\ sorted3 o (apply_vals s v) /\ (o = Uns -> s = ident).
(* values only, 2D: only the in-plane pair moves *)
Definition sort_values_spec2 (o : ordering) (v : list R) (out : option (list R)) : Prop :=
  exists s, In s perms2 /\ out = Some (apply_vals s v) /\ sorted2 o (apply_vals s v) /\ (o = Uns -> s = ident).
(* values and vectors *)
Definition sort_vectors_spec3 (o : ordering) (v m : list R) (out : option (list R)) : Prop :=
  exists s, In s perms3 /\ out = Some (apply_vals s v ++ apply_cols s m) /\ sorted3 o (apply_vals s v) /\ (o = Uns -> s = ident).
Definition sort_vectors_spec2 (o : ordering) (v m : list R) (out : option (list R)) : Prop :=
  exists s, In s perms2 /\ out = Some (apply_vals s v ++ apply_cols s m) /\ sorted2 o (apply_vals s v) /\ (o = Uns -> s = ident).
(* 1D: nothing moves *)
Definition identity_spec (inp : list R) (out : option (list R)) : Prop := out = Some inp.

(* sanity: the specification entails the usual notion of permutation *)
From Coq Require Import Permutation.
Lemma apply_vals_perm s a b c : In s perms3 -> Permutation (apply_vals s [a; b; c]) [a; b; c].
Proof.
  unfold perms3; simpl; intros H.
  destruct H as [H|[H|[H|[H|[H|[H|[]]]]]]]; subst s; cbn.
  - apply Permutation_refl.
  - apply perm_skip, perm_swap.
  - apply perm_swap.
  - eapply perm_trans; [apply perm_skip, perm_swap | apply perm_swap].
  - eapply perm_trans; [apply perm_swap | apply perm_skip, perm_swap].
  - eapply perm_trans; [apply perm_swap|].
    eapply perm_trans; [apply perm_skip, perm_swap | apply perm_swap].
Qed.

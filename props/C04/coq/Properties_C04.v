(* C04 -- property theorems (statements only; proofs are in C04Proofs.v). *)
From Coq Require Import Reals List.
From C04 Require Import C04Spec C04_gen C04Proofs.
Import ListNotations.
Local Open Scope R_scope.

(* sortEigenValues (free function), every triple of reals, every ordering *)
Theorem C04_sortEigenValues : forall v0 v1 v2,
  sort_values_spec3 Asc [v0; v1; v2] (sev3_asc v0 v1 v2) /\
  sort_values_spec3 Desc [v0; v1; v2] (sev3_desc v0 v1 v2) /\
  sort_values_spec3 Uns [v0; v1; v2] (sev3_uns v0 v1 v2).
Proof. intros; exact (conj (sev3_asc_ok _ _ _) (conj (sev3_desc_ok _ _ _) (sev3_uns_ok _ _ _))). Qed.
Print Assumptions C04_sortEigenValues.

(* sorter behind computeEigenValues(o), 3D / 2D / 1D *)
Theorem C04_computeEigenValues_3D : forall v0 v1 v2,
  sort_values_spec3 Asc [v0; v1; v2] (sval3_asc v0 v1 v2) /\
  sort_values_spec3 Desc [v0; v1; v2] (sval3_desc v0 v1 v2) /\
  sort_values_spec3 Uns [v0; v1; v2] (sval3_uns v0 v1 v2).
Proof. intros; exact (conj (sval3_asc_ok _ _ _) (conj (sval3_desc_ok _ _ _) (sval3_uns_ok _ _ _))). Qed.
Print Assumptions C04_computeEigenValues_3D.

Theorem C04_computeEigenValues_2D : forall v0 v1 v2,
  sort_values_spec2 Asc [v0; v1; v2] (sval2_asc v0 v1 v2) /\
  sort_values_spec2 Desc [v0; v1; v2] (sval2_desc v0 v1 v2) /\
  sort_values_spec2 Uns [v0; v1; v2] (sval2_uns v0 v1 v2).
Proof. intros; exact (conj (sval2_asc_ok _ _ _) (conj (sval2_desc_ok _ _ _) (sval2_uns_ok _ _ _))). Qed.
Print Assumptions C04_computeEigenValues_2D.

Theorem C04_computeEigenValues_1D : forall v0 v1 v2,
  identity_spec [v0; v1; v2] (sval1_asc v0 v1 v2) /\ identity_spec [v0; v1; v2] (sval1_desc v0 v1 v2) /\
  identity_spec [v0; v1; v2] (sval1_uns v0 v1 v2).
Proof. exact sval1_ok. Qed.
Print Assumptions C04_computeEigenValues_1D.

(* sorter behind computeEigenVectors(o): eigenvector columns move with their eigenvalues *)
Theorem C04_computeEigenVectors_3D : forall v0 v1 v2 m0 m1 m2 m3 m4 m5 m6 m7 m8,
  let v := [v0; v1; v2] in let m := [m0; m1; m2; m3; m4; m5; m6; m7; m8] in
  sort_vectors_spec3 Asc v m (svec3_asc v0 v1 v2 m0 m1 m2 m3 m4 m5 m6 m7 m8) /\
  sort_vectors_spec3 Desc v m (svec3_desc v0 v1 v2 m0 m1 m2 m3 m4 m5 m6 m7 m8) /\
  sort_vectors_spec3 Uns v m (svec3_uns v0 v1 v2 m0 m1 m2 m3 m4 m5 m6 m7 m8).
Proof. intros; exact (conj (svec3_asc_ok _ _ _ _ _ _ _ _ _ _ _ _) (conj (svec3_desc_ok _ _ _ _ _ _ _ _ _ _ _ _) (svec3_uns_ok _ _ _ _ _ _ _ _ _ _ _ _))). Qed.
Print Assumptions C04_computeEigenVectors_3D.

Theorem C04_computeEigenVectors_2D : forall v0 v1 v2 m0 m1 m2 m3 m4 m5 m6 m7 m8, m6 = m7 ->
  let v := [v0; v1; v2] in let m := [m0; m1; m2; m3; m4; m5; m6; m7; m8] in
  sort_vectors_spec2 Asc v m (svec2_asc v0 v1 v2 m0 m1 m2 m3 m4 m5 m6 m7 m8) /\
  sort_vectors_spec2 Desc v m (svec2_desc v0 v1 v2 m0 m1 m2 m3 m4 m5 m6 m7 m8) /\
  sort_vectors_spec2 Uns v m (svec2_uns v0 v1 v2 m0 m1 m2 m3 m4 m5 m6 m7 m8).
Proof. intros ? ? ? ? ? ? ? ? ? ? ? ? H; exact (conj (svec2_asc_ok _ _ _ _ _ _ _ _ _ _ _ _ H) (conj (svec2_desc_ok _ _ _ _ _ _ _ _ _ _ _ _ H) (svec2_uns_ok _ _ _ _ _ _ _ _ _ _ _ _ H))). Qed.
Print Assumptions C04_computeEigenVectors_2D.

Theorem C04_computeEigenVectors_1D : forall v0 v1 v2 m0 m1 m2 m3 m4 m5 m6 m7 m8,
  let inp := [v0; v1; v2; m0; m1; m2; m3; m4; m5; m6; m7; m8] in
  identity_spec inp (svec1_asc v0 v1 v2 m0 m1 m2 m3 m4 m5 m6 m7 m8) /\
  identity_spec inp (svec1_desc v0 v1 v2 m0 m1 m2 m3 m4 m5 m6 m7 m8) /\
  identity_spec inp (svec1_uns v0 v1 v2 m0 m1 m2 m3 m4 m5 m6 m7 m8).
Proof. exact svec1_ok. Qed.
Print Assumptions C04_computeEigenVectors_1D.

(* FSES sort (values + vectors) *)
Theorem C04_fses_sort : forall v0 v1 v2 m0 m1 m2 m3 m4 m5 m6 m7 m8,
  let v := [v0; v1; v2] in let m := [m0; m1; m2; m3; m4; m5; m6; m7; m8] in
  sort_vectors_spec3 Asc v m (fses_asc v0 v1 v2 m0 m1 m2 m3 m4 m5 m6 m7 m8) /\
  sort_vectors_spec3 Desc v m (fses_desc v0 v1 v2 m0 m1 m2 m3 m4 m5 m6 m7 m8) /\
  sort_vectors_spec3 Uns v m (fses_uns v0 v1 v2 m0 m1 m2 m3 m4 m5 m6 m7 m8).
Proof. intros; exact (conj (fses_asc_ok _ _ _ _ _ _ _ _ _ _ _ _) (conj (fses_desc_ok _ _ _ _ _ _ _ _ _ _ _ _) (fses_uns_ok _ _ _ _ _ _ _ _ _ _ _ _))). Qed.
Print Assumptions C04_fses_sort.

(* the specification is not vacuous and rejects the wrong answer on a tie *)
Theorem C04_spec_discriminates :
  sort_values_spec3 Desc [5; 5; 1] (Some [5; 5; 1]) /\ ~ sort_values_spec3 Desc [5; 5; 1] (Some [1; 5; 5]).
Proof. exact spec_tie_example. Qed.
Print Assumptions C04_spec_discriminates.

(* C55 -- second round: plane stress branch of the Green-Lagrange wrapper (1D and 2D), 2D and 3D stresses in every measure.
   Over the definitions regenerated from /repo (C55_gen.v); the scripts only use unfolding, `field`, `ring`, `auto_derive`. *)
From Coq Require Import Reals List Lra Lia.
From Coquelicot Require Import Coquelicot.
From VLib Require Import RealExtra.
From C55 Require Import C55Spec C55_gen C55Proofs.
Import ListNotations.
Local Open Scope R_scope.

(* ------------------------------------------------------------------ 1D plane stress *)
Section PS1.
  Variables la mu f0 f2 : R.
  Hypothesis Hlm : la + 2 * mu <> 0.
  Hypothesis Hpos : 0 < 1 + 2 * ps1_Eax la mu f0 f2.
  Let z := ps1_z la mu f0 f2.
  Lemma ps1_z_pos : 0 < z.
  Proof. unfold z, ps1_z. apply sqrt_lt_R0. exact Hpos. Qed.
  Lemma ps1_z_sq : z * z = 1 + 2 * ps1_Eax la mu f0 f2.
  Proof. unfold z, ps1_z. apply sqrt_sqrt. lra. Qed.
  (* with the true axial stretch the axial stress vanishes and the in-plane stresses are the plane stress closed forms *)
  Lemma ps1_axial_stress_zero : svk_S la mu 1 f0 z f2 = 0.
  Proof.
    unfold svk_S, E1. cbn [sel]. rewrite ps1_z_sq. unfold ps1_Eax, E1. cbn [sel]. field. exact Hlm.
  Qed.
  Lemma ps1_inplane i : i <> 1%nat ->
    svk_S la mu i f0 z f2 = 2 * la * mu / (la + 2 * mu) * (E1 0 f0 1 f2 + E1 2 f0 1 f2) + 2 * mu * E1 i f0 1 f2.
  Proof.
    intro Hi. unfold svk_S. destruct i as [|[|i]]; [| contradiction |]; unfold E1; cbn [sel]; rewrite ps1_z_sq; unfold ps1_Eax, E1; cbn [sel];
      field; exact Hlm.
  Qed.
End PS1.

(* every sqrt whose argument is (provably, by field) the argument of the true axial stretch is that stretch *)
Ltac fold_z z unf :=
  repeat match goal with |- context [sqrt ?a] =>
    replace (sqrt a) with z by (unfold z; unf; apply f_equal; field; nz) end.

Ltac ps1_stress gen la mu f0 f2 :=
  cbv zeta; intros Hlm Hpos H0 H2;
  pose proof (ps1_z_pos la mu f0 f2 Hpos) as Hz;
  rewrite ?(ps1_inplane la mu f0 f2 Hlm Hpos 0%nat) by discriminate; rewrite ?(ps1_inplane la mu f0 f2 Hlm Hpos 2%nat) by discriminate;
  unfold svk_sigma, svk_P, J1; rewrite ?(ps1_axial_stress_zero la mu f0 f2 Hlm Hpos);
  rewrite ?(ps1_inplane la mu f0 f2 Hlm Hpos 0%nat) by discriminate; rewrite ?(ps1_inplane la mu f0 f2 Hlm Hpos 2%nat) by discriminate;
  set (z := ps1_z la mu f0 f2) in *;
  unfold gen, E1, sel, nthR; cbn [nth];
  fold_z z ltac:(unfold ps1_z, ps1_Eax, E1, sel);
  repeat (match goal with |- _ /\ _ => split end); timeout 120 (try reflexivity; field; nz).

(* the gradients are given with a zero axial component; the result is the SVK stress for the true F = diag(f0, z, f2) *)
Lemma gl1ps_cauchy_ok la mu f0 f2 g0 g1 g2 a0 : la + 2 * mu <> 0 -> 0 < 1 + 2 * ps1_Eax la mu f0 f2 -> f0 <> 0 -> f2 <> 0 ->
  let z := ps1_z la mu f0 f2 in let r := gl1ps_stress_cauchy f0 0 f2 g0 g1 g2 a0 la mu in
  nthR r 0 = svk_sigma la mu 0 f0 z f2 /\ nthR r 1 = svk_sigma la mu 1 f0 z f2 /\ nthR r 2 = svk_sigma la mu 2 f0 z f2.
Proof. ps1_stress gl1ps_stress_cauchy la mu f0 f2. Qed.
Lemma gl1ps_pk2_ok la mu f0 f2 g0 g1 g2 a0 : la + 2 * mu <> 0 -> 0 < 1 + 2 * ps1_Eax la mu f0 f2 -> f0 <> 0 -> f2 <> 0 ->
  let z := ps1_z la mu f0 f2 in let r := gl1ps_stress_pk2 f0 0 f2 g0 g1 g2 a0 la mu in
  nthR r 0 = svk_S la mu 0 f0 z f2 /\ nthR r 1 = svk_S la mu 1 f0 z f2 /\ nthR r 2 = svk_S la mu 2 f0 z f2.
Proof. ps1_stress gl1ps_stress_pk2 la mu f0 f2. Qed.
Lemma gl1ps_pk1_ok la mu f0 f2 g0 g1 g2 a0 : la + 2 * mu <> 0 -> 0 < 1 + 2 * ps1_Eax la mu f0 f2 -> f0 <> 0 -> f2 <> 0 ->
  let z := ps1_z la mu f0 f2 in let r := gl1ps_stress_pk1 f0 0 f2 g0 g1 g2 a0 la mu in
  nthR r 0 = svk_P la mu 0 f0 z f2 /\ nthR r 1 = svk_P la mu 1 f0 z f2 /\ nthR r 2 = svk_P la mu 2 f0 z f2.
Proof. ps1_stress gl1ps_stress_pk1 la mu f0 f2. Qed.

(* tangent operators in plane stress: the material response depends on the in-plane stretches only, the axial stretch enters the
   push-forward as an independent argument; the operators are the partial derivatives at the true axial stretch *)
Ltac ps1_jac gen la mu f0 f2 :=
  cbv zeta; intros Hlm Hpos H0 H2;
  pose proof (ps1_z_pos la mu f0 f2 Hpos) as Hz; set (z := ps1_z la mu f0 f2) in *;
  unfold jacobian; ij2; unfold along, gen, ps1_sigma, ps1_P, ps1_S, E1, J1, sel, nthR; cbn [nth Nat.mul Nat.add];
  fold_z z ltac:(unfold ps1_z, ps1_Eax, E1, sel);
  timeout 300 (auto_derive; [ nz | timeout 300 (field; nz) ]).

Lemma gl1ps_dsig_df_ok la mu f0 f2 g0 g1 g2 a0 : la + 2 * mu <> 0 -> 0 < 1 + 2 * ps1_Eax la mu f0 f2 -> 0 < f0 -> 0 < f2 ->
  let z := ps1_z la mu f0 f2 in jacobian (gl1ps_dsig_df f0 0 f2 g0 g1 g2 a0 la mu) (ps1_sigma la mu) (fun _ => 1) f0 z f2.
Proof. ps1_jac gl1ps_dsig_df la mu f0 f2. Qed.
Lemma gl1ps_dpk1_df_ok la mu f0 f2 g0 g1 g2 a0 : la + 2 * mu <> 0 -> 0 < 1 + 2 * ps1_Eax la mu f0 f2 -> 0 < f0 -> 0 < f2 ->
  let z := ps1_z la mu f0 f2 in jacobian (gl1ps_dpk1_df f0 0 f2 g0 g1 g2 a0 la mu) (ps1_P la mu) (fun _ => 1) f0 z f2.
Proof. ps1_jac gl1ps_dpk1_df la mu f0 f2. Qed.
Lemma gl1ps_ds_degl_ok la mu f0 f2 g0 g1 g2 a0 : la + 2 * mu <> 0 -> 0 < 1 + 2 * ps1_Eax la mu f0 f2 -> 0 < f0 -> 0 < f2 ->
  let z := ps1_z la mu f0 f2 in jacobian (gl1ps_ds_degl f0 0 f2 g0 g1 g2 a0 la mu) (ps1_S la mu) (fun j => sel j f0 z f2) f0 z f2.
Proof. ps1_jac gl1ps_ds_degl la mu f0 f2. Qed.
(* ps1_S, ps1_sigma, ps1_P at the true axial stretch are the SVK closed forms *)
Lemma ps1_closed_forms la mu f0 f2 i : la + 2 * mu <> 0 -> 0 < 1 + 2 * ps1_Eax la mu f0 f2 -> (i < 3)%nat ->
  let z := ps1_z la mu f0 f2 in
  ps1_S la mu i f0 z f2 = svk_S la mu i f0 z f2 /\ ps1_sigma la mu i f0 z f2 = svk_sigma la mu i f0 z f2 /\ ps1_P la mu i f0 z f2 = svk_P la mu i f0 z f2.
Proof.
  intros Hlm Hpos Hi z.
  assert (HS : ps1_S la mu i f0 z f2 = svk_S la mu i f0 z f2).
  { destruct (lt3_cases i Hi) as [->|[->| ->]].
    - unfold z. rewrite (ps1_inplane la mu f0 f2 Hlm Hpos 0%nat) by discriminate. reflexivity.
    - unfold z. rewrite (ps1_axial_stress_zero la mu f0 f2 Hlm Hpos). reflexivity.
    - unfold z. rewrite (ps1_inplane la mu f0 f2 Hlm Hpos 2%nat) by discriminate. reflexivity. }
  unfold ps1_sigma, ps1_P, svk_sigma, svk_P. rewrite HS. repeat split; reflexivity.
Qed.

(* ------------------------------------------------------------------ 2D, general in-plane F *)
Ltac unf2 gen := intros; unfold gen, stensor2_of, tensor2_of, F2d, sigsvk, Psvk, Ssvk, Egl, det3, sum3, Fm, delta, nthR; cbn [nth Nat.eqb].
(* a denominator is non-zero because it is, up to ring normalisation, (a factor of) a quantity assumed non-zero *)
Ltac by_hyp :=
  match goal with
  | H : ?q <> 0 |- ?p <> 0 => let Z := fresh "Z" in intro Z; apply H; first [replace q with p by ring | replace q with (- p) by ring; rewrite Z; ring]; exact Z
  end.
Ltac nzs := repeat split; first [assumption | exact sqrt2_neq0 | by_hyp | lra | nra].
Ltac alg := timeout 200 (first [reflexivity | ring [sqrt2_sq] | (field_simplify_eq; [ring [sqrt2_sq] | nzs ..])]).

Lemma gl2_pk2_ok la mu f0 f1 f2 f3 f4 :
  gl2_stress_pk2 f0 f1 f2 f3 f4 la mu = stensor2_of (Ssvk la mu (F2d f0 f1 f2 f3 f4)) ++ [0].
Proof. unf2 gl2_stress_pk2. cbn [app]. comps; alg. Qed.
Lemma gl2_pk1_ok la mu f0 f1 f2 f3 f4 : f2 <> 0 -> f0 * f1 - f3 * f4 <> 0 ->
  gl2_stress_pk1 f0 f1 f2 f3 f4 la mu = tensor2_of (Psvk la mu (F2d f0 f1 f2 f3 f4)).
Proof.
  intros H2 Hd. assert (Hd' : f0 * f1 * f2 - f3 * f4 * f2 <> 0) by (intro Z; apply Hd; apply (Rmult_eq_reg_r f2); [lra | exact H2]).
  unf2 gl2_stress_pk1. comps; alg.
Qed.
Lemma gl2_cauchy_ok la mu f0 f1 f2 f3 f4 : f2 <> 0 -> f0 * f1 - f3 * f4 <> 0 ->
  gl2_stress_cauchy f0 f1 f2 f3 f4 la mu = stensor2_of (sigsvk la mu (F2d f0 f1 f2 f3 f4)) ++ [0].
Proof.
  intros H2 Hd. assert (Hd' : f0 * f1 * f2 - f3 * f4 * f2 <> 0) by (intro Z; apply Hd; apply (Rmult_eq_reg_r f2); [lra | exact H2]).
  unf2 gl2_stress_cauchy. cbn [app]. comps; alg.
Qed.

(* ------------------------------------------------------------------ 2D plane stress *)
Section PS2.
  Variables la mu f0 f1 f3 f4 : R.
  Hypothesis Hlm : la + 2 * mu <> 0.
  Hypothesis Hpos : 0 < 1 + 2 * ps2_Eax la mu f0 f1 f3 f4.
  Let z := ps2_z la mu f0 f1 f3 f4.
  Lemma ps2_z_pos : 0 < z.
  Proof. unfold z, ps2_z. apply sqrt_lt_R0. exact Hpos. Qed.
  Lemma ps2_z_sq : z * z = 1 + 2 * ps2_Eax la mu f0 f1 f3 f4.
  Proof. unfold z, ps2_z. apply sqrt_sqrt. lra. Qed.
  Lemma ps2_axial_stress_zero : Ssvk la mu (F2d f0 f1 z f3 f4) 2 2 = 0.
  Proof.
    unfold Ssvk, Egl, sum3, Fm, F2d, delta, nthR. cbn [nth Nat.eqb].
    replace (0 * 0 + 0 * 0 + z * z) with (1 + 2 * ps2_Eax la mu f0 f1 f3 f4) by (rewrite <- ps2_z_sq; ring).
    unfold ps2_Eax, Egl, sum3, Fm, F2d, delta, nthR. cbn [nth Nat.eqb]. field. exact Hlm.
  Qed.
End PS2.

Ltac ps2_stress gen la mu f0 f1 f3 f4 :=
  intros Hlm Hpos Hd;
  pose proof (ps2_z_pos la mu f0 f1 f3 f4 Hpos) as Hz; pose proof (ps2_z_sq la mu f0 f1 f3 f4 Hpos) as Hzz;
  set (z := ps2_z la mu f0 f1 f3 f4) in *;
  unfold gen, stensor2_of, tensor2_of, F2d, sigsvk, Psvk, Ssvk, Egl, det3, sum3, Fm, delta, nthR; cbn [nth Nat.eqb app];
  fold_z z ltac:(unfold ps2_z, ps2_Eax, Egl, sum3, Fm, F2d, delta, nthR; cbn [nth Nat.eqb]);
  replace (0 * 0 + 0 * 0 + z * z) with (1 + 2 * ps2_Eax la mu f0 f1 f3 f4) by (rewrite <- Hzz; ring);
  unfold ps2_Eax, Egl, sum3, Fm, F2d, delta, nthR; cbn [nth Nat.eqb].

(* gradients given with a zero axial component; result = SVK stress for the true F (axial stretch ps2_z) *)
Lemma gl2ps_pk2_ok la mu f0 f1 f3 f4 : la + 2 * mu <> 0 -> 0 < 1 + 2 * ps2_Eax la mu f0 f1 f3 f4 -> f0 * f1 - f3 * f4 <> 0 ->
  gl2ps_stress_pk2 f0 f1 0 f3 f4 la mu = stensor2_of (Ssvk la mu (F2d f0 f1 (ps2_z la mu f0 f1 f3 f4) f3 f4)) ++ [0].
Proof. ps2_stress gl2ps_stress_pk2 la mu f0 f1 f3 f4. comps; alg. Qed.
Lemma gl2ps_pk1_ok la mu f0 f1 f3 f4 : la + 2 * mu <> 0 -> 0 < 1 + 2 * ps2_Eax la mu f0 f1 f3 f4 -> f0 * f1 - f3 * f4 <> 0 ->
  gl2ps_stress_pk1 f0 f1 0 f3 f4 la mu = tensor2_of (Psvk la mu (F2d f0 f1 (ps2_z la mu f0 f1 f3 f4) f3 f4)).
Proof. ps2_stress gl2ps_stress_pk1 la mu f0 f1 f3 f4. comps; alg. Qed.
Lemma gl2ps_cauchy_ok la mu f0 f1 f3 f4 : la + 2 * mu <> 0 -> 0 < 1 + 2 * ps2_Eax la mu f0 f1 f3 f4 -> f0 * f1 - f3 * f4 <> 0 ->
  gl2ps_stress_cauchy f0 f1 0 f3 f4 la mu = stensor2_of (sigsvk la mu (F2d f0 f1 (ps2_z la mu f0 f1 f3 f4) f3 f4)) ++ [0].
Proof.
  ps2_stress gl2ps_stress_cauchy la mu f0 f1 f3 f4.
  assert (Hd' : f0 * f1 * z - f3 * f4 * z <> 0) by (intro Z; apply Hd; apply (Rmult_eq_reg_r z); [lra | lra]).
  comps; alg.
Qed.


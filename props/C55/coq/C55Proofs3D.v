(* C55 -- second round: 3D first Piola-Kirchhoff and Cauchy stresses of the Green-Lagrange strategy, any F with det F <> 0.
   Self-contained (own copy of the small tactics) so that it compiles side by side with C55Proofs.v. *)
From Coq Require Import Reals List Lra Lia.
From VLib Require Import RealExtra.
From C55 Require Import C55Spec C55_gen.
Import ListNotations.
Local Open Scope R_scope.

Lemma cons_eq' (a b : R) (l m : list R) : a = b -> l = m -> a :: l = b :: m.
Proof. intros -> ->. reflexivity. Qed.
Ltac comps := repeat (apply cons_eq'; [|]); try reflexivity.
Ltac unf3 gen := intros; unfold gen, stensor_of, tensor_of, sigsvk, Psvk, Ssvk, Egl, det3, sum3, Fm, delta, nthR; cbn [nth Nat.eqb].
(* a denominator is non-zero because it is, up to ring normalisation, (a factor of) a quantity assumed non-zero *)
Ltac by_hyp :=
  match goal with
  | H : ?q <> 0 |- ?p <> 0 => let Z := fresh "Z" in intro Z; apply H; first [replace q with p by ring | replace q with (- p) by ring; rewrite Z; ring]; exact Z
  end.
Ltac nzs := repeat split; first [assumption | exact sqrt2_neq0 | by_hyp | lra | nra].
Ltac alg := timeout 200 (first [reflexivity | ring [sqrt2_sq] | (field_simplify_eq; [ring [sqrt2_sq] | nzs ..])]).


(* ------------------------------------------------------------------ 3D: the other two stress measures *)
Lemma gl3_pk1_ok la mu f0 f1 f2 f3 f4 f5 f6 f7 f8 : det3 [f0; f1; f2; f3; f4; f5; f6; f7; f8] <> 0 ->
  gl3_stress_pk1 f0 f1 f2 f3 f4 f5 f6 f7 f8 la mu = tensor_of (Psvk la mu [f0; f1; f2; f3; f4; f5; f6; f7; f8]).
Proof. intro Hd. unfold det3, Fm, nthR in Hd; cbn [nth] in Hd. unf3 gl3_stress_pk1. comps; alg. Qed.
Lemma gl3_cauchy_ok la mu f0 f1 f2 f3 f4 f5 f6 f7 f8 : det3 [f0; f1; f2; f3; f4; f5; f6; f7; f8] <> 0 ->
  gl3_stress_cauchy f0 f1 f2 f3 f4 f5 f6 f7 f8 la mu = stensor_of (sigsvk la mu [f0; f1; f2; f3; f4; f5; f6; f7; f8]) ++ [0; 0; 0].
Proof. intro Hd. pose proof Hd as Hd2. unfold det3, Fm, nthR in Hd2; cbn [nth] in Hd2. unf3 gl3_stress_cauchy. cbn [app]. comps; alg. Qed.

(* C55 -- second round, property theorems (statements only; proofs in C55ProofsPS.v, over definitions regenerated
   from /repo): plane stress branch of the Green-Lagrange strategy, 2D hypotheses *)
From Coq Require Import Reals List.
From Coquelicot Require Import Coquelicot.
From C55 Require Import C55Spec C55_gen C55Proofs C55ProofsPS.
Import ListNotations.
Local Open Scope R_scope.

(* AXISYMMETRICALGENERALISEDPLANESTRESS (rr, zz, tt), gradients given with a zero axial component, axial strain exported by the
   behaviour: each stress measure is the Saint-Venant Kirchhoff one for the TRUE end-of-step F = diag(f0, z, f2), z = sqrt(1 + 2 E_zz),
   E_zz the axial strain that makes the axial stress vanish *)
Theorem C55_green_lagrange_1D_plane_stress_cauchy : forall la mu f0 f2 g0 g1 g2 a0,
  la + 2 * mu <> 0 -> 0 < 1 + 2 * ps1_Eax la mu f0 f2 -> f0 <> 0 -> f2 <> 0 ->
  let z := ps1_z la mu f0 f2 in let r := gl1ps_stress_cauchy f0 0 f2 g0 g1 g2 a0 la mu in
  nthR r 0 = svk_sigma la mu 0 f0 z f2 /\ nthR r 1 = svk_sigma la mu 1 f0 z f2 /\ nthR r 2 = svk_sigma la mu 2 f0 z f2.
Proof. exact gl1ps_cauchy_ok. Qed.
Print Assumptions C55_green_lagrange_1D_plane_stress_cauchy.
Theorem C55_green_lagrange_1D_plane_stress_pk2 : forall la mu f0 f2 g0 g1 g2 a0,
  la + 2 * mu <> 0 -> 0 < 1 + 2 * ps1_Eax la mu f0 f2 -> f0 <> 0 -> f2 <> 0 ->
  let z := ps1_z la mu f0 f2 in let r := gl1ps_stress_pk2 f0 0 f2 g0 g1 g2 a0 la mu in
  nthR r 0 = svk_S la mu 0 f0 z f2 /\ nthR r 1 = svk_S la mu 1 f0 z f2 /\ nthR r 2 = svk_S la mu 2 f0 z f2.
Proof. exact gl1ps_pk2_ok. Qed.
Print Assumptions C55_green_lagrange_1D_plane_stress_pk2.
Theorem C55_green_lagrange_1D_plane_stress_pk1 : forall la mu f0 f2 g0 g1 g2 a0,
  la + 2 * mu <> 0 -> 0 < 1 + 2 * ps1_Eax la mu f0 f2 -> f0 <> 0 -> f2 <> 0 ->
  let z := ps1_z la mu f0 f2 in let r := gl1ps_stress_pk1 f0 0 f2 g0 g1 g2 a0 la mu in
  nthR r 0 = svk_P la mu 0 f0 z f2 /\ nthR r 1 = svk_P la mu 1 f0 z f2 /\ nthR r 2 = svk_P la mu 2 f0 z f2.
Proof. exact gl1ps_pk1_ok. Qed.
Print Assumptions C55_green_lagrange_1D_plane_stress_pk1.
(* the axial stress does vanish for that F *)
Theorem C55_plane_stress_1D_axial_stress_zero : forall la mu f0 f2, la + 2 * mu <> 0 -> 0 < 1 + 2 * ps1_Eax la mu f0 f2 ->
  svk_S la mu 1 f0 (ps1_z la mu f0 f2) f2 = 0.
Proof. exact ps1_axial_stress_zero. Qed.
Print Assumptions C55_plane_stress_1D_axial_stress_zero.
(* tangent operators in plane stress: partial derivatives, at the true axial stretch, of the stress seen as a function of the three
   stretches (material response = function of the in-plane stretches, push-forward with all three) *)
Theorem C55_plane_stress_1D_closed_forms : forall la mu f0 f2 i, la + 2 * mu <> 0 -> 0 < 1 + 2 * ps1_Eax la mu f0 f2 -> (i < 3)%nat ->
  let z := ps1_z la mu f0 f2 in
  ps1_S la mu i f0 z f2 = svk_S la mu i f0 z f2 /\ ps1_sigma la mu i f0 z f2 = svk_sigma la mu i f0 z f2 /\ ps1_P la mu i f0 z f2 = svk_P la mu i f0 z f2.
Proof. exact ps1_closed_forms. Qed.
Print Assumptions C55_plane_stress_1D_closed_forms.
Theorem C55_green_lagrange_1D_plane_stress_dsig_df : forall la mu f0 f2 g0 g1 g2 a0,
  la + 2 * mu <> 0 -> 0 < 1 + 2 * ps1_Eax la mu f0 f2 -> 0 < f0 -> 0 < f2 ->
  let z := ps1_z la mu f0 f2 in jacobian (gl1ps_dsig_df f0 0 f2 g0 g1 g2 a0 la mu) (ps1_sigma la mu) (fun _ => 1) f0 z f2.
Proof. exact gl1ps_dsig_df_ok. Qed.
Print Assumptions C55_green_lagrange_1D_plane_stress_dsig_df.
Theorem C55_green_lagrange_1D_plane_stress_dpk1_df : forall la mu f0 f2 g0 g1 g2 a0,
  la + 2 * mu <> 0 -> 0 < 1 + 2 * ps1_Eax la mu f0 f2 -> 0 < f0 -> 0 < f2 ->
  let z := ps1_z la mu f0 f2 in jacobian (gl1ps_dpk1_df f0 0 f2 g0 g1 g2 a0 la mu) (ps1_P la mu) (fun _ => 1) f0 z f2.
Proof. exact gl1ps_dpk1_df_ok. Qed.
Print Assumptions C55_green_lagrange_1D_plane_stress_dpk1_df.
Theorem C55_green_lagrange_1D_plane_stress_ds_degl : forall la mu f0 f2 g0 g1 g2 a0,
  la + 2 * mu <> 0 -> 0 < 1 + 2 * ps1_Eax la mu f0 f2 -> 0 < f0 -> 0 < f2 ->
  let z := ps1_z la mu f0 f2 in jacobian (gl1ps_ds_degl f0 0 f2 g0 g1 g2 a0 la mu) (ps1_S la mu) (fun j => sel j f0 z f2) f0 z f2.
Proof. exact gl1ps_ds_degl_ok. Qed.
Print Assumptions C55_green_lagrange_1D_plane_stress_ds_degl.

(* 2D hypotheses (axisymmetrical, plane strain, generalised plane strain), any in-plane F (xx yy zz xy yx): the three stress measures *)
Theorem C55_green_lagrange_2D_pk2 : forall la mu f0 f1 f2 f3 f4,
  gl2_stress_pk2 f0 f1 f2 f3 f4 la mu = stensor2_of (Ssvk la mu (F2d f0 f1 f2 f3 f4)) ++ [0].
Proof. exact gl2_pk2_ok. Qed.
Print Assumptions C55_green_lagrange_2D_pk2.
Theorem C55_green_lagrange_2D_pk1 : forall la mu f0 f1 f2 f3 f4, f2 <> 0 -> f0 * f1 - f3 * f4 <> 0 ->
  gl2_stress_pk1 f0 f1 f2 f3 f4 la mu = tensor2_of (Psvk la mu (F2d f0 f1 f2 f3 f4)).
Proof. exact gl2_pk1_ok. Qed.
Print Assumptions C55_green_lagrange_2D_pk1.
Theorem C55_green_lagrange_2D_cauchy : forall la mu f0 f1 f2 f3 f4, f2 <> 0 -> f0 * f1 - f3 * f4 <> 0 ->
  gl2_stress_cauchy f0 f1 f2 f3 f4 la mu = stensor2_of (sigsvk la mu (F2d f0 f1 f2 f3 f4)) ++ [0].
Proof. exact gl2_cauchy_ok. Qed.
Print Assumptions C55_green_lagrange_2D_cauchy.

(* PLANESTRESS, gradients given with a zero axial component: the three stress measures are the SVK ones for the true F, whose axial
   stretch ps2_z is the one that makes S_zz vanish *)
Theorem C55_green_lagrange_2D_plane_stress_pk2 : forall la mu f0 f1 f3 f4,
  la + 2 * mu <> 0 -> 0 < 1 + 2 * ps2_Eax la mu f0 f1 f3 f4 -> f0 * f1 - f3 * f4 <> 0 ->
  gl2ps_stress_pk2 f0 f1 0 f3 f4 la mu = stensor2_of (Ssvk la mu (F2d f0 f1 (ps2_z la mu f0 f1 f3 f4) f3 f4)) ++ [0].
Proof. exact gl2ps_pk2_ok. Qed.
Print Assumptions C55_green_lagrange_2D_plane_stress_pk2.
Theorem C55_green_lagrange_2D_plane_stress_pk1 : forall la mu f0 f1 f3 f4,
  la + 2 * mu <> 0 -> 0 < 1 + 2 * ps2_Eax la mu f0 f1 f3 f4 -> f0 * f1 - f3 * f4 <> 0 ->
  gl2ps_stress_pk1 f0 f1 0 f3 f4 la mu = tensor2_of (Psvk la mu (F2d f0 f1 (ps2_z la mu f0 f1 f3 f4) f3 f4)).
Proof. exact gl2ps_pk1_ok. Qed.
Print Assumptions C55_green_lagrange_2D_plane_stress_pk1.
Theorem C55_green_lagrange_2D_plane_stress_cauchy : forall la mu f0 f1 f3 f4,
  la + 2 * mu <> 0 -> 0 < 1 + 2 * ps2_Eax la mu f0 f1 f3 f4 -> f0 * f1 - f3 * f4 <> 0 ->
  gl2ps_stress_cauchy f0 f1 0 f3 f4 la mu = stensor2_of (sigsvk la mu (F2d f0 f1 (ps2_z la mu f0 f1 f3 f4) f3 f4)) ++ [0].
Proof. exact gl2ps_cauchy_ok. Qed.
Print Assumptions C55_green_lagrange_2D_plane_stress_cauchy.
Theorem C55_plane_stress_2D_axial_stress_zero : forall la mu f0 f1 f3 f4, la + 2 * mu <> 0 -> 0 < 1 + 2 * ps2_Eax la mu f0 f1 f3 f4 ->
  Ssvk la mu (F2d f0 f1 (ps2_z la mu f0 f1 f3 f4) f3 f4) 2 2 = 0.
Proof. exact ps2_axial_stress_zero. Qed.
Print Assumptions C55_plane_stress_2D_axial_stress_zero.


(* C55 -- second round, thorough tier: remaining 3D stress measures of the Green-Lagrange strategy (statements only; proofs in
   C55Proofs3D.v, over definitions regenerated from /repo) *)
From Coq Require Import Reals List.
From C55 Require Import C55Spec C55_gen C55Proofs3D.
Import ListNotations.
Local Open Scope R_scope.

(* 3D, any F with det F <> 0: first Piola-Kirchhoff and Cauchy stresses *)
Theorem C55_green_lagrange_3D_pk1 : forall la mu f0 f1 f2 f3 f4 f5 f6 f7 f8, det3 [f0; f1; f2; f3; f4; f5; f6; f7; f8] <> 0 ->
  gl3_stress_pk1 f0 f1 f2 f3 f4 f5 f6 f7 f8 la mu = tensor_of (Psvk la mu [f0; f1; f2; f3; f4; f5; f6; f7; f8]).
Proof. exact gl3_pk1_ok. Qed.
Print Assumptions C55_green_lagrange_3D_pk1.
Theorem C55_green_lagrange_3D_cauchy : forall la mu f0 f1 f2 f3 f4 f5 f6 f7 f8, det3 [f0; f1; f2; f3; f4; f5; f6; f7; f8] <> 0 ->
  gl3_stress_cauchy f0 f1 f2 f3 f4 f5 f6 f7 f8 la mu = stensor_of (sigsvk la mu [f0; f1; f2; f3; f4; f5; f6; f7; f8]) ++ [0; 0; 0].
Proof. exact gl3_cauchy_ok. Qed.
Print Assumptions C55_green_lagrange_3D_cauchy.
